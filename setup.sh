#!/bin/bash
# Build the whole Coq development from files on disk (offline).  Gen/ is regenerated from /repo.
set -e
HERE="$(cd "$(dirname "${BASH_SOURCE[0]}")" && pwd)"
export VERIF_REPO="${VERIF_REPO:-/repo}"
export PYTHONPATH="$VERIF_REPO:$HERE/harness:$HERE/translator" PYTHONHASHSEED=0 PYTHONDONTWRITEBYTECODE=1 VERIF_ROOT="$HERE"
cd "$HERE"
/venv/bin/python - <<'PY'
import os, sys
sys.path.insert(0, os.path.join(os.environ['VERIF_ROOT'], 'translator'))
import vlib, units
for n in units.UNITS:
    print(units.generate(n, vlib.COQ))
files = vlib.coq_project()
ok, log, failing = vlib.coq_make([f + 'o' for f in files], timeout=3000)
print(log[-3000:])
print('setup build ok=%s failing=%s' % (ok, failing))
# a failing proof is reported by the individual check, not by setup
PY
