(* C19, second sentence -- the hypothesis "two endpoints ... share a protocol version and, for it, a
   cipher suite, group and signature scheme usable with the server's credentials", written from the
   property text over the CONTENTS of two validated settings objects.  Definitions only.
   This is a specification of the hypothesis, not a model of tlslite's negotiation (that is C03):
   the harness evaluates it on configuration pairs and runs the real handshake. *)
From Coq Require Import ZArith List Bool String.
From TV Require Import Base.Prelude Model.C19_Settings Spec.C19_Domain.
Import ListNotations.
Open Scope Z_scope.
Open Scope string_scope.

(* id, cipher, mac, key exchange ("tls13" for TLS 1.3 suites), needs TLS 1.2, sha384 PRF, allowed in SSLv3 *)
Definition suite := (Z * string * string * string * bool * bool * bool)%type.

Record cred := { cr_kind : string;      (* "rsa" | "ecdsa" | "psk" (no certificate: the shared external PSK is the credential) *)
                 cr_bits : Z;           (* size of the public key *)
                 cr_curve : string;     (* curve of an ECDSA key *)
                 cr_psk : string }.     (* PRF hash of the PSK both sides hold ("sha256" | "sha384"), "" = none *)

Definition has (l : list val) (s : string) : bool := val_in (VStr s) l.
Definition inter (a b : list val) : list val := filter (fun x => val_in x b) a.
Definition any_of (l : list val) (names : list string) : bool := existsb (has l) names.

(* a version is enabled by an object: inside [minVersion, maxVersion] and listed in `versions` *)
Definition enabled (v : vw) (ver : Z * Z) : bool :=
  ver_le (minVersion (VS v)) ver && ver_le ver (maxVersion (VS v))
  && val_in (VPair (fst ver) (snd ver)) (VG v F_versions).

Definition all_versions_desc : list (Z * Z) := [(3, 4); (3, 3); (3, 2); (3, 1); (3, 0)].
Definition shared_versions (vc vs : vw) : list (Z * Z) :=
  filter (fun ver => enabled vc ver && enabled vs ver) all_versions_desc.

Definition suite_enabled (v : vw) (ver : Z * Z) (su : suite) : bool :=
  let '(_, ciph, mac, kex, tls12only, _, ssl3ok) := su in
  has (VG v F_cipherNames) ciph && has (VG v F_macNames) mac &&
  (if ver_eqb ver (3, 4) then String.eqb kex "tls13"
   else negb (String.eqb kex "tls13") && has (VG v F_keyExchangeNames) kex
        && (negb tls12only || ver_eqb ver (3, 3)) && (negb (ver_eqb ver (3, 0)) || ssl3ok)).

Definition kex_of (su : suite) : string := let '(_, _, _, kex, _, _, _) := su in kex.

(* certificate-authenticated key exchanges and the key type they need *)
Definition kex_fits_cred (kex : string) (cr : cred) : bool :=
  if String.eqb (cr_kind cr) "rsa" then existsb (String.eqb kex) ["rsa"; "dhe_rsa"; "ecdhe_rsa"; "tls13"]
  else if String.eqb (cr_kind cr) "ecdsa" then existsb (String.eqb kex) ["ecdhe_ecdsa"; "tls13"]
  else false.

Definition tls13_only_group (g : val) : bool :=
  match g with VStr s => existsb (String.eqb s) ["brainpoolP256r1tls13"; "brainpoolP384r1tls13"; "brainpoolP512r1tls13";
                                                  "secp256r1mlkem768"; "x25519mlkem768"; "secp384r1mlkem1024"]
  | _ => false end.

Definition group_shared (T : tables) (vc vs : vw) (ver : Z * Z) (kex : string) : bool :=
  if ver_eqb ver (3, 4)
  then negb (isnil (filter (fun g => in_tab g (t_tls13_groups T))
                           (inter (VG vc F_eccCurves ++ VG vc F_dhGroups) (VG vs F_eccCurves ++ VG vs F_dhGroups))))
  else if existsb (String.eqb kex) ["ecdhe_rsa"; "ecdhe_ecdsa"]
       then negb (isnil (filter (fun g => negb (tls13_only_group g)) (inter (VG vc F_eccCurves) (VG vs F_eccCurves))))
       else if existsb (String.eqb kex) ["dhe_rsa"]
            then isnil (VG vc F_dhGroups) || negb (isnil (inter (VG vc F_dhGroups) (VG vs F_dhGroups)))
            else true.

Definition sha2 : list string := ["sha256"; "sha384"; "sha512"].

Definition sig_shared (vc vs : vw) (ver : Z * Z) (kex : string) (cr : cred) : bool :=
  let rsa_h := inter (VG vc F_rsaSigHashes) (VG vs F_rsaSigHashes) in
  let rsa_s := inter (VG vc F_rsaSchemes) (VG vs F_rsaSchemes) in
  let ec_h := inter (VG vc F_ecdsaSigHashes) (VG vs F_ecdsaSigHashes) in
  if ver_lt ver (3, 3) then true
  else if String.eqb (cr_kind cr) "rsa"
  then if ver_eqb ver (3, 4) then has rsa_s "pss" && any_of rsa_h sha2
       else String.eqb kex "rsa" || (has rsa_s "pkcs1" && negb (isnil rsa_h)) || (has rsa_s "pss" && any_of rsa_h sha2)
  else if ver_eqb ver (3, 4)
       then (* TLS 1.3 ECDSA schemes tie the hash to the curve of the key *)
            has ec_h (if String.eqb (cr_curve cr) "secp384r1" then "sha384"
                      else if String.eqb (cr_curve cr) "secp521r1" then "sha512" else "sha256")
       else negb (isnil ec_h).

(* the server's key is acceptable to the client's policy *)
Definition cred_acceptable (vc : vw) (cr : cred) : bool :=
  if String.eqb (cr_kind cr) "rsa"
  then ((minKeySize (VS vc) <=? cr_bits cr)%Z && (cr_bits cr <=? maxKeySize (VS vc))%Z)
  else has (VG vc F_eccCurves) (cr_curve cr).

(* one side insists on extended master secret, the other refuses it (TLS <= 1.2) *)
Definition ems_consistent (vc vs : vw) (ver : Z * Z) : bool :=
  ver_eqb ver (3, 4) ||
  (negb (truthy (requireExtendedMasterSecret (VS vc)) && negb (truthy (useExtendedMasterSecret (VS vs))))
   && negb (truthy (requireExtendedMasterSecret (VS vs)) && negb (truthy (useExtendedMasterSecret (VS vc))))).

Definition compatible_at (T : tables) (suites : list suite) (vc vs : vw) (cr : cred) (ver : Z * Z) : bool :=
  cred_acceptable vc cr && ems_consistent vc vs ver &&
  existsb (fun su => suite_enabled vc ver su && suite_enabled vs ver su && kex_fits_cred (kex_of su) cr
                     && group_shared T vc vs ver (kex_of su) && sig_shared vc vs ver (kex_of su) cr) suites.

(* ---- PSK-only servers (TLS 1.3 external PSK, no certificate) ------------------------------------
   "usable with the server's credentials": the credential is the PSK both endpoints list (2-tuple = sha256,
   3-tuple names its hash); the suite's PRF hash must be the PSK's; a key-exchange mode both allow, and a
   shared group when that mode is psk_dhe_ke. *)
Definition psk_listed (v : vw) (h : string) : bool :=
  existsb (fun x => match x with
                    | VPsk n hh => ((n =? 2)%Z && String.eqb h "sha256") || ((n =? 3)%Z && opt_str_eqb hh (Some h))
                    | _ => false end) (VG v F_pskConfigs).

Definition suite_prf384 (su : suite) : bool := let '(_, _, _, _, _, p384, _) := su in p384.

Definition compatible_psk_at (T : tables) (suites : list suite) (vc vs : vw) (h : string) (ver : Z * Z) : bool :=
  ver_eqb ver (3, 4) && psk_listed vc h && psk_listed vs h &&
  existsb (fun su => suite_enabled vc ver su && suite_enabled vs ver su
                     && Bool.eqb (suite_prf384 su) (String.eqb h "sha384")) suites &&
  ((has (VG vc F_psk_modes) "psk_ke" && has (VG vs F_psk_modes) "psk_ke") ||
   (has (VG vc F_psk_modes) "psk_dhe_ke" && has (VG vs F_psk_modes) "psk_dhe_ke" && group_shared T vc vs ver "tls13")).

(* "share a protocol version and, for it, ...": read as the version TLS negotiates, the highest shared one *)
Definition compatible (T : tables) (suites : list suite) (vc vs : vw) (cr : cred) : bool :=
  match shared_versions vc vs with
  | [] => false
  | ver :: _ => if String.eqb (cr_kind cr) "psk" then compatible_psk_at T suites vc vs (cr_psk cr) ver
                else compatible_at T suites vc vs cr ver
  end.

(* the weaker reading: SOME shared version has everything (recorded, not enforced) *)
Definition compatible_any (T : tables) (suites : list suite) (vc vs : vw) (cr : cred) : bool :=
  if String.eqb (cr_kind cr) "psk" then existsb (compatible_psk_at T suites vc vs (cr_psk cr)) (shared_versions vc vs)
  else existsb (compatible_at T suites vc vs cr) (shared_versions vc vs).
