(* C19, second sentence -- the hypothesis "two endpoints ... share a protocol version and, for it, a
   cipher suite, group and signature scheme usable with the server's credentials", written from the
   property text over the CONTENTS of two validated settings objects.  Definitions only.
   This is a specification of the hypothesis, not a model of tlslite's negotiation (that is C03):
   the harness evaluates it on configuration pairs and runs the real handshake. *)
From Coq Require Import ZArith List Bool String.
From TV Require Import Base.Prelude Model.C19_Settings Spec.C19_Domain.
Import ListNotations.
Open Scope Z_scope.
Open Scope string_scope.

(* id, cipher, mac, key exchange ("tls13" for TLS 1.3 suites), needs TLS 1.2, sha384 PRF, allowed in SSLv3 *)
Definition suite := (Z * string * string * string * bool * bool * bool)%type.

Record cred := { cr_kind : string;      (* "rsa" | "rsapss" | "ecdsa" | "eddsa" | "dsa" | "psk" (no certificate: the shared
                                           external PSK is the credential) | "" (no credential: no client certificate) *)
                 cr_bits : Z;           (* size of the public key *)
                 cr_curve : string;     (* curve of an ECDSA key (secp256r1, brainpoolP384r1, ...) / "Ed25519" | "Ed448" *)
                 cr_psk : string }.     (* PRF hash of the PSK both sides hold ("sha256" | "sha384"), "" = none *)

Definition has (l : list val) (s : string) : bool := val_in (VStr s) l.
Definition inter (a b : list val) : list val := filter (fun x => val_in x b) a.
Definition any_of (l : list val) (names : list string) : bool := existsb (has l) names.

(* a version is enabled by an object: inside [minVersion, maxVersion] and listed in `versions` *)
Definition enabled (v : vw) (ver : Z * Z) : bool :=
  ver_le (minVersion (VS v)) ver && ver_le ver (maxVersion (VS v))
  && val_in (VPair (fst ver) (snd ver)) (VG v F_versions).

Definition all_versions_desc : list (Z * Z) := [(3, 4); (3, 3); (3, 2); (3, 1); (3, 0)].
Definition shared_versions (vc vs : vw) : list (Z * Z) :=
  filter (fun ver => enabled vc ver && enabled vs ver) all_versions_desc.

Definition suite_enabled (v : vw) (ver : Z * Z) (su : suite) : bool :=
  let '(_, ciph, mac, kex, tls12only, _, ssl3ok) := su in
  has (VG v F_cipherNames) ciph && has (VG v F_macNames) mac &&
  (if ver_eqb ver (3, 4) then String.eqb kex "tls13"
   else negb (String.eqb kex "tls13") && has (VG v F_keyExchangeNames) kex
        && (negb tls12only || ver_eqb ver (3, 3)) && (negb (ver_eqb ver (3, 0)) || ssl3ok)).

Definition kex_of (su : suite) : string := let '(_, _, _, kex, _, _, _) := su in kex.

(* certificate-authenticated key exchanges and the key type they need *)
Definition kind_is (cr : cred) (k : string) : bool := String.eqb (cr_kind cr) k.
Definition kex_fits_cred (kex : string) (cr : cred) : bool :=
  if kind_is cr "rsa" then existsb (String.eqb kex) ["rsa"; "dhe_rsa"; "ecdhe_rsa"; "tls13"]
  else if kind_is cr "rsapss" then existsb (String.eqb kex) ["dhe_rsa"; "ecdhe_rsa"; "tls13"]
  else if kind_is cr "ecdsa" || kind_is cr "eddsa" then existsb (String.eqb kex) ["ecdhe_ecdsa"; "tls13"]
  else if kind_is cr "dsa" then String.eqb kex "dhe_dsa"
  else false.

Definition tls13_only_group (g : val) : bool :=
  match g with VStr s => existsb (String.eqb s) ["brainpoolP256r1tls13"; "brainpoolP384r1tls13"; "brainpoolP512r1tls13";
                                                  "secp256r1mlkem768"; "x25519mlkem768"; "secp384r1mlkem1024"]
  | _ => false end.

Definition group_shared (T : tables) (vc vs : vw) (ver : Z * Z) (kex : string) : bool :=
  if ver_eqb ver (3, 4)
  then negb (isnil (filter (fun g => in_tab g (t_tls13_groups T))
                           (inter (VG vc F_eccCurves ++ VG vc F_dhGroups) (VG vs F_eccCurves ++ VG vs F_dhGroups))))
  else if existsb (String.eqb kex) ["ecdhe_rsa"; "ecdhe_ecdsa"]
       then negb (isnil (filter (fun g => negb (tls13_only_group g)) (inter (VG vc F_eccCurves) (VG vs F_eccCurves))))
       else if existsb (String.eqb kex) ["dhe_rsa"; "dhe_dsa"]
            then isnil (VG vc F_dhGroups) || negb (isnil (inter (VG vc F_dhGroups) (VG vs F_dhGroups)))
            else true.

Definition sha2 : list string := ["sha256"; "sha384"; "sha512"].
(* RSASSA-PSS with salt length = hash length needs emLen >= 2*hLen + 2 (RFC 8017 9.1.1): a 1024-bit key cannot
   sign with SHA-512 *)
Definition pss_hashes (bits : Z) : list string :=
  filter (fun h => if String.eqb h "sha512" then (1040 <=? bits)%Z else if String.eqb h "sha384" then (784 <=? bits)%Z
                   else (528 <=? bits)%Z) sha2.

(* hash bound to the curve in the TLS 1.3 ecdsa_* schemes *)
Definition curve_hash (c : string) : string :=
  if existsb (String.eqb c) ["secp384r1"; "brainpoolP384r1"] then "sha384"
  else if existsb (String.eqb c) ["secp521r1"; "brainpoolP512r1"] then "sha512" else "sha256".
Definition is_brainpool (c : string) : bool := existsb (String.eqb c) ["brainpoolP256r1"; "brainpoolP384r1"; "brainpoolP512r1"].

(* A signature scheme for the key [cr] that both the signing and the verifying side enable at version [ver]
   (symmetric in the two sides: used for the server's key and for the client's key).  Per-dimension reading of
   the property: the intersection of every signature list that concerns the key must be non-empty, also when
   the suite finally chosen is an RSA key transport one that needs no signature ([kex] is not consulted). *)
Definition sig_shared (va vb : vw) (ver : Z * Z) (kex : string) (cr : cred) : bool :=
  let rsa_h := inter (VG va F_rsaSigHashes) (VG vb F_rsaSigHashes) in
  let rsa_s := inter (VG va F_rsaSchemes) (VG vb F_rsaSchemes) in
  let ec_h := inter (VG va F_ecdsaSigHashes) (VG vb F_ecdsaSigHashes) in
  let dsa_h := inter (VG va F_dsaSigHashes) (VG vb F_dsaSigHashes) in
  let more := inter (VG va F_more_sig_schemes) (VG vb F_more_sig_schemes) in
  if kind_is cr "rsa"
  then if ver_lt ver (3, 3) then true
       else if ver_eqb ver (3, 4) then has rsa_s "pss" && any_of rsa_h (pss_hashes (cr_bits cr))
       else (has rsa_s "pkcs1" && negb (isnil rsa_h)) || (has rsa_s "pss" && any_of rsa_h (pss_hashes (cr_bits cr)))
  else if kind_is cr "rsapss"            (* RSASSA-PSS keys sign with rsa_pss_pss_* only: TLS 1.2 and up *)
  then negb (ver_lt ver (3, 3)) && has rsa_s "pss" && any_of rsa_h (pss_hashes (cr_bits cr))
  else if kind_is cr "ecdsa"
  then if ver_lt ver (3, 3) then true
       else if ver_eqb ver (3, 4)
            then (* TLS 1.3 ECDSA schemes tie the hash to the curve of the key *)
                 if is_brainpool (cr_curve cr)
                 then has more ("ecdsa_" ++ cr_curve cr ++ "tls13_" ++ curve_hash (cr_curve cr))
                 else has ec_h (curve_hash (cr_curve cr))
            else (* TLS 1.2: any enabled hash goes with any ECDSA key *) negb (isnil ec_h)
  else if kind_is cr "eddsa"
  then negb (ver_lt ver (3, 3)) && has more (cr_curve cr)
  else if kind_is cr "dsa"
  then if ver_eqb ver (3, 4) then false else ver_lt ver (3, 3) || negb (isnil dsa_h)
  else false.

(* the key is acceptable to the verifying side's policy *)
Definition cred_acceptable (v : vw) (cr : cred) : bool :=
  if kind_is cr "rsa" || kind_is cr "rsapss" || kind_is cr "dsa"
  then ((minKeySize (VS v) <=? cr_bits cr)%Z && (cr_bits cr <=? maxKeySize (VS v))%Z)
  else if kind_is cr "ecdsa" then has (VG v F_eccCurves) (cr_curve cr)
  else true.

(* one side insists on extended master secret, the other refuses it (TLS <= 1.2) *)
Definition ems_consistent (vc vs : vw) (ver : Z * Z) : bool :=
  ver_eqb ver (3, 4) ||
  (negb (truthy (requireExtendedMasterSecret (VS vc)) && negb (truthy (useExtendedMasterSecret (VS vs))))
   && negb (truthy (requireExtendedMasterSecret (VS vs)) && negb (truthy (useExtendedMasterSecret (VS vc))))).

(* client authentication (server asks with reqCert, the client holds [ccr]): a scheme for the client's key is
   shared at this version and the key is acceptable to the server's policy.  (A client holding a certificate
   it cannot use aborts rather than answering with an empty list: no demand is made for such pairs.) *)
Definition client_auth_ok (vc vs : vw) (ver : Z * Z) (ccr : cred) : bool :=
  kind_is ccr "" || (sig_shared vc vs ver "" ccr && cred_acceptable vs ccr).

Definition compatible_at (T : tables) (suites : list suite) (vc vs : vw) (cr ccr : cred) (ver : Z * Z) : bool :=
  cred_acceptable vc cr && ems_consistent vc vs ver && client_auth_ok vc vs ver ccr &&
  existsb (fun su => suite_enabled vc ver su && suite_enabled vs ver su && kex_fits_cred (kex_of su) cr
                     && group_shared T vc vs ver (kex_of su) && sig_shared vc vs ver (kex_of su) cr) suites.

(* ---- PSK-only servers (TLS 1.3 external PSK, no certificate) ------------------------------------
   "usable with the server's credentials": the credential is the PSK both endpoints list (2-tuple = sha256,
   3-tuple names its hash); the suite's PRF hash must be the PSK's; a key-exchange mode both allow, and a
   shared group when that mode is psk_dhe_ke. *)
Definition psk_listed (v : vw) (h : string) : bool :=
  existsb (fun x => match x with
                    | VPsk n hh => ((n =? 2)%Z && String.eqb h "sha256") || ((n =? 3)%Z && opt_str_eqb hh (Some h))
                    | _ => false end) (VG v F_pskConfigs).

Definition suite_prf384 (su : suite) : bool := let '(_, _, _, _, _, p384, _) := su in p384.

Definition compatible_psk_at (T : tables) (suites : list suite) (vc vs : vw) (h : string) (ver : Z * Z) : bool :=
  ver_eqb ver (3, 4) && psk_listed vc h && psk_listed vs h &&
  existsb (fun su => suite_enabled vc ver su && suite_enabled vs ver su
                     && Bool.eqb (suite_prf384 su) (String.eqb h "sha384")) suites &&
  (* psk_dhe_ke is preferred when both allow it and then needs a shared group (the server does not fall back to
     psk_ke when no group is shared: no demand for that case); psk_ke alone needs none *)
  (if has (VG vc F_psk_modes) "psk_dhe_ke" && has (VG vs F_psk_modes) "psk_dhe_ke"
   then group_shared T vc vs ver "tls13"
   else has (VG vc F_psk_modes) "psk_ke" && has (VG vs F_psk_modes) "psk_ke").

(* "share a protocol version and, for it, ...": read as the version TLS negotiates, the highest shared one *)
Definition compatible (T : tables) (suites : list suite) (vc vs : vw) (cr ccr : cred) : bool :=
  match shared_versions vc vs with
  | [] => false
  | ver :: _ => if String.eqb (cr_kind cr) "psk" then compatible_psk_at T suites vc vs (cr_psk cr) ver
                else compatible_at T suites vc vs cr ccr ver
  end.

(* the weaker reading: SOME shared version has everything (recorded, not enforced) *)
Definition compatible_any (T : tables) (suites : list suite) (vc vs : vw) (cr ccr : cred) : bool :=
  if String.eqb (cr_kind cr) "psk" then existsb (compatible_psk_at T suites vc vs (cr_psk cr)) (shared_versions vc vs)
  else existsb (compatible_at T suites vc vs cr ccr) (shared_versions vc vs).
