(* C19 -- specification side, written from the documentation, not from the code:
     * the documented domain of every HandshakeSettings dimension (class docstring of
       HandshakeSettings, the module-level name tables, the texts of the ValueError messages and
       unit_tests/test_tlslite_handshakesettings.py for the numeric bounds);
     * what "supported by the running installation" means for a validated object;
     * `compatible`: the hypothesis of the second sentence of the property.
   Definitions only.  Everything here speaks about CONTENTS (a view), never about locations. *)
From Coq Require Import ZArith List Bool String.
From TV Require Import Base.Prelude Model.C19_Settings.
Import ListNotations.
Open Scope Z_scope.

Definition vw := (list (list val) * scalars)%type.
Definition VG (v : vw) (f : nat) : list val := nth f (fst v) [].
Definition VS (v : vw) : scalars := snd v.

Definition sub_tab (l : list val) (t : list string) : bool := forallb (fun x => in_tab x t) l.
Definition has_len_in (x : val) (ns : list Z) : bool :=
  match py_len x with Ok n => existsb (Z.eqb n) ns | Err _ => false end.
Definition is_pair (x : val) : bool := match x with VPair _ _ => true | _ => false end.
Definition is_host (x : val) : bool := match x with VHost _ => true | _ => false end.
Definition has_len (x : val) : bool := is_ok (py_len x).

(* ---- kinds: every value is of the Python type the documentation gives for its attribute
   (list(str), list(tuple), bool, str ...).  The property quantifies over configurations obtained from
   the defaults, i.e. well-typed ones; what validate() does with values of another type is recorded by
   the harness on the implementation and summarised by wrong_kind_other_exception in Props/C19.v. ---- *)
Definition is_str (x : val) : bool := match x with VStr _ => true | _ => false end.
Definition is_tuple (x : val) : bool := match x with VPair _ _ | VPsk _ _ => true | _ => false end.
Definition is_bytes (x : val) : bool := match x with VBytes _ => true | _ => false end.
Definition name_fields : list nat :=
  [F_cipherNames; F_macNames; F_keyExchangeNames; F_cipherImplementations; F_certificate_compression_send;
   F_certificate_compression_receive; F_certificateTypes; F_rsaSigHashes; F_rsaSchemes; F_dsaSigHashes;
   F_ecdsaSigHashes; F_more_sig_schemes; F_eccCurves; F_dhGroups; F_keyShares; F_psk_modes].
Definition typed (v : vw) : bool :=
  forallb (fun f => forallb is_str (VG v f)) name_fields
  && forallb is_host (VG v F_virtual_hosts) && forallb is_pair (VG v F_versions)
  && forallb is_int (VG v F_ec_point_formats)
  && forallb is_tuple (VG v F_pskConfigs) && forallb is_tuple (VG v F_dc_sig_algs)
  && forallb is_bytes (VG v F_ticketKeys)
  && forallb boolish [useExtendedMasterSecret (VS v); requireExtendedMasterSecret (VS v);
                      useExperimentalTackExtension (VS v); sendFallbackSCSV (VS v); useEncryptThenMAC (VS v);
                      usePaddingExtension (VS v); use_heartbeat_extension (VS v)]
  && is_str (ticketCipher (VS v)) && is_str (defaultCurve (VS v)).

(* ---- documented domains, one predicate per dimension --------------------------------------------- *)
Inductive dim :=
| D_keySizes | D_virtual_hosts | D_cipherNames | D_macNames | D_keyExchangeNames
| D_cipherImplementations | D_certificateTypes | D_eccCurves | D_defaultCurve | D_dhGroups | D_keyShares
| D_sigHashes | D_sigAlgsPresent | D_dhParams | D_versionRange | D_flags | D_heartbeat | D_EMS
| D_record_size_limit | D_ec_point_formats | D_dc_sig_algs | D_dc_valid_time | D_compression
| D_pskConfigs | D_psk_modes | D_ticketCipher | D_ticketKeys | D_ticketLifetime | D_max_early_data
| D_ticket_count.

Definition all_dims : list dim :=
  [D_keySizes; D_virtual_hosts; D_cipherNames; D_macNames; D_keyExchangeNames;
   D_cipherImplementations; D_certificateTypes; D_eccCurves; D_defaultCurve; D_dhGroups; D_keyShares;
   D_sigHashes; D_sigAlgsPresent; D_dhParams; D_versionRange; D_flags; D_heartbeat; D_EMS;
   D_record_size_limit; D_ec_point_formats; D_dc_sig_algs; D_dc_valid_time; D_compression;
   D_pskConfigs; D_psk_modes; D_ticketCipher; D_ticketKeys; D_ticketLifetime; D_max_early_data;
   D_ticket_count].

Definition dim_eqb (a b : dim) : bool :=
  match a, b with
  | D_keySizes, D_keySizes | D_virtual_hosts, D_virtual_hosts | D_cipherNames, D_cipherNames
  | D_macNames, D_macNames | D_keyExchangeNames, D_keyExchangeNames
  | D_cipherImplementations, D_cipherImplementations | D_certificateTypes, D_certificateTypes
  | D_eccCurves, D_eccCurves | D_defaultCurve, D_defaultCurve | D_dhGroups, D_dhGroups
  | D_keyShares, D_keyShares | D_sigHashes, D_sigHashes | D_sigAlgsPresent, D_sigAlgsPresent
  | D_dhParams, D_dhParams | D_versionRange, D_versionRange | D_flags, D_flags
  | D_heartbeat, D_heartbeat | D_EMS, D_EMS | D_record_size_limit, D_record_size_limit
  | D_ec_point_formats, D_ec_point_formats | D_dc_sig_algs, D_dc_sig_algs
  | D_dc_valid_time, D_dc_valid_time | D_compression, D_compression | D_pskConfigs, D_pskConfigs
  | D_psk_modes, D_psk_modes | D_ticketCipher, D_ticketCipher | D_ticketKeys, D_ticketKeys
  | D_ticketLifetime, D_ticketLifetime | D_max_early_data, D_max_early_data
  | D_ticket_count, D_ticket_count => true
  | _, _ => false
  end.

(* "The keys need to be of size appropriate for a selected cipher in ticketCipher, 32 bytes for
   'aes256gcm' and 'chacha20-poly1305', 16 bytes for 'aes128-gcm'" (docstring of ticketKeys):
   16 for the AES-128 ciphers, 32 for every other one = Model.ticket_key_len *)

Definition dom (T : tables) (d : dim) (v : vw) : bool :=
  let c := VS v in
  match d with
  | D_keySizes =>                 (* 512..16384 each, min <= max ("minKeySize too small" ...) *)
      (512 <=? minKeySize c) && (minKeySize c <=? 16384) && (512 <=? maxKeySize c) && (maxKeySize c <=? 16384)
      && (minKeySize c <=? maxKeySize c)
  | D_virtual_hosts =>            (* every virtual host has keys; every Keypair has key and certificates *)
      forallb (fun x => match x with
                        | VHost keys => negb (isnil keys) && forallb (fun k => fst k && snd k) keys
                        | _ => false end) (VG v F_virtual_hosts)
  | D_cipherNames => negb (isnil (VG v F_cipherNames)) && sub_tab (VG v F_cipherNames) (t_all_cipher T)
  | D_macNames => sub_tab (VG v F_macNames) (t_all_mac T)
  | D_keyExchangeNames => sub_tab (VG v F_keyExchangeNames) (t_kex T)
  | D_cipherImplementations =>
      negb (isnil (VG v F_cipherImplementations)) && sub_tab (VG v F_cipherImplementations) (t_impl T)
  | D_certificateTypes => negb (isnil (VG v F_certificateTypes)) && sub_tab (VG v F_certificateTypes) (t_certtypes T)
  | D_eccCurves =>                (* known curves; with TLS 1.3 but not 1.2 enabled only RFC 8446 groups *)
      sub_tab (VG v F_eccCurves) (t_all_curves T)
      && (if negb (val_in (VPair 3 3) (VG v F_versions)) && val_in (VPair 3 4) (VG v F_versions)
          then sub_tab (VG v F_eccCurves) (t_tls13_groups T) else true)
  | D_defaultCurve => in_tab (defaultCurve c) (t_all_curves T)
  | D_dhGroups => sub_tab (VG v F_dhGroups) (t_all_dh T)
  | D_keyShares =>                (* key shares only for enabled groups *)
      forallb (fun x => val_in x (VG v F_eccCurves) || val_in x (VG v F_dhGroups)) (VG v F_keyShares)
      && forallb (fun x => in_tab x (t_all_curves T) || in_tab x (t_all_dh T)) (VG v F_keyShares)
  | D_sigHashes =>
      sub_tab (VG v F_ecdsaSigHashes) (t_ecdsa_hashes T) && sub_tab (VG v F_dsaSigHashes) (t_dsa_hashes T)
      && sub_tab (VG v F_rsaSigHashes) (t_all_rsa_hashes T) && sub_tab (VG v F_rsaSchemes) (t_rsa_schemes T)
      && sub_tab (VG v F_more_sig_schemes) (t_sig_schemes T)
  | D_sigAlgsPresent =>           (* "TLS 1.2 requires signature algorithms to be set" *)
      negb (isnil (VG v F_rsaSigHashes) && isnil (VG v F_ecdsaSigHashes) && isnil (VG v F_dsaSigHashes)
            && isnil (VG v F_more_sig_schemes) && ver_le (3, 3) (maxVersion c))
  | D_dhParams =>                 (* unset, or a pair of integers *)
      match dhParams c with
      | None | Some [] => true
      | Some [a; b] => is_int a && is_int b
      | Some _ => false
      end
  | D_versionRange =>
      ver_le (minVersion c) (maxVersion c) && existsb (ver_eqb (minVersion c)) (t_known_versions T)
      && existsb (ver_eqb (maxVersion c)) (t_known_versions T)
  | D_flags => boolish (useEncryptThenMAC c) && boolish (usePaddingExtension c) && boolish (use_heartbeat_extension c)
  | D_heartbeat => negb (heartbeat_response_callback c && negb (truthy (use_heartbeat_extension c)))
  | D_EMS => boolish (useExtendedMasterSecret c) && boolish (requireExtendedMasterSecret c)
             && negb (truthy (requireExtendedMasterSecret c) && negb (truthy (useExtendedMasterSecret c)))
  | D_record_size_limit =>
      match record_size_limit c with None => true | Some r => (64 <=? r) && (r <=? 2 ^ 14 + 1) end
  | D_ec_point_formats =>
      forallb (fun x => in_ztab x (t_ecpf T)) (VG v F_ec_point_formats)
      && val_in (VInt (t_ecpf_uncompressed T)) (VG v F_ec_point_formats)
  | D_dc_sig_algs =>              (* RFC 9345: rsa_pss_rsae_* "are not allowed for use with delegated credentials" *)
      negb (existsb (forbidden_alg T) (VG v F_dc_sig_algs))
  | D_dc_valid_time => dc_valid_time c <=? t_dc_valid_time T
  | D_compression =>
      sub_tab (VG v F_certificate_compression_send) (t_comp_send T)
      && sub_tab (VG v F_certificate_compression_receive) (t_comp_recv T)
  | D_pskConfigs =>               (* 2- or 3-element tuples; the third element names sha256 or sha384 *)
      forallb (fun x => has_len_in x [2; 3] && negb (bad_psk_hash x)) (VG v F_pskConfigs)
  | D_psk_modes => sub_tab (VG v F_psk_modes) (t_psk_modes T)
  | D_ticketCipher => in_tab (ticketCipher c) (t_ticket_ciphers T)
  | D_ticketKeys => forallb (fun x => has_len_in x [ticket_key_len (ticketCipher c)]) (VG v F_ticketKeys)
  | D_ticketLifetime => (0 <? ticketLifetime c) && (ticketLifetime c <=? 604800)
  | D_max_early_data => (0 <? max_early_data c) && (max_early_data c <=? 2 ^ 64)
  | D_ticket_count => (0 <=? ticket_count c) && (ticket_count c <? 2 ^ 16)
  end.

Definition in_domain (T : tables) (v : vw) : bool := forallb (fun d => dom T d v) all_dims.

(* Before /repo 8cc633e and c50a338 validate() was laxer than the documentation on D_dc_sig_algs and
   D_ticketKeys (rejects_outside_domain held for the other 30 dimensions only); now every dimension is
   enforced as documented. *)

(* ---- supported by the running installation ---------------------------------------------------- *)
Definition impl_available (I : install) (x : val) : bool :=
  negb (py_eq x (VStr "openssl") && negb (i_m2crypto I)) && negb (py_eq x (VStr "pycrypto") && negb (i_pycrypto I)).
Definition cipher_available (I : install) (x : val) : bool := negb (py_eq x (VStr "3des") && negb (i_tdes I)).

(* something usable remains after the unavailable back-ends / ciphers are dropped *)
Definition something_supported (I : install) (v : vw) : bool :=
  negb (isnil (filter (impl_available I) (VG v F_cipherImplementations)))
  && negb (isnil (filter (cipher_available I) (VG v F_cipherNames))).

(* a validated object names only what the installation has *)
Definition supported_only (T : tables) (I : install) (v : vw) : bool :=
  let c := VS v in
  forallb (fun x => in_tab x (t_impl T) && impl_available I x) (VG v F_cipherImplementations)
  && forallb (fun x => in_tab x (t_all_cipher T) && cipher_available I x) (VG v F_cipherNames)
  && sub_tab (VG v F_macNames) (t_all_mac T)
  && (if ver_lt (maxVersion c) (3, 3) then sub_tab (VG v F_macNames) ["sha"; "md5"]%string else true)
  && forallb (fun x => match x with VPair a b => in_range (clip_lo (minVersion c)) (maxVersion c) a b | _ => false end)
             (VG v F_versions)      (* `versions` inside [min(minVersion, (3,3)), maxVersion] *)
  && sub_tab (VG v F_keyExchangeNames) (t_kex T)
  && sub_tab (VG v F_certificateTypes) (t_certtypes T)
  && sub_tab (VG v F_eccCurves) (t_all_curves T) && sub_tab (VG v F_dhGroups) (t_all_dh T)
  && forallb (fun x => in_tab x (t_all_curves T) || in_tab x (t_all_dh T)) (VG v F_keyShares)
  && sub_tab (VG v F_ecdsaSigHashes) (t_ecdsa_hashes T) && sub_tab (VG v F_dsaSigHashes) (t_dsa_hashes T)
  && sub_tab (VG v F_rsaSigHashes) (t_all_rsa_hashes T) && sub_tab (VG v F_rsaSchemes) (t_rsa_schemes T)
  && sub_tab (VG v F_more_sig_schemes) (t_sig_schemes T)
  && sub_tab (VG v F_certificate_compression_send) (t_comp_send T)
  && sub_tab (VG v F_certificate_compression_receive) (t_comp_recv T)
  && sub_tab (VG v F_psk_modes) (t_psk_modes T)
  && in_tab (ticketCipher c) (t_ticket_ciphers T)
  && in_tab (defaultCurve c) (t_all_curves T)
  && forallb (fun x => in_ztab x (t_ecpf T)) (VG v F_ec_point_formats).
