(* The TLS key calculations as the RFCs define them, over hash/HMAC oracles.  Definitions only.
   RFC 8446 7.1/7.3 (HKDF-Expand-Label, Derive-Secret, traffic keys), RFC 6101 5.6.9/6.1/6.2.2 (SSLv3),
   RFC 2246/4346 5, 6.3, 7.4.9, 8.1, RFC 5246 5, 6.3, 7.4.9, 8.1, RFC 7627 4. *)
From Coq Require Import ZArith List Bool String.
From TV Require Import Base.Prelude Base.C09_Lib Base.C09_Oracle Spec.C09_KDF.
Import ListNotations.
Open Scope list_scope.
Open Scope Z_scope.

Definition ascii_bytes (s : string) : list Z :=
  map (fun a => Z.of_nat (Ascii.nat_of_ascii a)) (list_ascii_of_string s).

Section KeyCalc.
  Variable Orc : Oracles.

  (* RFC 8446 7.1:  struct { uint16 length = Length; opaque label<7..255> = "tls13 " + Label;
                             opaque context<0..255> = Context; } HkdfLabel *)
  Definition hkdf_label_rfc (length : Z) (label context : list Z) : list Z :=
    let full := ascii_bytes "tls13 " ++ label in
    [length / 256; length mod 256] ++ [zlen full] ++ full ++ [zlen context] ++ context.

  Definition hkdf_expand_label_rfc (alg : string) (secret label context : list Z) (length : Z) : option (list Z) :=
    if (0 <=? length) && (length <=? 65535) && (zlen label + 6 <=? 255) && (zlen context <=? 255)
    then hkdf_expand_rfc Orc alg secret (hkdf_label_rfc length label context) length
    else None.

  (* Derive-Secret(Secret, Label, Messages) = HKDF-Expand-Label(Secret, Label, Transcript-Hash(Messages), Hash.length) *)
  Definition derive_secret_rfc (alg : string) (secret label messages : list Z) : option (list Z) :=
    match digest_size alg with
    | Some hl => hkdf_expand_label_rfc alg secret label (o_hash Orc alg messages) hl
    | None => None
    end.

  (* RFC 8446 7.3: [sender]_write_key = HKDF-Expand-Label(Secret, "key", "", key_length); iv likewise, iv_length = 12 *)
  Definition traffic_keys_rfc (alg : string) (secret : list Z) (key_length : Z) : option (list Z * list Z) :=
    match hkdf_expand_label_rfc alg secret (ascii_bytes "key") [] key_length,
          hkdf_expand_label_rfc alg secret (ascii_bytes "iv") [] 12 with
    | Some k, Some iv => Some (k, iv)
    | _, _ => None
    end.

  (* RFC 6101 6.2.2: key_block = MD5(master_secret + SHA('A' + master_secret + randoms)) +
                                 MD5(master_secret + SHA('BB' + ...)) + MD5(master_secret + SHA('CCC' + ...)) + [...] *)
  Definition ssl3_round (secret seed : list Z) (i : Z) : list Z :=
    o_hash Orc "md5" (secret ++ o_hash Orc "sha1" (repeat (65 + i) (Z.to_nat (i + 1)) ++ secret ++ seed)).
  Definition prf_ssl_rfc (secret seed : list Z) (n : Z) : list Z :=
    firstn (Z.to_nat n) (flat_map (ssl3_round secret seed) (zrange 0 26)).

  (* RFC 6101 5.6.9: md5_hash = MD5(master_secret + pad2 + MD5(handshake_messages + Sender + master_secret + pad1)) etc.
     pad1 = 0x36 x 48 (MD5) / x 40 (SHA), pad2 = 0x5c likewise *)
  Definition ssl3_finished (messages master sender : list Z) : list Z :=
    o_hash Orc "md5" (master ++ repeat 0x5c 48 ++ o_hash Orc "md5" (messages ++ sender ++ master ++ repeat 0x36 48)) ++
    o_hash Orc "sha1" (master ++ repeat 0x5c 40 ++ o_hash Orc "sha1" (messages ++ sender ++ master ++ repeat 0x36 40)).

  Inductive purpose := MasterSecret | ExtMasterSecret | KeyExpansion | ClientFinished | ServerFinished.

  Definition purpose_label (p : purpose) : list Z :=
    ascii_bytes (match p with
                 | MasterSecret => "master secret" | ExtMasterSecret => "extended master secret"
                 | KeyExpansion => "key expansion" | ClientFinished => "client finished"
                 | ServerFinished => "server finished" end).

  (* the table:  master_secret = PRF(pre_master_secret, "master secret", ClientHello.random + ServerHello.random)[0..47]
                 key_block = PRF(master_secret, "key expansion", server_random + client_random)
                 verify_data = PRF(master_secret, finished_label, Hash(handshake_messages))[0..11]
                 (RFC 7627) master_secret = PRF(pre_master_secret, "extended master secret", session_hash)[0..47]
     Hash / session_hash = MD5 + SHA-1 before TLS 1.2, the PRF hash in TLS 1.2 *)
  Definition calc_key_rfc (version : Z * Z) (sha384 : bool) (p : purpose)
             (secret messages cr sr : list Z) (n : Z) : list Z :=
    if pairZ_eqb version (3, 0) then
      match p with
      | ClientFinished => ssl3_finished messages secret (ascii_bytes "CLNT")
      | ServerFinished => ssl3_finished messages secret (ascii_bytes "SRVR")
      | MasterSecret => prf_ssl_rfc secret (cr ++ sr) n
      | KeyExpansion => prf_ssl_rfc secret (sr ++ cr) n
      | ExtMasterSecret => []
      end
    else
      let tls12 := pairZ_eqb version (3, 3) in
      let alg := if sha384 then "sha384"%string else "sha256"%string in
      let hl := if sha384 then 48 else 32 in
      let seed := match p with
                  | MasterSecret => cr ++ sr
                  | KeyExpansion => sr ++ cr
                  | _ => if tls12 then o_hash Orc alg messages
                         else o_hash Orc "md5" messages ++ o_hash Orc "sha1" messages
                  end in
      if tls12 then prf12_rfc Orc alg hl secret (purpose_label p) seed n
      else prf10_rfc Orc secret (purpose_label p) seed n.

  (* RFC 5246 6.3: the key_block is partitioned, in this order, into
     client_write_MAC_key, server_write_MAC_key, client_write_key, server_write_key, client_write_IV, server_write_IV *)
  Definition key_block_partition (kb : list Z) (mac key iv : nat) : list (list Z) :=
    [firstn mac kb; firstn mac (skipn mac kb); firstn key (skipn (2 * mac) kb); firstn key (skipn (2 * mac + key) kb);
     firstn iv (skipn (2 * mac + 2 * key) kb); firstn iv (skipn (2 * mac + 2 * key + iv) kb)].
End KeyCalc.
