(* RC4 (as in RFC 6229's reference description), CBC and CTR modes (NIST SP 800-38A 6.2, 6.5)
   over an abstract block cipher.  Definitions only; written from the standards. *)
From Coq Require Import ZArith List Bool.
From TV Require Import Base.Prelude Base.C09_Lib Spec.C09_Poly1305.
Import ListNotations.
Open Scope Z_scope.

(* ---- RC4 ------------------------------------------------------------------------------- *)
Definition swap (Sb : list Z) (i j : Z) : list Z :=
  set_nth (set_nth Sb (Z.to_nat i) (nthZ Sb j)) (Z.to_nat j) (nthZ Sb i).

(* key scheduling: for i = 0..255: j = (j + Sb[i] + key[i mod keylength]) mod 256; swap(Sb[i], Sb[j]) *)
Definition rc4_ksa (key : list Z) : list Z :=
  snd (fold_left (fun '(j, Sb) i =>
                    let j := (j + nthZ Sb i + nthZ key (i mod zlen key)) mod 256 in
                    (j, swap Sb i j))
                 (zrange 0 256) (0, zrange 0 256)).

(* one output byte: i = (i+1) mod 256; j = (j + Sb[i]) mod 256; swap; K = Sb[(Sb[i] + Sb[j]) mod 256] *)
Definition rc4_step (st : list Z * Z * Z) : (list Z * Z * Z) * Z :=
  let '(Sb, i, j) := st in
  let i := (i + 1) mod 256 in
  let j := (j + nthZ Sb i) mod 256 in
  let Sb := swap Sb i j in
  ((Sb, i, j), nthZ Sb ((nthZ Sb i + nthZ Sb j) mod 256)).

(* encrypt/decrypt: XOR the data with the key stream, threading the generator state *)
Fixpoint rc4_crypt (st : list Z * Z * Z) (data : list Z) : (list Z * Z * Z) * list Z :=
  match data with
  | [] => (st, [])
  | b :: rest =>
      let '(st1, k) := rc4_step st in
      let '(st2, out) := rc4_crypt st1 rest in
      (st2, Z.lxor b k :: out)
  end.

(* ---- block cipher modes ------------------------------------------------------------------ *)
Section Modes.
  Variable E D : list Z -> list Z.          (* the block cipher under one key, and its inverse *)
  Variable bs : nat.                        (* block size in bytes *)

  Definition xorb (a b : list Z) : list Z := map (fun p => Z.lxor (fst p) (snd p)) (combine a b).

  (* SP 800-38A 6.2: C_1 = E(P_1 xor IV), C_j = E(P_j xor C_{j-1});  P_1 = D(C_1) xor IV, P_j = D(C_j) xor C_{j-1}.
     The functions return the chaining value to be used by a following call (the last ciphertext block). *)
  Fixpoint cbc_enc_blocks (iv : list Z) (blocks : list (list Z)) : list Z * list Z :=
    match blocks with
    | [] => (iv, [])
    | p :: rest => let c := E (xorb p iv) in
                   let '(iv', out) := cbc_enc_blocks c rest in (iv', c ++ out)
    end.
  Fixpoint cbc_dec_blocks (iv : list Z) (blocks : list (list Z)) : list Z * list Z :=
    match blocks with
    | [] => (iv, [])
    | c :: rest => let p := xorb (D c) iv in
                   let '(iv', out) := cbc_dec_blocks c rest in (iv', p ++ out)
    end.
  Definition cbc_encrypt_spec (iv data : list Z) : list Z * list Z := cbc_enc_blocks iv (chunks bs data).
  Definition cbc_decrypt_spec (iv data : list Z) : list Z * list Z := cbc_dec_blocks iv (chunks bs data).

  (* SP 800-38A 6.5: O_j = E(T_j), C_j = P_j xor O_j, last block truncated; T_{j+1} = T_j + 1 (standard
     incrementing function over the whole block, big endian) *)
  Definition ctr_inc (t : list Z) : list Z := be_bytes (length t) ((be_num t + 1) mod 256 ^ zlen t).
  Fixpoint ctr_blocks (t : list Z) (n : nat) : list Z :=
    match n with O => [] | S k => E t ++ ctr_blocks (ctr_inc t) k end.
  Definition ctr_crypt_spec (t data : list Z) : list Z :=
    xorb data (ctr_blocks t (Z.to_nat ((zlen data + Z.of_nat bs - 1) / Z.of_nat bs))).
End Modes.
