(* C02: additional hypotheses on the oracles (definitions only).

   aead_tight is a FUNCTIONAL property shared by AES-GCM, AES-CCM and ChaCha20-Poly1305
   (open recomputes the tag from nonce, aad and ciphertext and decrypts with a keystream, so
   whatever opens is the sealing of what it opens to); it is not an idealisation.

   The `_ideal` hypotheses are the symbolic (Dolev-Yao) reading of "cannot forge": tags and
   sealed texts are collision free.  They are false of any MAC with a fixed digest size on an
   unbounded message space (pigeonhole) and say nothing about computational security; they
   are satisfiable (Example in Props/C02.v) only by a "transparent" primitive whose output
   contains its input.  Every theorem that uses one carries the suffix _ideal. *)
From Coq Require Import ZArith List Bool.
From TV Require Import Base.Prelude Model.C01_RecordPipe.
Import ListNotations.
Open Scope Z_scope.

Section Ideal.
Context {CS : Type}.

Definition aead_tight (P : Prim CS) : Prop :=
  forall n ct a p, pr_open P n ct a = Some p -> ct = pr_seal P n p a.

(* one key: different inputs never get the same tag *)
Definition mac_injective_ideal (P : Prim CS) : Prop :=
  forall x y, mac_fn (pr_mac P) x = mac_fn (pr_mac P) y -> x = y.
(* two different keys (other direction, other epoch): no tag in common *)
Definition mac_disjoint_ideal (P1 P2 : Prim CS) : Prop :=
  forall x y, mac_fn (pr_mac P1) x <> mac_fn (pr_mac P2) y.

Definition seal_injective_ideal (P : Prim CS) : Prop :=
  forall n1 p1 a1 n2 p2 a2, pr_seal P n1 p1 a1 = pr_seal P n2 p2 a2 -> n1 = n2 /\ p1 = p2 /\ a1 = a2.
Definition seal_disjoint_ideal (P1 P2 : Prim CS) : Prop :=
  forall n1 p1 a1 n2 p2 a2, pr_seal P1 n1 p1 a1 <> pr_seal P2 n2 p2 a2.
End Ideal.
