(* DER prefixes of DigestInfo from RFC 8017 section 9.2, Note 1 (transcribed from the RFC's
   hexadecimal text, independently of tlslite's table), and the parameter-less SHA-1 variant
   (AlgorithmIdentifier without the NULL) that some historic signers produced.
   Definitions only. *)
From Coq Require Import ZArith List String.
Import ListNotations.
Local Open Scope Z_scope.
Local Open Scope string_scope.

Definition rfc8017_digestinfo_prefixes : list (string * list Z) := [
  ("md5",    [48; 32; 48; 12; 6; 8; 42; 134; 72; 134; 247; 13; 2; 5; 5; 0; 4; 16]);
  ("sha1",   [48; 33; 48; 9; 6; 5; 43; 14; 3; 2; 26; 5; 0; 4; 20]);
  ("sha224", [48; 45; 48; 13; 6; 9; 96; 134; 72; 1; 101; 3; 4; 2; 4; 5; 0; 4; 28]);
  ("sha256", [48; 49; 48; 13; 6; 9; 96; 134; 72; 1; 101; 3; 4; 2; 1; 5; 0; 4; 32]);
  ("sha384", [48; 65; 48; 13; 6; 9; 96; 134; 72; 1; 101; 3; 4; 2; 2; 5; 0; 4; 48]);
  ("sha512", [48; 81; 48; 13; 6; 9; 96; 134; 72; 1; 101; 3; 4; 2; 3; 5; 0; 4; 64])
].

(* SEQUENCE(31) { SEQUENCE(7) { OID 1.3.14.3.2.26 }, OCTET STRING(20) } *)
Definition sha1_digestinfo_prefix_without_null : list Z :=
  [48; 31; 48; 7; 6; 5; 43; 14; 3; 2; 26; 4; 20].
