(* C11 -- direct specification (definitions only) of RSAES-PKCS1-v1_5 decryption with
   implicit rejection ("Marvin" work-around, draft-irtf-cfrg-rsa-guidance), written
   from the property text and the draft, not from the code.

   EM = 00 || 02 || PS || 00 || M   with PS at least 8 bytes, all non-zero.
   valid  -> M
   invalid-> the last synth_len bytes of the k-byte pseudo-random message, where synth_len
             is the LAST of the 128 two-byte big-endian candidates (each masked to the smallest
             2^t-1 >= k-10) that is < k-10, i.e. at most the longest encodable message k-11
             (0 when no candidate qualifies). *)
From Coq Require Import ZArith List Bool.
From TV Require Import Base.Prelude Base.C11_Lib.
Import ListNotations.
Open Scope Z_scope.

(* absolute index of the first zero byte of l, l starting at index i *)
Fixpoint first_zero (i : Z) (l : list Z) : option Z :=
  match l with
  | [] => None
  | x :: t => if x =? 0 then Some i else first_zero (i + 1) t
  end.

(* Some M iff em = 00 02 PS 00 M with |PS| >= 8 and PS without zero bytes *)
Definition pkcs1_unpad (em : list Z) : option (list Z) :=
  match em with
  | b0 :: b1 :: rest =>
      if (b0 =? 0) && (b1 =? 2) then
        match first_zero 2 rest with
        | Some s => if 10 <=? s then Some (skipn (Z.to_nat (s + 1)) em) else None
        | None => None
        end
      else None
  | _ => None
  end.

(* the same, stated as a format (used only to show the function above is the format) *)
Definition pkcs1_format (em m : list Z) : Prop :=
  exists ps, em = 0 :: 2 :: ps ++ 0 :: m /\ 8 <= zlen ps /\ Forall (fun b => b <> 0) ps.

(* ---- synthetic message ----------------------------------------------------- *)
Definition max_sep_offset (k : Z) : Z := k - 10.
Definition cand_mask (k : Z) : Z := 2 ^ (numBits (max_sep_offset k)) - 1.
Definition candidates (k : Z) (length_randoms : list Z) : list Z :=
  map (fun hl => Z.land (fst hl * 256 + snd hl) (cand_mask k)) (pairs_of length_randoms).
Definition synth_len (k : Z) (length_randoms : list Z) : Z :=
  last (filter (fun c => c <? max_sep_offset k) (candidates k length_randoms)) 0.

Definition spec_decrypt_em (k : Z) (em length_randoms message_random : list Z) : list Z :=
  match pkcs1_unpad em with
  | Some m => m
  | None => skipn (Z.to_nat (k - synth_len k length_randoms)) message_random
  end.

(* ---- the PRF of the draft: HMAC(key, I2OSP(i,2) || label || I2OSP(bits,2)), i = 0,1,.. ---- *)
Section WithOracles.
Variable hash : list Z -> list Z.
Variable hmac : list Z -> list Z -> list Z.
Variable raw_private : Z -> Z.       (* c |-> c^d mod n, as computed by the key object *)

Definition prf_stream (key label : list Z) (out_len : Z) (blocks : Z) : list Z :=
  flat_map (fun i => hmac key (be_bytes 2%nat i ++ label ++ be_bytes 2%nat out_len)) (zrange 0 blocks).
Definition prf_spec (key label : list Z) (out_len : Z) : list Z :=
  firstn (Z.to_nat (out_len / 8)) (prf_stream key label out_len ((out_len / 8 + 31) / 32)).

Definition label_length : list Z := [108; 101; 110; 103; 116; 104].            (* "length"  *)
Definition label_message : list Z := [109; 101; 115; 115; 97; 103; 101].       (* "message" *)

(* decrypt as a total function of (key, ciphertext): None exactly for the publicly invalid
   ciphertexts (wrong length, or value >= n) *)
Definition spec_decrypt (n d : Z) (enc : list Z) : option (list Z) :=
  let k := numBytes n in
  if (zlen enc =? k) && (bytesToNumber enc <? n) then
    let em := be_bytes (Z.to_nat k) (raw_private (bytesToNumber enc)) in
    let kdk := hmac (hash (be_bytes (Z.to_nat k) d)) enc in
    Some (spec_decrypt_em k em (prf_spec kdk label_length 2048) (prf_spec kdk label_message (k * 8)))
  else None.

(* the invariant of the per-key-object cache RSAKey._key_hash, as decrypt finds it: missing, empty,
   or the SHA-256 of the private exponent -- on EVERY way a key object comes into existence *)
Definition cache_ok (n d : Z) (c : option (list Z)) : Prop :=
  c = None \/ c = Some [] \/ c = Some (hash (be_bytes (Z.to_nat (numBytes n)) d)).
End WithOracles.
