(* C07 -- a direct statement of what TLS negotiation between two configurations must yield
   (RFC 5246 7.4.1, RFC 8446 4.1.1/4.2.1/4.2.7/4.2.3, RFC 7301 3.2), independent of any
   implementation: the highest common version for which both enable a suite usable with the server's key; the first suite in the server's preference order that
   both sides enable, that is defined for that version and for the server's key, and for which a
   common group / signature scheme exists when the suite needs one; a common group; a common
   signature scheme; an ALPN protocol both sides list (or none).  Definitions only. *)
From Coq Require Import ZArith List Bool.
Import ListNotations.
Open Scope Z_scope.

Definition mem (x : Z) (l : list Z) : bool := existsb (Z.eqb x) l.

Record Cfg := {
  cf_versions : list Z;            (* enabled protocol versions, any order *)
  cf_suites : list Z;              (* enabled suites, in this side's preference order *)
  cf_groups : list Z;              (* enabled (EC)DHE groups, preference order *)
  cf_sigs : list Z;                (* enabled signature schemes, preference order *)
  cf_alpn : option (list Z)        (* ALPN protocols, preference order *)
}.

(* facts about suites and credentials that are not negotiable *)
Record Env := {
  usable : Z -> Z -> bool;         (* version -> suite -> defined for the version and the server's key *)
  needs_group : Z -> bool;         (* suite uses (EC)DHE with a named group *)
  needs_sig : Z -> Z -> bool;      (* version -> suite -> the server signs with a negotiated scheme *)
  sig_fits : Z -> Z -> bool        (* version -> scheme -> usable with the server's key in that version *)
}.

Record Choice := {
  co_version : Z; co_suite : Z; co_group : option Z; co_sig : option Z; co_alpn : option Z
}.

Fixpoint first_common (pref other : list Z) (ok : Z -> bool) : option Z :=
  match pref with
  | [] => None
  | x :: t => if mem x other && ok x then Some x else first_common t other ok
  end.

(* the greatest element of a that satisfies p *)
Definition highest_such (p : Z -> bool) (a : list Z) : option Z :=
  fold_left (fun acc v => if p v then match acc with
                                      | Some m => Some (Z.max m v)
                                      | None => Some v end else acc) a None.

Definition feasible (env : Env) (c s : Cfg) (v suite : Z) : bool :=
  usable env v suite &&
  (negb (needs_group env suite) ||
   match first_common (cf_groups s) (cf_groups c) (fun _ => true) with Some _ => true | None => false end) &&
  (negb (needs_sig env v suite) ||
   match first_common (cf_sigs s) (cf_sigs c) (sig_fits env v) with Some _ => true | None => false end).

(* a version both enable and for which both enable a suite usable with the server's key (a server
   does not select a version it has no suite or key for -- OpenSSL falls back to TLS 1.2 with a DSA
   key -- but it does commit to the version before looking at groups) *)
Definition version_ok (env : Env) (c s : Cfg) (v : Z) : bool :=
  mem v (cf_versions s) &&
  match first_common (cf_suites s) (cf_suites c) (usable env v) with Some _ => true | None => false end.

(* None = the handshake must fail *)
Definition spec_negotiate (env : Env) (c s : Cfg) : option Choice :=
  match highest_such (version_ok env c s) (cf_versions c) with
  | None => None
  | Some v =>
      match first_common (cf_suites s) (cf_suites c) (feasible env c s v) with
      | None => None
      | Some suite =>
          let alpn := match cf_alpn c, cf_alpn s with
                      | Some a, Some b => Some (first_common b a (fun _ => true))
                      | _, _ => None end in
          match alpn with
          | Some None => None                       (* both offered, nothing in common: RFC 7301 3.2 *)
          | _ =>
            Some {| co_version := v; co_suite := suite;
                    co_group := if needs_group env suite
                                then first_common (cf_groups s) (cf_groups c) (fun _ => true) else None;
                    co_sig := if needs_sig env v suite
                              then first_common (cf_sigs s) (cf_sigs c) (sig_fits env v) else None;
                    co_alpn := match alpn with Some (Some p) => Some p | _ => None end |}
          end
      end
  end.

(* "the configurations share something usable" *)
Definition common (env : Env) (c s : Cfg) : Prop :=
  (exists v suite,
     (* v is the highest version both enable with a suite usable for the server's key ... *)
     In v (cf_versions c) /\ version_ok env c s v = true /\
     (forall w, In w (cf_versions c) -> version_ok env c s w = true -> w <= v) /\
     (* ... and at v a suite, and where needed a group and a signature scheme, are common *)
     In suite (cf_suites c) /\ In suite (cf_suites s) /\ usable env v suite = true /\
     (needs_group env suite = true -> exists g, In g (cf_groups c) /\ In g (cf_groups s)) /\
     (needs_sig env v suite = true ->
        exists sg, In sg (cf_sigs c) /\ In sg (cf_sigs s) /\ sig_fits env v sg = true)) /\
  (forall a b, cf_alpn c = Some a -> cf_alpn s = Some b -> exists p, In p a /\ In p b).
