(* AES-GCM (NIST SP 800-38D, 96-bit IV) and AES-CCM (RFC 3610 / SP 800-38C, 12-byte nonce, L = 3)
   over an abstract block function E (AES under the key).  Written from the standards.  Definitions only. *)
From Coq Require Import ZArith List Bool.
From TV Require Import Base.Prelude Base.C09_Lib Spec.C09_Poly1305 Spec.C09_Modes.
Import ListNotations.
Open Scope Z_scope.

Section AEAD.
  Variable E : list Z -> list Z.

  Definition pad16z (b : list Z) : list Z := b ++ repeat 0 (Z.to_nat ((16 - zlen b mod 16) mod 16)).

  (* ---- GCM.  A block is read as a 128-bit string whose first (leftmost) bit is the most significant
     bit of the big-endian integer.  SP 800-38D 6.3, Algorithm 1 (X . Y), R = 11100001 || 0^120 *)
  Definition gcm_R : Z := Z.shiftl 0xe1 120.
  Definition gf128_mul (x y : Z) : Z :=
    fst (fold_left (fun '(z, v) i =>
                      (if Z.testbit x (127 - i) then Z.lxor z v else z,
                       if Z.testbit v 0 then Z.lxor (Z.shiftr v 1) gcm_R else Z.shiftr v 1))
                   (zrange 0 128) (0, y)).

  (* 6.4 GHASH_H(X_1 .. X_m): Y_0 = 0, Y_i = (Y_{i-1} xor X_i) . H *)
  Definition ghash (h : Z) (blocks : list Z) : Z := fold_left (fun y x => gf128_mul (Z.lxor y x) h) blocks 0.

  Definition blocks128 (b : list Z) : list Z := map be_num (chunks 16 (pad16z b)).

  (* 6.2 inc_32; 6.5 GCTR *)
  Definition inc32 (cb : list Z) : list Z :=
    firstn 12 cb ++ be_bytes 4 ((be_num (skipn 12 cb) + 1) mod 2 ^ 32).
  Fixpoint gctr_stream (cb : list Z) (n : nat) : list Z :=
    match n with O => [] | S k => E cb ++ gctr_stream (inc32 cb) k end.
  Definition gctr (icb x : list Z) : list Z := xorb x (gctr_stream icb (Z.to_nat ((zlen x + 15) / 16))).

  (* 7.1 GCM-AE with len(IV) = 96, t = 128 *)
  Definition gcm_tag (iv c a : list Z) : list Z :=
    let h := be_num (E (repeat 0 16)) in
    let j0 := iv ++ [0; 0; 0; 1] in
    let s := ghash h (blocks128 a ++ blocks128 c ++ [zlen a * 8 * 2 ^ 64 + zlen c * 8]) in
    gctr j0 (be_bytes 16 s).
  Definition gcm_seal_spec (iv p a : list Z) : list Z :=
    let c := gctr (inc32 (iv ++ [0; 0; 0; 1])) p in c ++ gcm_tag iv c a.
  Definition gcm_open_spec (iv c a : list Z) : option (list Z) :=
    if zlen c <? 16 then None else
    let ct := firstn (length c - 16) c in
    if list_eqb (gcm_tag iv ct a) (skipn (length c - 16) c)
    then Some (gctr (inc32 (iv ++ [0; 0; 0; 1])) ct) else None.

  (* ---- CCM (RFC 3610 2.2-2.3) with nonce length 15 - L, L = 3, authentication field of M bytes *)
  Definition ccm_L : Z := 3.
  Definition ccm_b0 (M : Z) (nonce a m : list Z) : list Z :=
    [64 * (if 0 <? zlen a then 1 else 0) + 8 * ((M - 2) / 2) + (ccm_L - 1)] ++ nonce ++ be_bytes 3 (zlen m).
  (* "If 0 < l(a) < (2^16 - 2^8), then the length field is encoded as two octets ...
      If (2^16 - 2^8) <= l(a) < 2^32: 0xff || 0xfe || four octets; if 2^32 <= l(a) < 2^64: 0xff || 0xff || eight octets" *)
  Definition ccm_aad_len (a : list Z) : list Z :=
    let n := zlen a in
    if n =? 0 then []
    else if n <? 2 ^ 16 - 2 ^ 8 then be_bytes 2 n
    else if n <? 2 ^ 32 then [0xff; 0xfe] ++ be_bytes 4 n
    else [0xff; 0xff] ++ be_bytes 8 n.
  Definition ccm_mac_input (M : Z) (nonce a m : list Z) : list (list Z) :=
    chunks 16 (ccm_b0 M nonce a m ++ (if zlen a =? 0 then [] else pad16z (ccm_aad_len a ++ a)) ++ pad16z m).
  (* X_1 = E(B_0), X_{i+1} = E(X_i xor B_i), T = first M bytes of X_{n+1} *)
  Definition ccm_cbcmac (M : Z) (nonce a m : list Z) : list Z :=
    firstn (Z.to_nat M) (fold_left (fun x b => E (xorb x b)) (ccm_mac_input M nonce a m) (repeat 0 16)).
  (* A_i = flags(L-1) || nonce || i;  S_i = E(A_i) *)
  Definition ccm_ctr_block (nonce : list Z) (i : Z) : list Z := [ccm_L - 1] ++ nonce ++ be_bytes 3 i.
  Definition ccm_stream (nonce : list Z) (n : nat) : list Z :=
    flat_map (fun i => E (ccm_ctr_block nonce i)) (zrange 1 (1 + Z.of_nat n)).
  Definition ccm_seal_spec (M : Z) (nonce m a : list Z) : list Z :=
    let t := ccm_cbcmac M nonce a m in
    xorb m (ccm_stream nonce (Z.to_nat ((zlen m + 15) / 16))) ++
    xorb t (firstn (Z.to_nat M) (E (ccm_ctr_block nonce 0))).
  Definition ccm_open_spec (M : Z) (nonce c a : list Z) : option (list Z) :=
    if zlen c <? M then None else
    let ct := firstn (length c - Z.to_nat M) c in
    let u := skipn (length c - Z.to_nat M) c in
    let m := xorb ct (ccm_stream nonce (Z.to_nat ((zlen ct + 15) / 16))) in
    let t := xorb u (firstn (Z.to_nat M) (E (ccm_ctr_block nonce 0))) in
    if list_eqb t (ccm_cbcmac M nonce a m) then Some m else None.
End AEAD.
