(* RFC 8439 sections 2.6 and 2.8 (AEAD_CHACHA20_POLY1305), written from the RFC text.
   Definitions only. *)
From Coq Require Import ZArith List Bool.
From TV Require Import Base.Prelude Base.C09_Lib Spec.C09_Poly1305 Spec.C09_ChaCha.
Import ListNotations.
Open Scope Z_scope.

(* 2.6: the one-time Poly1305 key is the first 32 bytes of the block with counter 0 *)
Definition poly1305_key_gen (key nonce : list Z) : list Z := firstn 32 (chacha20_block key 0 nonce).

(* padding to a multiple of 16 bytes: "up to 15 zero bytes" *)
Definition pad16 (x : list Z) : list Z := repeat 0 (Z.to_nat ((16 - zlen x mod 16) mod 16)).

Definition aead_mac_data (aad ct : list Z) : list Z :=
  aad ++ pad16 aad ++ ct ++ pad16 ct ++ le_bytes 8 (zlen aad) ++ le_bytes 8 (zlen ct).

Definition aead_tag (key nonce aad ct : list Z) : list Z :=
  poly1305 (poly1305_key_gen key nonce) (aead_mac_data aad ct).

(* 2.8: ciphertext = ChaCha20 with counter 1; output is ciphertext || tag *)
Definition aead_seal (key nonce pt aad : list Z) : list Z :=
  let ct := chacha20_encrypt key 1 nonce pt in
  ct ++ aead_tag key nonce aad ct.

(* 2.8.1: decryption recomputes the tag over the received ciphertext and compares *)
Definition aead_open (key nonce c aad : list Z) : option (list Z) :=
  if zlen c <? 16 then None else
  let ct := firstn (length c - 16) c in
  let tag := skipn (length c - 16) c in
  if list_eqb (aead_tag key nonce aad ct) tag then Some (chacha20_encrypt key 1 nonce ct) else None.
