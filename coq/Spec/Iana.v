(* C20 specification: an independently written registry of TLS cipher-suite names
   (IANA "TLS Cipher Suites" registry, for the code points tlslite-ng knows) and the
   meaning of a name by the standard naming conventions.  Definitions only.

     TLS_<KX>_WITH_<CIPHER>[_<HASH>]      TLS <= 1.2 suites
     TLS_<CIPHER>_<HASH>                  TLS 1.3 suites (RFC 8446 B.4)

   KX     : RSA | DH_DSS | DH_RSA | DHE_DSS | DHE_RSA | DH_anon | ECDH_ECDSA | ECDH_RSA |
            ECDHE_ECDSA | ECDHE_RSA | ECDH_anon | SRP_SHA | SRP_SHA_RSA | SRP_SHA_DSS
   CIPHER : NULL | RC4_128 | 3DES_EDE_CBC | AES_{128,256}_CBC | AES_{128,256}_GCM |
            AES_{128,256}_CCM | AES_{128,256}_CCM_8 | CHACHA20_POLY1305
   HASH   : MD5 | SHA | SHA256 | SHA384 -- the HMAC hash of a stream/CBC suite (RFC 2246,
            5246, 5289), the PRF hash of an AEAD suite (RFC 5288, 5289, 7905); the CCM
            suites of RFC 6655 / 7251 carry none and use the SHA-256 PRF.
   Versions are the minor number v of (3, v): 0 = SSLv3 ... 4 = TLS 1.3.
   This file is the twin of harness/c20_iana.py; the check compares the two on every run. *)
From Coq Require Import ZArith List Bool String Ascii.
Import ListNotations.
Open Scope string_scope.
Open Scope Z_scope.

Definition iana_registry : list (Z * string) := [
  (1, "TLS_RSA_WITH_NULL_MD5");
  (2, "TLS_RSA_WITH_NULL_SHA");
  (4, "TLS_RSA_WITH_RC4_128_MD5");
  (5, "TLS_RSA_WITH_RC4_128_SHA");
  (10, "TLS_RSA_WITH_3DES_EDE_CBC_SHA");
  (13, "TLS_DH_DSS_WITH_3DES_EDE_CBC_SHA");
  (19, "TLS_DHE_DSS_WITH_3DES_EDE_CBC_SHA");
  (22, "TLS_DHE_RSA_WITH_3DES_EDE_CBC_SHA");
  (24, "TLS_DH_anon_WITH_RC4_128_MD5");
  (27, "TLS_DH_anon_WITH_3DES_EDE_CBC_SHA");
  (47, "TLS_RSA_WITH_AES_128_CBC_SHA");
  (48, "TLS_DH_DSS_WITH_AES_128_CBC_SHA");
  (50, "TLS_DHE_DSS_WITH_AES_128_CBC_SHA");
  (51, "TLS_DHE_RSA_WITH_AES_128_CBC_SHA");
  (52, "TLS_DH_anon_WITH_AES_128_CBC_SHA");
  (53, "TLS_RSA_WITH_AES_256_CBC_SHA");
  (54, "TLS_DH_DSS_WITH_AES_256_CBC_SHA");
  (56, "TLS_DHE_DSS_WITH_AES_256_CBC_SHA");
  (57, "TLS_DHE_RSA_WITH_AES_256_CBC_SHA");
  (58, "TLS_DH_anon_WITH_AES_256_CBC_SHA");
  (59, "TLS_RSA_WITH_NULL_SHA256");
  (60, "TLS_RSA_WITH_AES_128_CBC_SHA256");
  (61, "TLS_RSA_WITH_AES_256_CBC_SHA256");
  (62, "TLS_DH_DSS_WITH_AES_128_CBC_SHA256");
  (64, "TLS_DHE_DSS_WITH_AES_128_CBC_SHA256");
  (103, "TLS_DHE_RSA_WITH_AES_128_CBC_SHA256");
  (104, "TLS_DH_DSS_WITH_AES_256_CBC_SHA256");
  (106, "TLS_DHE_DSS_WITH_AES_256_CBC_SHA256");
  (107, "TLS_DHE_RSA_WITH_AES_256_CBC_SHA256");
  (108, "TLS_DH_anon_WITH_AES_128_CBC_SHA256");
  (109, "TLS_DH_anon_WITH_AES_256_CBC_SHA256");
  (156, "TLS_RSA_WITH_AES_128_GCM_SHA256");
  (157, "TLS_RSA_WITH_AES_256_GCM_SHA384");
  (158, "TLS_DHE_RSA_WITH_AES_128_GCM_SHA256");
  (159, "TLS_DHE_RSA_WITH_AES_256_GCM_SHA384");
  (162, "TLS_DHE_DSS_WITH_AES_128_GCM_SHA256");
  (163, "TLS_DHE_DSS_WITH_AES_256_GCM_SHA384");
  (164, "TLS_DH_DSS_WITH_AES_128_GCM_SHA256");
  (165, "TLS_DH_DSS_WITH_AES_256_GCM_SHA384");
  (166, "TLS_DH_anon_WITH_AES_128_GCM_SHA256");
  (167, "TLS_DH_anon_WITH_AES_256_GCM_SHA384");
  (255, "TLS_EMPTY_RENEGOTIATION_INFO_SCSV");
  (4865, "TLS_AES_128_GCM_SHA256");
  (4866, "TLS_AES_256_GCM_SHA384");
  (4867, "TLS_CHACHA20_POLY1305_SHA256");
  (4868, "TLS_AES_128_CCM_SHA256");
  (4869, "TLS_AES_128_CCM_8_SHA256");
  (22016, "TLS_FALLBACK_SCSV");
  (49153, "TLS_ECDH_ECDSA_WITH_NULL_SHA");
  (49154, "TLS_ECDH_ECDSA_WITH_RC4_128_SHA");
  (49155, "TLS_ECDH_ECDSA_WITH_3DES_EDE_CBC_SHA");
  (49156, "TLS_ECDH_ECDSA_WITH_AES_128_CBC_SHA");
  (49157, "TLS_ECDH_ECDSA_WITH_AES_256_CBC_SHA");
  (49158, "TLS_ECDHE_ECDSA_WITH_NULL_SHA");
  (49159, "TLS_ECDHE_ECDSA_WITH_RC4_128_SHA");
  (49160, "TLS_ECDHE_ECDSA_WITH_3DES_EDE_CBC_SHA");
  (49161, "TLS_ECDHE_ECDSA_WITH_AES_128_CBC_SHA");
  (49162, "TLS_ECDHE_ECDSA_WITH_AES_256_CBC_SHA");
  (49163, "TLS_ECDH_RSA_WITH_NULL_SHA");
  (49164, "TLS_ECDH_RSA_WITH_RC4_128_SHA");
  (49165, "TLS_ECDH_RSA_WITH_3DES_EDE_CBC_SHA");
  (49166, "TLS_ECDH_RSA_WITH_AES_128_CBC_SHA");
  (49167, "TLS_ECDH_RSA_WITH_AES_256_CBC_SHA");
  (49168, "TLS_ECDHE_RSA_WITH_NULL_SHA");
  (49169, "TLS_ECDHE_RSA_WITH_RC4_128_SHA");
  (49170, "TLS_ECDHE_RSA_WITH_3DES_EDE_CBC_SHA");
  (49171, "TLS_ECDHE_RSA_WITH_AES_128_CBC_SHA");
  (49172, "TLS_ECDHE_RSA_WITH_AES_256_CBC_SHA");
  (49173, "TLS_ECDH_anon_WITH_NULL_SHA");
  (49174, "TLS_ECDH_anon_WITH_RC4_128_SHA");
  (49175, "TLS_ECDH_anon_WITH_3DES_EDE_CBC_SHA");
  (49176, "TLS_ECDH_anon_WITH_AES_128_CBC_SHA");
  (49177, "TLS_ECDH_anon_WITH_AES_256_CBC_SHA");
  (49178, "TLS_SRP_SHA_WITH_3DES_EDE_CBC_SHA");
  (49179, "TLS_SRP_SHA_RSA_WITH_3DES_EDE_CBC_SHA");
  (49180, "TLS_SRP_SHA_DSS_WITH_3DES_EDE_CBC_SHA");
  (49181, "TLS_SRP_SHA_WITH_AES_128_CBC_SHA");
  (49182, "TLS_SRP_SHA_RSA_WITH_AES_128_CBC_SHA");
  (49183, "TLS_SRP_SHA_DSS_WITH_AES_128_CBC_SHA");
  (49184, "TLS_SRP_SHA_WITH_AES_256_CBC_SHA");
  (49185, "TLS_SRP_SHA_RSA_WITH_AES_256_CBC_SHA");
  (49186, "TLS_SRP_SHA_DSS_WITH_AES_256_CBC_SHA");
  (49187, "TLS_ECDHE_ECDSA_WITH_AES_128_CBC_SHA256");
  (49188, "TLS_ECDHE_ECDSA_WITH_AES_256_CBC_SHA384");
  (49189, "TLS_ECDH_ECDSA_WITH_AES_128_CBC_SHA256");
  (49190, "TLS_ECDH_ECDSA_WITH_AES_256_CBC_SHA384");
  (49191, "TLS_ECDHE_RSA_WITH_AES_128_CBC_SHA256");
  (49192, "TLS_ECDHE_RSA_WITH_AES_256_CBC_SHA384");
  (49193, "TLS_ECDH_RSA_WITH_AES_128_CBC_SHA256");
  (49194, "TLS_ECDH_RSA_WITH_AES_256_CBC_SHA384");
  (49195, "TLS_ECDHE_ECDSA_WITH_AES_128_GCM_SHA256");
  (49196, "TLS_ECDHE_ECDSA_WITH_AES_256_GCM_SHA384");
  (49197, "TLS_ECDH_ECDSA_WITH_AES_128_GCM_SHA256");
  (49198, "TLS_ECDH_ECDSA_WITH_AES_256_GCM_SHA384");
  (49199, "TLS_ECDHE_RSA_WITH_AES_128_GCM_SHA256");
  (49200, "TLS_ECDHE_RSA_WITH_AES_256_GCM_SHA384");
  (49201, "TLS_ECDH_RSA_WITH_AES_128_GCM_SHA256");
  (49202, "TLS_ECDH_RSA_WITH_AES_256_GCM_SHA384");
  (49308, "TLS_RSA_WITH_AES_128_CCM");
  (49309, "TLS_RSA_WITH_AES_256_CCM");
  (49310, "TLS_DHE_RSA_WITH_AES_128_CCM");
  (49311, "TLS_DHE_RSA_WITH_AES_256_CCM");
  (49312, "TLS_RSA_WITH_AES_128_CCM_8");
  (49313, "TLS_RSA_WITH_AES_256_CCM_8");
  (49314, "TLS_DHE_RSA_WITH_AES_128_CCM_8");
  (49315, "TLS_DHE_RSA_WITH_AES_256_CCM_8");
  (49324, "TLS_ECDHE_ECDSA_WITH_AES_128_CCM");
  (49325, "TLS_ECDHE_ECDSA_WITH_AES_256_CCM");
  (49326, "TLS_ECDHE_ECDSA_WITH_AES_128_CCM_8");
  (49327, "TLS_ECDHE_ECDSA_WITH_AES_256_CCM_8");
  (52392, "TLS_ECDHE_RSA_WITH_CHACHA20_POLY1305_SHA256");
  (52393, "TLS_ECDHE_ECDSA_WITH_CHACHA20_POLY1305_SHA256");
  (52394, "TLS_DHE_RSA_WITH_CHACHA20_POLY1305_SHA256")].

(* code points the library knows that are NOT registered (pre-RFC 7905 draft ChaCha20):
   labelled with the library's own name, parsed by the same conventions *)
Definition unregistered : list (Z * string) := [
  (52385, "TLS_ECDHE_RSA_WITH_CHACHA20_POLY1305_draft_00");
  (52386, "TLS_ECDHE_ECDSA_WITH_CHACHA20_POLY1305_draft_00");
  (52387, "TLS_DHE_RSA_WITH_CHACHA20_POLY1305_draft_00")].

Fixpoint zassoc {A} (k : Z) (t : list (Z * A)) : option A :=
  match t with
  | [] => None
  | (k', v) :: t' => if k =? k' then Some v else zassoc k t'
  end.

Definition iana_name (s : Z) : option string :=
  match zassoc s iana_registry with
  | Some n => Some n
  | None => zassoc s unregistered
  end.

(* ---- the parts of a meaning ------------------------------------------------ *)
Inductive kx := KxRSA | KxDH | KxDHE | KxECDH | KxECDHE | KxSRP | KxTLS13.
Inductive auth := AuRSA | AuDSS | AuECDSA | AuAnon | AuSRP | AuTLS13.
Inductive cipher := CNull | CRc4 | C3des | CAesCbc | CAesGcm | CAesCcm | CAesCcm8 | CChacha.
Inductive ckind := Stream | Cbc | Aead.
Inductive mac := MAead | MMd5 | MSha | MSha256 | MSha384.
Inductive prf := PDefault | PSha256 | PSha384.

Definition kx_code (k : kx) : Z :=
  match k with KxRSA => 1 | KxDH => 2 | KxDHE => 3 | KxECDH => 4 | KxECDHE => 5 | KxSRP => 6 | KxTLS13 => 7 end.
Definition auth_code (a : auth) : Z :=
  match a with AuRSA => 1 | AuDSS => 2 | AuECDSA => 3 | AuAnon => 4 | AuSRP => 5 | AuTLS13 => 6 end.
Definition cipher_code (c : cipher) : Z :=
  match c with CNull => 0 | CRc4 => 1 | C3des => 2 | CAesCbc => 3 | CAesGcm => 4 | CAesCcm => 5
             | CAesCcm8 => 6 | CChacha => 7 end.
Definition ckind_code (k : ckind) : Z := match k with Stream => 0 | Cbc => 1 | Aead => 2 end.
Definition mac_code (m : mac) : Z :=
  match m with MAead => 0 | MMd5 => 1 | MSha => 2 | MSha256 => 3 | MSha384 => 4 end.
Definition prf_code (p : prf) : Z := match p with PDefault => 0 | PSha256 => 1 | PSha384 => 2 end.

Record meaning := {
  m_kx : kx; m_auth : auth;
  m_cipher : cipher; m_keylen : Z; m_kind : ckind; m_block : Z;
  m_tag : Z;            (* AEAD tag bytes *)
  m_fixed_iv : Z;       (* IV bytes taken from the key block in TLS <= 1.2 *)
  m_mac : mac; m_maclen : Z;
  m_prf : prf;
  m_minv : Z; m_maxv : Z;
  m_draft : bool        (* unregistered draft code point *)
}.

(* ---- strings ------------------------------------------------------------------ *)
Fixpoint split_on (c : ascii) (s : string) : list string :=
  match s with
  | EmptyString => [EmptyString]
  | String a r =>
      let rest := split_on c r in
      if Ascii.eqb a c then EmptyString :: rest
      else match rest with
           | [] => [String a EmptyString]
           | t :: ts => String a t :: ts
           end
  end.

Definition join_us (l : list string) : string := String.concat "_" l.

Fixpoint split_at_with (l : list string) : option (list string * list string) :=
  match l with
  | [] => None
  | t :: r => if String.eqb t "WITH" then Some ([], r)
              else match split_at_with r with
                   | Some (a, b) => Some (t :: a, b)
                   | None => None
                   end
  end.

Fixpoint unsnoc {A} (l : list A) : option (list A * A) :=
  match l with
  | [] => None
  | [x] => Some ([], x)
  | x :: r => match unsnoc r with Some (i, z) => Some (x :: i, z) | None => None end
  end.

Fixpoint sassoc {A} (k : string) (t : list (string * A)) : option A :=
  match t with
  | [] => None
  | (k', v) :: t' => if String.eqb k k' then Some v else sassoc k t'
  end.

(* ---- the conventions ------------------------------------------------------------ *)
Definition kx_tokens : list (string * (kx * auth)) := [
  ("RSA", (KxRSA, AuRSA)); ("DH_DSS", (KxDH, AuDSS)); ("DH_RSA", (KxDH, AuRSA));
  ("DHE_DSS", (KxDHE, AuDSS)); ("DHE_RSA", (KxDHE, AuRSA)); ("DH_anon", (KxDHE, AuAnon));
  ("ECDH_ECDSA", (KxECDH, AuECDSA)); ("ECDH_RSA", (KxECDH, AuRSA));
  ("ECDHE_ECDSA", (KxECDHE, AuECDSA)); ("ECDHE_RSA", (KxECDHE, AuRSA)); ("ECDH_anon", (KxECDHE, AuAnon));
  ("SRP_SHA", (KxSRP, AuSRP)); ("SRP_SHA_RSA", (KxSRP, AuRSA)); ("SRP_SHA_DSS", (KxSRP, AuDSS))].

(* cipher part -> cipher, key bytes, kind, block bytes, tag bytes, fixed IV bytes *)
Definition cipher_tokens : list (string * (cipher * Z * ckind * Z * Z * Z)) := [
  ("NULL", (CNull, 0, Stream, 0, 0, 0));
  ("RC4_128", (CRc4, 16, Stream, 0, 0, 0));
  ("3DES_EDE_CBC", (C3des, 24, Cbc, 8, 0, 8));
  ("AES_128_CBC", (CAesCbc, 16, Cbc, 16, 0, 16));
  ("AES_256_CBC", (CAesCbc, 32, Cbc, 16, 0, 16));
  ("AES_128_GCM", (CAesGcm, 16, Aead, 0, 16, 4));
  ("AES_256_GCM", (CAesGcm, 32, Aead, 0, 16, 4));
  ("AES_128_CCM", (CAesCcm, 16, Aead, 0, 16, 4));
  ("AES_256_CCM", (CAesCcm, 32, Aead, 0, 16, 4));
  ("AES_128_CCM_8", (CAesCcm8, 16, Aead, 0, 8, 4));
  ("AES_256_CCM_8", (CAesCcm8, 32, Aead, 0, 8, 4));
  ("CHACHA20_POLY1305", (CChacha, 32, Aead, 0, 16, 12))].

Definition hash_tokens : list (string * (mac * Z)) :=
  [("MD5", (MMd5, 16)); ("SHA", (MSha, 20)); ("SHA256", (MSha256, 32)); ("SHA384", (MSha384, 48))].

(* trailing hash / draft marker of the cipher part: (remaining tokens, hash, draft) *)
Definition strip_suffix (toks : list string) : list string * option (mac * Z) * bool :=
  match unsnoc toks with
  | None => (toks, None, false)
  | Some (init, z) =>
      match sassoc z hash_tokens with
      | Some h => (init, Some h, false)
      | None =>
          match unsnoc init with
          | Some (init2, y) =>
              if String.eqb y "draft" && String.eqb z "00" then (init2, None, true)
              else (toks, None, false)
          | None => (toks, None, false)
          end
      end
  end.

Definition mk_meaning (k : kx) (a : auth) (tls13 : bool) (cs : list string) : option meaning :=
  let '(ctoks, h, draft) := strip_suffix cs in
  match sassoc (join_us ctoks) cipher_tokens with
  | None => None
  | Some (c, keylen, kind, block, tag, fiv) =>
      match kind with
      | Aead =>
          match h with
          | Some (MMd5, _) | Some (MSha, _) => None
          | _ =>
              if tls13 && (match h with None => true | _ => false end) then None else
              Some {| m_kx := k; m_auth := a; m_cipher := c; m_keylen := keylen; m_kind := kind;
                      m_block := block; m_tag := tag; m_fixed_iv := fiv; m_mac := MAead; m_maclen := 0;
                      m_prf := match h with Some (MSha384, _) => PSha384 | _ => PSha256 end;
                      m_minv := if tls13 then 4 else 3; m_maxv := if tls13 then 4 else 3;
                      m_draft := draft |}
          end
      | _ =>
          match h with
          | None => None
          | Some (hm, hl) =>
              if tls13 then None else
              let sha2 := match hm with MSha256 | MSha384 => true | _ => false end in
              Some {| m_kx := k; m_auth := a; m_cipher := c; m_keylen := keylen; m_kind := kind;
                      m_block := block; m_tag := tag; m_fixed_iv := fiv; m_mac := hm; m_maclen := hl;
                      m_prf := match hm with MSha256 => PSha256 | MSha384 => PSha384 | _ => PDefault end;
                      m_minv := if sha2 then 3 else 0; m_maxv := 3;
                      m_draft := draft |}
          end
      end
  end.

Definition ends_with_scsv (toks : list string) : bool :=
  match unsnoc toks with Some (_, z) => String.eqb z "SCSV" | None => false end.

Definition parse_name (name : string) : option meaning :=
  match split_on "_"%char name with
  | t :: rest =>
      if negb (String.eqb t "TLS") || ends_with_scsv rest then None else
      match split_at_with rest with
      | Some (kxs, cs) =>
          match sassoc (join_us kxs) kx_tokens with
          | Some (k, a) => mk_meaning k a false cs
          | None => None
          end
      | None => mk_meaning KxTLS13 AuTLS13 true rest
      end
  | [] => None
  end.

Definition meaning_of (s : Z) : option meaning :=
  match iana_name s with Some n => parse_name n | None => None end.

(* ---- what the meaning implies for observable quantities --------------------------- *)
(* the cipher words of HandshakeSettings.cipherNames / getCipherName() *)
Definition lib_cipher_name (m : meaning) : string :=
  match m_cipher m with
  | CNull => "null" | CRc4 => "rc4" | C3des => "3des"
  | CAesCbc => if m_keylen m =? 16 then "aes128" else "aes256"
  | CAesGcm => if m_keylen m =? 16 then "aes128gcm" else "aes256gcm"
  | CAesCcm => if m_keylen m =? 16 then "aes128ccm" else "aes256ccm"
  | CAesCcm8 => if m_keylen m =? 16 then "aes128ccm_8" else "aes256ccm_8"
  | CChacha => if m_draft m then "chacha20-poly1305_draft00" else "chacha20-poly1305"
  end.

(* name of the cipher object the record layer installs (None: no cipher object) *)
Definition enc_object_name (m : meaning) : option string :=
  match m_cipher m with
  | CNull => None
  | CChacha => Some "chacha20-poly1305"
  | _ => Some (lib_cipher_name m)
  end.

(* the macNames word: "aead" for AEAD suites *)
Definition mac_word (m : meaning) : string :=
  match m_mac m with MAead => "aead" | MMd5 => "md5" | MSha => "sha" | MSha256 => "sha256" | MSha384 => "sha384" end.

Definition ostring_eqb (a b : option string) : bool :=
  match a, b with
  | None, None => true
  | Some x, Some y => String.eqb x y
  | _, _ => false
  end.

(* getMacName(): "the name of the HMAC hash algo used": the HMAC word for HMAC suites;
   for AEAD suites there is no HMAC: None (what the library reports) or "aead" agree *)
Definition mac_name_agrees (m : meaning) (reported : option string) : bool :=
  match m_mac m with
  | MAead => ostring_eqb reported None || ostring_eqb reported (Some "aead")
  | _ => ostring_eqb reported (Some (mac_word m))
  end.

(* hashlib name of the HMAC digest *)
Definition digest_name (m : meaning) : option string :=
  match m_mac m with
  | MAead => None | MMd5 => Some "md5" | MSha => Some "sha1" | MSha256 => Some "sha256" | MSha384 => Some "sha384"
  end.

(* the keyExchangeNames word *)
Definition lib_kx_name (m : meaning) : option string :=
  match m_kx m, m_auth m with
  | KxRSA, AuRSA => Some "rsa"
  | KxDHE, AuRSA => Some "dhe_rsa" | KxDHE, AuDSS => Some "dhe_dsa" | KxDHE, AuAnon => Some "dh_anon"
  | KxECDHE, AuRSA => Some "ecdhe_rsa" | KxECDHE, AuECDSA => Some "ecdhe_ecdsa" | KxECDHE, AuAnon => Some "ecdh_anon"
  | KxSRP, AuSRP => Some "srp_sha" | KxSRP, AuRSA => Some "srp_sha_rsa"
  | _, _ => None
  end.

(* PRF / key-schedule hash in force at version v *)
Definition prf_at (m : meaning) (v : Z) : string :=
  if v =? 0 then "ssl3" else if v <=? 2 then "md5sha1"
  else match m_prf m with PSha384 => "sha384" | _ => "sha256" end.

Definition prf_hash_len (m : meaning) : Z := match m_prf m with PSha384 => 48 | _ => 32 end.

(* the suite is defined for version v *)
Definition defined_in (m : meaning) (v : Z) : bool := (m_minv m <=? v) && (v <=? m_maxv m).

Definition fixed_iv_at (m : meaning) (v : Z) : Z := if v =? 4 then 12 else m_fixed_iv m.

(* cipherfactory function that builds the cipher *)
Definition factory_name (m : meaning) : string :=
  match m_cipher m with
  | CNull => "None" | CRc4 => "createRC4" | C3des => "createTripleDES" | CAesCbc => "createAES"
  | CAesGcm => "createAESGCM" | CAesCcm => "createAESCCM" | CAesCcm8 => "createAESCCM_8"
  | CChacha => "createCHACHA20"
  end.

(* explicit per-record nonce / IV bytes on the wire *)
Definition explicit_iv (m : meaning) (v : Z) : Z :=
  match m_kind m with
  | Stream => 0
  | Cbc => if 2 <=? v then m_block m else 0
  | Aead => if v =? 4 then 0 else match m_cipher m with CChacha => 0 | _ => 8 end
  end.

(* wire sizes of the application-data records that carried n payload bytes in total:
   lens = the record body lengths, etm = encrypt-then-MAC negotiated (RFC 7366) *)
Definition record_sizes_ok (m : meaning) (v : Z) (etm : bool) (n : Z) (lens : list Z) : bool :=
  let k := Z.of_nat (List.length lens) in
  let total := fold_left Z.add lens 0 in
  match m_kind m with
  | Stream => total =? n + k * m_maclen m
  | Aead => total =? n + k * (explicit_iv m v + m_tag m + (if v =? 4 then 1 else 0))
  | Cbc =>
      let bs := m_block m in
      let fixed := explicit_iv m v + m_maclen m in
      forallb (fun l => ((l - explicit_iv m v - (if etm then m_maclen m else 0)) mod bs =? 0)) lens
      && (n + k * (fixed + 1) <=? total) && (total <=? n + k * (fixed + bs))
  end.
