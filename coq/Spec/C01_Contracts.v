(* The contracts under which the C01/C02 theorems are stated (definitions only):
   H-cipher (what was encrypted by a synchronised sender decrypts to itself and the two
   objects stay synchronised), AEAD correctness, MAC output length, and the description of
   the six protection modes in terms of the flags the code dispatches on. *)
From Coq Require Import ZArith List Bool.
From TV Require Import Base.Prelude Spec.CbcCheck Model.C01_RecordPipe.
Import ListNotations.
Open Scope Z_scope.

Section Contracts.
Context {CS : Type}.
Variable P : Prim CS.
Variable R : CS -> CS -> Prop.       (* "sender object and receiver object are in step" *)

Definition sync (s r : St CS) : Prop :=
  R (st_cs s) (st_cs r) /\ st_seq s = st_seq r /\ 0 <= st_seq s.

(* H-cipher, for inputs whose length is a multiple of the block size (1 for stream ciphers) *)
Definition cipher_ok (bs : Z) : Prop :=
  forall s r x, R s r -> zlen x mod bs = 0 ->
    snd (pr_dec P r (snd (pr_enc P s x))) = x /\
    zlen (snd (pr_enc P s x)) = zlen x /\
    R (fst (pr_enc P s x)) (fst (pr_dec P r (snd (pr_enc P s x)))).

(* the converse direction, used by C02: every ciphertext of admissible length is the
   encryption, by the synchronised sender, of what the receiver decrypts it to *)
Definition cipher_onto (bs : Z) : Prop :=
  forall s r y, R s r -> zlen y mod bs = 0 ->
    snd (pr_enc P s (snd (pr_dec P r y))) = y /\
    zlen (snd (pr_dec P r y)) = zlen y /\
    R (fst (pr_enc P s (snd (pr_dec P r y)))) (fst (pr_dec P r y)).

Definition aead_ok (tag : Z) : Prop :=
  forall n p a, pr_open P n (pr_seal P n p a) a = Some p /\ zlen (pr_seal P n p a) = zlen p + tag.

Definition mac_ok : Prop := forall m, zlen (mac_fn (pr_mac P) m) = ds P.

Definition limits_ok (c : Cfg) : Prop :=
  1 <= c_send_limit c /\ c_send_limit c <= c_recv_limit c /\ c_recv_limit c <= 16384.

Inductive mode := MStream | MCbc | MEtm | MAead12 | MTls13.

Definition legacy_ok (c : Cfg) : Prop :=
  ver_macable (c_ver c) = true /\ c_tls13 c = false /\ c_aead c = false /\ c_has_mac c = true /\
  mac_ok /\ 0 < ds P <= 1024.

Definition block_ok (c : Cfg) : Prop :=
  c_block c = true /\ 0 < c_bs c <= 256 /\ cipher_ok (c_bs c) /\
  (ver_le (3, 2) (c_ver c) = true -> zlen (c_fixed_iv c) = c_bs c).

Definition pad_cb_ok (c : Cfg) : Prop :=
  match c_pad_cb c with
  | None => True
  | Some cb => forall l ty m, 0 <= cb l ty m <= Z.max 0 m     (* the stated guard on user code *)
  end.

Definition mode_ok (md : mode) (c : Cfg) : Prop :=
  limits_ok c /\
  match md with
  | MStream => legacy_ok c /\ c_etm c = false /\ c_block c = false /\
               (c_has_enc c = true -> cipher_ok 1)
  | MCbc => legacy_ok c /\ c_etm c = false /\ c_has_enc c = true /\ block_ok c
  | MEtm => legacy_ok c /\ c_etm c = true /\ (c_has_enc c = true -> block_ok c)
  | MAead12 => c_ver c = (3, 3) /\ c_tls13 c = false /\ c_has_enc c = true /\ c_aead c = true /\
               aead_ok (c_tag c) /\ 0 <= c_tag c <= 1024 /\
               zlen (c_fixed_nonce c) + (if uses_xor_nonce c then 0 else 8) = c_nonce_len c /\
               (uses_xor_nonce c = true -> explicit_nonce c = false)
  | MTls13 => c_ver c = (3, 4) /\ c_tls13 c = true /\ c_has_enc c = true /\ c_aead c = true /\
              aead_ok (c_tag c) /\ 0 <= c_tag c <= 255 /\
              zlen (c_fixed_nonce c) = c_nonce_len c /\ 8 <= c_nonce_len c /\ pad_cb_ok c
  end.

(* every record the sender may be asked to protect: a content type byte (non-zero, because
   TLS 1.3 de-padding searches for the last non-zero byte) and a fragment within the limit *)
Definition rec_ok (c : Cfg) (ty : Z) (data : list Z) : Prop :=
  1 <= ty <= 255 /\ zlen data <= c_send_limit c.
End Contracts.
