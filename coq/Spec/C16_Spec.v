(* C16 -- predicates used by the statements of Props/C16.v (definitions only). *)
From Coq Require Import ZArith List Bool.
From TV Require Import Base.Prelude Model.C16_PostHs.
Import ListNotations.
Open Scope Z_scope.

(* [in_step g ch w]: a reader whose read generation is [g] can open every record of the channel
   [ch] in order -- each record was written under exactly the generation the reader will have
   when it reaches it (a valid KeyUpdate advances it by one) -- and ends at generation [w] (the
   writer's current write generation). *)
Fixpoint in_step (g : Z) (ch : list rec) (w : Z) : Prop :=
  match ch with
  | [] => g = w
  | r :: ch' => tag r = g /\ in_step (if valid_ku (body r) then g + 1 else g) ch' w
  end.

Definition noku (ch : list rec) : Prop := forall r, In r ch -> valid_ku (body r) = false.

(* one direction: writer W, reader R, channel ch *)
Definition half (v13 : bool) (W R : ep) (ch : list rec) : Prop :=
  in_step (rgen (ks R)) ch (wgen (ks W)) /\
  sent (io W) = delivered (io R) ++ rbuf (io R) ++ chdata ch /\
  (v13 = false -> noku ch).

Definition cnt_ok (e : ep) : Prop :=
  wgen (ks e) = n_ku_sent (ks e) /\ rgen (ks e) = n_ku_rcvd (ks e) /\
  n_ku_resp (ks e) = n_ku_req (ks e) /\ badmac (io e) = false.

(* post-handshake-auth bookkeeping of one endpoint *)
Definition ctxs (e : ep) : list Z := map fst (pending (au e)).
Definition au_ok (e : ep) : Prop :=
  NoDup (ctxs e) /\ (forall c, In c (ctxs e) -> 0 < c < next_ctx (au e)) /\
  NoDup (accepted (au e)) /\
  (forall c, In c (accepted (au e)) -> 0 < c < next_ctx (au e) /\ ~ In c (ctxs e)) /\
  0 < next_ctx (au e).

Definition Inv (s : st) : Prop :=
  half (g13 s) (ea s) (eb s) (ab s) /\ half (g13 s) (eb s) (ea s) (ba s) /\
  cnt_ok (ea s) /\ cnt_ok (eb s) /\ au_ok (ea s) /\ au_ok (eb s).

(* which control records an endpoint must refuse, and with which alert (written from RFC 8446
   4.6, RFC 6520 and the property text; None = acceptable / silently discarded) *)
Definition bad_control (v13 : bool) (me : ep) (m : msg) : option Z :=
  match m with
  | MData _ => None
  | MKU v => if negb v13 then Some 10 else if v <? 0 then Some 50 else if 2 <=? v then Some 47 else None
  | MHB b =>
      if negb (hb_sup (cf me)) then Some 10
      else match b with
           | [] => Some 10
           | _ => match hb_parse b with
                  | Some (ty, _, _) => if (ty =? 1) && negb (hb_recv (cf me)) then Some 10 else None
                  | None => None
                  end
           end
  | MNST => if v13 && is_cl (cf me) then None else Some 10      (* only a TLS 1.3 client expects tickets *)
  | MCertReq _ wf => if v13 && is_cl (cf me) && pha_key (cf me) then (if wf then None else Some 50) else Some 10
  | MCert ctx _ =>
      if v13 && negb (is_cl (cf me)) && negb (match pending (au me) with [] => true | _ => false end)
      then (if ctx =? 0 then Some 47 else if ctx_mem ctx (pending (au me)) then None else Some 47)
      else Some 10
  | MCV _ => Some 10
  | MFin _ => Some 10
  | MUnexp => Some 10
  | MKUx _ => Some 10             (* not aligned with a record boundary: refused before it is parsed *)
  | MFinx _ => Some 10
  | MAlert _ _ => None
  end.

Definition is_prefix (a b : list Z) : Prop := exists t, b = a ++ t.

(* bytes of the heartbeat records in a list of emitted records *)
Definition hb_bytes (l : list rec) : list Z :=
  flat_map (fun r => match body r with MHB b => b | _ => [] end) l.

(* example configurations: client with a certificate (chain identity 7) and heartbeat callback,
   server that saw the post_handshake_auth extension; heartbeat negotiated both ways *)
Definition ex_cc : cfgT := mkcfg true true true true true true false false 7 16384 0.
Definition ex_sc : cfgT := mkcfg false true true true true false true false 0 16384 0.

(* ---- "permitted operations only" (for honest_never_fatal) ------------------------------------- *)
(* operations of the property's alphabet issued through the public API by well-behaved
   endpoints: no injected records, no lying / replaying PHA client *)
Definition honest_op (o : op) : bool :=
  match o with
  | OInject _ => false
  | OReplayPha => false
  | OSetDev d => d =? 0
  | _ => true
  end.

(* scanning a channel for acceptability by its reader (configuration [c]): state 0 = idle,
   1 = CertificateVerify expected, 2 = Finished expected; None = the reader would refuse *)
Definition scan1 (v13 : bool) (c : cfgT) (st : Z) (m : msg) : option Z :=
  if st =? 0 then
    match m with
    | MData _ => Some 0
    | MKU v => if v13 && ((v =? 0) || (v =? 1)) then Some 0 else None
    | MHB b => if hb_sup c && hb_recv c && negb (match b with [] => true | _ => false end) then Some 0 else None
    | MNST => if v13 && is_cl c then Some 0 else None
    | MCertReq _ wf => if v13 && is_cl c && pha_key c && wf then Some 0 else None
    | MCert _ ch => if v13 && negb (is_cl c) && negb (ch =? 0) then Some 1 else None
    | MAlert f d => if negb f && (d =? 0) then Some 0 else None
    | _ => None
    end
  else if st =? 1 then match m with MCV true => Some 2 | _ => None end
  else match m with MFin true => Some 0 | _ => None end.

Fixpoint scan (v13 : bool) (c : cfgT) (st : Z) (ch : list rec) : option Z :=
  match ch with
  | [] => Some st
  | r :: tl => match scan1 v13 c st (body r) with Some st' => scan v13 c st' tl | None => None end
  end.

Definition reqs (ch : list rec) : list Z :=
  flat_map (fun r => match body r with MCertReq c _ => [c] | _ => [] end) ch.
Definition rctxs (ch : list rec) : list Z :=
  flat_map (fun r => match body r with MCert c _ => [c] | _ => [] end) ch.

(* configuration of a well-formed pair after an honest handshake, seen from [me] *)
Definition good_cfg (me peer : cfgT) : Prop :=
  dev me = 0 /\ 1 <= recsize me /\ is_cl me = negb (is_cl peer) /\ hb_sup me = hb_sup peer /\
  (hb_sup me = true -> hb_recv me = true) /\
  (pha_sup me = true -> pha_key peer = true) /\ (pha_key me = true -> my_chain me <> 0).

Definition init_ok (cc sc : cfgT) : Prop :=
  is_cl cc = true /\ is_cl sc = false /\ good_cfg cc sc /\ good_cfg sc cc.

(* ---- heartbeat: "never a foreign payload" ---------------------------------------------------- *)
(* histories in which no raw heartbeat record is injected by a deviating peer (every other
   operation, honest or deviating, is allowed) *)
Definition no_hb_inject (o : op) : bool :=
  match o with OInject (MHB _) => false | _ => true end.

(* a heartbeat record in flight from a writer that requested payloads [wreq] to a reader that
   requested [rreq] is a whole request for one of the writer's payloads or a whole response
   carrying one of the reader's payloads *)
Definition hb_rec_ok (wreq rreq : list (list Z)) (r : rec) : Prop :=
  forall b, body r = MHB b ->
    (exists p pad, b = hb_write 1 p pad /\ In p wreq) \/
    (exists p, b = hb_write 2 p (padding 16) /\ In p rreq).

(* payloads of the write_heartbeat calls made by endpoint [a] (true = client) in a history *)
Fixpoint hb_calls (a : bool) (ops : list (bool * op)) : list (list Z) :=
  match ops with
  | [] => []
  | (a', OHeartbeat p _) :: tl => if Bool.eqb a a' then p :: hb_calls a tl else hb_calls a tl
  | _ :: tl => hb_calls a tl
  end.

