(* RFC 8439 sections 2.1-2.4 (ChaCha20), written from the RFC text, independently of the code.
   Definitions only. *)
From Coq Require Import ZArith List Bool.
From TV Require Import Base.Prelude Base.C09_Lib Spec.C09_Poly1305.
Import ListNotations.
Open Scope Z_scope.

Definition W32 : Z := 2 ^ 32.

(* number with the given bits, least significant first *)
Fixpoint bits_to_Z (l : list bool) : Z :=
  match l with [] => 0 | b :: l' => Z.b2z b + 2 * bits_to_Z l' end.

(* "<<< n": n-bit left rotation of a 32-bit word: bit i of the result is bit (i - n) mod 32 of x *)
Definition rotl32 (x n : Z) : Z :=
  bits_to_Z (map (fun i => Z.testbit x ((i - n) mod 32)) (zrange 0 32)).

Definition add32 (a b : Z) : Z := (a + b) mod W32.

(* 2.1: a += b; d ^= a; d <<<= 16;  c += d; b ^= c; b <<<= 12;
        a += b; d ^= a; d <<<= 8;   c += d; b ^= c; b <<<= 7 *)
Definition quarter (a b c d : Z) : Z * Z * Z * Z :=
  let a := add32 a b in let d := rotl32 (Z.lxor d a) 16 in
  let c := add32 c d in let b := rotl32 (Z.lxor b c) 12 in
  let a := add32 a b in let d := rotl32 (Z.lxor d a) 8 in
  let c := add32 c d in let b := rotl32 (Z.lxor b c) 7 in
  (a, b, c, d).

(* 2.2: QUARTERROUND(x, y, z, w) on the state viewed as a vector of 16 words *)
Definition quarterround (st : list Z) (x y z w : nat) : list Z :=
  let '(a, b, c, d) := quarter (nth x st 0) (nth y st 0) (nth z st 0) (nth w st 0) in
  set_nth (set_nth (set_nth (set_nth st x a) y b) z c) w d.

(* 2.3: inner_block *)
Definition inner_block (st : list Z) : list Z :=
  let st := quarterround st 0 4 8 12 in
  let st := quarterround st 1 5 9 13 in
  let st := quarterround st 2 6 10 14 in
  let st := quarterround st 3 7 11 15 in
  let st := quarterround st 0 5 10 15 in
  let st := quarterround st 1 6 11 12 in
  let st := quarterround st 2 7 8 13 in
  quarterround st 3 4 9 14.

(* little-endian 32-bit words of a byte string whose length is a multiple of 4 *)
Definition words_le (b : list Z) : list Z := map le_num (chunks 4 b).

Definition chacha_init_state (key : list Z) (counter : Z) (nonce : list Z) : list Z :=
  [0x61707865; 0x3320646e; 0x79622d32; 0x6b206574] ++ words_le key ++ [counter] ++ words_le nonce.

(* chacha20_block: 10 double rounds, add the input state, serialize little-endian *)
Definition chacha20_block_of_state (st : list Z) : list Z :=
  map (fun p => add32 (fst p) (snd p)) (combine st (Nat.iter 10 inner_block st)).

Definition chacha20_block_words (key : list Z) (counter : Z) (nonce : list Z) : list Z :=
  chacha20_block_of_state (chacha_init_state key counter nonce).

Definition chacha20_block (key : list Z) (counter : Z) (nonce : list Z) : list Z :=
  flat_map (le_bytes 4) (chacha20_block_words key counter nonce).

(* 2.4: the key stream is the concatenation of the blocks for counter, counter+1, ...;
   encryption XORs the message with as much key stream as needed *)
Definition chacha20_keystream (key : list Z) (counter : Z) (nonce : list Z) (nblocks : Z) : list Z :=
  flat_map (fun j => chacha20_block key (counter + j) nonce) (zrange 0 nblocks).

Definition xor_bytes (a b : list Z) : list Z := map (fun p => Z.lxor (fst p) (snd p)) (combine a b).

Definition chacha20_encrypt (key : list Z) (counter : Z) (nonce : list Z) (pt : list Z) : list Z :=
  xor_bytes pt (chacha20_keystream key counter nonce ((zlen pt + 63) / 64)).
