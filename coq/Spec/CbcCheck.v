(* Direct specification of "a decrypted CBC record body is well formed"
   (RFC 5246 6.2.3.2 / RFC 6101 5.2.3.2), written from the property text and
   independently of the constant-time code.  Definitions only. *)
From Coq Require Import ZArith List Bool.
From TV Require Import Base.Prelude.
Import ListNotations.
Open Scope Z_scope.

Definition is_ssl3 (ver : Z * Z) : bool := pairZ_eqb ver (3, 0).

(* bytes fed to the MAC before the record data *)
Definition mac_header (seq : list Z) (ty : Z) (ver : Z * Z) (len : Z) : list Z :=
  seq ++ [ty] ++ (if is_ssl3 ver then [] else [fst ver; snd ver]) ++ [len / 256; len mod 256].

Definition well_formed (ver : Z * Z) (bs : Z) (mac : HMac) (seq : list Z) (ty : Z)
           (data : list Z) : bool :=
  let n := zlen data in
  let ds := mac_ds mac in
  if n <? ds + 1 then false else
  let p := nthZ data (n - 1) in
  if n <? p + 1 + ds then false else      (* padding, its length byte and the MAC all fit *)
  let m := n - p - 1 - ds in              (* length of the MAC'd data *)
  (if is_ssl3 ver
   then p <=? bs                          (* SSLv3: at most one block of padding, content free *)
   else forallb (fun i => nthZ data i =? p) (zrange (n - 1 - p) (n - 1)))
  && list_eqb (firstn (Z.to_nat ds) (skipn (Z.to_nat m) data))
              (mac_fn mac (mac_acc mac ++ mac_header seq ty ver m ++ firstn (Z.to_nat m) data)).
