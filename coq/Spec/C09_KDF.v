(* Key derivation functions as defined by the RFCs, over hash/HMAC oracles.  Definitions only.
   RFC 5869 2.3 (HKDF-Expand), RFC 5246 5 (P_hash, TLS 1.2 PRF), RFC 2246 5 (TLS 1.0 PRF),
   RFC 6101 6.2.2 (SSLv3 key block), RFC 8446 7.1 (HKDF-Expand-Label, Derive-Secret). *)
From Coq Require Import ZArith List Bool String.
From TV Require Import Base.Prelude Base.C09_Lib Base.C09_Oracle.
Import ListNotations.
Open Scope list_scope.
Open Scope Z_scope.

Section KDF.
  Variable Orc : Oracles.

  (* ---- RFC 5869 2.3:  T(0) = empty, T(i) = HMAC-Hash(PRK, T(i-1) | info | i),
     OKM = first L octets of T(1) | T(2) | ... | T(N), N = ceil(L/HashLen), L <= 255*HashLen *)
  Fixpoint hkdf_T (alg : string) (prk info : list Z) (i : nat) : list Z :=
    match i with
    | 0%nat => []
    | S k => o_hmac Orc alg prk (hkdf_T alg prk info k ++ info ++ [Z.of_nat (S k)])
    end.

  Definition hkdf_okm (alg : string) (prk info : list Z) (n : nat) : list Z :=
    List.concat (map (hkdf_T alg prk info) (seq 1 n)).

  Definition hkdf_expand_rfc (alg : string) (prk info : list Z) (L : Z) : option (list Z) :=
    match digest_size alg with
    | None => None
    | Some hl =>
        if (0 <=? L) && (L <=? 255 * hl)
        then Some (firstn (Z.to_nat L) (hkdf_okm alg prk info (Z.to_nat ((L + hl - 1) / hl))))
        else None
    end.

  (* ---- RFC 5246 5:  A(0) = seed, A(i) = HMAC_hash(secret, A(i-1)),
     P_hash(secret, seed) = HMAC_hash(secret, A(1) + seed) + HMAC_hash(secret, A(2) + seed) + ... *)
  Fixpoint p_A (alg : string) (secret seed : list Z) (i : nat) : list Z :=
    match i with 0%nat => seed | S k => o_hmac Orc alg secret (p_A alg secret seed k) end.

  Definition p_hash_stream (alg : string) (secret seed : list Z) (n : nat) : list Z :=
    List.concat (map (fun i => o_hmac Orc alg secret (p_A alg secret seed i ++ seed)) (seq 1 n)).

  (* "iterated as many times as is necessary to produce the required quantity of data" *)
  Definition p_hash_rfc (alg : string) (hl : Z) (secret seed : list Z) (len : Z) : list Z :=
    firstn (Z.to_nat len) (p_hash_stream alg secret seed (Z.to_nat ((len + hl - 1) / hl))).

  Definition xor_list (a b : list Z) : list Z := map (fun p => Z.lxor (fst p) (snd p)) (combine a b).

  (* RFC 5246 5: PRF(secret, label, seed) = P_<hash>(secret, label + seed) *)
  Definition prf12_rfc (alg : string) (hl : Z) (secret label seed : list Z) (len : Z) : list Z :=
    p_hash_rfc alg hl secret (label ++ seed) len.

  (* RFC 2246 5: L_S1 = L_S2 = ceil(L_S / 2); S1 the first, S2 the last L_S1 bytes (sharing the middle
     byte when L_S is odd); PRF = P_MD5(S1, label + seed) XOR P_SHA-1(S2, label + seed) *)
  Definition prf10_rfc (secret label seed : list Z) (len : Z) : list Z :=
    let half := Z.to_nat ((zlen secret + 1) / 2) in
    let s1 := firstn half secret in
    let s2 := skipn (List.length secret - half) secret in
    xor_list (p_hash_rfc "md5" 16 s1 (label ++ seed) len) (p_hash_rfc "sha1" 20 s2 (label ++ seed) len).
End KDF.
