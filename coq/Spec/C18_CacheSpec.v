(* Abstract specification of a session cache, written from the property text and
   independently of the circular list: the cache is the unbounded log of everything ever
   stored, and a lookup answers from the log alone.

   "The cache returns for an ID the session last stored under it if and only if it is
    younger than the age limit, still valid and not evicted by newer entries."

   Capacity: SessionCache(maxEntries) keeps maxEntries-1 entries (one slot of the circular
   list always stays free), so "not evicted by newer entries" means: fewer than
   maxEntries-1 stores happened after it.  Definitions only. *)
From Coq Require Import ZArith List Bool.
From TV Require Import Base.Prelude Base.C18_Lib.
Import ListNotations.
Open Scope Z_scope.

Definition slog := list (Z * Z * Z).       (* (id, session, time stored), newest first *)

(* newest store under id: (number of stores after it, session, time) *)
Fixpoint find_newest (id : Z) (log : slog) (k : Z) : option (Z * Z * Z) :=
  match log with
  | [] => None
  | (id', s, ts) :: log' => if id =? id' then Some (k, s, ts) else find_newest id log' (k + 1)
  end.

Definition capacity (maxEntries : Z) : Z := maxEntries - 1.

Definition spec_get (maxEntries maxAge : Z) (log : slog) (invalid : list Z) (id now : Z) : outcome :=
  match find_newest id log 0 with
  | None => OExc KeyError
  | Some (k, s, ts) =>
    if (now - ts <=? maxAge) && (k <? capacity maxEntries) && valid_in invalid s
    then ORet (Some s) else OExc KeyError
  end.

Record sstate := { s_log : slog; s_invalid : list Z }.

Definition spec_apply (maxEntries maxAge : Z) (st : sstate) (now : Z) (o : op) : sstate * outcome :=
  match o with
  | Get id => (st, spec_get maxEntries maxAge (s_log st) (s_invalid st) id now)
  | Put id s => ({| s_log := (id, s, now) :: s_log st; s_invalid := s_invalid st |}, ORet None)
  | Purge => (st, ORet None)
  | SetValid s b => ({| s_log := s_log st; s_invalid := set_valid (s_invalid st) s b |}, ORet None)
  end.

Fixpoint spec_exec (maxEntries maxAge : Z) (st : sstate) (h : history) : list outcome :=
  match h with
  | [] => []
  | (now, o) :: h' =>
    let '(st1, r) := spec_apply maxEntries maxAge st now o in
    r :: spec_exec maxEntries maxAge st1 h'
  end.

Definition spec_outcomes (maxEntries maxAge : Z) (h : history) : list outcome :=
  spec_exec maxEntries maxAge {| s_log := []; s_invalid := [] |} h.

Fixpoint outcomes_eqb (a b : list outcome) : bool :=
  match a, b with
  | [], [] => true
  | x :: a', y :: b' => outcome_eqb x y && outcomes_eqb a' b'
  | _, _ => false
  end.

(* an outcome the documentation allows: a value, or KeyError from a lookup *)
Definition documented (o : op) (r : outcome) : bool :=
  match o, r with
  | Get _, ORet (Some _) => true
  | Get _, OExc KeyError => true
  | Get _, _ => false
  | _, ORet None => true
  | _, _ => false
  end.

Fixpoint all_documented (h : history) (rs : list outcome) : bool :=
  match h, rs with
  | [], [] => true
  | (_, o) :: h', r :: rs' => documented o r && all_documented h' rs'
  | _, _ => false
  end.
