(* C06 specification: the sequences of incoming records that the RFCs allow an endpoint to
   accept up to and including the peer's Finished, per configuration, as regular expressions.

   Written from RFC 5246 (7.3, 7.4, 6.2.1), RFC 6101, RFC 5054 (SRP), RFC 4492/8422 (ECC),
   RFC 5077 (NewSessionTicket), draft-agl-tls-nextprotoneg-04, RFC 6520 (heartbeat) and
   RFC 8446 (2, 4, 5, 5.1, appendix D.4), not from tlslite-ng's code.
   Definitions only.  [matches] is the usual derivative matcher; its agreement with the
   inductive language semantics [lang] is proved in Proofs/C06_Incl.v. *)
From Coq Require Import ZArith List Bool.
From TV Require Import Model.C06_HsOrder.
Import ListNotations.

(* ------------------------------------------------------------------ atoms *)
Inductive amode := AnyA | MustAlign.
Inductive atom :=
| AMsg (e : epoch) (t : hst) (m : amode)  (* complete handshake message t whose bytes were
                                             protected under e; MustAlign: it ends its record *)
| AFrag (e : epoch)                        (* leading part of a handshake message, under e *)
| ACcs (e : epoch)                         (* ChangeCipherSpec with value 1, under e *)
| AHb (e : epoch)                          (* heartbeat request *)
| ANoCert (e : epoch)                      (* SSLv3 no_certificate warning alert *)
| AUndec (rd : epoch)                      (* a record that does not open under the read keys rd
                                              (what rejected 0-RTT data looks like) *)
| AOther.                                  (* anything that is neither a ChangeCipherSpec nor a
                                              Finished message (used by the ordering property) *)

Definition hst_eqb (a b : hst) : bool :=
  match a, b with
  | HReq, HReq | CH, CH | SH, SH | HRR, HRR | NST, NST | EOED, EOED | EE, EE | CertE, CertE
  | CertN, CertN | CCert, CCert | SKE, SKE | CR, CR | SHD, SHD | CV, CV | CKE, CKE | Fin, Fin
  | KU, KU | NPN, NPN | HOther, HOther => true
  | _, _ => false
  end.
Definition amode_eqb (a b : amode) : bool :=
  match a, b with AnyA, AnyA | MustAlign, MustAlign => true | _, _ => false end.
Definition amode_ok (m : amode) (aligned : bool) : bool :=
  match m with AnyA => true | MustAlign => aligned end.

Definition atom_match (a : atom) (s : sym) : bool :=
  let '(ep, p) := s in
  match a, p with
  | AMsg e t m, PH t' al => epoch_eqb e ep && hst_eqb t t' && amode_ok m al
  | AMsg e t m, PBufH t' al => epoch_eqb e ep && hst_eqb t t' && amode_ok m al
  | AFrag e, PFrag => epoch_eqb e ep
  | AFrag e, PBufFrag => epoch_eqb e ep
  | ACcs e, PCcs true => epoch_eqb e ep
  | AHb e, PHb => epoch_eqb e ep
  | ANoCert e, PAlert AWarnNoCert => epoch_eqb e ep
  | AUndec rd, PBufH _ _ => false
  | AUndec rd, PBufFrag => false
  | AUndec rd, PCcs _ => negb (epoch_eqb ep rd) && negb (epoch_eqb ep E0)
  | AUndec rd, PAlert _ => negb (epoch_eqb ep rd) && (epoch_eqb rd E0 || negb (epoch_eqb ep E0))
  | AUndec rd, PApp _ => negb (epoch_eqb ep rd) || epoch_eqb rd E0   (* without read keys every
                                              application_data record looks like early data *)
  | AUndec rd, _ => negb (epoch_eqb ep rd)
  | AOther, PCcs _ => false
  | AOther, PH Fin _ => false
  | AOther, PBufH Fin _ => false
  | AOther, _ => true
  | _, _ => false
  end.

Definition atom_eqb (a b : atom) : bool :=
  match a, b with
  | AMsg e t m, AMsg e' t' m' => epoch_eqb e e' && hst_eqb t t' && amode_eqb m m'
  | AFrag e, AFrag e' => epoch_eqb e e'
  | ACcs e, ACcs e' => epoch_eqb e e'
  | AHb e, AHb e' => epoch_eqb e e'
  | ANoCert e, ANoCert e' => epoch_eqb e e'
  | AUndec e, AUndec e' => epoch_eqb e e'
  | AOther, AOther => true
  | _, _ => false
  end.

(* ------------------------------------------------------------------ regular expressions *)
Inductive re :=
| Emp | Eps | At (a : atom) | Seq (r1 r2 : re) | Alt (r1 r2 : re) | Star (r : re).

Fixpoint re_eqb (a b : re) : bool :=
  match a, b with
  | Emp, Emp | Eps, Eps => true
  | At x, At y => atom_eqb x y
  | Seq a1 a2, Seq b1 b2 => re_eqb a1 b1 && re_eqb a2 b2
  | Alt a1 a2, Alt b1 b2 => re_eqb a1 b1 && re_eqb a2 b2
  | Star a1, Star b1 => re_eqb a1 b1
  | _, _ => false
  end.

Fixpoint nullable (r : re) : bool :=
  match r with
  | Emp => false | Eps => true | At _ => false
  | Seq a b => nullable a && nullable b
  | Alt a b => nullable a || nullable b
  | Star _ => true
  end.

(* smart constructors: keep derivatives small (they do not change the language) *)
Definition mkSeq (a b : re) : re :=
  match a, b with
  | Emp, _ => Emp
  | _, Emp => Emp
  | Eps, _ => b
  | _, Eps => a
  | _, _ => Seq a b
  end.
(* x already occurs as a disjunct of r *)
Fixpoint in_alt (x r : re) : bool :=
  re_eqb x r || match r with Alt r1 r2 => in_alt x r1 || in_alt x r2 | _ => false end.
Definition mkAlt (a b : re) : re :=
  match a, b with
  | Emp, _ => b
  | _, Emp => a
  | _, _ => if in_alt a b then b else if in_alt b a then a else Alt a b
  end.

Fixpoint deriv (s : sym) (r : re) : re :=
  match r with
  | Emp => Emp
  | Eps => Emp
  | At a => if atom_match a s then Eps else Emp
  | Seq a b => if nullable a then mkAlt (mkSeq (deriv s a) b) (deriv s b)
               else mkSeq (deriv s a) b
  | Alt a b => mkAlt (deriv s a) (deriv s b)
  | Star a => mkSeq (deriv s a) (Star a)
  end.

Definition derivs (r : re) (w : list sym) : re := fold_left (fun r s => deriv s r) w r.
Definition matches (r : re) (w : list sym) : bool := nullable (derivs r w).

(* ------------------------------------------------------------------ the handshake grammars *)
Fixpoint seqs (l : list re) : re :=
  match l with [] => Eps | [r] => r | r :: l' => Seq r (seqs l') end.
Fixpoint alts (l : list re) : re :=
  match l with [] => Emp | [r] => r | r :: l' => Alt r (alts l') end.
Definition opt (r : re) : re := Alt Eps r.
Definition when (b : bool) (r : re) : re := if b then r else Eps.

(* records that may be interspersed between messages at epoch e:
   heartbeat requests once negotiated (RFC 6520 s.3: discarded during a handshake);
   in TLS 1.3 an unprotected change_cipher_spec with value 1 (RFC 8446 s.5) *)
Definition ign (c : cfg) (e : epoch) : re :=
  Star (alts ((if c_hb c then [At (AHb e)] else []) ++ (if c_v13 c then [At (ACcs E0)] else []) ++ [Emp])).

(* one handshake message, possibly fragmented over records of the same epoch.
   TLS <= 1.2 (RFC 5246 6.2.1) does not forbid other record types between the fragments;
   TLS 1.3 (RFC 8446 5.1) does: nothing may sit between the fragments of one message. *)
Definition msg (c : cfg) (e : epoch) (t : hst) (m : amode) : re :=
  if c_v13 c
  then seqs [ign c e; Star (At (AFrag e)); At (AMsg e t m)]
  else seqs [Star (Alt (At (AFrag e)) (if c_hb c then At (AHb e) else Emp)); At (AMsg e t m)].

(* the first flight is read before heartbeat can have been negotiated *)
Definition msg0 (c : cfg) (t : hst) (m : amode) : re :=
  seqs [(if c_v13 c then Star (At (ACcs E0)) else Eps); Star (At (AFrag E0)); At (AMsg E0 t m)].

(* RFC 5246 7.3 / 7.4.9: ChangeCipherSpec arrives between complete handshake messages *)
Definition ccs12 (c : cfg) : re :=
  seqs [Star (if c_hb c then At (AHb E0) else Emp); At (ACcs E0)].

Definition is_psk (c : cfg) : bool := match c_kx c with KPsk13 => true | _ => false end.

(* ---- what a CLIENT may receive *)
Definition g_client12 (c : cfg) : re :=
  if c_resume c then
    seqs [msg0 c SH AnyA;
          when (c_ticket c) (msg c E0 NST AnyA);          (* RFC 5077 3.3: MUST be sent iff announced *)
          ccs12 c; msg c E1 Fin AnyA]
  else
    seqs [msg0 c SH AnyA;
          when (kx_has_cert (c_kx c)) (msg c E0 CertN AnyA);
          when (kx_has_ske (c_kx c)) (msg c E0 SKE AnyA);
          (* RFC 5246 7.4.4: only a non-anonymous server may request a certificate;
             RFC 5054 does not provide for one in SRP suites *)
          (if kx_certreq_ok (c_kx c) then opt (msg c E0 CR AnyA) else Eps);
          msg c E0 SHD AnyA;
          when (c_ticket c) (msg c E0 NST AnyA);
          ccs12 c; msg c E1 Fin AnyA].

Definition g_client13 (c : cfg) : re :=
  let cert := alts ([msg c E1 CertN AnyA] ++ (if c_ccert c then [msg c E1 CCert AnyA] else [])) in
  seqs [opt (msg0 c HRR AnyA);
        msg0 c SH MustAlign;                               (* RFC 8446 5.1: precedes a key change *)
        msg c E1 EE AnyA;
        (if is_psk c then Eps else seqs [opt (msg c E1 CR AnyA); cert; msg c E1 CV AnyA]);
        msg c E1 Fin MustAlign].

(* ---- what a SERVER may receive *)
Definition g_server12 (c : cfg) : re :=
  if c_resume c then
    seqs [msg0 c CH AnyA; ccs12 c; msg c E1 Fin AnyA]
  else
    let auth := (c_reqcert c && kx_certreq_ok (c_kx c))%bool in
    seqs [msg0 c CH AnyA;
          (if auth then
             alts ([seqs [msg c E0 CertN AnyA; msg c E0 CKE AnyA; msg c E0 CV AnyA];
                    seqs [msg c E0 CertE AnyA; msg c E0 CKE AnyA]] ++
                   (* RFC 6101 5.6.6; records of different types may interleave below TLS 1.3 *)
                   (if c_ssl3 c then [seqs [Star (Alt (At (AFrag E0)) (if c_hb c then At (AHb E0) else Emp)); At (ANoCert E0); msg c E0 CKE AnyA]] else []))
           else msg c E0 CKE AnyA);
          ccs12 c;
          when (c_npn c) (msg c E1 NPN AnyA);
          msg c E1 Fin AnyA].

(* RFC 8446 4.2.10: a server that does not accept offered early data skips records that fail
   deprotection (up to max_early_data): after the first ClientHello until the first record
   that opens under the handshake keys, or -- with HelloRetryRequest -- until the second
   ClientHello, and no longer. *)
Definition early_window (c : cfg) (rd : epoch) : re :=
  if c_early c then Star (Alt (At (ACcs E0)) (At (AUndec rd))) else Eps.

Definition g_server13 (c : cfg) : re :=
  seqs [(if c_hrr c
         then seqs [msg0 c CH AnyA;
                    early_window c E0;
                    (* the second ClientHello: CCS and (once offered) heartbeat may precede it *)
                    ign c E0; Star (At (AFrag E0)); At (AMsg E0 CH MustAlign)]
         else seqs [msg0 c CH MustAlign; early_window c E1]);
        (if (c_reqcert c && negb (is_psk c))%bool then
           alts [msg c E1 CertE AnyA;
                 seqs [alts [msg c E1 CertN AnyA; msg c E1 CCert AnyA]; msg c E1 CV AnyA]]
         else Eps);
        msg c E1 Fin MustAlign].

Definition grammar (c : cfg) : re :=
  match c_role c, c_v13 c with
  | Client, false => g_client12 c
  | Client, true => g_client13 c
  | Server, false => g_server12 c
  | Server, true => g_server13 c
  end.

Definition allowed (c : cfg) (w : list sym) : bool := matches (grammar c) w.

(* ---- the ChangeCipherSpec / Finished ordering on its own:
   <= 1.2: exactly one ChangeCipherSpec, unprotected and with value 1; exactly one Finished,
           after it, under the new keys, and it is the last thing read;
   1.3   : exactly one Finished, under the handshake keys, ending its record, last thing read;
           ChangeCipherSpec records carry no meaning. *)
Definition ccs_fin_order (c : cfg) : re :=
  if c_v13 c
  then seqs [Star (alts ([At AOther; At (ACcs E0); At (ACcs E1)] ++
                         (* dropped undecryptable records carry no meaning *)
                         (if c_early c then [At (AUndec E0); At (AUndec E1)] else [])));
             At (AMsg E1 Fin MustAlign)]
  else seqs [Star (At AOther); At (ACcs E0); Star (At AOther); At (AMsg E1 Fin AnyA)].
