(* RFC 8439 section 2.5 (Poly1305), written from the RFC text, independently of the code.
   Definitions only. *)
From Coq Require Import ZArith List Bool.
From TV Require Import Base.Prelude Base.C09_Lib.
Import ListNotations.
Open Scope Z_scope.

Definition P1305 : Z := 2 ^ 130 - 5.

(* "r &= 0x0ffffffc0ffffffc0ffffffc0fffffff" *)
Definition clamp_r (r : Z) : Z := Z.land r 0x0ffffffc0ffffffc0ffffffc0fffffff.

(* the message divided into 16-byte blocks; the last one may be shorter *)
Fixpoint chunks_fuel (fuel : nat) (n : nat) (l : list Z) : list (list Z) :=
  match fuel with
  | O => []
  | S f => match l with [] => [] | _ => firstn n l :: chunks_fuel f n (skipn n l) end
  end.
Definition chunks (n : nat) (l : list Z) : list (list Z) := chunks_fuel (length l) n l.

(* "Read the block as a little-endian number. Add one bit beyond the number of octets." *)
Definition block_num (b : list Z) : Z := le_num (b ++ [1]).

(* c_1 r^q + c_2 r^(q-1) + ... + c_q r^1 *)
Fixpoint poly_sum (r : Z) (cs : list Z) : Z :=
  match cs with
  | [] => 0
  | c :: cs' => c * r ^ Z.of_nat (S (length cs')) + poly_sum r cs'
  end.

Definition poly1305_acc (r : Z) (msg : list Z) : Z :=
  poly_sum r (map block_num (chunks 16 msg)) mod P1305.

Definition poly1305 (key msg : list Z) : list Z :=
  let r := clamp_r (le_num (firstn 16 key)) in
  let s := le_num (skipn 16 key) in
  le_bytes 16 ((poly1305_acc r msg + s) mod 2 ^ 128).
