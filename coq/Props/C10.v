(* Property C10 -- statements only; proofs live in Proofs/C10_*.v.
   "Signatures and key agreement are sound, strict and never emitted when faulty". *)
From Coq Require Import ZArith List Bool String.
From TV Require Import Base.Prelude Gen.C10_Tables Model.C10_RsaMath Model.C10_RsaSig Model.C10_Dh Model.C10_Dsa
     Model.C10_SignSites Spec.C10_DigestInfo
     Proofs.C10_BytesP Proofs.C10_MathP Proofs.C10_Pkcs1P Proofs.C10_PssP Proofs.C10_DhP
     Proofs.C10_SitesP Proofs.C10_TieP Proofs.C10_PssRsaP Proofs.C10_DsaP Proofs.C10_DispatchP Toy.ToyMac.
Import ListNotations.
Open Scope Z_scope.

(* ===== RSASSA-PKCS1-v1_5 ======================================================== *)

(* verify() accepts a signature iff the public operation (length = modulus length, value < n)
   yields exactly one of the canonical encodings 00 01 FF..FF 00 DigestInfo (>= 8 bytes of FF) for
   this hash and data: one encoding per hash, two for SHA-1 (with and without the NULL parameter), the bare
   data for hashAlg=None (TLS <= 1.1).  For every hash oracle, key, signature and data. *)
Theorem pkcs1_verify_iff_canonical :
  forall (hash : list Z -> list Z) hLen n e sig data hashAlg sLen,
    rsa_verify hash hLen false n e sig data PadPkcs1 hashAlg sLen = Ok true <->
    exists c, raw_public_key_op_bytes n e sig = Ok c /\ In c (accepted_encodings (numBytes n) hashAlg data).
Proof. exact pkcs1_verify_iff. Qed.

(* consequence: whatever block 00 01 FF^j 00 X the signature opens to, X is exactly
   prefix||hash (nothing after the hash, right prefix) and the padding fills the whole modulus
   (no short padding) *)
Theorem pkcs1_accepted_block_is_strict :
  forall (hash : list Z -> list Z) hLen n e sig data h p sLen j X,
    String.eqb h "sha1" = false -> lookup_prefix pkcs1_prefixes h = Some p ->
    rsa_verify hash hLen false n e sig data PadPkcs1 (Some h) sLen = Ok true ->
    raw_public_key_op_bytes n e sig = Ok ([0; 1] ++ repeat 255 j ++ [0] ++ X) ->
    X = p ++ data /\ j = Z.to_nat (numBytes n - zlen X - 3).
Proof. exact pkcs1_accepted_block_shape. Qed.

Theorem pkcs1_rejects_everything_else :
  forall (hash : list Z -> list Z) hLen n e sig data hashAlg sLen,
    (forall c, raw_public_key_op_bytes n e sig = Ok c ->
               ~ In c (accepted_encodings (numBytes n) hashAlg data) ->
               rsa_verify hash hLen false n e sig data PadPkcs1 hashAlg sLen <> Ok true) /\
    ((zlen sig <> numBytes n \/ n <= bytesToNumber sig) ->
     rsa_verify hash hLen false n e sig data PadPkcs1 hashAlg sLen <> Ok true) /\
    rsa_verify hash hLen true n e sig data PadPkcs1 hashAlg sLen = Ok false.
Proof. exact pkcs1_rejects_all. Qed.

(* An RSASSA-PSS-only key (key_type "rsa-pss") never accepts a PKCS#1 v1.5 signature, through any
   public entry point and for any spelling of the scheme name: verify() matches names exactly and its
   key-type guard comes first; hashAndVerify() lower-cases the name BEFORE calling verify(), so the
   documented/default spelling 'PKCS1' is guarded too; SignedObject.verify_signature uses that default.
   The only name under which such a key can accept anything is "pss" (after normalisation). *)
Theorem pss_only_key_rejects_pkcs1 :
  forall (hash : list Z -> list Z) hLen n e sig data msg hashAlg hAlg sLen,
    rsa_verify_named hash hLen true n e sig data "pkcs1" hashAlg sLen = Ok false /\
    (forall padname, rsa_verify_named hash hLen true n e sig data padname hashAlg sLen = Ok true -> padname = "pss"%string) /\
    (forall scheme, lower scheme = "pkcs1"%string ->
                    rsa_hashAndVerify hash hLen true n e sig msg scheme hAlg sLen = Ok false) /\
    (forall scheme, rsa_hashAndVerify hash hLen true n e sig msg scheme hAlg sLen = Ok true -> lower scheme = "pss"%string) /\
    signed_object_verify hash hLen true n e sig msg hAlg = Ok false.
Proof. exact pss_only_key_rejects_pkcs1_all. Qed.

Example scheme_name_spellings :
  map lower ["pkcs1"; "PKCS1"; "Pkcs1"; "pKcS1"; "pss"; "PSS"; "Pss"]%string
  = ["pkcs1"; "pkcs1"; "pkcs1"; "pkcs1"; "pss"; "pss"; "pss"]%string.
Proof. exact spellings. Qed.

(* the table of DigestInfo prefixes in /repo is the one of RFC 8017 9.2 *)
Theorem pkcs1_prefixes_are_rfc8017 :
  pkcs1_prefixes = rfc8017_digestinfo_prefixes /\ sha1_prefix_no_null = sha1_digestinfo_prefix_without_null.
Proof. exact prefixes_match_rfc. Qed.

(* H-rsa-key: at most one signature opens to a given block *)
Theorem pkcs1_signature_is_unique :
  forall k, crt_shape_ok k = true ->
    (forall x, 0 <= x < rk_n k -> (x ^ rk_e k) ^ rk_d k mod rk_n k = x) ->
    forall s1 s2 c, all_bytes s1 = true -> all_bytes s2 = true ->
      raw_public_key_op_bytes (rk_n k) (rk_e k) s1 = Ok c ->
      raw_public_key_op_bytes (rk_n k) (rk_e k) s2 = Ok c -> s1 = s2.
Proof. exact pkcs1_signature_unique. Qed.

(* a signature made by sign() with the blinded CRT private operation verifies, for every valid
   key (H-rsa-key + CRT consistency), every blinding state satisfying the invariant, every hash
   name of the table and every digest that fits the modulus *)
Theorem pkcs1_sign_verifies :
  forall k, crt_shape_ok k = true ->
    (forall x, 0 <= x < rk_n k -> (x ^ rk_e k) ^ rk_d k mod rk_n k = x) ->
    (forall x, 0 <= x < rk_p k -> x ^ rk_dP k mod rk_p k = x ^ rk_d k mod rk_p k) ->
    (forall x, 0 <= x < rk_q k -> x ^ rk_dQ k mod rk_q k = x ^ rk_d k mod rk_q k) ->
    forall b, blind_inv k b ->
    forall (hash : list Z -> list Z) hLen data hashAlg salt sLen T,
      all_bytes data = true -> signed_block hashAlg data = Some T -> zlen T + 11 <= numBytes (rk_n k) ->
      exists sig, rsa_sign hash hLen (rk_n k) (crt_priv k b) data PadPkcs1 hashAlg salt = Ok sig /\
                  rsa_verify hash hLen false (rk_n k) (rk_e k) sig data PadPkcs1 hashAlg sLen = Ok true.
Proof. exact pkcs1_sign_verifies_crt. Qed.

(* every block verify() accepts is an RFC 8017 EMSA-PKCS1-v1_5 encoding (padding string >= 8
   bytes), sign() emits nothing else, and refuses when the modulus is too short.
   Before /repo 693c302 this statement was FALSE (theorem pkcs1_min_padding_refuted: 304-bit
   modulus + MD5 DigestInfo => one byte of padding signed and accepted); the former witness is
   now refused (Example below). *)
Theorem pkcs1_min_padding :
  forall (hash : list Z -> list Z) hLen n e (priv : Z -> Z) sig data hashAlg sLen salt,
    (rsa_verify hash hLen false n e sig data PadPkcs1 hashAlg sLen = Ok true ->
     exists c T, raw_public_key_op_bytes n e sig = Ok c /\ rfc8017_em (numBytes n) T = Some c) /\
    (rsa_sign hash hLen n priv data PadPkcs1 hashAlg salt = Ok sig ->
     exists T, signed_block hashAlg data = Some T /\ zlen T + 11 <= numBytes n) /\
    (forall T, numBytes n < zlen T + 11 -> raw_pkcs1_sign n priv T = Err ValueError).
Proof. exact pkcs1_min_padding_holds. Qed.

Example pkcs1_former_short_padding_witness_refused :
  rsa_sign (fun x => x) 0 (rk_n small_key) (plain_priv small_key) small_digest PadPkcs1 (Some "md5"%string) [] = Err ValueError.
Proof. exact small_key_now_refused. Qed.

(* ===== private operation: CRT and blinding ====================================== *)
Theorem crt_blinded_correct :
  forall k, crt_shape_ok k = true ->
    (forall x, 0 <= x < rk_n k -> (x ^ rk_e k) ^ rk_d k mod rk_n k = x) ->
    (forall x, 0 <= x < rk_p k -> x ^ rk_dP k mod rk_p k = x ^ rk_d k mod rk_p k) ->
    (forall x, 0 <= x < rk_q k -> x ^ rk_dQ k mod rk_q k = x ^ rk_d k mod rk_q k) ->
    forall ms b, blind_inv k b -> Forall (fun m => 0 <= m < rk_n k) ms ->
      fst (raw_private_ops k b ms) = map (fun m => m ^ rk_d k mod rk_n k) ms /\
      blind_inv k (snd (raw_private_ops k b ms)).
Proof. exact raw_private_ops_correct. Qed.

Theorem blinding_invariant_established_and_kept :
  forall k, crt_shape_ok k = true ->
    (forall u ui, (u * ui) mod rk_n k = 1 -> blind_inv k (blind_create k u ui)) /\
    (forall b, blind_inv k b -> blind_inv k (blind_update k b)).
Proof. exact blinding_inv_both. Qed.

(* crt_blinded_correct speaks about a SEQUENCE of atomic read-and-update steps.  What makes the steps
   atomic in the code is the key's lock: every access to the mutable blinding state of Python_RSAKey
   happens inside `with self._lock` (table regenerated from /repo).  The Example shows that atomicity is
   needed: a blinder read after another thread's update together with an unblinder read before it gives
   a wrong result; harness/c10_sched.py enumerates the real interleavings of two threads. *)
Theorem blinding_state_accessed_under_lock :
  rsa_state_accesses <> [] /\
  forallb (fun a => match a with (_, _, _, locked) => locked end) rsa_state_accesses = true.
Proof. exact state_access_locked. Qed.

Theorem private_op_correct_for_any_consistent_pair :
  forall k, crt_shape_ok k = true ->
    (forall x, 0 <= x < rk_n k -> (x ^ rk_e k) ^ rk_d k mod rk_n k = x) ->
    (forall x, 0 <= x < rk_p k -> x ^ rk_dP k mod rk_p k = x ^ rk_d k mod rk_p k) ->
    (forall x, 0 <= x < rk_q k -> x ^ rk_dQ k mod rk_q k = x ^ rk_d k mod rk_q k) ->
    forall bl ub m, (bl * ub ^ rk_e k) mod rk_n k = 1 -> 0 <= m < rk_n k ->
      raw_private_op_torn k bl ub m = m ^ rk_d k mod rk_n k.
Proof. exact torn_correct_if_consistent. Qed.

Example atomic_pair_read_is_necessary :
  let b := blind_create toy_key 7 462 in
  let b' := blind_update toy_key b in
  raw_private_op_torn toy_key (bl_blinder b') (bl_unblinder b) 2 <> powmod 2 (rk_d toy_key) (rk_n toy_key) /\
  raw_private_op_torn toy_key (bl_blinder b) (bl_unblinder b) 2 = powmod 2 (rk_d toy_key) (rk_n toy_key).
Proof. exact torn_read_breaks. Qed.

Theorem powmod_is_pow_mod : forall b e n, 0 < n -> 0 <= e -> powmod b e n = b ^ e mod n.
Proof. exact powmod_spec. Qed.

(* the hypotheses are satisfiable: p=61 q=53 e=17 d=2753 *)
Example rsa_key_hypotheses_instance :
  crt_shape_ok toy_key = true /\
  (forall x, 0 <= x < rk_n toy_key -> (x ^ rk_e toy_key) ^ rk_d toy_key mod rk_n toy_key = x) /\
  (forall x, 0 <= x < rk_p toy_key -> x ^ rk_dP toy_key mod rk_p toy_key = x ^ rk_d toy_key mod rk_p toy_key) /\
  (forall x, 0 <= x < rk_q toy_key -> x ^ rk_dQ toy_key mod rk_q toy_key = x ^ rk_d toy_key mod rk_q toy_key) /\
  blind_inv toy_key (blind_create toy_key 7 462).
Proof. exact (conj toy_key_shape (conj toy_key_ed (conj toy_key_dP (conj toy_key_dQ toy_key_blind_inv)))). Qed.

(* ===== RSASSA-PSS ================================================================= *)
(* EMSA_PSS_verify accepts iff ALL of: room for hash+salt, trailer 0xbc, top bits zero, zero PS,
   0x01 separator, H = Hash(0^8 || mHash || salt) -- so violating any one of them rejects *)
Theorem pss_verify_checks_all :
  forall (hash : list Z -> list Z) hLen mHash EM emBits sLen,
    EMSA_PSS_verify hash hLen mHash EM emBits sLen = Ok true <-> pss_checks hash hLen mHash EM emBits sLen.
Proof. exact pss_verify_iff. Qed.

(* a PSS signature made with the blinded CRT private operation verifies, for EVERY valid key
   (any modulus size: since /repo cc7bf57 also 8k+1 bits), every hash oracle with fixed output
   length, every message hash and EVERY salt; and signing succeeds whenever hash and salt fit *)
Theorem pss_sign_verifies :
  forall k, crt_shape_ok k = true ->
    (forall x, 0 <= x < rk_n k -> (x ^ rk_e k) ^ rk_d k mod rk_n k = x) ->
    (forall x, 0 <= x < rk_p k -> x ^ rk_dP k mod rk_p k = x ^ rk_d k mod rk_p k) ->
    (forall x, 0 <= x < rk_q k -> x ^ rk_dQ k mod rk_q k = x ^ rk_d k mod rk_q k) ->
    forall b, blind_inv k b ->
    forall (hash : list Z -> list Z) hLen,
      0 < hLen -> (forall m, zlen (hash m) = hLen) -> (forall m, all_bytes (hash m) = true) ->
      numBytes (rk_n k) <= 2 ^ 32 ->
      forall mHash salt, all_bytes salt = true ->
        (forall S, RSASSA_PSS_sign hash hLen (rk_n k) (crt_priv k b) mHash salt = Ok S ->
                   RSASSA_PSS_verify hash hLen (rk_n k) (rk_e k) mHash S (zlen salt) = Ok true) /\
        (hLen + zlen salt + 2 <= divceil (numBits (rk_n k) - 1) 8 ->
         exists S, RSASSA_PSS_sign hash hLen (rk_n k) (crt_priv k b) mHash salt = Ok S).
Proof. exact pss_sign_verifies_crt. Qed.

(* encoding then verifying, at the EMSA level, for every emBits *)
Theorem pss_encode_verifies :
  forall (hash : list Z -> list Z) hLen,
    0 < hLen -> (forall m, zlen (hash m) = hLen) -> (forall m, all_bytes (hash m) = true) ->
    forall mHash emBits salt EM,
      0 < emBits -> all_bytes salt = true -> divceil emBits 8 - hLen - 1 <= 2 ^ 32 * hLen ->
      EMSA_PSS_encode hash hLen mHash emBits salt = Ok EM ->
      zlen EM = divceil emBits 8 /\ all_bytes EM = true /\ bytesToNumber EM < 2 ^ emBits /\
      EMSA_PSS_verify hash hLen mHash EM emBits (zlen salt) = Ok true.
Proof. exact pss_encode_then_verify. Qed.

(* Before /repo cc7bf57 signing failed for every modulus of 8k+1 bits (theorems
   pss_sign_fails_when_modbits_1_mod_8, pss_sign_fails_modbits_1_mod_8_refuted).  The former witness
   (65-bit modulus, 4-byte toy hash) now signs, for every private operation and message hash. *)
Example pss_sign_works_for_modbits_1_mod_8 :
  numBits n65 = 65 /\ numBits n65 mod 8 = 1 /\
  forall (priv : Z -> Z) mHash, exists S, RSASSA_PSS_sign (toy_mac [1] 4) 4 n65 priv mHash [] = Ok S.
Proof. exact pss_sign_works_for_n65. Qed.

(* ===== DSA (python_dsakey.py, integer level) ==================================== *)
(* a signature (r, s) made by sign() with ANY nonce k invertible mod q verifies, provided g has
   order dividing q, y = g^x, and r, s are non-zero (otherwise verify rejects by range) *)
Theorem dsa_sign_verifies :
  forall key, 1 < dk_p key -> 1 < dk_q key -> 0 <= dk_x key ->
    dk_g key ^ dk_q key mod dk_p key = 1 -> dk_y key = powmod (dk_g key) (dk_x key) (dk_p key) ->
    forall data k kinv w, 0 <= k -> (k * kinv) mod dk_q key = 1 ->
      let '(r, s) := dsa_sign key data k kinv in
      (s * w) mod dk_q key = 1 -> 0 < r -> 0 < s -> dsa_verify key r s data w = true.
Proof. exact dsa_sign_then_verify. Qed.

Theorem dsa_verify_rejects_out_of_range :
  forall key r s data w, (r <= 0 \/ dk_q key <= r \/ s <= 0 \/ dk_q key <= s) ->
    dsa_verify key r s data w = false.
Proof. exact dsa_verify_range. Qed.

(* byte level: an empty or undecodable signature is rejected with False (no exception, since /repo
   ab7872a); a decodable one is judged by dsa_verify on the decoded (r, s) *)
Theorem dsa_verify_rejects_malformed :
  forall decode key sig data winv,
    (sig = [] \/ decode sig = None) -> dsa_verify_bytes decode key sig data winv = false.
Proof. exact dsa_verify_bytes_malformed. Qed.

Theorem dsa_verify_bytes_is_verify_of_decoded :
  forall decode key sig data winv r s, sig <> [] -> decode sig = Some (r, s) ->
    dsa_verify_bytes decode key sig data winv = dsa_verify key r s data (winv s).
Proof. exact dsa_verify_bytes_decoded. Qed.

(* Python_DSAKey.generate(): p = 2kq+1, g = index^((p-1)//q): the group hypothesis holds for every
   generated key (given Fermat for the index, i.e. p prime), hence every signature made with a
   generated key verifies.  Before /repo b7d3c31 generate_qp() produced q not dividing p-1 and the
   statement was false (theorem dsa_sign_verifies_without_group_hypothesis_refuted); the necessity of
   the hypothesis is kept as an Example. *)
Theorem dsa_generate_establishes_group_hypothesis :
  forall q k index x, 1 < q -> 0 < k -> index ^ (dsa_gen_p q k - 1) mod dsa_gen_p q k = 1 ->
    let key := dsa_gen_key q k index x in
    (dk_p key - 1) mod dk_q key = 0 /\ 1 < dk_p key /\
    dk_g key ^ dk_q key mod dk_p key = 1 /\
    dk_y key = powmod (dk_g key) (dk_x key) (dk_p key).
Proof. exact dsa_generate_group. Qed.

Theorem dsa_generated_key_signatures_verify :
  forall q k index x, 1 < q -> 0 < k -> 0 <= x -> index ^ (dsa_gen_p q k - 1) mod dsa_gen_p q k = 1 ->
    let key := dsa_gen_key q k index x in
    forall data nonce ninv w, 0 <= nonce -> (nonce * ninv) mod dk_q key = 1 ->
      let '(r, s) := dsa_sign key data nonce ninv in
      (s * w) mod dk_q key = 1 -> 0 < r -> 0 < s -> dsa_verify key r s data w = true.
Proof. exact dsa_generated_key_sign_verifies. Qed.

Example dsa_generate_hypothesis_instance :
  2 ^ (dsa_gen_p 101 3 - 1) mod dsa_gen_p 101 3 = 1 /\ dsa_gen_key 101 3 2 57 = toy_dsa.
Proof. exact dsa_generate_instance. Qed.

Example dsa_group_hypothesis_is_necessary :
  (dk_p bad_dsa - 1) mod dk_q bad_dsa <> 0 /\
  exists data k kinv w,
    0 <= k /\ (k * kinv) mod dk_q bad_dsa = 1 /\
    let '(r, s) := dsa_sign bad_dsa data k kinv in
    (s * w) mod dk_q bad_dsa = 1 /\ 0 < r /\ 0 < s /\ dsa_verify bad_dsa r s data w = false.
Proof. exact dsa_group_hypothesis_needed. Qed.

Example dsa_hypotheses_instance :
  dk_g toy_dsa ^ dk_q toy_dsa mod dk_p toy_dsa = 1 /\
  dk_y toy_dsa = powmod (dk_g toy_dsa) (dk_x toy_dsa) (dk_p toy_dsa).
Proof. exact toy_dsa_ok. Qed.

(* ===== finite-field Diffie-Hellman ================================================ *)
Theorem ffdh_agree :
  forall tls13 g p xa xb va vb ka kb,
    0 < p -> 0 <= xa -> 0 <= xb ->
    ffdh_calc_public tls13 g p xa = Ok va -> ffdh_calc_public tls13 g p xb = Ok vb ->
    ffdh_calc_shared tls13 p xa (share_of vb) = Ok ka ->
    ffdh_calc_shared tls13 p xb (share_of va) = Ok kb -> ka = kb.
Proof. exact C10_DhP.ffdh_agree. Qed.

(* exactly what calc_shared_key enforces: 2 <= y < p-1, length = len(p) for byte shares,
   shared secret not in {1, p-1}; nothing else (no q-order subgroup test) *)
Theorem ffdh_rejects :
  forall tls13 p x,
    (forall s r, ffdh_calc_shared tls13 p x s = Ok r <->
       exists y, ffdh_normalise p s = Ok y /\ 2 <= y < p - 1 /\ powmod y x p <> 1 /\ powmod y x p <> p - 1 /\
                 r = (if tls13 then numberToByteArray (powmod y x p) (numBytes p)
                      else numberToByteArray_min (powmod y x p))) /\
    (forall y, (y <= 1 \/ y >= p - 1) -> ffdh_calc_shared tls13 p x (ShareInt y) = Err TLSIllegalParameter) /\
    (forall b, zlen b <> numBytes p -> ffdh_calc_shared tls13 p x (ShareBytes b) = Err TLSIllegalParameter) /\
    (forall b, zlen b = numBytes p -> (bytesToNumber b <= 1 \/ bytesToNumber b >= p - 1) ->
               ffdh_calc_shared tls13 p x (ShareBytes b) = Err TLSIllegalParameter) /\
    (forall s y, ffdh_normalise p s = Ok y -> (powmod y x p = 1 \/ powmod y x p = p - 1) ->
                 ffdh_calc_shared tls13 p x s = Err TLSIllegalParameter).
Proof. exact ffdh_rejects_all. Qed.

(* ===== X25519 / X448 ================================================================ *)
Theorem x_nonzero_check :
  (forall v, Forall (fun b => 0 <= b) v ->
     (non_zero_check v = Err TLSIllegalParameter <-> Forall (fun b => b = 0) v) /\
     (non_zero_check v = Ok tt <-> ~ Forall (fun b => b = 0) v)) /\
  (forall is448 priv peer S, x_calc_shared is448 priv peer = Ok S ->
     zlen peer = (if is448 then 56 else 32) /\
     S = (if is448 then x448 priv peer else x25519 priv peer) /\ non_zero_check S = Ok tt) /\
  (forall (is448 : bool) priv peer, zlen peer <> (if is448 then 56 else 32) ->
     x_calc_shared is448 priv peer = Err TLSIllegalParameter).
Proof. exact (conj non_zero_check_spec (conj x_calc_shared_ok x_calc_shared_len)). Qed.

(* ===== never emitted when faulty =================================================== *)
(* For every signing site found in keyexchange.py / tlsconnection.py / tlsrecordlayer.py, for an
   ARBITRARY (possibly faulty) signing function: if control reaches the construction of the
   message, the signature verified under the signer's own key on the signed data; if it does not
   verify, the site ends in an internal_error alert or in TLSInternalError. *)
Theorem faulty_signature_never_sent :
  forall (Sig Data : Type) (sig_empty : Sig -> bool) s,
    In s sign_sites ->
    forall (sign : Data -> Sig) (ver_own ver_other : Sig -> Data -> bool) d d_other,
      (forall sg, run_site Sig Data sig_empty s sign ver_own ver_other d d_other = Emitted sg ->
                  sg = sign d /\ ver_own sg d = true) /\
      (ver_own (sign d) d = false ->
       run_site Sig Data sig_empty s sign ver_own ver_other d d_other = InternalErrorAlert \/
       run_site Sig Data sig_empty s sign ver_own ver_other d d_other = InternalErrorRaised).
Proof. exact all_sites_safe. Qed.

(* obligations on the tables regenerated from /repo *)
Theorem sign_sites_as_modelled :
  forallb site_checked sign_sites = true /\ map site_id sign_sites = expected_site_ids.
Proof. exact sites_as_modelled. Qed.

(* The guards behind the acceptance theorems are present in /repo (table regenerated from the ast):
   signature representative < n and of modulus length (pkcs1_rejects_everything_else: n <= s => rejected),
   0 < r, s < q (dsa_verify_rejects_out_of_range), >= 8 bytes of padding (pkcs1_min_padding), the PSS checks
   (pss_verify_checks_all), the rsa-pss key-type guard (pss_only_key_rejects_pkcs1), 2 <= y < p-1 and the
   result check (ffdh_rejects), length and all-zero check (x_nonzero_check). *)
Theorem range_guards_present :
  forallb (fun g => existsb (guard_eqb g) range_guards) expected_range_guards = true.
Proof. exact guards_present. Qed.

Theorem modelled_sources_unchanged : src_fingerprints = expected_fingerprints.
Proof. exact sources_unchanged. Qed.

Theorem internal_error_always_alerted : unhandled_callers = [].
Proof. exact unhandled_callers_are. Qed.
