(* Property C20 -- statements only; proofs live in Proofs/C20_Suites.v.

   Domain (finite, explicit in every statement): s in all_suites (every id in
   CipherSuite.ietfNames or in any CipherSuite.*Suites list of the tree under test),
   v in all_versions = [0..4] for (3,0)..(3,4), with  negotiable s v = true : some
   server credential class may select s at version v, or some client accepts s in a
   ServerHello of version v (the handshake's own filters under all-permissive settings).
   Gen/Suites.v is regenerated from /repo on every run; meaning_of s parses the
   independently written IANA name of s (Spec/Iana.v). *)
From Coq Require Import ZArith List Bool String.
From TV Require Import Gen.Suites Spec.Iana Model.C20_Classify Proofs.C20_Suites.
Import ListNotations.
Open Scope string_scope.
Open Scope Z_scope.

(* nothing below is read through a default value; every list of the library has a stated meaning *)
Theorem tables_wellformed : tables_wf = true /\ semantics_cover = true.
Proof. exact wf_true. Qed.

(* the hypotheses are satisfiable: TLS_ECDHE_RSA_WITH_AES_128_GCM_SHA256 in TLS 1.2 *)
Example negotiable_example : In 49199 all_suites /\ In 3 all_versions /\ negotiable 49199 3 = true.
Proof. exact L_example. Qed.

(* key length, IV length, cipher constructor, MAC length and digest (RecordLayer._getCipherSettings,
   _getMacSettings), the PRF really applied by calc_key for every label (key expansion, master secret,
   extended master secret, Finished) / the TLS 1.3 key-schedule hash, the exporter, the deprecated
   calc* helpers, the TLS 1.3 KeyUpdate (hash and length of the next traffic secret, of the new key and
   IV, in all four role/direction wrappers), the TLS 1.3 PSK rule (filter_for_prfs and the server's
   selection guard accept a PSK for the suite exactly when its hash is the suite's), and the
   key-exchange class chosen by client and server,
   are those denoted by the IANA name *)
Theorem classification_matches_name : forall s v,
  In s all_suites -> In v all_versions -> negotiable s v = true ->
  exists m r, meaning_of s = Some m /\ row_of s = Some r /\
    cipher_settings_ok m r = true /\ mac_settings_ok m r = true /\ prf_ok m r v = true /\
    labels_ok m r v = true /\ exporter_ok m r v = true /\ deprecated_ok m r v = true /\
    keyupdate_ok m r v = true /\ psk_ok m r v = true /\ cert_ok m r = true /\ chk_dispatch s = true.
Proof. exact L_classification. Qed.

(* a suite is negotiable only in a version that defines it: TLS 1.3 suites exactly in TLS 1.3,
   AEAD and SHA-2 MAC suites not before TLS 1.2 *)
Theorem never_in_undefined_version : forall s v,
  In s all_suites -> In v all_versions -> negotiable s v = true ->
  (exists m, meaning_of s = Some m /\ m_minv m <= v <= m_maxv m) /\ chk_version_classes s v = true.
Proof. exact L_never_in_undefined_version. Qed.

(* filterForVersion by itself, for every known id (negotiable or not) *)
Theorem filter_for_version_sound : forall s v,
  In s all_suites -> In v all_versions -> chk_ffv s v = true.
Proof. exact ffv_lifted. Qed.

(* cipherNames=[w] / macNames=[w] / keyExchangeNames=[w] admit exactly the suites whose name denotes w
   ("aead" is the MAC word of AEAD suites; TLS 1.3 suites are tied to no key-exchange word) *)
Theorem settings_words_match : forall s v,
  In s all_suites -> In v all_versions -> negotiable s v = true ->
  chk_cipher_words s v = true /\ chk_mac_words s v = true /\ chk_kx_words s v = true.
Proof. exact L_settings_words. Qed.

(* getCipherName() is the cipher word of the name; getMacName() is the HMAC word of the name, and
   None (or "aead") for an AEAD suite *)
Theorem accessors_match : forall s v,
  In s all_suites -> In v all_versions -> negotiable s v = true ->
  chk_cipher_accessor s = true /\ chk_mac_accessor s = true.
Proof. exact L_accessors. Qed.

(* membership in each of the library's *Suites lists equals the stated meaning of that list
   (Model/C20_Classify.v list_semantics) evaluated on the parsed name *)
Theorem list_membership_matches_name : forall s v,
  In s all_suites -> In v all_versions -> negotiable s v = true -> chk_lists s = true.
Proof. exact L_lists. Qed.

(* every negotiable suite is in exactly one cipher list, one MAC list (sha/sha256/sha384/md5/aead),
   one key-exchange list and one version list *)
Theorem lists_partition : forall s v,
  In s all_suites -> In v all_versions -> negotiable s v = true -> chk_partition s = true.
Proof. exact L_partition. Qed.

(* resumed connections (TLS <= 1.2) take the suite for the key block and the Finished values from the session
   being resumed, on both sides; the client really sends illegal_parameter and aborts when the ServerHello names
   another suite; full handshakes use the negotiated suite; a server with several key pairs filters the suites by the
   certificate it is about to send; the client refuses (illegal_parameter) a certificate whose key type is not one
   the suite accepts -- which types those are is part of classification_matches_name (chk_dispatch)
   (structure of tlsconnection.py, read from its ast) *)
Theorem resumption_uses_session_suite : chk_suite_sources = true.
Proof. exact suite_sources_ok. Qed.

(* beyond the property (all known ids with a registered meaning, negotiable or not): an id whose
   record-layer settings, accessor names or membership in the lists consulted by the record layer, the
   key derivation and the version filter deviate from its name can never be negotiated.  (Today exactly
   0x003E, 0x0040, 0x0068, 0x006A: in aes*Suites but in no MAC list; reported in the evidence notes.) *)
Theorem static_defects_not_negotiable : forall s v,
  In s all_suites -> In v all_versions -> chk_static s = false -> negotiable s v = false.
Proof. exact L_static_defects. Qed.

(* History: until /repo commit "fix: AEAD suites 0x00A3/0x00A5 must not be listed as HMAC-SHA384
   suites" the MAC parts of the last four theorems were refuted at s = 163 = 0x00A3
   TLS_DHE_DSS_WITH_AES_256_GCM_SHA384, v = 3 (in sha384Suites and in aeadSuites); this file then
   held mac_classification_refuted (that witness) and mac_classification_partial (s <> 163). *)
