(* Property C17 -- closure, truncation and transport failures are contained and reported
   faithfully.  Statements only; proofs live in Proofs/C17_Lifecycle.v, the model in
   Model/C17_Lifecycle.v.  `run s evs` executes an ARBITRARY list of events (user calls,
   incoming messages, transport failures) from state s. *)
From Coq Require Import ZArith List Bool.
From TV Require Import Model.C17_Lifecycle Model.C17_Sessions Proofs.C17_Lifecycle Proofs.C17_Sessions.
Import ListNotations.
Open Scope Z_scope.

(* session.resumable is only ever switched off: along any event sequence in which no new
   session object is installed, the flag stays or goes from true to false *)
Theorem resumable_only_toggles_off : forall evs s s' os,
  Forall not_setsess evs -> run s evs = (s', os) -> sess_le (sess s) (sess s').
Proof. exact run_sess_le. Qed.

(* closed is absorbing for data calls: on a closed connection (outside a handshake, nothing
   queued) every sequence of reads, writes, closes, incoming messages and transport events
   leaves it closed, puts nothing on the wire, and yields only normal read returns, the
   closed-connection error for writes, and normal close returns *)
Theorem closed_is_absorbing : forall evs s s' os, shut s -> Forall data_event evs -> run s evs = (s', os) ->
  shut s' /\ wire s' = wire s /\
  Forall (fun o => (exists d, o = ORet d) \/ o = OExc XClosed \/ o = OExc XValue \/ o = ODone \/ o = OStep \/ o = ONone) os.
Proof. exact run_shut. Qed.

Theorem closed_is_absorbing_calls : forall s ev s' o, shut s -> data_event ev -> step s ev = (s', o) ->
  shut s' /\ wire s' = wire s /\
  match ev with
  | URead _ _ => exists d, o = ORet d /\ d ++ rbuf s' = rbuf s /\ sess s' = sess s
  | UWrite _ => o = OExc XClosed /\ s' = s
  | UClose => o = ODone /\ s' = s
  | UKeyUpdate | UHeartbeat _ => o = OExc XClosed /\ s' = s
  | UPha _ => o = OExc XValue /\ s' = s
  | _ => sess s' = sess s
  end.
Proof. exact step_shut. Qed.

(* orderly close: close_notify is the next message and the reader wants more than is buffered.
   The read returns the buffered bytes (no exception), answers close_notify, the session keeps
   its flag; afterwards, for EVERY continuation of data calls and transport events (reads, WRITES,
   closes, makefile, flag changes, incoming messages, EOF/reset/send failures -- everything but a
   new handshake): the connection stays closed, nothing goes on the wire, the session flag is
   unchanged, reads return only what was buffered (empty once it is drained), writes raise the
   closed-connection error.
   (Before /repo 8b57b65 this held only for continuations without writes --
   after_close_notify_partial -- and after_close_notify_refuted : ~ after_close_notify_full had the
   witness [close_notify; read; write] => session.resumable = False.) *)
Theorem after_close_notify : forall s l rest mx mn,
  closed s = false -> hs s = false -> wq s = [] -> bufw s = false -> inq s = IAlert l 0 :: rest ->
  (zlen (rbuf s) <? mn) || is_nil (rbuf s) = true ->
  exists s1, step s (URead mx mn) = (s1, ORet (firstn (take_n mx (rbuf s)) (rbuf s))) /\
    closed s1 = true /\ sess s1 = sess s /\
    (sock_open s = true -> txf s = None -> wire s1 = wire s ++ [WAlert 1 0]) /\
    forall evs s2 os, Forall data_event evs -> run s1 evs = (s2, os) ->
      closed s2 = true /\ sess s2 = sess s /\ wire s2 = wire s1 /\
      Forall (fun o => (exists d, o = ORet d) \/ o = OExc XClosed \/ o = OExc XValue \/ o = ODone \/ o = OStep \/ o = ONone) os /\
      (rbuf s1 = [] -> Forall (fun o => forall d, o = ORet d -> d = []) os).
Proof. exact after_close_notify_lemma. Qed.

(* the history that used to refute it: now the session stays resumable *)
Theorem after_close_notify_history :
  let '(s', os) := run est0 [NIn (IAlert 1 0); URead None 1; UWrite [119]] in
  os = [ONone; ORet []; OExc XClosed] /\ closed s' = true /\ sess s' = Some true.
Proof. exact write_after_close_history. Qed.

(* truncation is never reported as end of data: the transport ends without close_notify while
   the reader still wants data => TLSAbruptCloseError, closed, session not resumable; only with
   ignoreAbruptClose does the read return normally (and the session keeps its flag) *)
Theorem truncation_never_eof : forall s mx mn,
  closed s = false -> wq s = [] -> bufw s = false -> inq s = [] -> sock_open s = true -> rxe s = RxEof ->
  (zlen (rbuf s) <? mn) || is_nil (rbuf s) = true ->
  exists s', closed s' = true /\
   if ign s
   then step s (URead mx mn) = (s', ORet (firstn (take_n mx (rbuf s)) (rbuf s))) /\ sess s' = sess s
   else step s (URead mx mn) = (s', OExc XAbrupt) /\ sess s' = option_map (fun _ => false) (sess s).
Proof. exact read_truncated. Qed.

(* ... and in general, for ANY state and ANY queue of arrived messages: a read on an open
   connection that returns normally and leaves the connection closed, with ignoreAbruptClose
   off, can only have been ended by a close_notify alert that had arrived *)
Theorem truncation_never_eof_general : forall s mx mn s' d,
  ign s = false -> closed s = false -> step s (URead mx mn) = (s', ORet d) -> closed s' = true ->
  exists l, In (IAlert l 0) (inq s).
Proof. exact read_closes_only_on_close_notify. Qed.

(* whenever ANY call raises, in any state reachable from a fresh connection (inv, see
   inv_reachable), the connection is closed afterwards -- read, write, close, the handshake
   calls and (since /repo fa8f243; before that exception_closes_partial excluded them) the
   public post-handshake calls send_keyupdate_request, request_post_handshake_auth,
   write_heartbeat.  Only the caller errors those three raise before anything is sent
   (XValue: ValueError / TLSIllegalParameterException / TLSInternalError) leave the state as it is. *)
Theorem exception_closes : forall s ev s' x, inv s -> (post_call ev -> x <> XValue) ->
  step s ev = (s', OExc x) -> closed s' = true.
Proof. exact exc_closes. Qed.

Theorem post_call_error_cases : forall s ev s' x, post_call ev -> step s ev = (s', OExc x) ->
  (x = XValue /\ s' = s) \/ closed s' = true.
Proof. exact post_call_exc. Qed.

Theorem inv_reachable : forall a b c d n evs s' os, run (init a b c d n) evs = (s', os) -> inv s'.
Proof. exact init_run_inv. Qed.

(* transport faults in the data phase *)
Theorem fault_in_read : forall s e mx mn,
  closed s = false -> wq s = [] -> bufw s = false -> inq s = [] -> sock_open s = true -> rxe s = RxErr e ->
  (zlen (rbuf s) <? mn) || is_nil (rbuf s) = true ->
  exists s', step s (URead mx mn) = (s', OExc (XSock e)) /\ closed s' = true /\
             sess s' = option_map (fun _ => false) (sess s).
Proof. exact read_sock_error. Qed.

Theorem fault_in_write : forall s d e, closed s = false -> wq s = [] -> bufw s = false -> tx_dead s e ->
  exists s', step s (UWrite d) = (s', OExc (XSock e)) /\ closed s' = true /\
             sess s' = (if ign s then sess s else option_map (fun _ => false) (sess s)).
Proof. exact write_fault. Qed.

(* a transport failure exactly at a public post-handshake call (send_keyupdate_request,
   request_post_handshake_auth, write_heartbeat), FULL: the send direction is dead and either a
   record of the peer is waiting or the receive side has ended; the call raises the abrupt-close /
   socket error -- or the peer's alert when one was waiting --, the connection is closed, the
   session not resumable.
   (Before /repo fa8f243 this was post_handshake_fault_contained_partial /
   post_handshake_fault_contained_refuted: with nothing waiting the exception left with closed =
   False and the session resumable; a failed heartbeat send never closed anything.) *)
Theorem post_handshake_fault_contained : forall s e ev,
  applicable ev s -> closed s = false -> wq s = [] -> bufw s = false -> tx_dead s e ->
  (inq s <> [] \/ rxe s <> RxOpen) ->
  exists s' x, step s ev = (s', OExc x) /\ closed s' = true /\
    sess s' = option_map (fun _ => false) (sess s) /\
    (fault_exn x \/ exists l d rest, inq s = IAlert l d :: rest /\ x = XRemote d).
Proof. exact post_call_fault. Qed.

(* half-open transport (only the send direction is dead, nothing has arrived): KeyUpdate and the
   post-handshake CertificateRequest are handshake records, the code waits for the peer's next
   record, which may be the alert explaining the failure *)
Theorem post_handshake_fault_half_open : forall s e,
  closed s = false -> tls13 s = true -> wq s = [] -> bufw s = false -> tx_dead s e ->
  inq s = [] -> rxe s = RxOpen -> step s UKeyUpdate = (s, OBlocked) /\ step s (UPha true) = (s, OBlocked).
Proof. exact post_call_half_open. Qed.

(* the former witnesses: handshake, the transport dies, the call raises -- closed, session off,
   the next write gets the closed-connection error *)
Theorem post_handshake_fault_history_keyupdate :
  let '(s', os) := run (init false true true false 16384) (post_fault_script UKeyUpdate) in
  os = [OStep; OStep; ONone; OStep; OStep; OHsDone; ONone; ONone; OExc XAbrupt; OExc XClosed] /\
  closed s' = true /\ sess s' = Some false.
Proof. exact keyupdate_fault_history. Qed.

Theorem post_handshake_fault_history_heartbeat :
  let '(s', os) := run (init false true false false 16384) (post_fault_script (UHeartbeat true)) in
  os = [OStep; OStep; ONone; OStep; OStep; OHsDone; ONone; ONone; OExc (XSock 32); OExc XClosed] /\
  closed s' = true /\ sess s' = Some false.
Proof. exact heartbeat_fault_history. Qed.

(* transport faults at a step of a handshake: the call raises the abrupt-close or a socket
   error, the handshake is over, the connection closed, the session not resumable *)
Theorem fault_in_handshake_recv : forall s, hs s = true -> wq s = [] -> inq s = [] -> rx_dead s ->
  exists s' o, step s (UHs HRecv) = (s', o) /\ contained s s' o.
Proof. exact hs_recv_fault. Qed.

Theorem fault_in_handshake_send : forall s ct e,
  hs s = true -> wq s = [] -> bufw s = false -> tx_dead s e -> ct <> 22 ->
  exists s', step s (UHs (HSend ct)) = (s', OExc (XSock e)) /\ contained s s' (OExc (XSock e)).
Proof. exact hs_send_fault. Qed.

Theorem fault_in_handshake_flush : forall s e w q, hs s = true -> wq s = w :: q -> tx_dead s e ->
  exists s', step s (UHs HFlushOff) = (s', OExc (XSock e)) /\ contained s s' (OExc (XSock e)).
Proof. exact hs_flush_fault. Qed.

(* FULL statement for send steps: the transport is dead (sends fail for good, the receive side
   has ended); whatever record type is being sent and whatever had arrived before, the call
   raises, the handshake is over, the connection closed, the session not resumable; the exception
   is the abrupt-close / socket error, or the peer's alert when one was waiting.
   (Before /repo 0ab9df1 the case "a non-alert record is waiting" returned OStep and the
   handshake went on: transport_fault_contained_partial / transport_fault_contained_refuted.) *)
Theorem transport_fault_contained : forall s e ct,
  hs s = true -> wq s = [] -> bufw s = false -> tx_dead s e -> rxe s <> RxOpen ->
  exists s' o, step s (UHs (HSend ct)) = (s', o) /\ hs s' = false /\ closed s' = true /\
    sess s' = option_map (fun _ => false) (sess s) /\
    ((exists x, o = OExc x /\ fault_exn x) \/
     (exists l d rest, ct = 22 /\ inq s = IAlert l d :: rest /\ o = OExc (XRemote d))).
Proof. exact hs_send_contained. Qed.

(* the five sub-cases of a failed handshake-record send one by one, including the half-open
   transport (only the send direction dead, nothing arrived): there the code waits for the
   peer's next record, which may be the alert explaining the failure *)
Theorem transport_fault_contained_cases : forall s e,
  hs s = true -> wq s = [] -> bufw s = false -> tx_dead s e ->
  match inq s with
  | [] => match rxe s with
          | RxOpen => exists s', step s (UHs (HSend 22)) = (s', OBlocked) /\ hs s' = false
          | _ => exists s' o, step s (UHs (HSend 22)) = (s', o) /\ contained s s' o
          end
  | IAlert l d :: _ =>
      exists s', step s (UHs (HSend 22)) = (s', OExc (XRemote d)) /\ hs s' = false /\
                 (closed s' = true) /\ sess s' = option_map (fun _ => false) (sess s)
  | _ :: _ =>
      exists s', step s (UHs (HSend 22)) = (s', OExc (XSock e)) /\ contained s s' (OExc (XSock e))
  end.
Proof. exact hs_send22_fault. Qed.

(* the history that used to end in "handshake complete" on a closed socket *)
Theorem transport_fault_contained_history :
  let '(s', os) := run (init false true true false 16384) swallow_script in
  os = [OStep; ONone; OStep; OStep; ONone; OStep; OStep; ONone; ONone; ONone; OExc (XSock 32); ONone] /\
  closed s' = true /\ hs s' = false /\ sock_open s' = false /\ sess s' = Some false.
Proof. exact swallow_script_contained. Qed.

(* once a handshake call has ended (in particular: raised), no completion is reported by any
   later event until a new handshake is started *)
Theorem no_completion_after_failure : forall evs s s' os,
  Forall (fun ev => ev <> UHsStart) evs -> hs s = false -> run s evs = (s', os) -> ~ In OHsDone os.
Proof. exact run_no_complete. Qed.

(* a fatal (or warning) alert of the peer is surfaced as TLSRemoteAlert with its description,
   the connection is closed and the session not resumable -- in the data phase ... *)
Theorem fatal_alert_surfaced : forall s l d rest mx mn,
  closed s = false -> wq s = [] -> bufw s = false -> inq s = IAlert l d :: rest -> d <> 0 ->
  (zlen (rbuf s) <? mn) || is_nil (rbuf s) = true ->
  exists s', step s (URead mx mn) = (s', OExc (XRemote d)) /\ closed s' = true /\
             sess s' = option_map (fun _ => false) (sess s).
Proof. exact read_alert. Qed.

(* ... and in a handshake *)
Theorem fatal_alert_surfaced_in_handshake : forall s l d rest,
  hs s = true -> closed s = true -> wq s = [] -> inq s = IAlert l d :: rest -> l <> 1 -> d <> 0 ->
  exists s', step s (UHs HRecv) = (s', OExc (XRemote d)) /\ hs s' = false /\ closed s' = true /\
             sess s' = option_map (fun _ => false) (sess s).
Proof. exact hs_recv_fatal. Qed.

(* ---- session objects are shared by reference (Model/C17_Sessions.v) ---------------------- *)
(* In a world of any number of connections and session objects, along ANY sequence of events
   (events on any connection, new sessions, resumptions adopting an existing object, lookups):
   no object is lost and a flag that is off stays off *)
Theorem shared_session_flag_only_toggles_off : forall evs w w' os, wrun w evs = (w', os) ->
  (length (store w) <= length (store w'))%nat /\
  forall l, (l < length (store w))%nat -> flag w l = false -> flag w' l = false.
Proof. exact wrun_store. Qed.

(* ... hence every later lookup of that object (SessionCache[...] / Session.valid()) fails *)
Theorem dead_session_is_never_resumed : forall evs w w' os l, (l < length (store w))%nat -> flag w l = false ->
  wrun w evs = (w', os) ->
  forall k, nth_error evs k = Some (WLookup l) -> nth_error os k = Some (WFound false).
Proof. exact wrun_lookups_false. Qed.

(* a step on ANY connection that leaves that connection's session flag off leaves it off in the
   object itself, hence in the view of every connection that shares the object *)
Theorem failure_on_any_connection_clears_shared_flag : forall w i c l ev s' o,
  nth_error (conns w) i = Some c -> sref c = Some l -> (l < length (store w))%nat -> is_setsess ev = false ->
  step (set_sess (view w c) (cst c)) ev = (s', o) -> sess s' = Some false ->
  exists w', wstep w (WConn i ev) = (w', WO o) /\ flag w' l = false /\ length (store w') = length (store w) /\
    (forall j c', nth_error (conns w') j = Some c' -> sref c' = Some l -> view w' c' = Some false).
Proof. exact failure_clears. Qed.

(* a fatal or warning alert (other than close_notify) read on any connection of session l --
   the one that created it or one that resumed it: TLSRemoteAlert, and the session is dead for
   all its connections, for the cache, and for every later resumption attempt *)
Theorem fatal_alert_on_any_connection_invalidates_session : forall w i c l lv d rest mx mn,
  nth_error (conns w) i = Some c -> sref c = Some l -> (l < length (store w))%nat ->
  closed (cst c) = false -> wq (cst c) = [] -> bufw (cst c) = false -> inq (cst c) = IAlert lv d :: rest -> d <> 0 ->
  (zlen (rbuf (cst c)) <? mn) || is_nil (rbuf (cst c)) = true ->
  exists w', wstep w (WConn i (URead mx mn)) = (w', WO (OExc (XRemote d))) /\ flag w' l = false /\
    (forall j c', nth_error (conns w') j = Some c' -> sref c' = Some l -> view w' c' = Some false) /\
    (forall evs w2 os, wrun w' evs = (w2, os) ->
       flag w2 l = false /\ forall k, nth_error evs k = Some (WLookup l) -> nth_error os k = Some (WFound false)).
Proof. exact alert_on_shared_session. Qed.

(* the same for a transport failure while reading *)
Theorem transport_failure_on_any_connection_invalidates_session : forall w i c l e mx mn,
  nth_error (conns w) i = Some c -> sref c = Some l -> (l < length (store w))%nat ->
  closed (cst c) = false -> wq (cst c) = [] -> bufw (cst c) = false -> inq (cst c) = [] ->
  sock_open (cst c) = true -> rxe (cst c) = RxErr e ->
  (zlen (rbuf (cst c)) <? mn) || is_nil (rbuf (cst c)) = true ->
  exists w', wstep w (WConn i (URead mx mn)) = (w', WO (OExc (XSock e))) /\ flag w' l = false /\
    (forall j c', nth_error (conns w') j = Some c' -> sref c' = Some l -> view w' c' = Some false) /\
    (forall evs w2 os, wrun w' evs = (w2, os) ->
       flag w2 l = false /\ forall k, nth_error evs k = Some (WLookup l) -> nth_error os k = Some (WFound false)).
Proof. exact sock_error_on_shared_session. Qed.

(* the model's loops are totalised with fuel; running out would be the outcome OFuel, which
   no theorem above accepts as a normal return or an exception -- and it never happens *)
Theorem model_never_out_of_fuel : forall s ev, snd (step s ev) <> OFuel.
Proof. exact step_no_fuel. Qed.

(* ---- the hypotheses are satisfiable by states that real histories reach ------------------- *)
Example ex_orderly : closed ex_open_cn = false /\ hs ex_open_cn = false /\ wq ex_open_cn = [] /\ bufw ex_open_cn = false /\
  inq ex_open_cn = [IData [1; 2]; IAlert 1 0] /\ sess ex_open_cn = Some true.
Proof. vm_compute. repeat split. Qed.

Example ex_handshake : hs ex_in_handshake = true /\ closed ex_in_handshake = true /\ wq ex_in_handshake = [] /\
  bufw ex_in_handshake = false /\ inq ex_in_handshake = [] /\ sess ex_in_handshake = Some true /\ inv ex_in_handshake.
Proof. vm_compute. repeat split. Qed.

Example ex_shut : shut (fst (run est0 [UClose])) /\ sess (fst (run est0 [UClose])) = Some true.
Proof. vm_compute. repeat split. Qed.

Example ex_tx_dead : tx_dead (fst (run ex_in_handshake [NSendBreak 0 32])) 32.
Proof. vm_compute. split; [reflexivity|]. exists 0. split; [reflexivity|]. intros X; discriminate X. Qed.

(* a session created on connection 0, resumed on connection 1 where a fatal alert arrives: the
   lookup succeeds before and fails after, and connection 0 sees the flag off as well *)
Example ex_shared_session :
  let '(w', os) := wrun w_example [WLookup 0; WConn 1 (URead None 1); WLookup 0; WConn 0 (URead None 1); WLookup 0] in
  os = [WFound true; WO (OExc (XRemote 80)); WFound false; WO (ORet []); WFound false] /\
  conn_view w' 0 = Some false /\ conn_view w' 1 = Some false.
Proof. exact w_example_run. Qed.
