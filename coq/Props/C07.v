(* Property C07 -- statements only.  Spec/C07_NegotiateRFC.v states what any two conforming TLS
   endpoints must negotiate; the interoperability with OpenSSL itself is established per explored
   configuration by harness/props/C07.py (translation validation), not by these theorems. *)
From Coq Require Import ZArith List Bool.
From TV Require Import Base.Prelude Gen.C03Tables Model.C03_Negotiate Spec.C07_NegotiateRFC
                       Proofs.C03_Negotiate Proofs.C07_Spec Proofs.C07_Refine.
Import ListNotations.
Open Scope Z_scope.

(* failures occur exactly when the two configurations share nothing usable *)
Theorem spec_fails_iff_no_common : forall env c s,
  spec_negotiate env c s = None <-> ~ common env c s.
Proof. exact spec_fails_iff_no_common_pf. Qed.

(* every component of the spec's choice lies in both configurations, the version is the highest
   common one at which some suite is feasible, and a suite that needs a group / a signature scheme gets one *)
Theorem spec_choice_in_both : forall env c s ch, spec_negotiate env c s = Some ch ->
  (In (co_version ch) (cf_versions c) /\ In (co_version ch) (cf_versions s) /\
   forall w, In w (cf_versions c) -> version_ok env c s w = true -> w <= co_version ch) /\
  (In (co_suite ch) (cf_suites c) /\ In (co_suite ch) (cf_suites s) /\
   usable env (co_version ch) (co_suite ch) = true) /\
  (forall g, co_group ch = Some g -> In g (cf_groups c) /\ In g (cf_groups s)) /\
  (forall sg, co_sig ch = Some sg -> In sg (cf_sigs c) /\ In sg (cf_sigs s) /\ sig_fits env (co_version ch) sg = true) /\
  (forall p, co_alpn ch = Some p -> exists a b, cf_alpn c = Some a /\ cf_alpn s = Some b /\ In p a /\ In p b) /\
  (needs_group env (co_suite ch) = true -> co_group ch <> None) /\
  (needs_sig env (co_version ch) (co_suite ch) = true -> co_sig ch <> None).
Proof. exact spec_choice_in_both_pf. Qed.

(* FULL STATEMENT: the C03 model of tlslite-ng yields exactly spec_negotiate of the abstracted
   configurations.  Proved part: whatever the model negotiates is *permitted* by the spec -- every
   component lies in both abstract configurations.  Missing for equality: tlslite-ng takes the first
   of the server's `versions` list offered by the client rather than the numerically highest, and
   orders suites by key-exchange family; equality would need `versions` sorted descending and a
   preference-order abstraction (both are compared on live runs by the harness instead). *)
Theorem tlslite_model_refines_spec_partial : forall c s o, negotiate c s = Ok o ->
  let v := vw_version (oc_server o) in let suite := vw_suite (oc_server o) in
  (0 <= v <= 4 -> In v (cf_versions (abs_client c))) /\
  (0 <= v <= 4 -> st_minV (sv_set s) <= st_maxV (sv_set s) -> In v (cf_versions (abs_server s v))) /\
  In suite (cf_suites (abs_client c)) /\ In suite (cf_suites (abs_server s v)) /\
  (forall g, fl_group (oc_flight o) = Some g -> In g (cf_groups (abs_client c)) /\ In g (cf_groups (abs_server s v))) /\
  (forall sg, fl_sig (oc_flight o) = Some sg -> In sg (cf_sigs (abs_client c)) /\ In sg (cf_sigs (abs_server s v))) /\
  (forall p, vw_alpn (oc_server o) = Some p ->
     exists a b, cf_alpn (abs_client c) = Some a /\ cf_alpn (abs_server s v) = Some b /\ In p a /\ In p b).
Proof. exact refines_spec_pf. Qed.

(* the hypotheses are satisfiable *)
Example spec_example :
  let env := {| usable := fun v s => (s =? 4866) && (v =? 4) || (s =? 49199) && (v =? 3);
                needs_group := fun _ => true; needs_sig := fun _ _ => true; sig_fits := fun _ _ => true |} in
  spec_negotiate env
    {| cf_versions := [4; 3]; cf_suites := [4866; 49199]; cf_groups := [29; 23]; cf_sigs := [2052]; cf_alpn := Some [1; 2] |}
    {| cf_versions := [3; 2]; cf_suites := [49199; 4866]; cf_groups := [23]; cf_sigs := [1025; 2052]; cf_alpn := Some [2] |}
  = Some {| co_version := 3; co_suite := 49199; co_group := Some 23; co_sig := Some 2052; co_alpn := Some 2 |}.
Proof. vm_compute. reflexivity. Qed.
