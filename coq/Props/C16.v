(* Property C16 -- post-handshake control traffic never disturbs the data stream or key sync.
   Statements only; proofs live in Proofs/C16_PostHs.v.  The model is Model/C16_PostHs.v
   (tied to tlslite-ng by the per-operation correspondence of harness/props/C16.py); the
   predicates are in Spec/C16_Spec.v.

   [exec (init v13 cc sc nst) ops] is the state after an ARBITRARY list [ops] of operations,
   each issued by either endpoint (write, read, key_update(request?), request_client_auth,
   heartbeat(payload,padding), tickets, close, record-size changes, and the deviating-peer
   operations: lying post-handshake-auth client, injection of any non-data control record),
   from ANY configuration of the two endpoints, TLS 1.3 (v13 = true) or TLS <= 1.2. *)
From Coq Require Import ZArith List Bool.
From TV Require Import Base.Prelude Model.C16_PostHs Spec.C16_Spec Proofs.C16_PostHs Proofs.C16_Honest Proofs.C16_Heartbeat.
Import ListNotations.
Open Scope Z_scope.

(* Every record in flight was written under exactly the generation its reader will have when it
   reaches it, in both directions, whatever the interleaving (both sides updating at once, any
   number of queued KeyUpdates): no reachable state ever fails to open a record. *)
Theorem keys_in_step : forall v13 cc sc nst ops,
  let s := exec (init v13 cc sc nst) ops in
  in_step (rgen (ks (eb s))) (ab s) (wgen (ks (ea s))) /\
  in_step (rgen (ks (ea s))) (ba s) (wgen (ks (eb s))) /\
  badmac (io (ea s)) = false /\ badmac (io (eb s)) = false.
Proof. exact keys_in_step_all. Qed.

(* Application bytes: what the writer's write() accepted = what the reader's read() returned
   ++ its read buffer ++ the data still in flight -- exactly and in order, in both directions,
   whatever control traffic is interleaved. *)
Theorem data_fifo_under_control : forall v13 cc sc nst ops,
  let s := exec (init v13 cc sc nst) ops in
  sent (io (ea s)) = delivered (io (eb s)) ++ rbuf (io (eb s)) ++ chdata (ab s) /\
  sent (io (eb s)) = delivered (io (ea s)) ++ rbuf (io (ea s)) ++ chdata (ba s).
Proof. exact data_fifo_all. Qed.

Corollary delivered_is_prefix : forall v13 cc sc nst ops,
  let s := exec (init v13 cc sc nst) ops in
  is_prefix (delivered (io (eb s))) (sent (io (ea s))) /\ is_prefix (delivered (io (ea s))) (sent (io (eb s))).
Proof. exact delivered_prefix_all. Qed.

(* A KeyUpdate(update_requested) is answered by exactly one KeyUpdate(update_not_requested):
   responses sent = requests processed; and the write/read generations are exactly the numbers
   of KeyUpdates sent / processed (each advances the keys once, the response after it was sent). *)
Theorem ku_response_exactly_once : forall v13 cc sc nst ops,
  let s := exec (init v13 cc sc nst) ops in
  forall e, e = ea s \/ e = eb s ->
  n_ku_resp (ks e) = n_ku_req (ks e) /\ wgen (ks e) = n_ku_sent (ks e) /\ rgen (ks e) = n_ku_rcvd (ks e).
Proof. exact ku_once_all. Qed.

(* Heartbeat.  A record is emitted in answer to a heartbeat record only if it parses as a request
   with >= 16 bytes of padding and the mode allows it; what is emitted is exactly ONE record, the
   response carrying the request's payload, and it fits into one record of the responder. *)
Theorem heartbeat_echo : forall me b me1 out,
  on_heartbeat me b = Some (me1, out) -> out <> [] ->
  exists payload pad, hb_parse b = Some (1, payload, pad) /\ 16 <= zlen pad /\
    hb_recv (cf me) = true /\ hb_sup (cf me) = true /\
    out = [emit me (MHB (hb_write 2 payload (padding 16)))] /\
    zlen (hb_write 2 payload (padding 16)) <= recsize (cf me).
Proof. exact hb_echo. Qed.

(* ... a well-formed request is answered by one record that parses back to the same payload
   (Heartbeat.write/parse round trip), or -- when the answer would not fit into one record of the
   responder -- by nothing at all (RFC 6520: too large, silently discarded) *)
Theorem heartbeat_request_answered : forall me p padlen,
  hb_sup (cf me) = true -> hb_recv (cf me) = true -> zlen p < 65536 -> 16 <= padlen ->
  on_heartbeat me (hb_write 1 p (padding padlen)) =
    Some (me, if recsize (cf me) <? 3 + zlen p + 16 then [] else [emit me (MHB (hb_write 2 p (padding 16)))]) /\
  hb_parse (hb_write 2 p (padding 16)) = Some (2, p, padding 16).
Proof. exact hb_request_answered. Qed.

(* ... a request that would have to be fragmented is refused at send time (ValueError): the
   state does not change and nothing is sent *)
Theorem heartbeat_oversize_refused : forall s p pl,
  recsize (cf (ea s)) < zlen (hb_write 1 p (padding pl)) ->
  fst (act s (OHeartbeat p pl)) = s /\ emitted (snd (act s (OHeartbeat p pl))) = [] /\
  2000 <= code (snd (act s (OHeartbeat p pl))).
Proof. exact hb_oversize_refused. Qed.

(* ... and, for EVERY history in which no raw heartbeat record is injected by a deviating peer
   (all other operations, honest or not, allowed; any record sizes): every payload handed to a
   heartbeat callback is the payload of a write_heartbeat call made by that same endpoint --
   never a foreign payload.
   (Before 9b89f7b this was FALSE of the faithful model and of the code:
   heartbeat_echo_oversize_refuted exhibited recordSize 20, payload = 17 filler bytes ++
   [1;0;1;9] ++ 16 bytes, padding 0: write_heartbeat fragmented the message, the peer answered
   the second fragment and the client's callback received [9].) *)
Theorem heartbeat_never_foreign_payload : forall v13 cc sc nst ops,
  forallb (fun p => no_hb_inject (snd p)) ops = true ->
  let s := exec (init v13 cc sc nst) ops in
  (forall p, In p (hb_got (ms (ea s))) -> In p (hb_calls true ops)) /\
  (forall p, In p (hb_got (ms (eb s))) -> In p (hb_calls false ops)).
Proof. exact hb_callback_payloads_requested. Qed.

(* Post-handshake authentication: the server's recorded chain / list of authenticated contexts
   changes only when the Certificate is followed by a CertificateVerify whose signature verifies
   AND a Finished whose verify_data verifies (or, for an empty chain when no certificate is
   required, by a valid Finished); the chain recorded is the one in that Certificate. *)
Theorem pha_chain_after_verify_and_finished : forall me0 me whole rest ctx ch me' rest' em c,
  srv_pha me0 me whole rest ctx ch = (me', rest', em, c) ->
  accepted (au me0) = accepted (au me) -> chain (au me0) = chain (au me) ->
  accepted (au me') <> accepted (au me) \/ chain (au me') <> chain (au me) ->
  c = 0 /\ chain (au me') = ch /\ accepted (au me') = accepted (au me) ++ [ctx] /\
  ((ch <> 0 /\ exists t1 t2, rest = mkrec t1 (MCV true) :: mkrec t2 (MFin true) :: rest') \/
   (ch = 0 /\ cert_required (cf me) = false /\ exists t, rest = mkrec t (MFin true) :: rest')).
Proof. exact srv_pha_accept. Qed.

(* A request context authenticates at most once: in every reachable state the contexts for
   which a chain was recorded are pairwise distinct, none of them is still outstanding, the
   outstanding ones are pairwise distinct, and all were issued by this endpoint. *)
Theorem pha_context_single_use : forall v13 cc sc nst ops,
  let s := exec (init v13 cc sc nst) ops in
  forall e, e = ea s \/ e = eb s ->
  NoDup (accepted (au e)) /\ NoDup (ctxs e) /\
  (forall c, In c (accepted (au e)) -> ~ In c (ctxs e) /\ 0 < c < next_ctx (au e)).
Proof. exact pha_single_use_all. Qed.

(* Malformed / unsolicited / not-permitted control records (Spec.bad_control: KeyUpdate with a
   value other than 0/1 or a wrong length or outside TLS 1.3, heartbeat when not negotiated or
   in peer_not_allowed_to_send mode, CertificateRequest to an endpoint that did not offer PHA or
   with an empty compression list, Certificate without an outstanding request or with an
   unknown/empty/used context, stray CertificateVerify/Finished/other handshake messages,
   NewSessionTicket to anything but a TLS 1.3 client, and record-ALIGNMENT violations: a KeyUpdate or
   a post-handshake Finished followed in its record by further handshake bytes -- a whole message
   or a fragment that would span the key change, RFC 8446 5.1): the reader sends the fatal alert, closes,
   and returns nothing.  FULL: no class is excluded.
   (Before df198c5 the class "NewSessionTicket sent to a TLS 1.3 SERVER" had to be excluded
   (..._partial) and ..._refuted showed a server storing the client's ticket and going on.) *)
Theorem malformed_or_unsolicited_control_fatal : forall v13 me m inc' d,
  bad_control v13 me m = Some d ->
  rloop v13 me (mkrec (rgen (ks me)) m :: inc') = (fatal me d, inc', [emit me (MAlert true d)], 100 + d).
Proof. exact bad_control_fatal. Qed.

(* once closed (fatal alert sent or received, close) an endpoint consumes and emits nothing and
   returns only bytes it had already buffered *)
Theorem closed_endpoint_inert : forall s o, closed (io (ea s)) = true ->
  let s' := fst (act s o) in
  ab s' = ab s /\ ba s' = ba s /\ eb s' = eb s /\
  delivered (io (ea s')) ++ rbuf (io (ea s')) = delivered (io (ea s)) ++ rbuf (io (ea s)) /\
  closed (io (ea s')) = true.
Proof. exact closed_inert. Qed.

(* "Never disturbs": in a history of PERMITTED operations only (Spec.honest_op: no injected
   records, no lying or replaying PHA client; client-auth requests with ANY compression setting)
   between endpoints whose post-handshake flags are consistent (Spec.init_ok: roles,
   heartbeat negotiated on both sides or on neither, PHA only if the client offered it and has a
   chain, recordSize >= 1), NO fatal alert is ever sent by either endpoint -- whatever the
   interleaving of writes, reads, KeyUpdates (any number, both sides), client-auth requests (any
   number outstanding), heartbeats of any size, tickets and close.  Together with
   data_fifo_under_control: the stream is neither cut nor reordered. *)
Theorem honest_never_fatal : forall v13 cc sc nst ops,
  init_ok cc sc -> v13 = true \/ nst <= 0 ->
  forallb (fun p => honest_op (snd p)) ops = true ->
  let s := exec (init v13 cc sc nst) ops in
  alerts (io (ea s)) = [] /\ alerts (io (eb s)) = [].
Proof. exact honest_never_fatal_all. Qed.

(* (F13, repaired in tlslite-ng by a078a25: a client-auth request made with
   certificate_compression_receive=[] used to kill the connection at the server's next read; the
   request is now well formed whatever the setting, [ORequestAuth false] is an honest operation
   and is covered by honest_never_fatal; see ex_pha_request_without_compression.) *)

(* ---- Examples: the hypotheses are satisfiable / the invariant is exercised on a non-trivial history *)
Example ex_simultaneous_update :
  let s := exec (init true ex_cc ex_sc 2)
             [(true, OKeyUpdate true); (false, OKeyUpdate true); (true, OWrite [1;2;3]); (false, OWrite [4;5]);
              (true, OKeyUpdate false); (false, ORead 0); (true, ORead 0); (true, ORead 0); (false, ORead 0);
              (true, ORead 0); (false, ORead 0); (true, ORead 0); (true, ORead 0)] in
  gens s = [3; 2; 2; 3] /\ delivered (io (eb s)) = [1;2;3] /\ delivered (io (ea s)) = [4;5] /\
  tickets (ms (ea s)) = 2 /\ ab s = [] /\ ba s = [].
Proof. vm_compute. repeat split. Qed.

Example ex_pha_accepts_honest_and_rejects_replay :
  let s1 := exec (init true ex_cc ex_sc 0)
             [(false, ORequestAuth true); (true, ORead 0); (false, ORead 0)] in
  let s2 := exec s1 [(true, OSetDev 4); (false, ORequestAuth true); (true, ORead 0); (false, ORead 0)] in
  chain (au (eb s1)) = 7 /\ accepted (au (eb s1)) = [1] /\ closed (io (eb s1)) = false /\
  chain (au (eb s2)) = 7 /\ accepted (au (eb s2)) = [1] /\ alerts (io (eb s2)) = [47].
Proof. vm_compute. repeat split. Qed.

Example ex_bad_control_hypotheses :
  bad_control true (ep0 ex_sc) (MKU 2) = Some 47 /\ bad_control true (ep0 ex_sc) (MCert 5 7) = Some 10 /\
  bad_control false (ep0 ex_cc) MNST = Some 10 /\ bad_control true (ep0 ex_cc) (MKU 1) = None /\
  bad_control true (ep0 ex_cc) (MKUx 1) = Some 10 /\ bad_control true (ep0 ex_sc) (MFinx true) = Some 10.
Proof. vm_compute. repeat split. Qed.

Example ex_pha_request_without_compression :
  let s := exec (init true ex_cc ex_sc 0)
             [(false, ORequestAuth false); (false, ORead 0); (true, ORead 0); (false, ORead 0)] in
  alerts (io (eb s)) = [] /\ alerts (io (ea s)) = [] /\ closed (io (eb s)) = false /\ chain (au (eb s)) = 7.
Proof. vm_compute. repeat split. Qed.

(* a PHA answer whose (valid) Finished does not end its record is refused and records no chain;
   a KeyUpdate that shares its record with a following message does not change the read keys *)
Example ex_alignment_violations :
  let s1 := exec (init true ex_cc ex_sc 0)
              [(true, OSetDev 7); (false, ORequestAuth true); (true, ORead 0); (false, ORead 0)] in
  let s2 := exec (init true ex_cc ex_sc 0) [(false, OInject (MKUx 0)); (true, ORead 0)] in
  alerts (io (eb s1)) = [10] /\ chain (au (eb s1)) = 0 /\ accepted (au (eb s1)) = [] /\
  alerts (io (ea s2)) = [10] /\ rgen (ks (ea s2)) = 0.
Proof. vm_compute. repeat split. Qed.

Example ex_init_ok : init_ok ex_cc ex_sc.
Proof. exact init_ok_ex. Qed.

Example ex_heartbeat :
  on_heartbeat (ep0 ex_sc) (hb_write 1 [7;8;9] (padding 16)) =
    Some (ep0 ex_sc, [emit (ep0 ex_sc) (MHB (hb_write 2 [7;8;9] (padding 16)))]).
Proof. vm_compute. reflexivity. Qed.

(* the former counter-example: the oversize request is now refused and nothing reaches the callback;
   a client's NewSessionTicket now kills the connection at the server *)
Example ex_heartbeat_oversize_refused :
  let pl := repeat 0 17 ++ [1; 0; 1; 9] ++ repeat 5 16 in
  let s := exec (init true (mkcfg true true true true true true false false 7 20 0) ex_sc 0)
             [(true, OHeartbeat pl 0); (false, ORead 0); (true, ORead 0)] in
  hb_got (ms (ea s)) = [] /\ ab s = [] /\ ba s = [] /\ hb_req (ms (ea s)) = [].
Proof. vm_compute. repeat split. Qed.

Example ex_ticket_to_server_fatal :
  let s := exec (init true ex_cc ex_sc 0) [(true, OInject MNST); (false, ORead 0)] in
  alerts (io (eb s)) = [10] /\ closed (io (eb s)) = true /\ tickets (ms (eb s)) = 0.
Proof. vm_compute. repeat split. Qed.
