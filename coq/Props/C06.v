(* Property C06 -- handshake messages are accepted only in the order the protocol allows.
   Statements only; proofs live in Proofs/C06_Sound.v and Proofs/C06_Incl.v.

   Model.C06_HsOrder : the receive side of the handshake coroutines as a finite automaton over
                       record-level events (epoch, payload), parametric in the gate table;
   Gen.C06_Gates     : every self._getMsg(...) call site, regenerated from /repo on each run;
   Spec.C06_HsGrammar: what the RFCs let an endpoint accept, as regular expressions.

   Every statement quantifies over ALL traces (lists of events of any length) or over ALL
   automaton states; the finite product automaton / state set is decided by vm_compute and
   lifted by the soundness lemma Proofs.C06_Sound.check_sound. *)
From Coq Require Import ZArith List Bool String.
From TV Require Import Model.C06_GateTypes Model.C06_HsOrder Spec.C06_HsGrammar Model.C06_Check
                       Gen.C06_Gates Proofs.C06_Sound Proofs.C06_Incl.
Import ListNotations.

(* The gate table read from the source is the one the automaton is built on: a widened,
   removed, reordered or added _getMsg call site breaks this obligation. *)
Theorem gates_as_modelled : extracted_gates = modelled_gates.
Proof. exact gates_eq. Qed.

(* FULL STATEMENT (false of the faithful model):
     forall c w, In c all_cfgs -> completes modelled_gates c w = true -> allowed c w = true.
   Refuted: for each known deviation class there is a configuration and a trace that
   completes the handshake, lies outside the grammar, and uses an edge of that class.
   Every witness was replayed on the implementation (design/C06.md, findings). *)
Theorem accepted_subset_allowed_refuted :
  Forall (fun x => let '(d, c, w) := x in
            completes modelled_gates c w = true /\ allowed c w = false /\
            uses_dev modelled_gates c w = true) deviation_witnesses
  /\ Forall (fun x => In (snd (fst x)) all_cfgs) deviation_witnesses.
Proof. exact (conj witnesses_refute witnesses_in_cfgs). Qed.

(* Proved part: every accepted trace of every configuration that does not go through one of
   the known deviating edges (Model.C06_Check.dev_of) is in the grammar.  Missing for the full
   statement: exactly those edges. *)
Theorem accepted_subset_allowed_partial : forall c w,
  In c all_cfgs ->
  completes modelled_gates c w = true -> uses_dev modelled_gates c w = false ->
  allowed c w = true.
Proof. exact incl_partial. Qed.

(* Application data (empty or not, under any keys) offered at any handshake position aborts;
   in particular none is delivered before the peer's Finished has been accepted. *)
Theorem no_appdata_before_finished : forall c s e,
  In c all_cfgs -> handshaking s = true -> In e app_syms ->
  is_abort (fst (step modelled_gates c s e)) = true.
Proof. exact noapp. Qed.

(* <= 1.2: every accepted trace contains exactly one ChangeCipherSpec, unprotected and with
   value 1, and exactly one Finished, after it, under the new keys, as its last event. *)
Theorem ccs_finished_order : forall c w,
  In c all_cfgs -> c_v13 c = false ->
  completes modelled_gates c w = true -> matches (ccs_fin_order c) w = true.
Proof. exact order_v12. Qed.

(* 1.3, FULL STATEMENT (false): every accepted trace contains exactly one Finished, under the
   handshake keys, ending its record, as its last event.  Proved for traces that avoid the known
   deviating edges; refuted by a ServerHello that does not end its record, after which a whole
   unprotected server flight is accepted from the defragmenter's buffer. *)
Theorem finished_order_tls13_partial : forall c w,
  In c all_cfgs -> c_v13 c = true ->
  completes modelled_gates c w = true -> uses_dev modelled_gates c w = false ->
  matches (ccs_fin_order c) w = true.
Proof. exact order_v13_partial. Qed.

Theorem finished_order_tls13_refuted :
  In ord13_cfg all_cfgs /\ completes modelled_gates ord13_cfg ord13_witness = true /\ matches (ccs_fin_order ord13_cfg) ord13_witness = false.
Proof. exact order_v13_refuted. Qed.

(* After completion no event whatsoever leads back to a handshake position ... *)
Theorem renegotiation_never_starts : forall c s e,
  In c all_cfgs -> is_post s = true -> post_or_abort (fst (step modelled_gates c s e)) = true.
Proof. exact post_closed. Qed.

(* ... and the role's renegotiation trigger (HelloRequest to a client, ClientHello to a
   server) is answered by a no_renegotiation warning with the state kept (<=1.2), or by a
   fatal unexpected_message (1.3). *)
Theorem renegotiation_refused : forall c s a,
  In c all_cfgs -> is_post s = true -> buf s = BEmpty ->
  let r := step modelled_gates c s (rd_at c (pc s), PH (reneg_msg c) a) in
  if c_v13 c
  then pc (fst r) = P_Abort R_unexpected /\ snd r = None
  else pc (fst r) = P_Post /\ gotc (fst r) = gotc s /\ snd r = Some 100%Z.
Proof. exact reneg. Qed.

(* TLS 1.3, FULL STATEMENT (false): while a handshake message is partially received every
   record of another content type aborts.  Proved for everything except a ChangeCipherSpec
   with value 1 (which tlslite-ng ignores before it checks for interleaving): *)
Theorem tls13_no_interleave_partial : forall c s e p,
  In c all_cfgs -> c_v13 c = true ->
  handshaking s = true -> v13_at c (pc s) = true -> buf s = BPartial ->
  In p non_hs_payloads -> p <> PCcs true ->
  is_abort (fst (step modelled_gates c s (e, p))) = true.
Proof. exact interleave_partial. Qed.

Theorem tls13_no_interleave_refuted :
  exists c s, In c all_cfgs /\ c_v13 c = true /\ handshaking s = true /\
              v13_at c (pc s) = true /\ buf s = BPartial /\
              is_abort (fst (step modelled_gates c s (E0, PCcs true))) = false.
Proof. exact interleave_refuted. Qed.

(* the hypotheses of the theorems above are satisfiable by non-trivial states *)
Example ex_honest_tls12_client :
  completes modelled_gates (cl12 KEcdhe true false false)
    [hs E0 SH; hs E0 CertN; hs E0 SKE; hs E0 CR; hs E0 SHD; hs E0 NST; ccs0; hs E1 Fin] = true
  /\ uses_dev modelled_gates (cl12 KEcdhe true false false)
    [hs E0 SH; hs E0 CertN; hs E0 SKE; hs E0 CR; hs E0 SHD; hs E0 NST; ccs0; hs E1 Fin] = false.
Proof. vm_compute. split; reflexivity. Qed.

Example ex_honest_tls13_server :
  completes modelled_gates (sv13 KCert13 true true false)
    [hs E0 CH; ccs0; hs E0 CH; hs E1 CertN; hs E1 CV; hs E1 Fin] = true
  /\ uses_dev modelled_gates (sv13 KCert13 true true false)
    [hs E0 CH; ccs0; hs E0 CH; hs E1 CertN; hs E1 CV; hs E1 Fin] = false.
Proof. vm_compute. split; reflexivity. Qed.

Example ex_partial_state :
  let s := mk_st C13_CRCert BPartial false E1 in
  handshaking s = true /\ v13_at (cl13 KCert13 false false) (pc s) = true.
Proof. vm_compute. split; reflexivity. Qed.
