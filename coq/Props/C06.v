(* Property C06 -- handshake messages are accepted only in the order the protocol allows.
   Statements only; proofs live in Proofs/C06_Sound.v and Proofs/C06_Incl.v.

   Model.C06_HsOrder : the receive side of the handshake coroutines as a finite automaton over
                       record-level events (epoch, payload), parametric in the gate table;
   Gen.C06_Gates     : every self._getMsg(...) call site, every unexpected_message abort site with
                       its conditions, and the defragmenter pieces they rely on, regenerated from
                       /repo on each run;
   Spec.C06_HsGrammar: what the RFCs let an endpoint accept, as regular expressions.

   Every statement quantifies over ALL traces (lists of events of any length) or over ALL
   automaton states; the finite product automaton / state set is decided by vm_compute and
   lifted by the soundness lemma Proofs.C06_Sound.check_sound.

   History: before /repo commit 8fbaa01 the inclusion, the TLS 1.3 Finished ordering and the
   TLS 1.3 interleaving ban were false of the faithful model (theorems ..._refuted with witness
   traces, ..._partial for traces avoiding six classes of deviating edges: NewSessionTicket
   accepted unannounced / from a client, announced ticket skipped, ChangeCipherSpec accepted
   with a partial message buffered, protected or interleaved TLS 1.3 ChangeCipherSpec ignored,
   first ServerHello/ClientHello not ending its record).  The witnesses are kept below as
   [former_deviation_traces_rejected]. *)
From Coq Require Import ZArith List Bool String.
From TV Require Import Model.C06_GateTypes Model.C06_HsOrder Spec.C06_HsGrammar Model.C06_Check
                       Gen.C06_Gates Proofs.C06_Sound Proofs.C06_Incl.
Import ListNotations.

(* The tables read from the source are the ones the automaton is built on: a widened, removed,
   reordered or added _getMsg call site, a changed condition of an ordering check, or a changed
   defragmenter primitive breaks one of these obligations. *)
Theorem gates_as_modelled : extracted_gates = modelled_gates.
Proof. exact gates_eq. Qed.
Theorem order_checks_as_modelled : extracted_order_checks = modelled_order_checks.
Proof. exact order_checks_eq. Qed.
Theorem defragmenter_as_modelled : extracted_defrag = modelled_defrag.
Proof. exact defrag_eq. Qed.
Theorem early_data_as_modelled : extracted_early_data = modelled_early_data.
Proof. exact early_eq. Qed.
Theorem gate_calls_as_modelled : extracted_gate_calls = modelled_gate_calls.
Proof. exact calls_eq. Qed.

(* Language inclusion, full: whatever trace makes the endpoint complete its handshake is a
   sequence the grammar allows -- every configuration, traces of any length. *)
Theorem accepted_subset_allowed : forall c w,
  In c all_cfgs -> completes modelled_gates c w = true -> allowed c w = true.
Proof. exact incl_full. Qed.

(* The traces that were accepted before 8fbaa01 (one per deviation class and role) abort now. *)
Theorem former_deviation_traces_rejected :
  Forall (fun x => let '(d, c, w) := x in
            completes modelled_gates c w = false /\ allowed c w = false) deviation_witnesses
  /\ completes modelled_gates ord13_cfg ord13_witness = false.
Proof. exact former_rejected. Qed.

(* Application data (empty or not, under any keys) offered at any handshake position is never
   delivered: the endpoint aborts, or -- a record that does not open, inside the early-data
   window of a TLS 1.3 server -- drops it without any change of state. *)
Theorem no_appdata_before_finished : forall c s e,
  In c all_cfgs -> handshaking s = true -> In e app_syms ->
  let s' := fst (step modelled_gates c s e) in
  is_abort s' = true \/ (ed s = true /\ s' = s).
Proof. exact noapp. Qed.

(* <= 1.2: every accepted trace contains exactly one ChangeCipherSpec, unprotected and with
   value 1, and exactly one Finished, after it, under the new keys, as its last event.
   1.3 (finished_order_tls13; partial before 8fbaa01): exactly one Finished, under the handshake
   keys, ending its record, as the last event. *)
Theorem ccs_finished_order : forall c w,
  In c all_cfgs -> completes modelled_gates c w = true -> matches (ccs_fin_order c) w = true.
Proof. exact order_full. Qed.

Theorem finished_order_tls13 : forall c w,
  In c all_cfgs -> c_v13 c = true -> completes modelled_gates c w = true ->
  matches (seqs [Star (alts ([At AOther; At (ACcs E0); At (ACcs E1)] ++
                             (* dropped undecryptable records of the early-data window *)
                             (if c_early c then [At (AUndec E0); At (AUndec E1)] else [])));
                 At (AMsg E1 Fin MustAlign)]) w = true.
Proof.
  intros c w Hc Hv Hd. pose proof (order_full c w Hc Hd) as H.
  unfold ccs_fin_order in H. rewrite Hv in H. exact H.
Qed.

(* After completion no event whatsoever leads back to a handshake position ... *)
Theorem renegotiation_never_starts : forall c s e,
  In c all_cfgs -> is_post s = true -> post_or_abort (fst (step modelled_gates c s e)) = true.
Proof. exact post_closed. Qed.

(* ... and the role's renegotiation trigger (HelloRequest to a client, ClientHello to a
   server) is answered by a no_renegotiation warning with the state kept (<=1.2), or by a
   fatal unexpected_message (1.3). *)
Theorem renegotiation_refused : forall c s a,
  In c all_cfgs -> is_post s = true -> buf s = BEmpty ->
  let r := step modelled_gates c s (rd_at c (pc s), PH (reneg_msg c) a) in
  if c_v13 c
  then pc (fst r) = P_Abort R_unexpected /\ snd r = None
  else pc (fst r) = P_Post /\ gotc (fst r) = gotc s /\ snd r = Some 100%Z.
Proof. exact reneg. Qed.

(* TLS 1.3, full (partial before 8fbaa01: a ChangeCipherSpec was ignored): while a handshake
   message is partially received every record of another content type aborts (or, when it does
   not even open inside the early-data window, is dropped unread). *)
Theorem tls13_no_interleave : forall c s e p,
  In c all_cfgs -> c_v13 c = true ->
  handshaking s = true -> v13_at c (pc s) = true -> buf s = BPartial ->
  In p non_hs_payloads ->
  let s' := fst (step modelled_gates c s (e, p)) in
  is_abort s' = true \/ (ed s = true /\ s' = s).
Proof. exact interleave_full. Qed.

(* The early-data window (RecordLayer.early_data_ok; TLS 1.3 server, every configuration with
   or without early data offered, every automaton state in a handshake position, every event):
   - outside the window a record that does not open under the read keys aborts;
   - the window is open after an event only if it was open before (and the event was a dropped
     record, a TLS 1.3 ChangeCipherSpec or buffered bytes -- see Model.C06_Check.chk_window) or
     the event was the first ClientHello of a configuration that offered early data;
   - the second ClientHello closes it.
   Together with accepted_subset_allowed (whose grammar admits undecryptable records only between
   the first ClientHello and the first record that opens / the second ClientHello) this is the
   statement that wrong-epoch records are never skipped elsewhere. *)
Theorem early_data_window_closes : forall c s e,
  In c cfgs_server13 -> handshaking s = true ->
  let s' := fst (step modelled_gates c s e) in
  (undec_sym c s e = true -> ed s = false -> is_abort s' = true) /\
  (ed s' = true -> is_abort s' = false ->
     ed s = true \/ (c_early c = true /\ pc s = S_CH)) /\
  (pc s = S13_CH2 -> (exists a, e = (E0, PH CH a)) -> ed s' = false \/ is_abort s' = true).
Proof. exact window_facts. Qed.

(* the hypotheses of the theorems above are satisfiable by non-trivial states *)
Example ex_honest_tls12_client :
  completes modelled_gates (cl12 KEcdhe true false false)
    [hs E0 SH; hs E0 CertN; hs E0 SKE; hs E0 CR; hs E0 SHD; hs E0 NST; ccs0; hs E1 Fin] = true
  /\ In (cl12 KEcdhe true false false) all_cfgs.
Proof. split; [vm_compute; reflexivity|unfold all_cfgs; in_list]. Qed.

Example ex_honest_tls13_server :
  completes modelled_gates (sv13 KCert13 true true false)
    [hs E0 CH; ccs0; hs E0 CH; hs E1 CertN; hs E1 CV; hs E1 Fin] = true
  /\ In (sv13 KCert13 true true false) all_cfgs.
Proof. split; [vm_compute; reflexivity|unfold all_cfgs; in_list]. Qed.

Example ex_early_hrr_server :
  completes modelled_gates (sv13e KPsk13 false true false)
    [hs E0 CH; ccs0; (E2, PApp false); hs E0 CH; hs E1 Fin] = true
  /\ completes modelled_gates (sv13e KPsk13 false true false)
    [hs E0 CH; ccs0; hs E0 CH; (E2, PApp false); hs E1 Fin] = false
  /\ In (sv13e KPsk13 false true false) cfgs_server13.
Proof. split; [vm_compute; reflexivity|split; [vm_compute; reflexivity|unfold cfgs_server13; in_list]]. Qed.

Example ex_partial_state :
  let s := mk_st C13_CRCert BPartial false E1 false in
  handshaking s = true /\ v13_at (cl13 KCert13 false false) (pc s) = true.
Proof. vm_compute. split; reflexivity. Qed.
