(* Property C19 -- statements only; proofs live in Proofs/C19_*.v.
   validate : tables -> install -> heap -> settings -> heap * res settings is the by-reference model of
   HandshakeSettings.validate() (Model/C19_Settings.v), synchronised with /repo after the repairs
   851aa29 (filter a copy of cipherImplementations), 8cc633e (forbidden delegated-credential
   algorithms rejected), c50a338 (ticketKeys must fit ticketCipher), f81c02a + 0b9340a (versions clipped to
   [min(minVersion,(3,3)), maxVersion]).  All theorems quantify over ALL
   domain tables T, installation flags I, heaps h and objects s (lists of any length); the only
   hypothesis on the object is well-formedness wf h s (it has its 22 list attributes and they are
   allocated) and, for the domain theorems, `typed` (values have the documented Python type). *)
From Coq Require Import ZArith List Bool String.
From TV Require Import Base.Prelude Model.C19_Settings Spec.C19_Domain
                       Proofs.C19_Frame Proofs.C19_Examples Proofs.C19_Refuted
                       Proofs.C19_Pure Proofs.C19_Idem Proofs.C19_Facts Proofs.C19_Supported Proofs.C19_Domain
                       Gen.SettingsTables Proofs.C19_Skeleton.
Import ListNotations.
Open Scope Z_scope.

(* ================= 0. the hand model still has the shape of the source ========================= *)
(* gen_* are regenerated on every run from the flattened, normalised ast of validate() and everything it calls
   (translator/c19_astnorm.py): the 43 assignments `other.x = self.x` of the copy phase, every in-place list
   mutation, every re-binding of an attribute of `other` to a new object (versions, macNames,
   cipherImplementations, cipherNames), the attributes set by __init__.  (A digest of the whole normal form is
   compared by the harness; a difference is a broken tie.) *)
Theorem model_skeleton_matches_source :
  gen_copies = expected_copies /\ gen_mutation_sites = expected_mutation_sites /\
  gen_rebinds = expected_rebinds /\ gen_init_attrs = expected_init_attrs.
Proof. exact skeleton_ok. Qed.

(* ================= 1. "never modifies it" ===================================================== *)
(* FULL frame condition: whatever the outcome (result or exception), the heap only grows and every
   cell that existed before the call -- in particular every list reachable from the receiver, and any
   list the caller shares between several attributes -- has the same content afterwards.  The
   receiver's attribute bindings cannot change in the model (validate never assigns to self.x; the
   harness compares id() of every attribute on the implementation).
   History: before /repo 851aa29 this statement was REFUTED (validate_preserves_receiver_refuted:
   _sanity_check_implementations filtered the receiver's own cipherImplementations list in place through
   the alias made by _copy_cipher_settings; only the other cells were provably unchanged). *)
Theorem validate_preserves_receiver :
  forall T I h s h' r, validate T I h s = (h', r) ->
    (List.length h <= List.length h')%nat /\
    forall l, (l < List.length h)%nat -> hget h' l = hget h l.
Proof. exact validate_frame. Qed.

(* read on the receiver: the contents of all its list attributes and its scalars are unchanged *)
Theorem validate_preserves_receiver_view :
  forall T I h s h' r, wf h s = true -> validate T I h s = (h', r) -> view h' s = view h s.
Proof. exact validate_view_unchanged. Qed.

Example frame_hypotheses_satisfiable :
  wf ex_heap ex_settings = true /\
  is_ok (snd (validate std_tables no_backends ex_heap ex_settings)) = true /\
  hget (fst (validate std_tables no_backends ex_heap ex_settings)) 3%nat = S ["openssl"; "pycrypto"; "python"]%string /\
  match snd (validate std_tables no_backends ex_heap ex_settings) with
  | Ok s' => G (fst (validate std_tables no_backends ex_heap ex_settings)) s' F_cipherImplementations = S ["python"]%string
  | Err _ => False
  end.
Proof. exact frame_regression. Qed.

(* the object that used to be excluded by the aliasing hypothesis: dc_sig_algs bound to the very list of
   cipherImplementations -- validates, shared list untouched *)
Example frame_aliased_object :
  wf ex_heap ex_settings_alias = true /\
  L ex_settings_alias F_dc_sig_algs = L ex_settings_alias F_cipherImplementations /\
  is_ok (snd (validate std_tables no_backends ex_heap ex_settings_alias)) = true /\
  hget (fst (validate std_tables no_backends ex_heap ex_settings_alias)) 3%nat = S ["openssl"; "pycrypto"; "python"]%string.
Proof. exact alias_regression. Qed.

(* ================= 2. "yields the same result when applied again to its own output" ========= *)
(* FULL: for every well-formed object that validates, validating the result succeeds and gives an object
   with the same observable contents (the second call allocates new lists again, so equality is on the
   view = contents of every list attribute + every scalar, not on locations).
   History: before 851aa29 proved only under impl_unaliased (no other attribute bound to the list object of
   cipherImplementations).  Between f81c02a and 0b9340a it was REFUTED (validate_idempotent_refuted:
   `versions` was clipped at minVersion after the TLS 1.3-only group rule had been evaluated on the
   unclipped list; with minVersion = (3,4) validate(validate(s)) raised ValueError) and proved only under
   clip_stable / minVersion <= (3,3).  With the clip bound min(minVersion, (3,3)) every accepted object is
   stable (Proofs.C19_Idem.clip_stable_ok), so no hypothesis remains. *)
Theorem validate_idempotent :
  forall T I h s h1 s1, wf h s = true -> validate T I h s = (h1, Ok s1) ->
    exists h2 s2, validate T I h1 s1 = (h2, Ok s2) /\ view h2 s2 = view h1 s1.
Proof. exact validate_idempotent_heap. Qed.

(* the object that refuted idempotence during the f81c02a interlude *)
Example idempotent_former_witness :
  wf ex_heap_k1 ex_settings_13 = true /\
  match validate std_tables no_backends ex_heap_k1 ex_settings_13 with
  | (h1, Ok s1) => G h1 s1 F_versions = [VPair 3 4; VPair 3 3] /\
                   is_ok (snd (validate std_tables no_backends h1 s1)) = true
  | _ => False
  end.
Proof. exact idem_regression. Qed.

(* the by-reference model computes the pure function cvalidate on contents: same outcome, same
   exception class, same contents -- for every well-formed object, aliased or not *)
Theorem validate_refines_contents :
  forall T I h s, wf h s = true ->
    match validate T I h s with
    | (h', Ok s') => cvalidate T I (lists h s) (sc s) = Ok (lists h' s') /\ sc s' = sc s
    | (h', Err e) => cvalidate T I (lists h s) (sc s) = Err e
    end.
Proof. exact validate_refines_contents_lemma. Qed.

Theorem validate_contents_idempotent :
  forall T I v c v', List.length v = NF -> cvalidate T I v c = Ok v' -> cvalidate T I v' c = Ok v'.
Proof. exact cvalidate_idem. Qed.

Example idempotent_hypotheses_satisfiable :
  wf ex_heap (with_scalars ex_settings ex_scalars_tls11) = true /\
  is_ok (snd (validate std_tables no_backends ex_heap (with_scalars ex_settings ex_scalars_tls11))) = true.
Proof. exact tls11_validates. Qed.

(* ================= 3. "contains only algorithms the running installation supports" ============ *)
(* supported_only T I (Spec/C19_Domain.v): every name of the result is in its table; no back-end the
   installation lacks (I: M2Crypto, pycrypto), no 3DES without an implementation, no SHA-2/AEAD MAC when
   maxVersion < TLS 1.2, every entry of `versions` inside [min(minVersion,(3,3)), maxVersion].  Parametric in the
   tables (brotli/zstd/ML-KEM/ML-DSA availability only changes the generated tables) and in I.  FULL. *)
Theorem validated_supported_only :
  forall T I h s h' s', wf h s = true -> validate T I h s = (h', Ok s') ->
    supported_only T I (view h' s') = true.
Proof. exact validate_supported_heap. Qed.

Theorem validated_contents_supported_only :
  forall T I v c v', List.length v = NF -> cvalidate T I v c = Ok v' -> supported_only T I (v', c) = true.
Proof. exact cvalidate_supported. Qed.

(* ================= 4. "rejects with ValueError every value outside the documented domains" ===== *)
(* dom T d (Spec/C19_Domain.v) is the documented domain of dimension d (32 dimensions), written from the
   docstrings, the module tables and the ValueError texts; typed says every value has the documented
   Python type (the configurations the property quantifies over).  FULL, per dimension, all 32.
   History: before 8cc633e / c50a338 this was REFUTED at D_dc_sig_algs (dc_sig_algs=[(8,4)] accepted: a
   list was tested for membership in a list of tuples) and at D_ticketKeys (16-byte key with
   chacha20-poly1305 accepted) and proved for the other 30 dimensions under impl_unaliased. *)
Theorem rejects_outside_domain :
  forall T I h s d, wf h s = true -> typed (view h s) = true -> dom T d (view h s) = false ->
    snd (validate T I h s) = Err ValueError.
Proof. exact validate_rejects_heap. Qed.

Example rejects_former_witness_dc_sig_algs :
  wf ex_heap_dc ex_settings = true /\ typed (view ex_heap_dc ex_settings) = true /\
  dom std_tables D_dc_sig_algs (view ex_heap_dc ex_settings) = false /\
  snd (validate std_tables all_backends ex_heap_dc ex_settings) = Err ValueError.
Proof. exact dc_regression. Qed.

Example rejects_former_witness_ticketKeys :
  wf ex_heap_tk ex_settings_tk = true /\ typed (view ex_heap_tk ex_settings_tk) = true /\
  dom std_tables D_ticketKeys (view ex_heap_tk ex_settings_tk) = false /\
  snd (validate std_tables all_backends ex_heap_tk ex_settings_tk) = Err ValueError.
Proof. exact ticket_regression. Qed.

(* a typed input never produces another exception class *)
Theorem typed_inputs_raise_only_ValueError :
  forall T I h s h' e, wf h s = true -> typed (view h s) = true -> validate T I h s = (h', Err e) -> e = ValueError.
Proof. exact validate_typed_errors_heap. Qed.

(* the hypothesis `typed` is needed: an int in pskConfigs gives TypeError, not ValueError (recorded by
   the harness for every attribute in the stream wrong-type-outcomes) *)
Example wrong_kind_other_exception :
  wf ex_heap_badpsk ex_settings = true /\ typed (view ex_heap_badpsk ex_settings) = false /\
  snd (validate std_tables all_backends ex_heap_badpsk ex_settings) = Err TypeError.
Proof. exact wrong_kind_witness. Qed.

(* ================= 4b. accepts inside the domains ============================================ *)
(* FULL: typed, inside all 32 documented domains, and something of what it names is supported by the
   installation => accepted. *)
Theorem accepts_inside_domain :
  forall T I h s, wf h s = true -> typed (view h s) = true -> in_domain T (view h s) = true ->
    something_supported I (view h s) = true -> is_ok (snd (validate T I h s)) = true.
Proof. exact validate_accepts_heap. Qed.

(* together: validate() decides exactly the documented domains *)
Theorem validate_accepts_exactly_the_documented_domains :
  forall T I h s, wf h s = true -> typed (view h s) = true -> something_supported I (view h s) = true ->
    is_ok (snd (validate T I h s)) = in_domain T (view h s).
Proof. exact validate_accepts_iff. Qed.

Example domain_hypotheses_satisfiable :
  wf ex_heap ex_settings = true /\ typed (view ex_heap ex_settings) = true /\
  in_domain std_tables (view ex_heap ex_settings) = true /\
  something_supported no_backends (view ex_heap ex_settings) = true.
Proof. exact default_in_domain. Qed.
