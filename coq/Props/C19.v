(* Property C19 -- statements only; proofs live in Proofs/C19_*.v.
   validate : tables -> install -> heap -> settings -> heap * res settings is the by-reference model of
   HandshakeSettings.validate() (Model/C19_Settings.v).  All theorems quantify over ALL domain tables T,
   installation flags I, heaps h and objects s (lists of any length). *)
From Coq Require Import ZArith List Bool String.
From TV Require Import Base.Prelude Model.C19_Settings Spec.C19_Domain
                       Proofs.C19_Frame Proofs.C19_Examples Proofs.C19_Refuted
                       Proofs.C19_Pure Proofs.C19_Idem Proofs.C19_Facts Proofs.C19_Supported Proofs.C19_Domain
                       Gen.SettingsTables Proofs.C19_Skeleton.
Import ListNotations.
Open Scope Z_scope.

(* ================= 1. "never modifies it" ================================================== *)
(* Full statement: every cell that existed before the call (in particular every list reachable from
   the receiver) has the same content afterwards, whatever the outcome.  (The receiver's attribute
   bindings cannot change in the model: validate never assigns to self.x - the harness checks that
   on the implementation by comparing id() of every attribute.) *)
Definition validate_preserves_receiver_statement : Prop :=
  forall T I h s h' r, wf h s = true -> validate T I h s = (h', r) ->
    forall l, (l < List.length h)%nat -> hget h' l = hget h l.

(* FALSE of the faithful model: _sanity_check_implementations filters the receiver's own
   cipherImplementations list in place (other.cipherImplementations IS self.cipherImplementations). *)
Theorem validate_preserves_receiver_refuted : ~ validate_preserves_receiver_statement.
Proof. exact frame_refuted. Qed.

(* What does hold: the heap only grows, every old cell other than the receiver's cipherImplementations
   list is unchanged, and that one is either unchanged or filtered down to the available back-ends. *)
Theorem validate_preserves_receiver_partial :
  forall T I h s h' r, wf h s = true -> validate T I h s = (h', r) ->
    ((List.length h <= List.length h')%nat /\
     forall l, (l < List.length h)%nat -> l <> L s F_cipherImplementations -> hget h' l = hget h l) /\
    (hget h' (L s F_cipherImplementations) = hget h (L s F_cipherImplementations) \/
     hget h' (L s F_cipherImplementations) = filter (impl_available I) (hget h (L s F_cipherImplementations))).
Proof. exact validate_frame. Qed.

(* hence the full frame condition holds whenever the list names only available back-ends *)
Theorem validate_preserves_receiver_when_available :
  forall T I h s h' r, wf h s = true -> validate T I h s = (h', r) ->
    forallb (impl_available I) (hget h (L s F_cipherImplementations)) = true ->
    forall l, (l < List.length h)%nat -> hget h' l = hget h l.
Proof. exact frame_when_available. Qed.

Example frame_hypotheses_satisfiable :
  wf ex_heap ex_settings = true /\ is_ok (snd (validate std_tables no_backends ex_heap ex_settings)) = true.
Proof. vm_compute. split; reflexivity. Qed.

(* ================= 2. "yields the same result when applied again to its own output" ========= *)
(* Full statement: for every object that validates, validating the result succeeds and gives an object
   with the same observable contents (the second call allocates new lists again, so equality is on the
   view = contents of every list attribute + every scalar, not on locations). *)
Definition validate_idempotent_statement : Prop :=
  forall T I h s h1 s1, wf h s = true -> validate T I h s = (h1, Ok s1) ->
    exists h2 s2, validate T I h1 s1 = (h2, Ok s2) /\ view h2 s2 = view h1 s1.

(* Proved part.  Missing for the full statement: objects in which ANOTHER attribute is bound to the very
   list object of cipherImplementations (then the in-place filtering of finding F2 also shrinks that
   attribute between the two calls; for arbitrary tables T the second call can then fail). *)
Theorem validate_idempotent_partial :
  forall T I h s h1 s1, wf h s = true -> impl_unaliased s -> validate T I h s = (h1, Ok s1) ->
    exists h2 s2, validate T I h1 s1 = (h2, Ok s2) /\ view h2 s2 = view h1 s1.
Proof. exact validate_idempotent_unaliased. Qed.

(* the same on contents only: the pure function cvalidate (validate without the heap, proved to be what
   the by-reference model computes on unaliased objects: Proofs.C19_Pure.validate_refines) is idempotent
   for every 22-attribute content vector *)
Theorem validate_contents_idempotent :
  forall T I v c v', List.length v = NF -> cvalidate T I v c = Ok v' -> cvalidate T I v' c = Ok v'.
Proof. exact cvalidate_idem. Qed.

Example idempotent_hypotheses_satisfiable :
  wf ex_heap ex_settings = true /\ impl_unaliased (with_scalars ex_settings ex_scalars_tls11) /\
  is_ok (snd (validate std_tables no_backends ex_heap (with_scalars ex_settings ex_scalars_tls11))) = true.
Proof.
  split; [vm_compute; reflexivity|]. split; [apply unaliased_b_sound; vm_compute; reflexivity|vm_compute; reflexivity].
Qed.

(* ================= 3. "contains only algorithms the running installation supports" ============ *)
(* supported_only T I (Spec/C19_Domain.v): every name of the result is in its table; no back-end the
   installation lacks (I: M2Crypto, pycrypto), no 3DES without an implementation, no SHA-2/AEAD MAC when
   maxVersion < TLS 1.2, no TLS 1.3 entry in `versions` when maxVersion < TLS 1.3.  Parametric in the
   tables (brotli/zstd/ML-KEM/ML-DSA availability only changes the generated tables) and in I. *)
Definition validated_supported_only_statement : Prop :=
  forall T I h s h' s', wf h s = true -> validate T I h s = (h', Ok s') ->
    supported_only T I (view h' s') = true.

(* proved for objects where no other attribute shares the cipherImplementations list (same gap as 2.) *)
Theorem validated_supported_only_partial :
  forall T I h s h' s', wf h s = true -> impl_unaliased s -> validate T I h s = (h', Ok s') ->
    supported_only T I (view h' s') = true.
Proof. exact validate_supported_unaliased. Qed.

Theorem validated_contents_supported_only :
  forall T I v c v', List.length v = NF -> cvalidate T I v c = Ok v' -> supported_only T I (v', c) = true.
Proof. exact cvalidate_supported. Qed.

(* the by-reference model computes cvalidate (same outcome, same error class, same contents) *)
Theorem validate_refines_contents :
  forall T I h s, wf h s = true -> impl_unaliased s ->
    match validate T I h s with
    | (h', Ok s') => cvalidate T I (lists h s) (sc s) = Ok (lists h' s') /\ sc s' = sc s
    | (h', Err e) => cvalidate T I (lists h s) (sc s) = Err e
    end.
Proof. exact validate_refines_contents_lemma. Qed.

(* ================= 4. "rejects with ValueError every value outside the documented domains" ===== *)
(* dom T d (Spec/C19_Domain.v) is the documented domain of dimension d, written from the docstrings,
   the module tables and the ValueError texts; typed says every value has the documented Python type
   (the configurations the property quantifies over).  Full statement, per dimension: *)
Definition rejects_outside_domain_statement : Prop :=
  forall T I h s d, wf h s = true -> typed (view h s) = true -> dom T d (view h s) = false ->
    snd (validate T I h s) = Err ValueError.

(* FALSE: dc_sig_algs = [rsa_pss_rsae_sha256] is accepted (the membership test compares the list with
   each tuple); so is a 16-byte ticket key with ticketCipher = chacha20-poly1305. *)
Theorem rejects_outside_domain_refuted : ~ rejects_outside_domain_statement.
Proof. exact rejects_refuted. Qed.

Example rejects_refuted_witness_dc_sig_algs :
  wf ex_heap_dc ex_settings = true /\ typed (view ex_heap_dc ex_settings) = true /\
  dom std_tables D_dc_sig_algs (view ex_heap_dc ex_settings) = false /\
  is_ok (snd (validate std_tables all_backends ex_heap_dc ex_settings)) = true.
Proof. exact dc_witness. Qed.

Example rejects_refuted_witness_ticketKeys :
  wf ex_heap_tk ex_settings_tk = true /\ typed (view ex_heap_tk ex_settings_tk) = true /\
  dom std_tables D_ticketKeys (view ex_heap_tk ex_settings_tk) = false /\
  is_ok (snd (validate std_tables all_backends ex_heap_tk ex_settings_tk)) = true.
Proof. exact ticket_witness. Qed.

(* Proved: every other dimension (30 of 32; lax_dims = [D_dc_sig_algs; D_ticketKeys], and for ticketKeys
   the weaker "16 or 32 bytes" is enforced, see accepted_in_enforced_domain) is rejected with ValueError.
   Aliasing hypothesis as in 2. *)
Theorem rejects_outside_domain_partial :
  forall T I h s d, wf h s = true -> impl_unaliased s -> typed (view h s) = true ->
    is_lax d = false -> dom T d (view h s) = false ->
    snd (validate T I h s) = Err ValueError.
Proof. exact validate_rejects_unaliased. Qed.

(* on contents, without any aliasing hypothesis: whatever is accepted satisfies every enforced domain,
   and a typed input never produces another exception class *)
Theorem accepted_implies_enforced_domains :
  forall T I v c v', List.length v = NF -> cvalidate T I v c = Ok v' ->
    forallb (fun d => dom_enforced T d (v, c)) all_dims = true.
Proof. exact accepted_in_enforced_domain. Qed.

Theorem typed_inputs_raise_only_ValueError :
  forall T I v c e, List.length v = NF -> typed (v, c) = true -> cvalidate T I v c = Err e -> e = ValueError.
Proof. exact typed_errors. Qed.

(* the hypothesis `typed` is needed: an int in pskConfigs gives TypeError, not ValueError (recorded by
   the harness for every attribute in the stream wrong-type-outcomes) *)
Example wrong_kind_other_exception :
  wf ex_heap_badpsk ex_settings = true /\ typed (view ex_heap_badpsk ex_settings) = false /\
  snd (validate std_tables all_backends ex_heap_badpsk ex_settings) = Err TypeError.
Proof. exact wrong_kind_witness. Qed.

(* ================= 4b. accepts inside the domains ============================================ *)
Definition accepts_inside_domain_statement : Prop :=
  forall T I h s, wf h s = true -> typed (view h s) = true -> in_domain T (view h s) = true ->
    something_supported I (view h s) = true -> is_ok (snd (validate T I h s)) = true.

Theorem accepts_inside_domain_partial :
  forall T I h s, wf h s = true -> impl_unaliased s -> typed (view h s) = true ->
    in_domain T (view h s) = true -> something_supported I (view h s) = true ->
    is_ok (snd (validate T I h s)) = true.
Proof. exact validate_accepts_unaliased. Qed.

Theorem accepts_inside_domain_contents :
  forall T I v c, List.length v = NF -> typed (v, c) = true -> in_domain T (v, c) = true ->
    something_supported I (v, c) = true -> exists v', cvalidate T I v c = Ok v'.
Proof. exact accepts_inside. Qed.

Example domain_hypotheses_satisfiable :
  wf ex_heap ex_settings = true /\ typed (view ex_heap ex_settings) = true /\
  in_domain std_tables (view ex_heap ex_settings) = true /\
  something_supported no_backends (view ex_heap ex_settings) = true.
Proof. exact default_in_domain. Qed.

(* ================= 0. the hand model still has the shape of the source ========================= *)
(* gen_* are regenerated from the ast of tlslite/handshakesettings.py on every run: the 41 assignments of
   the three _copy_* methods (all `other.x = self.x`), the statement sequence of validate(), every
   in-place list mutation site, the attributes set by __init__. *)
Theorem model_skeleton_matches_source :
  gen_copies = expected_copies /\ gen_validate_seq = expected_validate_seq /\
  gen_mutation_sites = expected_mutation_sites /\ gen_init_attrs = expected_init_attrs.
Proof. exact skeleton_ok. Qed.
