(* Property C19 -- statements only; proofs live in Proofs/C19_*.v.
   validate : tables -> install -> heap -> settings -> heap * res settings is the by-reference model of
   HandshakeSettings.validate() (Model/C19_Settings.v).  All theorems quantify over ALL domain tables T,
   installation flags I, heaps h and objects s (lists of any length). *)
From Coq Require Import ZArith List Bool String.
From TV Require Import Base.Prelude Model.C19_Settings Spec.C19_Domain
                       Proofs.C19_Frame Proofs.C19_Examples Proofs.C19_Refuted.
Import ListNotations.
Open Scope Z_scope.

(* ================= 1. "never modifies it" ================================================== *)
(* Full statement: every cell that existed before the call (in particular every list reachable from
   the receiver) has the same content afterwards, whatever the outcome.  (The receiver's attribute
   bindings cannot change in the model: validate never assigns to self.x - the harness checks that
   on the implementation by comparing id() of every attribute.) *)
Definition validate_preserves_receiver_statement : Prop :=
  forall T I h s h' r, wf h s = true -> validate T I h s = (h', r) ->
    forall l, (l < List.length h)%nat -> hget h' l = hget h l.

(* FALSE of the faithful model: _sanity_check_implementations filters the receiver's own
   cipherImplementations list in place (other.cipherImplementations IS self.cipherImplementations). *)
Theorem validate_preserves_receiver_refuted : ~ validate_preserves_receiver_statement.
Proof. exact frame_refuted. Qed.

(* What does hold: the heap only grows, every old cell other than the receiver's cipherImplementations
   list is unchanged, and that one is either unchanged or filtered down to the available back-ends. *)
Theorem validate_preserves_receiver_partial :
  forall T I h s h' r, wf h s = true -> validate T I h s = (h', r) ->
    ((List.length h <= List.length h')%nat /\
     forall l, (l < List.length h)%nat -> l <> L s F_cipherImplementations -> hget h' l = hget h l) /\
    (hget h' (L s F_cipherImplementations) = hget h (L s F_cipherImplementations) \/
     hget h' (L s F_cipherImplementations) = filter (impl_available I) (hget h (L s F_cipherImplementations))).
Proof. exact validate_frame. Qed.

(* hence the full frame condition holds whenever the list names only available back-ends *)
Theorem validate_preserves_receiver_when_available :
  forall T I h s h' r, wf h s = true -> validate T I h s = (h', r) ->
    forallb (impl_available I) (hget h (L s F_cipherImplementations)) = true ->
    forall l, (l < List.length h)%nat -> hget h' l = hget h l.
Proof. exact frame_when_available. Qed.

Example frame_hypotheses_satisfiable :
  wf ex_heap ex_settings = true /\ is_ok (snd (validate std_tables no_backends ex_heap ex_settings)) = true.
Proof. vm_compute. split; reflexivity. Qed.
