(* Property C12 -- statements only; proofs live in Proofs/.  The functions ct_* and
   ct_check_cbc_mac_and_pad are the Gallina text regenerated from
   /repo/tlslite/utils/constanttime.py by the translator on every run (Gen/ConstantTime.v). *)
From Coq Require Import ZArith List Bool.
From TV Require Import Base.Prelude Gen.ConstantTime Spec.CbcCheck Proofs.CtOps
                       Proofs.C12_Lemmas Proofs.C12_Check Proofs.C12_Sender Proofs.C12_Corrupt Model.C12_Seq Proofs.C12_SeqP Toy.ToyMac.
Import ListNotations.
Open Scope Z_scope.

(* every constant-time helper equals the plain comparison on the full unsigned 32-bit range *)
Theorem ct_ops_spec : forall a b, u32 a -> u32 b ->
  ct_lt_u32 a b = (if a <? b then 1 else 0) /\
  ct_gt_u32 a b = (if b <? a then 1 else 0) /\
  ct_le_u32 a b = (if a <=? b then 1 else 0) /\
  ct_neq_u32 a b = (if a =? b then 0 else 1) /\
  ct_eq_u32 a b = (if a =? b then 1 else 0) /\
  ct_isnonzero_u32 a = (if a =? 0 then 0 else 1).
Proof. exact ct_ops_spec_all. Qed.

(* The combined check is total and returns exactly the specification's verdict, for every body
   (any length below 2^16, no 256-byte window bound), MAC oracle, sequence number bytes, content
   type and the four CBC versions.  well_formed says: padding length byte p, p+1+digest bytes
   fit, TLS: all p padding bytes equal p / SSLv3: p <= block size, and the digest_size bytes
   before the padding are the MAC of seq|type|[version]|len|data.  Hence no conforming record is
   rejected and no record with a single wrong MAC or padding byte is accepted. *)
Theorem check_eq_spec :
  forall (data : list Z) (mac : HMac) (seq : list Z) (ty : Z) (ver : Z * Z) (bs : Z),
    In ver [(3,0); (3,1); (3,2); (3,3)] ->
    all_bytes data = true -> zlen data < 65536 ->
    byte ty -> 0 < mac_bs mac ->
    (forall m, zlen (mac_fn mac m) = mac_ds mac /\ all_bytes (mac_fn mac m) = true) ->
    u32 bs ->
    ct_check_cbc_mac_and_pad data mac seq ty ver bs = Ok (well_formed ver bs mac seq ty data).
Proof. exact check_eq_spec_sec. Qed.

(* No record of a conforming peer is rejected: any body payload ++ MAC ++ padding ++ [p] built as
   RFC 5246 6.2.3.2 / RFC 6101 5.2.3.2 prescribe (TLS: the p padding bytes all equal p, any
   0 <= p; SSLv3: any padding bytes, p <= block size) is well formed, hence - by check_eq_spec -
   accepted by the generated check. *)
Theorem sender_accepted :
  forall (ver : Z * Z) (bs : Z) (mac : HMac) (seq : list Z) (ty : Z) (payload padbytes : list Z) (p : Z),
    let tag := mac_fn mac (mac_acc mac ++ mac_header seq ty ver (zlen payload) ++ payload) in
    zlen tag = mac_ds mac ->
    zlen padbytes = p ->
    (if is_ssl3 ver then p <=? bs = true else forallb (fun x => x =? p) padbytes = true) ->
    well_formed ver bs mac seq ty (payload ++ tag ++ padbytes ++ [p]) = true.
Proof. exact sender_accepted_lem. Qed.

(* What RecordLayer._decryptThenMAC strips after an accepted check, data[:-(p+1+digest_size)]
   with Python's slice semantics, is exactly the fragment the MAC was computed over. *)
Theorem strip_correct :
  forall (ver : Z * Z) (bs : Z) (mac : HMac) (seq : list Z) (ty : Z) (data : list Z),
    0 <= mac_ds mac -> all_bytes data = true ->
    well_formed ver bs mac seq ty data = true ->
    let p := nthZ data (zlen data - 1) in
    py_slice data None (Some (- (p + 1 + mac_ds mac))) =
      firstn (Z.to_nat (zlen data - p - 1 - mac_ds mac)) data.
Proof. exact strip_correct_lem. Qed.

(* The verdict on ANY body of the sender's shape payload ++ tag' ++ pad' ++ [p] (tag' of digest size,
   pad' of p bytes): accepted iff the padding content is allowed and tag' is the MAC of the payload. *)
Theorem shape_verdict :
  forall (ver : Z * Z) (bs : Z) (mac : HMac) (seq : list Z) (ty : Z) (payload tagx padx : list Z) (p : Z),
    zlen tagx = mac_ds mac -> zlen padx = p ->
    well_formed ver bs mac seq ty (payload ++ tagx ++ padx ++ [p]) =
      (if is_ssl3 ver then p <=? bs else forallb (fun x => x =? p) padx)
      && list_eqb tagx (mac_fn mac (mac_acc mac ++ mac_header seq ty ver (zlen payload) ++ payload)).
Proof. exact wf_shape. Qed.

(* "nor accepts any record with a single wrong MAC or padding byte": any MAC field different from
   the MAC of the payload (in particular one flipped byte) is rejected, in all four versions ... *)
Theorem wrong_mac_rejected :
  forall (ver : Z * Z) (bs : Z) (mac : HMac) (seq : list Z) (ty : Z) (payload tagx padx : list Z) (p : Z),
    zlen tagx = mac_ds mac -> zlen padx = p ->
    tagx <> mac_fn mac (mac_acc mac ++ mac_header seq ty ver (zlen payload) ++ payload) ->
    well_formed ver bs mac seq ty (payload ++ tagx ++ padx ++ [p]) = false.
Proof. exact wrong_mac_rejected_lem. Qed.

(* ... in TLS 1.0-1.2 any padding byte that differs from the padding length is rejected, whatever
   the MAC field holds ... *)
Theorem wrong_pad_rejected :
  forall (ver : Z * Z) (bs : Z) (mac : HMac) (seq : list Z) (ty : Z) (payload tagx padx : list Z) (p : Z),
    is_ssl3 ver = false ->
    zlen tagx = mac_ds mac -> zlen padx = p ->
    (exists x, In x padx /\ x <> p) ->
    well_formed ver bs mac seq ty (payload ++ tagx ++ padx ++ [p]) = false.
Proof. exact wrong_pad_rejected_lem. Qed.

(* ... SSLv3 padding longer than one block is rejected ... *)
Theorem ssl3_long_pad_rejected :
  forall (ver : Z * Z) (bs : Z) (mac : HMac) (seq : list Z) (ty : Z) (payload tagx padx : list Z) (p : Z),
    is_ssl3 ver = true ->
    zlen tagx = mac_ds mac -> zlen padx = p -> bs < p ->
    well_formed ver bs mac seq ty (payload ++ tagx ++ padx ++ [p]) = false.
Proof. exact ssl3_long_pad_rejected_lem. Qed.

(* ... and a changed fragment under the honest MAC field is rejected unless the MAC function itself
   collides on the two fragments (the only place where the strength of the MAC enters; stated as a
   hypothesis on this pair, no axiom about HMAC). *)
Theorem wrong_data_rejected :
  forall (ver : Z * Z) (bs : Z) (mac : HMac) (seq : list Z) (ty : Z) (payload payload' padx : list Z) (p : Z),
    let tag := mac_fn mac (mac_acc mac ++ mac_header seq ty ver (zlen payload) ++ payload) in
    zlen tag = mac_ds mac -> zlen padx = p ->
    mac_fn mac (mac_acc mac ++ mac_header seq ty ver (zlen payload') ++ payload') <> tag ->
    well_formed ver bs mac seq ty (payload' ++ tag ++ padx ++ [p]) = false.
Proof. exact wrong_data_rejected_lem. Qed.

(* "every sequence number": what the caller feeds the check as `seq` (ConnectionState.getSeqNumBytes,
   hand model Model/C12_Seq.v tied by vm_compute correspondence on every run).  k consecutive
   records from any starting point get the 8-byte big-endian encodings of start, start+1, ... -
   no wrap at 2^8, 2^16, 2^32 or anywhere below 2^64 ... *)
Theorem seq_numbers_consecutive :
  forall (k : nat) (start : Z), 0 <= start -> start + Z.of_nat k <= 2^64 ->
    get_seqs k {| sq_num := start |} =
      (map (fun i => Ok (be_bytes 8 (start + Z.of_nat i))) (seq 0 k), {| sq_num := start + Z.of_nat k |}).
Proof. exact get_seqs_consecutive_lem. Qed.

(* ... the encoding is injective, so two records of one connection state never share a sequence
   number under which a MAC would verify (no replay position) ... *)
Theorem seq_bytes_injective :
  forall a b, 0 <= a < 2^64 -> 0 <= b < 2^64 -> seq_bytes a = seq_bytes b -> a = b.
Proof. exact seq_bytes_injective_lem. Qed.

Theorem seq_numbers_distinct :
  forall (k : nat) (start : Z) (i j : nat), 0 <= start -> start + Z.of_nat k <= 2^64 ->
    (i < k)%nat -> (j < k)%nat -> i <> j ->
    nth i (fst (get_seqs k {| sq_num := start |})) (Err ValueError) <>
    nth j (fst (get_seqs k {| sq_num := start |})) (Err ValueError).
Proof. exact get_seqs_distinct_lem. Qed.

(* ... each is 8 bytes (the `seq` argument of check_eq_spec), and at 2^64 the code refuses
   (ValueError, state unchanged) instead of wrapping. *)
Theorem seq_bytes_wellformed :
  forall n b, seq_bytes n = Ok b -> length b = 8%nat /\ all_bytes b = true.
Proof. exact seq_bytes_shape. Qed.

Theorem seq_number_never_wraps :
  forall st, 2^64 <= sq_num st -> get_seq st = (Err ValueError, st).
Proof. exact get_seq_refuses_lem. Qed.

(* the hypotheses are satisfiable: the toy MAC used in the correspondence meets the oracle contract *)
Example mac_contract_satisfiable : forall key m,
  zlen (mac_fn (toy_hmac key 20 64) m) = mac_ds (toy_hmac key 20 64) /\
  all_bytes (mac_fn (toy_hmac key 20 64) m) = true.
Proof. intros key m. split; [apply toy_mac_length; discriminate|apply toy_mac_bytes]. Qed.

(* and the theorem is not vacuous: a concrete accepted and a concrete rejected body *)
Example accepted_body :
  well_formed (3,1) 16 (toy_hmac [1;2;3] 4 64) [0;0;0;0;0;0;0;1] 23
              ([104;105] ++ toy_mac [1;2;3] 4 ([0;0;0;0;0;0;0;1] ++ [23;3;1;0;2;104;105]) ++ [2;2;2]) = true.
Proof. vm_compute. reflexivity. Qed.
Example rejected_body :
  well_formed (3,1) 16 (toy_hmac [1;2;3] 4 64) [0;0;0;0;0;0;0;1] 23
              ([104;105] ++ toy_mac [1;2;3] 4 ([0;0;0;0;0;0;0;1] ++ [23;3;1;0;2;104;105]) ++ [2;3;2]) = false.
Proof. vm_compute. reflexivity. Qed.
