(* Property C12 -- statements only; proofs live in Proofs/.  *)
From Coq Require Import ZArith List Bool.
From TV Require Import Base.Prelude Gen.ConstantTime Spec.CbcCheck Proofs.CtOps.
Open Scope Z_scope.

(* every constant-time helper equals the plain comparison on the full unsigned 32-bit range *)
Theorem ct_ops_spec : forall a b, u32 a -> u32 b ->
  ct_lt_u32 a b = (if a <? b then 1 else 0) /\
  ct_gt_u32 a b = (if b <? a then 1 else 0) /\
  ct_le_u32 a b = (if a <=? b then 1 else 0) /\
  ct_neq_u32 a b = (if a =? b then 0 else 1) /\
  ct_eq_u32 a b = (if a =? b then 1 else 0) /\
  ct_isnonzero_u32 a = (if a =? 0 then 0 else 1).
Proof. exact ct_ops_spec_all. Qed.
