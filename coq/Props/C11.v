(* Property C11 -- RSA key transport gives an attacker no padding oracle.
   Statements only; proofs live in Proofs/C11_*.v.  The definitions `decrypt`, `dec_prf`,
   `raw_private_key_op_bytes` (Gen/C11_RsaDecrypt.v) and `processClientKeyExchange`
   (Gen/C11_RsaKex.v) are regenerated from /repo on every run.

   Oracles (universally quantified): hash = SHA-256, hmac = HMAC-SHA256 (only its output
   size and byte range are assumed), raw = the key object's private operation c |-> c^d mod n
   (only non-negativity of its result is assumed), rnd = getRandomBytes.
   Key-size guard: 11 <= numBytes n <= 65535 (80-bit to 524280-bit moduli). *)
From Coq Require Import String ZArith List Bool.
From TV Require Import Base.Prelude Base.C11_Lib Gen.ConstantTime Gen.C11_RsaDecrypt Gen.C11_RsaKex
  Spec.C11_Pkcs1Dec Model.C11_ServerTail Proofs.CtOps Proofs.C11_LibFacts Proofs.C11_Decrypt Proofs.C11_Kex Proofs.C11_Format Proofs.C11_Top Gen.C11_RsaPrivOp Proofs.C11_PrivOp.
Import ListNotations.
Open Scope Z_scope.


(* the constant-time code equals the plain specification, for every key size and ciphertext *)
Theorem decrypt_eq_spec : forall hash hmac raw n d cache enc,
  hmac_ok hmac -> (forall m, 0 <= raw m) -> key_size_ok n -> 0 <= d -> cache_ok hash n d cache ->
  decrypt hash hmac raw true n d "rsa"%string cache enc = Ok (spec_decrypt hash hmac raw n d enc).
Proof. exact decrypt_eq_spec_w. Qed.

(* total: a byte string (at most k-11 bytes) for every ciphertext of the right length below n;
   None exactly for the publicly invalid ones; never an exception *)
Theorem decrypt_total : forall hash hmac raw n d cache enc,
  hmac_ok hmac -> (forall m, 0 <= raw m) -> key_size_ok n -> 0 <= d -> cache_ok hash n d cache ->
  (zlen enc = numBytes n /\ bytesToNumber enc < n ->
     exists m, decrypt hash hmac raw true n d "rsa"%string cache enc = Ok (Some m) /\ all_bytes m = true
               /\ zlen m <= numBytes n - 11) /\
  (~ (zlen enc = numBytes n /\ bytesToNumber enc < n) ->
     decrypt hash hmac raw true n d "rsa"%string cache enc = Ok None).
Proof. exact decrypt_total_w. Qed.

(* the specification's validity test is exactly the format 00 02 PS 00 M, |PS| >= 8, PS non-zero *)
Theorem unpad_is_format : forall em m, pkcs1_unpad em = Some m <-> pkcs1_format em m.
Proof. exact unpad_iff_format. Qed.

(* the same in the words of the property: for every ciphertext of the right length below n,
   a block of the format 00 02 PS 00 M (|PS| >= 8, PS non-zero) yields M, any other block
   yields the tail of the pseudo-random message selected by synth_len *)
Theorem decrypt_by_format : forall hash hmac raw n d cache enc,
  hmac_ok hmac -> (forall m, 0 <= raw m) -> key_size_ok n -> 0 <= d -> cache_ok hash n d cache ->
  zlen enc = numBytes n -> bytesToNumber enc < n ->
  let k := numBytes n in
  let em := be_bytes (Z.to_nat k) (raw (bytesToNumber enc)) in
  let kdk := hmac (hash (be_bytes (Z.to_nat k) d)) enc in
  (forall M, pkcs1_format em M -> decrypt hash hmac raw true n d "rsa"%string cache enc = Ok (Some M)) /\
  ((forall M, ~ pkcs1_format em M) ->
     decrypt hash hmac raw true n d "rsa"%string cache enc =
     Ok (Some (skipn (Z.to_nat (k - synth_len k (prf_spec hmac kdk label_length 2048)))
                     (prf_spec hmac kdk label_message (k * 8))))).
Proof. exact decrypt_by_format_w. Qed.

(* 2-safety: for the same ciphertext (hence the same PRF stream) any two invalid decrypted
   blocks give the same result: it depends on the decrypted bytes only through validity *)
Theorem synthetic_independent_of_defect : forall hash hmac raw1 raw2 n d cache enc,
  hmac_ok hmac -> (forall m, 0 <= raw1 m) -> (forall m, 0 <= raw2 m) -> key_size_ok n -> 0 <= d -> cache_ok hash n d cache ->
  pkcs1_unpad (be_bytes (Z.to_nat (numBytes n)) (raw1 (bytesToNumber enc))) = None ->
  pkcs1_unpad (be_bytes (Z.to_nat (numBytes n)) (raw2 (bytesToNumber enc))) = None ->
  decrypt hash hmac raw1 true n d "rsa"%string cache enc = decrypt hash hmac raw2 true n d "rsa"%string cache enc.
Proof. exact synthetic_independent_of_defect_w. Qed.

(* ... and its length is a function of key size and the ciphertext-derived "length" stream only *)
Theorem invalid_length_independent_of_defect : forall hash hmac raw n d cache enc,
  hmac_ok hmac -> (forall m, 0 <= raw m) -> key_size_ok n -> 0 <= d -> cache_ok hash n d cache ->
  zlen enc = numBytes n -> bytesToNumber enc < n ->
  pkcs1_unpad (be_bytes (Z.to_nat (numBytes n)) (raw (bytesToNumber enc))) = None ->
  exists m, decrypt hash hmac raw true n d "rsa"%string cache enc = Ok (Some m) /\
            zlen m = synth_len (numBytes n)
                       (prf_spec hmac (hmac (hash (be_bytes (Z.to_nat (numBytes n)) d)) enc) label_length 2048).
Proof. exact invalid_length_independent_of_defect_w. Qed.

(* 128 candidates; mask = smallest 2^t-1 >= k-10; last candidate < k-10 (i.e. <= k-11), else 0 *)
Theorem synth_len_rule : forall k lr,
  11 <= k <= 65535 -> all_bytes lr = true -> zlen lr = 256 ->
  length (candidates k lr) = 128%nat /\
  (exists t, 0 <= t /\ cand_mask k = 2 ^ t - 1 /\ k - 10 <= cand_mask k /\
             forall t', 0 <= t' -> k - 10 <= 2 ^ t' - 1 -> cand_mask k <= 2 ^ t' - 1) /\
  synth_len k lr = last (filter (fun c => c <? k - 10) (candidates k lr)) 0 /\
  0 <= synth_len k lr <= k - 11 /\
  (synth_len k lr = 0 \/ In (synth_len k lr) (candidates k lr)).
Proof. exact synth_len_rule_all. Qed.

(* the PRF really is the draft's: HMAC(key, I2OSP(i,2) || label || I2OSP(bits,2)) blocks, truncated *)
Theorem dec_prf_is_prf : forall hmac key label L,
  hmac_ok hmac -> 0 <= L -> L mod 8 = 0 ->
  dec_prf hmac key label L = Ok (prf_spec hmac key label L).
Proof. exact dec_prf_is_prf_w. Qed.

(* processClientKeyExchange: never raises, always 48 bytes, the decrypted value only when
   it is a 48-byte string with an acceptable version, the random premaster otherwise *)
Theorem premaster_always_48 : forall dec rnd cv sv epms, zlen (rnd 48) = 48 ->
  exists pm, processClientKeyExchange dec rnd cv sv epms = Ok (Some pm) /\ zlen pm = 48 /\
             (wellformed_premaster cv sv (dec epms) = false -> pm = rnd 48) /\
             (wellformed_premaster cv sv (dec epms) = true -> dec epms = Some pm).
Proof. exact premaster_always_48_all. Qed.

Theorem kex_eq_spec : forall dec rnd cv sv epms,
  processClientKeyExchange dec rnd cv sv epms = Ok (Some (kex_spec cv sv (dec epms) (rnd 48))).
Proof. exact kex_eq_spec_all. Qed.

(* 2-safety on the server model: (a) for the same wire bytes and two secrets under which the
   premaster is malformed, the continuation is identical; (b) for two different malformed
   messages whose following Finished record does not authenticate under the random
   premaster, the server sends the same single fatal alert at the same point *)
Theorem server_choice_noninterference :
  forall rnd master_of unprotect verify_data finished_body,
  (forall dec1 dec2 cv sv tb cke epms later,
     wellformed_premaster cv sv (dec1 epms) = false ->
     wellformed_premaster cv sv (dec2 epms) = false ->
     server_after_cke dec1 rnd master_of unprotect verify_data finished_body cv sv tb cke epms later =
     server_after_cke dec2 rnd master_of unprotect verify_data finished_body cv sv tb cke epms later) /\
  (forall dec cv sv tb cke1 epms1 cke2 epms2 fin rest,
     wellformed_premaster cv sv (dec epms1) = false ->
     wellformed_premaster cv sv (dec epms2) = false ->
     unprotect (master_of (rnd 48) (tb ++ cke1)) fin = None ->
     unprotect (master_of (rnd 48) (tb ++ cke2)) fin = None ->
     let run cke epms := server_after_cke dec rnd master_of unprotect verify_data finished_body
                           cv sv tb cke epms (RecCCS :: RecProtected fin :: rest) in
     run cke1 epms1 = run cke2 epms2 /\ run cke1 epms1 = [SendAlert 2 bad_record_mac]) /\
  (forall dec cv sv tb cke epms later e,
     ~ In (Crash e) (server_after_cke dec rnd master_of unprotect verify_data finished_body cv sv tb cke epms later)).
Proof. exact server_choice_noninterference_all. Qed.

(* ---- the private operation decrypt calls (Python_RSAKey._rawPrivateKeyOp, regenerated with the blinding
   pair as threaded state; lock obligation checked by the translator): for every consistent state of the
   key object the result is helper(m) mod n -- independent of the blinding pair -- and the state stays
   consistent; hence over any history of calls, and for decrypt, the outcome is a function of key and
   input only *)
Theorem raw_private_op_deterministic : forall helper grn invMod powMod n e,
  1 < n -> (forall x y, helper ((x * y) mod n) mod n = (helper x * helper y) mod n) ->
  blind_ok helper n (powMod (invMod (grn 2 n) n) e n) (grn 2 n) ->
  forall b u m, state_ok helper n (b, u) ->
  exists b' u', rawPrivateKeyOp helper grn invMod powMod n e b u m = Ok (helper m mod n, (b', u'))
                /\ blind_ok helper n b' u'.
Proof. exact raw_private_op_spec. Qed.

Theorem raw_ops_history_deterministic : forall helper grn invMod powMod n e,
  1 < n -> (forall x y, helper ((x * y) mod n) mod n = (helper x * helper y) mod n) ->
  blind_ok helper n (powMod (invMod (grn 2 n) n) e n) (grn 2 n) ->
  forall ms st, state_ok helper n st ->
  run_ops helper grn invMod powMod n e st ms =
    Ok (map (fun m => helper m mod n) ms, iter_pair grn invMod powMod n e (length ms) st)
  /\ state_ok helper n (iter_pair grn invMod powMod n e (length ms) st).
Proof. exact run_ops_spec. Qed.

(* the state law along a history: one operation squares the pair (after drawing a fresh one when the object
   is uninitialised); k operations on an initialised object give (b^(2^k), u^(2^k)) mod n *)
Theorem blinding_state_law : forall grn invMod powMod n e,
  1 < n ->
  (forall k b u, (forall j, (j < k)%nat -> sq_iter n j b <> 0) ->
     iter_pair grn invMod powMod n e k (b, u) = (sq_iter n k b, sq_iter n k u)) /\
  (forall k x, sq_iter n k x mod n = x ^ (2 ^ Z.of_nat k) mod n).
Proof. exact blinding_state_law_all. Qed.

Theorem decrypt_independent_of_blinding : forall helper grn invMod powMod n e,
  1 < n -> (forall x y, helper ((x * y) mod n) mod n = (helper x * helper y) mod n) ->
  blind_ok helper n (powMod (invMod (grn 2 n) n) e n) (grn 2 n) ->
  forall hash hmac st1 st2 d cache enc,
  (forall k m, zlen (hmac k m) = 32) -> (forall k m, all_bytes (hmac k m) = true) ->
  11 <= numBytes n <= 65535 -> 0 <= d -> cache_ok hash n d cache ->
  state_ok helper n st1 -> state_ok helper n st2 ->
  decrypt hash hmac (raw_of helper grn invMod powMod n e st1) true n d "rsa"%string cache enc =
  decrypt hash hmac (raw_of helper grn invMod powMod n e st2) true n d "rsa"%string cache enc /\
  decrypt hash hmac (raw_of helper grn invMod powMod n e st1) true n d "rsa"%string cache enc =
  Ok (spec_decrypt hash hmac (fun m => helper m mod n) n d enc).
Proof. exact decrypt_independent_of_blinding_all. Qed.

(* the hypotheses on the private-operation oracles are satisfiable (d = e = 1, n = 5, unblinder 2, blinder 3) *)
Example toy_privop_hyps :
  let helper := fun x => x mod 5 in
  1 < 5 /\ (forall x y, helper ((x * y) mod 5) mod 5 = (helper x * helper y) mod 5) /\
  blind_ok helper 5 ((fun _ _ _ => 3) ((fun _ _ => 3) 2 5) 1 5) ((fun _ _ => 2) 2 5) /\
  state_ok helper 5 (0, 0) /\ state_ok helper 5 (3, 2) /\ ~ blind_ok helper 5 4 2.
Proof.
  cbv zeta. split; [reflexivity|]. split.
  - intros x y. rewrite !Z.mod_mod by discriminate. apply Z.mul_mod. discriminate.
  - split; [reflexivity|]. split; [left; reflexivity|]. split; [right; reflexivity|]. intros H. discriminate H.
Qed.

(* ---- the hypotheses are satisfiable, and the statements are not vacuous ------------- *)
Definition toy_mix (l : list Z) : Z := fold_left (fun a x => (a * 31 + x) mod 65521) l 7.
Definition toy_hmac (k m : list Z) : list Z :=
  map (fun i => (toy_mix k + 3 * toy_mix m + 7 * Z.of_nat i * (1 + toy_mix k mod 5)) mod 256) (seq 0 32).
Definition toy_hash (m : list Z) : list Z := toy_hmac [] m.
Definition toy_n : Z := 2 ^ 95 + 7.          (* 12-byte modulus *)
Definition toy_raw (c : Z) : Z := c.         (* the identity as "private operation" *)

Example toy_hmac_ok : hmac_ok toy_hmac.
Proof.
  split; intros k m; unfold toy_hmac.
  - unfold zlen. rewrite map_length, seq_length. reflexivity.
  - apply all_bytes_forall. apply Forall_forall. intros x Hx. apply in_map_iff in Hx.
    destruct Hx as [i [<- _]]. apply Z.mod_pos_bound. reflexivity.
Qed.
Example toy_key_ok : key_size_ok toy_n.
Proof. vm_compute. split; discriminate. Qed.
(* a valid padding returns the message ... *)
Example toy_valid :
  decrypt toy_hash toy_hmac toy_raw true toy_n 5 "rsa"%string None [0;2;1;1;1;1;1;1;1;1;0;77] = Ok (Some [77]).
Proof. vm_compute. reflexivity. Qed.
(* ... two different defects of the same ciphertext position give a synthetic message, no error *)
Example toy_invalid :
  exists m, decrypt toy_hash toy_hmac toy_raw true toy_n 5 "rsa"%string None [0;2;1;1;1;0;1;1;1;1;0;77] = Ok (Some m)
            /\ pkcs1_unpad [0;2;1;1;1;0;1;1;1;1;0;77] = None.
Proof. eexists. vm_compute. split; reflexivity. Qed.
(* the cache invariant is needed: with a cached key hash that is NOT the hash of d (here the hash of the
   empty string, what a key object gets when the hash is taken before d is assigned) the same ciphertext
   yields a different synthetic message, one computable from public data *)
Example toy_incoherent_cache_differs :
  let n2 := 2 ^ 255 + 1 in let enc := 0 :: 2 :: repeat 1 30 in
  decrypt toy_hash toy_hmac toy_raw true n2 5 "rsa"%string (Some (toy_hash [])) enc
  <> decrypt toy_hash toy_hmac toy_raw true n2 5 "rsa"%string None enc
  /\ cache_ok toy_hash n2 5 None /\ cache_ok toy_hash n2 5 (Some [])
  /\ cache_ok toy_hash n2 5 (Some (toy_hash (be_bytes 32 5))) /\ ~ cache_ok toy_hash n2 5 (Some (toy_hash [])).
Proof.
  cbv zeta. split; [vm_compute; intros H; discriminate H|]. split; [left; reflexivity|].
  split; [right; left; reflexivity|]. split; [right; right; reflexivity|].
  intros [H|[H|H]]; vm_compute in H; discriminate.
Qed.
Example toy_public_invalid :
  decrypt toy_hash toy_hmac toy_raw true toy_n 5 "rsa"%string None [0;2;1] = Ok None.
Proof. vm_compute. reflexivity. Qed.
Example toy_malformed_premaster :
  wellformed_premaster (3,3) (3,3) (Some (3 :: 2 :: repeat 0 46)) = false /\
  wellformed_premaster (3,3) (3,3) (Some (3 :: 3 :: repeat 0 46)) = true /\
  wellformed_premaster (3,3) (3,3) (Some (3 :: 3 :: repeat 0 45)) = false.
Proof. vm_compute. repeat split. Qed.
