(* Property C13 -- statements only; proofs live in Proofs/C13_*.v *)
From Coq Require Import ZArith List Bool.
From TV Require Import Base.Prelude Model.C13_Resume.
Open Scope Z_scope.
