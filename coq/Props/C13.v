(* Property C13 -- statements only; proofs live in Proofs/C13_*.v.
   Model: Model/C13_Resume.v.  A history is a list of events (connection attempt offering any
   client Session object, close clean/fatal/abrupt, clock, server reconfiguration incl. ticket-key
   rotation and cache parameters, ticket alteration/forgery, deviating-client events);
   `reachable w` = w is the world after ANY history from ANY initial configuration.
   The model describes the tree with /repo 51120a0 (client fallback, F1) and e172bf7 (TLS 1.3
   ticket lifetime); the statements those commits made true were `_refuted` before (see comments).
   Every connection of every history is `conn_delta w cp sv` for a reachable w, and its log
   entry is `d_log (conn_delta ...)`, so the statements below speak about all of them.
   ideal_aead = H-ideal-AEAD (symbolic): open succeeds exactly on seals under the same key. *)
From Coq Require Import ZArith List Bool.
From TV Require Import Base.Prelude Model.C13_Resume Proofs.C13_Decide Proofs.C13_Hist Proofs.C13_Thms.
Import ListNotations.
Open Scope Z_scope.

Section C13.
Variable blob : Type.
Variable seal : Z -> Z -> payload -> blob.
Variable open : Z -> blob -> option payload.
Variable tamper : blob -> Z -> blob.
Variable junk : Z -> blob.

(* resume_sound + resume_preserves, TLS <= 1.2 (session ID and ticket), all histories:
   the server resumes => suite still acceptable and offered, SNI / SRP user / EtM / EMS consistent,
   found in the cache (resumable, not older than maxAge) or under a CURRENT ticket key within the
   lifetime (ByBoth: both, the cached object is used, /repo 4da1727), and it stems from a connection r0 of the history that completed, whose suite, EMS, EtM,
   server name, client identity and master secret the resumed connection has. *)
Theorem resume_sound_and_preserves_ideal : ideal_aead blob seal open tamper junk ->
  forall w cp sv cr,
  reachable blob seal open tamper junk w -> zget (w_servers w) (cp_srv cp) = Some sv ->
  let r := d_log blob (conn_delta blob seal open w cp sv) in
  r_out r = ODone true cr -> r_ver r < 4 ->
  exists h s o,
    r_hello r = Some h /\ r_sview r = Some s /\ r_src r = Some o /\
    zmem (s_suite s) (o_acc cp) = true /\ hello_consistent s h /\
    match o with
    | ByCache => accepted_by_cache blob (sv_cfg sv) (sv_store sv) h (w_now w) s
    | ByTicket k => accepted_by_ticket blob open (sv_cfg sv) h (w_now w) k s
    | ByBoth k => accepted_by_both blob open (sv_cfg sv) (sv_store sv) h (w_now w) k s
    | ByPsk _ => False
    end /\
    exists r0 v0, In r0 (w_log w) /\ is_done (r_out r0) /\ r_sview r0 = Some v0 /\ same_security s v0 /\
                  (o = ByCache \/ (exists k, o = ByBoth k) -> r_out r0 = ODone false false /\ v0 = s).
Proof. exact (resume_sound_preserves12 blob seal open tamper junk). Qed.

(* TLS 1.3 PSK, all histories.  resume_sound is complete: current key, ticket version, WITHIN LIFETIME
   (conjunct added with /repo e172bf7; before that commit it was refuted: a ticket with lifetime 100 s
   resumed 1000 s later), PRF hash, binder secret, issuing connection completed.
   resume_preserves is PARTIAL: client identity / hash / EMS / EtM carried over; server name and
   cipher suite of the issuing connection are not (RFC 8446 permits; refuted below, known finding). *)
Theorem resume_sound_tls13_and_preserves_partial_ideal : ideal_aead blob seal open tamper junk ->
  forall w cp sv cr,
  reachable blob seal open tamper junk w -> zget (w_servers w) (cp_srv cp) = Some sv ->
  let r := d_log blob (conn_delta blob seal open w cp sv) in
  r_out r = ODone true cr -> 4 <= r_ver r ->
  exists h b bk k p s,
    r_hello r = Some h /\ h_psk h = Some (b, bk) /\ r_sview r = Some s /\ r_src r = Some (ByPsk k) /\
    In k (sv_keys (sv_cfg sv)) /\ open k b = Some p /\ p_ver p = 4 /\
    w_now w <= p_created p + sv_life (sv_cfg sv) /\ p_hash p = o_fhash cp /\ bk = p_ms p /\
    exists r0 v0, In r0 (w_log w) /\ is_done (r_out r0) /\ r_sview r0 = Some v0 /\
                  s_ccert s = s_ccert v0 /\ s_hash s = s_hash v0 /\ s_ems s = true /\ s_etm s = false /\
                  s_origin s = s_origin v0.
Proof. exact (resume_sound_preserves13 blob seal open tamper junk). Qed.

(* a declined offer leaves no trace: a connection that completes without resumption (whatever ticket /
   ID / PSK was offered and for whatever reason it was declined: expired, other PRF hash, wrong version,
   altered, foreign key, invalidated) has, on the server, only the client identity proved on THIS
   connection, its own origin, the hello's server name, the negotiated suite, and is not marked resumed
   on either end *)
Theorem declined_leaves_no_trace :
  forall w cp sv cr,
  let r := d_log blob (conn_delta blob seal open w cp sv) in
  r_out r = ODone false cr ->
  cr = false /\
  exists h s, r_hello r = Some h /\ r_sview r = Some s /\
    s_ccert s = (if sv_reqcert (sv_cfg sv) then cp_ccert cp else 0) /\
    s_origin s = Z.of_nat (length (w_log w)) /\ s_suite s = o_fsuite cp /\ s_sni s = h_sni h /\
    r_src r = None.
Proof. exact (Proofs.C13_Thms.declined_leaves_no_trace blob seal open). Qed.

(* altered, forged or foreign ticket bytes: the server declines (and tries nothing else) *)
Theorem ticket_forgery_rejected_ideal : ideal_aead blob seal open tamper junk ->
  forall cfg st acc (h : hello blob) now b,
  h_ticket h = Some b -> not_under_current_key seal tamper junk (sv_keys cfg) b ->
  server_try_resume blob open cfg st acc h now = (st, SFull).
Proof. exact (ticket_forgery_rejected blob seal open tamper junk). Qed.

Theorem psk_forgery_rejected_ideal : ideal_aead blob seal open tamper junk ->
  forall cfg cp (h : hello blob) now b bk,
  h_psk h = Some (b, bk) -> not_under_current_key seal tamper junk (sv_keys cfg) b ->
  server_psk blob open cfg cp h now = S13Full.
Proof. exact (psk_forgery_rejected blob seal open tamper junk). Qed.

(* unknown session ID: declined *)
Theorem unknown_session_id_declined :
  forall cfg st acc (h : hello blob) now,
  h_ticket h = None -> cache_find (h_sid h) (purge (sv_maxage cfg) now st) = None ->
  snd (server_try_resume blob open cfg st acc h now) = SFull.
Proof. exact (server_try_resume_unknown_id blob open). Qed.

(* invalidated_never_resumes, server side: after any connection bound to the cached session died
   abnormally at the server (cr_ks), no connection of any continuation resumes it by ID, nor by a
   ticket matched with the cached object.  Since /repo 4da1727 ticket resumptions whose hello names the
   cached session are bound to it (ByBoth), so their failure counts; before, the history
   [full; close; resumed from ticket; abrupt close at the server; ticket expires; offer by ID] resumed
   (see ticketconn_failure_reaches_cache).  Tickets alone stay stateless: refuted at the end. *)
Theorem invalidated_never_resumes_ideal : ideal_aead blob seal open tamper junk ->
  forall w cp sv cr crec sid,
  reachable blob seal open tamper junk w -> zget (w_servers w) (cp_srv cp) = Some sv ->
  In crec (w_conns w) -> cr_ks crec = true -> cr_sobj crec = Some sid -> cr_srv crec = cp_srv cp ->
  let r := d_log blob (conn_delta blob seal open w cp sv) in
  r_out r = ODone true cr -> r_ver r < 4 ->
  r_src r = Some ByCache \/ (exists k, r_src r = Some (ByBoth k)) ->
  forall s, r_sview r = Some s -> s_sid s <> sid.
Proof. exact (invalidated_never_resumes_by_id blob seal open tamper junk). Qed.

(* invalidated_never_resumes, client side: a Session object whose resumable flag is cleared is not
   offered and the connection is not a resumption (any version, any mechanism) *)
Theorem invalidated_never_offered_by_client :
  forall w cp sv i c0,
  reachable blob seal open tamper junk w -> zget (w_servers w) (cp_srv cp) = Some sv ->
  cp_offer cp = Some i -> zget (w_clients w) i = Some c0 -> c_res c0 = false ->
  let r := d_log blob (conn_delta blob seal open w cp sv) in
  r_offer_valid r = false /\ forall cr, r_out r <> ODone true cr.
Proof. exact (invalidated_never_offered blob seal open tamper junk). Qed.

(* fallback_completes -- FULL (session ID, TLS <= 1.2 ticket, TLS 1.3 PSK): whenever the server
   declines (decision SFull / S13Full) and a full negotiation is possible, both ends complete a full
   handshake.  Before /repo 51120a0 the TLS <= 1.2 ticket case was refuted (finding F1): history
   [full handshake with ticket under key 1; clean close; server replaces the key by 7; the client offers
   the session] ended with the client's unexpected_message alert; see fallback_f1_history_completes. *)
Theorem fallback_completes :
  forall w cp sv h used,
  reachable blob seal open tamper junk w -> zget (w_servers w) (cp_srv cp) = Some sv ->
  client_offer blob cp (offered blob w cp) (w_now w) (w_fresh w) = Offer blob h used ->
  o_fsuite cp <> 0 -> cp_half cp = 0 (* the transport delivers the handshake *) ->
  let r := d_log blob (conn_delta blob seal open w cp sv) in
  let v := Z.min (cp_maxv cp) (sv_maxv (sv_cfg sv)) in
  (4 <= v -> server_psk blob open (sv_cfg sv) cp h (w_now w) = S13Full -> r_out r = ODone false false) /\
  (v < 4 -> snd (server_try_resume blob open (sv_cfg sv) (sv_store sv) (o_acc cp) h (w_now w)) = SFull ->
   r_out r = ODone false false).
Proof. exact (fallback_completes_all blob seal open tamper junk). Qed.

(* Connections overlap: a history may hold several connections open at once (close events name any open
   connection) and may hold a full handshake up before the client's Finished reaches the server (cp_half).
   A held-up handshake leaves nothing resumable: no cache entry, no ticket. *)
Theorem suspended_leaves_nothing_resumable :
  forall w cp sv,
  let d := conn_delta blob seal open w cp sv in
  r_out (d_log blob d) = OSuspended ->
  d_issue blob d = None /\ r_sview (d_log blob d) = None /\
  forall st e, d_store blob d = Some st -> In e st -> In e (sv_store sv).
Proof. exact (Proofs.C13_Thms.suspended_leaves_nothing_resumable blob seal open). Qed.

(* "a session enters the cache only after both Finished messages verified": in every reachable world every
   cache entry stems from a connection of the history that completed as a full handshake *)
Theorem cache_only_completed :
  forall w e, reachable blob seal open tamper junk w -> entries blob w e ->
  exists r, In r (w_log w) /\ r_out r = ODone false false /\ r_sview r = Some (ce_sess e).
Proof. exact (Proofs.C13_Thms.cache_only_completed blob seal open tamper junk). Qed.

(* "resumable is monotone: once cleared by a fatal error it is never set again" (server's cached object;
   connections sharing it may close in any order, cleanly or not) *)
Theorem resumable_monotone_server :
  forall w crec sid sv e,
  reachable blob seal open tamper junk w -> In crec (w_conns w) -> cr_ks crec = true -> cr_sobj crec = Some sid ->
  zget (w_servers w) (cr_srv crec) = Some sv -> In e (sv_store sv) -> s_sid (ce_sess e) = sid ->
  ce_res e = false.
Proof. exact (Proofs.C13_Thms.resumable_monotone_server blob seal open tamper junk). Qed.

(* honest ticket offer resumes (completeness of acceptance, all inputs): a ticket sealed under a current
   key, within lifetime, suite still acceptable, offered with a consistent ClientHello (suite offered, SRP
   user / server name / EtM / EMS as in the session) is accepted and the resumed session is exactly the
   payload's, SRP user name included.  Server without SessionCache (with one: ByBoth may use the cached
   object).  For SRP sessions this became true with /repo 19b1cb2. *)
Theorem honest_ticket_offer_resumes_ideal : ideal_aead blob seal open tamper junk ->
  forall cfg st acc (h : hello blob) now k n p,
  h_ticket h = Some (seal k n p) -> In k (sv_keys cfg) -> now <= p_created p + sv_life cfg ->
  sv_usecache cfg = false ->
  zmem (p_suite p) acc = true -> hello_consistent (sess_of_payload p (h_sid h)) h ->
  server_try_resume blob open cfg st acc h now = (st, SResume (sess_of_payload p (h_sid h)) (ByTicket k)) /\
  s_srp (sess_of_payload p (h_sid h)) = p_srp p.
Proof. exact (honest_ticket_offer_resumes blob seal open tamper junk). Qed.

End C13.

(* the hypotheses are satisfiable: the symbolic AEAD used to run the model *)
Example ideal_aead_instance : ideal_aead sblob Sealed sopen Tampered Junk.
Proof. exact sym_aead_ideal. Qed.

(* the history that refuted fallback_completes before the client repair now completes *)
Example fallback_f1_history_completes :
  let w := srun [wit_cfg 3 [1] 400] wit_f1_history in
  let cp := wit_cp 3 (Some 0) 1 49199 in
  exists sv h used,
    zget (w_servers w) 0 = Some sv /\
    client_offer sblob cp (offered sblob w cp) (w_now w) (w_fresh w) = Offer sblob h used /\
    h_ticket h <> None /\
    snd (server_try_resume sblob sopen (sv_cfg sv) (sv_store sv) (o_acc cp) h (w_now w)) = SFull /\
    r_out (d_log sblob (conn_delta sblob Sealed sopen w cp sv)) = ODone false false.
Proof. exact Proofs.C13_Thms.fallback_f1_history_completes. Qed.

(* the history that refuted the TLS 1.3 lifetime conjunct (ticketLifetime 100 s, offered 1000 s later by
   a client that keeps the ticket) is now declined and completes as a full handshake *)
Example tls13_expired_history_declined :
  let w := srun [wit_cfg 4 [1] 400] wit_13_expired in
  let cp := wit_cp 4 (Some 0) 1 4865 in
  exists sv h,
    zget (w_servers w) 0 = Some sv /\
    r_hello (d_log sblob (conn_delta sblob Sealed sopen w cp sv)) = Some h /\ h_psk h <> None /\
    r_out (d_log sblob (conn_delta sblob Sealed sopen w cp sv)) = ODone false false.
Proof. exact Proofs.C13_Thms.tls13_expired_history_declined. Qed.

(* the history of the former finding ticket-connection-failure-not-propagated-to-cache now falls back *)
Example ticketconn_failure_reaches_cache :
  let w := srun [wit_cfg_both] wit_ticketconn_history in
  let cp := wit_cp 3 (Some 0) 1 49199 in
  exists sv r1 h,
    zget (w_servers w) 0 = Some sv /\
    nth_error (w_log w) 1 = Some r1 /\ r_src r1 = Some (ByBoth 1) /\ r_out r1 = ODone true true /\
    r_hello (d_log sblob (conn_delta sblob Sealed sopen w cp sv)) = Some h /\
    h_ticket h = None /\ h_sid h <> 0 /\
    r_out (d_log sblob (conn_delta sblob Sealed sopen w cp sv)) = ODone false false.
Proof. exact ticketconn_failure_reaches_cache_witness. Qed.

(* resume_preserves (server name, suite) REFUTED for TLS 1.3 (design level: RFC 8446 permits; known
   finding); the client identity is carried over *)
Theorem resume_preserves_tls13_sni_suite_refuted :
  let w := srun [wit_cfg 4 [1] 400] wit_13_sni in
  let cp := wit_cp 4 (Some 0) 2 4867 in
  exists sv s r0 v0,
    zget (w_servers w) 0 = Some sv /\
    r_out (d_log sblob (conn_delta sblob Sealed sopen w cp sv)) = ODone true true /\
    r_sview (d_log sblob (conn_delta sblob Sealed sopen w cp sv)) = Some s /\
    nth_error (w_log w) 0 = Some r0 /\ r_sview r0 = Some v0 /\
    s_ccert s = s_ccert v0 /\ s_ccert s = 1 /\ s_sni s <> s_sni v0 /\ s_suite s <> s_suite v0.
Proof. exact tls13_sni_suite_refuted_witness. Qed.

(* the SRP history that ended in the server's handshake_failure before /repo 19b1cb2 (tickets carried no
   SRP user name; then `honest_srp_ticket_offer_refuted`) now resumes with the user name preserved *)
Theorem honest_srp_ticket_offer_resumes :
  let w := srun [wit_cfg 3 [1] 400] wit_srp_history in
  let cp := wit_cp_srp (Some 0) in
  exists sv h used b p s,
    zget (w_servers w) 0 = Some sv /\
    client_offer sblob cp (offered sblob w cp) (w_now w) (w_fresh w) = Offer sblob h used /\
    h_ticket h = Some b /\ sopen 1 b = Some p /\ h_srp h = 1 /\
    r_out (d_log sblob (conn_delta sblob Sealed sopen w cp sv)) = ODone true true /\
    r_sview (d_log sblob (conn_delta sblob Sealed sopen w cp sv)) = Some s /\ s_srp s = 1.
Proof. exact srp_ticket_offer_resumes_witness. Qed.

(* invalidated_never_resumes REFUTED for the ticket path at the server (inherent to stateless tickets,
   RFC 5077; known finding) *)
Theorem invalidated_never_resumes_ticket_refuted :
  let w := srun [wit_cfg 3 [1] 400] wit_ticket_survives in
  let cp := wit_cp 3 (Some 0) 1 49199 in
  exists sv crec,
    zget (w_servers w) 0 = Some sv /\ nth_error (w_conns w) 0 = Some crec /\ cr_ks crec = true /\
    r_out (d_log sblob (conn_delta sblob Sealed sopen w cp sv)) = ODone true true /\
    r_src (d_log sblob (conn_delta sblob Sealed sopen w cp sv)) = Some (ByTicket 1).
Proof. exact ticket_outlives_invalidation_witness. Qed.
