(* Property C02 -- a record is accepted only if it is exactly what the peer sent next.
   Statements only; proofs in Proofs/C02_*.v.  Model: Model/C01_RecordPipe.v (protect/unprotect),
   Model/C02_RecordAccept.v (protect_with: the sender's free choices; recv_step: the error path).
   Hypotheses: Spec/C01_Contracts.v (cipher/AEAD/MAC contracts), Spec/C02_Ideal.v.
   Theorems whose name ends in _ideal use the symbolic "no collisions" idealisation of the MAC /
   AEAD (see Spec/C02_Ideal.v for what that does and does not mean). *)
From Coq Require Import ZArith List Bool.
From TV Require Import Base.Prelude Spec.CbcCheck Toy.ToyMac Model.C01_RecordPipe Toy.C01_ToyCipher Spec.C01_Contracts
  Model.C02_RecordAccept Spec.C02_Ideal Proofs.C01_RoundTrip Proofs.C01_Delivery Proofs.C01_ToyOk
  Proofs.C02_Cbc Proofs.C02_Accept Proofs.C02_Integrity Proofs.C02_Reject Proofs.C02_Corollaries
  Proofs.C02_Image Proofs.C02_Effects Proofs.C01_Close Proofs.C02_Epochs Proofs.C02_Round3.
Import ListNotations.
Open Scope Z_scope.

(* ---- acceptance set = image of protection under the receiver's key, state and next seq ------------ *)
(* TLS <= 1.2, every path (stream/NULL, CBC implicit and explicit IV, EtM, AEAD): for a sender state s in
   step with the receiver state r (same key, cipher state and next sequence number), the wire
   (hty,hver,body) is accepted yielding (ty,p) IFF it is protect_with s (ty,p) for some legal choice of CBC
   padding / IV-block plaintext / explicit nonce (and the header version it carries, which TLS <= 1.2
   does not authenticate), within the receive limits.  `protect` is the instance with tlslite's choices. *)
Theorem accept_iff_image : forall (CS : Type) (P : Prim CS) (R : CS -> CS -> Prop) (c : Cfg) (md : mode)
    (s r : St CS) (hty : Z) (hver : Z * Z) (body : list Z) (ty : Z) (p : list Z),
  md <> MTls13 -> mode_ok P R md c -> onto_ok P R c md -> dec_bytes P -> bytes_list body -> zlen body < 65536 ->
  sync R s r ->
  ((exists r', unprotect c P r (hty, hver, body) = ROk (r', (ty, p))) <->
   (zlen body <= c_recv_limit c + 2048 /\ zlen p <= c_recv_limit c /\
    exists ch s', choice_legal c md ch /\ protect_with c P s (ty, p) ch hver = ROk (s', (hty, hver, body)))).
Proof. exact @accept_iff_image_legacy. Qed.

(* the "->" direction with what else it gives: the two ends are in step again, seq + 1 *)
Theorem accept_in_image : forall (CS : Type) (P : Prim CS) (R : CS -> CS -> Prop) (c : Cfg) (md : mode)
    (s r r' : St CS) (hty : Z) (hver : Z * Z) (body : list Z) (ty : Z) (p : list Z),
  md <> MTls13 -> mode_ok P R md c -> onto_ok P R c md -> dec_bytes P -> bytes_list body -> zlen body < 65536 ->
  sync R s r ->
  unprotect c P r (hty, hver, body) = ROk (r', (ty, p)) ->
  exists ch s', choice_legal c md ch /\
                protect_with c P s (ty, p) ch hver = ROk (s', (hty, hver, body)) /\
                sync R s' r' /\ st_seq r' = st_seq r + 1 /\ zlen p <= c_recv_limit c.
Proof. exact @accept_in_image_legacy. Qed.

Theorem accept_iff_image_stream : forall (CS : Type) (P : Prim CS) (R : CS -> CS -> Prop) (c : Cfg)
    (s r : St CS) (ty : Z) (body data : list Z),
  mode_ok P R MStream c -> (c_has_enc c = true -> cipher_onto P R 1) -> sync R s r ->
  is_byte ty = true -> zlen data <= 16384 -> st_seq s < 18446744073709551616 ->
  ((exists r', decrypt_stream_then_mac c P r ty body = ROk (r', data)) <->
   (exists s', mac_then_encrypt c P s ty data = ROk (s', body))).
Proof. exact @stream_accept_iff. Qed.

(* TLS 1.3: an accepted application_data record is the sealing, under the nonce of the receiver's
   next sequence number and the header as additional data, of content ++ [type] ++ zero padding.
   (the inner type is neither 0 nor change_cipher_spec: RFC 8446 section 5, a protected CCS is rejected) *)
Theorem accept_image_tls13 : forall (CS : Type) (P : Prim CS) (R : CS -> CS -> Prop) (c : Cfg)
    (s r r' : St CS) (hver : Z * Z) (body : list Z) (ty : Z) (data : list Z),
  mode_ok P R MTls13 c -> aead_tight P -> sync R s r ->
  unprotect c P r (23, hver, body) = ROk (r', (ty, data)) ->
  hver = (3, 3) /\ (ty <> 0 /\ ty <> 20) /\ zlen data <= c_recv_limit c /\
  exists k nonce, 0 <= k /\ zlen data + 1 + k <= c_recv_limit c + 1 /\
    get_nonce c (be_bytes 8 (st_seq r)) = ROk nonce /\
    body = pr_seal P nonce (data ++ [ty] ++ zeros k) (aad13 23 (3, 3) (zlen body)) /\
    sync R {| st_cs := st_cs s; st_seq := st_seq s + 1 |} r' /\ st_seq r' = st_seq r + 1.
Proof. exact @tls13_accept. Qed.

(* TLS 1.3, application_data / 3.3 header: full iff, for every amount of zero padding within the receive
   limit; the inner type is any byte except 0 and change_cipher_spec *)
Theorem accept_iff_image_tls13 : forall (CS : Type) (P : Prim CS) (R : CS -> CS -> Prop) (c : Cfg)
    (s r : St CS) (body : list Z) (ty : Z) (data : list Z),
  mode_ok P R MTls13 c -> aead_tight P -> sync R s r -> zlen body < 65536 ->
  ((exists r', unprotect c P r (23, (3, 3), body) = ROk (r', (ty, data))) <->
   ((ty <> 0 /\ ty <> 20) /\ zlen data <= c_recv_limit c /\ st_seq s < 18446744073709551616 /\
    exists k s', 0 <= k /\ zlen data + 1 + k <= c_recv_limit c + 1 /\
      protect_with c P s (ty, data) {| ch_pad := []; ch_ivb := []; ch_nonce := []; ch_zeros := k |} (3, 3)
        = ROk (s', (23, (3, 3), body)))).
Proof. exact @accept_iff_image_tls13_l. Qed.

(* the bytes under the MAC determine sequence number, content type and payload *)
Theorem mac_input_binds : forall (c : Cfg) n1 ty1 d1 n2 ty2 d2,
  0 <= n1 < 18446744073709551616 -> 0 <= n2 < 18446744073709551616 ->
  zlen d1 < 65536 -> zlen d2 < 65536 ->
  mac_input c n1 ty1 d1 = mac_input c n2 ty2 d2 -> n1 = n2 /\ ty1 = ty2 /\ d1 = d2.
Proof. exact mac_input_inj. Qed.

(* ---- disjointness of images (ideal MAC / AEAD) ---------------------------------------------------------- *)
(* EtM, TLS 1.2 AEAD, TLS 1.3: one wire accepted by two receiver states of the same key -> same
   sequence number, same type (and same payload for AEAD) *)
Theorem images_disjoint_ideal : forall (CS : Type) (R : CS -> CS -> Prop) (c : Cfg) (P : Prim CS) (md : mode)
    (r1 r1' r2 r2' : St CS) hty hver body ty1 p1 ty2 p2,
  integrity_mode md -> mode_ok P R md c -> (md = MTls13 -> hty = 23) ->
  (md = MEtm -> mac_injective_ideal P) ->
  (md <> MEtm -> aead_tight P /\ seal_injective_ideal P) ->
  unprotect c P r1 (hty, hver, body) = ROk (r1', (ty1, p1)) ->
  unprotect c P r2 (hty, hver, body) = ROk (r2', (ty2, p2)) ->
  st_seq r1 = st_seq r2 /\ ty1 = ty2 /\ (md <> MEtm -> p1 = p2).
Proof. exact @two_accepts_same_position_ideal. Qed.

(* MAC-then-encrypt (stream/NULL), for receivers that decrypt alike: the MAC binds seq, type, payload.
   (For a stateful cipher a record replayed at another position decrypts to other bytes; that those
   bytes do not carry a valid tag is unforgeability, which no hypothesis on functions expresses:
   _partial, see design/C02.md.) *)
Theorem images_disjoint_mte_ideal_partial : forall (CS : Type) (c : Cfg) (P : Prim CS)
    (r1 r1' r2 r2' : St CS) ty1 ty2 body p1 p2,
  c_has_mac c = true -> mac_injective_ideal P -> st_cs r1 = st_cs r2 ->
  decrypt_stream_then_mac c P r1 ty1 body = ROk (r1', p1) ->
  decrypt_stream_then_mac c P r2 ty2 body = ROk (r2', p2) ->
  st_seq r1 = st_seq r2 /\ ty1 = ty2 /\ p1 = p2.
Proof. exact @stream_binds_ideal. Qed.

(* ---- corollaries: every way of presenting a record that is not the next one -------------------------- *)
Theorem replay_rejected_ideal : forall (CS : Type) (P : Prim CS) (R : CS -> CS -> Prop) (c : Cfg) (md : mode)
    (s s' rj r : St CS) ty data w,
  integrity_mode md -> mode_ok P R md c -> ideal_one_key P md ->
  sync R s rj -> rec_ok c ty data -> (md = MTls13 -> ty <> 20) -> st_seq s < SEQ_MAX ->
  protect c P s (ty, data) = ROk (s', w) ->
  st_seq s < st_seq r ->
  forall r' x, unprotect c P r w <> ROk (r', x).
Proof. exact @replay_rejected_l. Qed.

Theorem reorder_rejected_ideal : forall (CS : Type) (P : Prim CS) (R : CS -> CS -> Prop) (c : Cfg) (md : mode)
    (s s' rj r : St CS) ty data w,
  integrity_mode md -> mode_ok P R md c -> ideal_one_key P md ->
  sync R s rj -> rec_ok c ty data -> (md = MTls13 -> ty <> 20) -> st_seq s < SEQ_MAX ->
  protect c P s (ty, data) = ROk (s', w) ->
  st_seq r <> st_seq s ->
  forall r' x, unprotect c P r w <> ROk (r', x).
Proof. exact @wrong_position_rejected. Qed.

Theorem drop_then_continue_rejected_ideal : forall (CS : Type) (P : Prim CS) (R : CS -> CS -> Prop) (c : Cfg)
    (md : mode) (s s' rj r : St CS) ty data w (dropped : Z),
  integrity_mode md -> mode_ok P R md c -> ideal_one_key P md ->
  sync R s rj -> rec_ok c ty data -> (md = MTls13 -> ty <> 20) -> st_seq s < SEQ_MAX ->
  protect c P s (ty, data) = ROk (s', w) ->
  1 <= dropped -> st_seq s = st_seq r + dropped ->
  forall r' x, unprotect c P r w <> ROk (r', x).
Proof. exact @later_record_rejected_l. Qed.

(* records protected under the key of the other direction ... *)
Theorem reflection_rejected_ideal : forall (CS : Type) (R : CS -> CS -> Prop) (md : mode) (c1 c2 : Cfg)
    (P1 P2 : Prim CS) (s s' rj r : St CS) ty data w,
  integrity_mode md -> mode_ok P1 R md c1 -> mode_ok P2 R md c2 -> explicit_nonce c1 = explicit_nonce c2 ->
  (md = MEtm -> mac_disjoint_ideal P1 P2 /\ ds P1 = ds P2) ->
  (md <> MEtm -> aead_tight P1 /\ aead_tight P2 /\ seal_disjoint_ideal P1 P2) ->
  sync R s rj -> rec_ok c1 ty data -> (md = MTls13 -> ty <> 20) -> st_seq s < SEQ_MAX ->
  protect c1 P1 s (ty, data) = ROk (s', w) ->
  forall r' x, unprotect c2 P2 r w <> ROk (r', x).
Proof. exact @foreign_key_rejected. Qed.

(* ... or of another key epoch (before/after ChangeCipherSpec or KeyUpdate, another connection) *)
Theorem cross_epoch_rejected_ideal : forall (CS : Type) (R : CS -> CS -> Prop) (md : mode) (c1 c2 : Cfg)
    (P1 P2 : Prim CS) (s s' rj r : St CS) ty data w,
  integrity_mode md -> mode_ok P1 R md c1 -> mode_ok P2 R md c2 -> explicit_nonce c1 = explicit_nonce c2 ->
  (md = MEtm -> mac_disjoint_ideal P1 P2 /\ ds P1 = ds P2) ->
  (md <> MEtm -> aead_tight P1 /\ aead_tight P2 /\ seal_disjoint_ideal P1 P2) ->
  sync R s rj -> rec_ok c1 ty data -> (md = MTls13 -> ty <> 20) -> st_seq s < SEQ_MAX ->
  protect c1 P1 s (ty, data) = ROk (s', w) ->
  forall r' x, unprotect c2 P2 r w <> ROk (r', x).
Proof. exact @foreign_key_rejected. Qed.

(* ---- TLS 1.3 outer header and inner plaintext ------------------------------------------------------------ *)
Theorem tls13_outer_checks : forall (CS : Type) (R : CS -> CS -> Prop) (c : Cfg) (P : Prim CS) (r : St CS)
    hty hver body,
  mode_ok P R MTls13 c -> zlen body <= c_recv_limit c + 256 ->
  (hty = 20 -> unprotect c P r (hty, hver, body) =
               if zlen body >? c_recv_limit c then RErr EOverflow else ROk (r, (20, body))) /\
  (hty = 21 -> c_plain_alert c = true -> zlen body < 3 -> zlen body <= c_recv_limit c -> st_seq r = 0 ->
   unprotect c P r (hty, hver, body) = ROk (r, (21, body))) /\
  (hty <> 20 -> hty <> 23 -> ~ (c_plain_alert c = true /\ hty = 21 /\ zlen body < 3 /\ st_seq r = 0) ->
   0 <= st_seq r < 18446744073709551616 -> c_tag c <= zlen body ->
   unprotect c P r (hty, hver, body) = RErr EUnexpected) /\
  (hty = 23 -> hver <> (3, 3) -> 0 <= st_seq r < 18446744073709551616 -> c_tag c <= zlen body ->
   unprotect c P r (hty, hver, body) = RErr EIllegalParam).
Proof. exact @tls13_outer. Qed.

Theorem depad_spec : forall (data : list Z) (ty k : Z), ty <> 0 -> de_pad (data ++ [ty] ++ zeros k) = ROk (ty, data).
Proof. exact de_pad_spec. Qed.

Theorem depad_all_zero_rejected : forall k : Z, de_pad (zeros k) = RErr EUnexpected.
Proof. exact de_pad_all_zero. Qed.

Theorem depad_only_that : forall (d : list Z) (ty : Z) (content : list Z), de_pad d = ROk (ty, content) ->
  ty <> 0 /\ exists k, 0 <= k /\ d = content ++ [ty] ++ zeros k.
Proof. exact de_pad_inv. Qed.

(* ---- effects of a rejection (_getNextRecordFromSocket -> _sendError -> _shutdown(False)) ----------------- *)
Theorem reject_effects : forall (CS : Type) (cr cw : Cfg) (Pr Pw : Prim CS) (e : Endpoint CS) (w : Wire) err d,
  unprotect cr Pr (e_rd e) w = RErr err -> alert_of err = Some d ->
  let e' := fst (recv_step cr cw Pr Pw e w) in
  snd (recv_step cr cw Pr Pw e w) = OLocalAlert d /\
  e_rbuf e' = e_rbuf e /\ e_closed e' = true /\ e_resumable e' = false /\
  (forall s1 wa, protect cw Pw (e_wr e) (21, [2; d]) = ROk (s1, wa) -> e_sent e' = e_sent e ++ [wa]).
Proof. exact @reject_effects_l. Qed.

Theorem every_tls_error_has_alert : forall err, err <> EValue -> err <> EAssert -> exists d, alert_of err = Some d.
Proof. exact alert_of_total. Qed.

Theorem accept_effects : forall (CS : Type) (cr cw : Cfg) (Pr Pw : Prim CS) (e : Endpoint CS) (w : Wire) r1 data,
  unprotect cr Pr (e_rd e) w = ROk (r1, (23, data)) ->
  let e' := fst (recv_step cr cw Pr Pw e w) in
  snd (recv_step cr cw Pr Pw e w) = ODelivered (zlen data) /\
  e_rbuf e' = e_rbuf e ++ data /\ e_closed e' = e_closed e /\ e_resumable e' = e_resumable e /\
  e_sent e' = e_sent e /\ e_rd e' = r1.
Proof. exact @accept_effects_l. Qed.

(* ---- key epochs (TLS 1.3 KeyUpdate) and the defragmenter across read-key changes --------------------------- *)
(* generation N of a direction's traffic secret is next^N(s0) (RFC 8446 7.2; the harness compares the secrets
   and IVs of three consecutive KeyUpdates with an independent HKDF).  Under the ideal reading of HKDF
   (next and the key/IV derivation injective, the chain does not return to s0) all epochs have different keys,
   so cross_epoch_rejected_ideal applies to every pair of epochs. *)
Theorem keyupdate_epochs_distinct_ideal : forall (S K : Type) (next : S -> S) (derive : S -> K) (s0 : S),
  (forall a b, next a = next b -> a = b) ->
  (forall a b, derive a = derive b -> a = b) ->
  (forall n, (0 < n)%nat -> generation next s0 n <> s0) ->
  forall i j, i <> j -> derive (generation next s0 i) <> derive (generation next s0 j).
Proof. exact @keyupdate_epochs_distinct_l. Qed.

(* every byte of every alert/handshake message yielded was carried by a record of the key epoch in which the
   message is yielded: nothing received before a read-key change survives it ... *)
Theorem no_plaintext_survives_key_change : forall (steps : list dstep) ep waiting out,
  fold_left defrag_step steps (Some (O, [], [])) = Some (ep, waiting, out) ->
  Forall (fun b => snd b = ep) waiting /\
  Forall (fun m => Forall (fun b => snd b = fst m) (snd m)) out.
Proof. exact no_plaintext_survives_l. Qed.

(* ... because a key change with bytes waiting is refused *)
Theorem key_change_needs_empty_defragmenter : forall ep x waiting out,
  defrag_step (Some (ep, x :: waiting, out)) DKeyChange = None.
Proof. exact key_change_needs_empty_l. Qed.

(* ---- the early-data tolerance window (every version and protection path) ----------------------------------- *)
Theorem early_window_closes : forall (CS : Type) (c : Cfg) (P : Prim CS) (maxe : Z) (r r' : ESt CS) w x,
  unprotect_e c P maxe r w = ROk (r', Some x) -> es_ok r' = false /\ es_used r' = 0.
Proof. exact @early_window_closes_l. Qed.

Theorem closed_window_is_strict : forall (CS : Type) (c : Cfg) (P : Prim CS) (maxe : Z) (r : ESt CS) w,
  es_ok r = false ->
  unprotect_e c P maxe r w =
  match unprotect c P (es_st r) w with
  | ROk (s1, x) => ROk ({| es_st := s1; es_ok := false; es_used := 0 |}, Some x)
  | RErr e => RErr e
  end.
Proof. exact @closed_window_is_strict_l. Qed.

Theorem early_skip_bounded : forall (CS : Type) (c : Cfg) (P : Prim CS) (maxe : Z) (r r' : ESt CS) w,
  unprotect_e c P maxe r w = ROk (r', None) ->
  es_ok r = true /\ es_st r' = es_st r /\ es_ok r' = true /\
  es_used r' = es_used r + zlen (snd w) /\ es_used r' < maxe.
Proof. exact @early_skip_bounded_l. Qed.

(* once closed, a stream is processed strictly: the first record that does not verify ends it *)
Theorem closed_stream_is_strict : forall (CS : Type) (c : Cfg) (P : Prim CS) (maxe : Z) (ws : list Wire) (r : ESt CS),
  es_ok r = false ->
  fst (recv_stream_e c P maxe r ws) = fst (recv_stream_strict c P (es_st r) ws).
Proof. exact @closed_stream_is_strict_l. Qed.

(* ---- TLS 1.3 after the handshake (allow_plaintext_alert and _middlebox_compat_mode both cleared): every
   record whose outer type is not application_data ends in a fatal alert, adds nothing to the read buffer *)
Theorem no_unprotected_after_handshake : forall (CS : Type) (R : CS -> CS -> Prop) (cr cw : Cfg) (Pr Pw : Prim CS)
    (e : Endpoint CS) hty hver body,
  mode_ok Pr R MTls13 cr -> c_plain_alert cr = false -> hty <> 23 ->
  0 <= st_seq (e_rd e) < 18446744073709551616 ->
  exists d, snd (recv_step13 false cr cw Pr Pw e (hty, hver, body)) = OLocalAlert d /\
            e_closed (fst (recv_step13 false cr cw Pr Pw e (hty, hver, body))) = true /\
            e_rbuf (fst (recv_step13 false cr cw Pr Pw e (hty, hver, body))) = e_rbuf e.
Proof. exact @no_unprotected_after_handshake_l. Qed.

(* a rejected record closes the connection, invalidates the session and delivers nothing whether or not the
   fatal alert can be written to the transport (timeout, reset, any exception from send) *)
Theorem reject_closes_even_if_alert_unsendable : forall (CS : Type) (sendable : bool) (cr cw : Cfg) (Pr Pw : Prim CS)
    (e : Endpoint CS) (w : Wire) err,
  unprotect cr Pr (e_rd e) w = RErr err ->
  let e' := fst (recv_step_f sendable cr cw Pr Pw e w) in
  e_closed e' = true /\ e_resumable e' = false /\ e_rbuf e' = e_rbuf e /\
  (sendable = false -> e_sent e' = e_sent e).
Proof. exact @reject_closes_even_if_alert_unsendable_l. Qed.

(* ---- the hypotheses are satisfiable ------------------------------------------------------------------------ *)
Example aead_tight_satisfiable : aead_tight (toy_prim_aead [4; 5] 16).
Proof. exact (toy_aead_tight [4; 5] 16 ltac:(discriminate)). Qed.
Example cipher_onto_satisfiable : cipher_onto (toy_prim_stream [1; 2; 3] 20 64) eq 1.
Proof. exact (toy_stream_cipher_onto [1; 2; 3] 20 64). Qed.
Example cipher_onto_block_satisfiable : cipher_onto ex_prim_id eq 16.
Proof. exact (id_cipher_onto _ _ _ 16). Qed.
Example dec_bytes_satisfiable : dec_bytes ex_prim_id.
Proof. exact (id_dec_bytes _ _ _). Qed.
(* the _ideal hypotheses: only by "transparent" primitives (output contains the input) *)
Example mac_injective_ideal_satisfiable : mac_injective_ideal (transparent_prim 1).
Proof. exact (transparent_mac_injective 1). Qed.
Example mac_disjoint_ideal_satisfiable : mac_disjoint_ideal (transparent_prim 1) (transparent_prim 2).
Proof. exact (transparent_mac_disjoint 1 2 ltac:(discriminate)). Qed.
Example seal_injective_ideal_satisfiable : seal_injective_ideal (transparent_prim 1).
Proof. exact (transparent_seal_injective 1). Qed.
Example seal_disjoint_ideal_satisfiable : seal_disjoint_ideal (transparent_prim 1) (transparent_prim 2).
Proof. exact (transparent_seal_disjoint 1 2 ltac:(discriminate)). Qed.
