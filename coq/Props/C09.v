(* Property C09 -- statements only; proofs live in Proofs/.  *)
From Coq Require Import ZArith List Bool String.
From TV Require Import Base.Prelude Base.C09_Lib
  Gen.C09_Poly1305 Gen.C09_ChaCha Gen.C09_ChaChaPoly
  Spec.C09_Poly1305 Spec.C09_ChaCha Spec.C09_ChaChaPoly
  Base.C09_Oracle Gen.C09_KDF Model.C09_KeyCalc Spec.C09_KDF Spec.C09_KeyCalc
  Proofs.C09_Bits32 Proofs.C09_Poly1305 Proofs.C09_ChaCha Proofs.C09_ChaChaPoly Proofs.C09_KDF Proofs.C09_KeyCalc
  Gen.C09_RC4 Gen.C09_AesModes Spec.C09_Modes Proofs.C09_Modes Gen.C09_GCM Proofs.C09_GCM Proofs.C09_CBC Proofs.C09_CTR Spec.C09_AEAD Proofs.C09_GF128
  Toy.C09_ToyOracle.
Import ListNotations.
Open Scope list_scope.
Open Scope Z_scope.

(* ---- (a) Poly1305 -------------------------------------------------------------- *)
(* Poly1305(key).create_tag(msg), as regenerated from tlslite/utils/poly1305.py, is the RFC 8439
   tag  ((sum_i c_i r^(q-i+1) mod 2^130-5) + s) mod 2^128  for messages of ANY length; a key that
   is not 32 bytes long is refused with ValueError *)
Theorem poly1305_eq_spec : forall key msg,
  (zlen key = 32 ->
     (p <- poly_init key ;; r <- poly_create_tag p msg ;; Ok (snd r)) = Ok (poly1305 key msg)) /\
  (zlen key <> 32 ->
     (p <- poly_init key ;; r <- poly_create_tag p msg ;; Ok (snd r)) = Err ValueError).
Proof. exact poly1305_eq_spec_all. Qed.

Example poly1305_rfc_vector :
  poly1305 [0x85;0xd6;0xbe;0x78;0x57;0x55;0x6d;0x33;0x7f;0x44;0x52;0xfe;0x42;0xd5;0x06;0xa8;
            0x01;0x03;0x80;0x8a;0xfb;0x0d;0xb2;0xfd;0x4a;0xbf;0xf6;0xaf;0x41;0x49;0xf5;0x1b]
           [67;114;121;112;116;111;103;114;97;112;104;105;99;32;70;111;114;117;109;32;82;101;115;101;97;114;99;104;32;71;114;111;117;112]
  = [0xa8;0x06;0x1d;0xc1;0x30;0x51;0x36;0xc6;0xc2;0x2b;0x8b;0xaf;0x0c;0x01;0x27;0xa9].
Proof. vm_compute. reflexivity. Qed.

(* ---- (b) ChaCha20 -------------------------------------------------------------- *)
(* the mask-and-shift expression used for every rotation is the 32-bit left rotation, on the whole
   unsigned 32-bit range *)
Theorem chacha_rot_eq_spec : forall x n, u32 x -> 0 < n < 32 ->
  Z.lor (Z.land (Z.shiftl x n) 4294967295) (Z.shiftr x (32 - n)) = rotl32 x n.
Proof. exact rot_mask_shift. Qed.

(* quarter_round on a state of 16 32-bit words = RFC 8439 2.1/2.2 QUARTERROUND *)
Theorem chacha_qr_eq_spec : forall st a b c d, st_ok st ->
  0 <= a < 16 -> 0 <= b < 16 -> 0 <= c < 16 -> 0 <= d < 16 ->
  cha_quarter_round st a b c d = Ok (quarterround st (Z.to_nat a) (Z.to_nat b) (Z.to_nat c) (Z.to_nat d))
  /\ st_ok (quarterround st (Z.to_nat a) (Z.to_nat b) (Z.to_nat c) (Z.to_nat d)).
Proof. exact cha_quarter_round_ok. Qed.

(* double_round (the unrolled copy used by chacha_block) = RFC 8439 2.3 inner_block *)
Theorem chacha_double_round_eq_spec : forall st, st_ok st ->
  cha_double_round st = Ok (inner_block st) /\ st_ok (inner_block st).
Proof. exact cha_double_round_ok. Qed.

(* chacha_block + word_to_bytearray = RFC 8439 2.3 chacha20_block, for every 32-byte key, 12-byte
   nonce and 32-bit counter *)
Theorem chacha_block_eq_spec : forall key counter nonce,
  zlen key = 32 -> all_bytes key = true -> zlen nonce = 12 -> all_bytes nonce = true -> u32 counter ->
  (ws <- cha_chacha_block (words_le key) counter (words_le nonce) 20 ;; cha_word_to_bytearray ws)
  = Ok (chacha20_block key counter nonce).
Proof. exact cha_block_bytes_ok. Qed.

(* ChaCha(key, nonce, counter).encrypt(pt) = pt XOR key stream of blocks counter, counter+1, ...
   (RFC 8439 2.4), any length incl. a partial last block, as long as the block counter stays
   within 32 bits *)
Theorem chacha_stream_eq_spec : forall key nonce counter pt,
  zlen key = 32 -> all_bytes key = true -> zlen nonce = 12 -> all_bytes nonce = true ->
  0 <= counter -> counter + (zlen pt + 63) / 64 <= 4294967296 -> all_bytes pt = true ->
  (c <- cha_init key nonce counter 20 ;; cha_encrypt c pt) = Ok (chacha20_encrypt key counter nonce pt) /\
  (c <- cha_init key nonce counter 20 ;; cha_decrypt c pt) = Ok (chacha20_encrypt key counter nonce pt).
Proof. exact chacha_stream_all. Qed.

Theorem chacha_init_rejects : forall key nonce counter rounds,
  (zlen key <> 32 \/ zlen nonce <> 12) -> cha_init key nonce counter rounds = Err ValueError.
Proof. exact cha_init_bad. Qed.

Theorem chacha_decrypt_encrypt : forall key counter nonce pt,
  zlen key = 32 -> all_bytes key = true -> zlen nonce = 12 -> all_bytes nonce = true ->
  chacha20_encrypt key counter nonce (chacha20_encrypt key counter nonce pt) = pt.
Proof. exact chacha20_decrypt_encrypt. Qed.

(* ---- (c) ChaCha20-Poly1305 ----------------------------------------------------- *)
(* seal = RFC 8439 2.8: one-time key from block 0, ciphertext from counter 1, tag over
   aad | pad16 | ct | pad16 | len(aad) LE64 | len(ct) LE64 *)
Theorem chachapoly_seal_eq_spec : forall key nonce pt aad,
  key_ok key nonce -> all_bytes pt = true -> len_ok pt -> zlen aad < 2 ^ 64 ->
  cp_seal (mkChaChaPoly key) nonce pt aad = Ok (aead_seal key nonce pt aad).
Proof. exact cp_seal_ok. Qed.

Theorem chachapoly_open_eq_spec : forall key nonce c aad,
  key_ok key nonce -> all_bytes c = true -> len_ok c -> zlen aad < 2 ^ 64 ->
  cp_open (mkChaChaPoly key) nonce c aad = Ok (aead_open key nonce c aad).
Proof. exact cp_open_ok. Qed.

(* open returns p exactly for c = seal p: purely structural, no idealisation *)
Theorem chachapoly_open_iff_seal : forall key nonce c aad p,
  key_ok key nonce -> all_bytes c = true -> len_ok c -> all_bytes p = true -> len_ok p -> zlen aad < 2 ^ 64 ->
  (cp_open (mkChaChaPoly key) nonce c aad = Ok (Some p) <-> cp_seal (mkChaChaPoly key) nonce p aad = Ok c).
Proof. exact cp_open_iff_seal. Qed.

Theorem chachapoly_open_iff_seal_rfc : forall key nonce c aad p, key_ok key nonce ->
  (aead_open key nonce c aad = Some p <-> c = aead_seal key nonce p aad).
Proof. exact aead_open_iff_seal_spec. Qed.

Example chachapoly_hyps_satisfiable :
  key_ok (repeat 7 32) (repeat 9 12) /\ len_ok (repeat 1 100) /\ st_ok (repeat 5 16).
Proof. exact hyps_example. Qed.

(* ---- (d) key derivation ---------------------------------------------------------- *)
(* RFC 5869 2.3, FULL statement: wherever the RFC defines HKDF-Expand (0 <= L <= 255*HashLen, known hash) the code,
   as regenerated from tlslite/utils/cryptomath.py, returns exactly the RFC's OKM.  (Before the repair of /repo by
   "fix: HKDF_expand must not compute one block too many" this was refuted for 254*HashLen < L <= 255*HashLen.) *)
Theorem hkdf_expand_eq_rfc : forall Orc alg prk info L okm,
  hkdf_expand_rfc Orc alg prk info L = Some okm -> HKDF_expand Orc prk info L alg = Ok okm.
Proof. exact hkdf_expand_full. Qed.

(* and beyond the RFC's range it refuses *)
Theorem hkdf_expand_refuses_beyond_rfc : forall Orc alg prk info L hl,
  digest_size alg = Some hl -> 255 * hl < L ->
  hkdf_expand_rfc Orc alg prk info L = None /\ HKDF_expand Orc prk info L alg = Err ValueError.
Proof. exact hkdf_expand_beyond. Qed.

(* HKDF-Expand-Label (RFC 8446 7.1 HkdfLabel layout), Derive-Secret and the TLS 1.3 traffic keys (7.3): full *)
Theorem hkdf_expand_label_eq_rfc : forall Orc alg secret label context length okm,
  hkdf_expand_label_rfc Orc alg secret label context length = Some okm ->
  HKDF_expand_label Orc secret label context length alg = Ok okm.
Proof. exact hkdf_expand_label_full. Qed.

Theorem hkdf_expand_label_refuses_rest : forall Orc alg hl secret label context length,
  digest_size alg = Some hl ->
  hkdf_expand_label_rfc Orc alg secret label context length = None ->
  exists e, HKDF_expand_label Orc secret label context length alg = Err e.
Proof. exact hkdf_expand_label_refuses. Qed.

Theorem derive_secret_eq_rfc : forall Orc alg hl secret label messages okm,
  digest_size alg = Some hl ->
  derive_secret_rfc Orc alg secret label messages = Some okm ->
  derive_secret Orc secret label (Some messages) alg = Ok okm /\
  (messages = [] -> derive_secret Orc secret label None alg = Ok okm).
Proof. exact derive_secret_full. Qed.

Theorem tls13_traffic_keys_eq_rfc : forall Orc (sha384 : bool) secret keyLen k iv,
  traffic_keys_rfc Orc (if sha384 then "sha384" else "sha256")%string secret keyLen = Some (k, iv) ->
  tls13_traffic_keys Orc secret keyLen sha384 = Ok (k, iv).
Proof. exact tls13_traffic_keys_ok. Qed.

(* P_hash (RFC 5246 5) for every output length, any hash whose HMAC has the declared size *)
Theorem p_hash_eq_rfc : forall Orc alg secret seed ds len,
  digest_size alg = Some ds -> (forall msg, zlen (o_hmac Orc alg secret msg) = ds) -> 0 <= len ->
  P_hash Orc alg secret seed len = Ok (p_hash_rfc Orc alg ds secret seed len).
Proof. exact P_hash_ok. Qed.

(* TLS 1.0/1.1 PRF: halves of the secret share the middle byte for odd lengths; MD5 xor SHA-1 *)
Theorem prf_tls10_split : forall Orc, oracle_ok Orc -> forall secret label seed len, 0 <= len ->
  PRF Orc secret label seed len = Ok (prf10_rfc Orc secret label seed len).
Proof. exact PRF_ok. Qed.

Theorem prf_tls12_eq_rfc : forall Orc, oracle_ok Orc -> forall secret label seed len, 0 <= len ->
  PRF_1_2 Orc secret label seed len = Ok (prf12_rfc Orc "sha256" 32 secret label seed len) /\
  PRF_1_2_SHA384 Orc secret label seed len = Ok (prf12_rfc Orc "sha384" 48 secret label seed len).
Proof. exact PRF_12_both. Qed.

Theorem prf_ssl_eq_spec : forall Orc secret seed n, hash_ok Orc -> 0 <= n <= 416 ->
  PRF_SSL Orc secret seed n = Ok (prf_ssl_rfc Orc secret seed n).
Proof. exact PRF_SSL_ok. Qed.

(* calc_key: total on the table (4 versions x 2 PRF hashes x 5 labels, EMS undefined for SSLv3) and equal to
   the RFC 6101 / 2246 / 4346 / 5246 / 7627 definitions; everything else is refused *)
Theorem calc_key_dispatch : forall Orc version sha384 p secret messages cr sr n,
  oracle_ok Orc -> hash_ok Orc ->
  In version [(3, 0); (3, 1); (3, 2); (3, 3)] -> 0 <= n ->
  (version = (3, 0) -> p <> ExtMasterSecret /\ n <= 416) ->
  calc_key Orc version secret sha384 (purpose_label p) (Some messages) (Some cr) (Some sr) (Some n)
  = Ok (calc_key_rfc Orc version sha384 p secret messages cr sr n).
Proof. exact calc_key_dispatch_all. Qed.

Theorem calc_key_refuses_rest : forall Orc version secret sha384 label hh cr sr n,
  (~ In version [(3, 0); (3, 1); (3, 2); (3, 3)] \/
   (forall p, label <> purpose_label p) \/
   (version = (3, 0) /\ label = purpose_label ExtMasterSecret)) ->
  calc_key Orc version secret sha384 label hh cr sr n = Err AssertionError.
Proof. exact calc_key_rejects. Qed.

(* the six slices partition the key block in RFC 5246 6.3 order and swap with the role *)
Theorem key_block_slicing : forall kb m k i, 0 <= m -> 0 <= k -> 0 <= i -> 2 * m + 2 * k + 2 * i <= zlen kb ->
  exists s, slice_key_block kb m k i = Ok s /\
    [ks_client_mac s; ks_server_mac s; ks_client_key s; ks_server_key s; ks_client_iv s; ks_server_iv s]
      = key_block_partition kb (Z.to_nat m) (Z.to_nat k) (Z.to_nat i) /\
    ks_client_mac s ++ ks_server_mac s ++ ks_client_key s ++ ks_server_key s ++ ks_client_iv s ++ ks_server_iv s
      = firstn (Z.to_nat (2 * m + 2 * k + 2 * i)) kb /\
    zlen (ks_client_mac s) = m /\ zlen (ks_server_mac s) = m /\ zlen (ks_client_key s) = k /\
    zlen (ks_server_key s) = k /\ zlen (ks_client_iv s) = i /\ zlen (ks_server_iv s) = i.
Proof. exact slice_key_block_ok. Qed.

Theorem key_block_role_swap : forall s,
  pending_states true s = ((ks_client_mac s, ks_client_key s, ks_client_iv s), (ks_server_mac s, ks_server_key s, ks_server_iv s)) /\
  pending_states false s = (snd (pending_states true s), fst (pending_states true s)).
Proof. exact pending_states_swap. Qed.

Example kdf_oracle_hyps_satisfiable : oracle_ok toy_oracles /\ hash_ok toy_oracles.
Proof. exact toy_oracles_ok. Qed.

(* ---- (e) RC4, CBC, CTR ---------------------------------------------------------------- *)
(* Python_RC4(key) computes the standard key schedule; encrypt = XOR with the RC4 key stream, threading
   the generator state (S, i, j) *)
Theorem rc4_init_eq_spec : forall key, 16 <= zlen key <= 256 -> Forall (fun x => 0 <= x < 256) key ->
  rc4_init key = Ok (mkRC4 (rc4_ksa key) 0 0) /\ rc4_state_ok (rc4_ksa key, 0, 0).
Proof. exact rc4_init_ok. Qed.

Theorem rc4_encrypt_eq_spec : forall st pt,
  rc4_state_ok (rc4_S st, rc4_i st, rc4_j st) -> Forall (fun x => 0 <= x < 256) pt ->
  rc4_encrypt st pt =
  let '((S', i', j'), out) := rc4_crypt (rc4_S st, rc4_i st, rc4_j st) pt in Ok (mkRC4 S' i' j', out).
Proof. exact rc4_encrypt_ok. Qed.

(* enc (a ++ b) = enc a ++ enc' b with the state threaded through the object *)
Theorem rc4_stream_split : forall st a b, rc4_state_ok (rc4_S st, rc4_i st, rc4_j st) ->
  Forall (fun x => 0 <= x < 256) a -> Forall (fun x => 0 <= x < 256) b ->
  ('(st1, c1) <- rc4_encrypt st a ;; '(st2, c2) <- rc4_encrypt st1 b ;; Ok (st2, c1 ++ c2)) = rc4_encrypt st (a ++ b).
Proof. exact rc4_stream_split_code. Qed.

(* decrypt o encrypt = id for two objects in the same state, and they stay in the same state *)
Theorem rc4_decrypt_encrypt : forall st pt,
  rc4_state_ok (rc4_S st, rc4_i st, rc4_j st) -> Forall (fun x => 0 <= x < 256) pt ->
  exists st' ct, rc4_encrypt st pt = Ok (st', ct) /\ rc4_decrypt st ct = Ok (st', pt).
Proof. exact rc4_dec_enc_code. Qed.

(* CBC (SP 800-38A 6.2) over ANY block function E with left inverse D on bs-byte blocks.  These two are
   statements about Spec.C09_Modes.cbc_*_blocks; cbc_eq_spec below ties them to the generated Python_AES code,
   the correspondence ties them to Python_TripleDES *)
Theorem cbc_dec_enc : forall (E D : list Z -> list Z) (bs : nat), (0 < bs)%nat ->
  (forall b, List.length b = bs -> D (E b) = b) -> (forall b, List.length b = bs -> List.length (E b) = bs) ->
  forall blocks iv, blocks_ok bs blocks -> List.length iv = bs ->
    let '(iv1, ct) := cbc_enc_blocks E iv blocks in
    List.length ct = (bs * List.length blocks)%nat /\ List.length iv1 = bs /\
    cbc_dec_blocks D iv (chunks bs ct) = (iv1, List.concat blocks).
Proof. exact cbc_dec_enc_blocks. Qed.

(* IV residue across calls: encrypting b1 then b2 with the carried chaining value = encrypting b1 ++ b2 *)
Theorem cbc_stream_split : forall (E D : list Z -> list Z) b1 b2 iv,
  cbc_enc_blocks E iv (b1 ++ b2) =
    (let '(iv1, c1) := cbc_enc_blocks E iv b1 in let '(iv2, c2) := cbc_enc_blocks E iv1 b2 in (iv2, c1 ++ c2)) /\
  cbc_dec_blocks D iv (b1 ++ b2) =
    (let '(iv1, c1) := cbc_dec_blocks D iv b1 in let '(iv2, c2) := cbc_dec_blocks D iv1 b2 in (iv2, c1 ++ c2)).
Proof. exact cbc_split_both. Qed.

(* "multi-call streaming state for ... CTR", FULL statement: on one Python_AES_CTR object (counter filling the whole
   block: ctr_init with a 16-byte IV, the objects inside AES-GCM/CCM) enc(a) followed by enc(b) = enc(a ++ b), for ANY
   split offset, with the (counter, unused key stream) state threaded through the object; any block-cipher oracle.
   (Before /repo commit de57de0 "fix: Python_AES_CTR must keep unused key stream between calls" this was refuted for
   every split inside a block: the check carried ctr_stream_split_refuted with a vm_compute witness.) *)
Theorem ctr_stream_split : forall O key,
  (forall b, List.length (bo_enc O key b) = 16%nat) -> (forall k b, all_bytes (bo_enc O k b) = true) ->
  forall iv t0 ks a b, List.length t0 = 16%nat -> all_bytes ks = true -> all_bytes a = true -> all_bytes b = true ->
  ('(st1, c1) <- ctr_encrypt O (mkAESCTR key iv 0 t0 ks) a ;; '(st2, c2) <- ctr_encrypt O st1 b ;; Ok (st2, c1 ++ c2))
  = ctr_encrypt O (mkAESCTR key iv 0 t0 ks) (a ++ b).
Proof. exact ctr_stream_split_code. Qed.

(* assigning the `counter` property drops the unused key stream: AES-GCM and AES-CCM do this for every record, so a
   record never sees key stream left over from the previous one *)
Theorem ctr_set_counter_drops_keystream : forall O st c,
  ctr_set_counter O st c = mkAESCTR (ctr_rijndael st) (ctr_IV st) (ctr__counter_bytes st) c [].
Proof. exact ctr_set_counter_drops. Qed.

Example ctr_stream_split_example :
  ctr_two_calls toy_block_oracle [1;2;3;4;5;6;7;8;9;10;11;12;13;14;15;16] [10;20;30;40;50;60;70;80;90;100;110;120;130;140;150;160]
                [1; 2; 3; 4; 5] [6; 7; 8; 9; 10; 11; 12]
  = ctr_one_call toy_block_oracle [1;2;3;4;5;6;7;8;9;10;11;12;13;14;15;16] [10;20;30;40;50;60;70;80;90;100;110;120;130;140;150;160]
                [1; 2; 3; 4; 5] [6; 7; 8; 9; 10; 11; 12].
Proof. exact ctr_split_unaligned_example. Qed.

(* ---- (f) AES-GCM ------------------------------------------------------------------------- *)
(* two encryptions from the same counter state give the data back (generated Python_AES_CTR.encrypt, any
   block-cipher oracle that returns bytes): the basis of every AEAD round trip below *)
Theorem ctr_encrypt_involution : forall O, (forall k b, all_bytes (bo_enc O k b) = true) ->
  forall st m st1 c, all_bytes (ctr__keystream st) = true -> all_bytes m = true -> ctr_encrypt O st m = Ok (st1, c) ->
  ctr_encrypt O st c = Ok (st1, m) /\ zlen c = zlen m /\ all_bytes c = true.
Proof. exact ctr_involution. Qed.

(* AESGCM.open returns p exactly for the outputs of AESGCM.seal on p (same object, nonce, AAD): purely
   structural -- holds for every block-cipher oracle, nothing about GHASH or AES is assumed *)
Theorem gcm_open_iff_seal : forall O, (forall k b, all_bytes (bo_enc O k b) = true) ->
  forall g nonce c a p, all_bytes c = true -> all_bytes p = true ->
  (exists g1, gcm_open O g nonce c a = Ok (g1, Some p)) <-> (exists g2, gcm_seal O g nonce p a = Ok (g2, c)).
Proof. exact gcm_open_iff_seal_code. Qed.

(* the generated Python_AES (CBC) wrapper = SP 800-38A CBC over the block oracle, incl. the IV left in the object for the
   next call; lengths that are not a multiple of 16 are refused *)
Theorem cbc_eq_spec : forall O key iv data,
  (forall b, List.length b = 16%nat -> List.length (bo_enc O key b) = 16%nat /\ all_bytes (bo_enc O key b) = true) ->
  (forall b, List.length b = 16%nat -> List.length (bo_dec O key b) = 16%nat /\ all_bytes (bo_dec O key b) = true) ->
  blk_ok iv -> all_bytes data = true -> zlen data mod 16 = 0 ->
  cbc_encrypt O (mkAESCBC key iv) data =
    (let '(iv', ct) := cbc_encrypt_spec (bo_enc O key) 16 iv data in Ok (mkAESCBC key iv', ct)) /\
  cbc_decrypt O (mkAESCBC key iv) data =
    (let '(iv', pt) := cbc_decrypt_spec (bo_dec O key) 16 iv data in Ok (mkAESCBC key iv', pt)).
Proof. exact cbc_both_ok. Qed.

Theorem cbc_refuses_partial_blocks : forall O st data, zlen data mod 16 <> 0 ->
  cbc_encrypt O st data = Err AssertionError /\ cbc_decrypt O st data = Err AssertionError.
Proof. exact cbc_bad_length. Qed.

(* one call of the generated Python_AES_CTR.encrypt on an object whose 16-byte counter block has just been set (how
   AES-GCM and AES-CCM use it, and ctr_init with a 16-byte IV) = SP 800-38A 6.5 CTR with the standard incrementing
   function; the object keeps the next counter block.  (Objects created with a shorter IV additionally raise OverflowError
   when the counter part becomes all ones: not covered.) *)
Theorem ctr_eq_spec : forall O key,
  (forall b, List.length (bo_enc O key b) = 16%nat) -> (forall k b, all_bytes (bo_enc O k b) = true) ->
  forall iv t0 m, List.length t0 = 16%nat -> all_bytes m = true ->
  ctr_encrypt O (mkAESCTR key iv 0 t0 []) m =
  Ok (mkAESCTR key iv 0 (Nat.iter (Z.to_nat ((zlen m + 15) / 16)) ctr_inc t0)
               (skipn (List.length m) (ctr_blocks (bo_enc O key) t0 (Z.to_nat ((zlen m + 15) / 16)))),
      ctr_crypt_spec (bo_enc O key) 16 t0 m).
Proof. exact ctr_encrypt_ok. Qed.

(* gcm_mul_eq_gf128: for every object produced by AESGCM.__init__ (any key, any block-cipher oracle returning a
   16-byte block for the zero block) the 4-bit table multiply _mul(y) is the SP 800-38D 6.3 product y . H in GF(2^128),
   H = AES_K(0^128), for every 128-bit y.  Ingredients proved in Proofs/C09_GF128.v: multiplication by x is XOR-linear,
   the 16-entry reduction table step = multiplication by x^4 (16 cases by vm_compute + linearity), the 16-entry product
   table built by __init__ (symbolic evaluation) holds the products of the 4-bit polynomials with H. *)
Theorem gcm_mul_eq_gf128 : forall O key impl raw g y,
  (List.length (bo_enc O key (repeat 0 16)) = 16%nat /\ all_bytes (bo_enc O key (repeat 0 16)) = true) ->
  gcm_init O key impl raw = Ok g -> 0 <= y < 2 ^ 128 ->
  gcm_mul O g y = Ok (gf128_mul y (be_num (bo_enc O key (repeat 0 16)))).
Proof. exact gcm_mul_eq_gf128_code. Qed.
