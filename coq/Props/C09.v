(* Property C09 -- statements only; proofs live in Proofs/.  *)
From Coq Require Import ZArith List Bool.
From TV Require Import Base.Prelude Base.C09_Lib
  Gen.C09_Poly1305 Gen.C09_ChaCha Gen.C09_ChaChaPoly
  Spec.C09_Poly1305 Spec.C09_ChaCha Spec.C09_ChaChaPoly
  Proofs.C09_Bits32 Proofs.C09_Poly1305 Proofs.C09_ChaCha Proofs.C09_ChaChaPoly.
Import ListNotations.
Open Scope Z_scope.

(* ---- (a) Poly1305 -------------------------------------------------------------- *)
(* Poly1305(key).create_tag(msg), as regenerated from tlslite/utils/poly1305.py, is the RFC 8439
   tag  ((sum_i c_i r^(q-i+1) mod 2^130-5) + s) mod 2^128  for messages of ANY length; a key that
   is not 32 bytes long is refused with ValueError *)
Theorem poly1305_eq_spec : forall key msg,
  (zlen key = 32 ->
     (p <- poly_init key ;; r <- poly_create_tag p msg ;; Ok (snd r)) = Ok (poly1305 key msg)) /\
  (zlen key <> 32 ->
     (p <- poly_init key ;; r <- poly_create_tag p msg ;; Ok (snd r)) = Err ValueError).
Proof. exact poly1305_eq_spec_all. Qed.

Example poly1305_rfc_vector :
  poly1305 [0x85;0xd6;0xbe;0x78;0x57;0x55;0x6d;0x33;0x7f;0x44;0x52;0xfe;0x42;0xd5;0x06;0xa8;
            0x01;0x03;0x80;0x8a;0xfb;0x0d;0xb2;0xfd;0x4a;0xbf;0xf6;0xaf;0x41;0x49;0xf5;0x1b]
           [67;114;121;112;116;111;103;114;97;112;104;105;99;32;70;111;114;117;109;32;82;101;115;101;97;114;99;104;32;71;114;111;117;112]
  = [0xa8;0x06;0x1d;0xc1;0x30;0x51;0x36;0xc6;0xc2;0x2b;0x8b;0xaf;0x0c;0x01;0x27;0xa9].
Proof. vm_compute. reflexivity. Qed.

(* ---- (b) ChaCha20 -------------------------------------------------------------- *)
(* the mask-and-shift expression used for every rotation is the 32-bit left rotation, on the whole
   unsigned 32-bit range *)
Theorem chacha_rot_eq_spec : forall x n, u32 x -> 0 < n < 32 ->
  Z.lor (Z.land (Z.shiftl x n) 4294967295) (Z.shiftr x (32 - n)) = rotl32 x n.
Proof. exact rot_mask_shift. Qed.

(* quarter_round on a state of 16 32-bit words = RFC 8439 2.1/2.2 QUARTERROUND *)
Theorem chacha_qr_eq_spec : forall st a b c d, st_ok st ->
  0 <= a < 16 -> 0 <= b < 16 -> 0 <= c < 16 -> 0 <= d < 16 ->
  cha_quarter_round st a b c d = Ok (quarterround st (Z.to_nat a) (Z.to_nat b) (Z.to_nat c) (Z.to_nat d))
  /\ st_ok (quarterround st (Z.to_nat a) (Z.to_nat b) (Z.to_nat c) (Z.to_nat d)).
Proof. exact cha_quarter_round_ok. Qed.

(* double_round (the unrolled copy used by chacha_block) = RFC 8439 2.3 inner_block *)
Theorem chacha_double_round_eq_spec : forall st, st_ok st ->
  cha_double_round st = Ok (inner_block st) /\ st_ok (inner_block st).
Proof. exact cha_double_round_ok. Qed.

(* chacha_block + word_to_bytearray = RFC 8439 2.3 chacha20_block, for every 32-byte key, 12-byte
   nonce and 32-bit counter *)
Theorem chacha_block_eq_spec : forall key counter nonce,
  zlen key = 32 -> all_bytes key = true -> zlen nonce = 12 -> all_bytes nonce = true -> u32 counter ->
  (ws <- cha_chacha_block (words_le key) counter (words_le nonce) 20 ;; cha_word_to_bytearray ws)
  = Ok (chacha20_block key counter nonce).
Proof. exact cha_block_bytes_ok. Qed.

(* ChaCha(key, nonce, counter).encrypt(pt) = pt XOR key stream of blocks counter, counter+1, ...
   (RFC 8439 2.4), any length incl. a partial last block, as long as the block counter stays
   within 32 bits *)
Theorem chacha_stream_eq_spec : forall key nonce counter pt,
  zlen key = 32 -> all_bytes key = true -> zlen nonce = 12 -> all_bytes nonce = true ->
  0 <= counter -> counter + (zlen pt + 63) / 64 <= 4294967296 -> all_bytes pt = true ->
  (c <- cha_init key nonce counter 20 ;; cha_encrypt c pt) = Ok (chacha20_encrypt key counter nonce pt) /\
  (c <- cha_init key nonce counter 20 ;; cha_decrypt c pt) = Ok (chacha20_encrypt key counter nonce pt).
Proof. exact chacha_stream_all. Qed.

Theorem chacha_init_rejects : forall key nonce counter rounds,
  (zlen key <> 32 \/ zlen nonce <> 12) -> cha_init key nonce counter rounds = Err ValueError.
Proof. exact cha_init_bad. Qed.

Theorem chacha_decrypt_encrypt : forall key counter nonce pt,
  zlen key = 32 -> all_bytes key = true -> zlen nonce = 12 -> all_bytes nonce = true ->
  chacha20_encrypt key counter nonce (chacha20_encrypt key counter nonce pt) = pt.
Proof. exact chacha20_decrypt_encrypt. Qed.

(* ---- (c) ChaCha20-Poly1305 ----------------------------------------------------- *)
(* seal = RFC 8439 2.8: one-time key from block 0, ciphertext from counter 1, tag over
   aad | pad16 | ct | pad16 | len(aad) LE64 | len(ct) LE64 *)
Theorem chachapoly_seal_eq_spec : forall key nonce pt aad,
  key_ok key nonce -> all_bytes pt = true -> len_ok pt -> zlen aad < 2 ^ 64 ->
  cp_seal (mkChaChaPoly key) nonce pt aad = Ok (aead_seal key nonce pt aad).
Proof. exact cp_seal_ok. Qed.

Theorem chachapoly_open_eq_spec : forall key nonce c aad,
  key_ok key nonce -> all_bytes c = true -> len_ok c -> zlen aad < 2 ^ 64 ->
  cp_open (mkChaChaPoly key) nonce c aad = Ok (aead_open key nonce c aad).
Proof. exact cp_open_ok. Qed.

(* open returns p exactly for c = seal p: purely structural, no idealisation *)
Theorem chachapoly_open_iff_seal : forall key nonce c aad p,
  key_ok key nonce -> all_bytes c = true -> len_ok c -> all_bytes p = true -> len_ok p -> zlen aad < 2 ^ 64 ->
  (cp_open (mkChaChaPoly key) nonce c aad = Ok (Some p) <-> cp_seal (mkChaChaPoly key) nonce p aad = Ok c).
Proof. exact cp_open_iff_seal. Qed.

Theorem chachapoly_open_iff_seal_rfc : forall key nonce c aad p, key_ok key nonce ->
  (aead_open key nonce c aad = Some p <-> c = aead_seal key nonce p aad).
Proof. exact aead_open_iff_seal_spec. Qed.

Example chachapoly_hyps_satisfiable :
  key_ok (repeat 7 32) (repeat 9 12) /\ len_ok (repeat 1 100) /\ st_ok (repeat 5 16).
Proof. exact hyps_example. Qed.
