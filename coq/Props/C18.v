(* Property C18 -- statements only; proofs live in Proofs/C18_*.v. *)
From Coq Require Import ZArith List Bool String.
From TV Require Import Base.Prelude Base.C18_Lib
     Model.C18_Cache Spec.C18_CacheSpec Model.C18_Conc Model.C18_LockSteps Model.C18_Rsa Gen.Locks
     Proofs.C18_Cache Proofs.C18_CacheWit Proofs.C18_Conc Proofs.C18_Locks Proofs.C18_Rsa Proofs.C18_Lin Proofs.C18_LinEx Proofs.C18_LinSpec.
Import ListNotations.
Open Scope Z_scope.

(* ======== sequential cache ================================================== *)
(* For EVERY history with a monotone clock (repeated IDs included), every maxEntries >= 1 and every
   maxAge: the cache answers exactly as the abstract log specification ("the session last stored
   under the ID iff younger than maxAge, still valid, and fewer than maxEntries-1 stores happened
   after it"), holds at most maxEntries-1 entries, and raises nothing but the documented KeyError
   of a failed lookup.
   History of these statements: before tlslite-ng commit 7684882 ("SessionCache must not drop a
   live entry when a session ID is stored twice") they were provable only for pairwise distinct
   stored IDs (cache_*_partial) and refuted in general (cache_*_refuted, witnesses dup_history and
   leak_history, now regression cases in Proofs/C18_CacheWit.v). *)
Theorem cache_refines_spec : forall n maxAge h,
  1 <= n -> monotone h -> outcomes n maxAge h = spec_outcomes n maxAge h.
Proof. exact cache_refines_spec_all. Qed.

Theorem cache_size_bound : forall n maxAge h,
  1 <= n -> monotone h -> zlen (c_dict (final_cache n maxAge h)) <= n - 1.
Proof. exact cache_size_bound_all. Qed.

Theorem cache_no_internal_error : forall n maxAge h,
  1 <= n -> monotone h -> all_documented h (outcomes n maxAge h) = true.
Proof. exact cache_no_internal_error_all. Qed.

(* the invariant _purge's early exit relies on: live slots carry non-decreasing timestamps *)
Theorem cache_timestamps_sorted : forall n maxAge h,
  1 <= n -> monotone h -> live_slots_sorted (final_cache n maxAge h).
Proof. exact cache_timestamps_sorted_all. Qed.

(* Residue: the guard 1 <= maxEntries cannot be dropped.  SessionCache(0) (accepted by the
   constructor) raises IndexError from every store after having inserted into the dict. *)
Theorem cache_zero_capacity_refuted : exists maxAge h,
  monotone h /\ all_documented h (outcomes 0 maxAge h) = false /\
  0 - 1 < zlen (c_dict (final_cache 0 maxAge h)).
Proof. exact zero_capacity_refuted. Qed.

(* the former refutation witnesses now satisfy the specification *)
Example former_witnesses_ok :
  outcomes 3 100 dup_history = spec_outcomes 3 100 dup_history /\
  zlen (c_dict (final_cache 2 100 leak_history)) = 1.
Proof. split; vm_compute; reflexivity. Qed.

(* a history meeting the hypotheses that exercises eviction, expiry and invalidation *)
Definition example_history : history :=
  [(0, Put 1 10); (1, Put 2 11); (2, Get 1); (2, Put 3 12); (3, Get 1); (3, SetValid 12 false);
   (4, Get 3); (4, SetValid 12 true); (5, Get 3); (8, Get 2); (8, Purge); (9, Put 4 13);
   (9, Put 4 14); (10, Get 4); (10, Put 5 15); (11, Get 4); (20, Get 4)].
Example example_history_ok :
  monotone example_history /\
  outcomes 3 6 example_history =
  [ORet None; ORet None; ORet (Some 10); ORet None; OExc KeyError; ORet None;
   OExc KeyError; ORet None; ORet (Some 12); OExc KeyError; ORet None; ORet None;
   ORet None; ORet (Some 14); ORet None; ORet (Some 14); OExc KeyError].
Proof. split; [cbn; repeat split; discriminate|vm_compute; reflexivity]. Qed.

(* ======== concurrency: generic ============================================== *)
(* Any number of threads, any programs that touch shared variables only between acquire and
   release of the one lock, any schedule (any number of pre-emptions, any length): if the
   schedule runs all threads to completion, the final shared store and every thread's final
   local state are those of a sequential execution of whole operations in some order. *)
Theorem well_locked_serializable : forall (Lo V : Type) (c cf : config Lo V) (sched : list nat),
  g_lock c = None ->
  (forall t, In t (g_threads c) -> well_locked (t_prog t) = true) ->
  run_sched c sched = Some cf -> terminal cf ->
  exists order, serial order (g_store c, g_threads c) = (g_store cf, g_threads cf).
Proof. exact serializable_all. Qed.

(* ... and no schedule can get stuck before every thread has finished *)
Theorem well_locked_no_deadlock : forall (Lo V : Type) (c c' : config Lo V) (sched : list nat),
  g_lock c = None ->
  (forall t, In t (g_threads c) -> well_locked (t_prog t) = true) ->
  run_sched c sched = Some c' ->
  (exists t, In t (g_threads c') /\ t_prog t <> []) ->
  exists i c'', fire c' i = Some c''.
Proof. exact no_deadlock_all. Qed.

(* the discipline depends only on the shape of the steps, which is what the extractor sees *)
Theorem well_locked_by_shape : forall (Lo V : Type) (p : list (step Lo V)),
  well_locked p = well_locked_shape (map (@shape_of Lo V) p).
Proof. exact well_locked_by_shape_all. Qed.

(* ======== the lock discipline of the code, on the lists extracted from /repo ===== *)
(* Every public/dunder instance method of SessionCache, VerifierDB(BaseDB) and Python_RSAKey(RSAKey)
   -- discovered from the class bodies, see extracted_methods_complete -- and every path through it:
   every access to an attribute that any of these methods writes is inside the class's single lock,
   and each path has at most one critical section.  The only assignment outside a lock that is
   tolerated is an idempotent initialisation (XInit with immutable dependencies: RSAKey.decrypt's
   `self._key_hash = secureHash(d)`); anything else -- a memo, a cached buffer, a statistics counter --
   is an XWrite and breaks this theorem; an attribute no __init__ creates makes the extractor refuse. *)
Theorem extracted_lock_discipline : all_methods_ok all_methods = true.
Proof. exact extracted_methods_ok. Qed.
(* (Before commit d3942bb, "BaseDB.keys() must copy the key view while holding the lock", this was
   refuted by VerifierDB.keys and held for the other eight methods only.) *)

(* every clock read (time.time()) of the analysed methods is inside the critical section, and a
   SessionCache call reads the clock exactly once: the timestamp is taken at the linearization point,
   which is what makes the timestamps non-decreasing along the list (cache_timestamps_sorted) and
   is an assumption of the sequential model that cache_linearizable builds on *)
Theorem extracted_clock_reads_locked :
  forallb (fun m : xmethod => let '(_, _, p) := m in clock_locked false p) all_methods = true /\
  count_clock SessionCache_getitem = 1%nat /\ count_clock SessionCache_setitem = 1%nat.
Proof. exact extracted_clock_facts. Qed.

(* no write to any attribute of self (known or new, binding or contents) outside the lock *)
Theorem extracted_writes_under_lock :
  forallb (fun m : xmethod => let '(_, _, p) := m in writes_locked false p) all_methods = true.
Proof. exact extracted_writes_locked. Qed.

Theorem extracted_methods_complete :
  map (fun e : string * string * list (list xstep) => let '(c, n, _) := e in (c, n)) all_method_paths =
  [("SessionCache", "__getitem__"); ("SessionCache", "__setitem__");
   ("VerifierDB", "__setitem__"); ("VerifierDB", "__getitem__"); ("VerifierDB", "__delitem__");
   ("VerifierDB", "__contains__"); ("VerifierDB", "check"); ("VerifierDB", "keys");
   ("Python_RSAKey", "_rawPrivateKeyOp"); ("Python_RSAKey", "hasPrivateKey");
   ("Python_RSAKey", "acceptsPassword"); ("Python_RSAKey", "__len__"); ("Python_RSAKey", "hashAndSign");
   ("Python_RSAKey", "hashAndVerify"); ("Python_RSAKey", "MGF1"); ("Python_RSAKey", "EMSA_PSS_encode");
   ("Python_RSAKey", "RSASSA_PSS_sign"); ("Python_RSAKey", "EMSA_PSS_verify");
   ("Python_RSAKey", "RSASSA_PSS_verify"); ("Python_RSAKey", "sign"); ("Python_RSAKey", "verify");
   ("Python_RSAKey", "encrypt"); ("Python_RSAKey", "decrypt")]%string.
Proof. exact extracted_methods_present. Qed.

(* ======== from steps to whole calls ============================================= *)
(* Object-level serializability.  `sem` is ANY small-step reading of the method bodies; all
   that is asked of it is (1) lock discipline and a single critical section per call (decided
   on shapes), (2) a call executed alone does what the sequential model `mstep` says.  Then
   any number of concurrent calls, under any schedule, leave the object in the state and
   return the results that the sequential model yields for some order of the calls, and
   every call has returned. *)
Theorem object_serializable : forall (Lo V W Call R : Type) (mstep : W -> Call -> W * R)
    (sem : Call -> list (step Lo V)) (absS : store V -> W) (res : Lo -> option R) (lo0 : Lo)
    (calls : list Call),
  (forall call, In call calls -> well_locked (sem call) = true) ->
  (forall call, In call calls -> (count_acq (sem call) <= 1)%nat) ->
  (forall call, In call calls -> sem call <> []) ->
  (forall call st, In call calls ->
     absS (fst (run_all st lo0 (sem call))) = fst (mstep (absS st) call) /\
     res (snd (run_all st lo0 (sem call))) = Some (snd (mstep (absS st) call))) ->
  forall st0 sched cf,
  run_sched (lin_config Lo V Call sem lo0 calls st0) sched = Some cf -> terminal cf ->
  exists order,
    absS (g_store cf) = fst (mserial W Call R mstep calls order (absS st0, map (fun _ => None) calls)) /\
    map (fun t => res (t_lo t)) (g_threads cf) =
      snd (mserial W Call R mstep calls order (absS st0, map (fun _ => None) calls)) /\
    Forall (fun r => r <> None) (snd (mserial W Call R mstep calls order (absS st0, map (fun _ => None) calls))).
Proof. exact object_serializable_all. Qed.

(* SessionCache.  Hypothesis 1: the access pattern of `sem` is the one extracted from /repo
   (Gen/Locks.v) -- this includes the clock read (XClock, a shared read) INSIDE the critical section.
   Hypothesis 2: run alone, a call does what Model.C18_Cache.apply does with the clock value read
   at that point (cache_mstep: clock = previous reading + a per-call advance).  Together they say
   "the timestamp is taken at the linearization point"; hence along any sequential order the clock
   values are non-decreasing (serial_calls_refine_spec: the history is monotone) and the list stays
   ordered in time (cache_timestamps_sorted).  If the code read the clock before acquiring the lock,
   hypothesis 1 would fail on the extracted list (extracted_lock_discipline breaks) -- the seeded
   change "build the list element before taking the lock" is exactly that.
   The access pattern is the one extracted from /repo (Gen/Locks.v), the
   sequential behaviour of a call is Model.C18_Cache.apply at the clock value the call reads
   inside its critical section (clock = previous reading + a per-call advance).  Every
   interleaving of any number of __getitem__/__setitem__ calls equals the sequential model
   for some order of the calls.  (With advances >= 0 that sequential run is covered by
   serial_calls_refine_spec / cache_refines_spec.) *)
Theorem cache_linearizable : forall (Lo V : Type) (sem : ccall -> list (step Lo V))
    (absS : store V -> world * Z) (res : Lo -> option outcome) (lo0 : Lo) (calls : list ccall),
  (forall call, In call calls -> cache_method (fst call) = Some (map (@shape_of Lo V) (sem call))) ->
  (forall call st, In call calls ->
     absS (fst (run_all st lo0 (sem call))) = fst (cache_mstep (absS st) call) /\
     res (snd (run_all st lo0 (sem call))) = Some (snd (cache_mstep (absS st) call))) ->
  forall st0 sched cf,
  run_sched (lin_config Lo V ccall sem lo0 calls st0) sched = Some cf -> terminal cf ->
  exists order,
    let m := mserial (world * Z) ccall outcome cache_mstep calls order (absS st0, map (fun _ => None) calls) in
    absS (g_store cf) = fst m /\
    map (fun t => res (t_lo t)) (g_threads cf) = snd m /\
    Forall (fun r => r <> None) (snd m).
Proof. exact cache_linearizable_all. Qed.

(* ... and what that sequential run returns: calls executed one after the other (`mfold`, each
   reading a clock that never goes back) return exactly the outcomes of the abstract
   specification for the history they form. *)
Theorem serial_calls_refine_spec : forall n maxAge t0 (cs : list ccall),
  1 <= n -> Forall (fun c : ccall => 0 <= snd c) cs ->
  snd (mfold (init_world n maxAge, t0) cs) = spec_outcomes n maxAge (hist_of t0 cs) /\
  monotone (hist_of t0 cs).
Proof. exact serial_calls_refine_spec_all. Qed.

(* the two hypotheses are satisfiable for every list of get/put calls: a step program with exactly
   the extracted shapes whose sequential effect is the model (Proofs/C18_LinEx.v) *)
Example cache_linearizable_hypotheses_instance : forall calls : list ccall,
  Forall (fun c => match fst c with Get _ | Put _ _ => True | _ => False end) calls ->
  (forall call, In call calls -> cache_method (fst call) = Some (map (@shape_of exLo exV) (ex_sem call))) /\
  (forall call st, In call calls ->
     ex_abs (fst (run_all st None (ex_sem call))) = fst (cache_mstep (ex_abs st) call) /\
     (fun lo : exLo => lo) (snd (run_all st None (ex_sem call))) = Some (snd (cache_mstep (ex_abs st) call))).
Proof. exact cache_linearizable_hypotheses_hold. Qed.

(* ======== RSA blinding ======================================================== *)
Theorem blinding_invariant : forall n e b u, 1 < n ->
  binv n e b u -> binv n e ((b * b) mod n) ((u * u) mod n).
Proof. exact blinding_invariant_all. Qed.

(* the hand-written step program performs the lock operations and the accesses to
   blinder/unblinder in exactly the order extracted from /repo *)
Theorem rsa_trace_tie : forall n e invmod helper,
  xsteps_eqb (rsa_trace (rsa_prog n e invmod helper))
             (racy_trace (written "Python_RSAKey" all_methods) Python_RSAKey_rawPrivateKeyOp) = true.
Proof. exact rsa_trace_tie_holds. Qed.

(* Any number of concurrent calls of _rawPrivateKeyOp on one key, any schedule: every call
   returns m^d mod n and the pair is left valid.  Hypotheses: the key works (H-rsa-key) and the
   random unblinder a first pass draws is invertible mod n. *)
Theorem concurrent_private_ops_correct : forall n e d invmod helper,
  1 < n -> 0 <= e -> 0 <= d ->
  (forall x, 0 <= x < n -> helper x = (x ^ d) mod n) ->
  (forall x, (x ^ (e * d)) mod n = x mod n) ->
  forall calls b0 u0 sched cf,
  (b0 = 0 \/ binv n e b0 u0) ->
  (forall mr, In mr calls -> unit_ok n invmod (snd mr)) ->
  run_sched (rsa_config n e invmod helper b0 u0 calls) sched = Some cf -> terminal cf ->
  Forall2 (fun mr t => l_c (t_lo t) = (fst mr ^ d) mod n) calls (g_threads cf) /\
  pair_ok n e (g_store cf).
Proof. exact concurrent_private_ops_correct_all. Qed.

(* the hypotheses are satisfiable: p = 11, q = 23, e = 3, d = 37, CRT helper *)
Example rsa_hypotheses_instance :
  1 < toy_n /\ 0 <= toy_e /\ 0 <= toy_d /\
  (forall x, 0 <= x < toy_n -> toy_helper x = (x ^ toy_d) mod toy_n) /\
  (forall x, (x ^ (toy_e * toy_d)) mod toy_n = x mod toy_n) /\
  unit_ok toy_n toy_invmod 2 /\ unit_ok toy_n toy_invmod 100.
Proof.
  split; [reflexivity|]. split; [discriminate|]. split; [discriminate|].
  split; [exact toy_key_helper|]. split; [exact toy_key_ed|]. split; reflexivity.
Qed.
