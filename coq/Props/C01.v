(* Property C01 -- application data is delivered exactly, in order, for every suite and
   version; no record carries more plaintext than the limit in force.
   Statements only; proofs live in Proofs/C01_*.v.  Model: Model/C01_RecordPipe.v,
   contracts (hypotheses on the cipher/MAC/AEAD oracles): Spec/C01_Contracts.v. *)
From Coq Require Import ZArith List Bool.
From TV Require Import Base.Prelude Spec.CbcCheck Model.C01_RecordPipe Spec.C01_Contracts
  Proofs.C01_Lists Proofs.C01_Fragment Proofs.C01_RoundTrip Proofs.C01_Delivery Proofs.C01_ToyOk Proofs.C01_Close Model.C02_RecordAccept Proofs.C02_Round3.
Import ListNotations.
Open Scope Z_scope.

(* ---- fragmentation (_sendMsg) -------------------------------------------------------------- *)
Theorem fragment_concat : forall (beast : bool) (lim : Z) (data : list Z),
  concat (fragment beast lim data) = data.
Proof. exact fragment_concat_l. Qed.

Theorem fragment_bound : forall (beast : bool) (lim : Z) (data : list Z), 1 <= lim ->
  Forall (fun f => zlen f <= lim) (fragment beast lim data).
Proof. exact fragment_bound_l. Qed.

(* empty data: exactly one empty record, as the code sends; otherwise no empty record *)
Theorem fragment_of_empty : forall (beast : bool) (lim : Z), fragment beast lim [] = [[]].
Proof. exact fragment_empty. Qed.

Theorem fragment_no_empty_record : forall (beast : bool) (lim : Z) (data : list Z), 1 <= lim -> data <> [] ->
  Forall (fun f => f <> []) (fragment beast lim data).
Proof. exact fragment_nonempty. Qed.

(* recordSize = min(user limit, negotiated send limit) *)
Theorem record_size_rule : forall user sl, record_size user sl <= sl /\ record_size user sl <= user.
Proof. exact record_size_le. Qed.

(* ---- one record through each protection path ------------------------------------------------- *)
Theorem unprotect_protect_stream : forall (CS : Type) (P : Prim CS) (R : CS -> CS -> Prop) (c : Cfg)
    (s r : St CS) (ty : Z) (data : list Z),
  mode_ok P R MStream c -> sync R s r -> is_byte ty = true -> zlen data <= 16384 ->
  st_seq s < 18446744073709551616 ->
  exists s' body r',
    mac_then_encrypt c P s ty data = ROk (s', body) /\
    zlen body = zlen data + ds P /\
    decrypt_stream_then_mac c P r ty body = ROk (r', data) /\
    sync R s' r' /\ st_seq s' = st_seq s + 1.
Proof. exact @stream_rt. Qed.

Theorem unprotect_protect_cbc : forall (CS : Type) (P : Prim CS) (R : CS -> CS -> Prop) (c : Cfg)
    (s r : St CS) (ty : Z) (data : list Z),
  mode_ok P R MCbc c -> sync R s r -> is_byte ty = true -> zlen data <= 16384 ->
  st_seq s < 18446744073709551616 ->
  exists s' body r',
    mac_then_encrypt c P s ty data = ROk (s', body) /\
    zlen data + ds P <= zlen body <= zlen data + ds P + 2 * c_bs c /\
    decrypt_then_mac c P r ty body = ROk (r', data) /\
    sync R s' r' /\ st_seq s' = st_seq s + 1.
Proof. exact @cbc_rt. Qed.

Theorem unprotect_protect_etm : forall (CS : Type) (P : Prim CS) (R : CS -> CS -> Prop) (c : Cfg)
    (s r : St CS) (ty : Z) (data : list Z),
  mode_ok P R MEtm c -> sync R s r -> is_byte ty = true -> zlen data <= 16384 ->
  st_seq s < 18446744073709551616 ->
  exists s' body r',
    encrypt_then_mac c P s ty data = ROk (s', body) /\
    zlen data + ds P <= zlen body <= zlen data + ds P + 2 * (if c_has_enc c then c_bs c else 0) /\
    mac_then_decrypt c P r ty body = ROk (r', data) /\
    sync R s' r' /\ st_seq s' = st_seq s + 1.
Proof. exact @etm_rt. Qed.

Theorem unprotect_protect_aead12 : forall (CS : Type) (P : Prim CS) (R : CS -> CS -> Prop) (c : Cfg)
    (s r : St CS) (ty : Z) (data : list Z),
  mode_ok P R MAead12 c -> sync R s r -> is_byte ty = true -> zlen data <= 16384 ->
  st_seq s < 18446744073709551616 ->
  exists s' body r',
    encrypt_then_seal c P s ty data = ROk (s', body) /\
    zlen data + c_tag c <= zlen body <= zlen data + c_tag c + 8 /\
    decrypt_and_unseal c P r (ty, c_ver c, body) = ROk (r', data) /\
    sync R s' r' /\ st_seq s' = st_seq s + 1.
Proof. exact @aead12_rt. Qed.

Theorem unprotect_protect_tls13 : forall (CS : Type) (P : Prim CS) (R : CS -> CS -> Prop) (c : Cfg)
    (s r : St CS) (ty : Z) (data : list Z),
  mode_ok P R MTls13 c -> sync R s r -> rec_ok c ty data -> ty <> 20 ->
  st_seq s < 18446744073709551616 ->
  exists s' w r',
    protect c P s (ty, data) = ROk (s', w) /\
    unprotect c P r w = ROk (r', (ty, data)) /\
    sync R s' r' /\ st_seq s' = st_seq s + 1 /\
    exists k, 0 <= k /\ zlen data + 1 + k <= c_send_limit c + 1 /\
              zlen (snd w) = zlen data + 1 + k + c_tag c.
Proof. exact @tls13_rt. Qed.

(* TLS 1.3 ChangeCipherSpec: unprotected, consumes no sequence number on either side *)
Theorem unprotect_protect_tls13_ccs : forall (CS : Type) (P : Prim CS) (R : CS -> CS -> Prop) (c : Cfg)
    (s r : St CS) (data : list Z),
  mode_ok P R MTls13 c -> sync R s r -> zlen data <= c_send_limit c ->
  protect c P s (20, data) = ROk (s, (20, (3, 3), data)) /\
  unprotect c P r (20, (3, 3), data) = ROk (r, (20, data)).
Proof. exact @protect_unprotect_tls13_ccs. Qed.

(* through the dispatchers of sendRecord / recvRecord, every mode *)
Theorem unprotect_protect : forall (CS : Type) (P : Prim CS) (R : CS -> CS -> Prop) (c : Cfg) (md : mode)
    (s r : St CS) (ty : Z) (data : list Z),
  mode_ok P R md c -> sync R s r -> rec_ok c ty data -> (md = MTls13 -> ty <> 20) ->
  st_seq s < SEQ_MAX ->
  exists s' w r',
    protect c P s (ty, data) = ROk (s', w) /\
    unprotect c P r w = ROk (r', (ty, data)) /\
    sync R s' r' /\ st_seq s' = st_seq s + 1.
Proof. exact @protect_unprotect_all. Qed.

(* ---- no record on the wire carries more plaintext than the limit in force --------------------- *)
Theorem wire_plaintext_le_limit : forall (CS : Type) (P : Prim CS) (R : CS -> CS -> Prop) (c : Cfg) (md : mode)
    (s r : St CS) (ty : Z) (data : list Z) (s' : St CS) (w : Wire),
  mode_ok P R md c -> sync R s r -> rec_ok c ty data -> (md = MTls13 -> ty <> 20) ->
  st_seq s < SEQ_MAX ->
  protect c P s (ty, data) = ROk (s', w) ->
  match md with
  | MTls13 => exists k, 0 <= k /\ zlen (snd w) = zlen data + 1 + k + c_tag c /\
                        zlen data + 1 + k <= c_send_limit c + 1
  | _ => zlen data <= zlen (snd w) <= zlen data + overhead_max P c md /\ zlen data <= c_send_limit c
  end.
Proof. exact @wire_plaintext_bound. Qed.

(* ---- a whole connection direction under an arbitrary schedule of writes, record arrivals and
   application reads: what was written = what was read ++ what is buffered ++ what the records in
   flight carry (in this order); nothing fails before sequence numbers run out ------------------- *)
Theorem stream_delivery : forall (CS : Type) (R : CS -> CS -> Prop) (md : mode) (es : list event) (d : @Dir CS),
  mode_ok (d_prim d) R md (d_cfg d) -> 1 <= d_user d ->
  dir_inv R d -> st_seq (d_snd d) + records_of d es <= SEQ_MAX ->
  let d' := dir_run d es in
  d_failed d' = false /\
  exists pl, flight_rel (d_prim d') R (d_cfg d') (d_rcv d') (d_flight d') pl (d_snd d') /\
             d_written d' = d_read d' ++ d_rbuf d' ++ pl.
Proof. exact @dir_run_inv. Qed.

(* the two directions of a connection never interact *)
Theorem directions_independent : forall (CS : Type) (es : list (side * event)) (s : @Sys CS),
  sys_run s es = (dir_run (fst s) (events_of A es), dir_run (snd s) (events_of B es)).
Proof. exact @sys_run_split. Qed.

(* ---- readAsync(max, min) ---------------------------------------------------------------------- *)
Theorem read_fifo : forall (calls : list (option Z * Z)) (buf : list Z) (arr : list (list Z))
    (outs : list (list Z)) (b' : list Z) (rest : list (list Z)),
  read_calls calls buf arr = (outs, b', rest) ->
  exists used, arr = used ++ rest /\ concat outs ++ b' = buf ++ concat used.
Proof. exact read_calls_spec. Qed.

Theorem read_call_bounds : forall (mx : option Z) (mn : Z) (buf : list Z) (arr : list (list Z))
    (out b' : list Z) (rest : list (list Z)),
  read_call mx mn buf arr = (out, b', rest) ->
  exists used, arr = used ++ rest /\ out ++ b' = buf ++ concat used /\
               (match mx with Some m => 0 <= m -> zlen out <= m | None => b' = [] end) /\
               (rest <> [] -> match mx with Some m => Z.min mn m <= zlen out | None => mn <= zlen out end).
Proof. exact read_call_spec. Qed.

(* readAsync(max, min) with min > 1 when the peer closes (close_notify, or an abrupt close with
   ignoreAbruptClose) anywhere in the stream: returned ++ still buffered = buffered before ++ data of
   everything consumed -- the tail waiting for `min` bytes is not lost at the close *)
Theorem read_fifo_close : forall (calls : list (option Z * Z)) (buf : list Z) (cl : bool) (arr : list arrival)
    (outs : list (list Z)) (b' : list Z) (cl' : bool) (rest : list arrival),
  read_calls_c calls buf cl arr = (outs, b', cl', rest) ->
  exists used, arr = used ++ rest /\ concat outs ++ b' = buf ++ data_of used.
Proof. exact read_calls_c_spec. Qed.

(* ... and after the close every call hands out the buffer (up to max) without reading anything *)
Theorem read_after_close_drains : forall (m mn : Z) (buf : list Z) (arr : list arrival),
  read_call_c (Some m) mn buf true arr = (ztake m buf, zdrop m buf, true, arr).
Proof. exact drain_after_close_l. Qed.

(* ---- TLS 1.3 KeyUpdate ratchet: for EVERY sequence of KeyUpdates sent (requested or not, by either
   endpoint) and processed (with the automatic answer), at both ends the stored traffic secrets are the
   secrets of the installed keys, and each sender's write generation = the peer's read generation + the
   KeyUpdates still in flight -- so data written after any number of KeyUpdates stays readable *)
Theorem keyupdate_ratchet_in_step : forall ops : list ku_op, ku_inv (fold_left ku_step ops ku_init).
Proof. exact (fun ops => ku_run_inv ops ku_init ku_init_inv). Qed.

(* ---- record_size_limit: what the negotiation code installs as send_record_limit ------------------- *)
Theorem limit_in_force : forall (tls13 client : bool) (ext : Z),
  ext_acceptable tls13 client ext = true ->
  let sl := send_limit_after tls13 client ext in
  1 <= sl <= 16384 /\ (if tls13 then sl + 1 <= ext else sl <= ext) /\
  (ext <= (if tls13 then 16385 else 16384) -> sl <= recv_limit_after tls13 ext).
Proof. exact limit_in_force_l. Qed.

(* TLS <= 1.2 (RFC 8449 section 4): the negotiated limit covers protected records only -- the sender starts
   to honour it with its WRITE state switch, the receiver to enforce it with its READ state switch, so at
   every position of the stream both ends apply the same limit; unprotected handshake records (e.g. a
   NewSessionTicket before ChangeCipherSpec) are bounded by the protocol maximum only.  `own` is the
   receiver's setting, ext_sent what its extension carries to the sender. *)
Theorem limits_agree_at_every_position : forall (protected negotiated sender_is_client : bool) (own : Z),
  64 <= own <= 16385 ->
  send_limit_at protected negotiated sender_is_client (ext_sent sender_is_client own) =
  recv_limit_at protected negotiated own /\
  (protected = false -> send_limit_at protected negotiated sender_is_client (ext_sent sender_is_client own) = 16384).
Proof. exact limits_agree_at_every_position_l. Qed.

(* a freshly keyed direction (nothing written, in flight, buffered or read) meets the invariant *)
Theorem fresh_direction_ok : forall (CS : Type) (R : CS -> CS -> Prop) (d : @Dir CS),
  sync R (d_snd d) (d_rcv d) -> d_flight d = [] -> d_rbuf d = [] -> d_written d = [] -> d_read d = [] ->
  d_failed d = false -> dir_inv R d.
Proof. exact @dir_inv_fresh. Qed.

(* ---- the contracts are satisfiable: one concrete configuration per protection path -------------- *)
Example stream_contract_satisfiable : mode_ok ex_prim_stream eq MStream ex_stream.
Proof. exact ex_stream_ok. Qed.
Example cbc_contract_satisfiable : mode_ok ex_prim_id eq MCbc ex_cbc.
Proof. exact ex_cbc_ok. Qed.
Example etm_contract_satisfiable : mode_ok ex_prim_id eq MEtm ex_etm.
Proof. exact ex_etm_ok. Qed.
Example gcm_contract_satisfiable : mode_ok ex_prim_id eq MAead12 ex_gcm.
Proof. exact ex_gcm_ok. Qed.
Example chacha_contract_satisfiable : mode_ok ex_prim_id eq MAead12 ex_chacha.
Proof. exact ex_chacha_ok. Qed.
Example tls13_contract_satisfiable : mode_ok ex_prim_id eq MTls13 ex_tls13.
Proof. exact ex_tls13_ok. Qed.
