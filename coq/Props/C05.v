(* Property C05 -- peer credentials are recorded only after proof of possession.
   Statements only; proofs live in Proofs/C05_Auth.v and Proofs/C05_Binding.v.
   Every theorem quantifies over ALL runs r (all peer messages, configurations) and ALL
   oracle behaviours O (signature, Finished, binder, hash answers). *)
From Coq Require Import ZArith List Bool String.
From TV Require Import Base.Prelude Base.C05_Lib Gen.C05_VerifyBytes Gen.C05_Sites Gen.C05_DsaVerify Model.C05_SigGuard
  Model.C05_Auth Model.C05_SitesExpected Proofs.C05_Auth Proofs.C05_Binding.
Import ListNotations.
Open Scope Z_scope.

(* the code still has exactly the program points the model was written against *)
Theorem auth_sites_as_modelled : extracted_sites = expected_sites.
Proof. vm_compute. reflexivity. Qed.

(* argument provenance: the certificate object handed to DelegatedCredential.verify is the
   end-entity entry certificate.certificate_list[0] and nothing else ever rebinds that variable
   (the site table lists every binding of every local name used in a verification call) *)
Theorem dc_verify_receives_end_entity_entry :
  existsb (row_eqb dc_verify_row) extracted_sites = true.
Proof. vm_compute. reflexivity. Qed.

(* (1)(9) client <= TLS 1.2: a server chain is recorded only after a non-empty chain, the
   ServerKeyExchange signature by the end-entity key over client_random||server_random||params
   (for signed key exchanges; TLS 1.2: with a scheme from the list the client checks), the
   record keys and the server Finished; RSA key transport: keys + Finished are the proof *)
Theorem server_chain_recorded_only_if_proved_tls12 : forall O r s c,
  client12 O r = Ok s -> s_server_chain s = Some c ->
  kx_has_cert (r_kx r) = true /\ r_rec_ok r = true /\
  fin_ok O FIN_S12 (r_tr_fin r) (r_fin r) = true /\
  exists cm, r_cert r = Some cm /\ c = cm_chain cm /\ c <> [] /\
    (r_kx r <> 0 ->
     exists osch params sg, r_ske r = Some (osch, params, sg) /\
       sig_ok O (cm_key cm) (if ver_lt (r_ver r) (3, 3) then None else osch) (ske_tbs r params) sg = true /\
       (ver_lt (r_ver r) (3, 3) = false -> exists sch, osch = Some sch /\ sch_in sch (r_valid r) = true)).
Proof. exact client12_recorded. Qed.

(* (3)(6)(9) client TLS 1.3: chain recorded only after CertificateVerify by the end-entity
   key with a scheme the ClientHello offered (or, with a delegated credential, BOTH the delegation signature by the end-entity
   key and the CertificateVerify by the credential key, both algorithms offered) over
   64 spaces || "TLS 1.3, server CertificateVerify" || 00 || H(transcript up to Certificate),
   and the server Finished *)
Theorem server_chain_recorded_only_if_proved_tls13 : forall O r s c,
  client13 O r = Ok s -> s_server_chain s = Some c ->
  r_rec_ok r = true /\ fin_ok O FIN_S13 (r_tr_fin r) (r_fin r) = true /\ r_psk r = None /\
  exists cm sch0 sg ctx,
    r_cert r = Some cm /\ c = cm_chain cm /\ c <> [] /\ r_cv r = Some (Some sch0, sg) /\
    vb13 O sch0 (r_prf r) tag_server (r_tr_cv r) = Ok ctx /\
    ((cm_dc cm = [] /\ s_dc s = false /\ sch_in sch0 (r_offered r) = true /\ sch_in sch0 (r_valid r) = true /\ sig_ok O (cm_key cm) (Some sch0) ctx sg = true) \/
     (exists d, cm_dc cm = [d] /\ s_dc s = true /\ dc_cv_alg d = sch0 /\ dc_proved O r cm d ctx sg)).
Proof. exact client13_recorded. Qed.

(* session.delegated_credential is set only if BOTH signatures verified; the delegation signature
   is by the key inside the END-ENTITY certificate of the chain that is recorded (entry 0 of the
   certificate_list; the recorded chain is e :: rest), over that certificate's bytes; entries 1..
   of the chain play no role *)
Theorem dc_recorded_only_if_both_signatures : forall O r s,
  client13 O r = Ok s -> s_dc s = true ->
  exists cm e rest d sg ctx,
    r_cert r = Some cm /\ cm_entries cm = e :: rest /\
    s_server_chain s = Some (e_id e :: map e_id rest) /\
    e_dc e = [d] /\ r_cv r = Some (Some (dc_cv_alg d), sg) /\
    vb13 O (dc_cv_alg d) (r_prf r) tag_server (r_tr_cv r) = Ok ctx /\
    sch_in (dc_cv_alg d) (r_dc_offered r) = true /\ sch_in (dc_alg d) (r_offered r) = true /\
    sig_ok O (e_key e) (Some (dc_alg d)) (dc_tbs (e_cert e) (dc_cred d) (dc_alg d)) (dc_sig d) = true /\
    sig_ok O (dc_key d) (Some (dc_cv_alg d)) ctx sg = true.
Proof. exact client13_dc_ee. Qed.

(* every signature check of a recorded chain uses the key of entry 0 of that chain *)
Theorem recorded_chain_proved_by_its_end_entity_key : forall cm,
  cm_chain cm <> [] ->
  exists e rest, cm_entries cm = e :: rest /\ cm_chain cm = e_id e :: map e_id rest /\
                 cm_key cm = e_key e /\ cm_cert cm = e_cert e /\ cm_dc cm = e_dc e.
Proof. exact cm_ee_of_chain. Qed.

(* (2) server <= TLS 1.2 *)
Theorem client_chain_recorded_only_if_proved_tls12 : forall O r s c,
  server12 O r = Ok s -> s_client_chain s = Some c ->
  ((r_kx r =? 0) || (r_kx r =? 1) = true) /\ r_req_cert r = true /\
  r_rec_ok r = true /\ fin_ok O FIN_C12 (r_tr_fin r) (r_fin r) = true /\
  exists cm osch sg sigalg vb,
    r_cert r = Some cm /\ c = cm_chain cm /\ c <> [] /\ r_cv r = Some (osch, sg) /\
    verify_bytes O (r_ver r) (r_tr_cv r) sigalg (r_premaster r) (r_cr r) (r_sr r) None tag_client
                 (Some (cm_keytype cm)) = Ok vb /\
    sig_ok O (cm_key cm) sigalg vb sg = true /\
    (r_ver r = (3, 3) -> exists sch, osch = Some sch /\ sigalg = Some sch /\ sch_in sch (r_valid r) = true) /\
    (r_ver r <> (3, 3) -> sigalg = if String.eqb (cm_keytype cm) "ecdsa" then Some (2, 3) else None).
Proof. exact server12_recorded. Qed.

(* (4)(8) server TLS 1.3: client chain from a verified CertificateVerify, or (resumption) the
   chain stored in the ticket after binder and Finished *)
Theorem client_chain_recorded_only_if_proved_tls13 : forall O r s c,
  server13 O r = Ok s -> s_client_chain s = Some c ->
  r_rec_ok r = true /\ fin_ok O FIN_C13 (r_tr_fin r) (r_fin r) = true /\
  ((r_psk r = None /\ r_req_cert r = true /\
    exists cm sch sg ctx,
      r_cert r = Some cm /\ c = cm_chain cm /\ c <> [] /\ r_cv r = Some (Some sch, sg) /\
      sch_in sch (r_valid r) = true /\
      vb13 O sch (r_prf r) tag_client (r_tr_cv r) = Ok ctx /\
      sig_ok O (cm_key cm) (Some sch) ctx sg = true) \/
   (exists id, r_psk r = Some id /\ s_psk s = Some id /\ r_ticket_chain r = Some c /\
               binder_ok O id (r_tr_binder r) (r_binder r) = true)).
Proof. exact server13_recorded. Qed.

(* (5) post-handshake authentication *)
Theorem client_chain_recorded_only_if_proved_pha : forall O r c,
  server_pha O r = Ok (Some c) ->
  r_ctx_ok r = true /\ fin_ok O FIN_PHA (r_tr_fin r) (r_fin r) = true /\
  exists cm sch sg ctx,
    r_cert r = Some cm /\ c = cm_chain cm /\ c <> [] /\ r_cv r = Some (Some sch, sg) /\
    sch_in sch (r_offered r) = true /\ sch_in sch (r_valid r) = true /\
    vb13 O sch (r_prf r) tag_client (r_tr_cv r) = Ok ctx /\
    sig_ok O (cm_key cm) (Some sch) ctx sg = true.
Proof. exact server_pha_recorded. Qed.

(* (7) SRP: the session carries an SRP user name only if the key exchange was SRP, the user is
   in the verifier database and the client Finished verifies under the secret derived from
   that verifier (password proof).
   History: before fix 11c0ed7 (/repo) this full statement was FALSE of the faithful model and of
   the code -- srp_user_only_if_password_proof_refuted held with witness run_w2 (certificate-only
   server, ClientHello with an SRP extension, srpUsername = "admin" recorded) and only the
   _partial form (extra hypothesis kx_is_srp (r_kx r) = true) was provable. *)
Theorem srp_user_only_if_password_proof : forall O r s u,
  server12 O r = Ok s -> s_srp_user s = Some u ->
  kx_is_srp (r_kx r) = true /\ r_srp_user r = Some u /\ r_srp_known r = true /\ r_kx_alert r = None /\
  r_rec_ok r = true /\ fin_ok O FIN_C12 (r_tr_fin r) (r_fin r) = true.
Proof. exact server12_srp. Qed.

(* (7b) identities restored from a TLS <= 1.2 session ticket / the session cache (since /repo
   19b1cb2 the ticket carries the SRP user name next to the client chain): they are attributed
   to the connection only if the ticket decrypted under a current key (r_psk = Some _), the
   record keys derived from the ticket's master secret opened the peer's flight and the peer's
   Finished verified; an SRP user name in the ClientHello must equal the stored one *)
Theorem srp_user_from_ticket_only_if_ticket_and_finished : forall O r s,
  server12_resume O r = Ok (Some s) ->
  (exists id, r_psk r = Some id) /\ r_rec_ok r = true /\
  fin_ok O FIN_C12 (r_tr_fin r) (r_fin r) = true /\
  s_srp_user s = r_ticket_srp r /\ s_client_chain s = r_ticket_chain r /\ s_server_chain s = None /\
  (forall h, r_srp_user r = Some h -> r_ticket_srp r = Some h).
Proof. exact server12_resume_identity. Qed.

(* (8) PSK *)
Theorem psk_identity_only_if_binder_and_finished : forall O r s id,
  server13 O r = Ok s -> s_psk s = Some id ->
  r_psk r = Some id /\ binder_ok O id (r_tr_binder r) (r_binder r) = true /\
  r_rec_ok r = true /\ fin_ok O FIN_C13 (r_tr_fin r) (r_fin r) = true.
Proof. exact server13_psk. Qed.

Theorem psk_server_only_if_finished : forall O r s id,
  client13 O r = Ok s -> s_psk s = Some id ->
  r_psk r = Some id /\ s_server_chain s = None /\ s_dc s = false /\
  r_rec_ok r = true /\ fin_ok O FIN_S13 (r_tr_fin r) (r_fin r) = true.
Proof. exact client13_psk. Qed.

(* the signature scheme of every accepted proof was offered / is in the list this endpoint
   checks, at all six sites.
   History: before fix 61d7222 (/repo) the sixth conjunct (TLS 1.3 client, server
   CertificateVerify without delegated credential) was FALSE:
   scheme_must_be_offered_tls13_server_cv_refuted held with witness run_w1 (client offers
   rsa_pss_rsae_sha256 only, server signs with rsa_pkcs1_sha1, chain recorded) and only
   scheme_must_be_offered_partial (the first five conjuncts) was provable. *)
Theorem scheme_must_be_offered : forall O r,
  (forall s c, server12 O r = Ok s -> s_client_chain s = Some c -> r_ver r = (3, 3) ->
     exists sch sg, r_cv r = Some (Some sch, sg) /\ sch_in sch (r_valid r) = true) /\
  (forall s c, server13 O r = Ok s -> s_client_chain s = Some c -> r_psk r = None ->
     exists sch sg, r_cv r = Some (Some sch, sg) /\ sch_in sch (r_valid r) = true) /\
  (forall c, server_pha O r = Ok (Some c) ->
     exists sch sg, r_cv r = Some (Some sch, sg) /\ sch_in sch (r_offered r) = true /\ sch_in sch (r_valid r) = true) /\
  (forall s c, client12 O r = Ok s -> s_server_chain s = Some c -> r_kx r <> 0 -> ver_lt (r_ver r) (3, 3) = false ->
     exists sch params sg, r_ske r = Some (Some sch, params, sg) /\ sch_in sch (r_valid r) = true) /\
  (forall s, client13 O r = Ok s -> s_dc s = true ->
     exists cm d, r_cert r = Some cm /\ cm_dc cm = [d] /\
       sch_in (dc_cv_alg d) (r_dc_offered r) = true /\ sch_in (dc_alg d) (r_offered r) = true) /\
  (forall s c, client13 O r = Ok s -> s_server_chain s = Some c -> s_dc s = false ->
     exists sch sg, r_cv r = Some (Some sch, sg) /\ sch_in sch (r_offered r) = true /\ sch_in sch (r_valid r) = true).
Proof. exact scheme_offered_parts. Qed.

(* the signed bytes determine the transcript and (TLS 1.3) the role, under H-ideal-hash *)
Theorem proof_bound_to_this_transcript_ideal : forall O : Orc,
  (forall t1 t2 n, o_digest O t1 n = o_digest O t2 n -> t1 = t2) ->
  (forall t1 t2 n, List.length (o_digest O t1 n) = List.length (o_digest O t2 n)) ->
  (forall t1 t2 m l, o_digestSSL O t1 m l = o_digestSSL O t2 m l -> t1 = t2) ->
  (forall t1 t2 m l, py_slice (o_digestSSL O t1 m l) (Some 16) None = py_slice (o_digestSSL O t2 m l) (Some 16) None -> t1 = t2) ->
  (forall a b n, o_hash O a n = o_hash O b n -> a = b) ->
  (forall a b n, o_pkcs1 O a n = o_pkcs1 O b n -> a = b) ->
  forall ver t1 t2 sa pm cr sr prf tag1 tag2 kt b,
    List.length tag1 = List.length tag2 ->
    verify_bytes O ver t1 sa pm cr sr prf tag1 kt = Ok b ->
    verify_bytes O ver t2 sa pm cr sr prf tag2 kt = Ok b ->
    t1 = t2 /\ (ver = (3, 4) -> tag1 = tag2).
Proof. exact verify_bytes_binds. Qed.

Theorem checker_mismatch_fails_call :
  (forall hs cl w fp s, wrapper hs cl (Some w) fp = Ok s ->
     hs = Ok s /\ exists c, (if cl then s_server_chain s else s_client_chain s) = Some c /\ fp c = w) /\
  (forall (hs : res Session) (cl : bool) (w : list Z) (fp : list Z -> list Z) (s : Session), hs = Ok s ->
     (forall c, (if cl then s_server_chain s else s_client_chain s) = Some c -> fp c <> w) ->
     wrapper hs cl (Some w) fp = Err (OtherExn X_AuthenticationError)) /\
  (forall (e : exn) (cl : bool) (w : option (list Z)) (fp : list Z -> list Z), exists e', wrapper (Err e) cl w fp = Err e').
Proof. exact (conj wrapper_accepts (conj wrapper_mismatch wrapper_failed_handshake)). Qed.

(* Checker and RESUMED connections.  On the SERVER side every call made with a Checker that returns has a peer
   chain with the expected fingerprint, resumed or not (the identity restored from a ticket is checked again);
   on the CLIENT side the checkResumedSession semantics are kept: the same holds for non-resumed connections or
   checkResumedSession=True, and a resumed connection with checkResumedSession=False (the default) is NOT
   re-checked (third conjunct; the client checked that session object when it created it).
   History: before /repo 3463378 the server skipped resumed connections as well;
   checker_mismatch_fails_call_resumed_refuted held with witness session_w3 (finding F-C05-4: the ticket is sent
   before the Checker rejects the chain) and only the _partial form (resumed = false \/ chk = true) was provable. *)
Theorem checker_mismatch_fails_call_resumed :
  (forall hs cl w fp resumed chk s,
     (cl = false \/ resumed = false \/ chk = true) ->
     wrapper_r hs cl (Some w) fp resumed chk = Ok s ->
     hs = Ok s /\ exists c, (if cl then s_server_chain s else s_client_chain s) = Some c /\ fp c = w) /\
  wrapper_r (Ok session_w3) false (Some [21]) (fun x => x) true false = Err (OtherExn X_AuthenticationError) /\
  (forall hs w fp, wrapper_r hs true w fp true false = map_exn hs).
Proof. exact (conj wrapper_r_checked (conj wrapper_r_former_witness_rejected wrapper_r_client_skips)). Qed.

(* F12: the server's own `scheme` (read at tlsconnection.py 3305) influences the check of a
   client brainpool CertificateVerify only through SignatureScheme.getHash failing *)
Theorem f12_server_scheme_irrelevant_when_known : forall sch n1 n2 h1 h2,
  SignatureScheme_getHash (Some n1) = Ok h1 -> SignatureScheme_getHash (Some n2) = Ok h2 ->
  dispatch13_srv sch (Some n1) = dispatch13_srv sch (Some n2).
Proof. exact dispatch13_srv_independent. Qed.

(* the DSA verification that stands behind sig_ok at the DHE_DSA ServerKeyExchange and the TLS <= 1.2
   DSA CertificateVerify sites (text regenerated from Python_DSAKey.verify from its range check on):
   for EVERY behaviour of invMod / powMod an accepted (r, s) satisfies 0 < r < q and 0 < s < q and the
   verification equation -- in particular the constant signature (r, s) = (1, 0) is never accepted *)
Theorem dsa_signature_accepted_only_in_range :
  forall (invMod : Z -> Z -> Z) (powMod : Z -> Z -> Z -> Z) p q g y d r s,
  dsa_verify_tail invMod powMod p q g y d r s = true ->
  0 < r < q /\ 0 < s < q /\
  r = (((powMod g ((d * invMod s q) mod q) p) * (powMod y ((r * invMod s q) mod q) p)) mod p) mod q.
Proof. exact dsa_tail_accept_in_range. Qed.

Example dsa_toy_signature_accepted : dsa_verify_run 23 11 4 18 7 7 2 = true.
Proof. vm_compute. reflexivity. Qed.
Example dsa_r1_s0_rejected : dsa_verify_run 23 11 4 18 7 1 0 = false.
Proof. vm_compute. reflexivity. Qed.

(* ---- the hypotheses are satisfiable: honest runs are accepted and record the chain ------ *)
Example honest_tls13_client : exists s, client13 (orc_const true) run0 = Ok s /\ s_server_chain s = Some [1].
Proof. eexists. split; vm_compute; reflexivity. Qed.
Example forged_tls13_rejected : client13 (orc_const false) run0 = Err (OtherExn X_DecryptionFailed).
Proof. vm_compute. reflexivity. Qed.
(* the inputs that refuted the two statements before the fixes are now handled correctly *)
Example former_witness_scheme_not_offered_now_rejected :
  client13 (orc_const true) run_w1 = Err (OtherExn illegal_parameter).
Proof. exact former_witness_scheme_not_offered_rejected. Qed.
Example former_witness_srp_unproved_now_not_recorded :
  exists s, server12 (orc_const true) run_w2 = Ok s /\ s_srp_user s = None.
Proof. exact former_witness_srp_unproved_not_recorded. Qed.
Example ideal_hash_hypotheses_satisfiable :
  let O := orc_const true in
  (forall t1 t2 n, o_digest O t1 n = o_digest O t2 n -> t1 = t2) /\
  (forall t1 t2 m l, o_digestSSL O t1 m l = o_digestSSL O t2 m l -> t1 = t2) /\
  (forall t1 t2 m l, py_slice (o_digestSSL O t1 m l) (Some 16) None = py_slice (o_digestSSL O t2 m l) (Some 16) None -> t1 = t2) /\
  (forall a b n, o_hash O a n = o_hash O b n -> a = b) /\
  (forall a b n, o_pkcs1 O a n = o_pkcs1 O b n -> a = b).
Proof. exact ideal_hash_instance. Qed.
