(* Property C14 -- results do not depend on how the transport chunks, delays or blocks.
   Statements only; proofs live in Proofs/C14_*.v. *)
From Coq Require Import ZArith List Bool.
From TV Require Import Base.Prelude Model.C14_Transport Model.C14_Buffered Model.C14_Defrag
  Proofs.C14_Transport Proofs.C14_Buffered Proofs.C14_Defrag.
Import ListNotations.
Open Scope Z_scope.

(* ---- receiving ------------------------------------------------------------------------------ *)

(* RecordSocket.recv (and any program built from "read exactly n bytes": _recvHeader, recv,
   k records in a row) over ANY two receive states -- plain socket or BufferedSocket, any
   read-ahead buffer content, scripts of any length, any chunking, any number of would-blocks
   anywhere -- that carry the same byte stream and the same terminal event returns the same
   outcome, and after a completed read the two states still carry the same stream. *)
Theorem recv_chunk_independent :
  forall ra1 ra2, ra_ok ra1 -> ra_ok ra2 ->
  forall (A : Type) (p : prog A) (st1 st2 : rstate),
  stream_of st1 = stream_of st2 ->
  out_of (run_sock ra1 p st1) = out_of (run_sock ra2 p st2) /\
  (forall a, out_of (run_sock ra1 p st1) = Done a ->
     stream_of (state_of (run_sock ra1 p st1)) = stream_of (state_of (run_sock ra2 p st2))).
Proof. exact (fun ra1 ra2 H1 H2 A p st1 st2 => chunk_independent ra1 ra2 H1 H2 p st1 st2). Qed.

(* the form in the property text: every script gives the result of the one-chunk script *)
Theorem record_recv_same_as_one_chunk :
  forall limit tls13 k (s : list rev),
  out_of (run_sock ra_raw (recv_many limit tls13 k) ([], s)) =
  out_of (run_sock ra_raw (recv_many limit tls13 k) ([], canon (flatten s))).
Proof. exact (fun limit tls13 k s =>
  same_as_one_chunk ra_raw ra_raw ra_raw_ok ra_raw_ok (recv_many limit tls13 k) s). Qed.

(* the result is the direct reading of the byte stream (no scheduling in the specification) *)
Theorem recv_is_stream_function :
  forall ra, ra_ok ra -> forall (A : Type) (p : prog A) (st : rstate),
  out_of (run_sock ra p st) = out_of (run_spec p (stream_of st)).
Proof. exact (fun ra H A p st => proj1 (run_agrees ra H p st)). Qed.

(* only the number of yields differs: it is exactly the number of would-blocks consumed *)
Theorem recv_yields_are_wouldblocks :
  forall ra (A : Type) (p : prog A) (st : rstate),
  yields_of (run_sock ra p st) = count_wb (snd st) - count_wb (snd (state_of (run_sock ra p st))).
Proof. exact (fun ra A p st => run_yields ra p st). Qed.

(* BufferedSocket.recv is transparent: RecordSocket over BufferedSocket = over the plain socket *)
Theorem buffered_recv_transparent :
  forall limit tls13 k (s : list rev),
  out_of (run_sock ra_buffered (recv_many limit tls13 k) ([], s)) =
  out_of (run_sock ra_raw (recv_many limit tls13 k) ([], s)) /\
  (forall a, out_of (run_sock ra_buffered (recv_many limit tls13 k) ([], s)) = Done a ->
     stream_of (state_of (run_sock ra_buffered (recv_many limit tls13 k) ([], s))) =
     stream_of (state_of (run_sock ra_raw (recv_many limit tls13 k) ([], s)))).
Proof. exact (fun limit tls13 k s =>
  chunk_independent ra_buffered ra_raw ra_buffered_ok ra_raw_ok (recv_many limit tls13 k)
                    ([], s) ([], s) eq_refl). Qed.

(* b'' is end of stream, never would-block: a read the stream cannot satisfy raises
   TLSAbruptCloseError; on a stream ending in EOF nothing stays suspended and no socket
   error is invented *)
Theorem eof_is_abrupt_close :
  forall ra, ra_ok ra -> forall need st,
  snd (stream_of st) = TEof -> zlen (fst (stream_of st)) < need ->
  out_of (recv_all ra need st) = Raised AbruptClose.
Proof. exact eof_short_read. Qed.

Theorem eof_never_suspends :
  forall ra, ra_ok ra -> forall limit tls13 k st,
  snd (stream_of st) = TEof ->
  out_of (run_sock ra (recv_many limit tls13 k) st) <> Pending /\
  (forall e, out_of (run_sock ra (recv_many limit tls13 k) st) <> Raised (SockError e)).
Proof. exact (fun ra H limit tls13 k st =>
  eof_never_pending ra H (recv_many limit tls13 k) (clean_recv_many limit tls13 k) st). Qed.

(* blocking call = generator run to completion: a blocking socket is the script without its
   would-blocks; same outcome, no yields *)
Theorem async_equals_blocking :
  forall ra, ra_ok ra -> forall (A : Type) (p : prog A) rbuf s,
  out_of (run_sock ra p (rbuf, strip_wb s)) = out_of (run_sock ra p (rbuf, s)) /\
  yields_of (run_sock ra p (rbuf, strip_wb s)) = 0 /\
  yields_of (run_sock ra p (rbuf, s)) <= count_wb s.
Proof. exact (fun ra H A p rbuf s => blocking_equals_async ra H p rbuf s). Qed.

Example recv_example :
  let s := [Data [22; 3]; WouldBlock; Data [3; 0; 2; 7]; WouldBlock; Data [9; 23; 3; 3]] in
  run_sock ra_buffered (record_recv 16384 false) ([], s)
  = (2, Done ({| h_ssl2 := false; h_type := 22; h_vmaj := 3; h_vmin := 3; h_len := 2;
                 h_pad := 0; h_esc := false |}, [7; 9]), ([23; 3; 3], []))
  /\ stream_of ([], s) = ([22; 3; 3; 0; 2; 7; 9; 23; 3; 3], TOpen).
Proof. vm_compute. split; reflexivity. Qed.

(* ---- sending --------------------------------------------------------------------------------- *)

(* _sockSendAll under ANY partial-accept / would-block / failure schedule puts a prefix of the
   data on the wire, in order, all of it when it completes; it only raises for a real socket
   error; it is suspended only when the schedule is exhausted *)
Theorem send_all_exact :
  forall (s : list sev) data y wire,
  let r := send_all data y wire s in
  let o := snd (fst (fst r)) in
  let wire' := snd (fst r) in
  exists sent rest, data = sent ++ rest /\ wire' = wire ++ sent /\
    (o = Done tt -> rest = []) /\
    (forall e, o = Raised e -> exists n, e = SockError n /\ is_wb n = false) /\
    (o = Pending -> snd r = []).
Proof. exact send_all_exact_l. Qed.

(* and it does complete on every schedule without hard failures that keeps accepting *)
Theorem send_all_completes_on_live_schedules :
  forall (s : list sev) data y wire,
  forallb pos_accept_or_wb s = true -> Z.max 1 (zlen data) <= n_accepts s ->
  snd (fst (fst (send_all data y wire s))) = Done tt.
Proof. exact send_all_completes. Qed.

Example send_example :
  record_send 3 3 23 [1; 2; 3] 0 [SBlock; Accept 2; Accept 0; SBlock; Accept 100]
  = (4, Done tt, [23; 3; 3; 0; 3; 1; 2; 3], []).
Proof. vm_compute. reflexivity. Qed.

(* ---- BufferedSocket write side -------------------------------------------------------------- *)

(* The generator API flushes with BufferedSocket.flush_async (since /repo 8168763).
   FULL statement, for EVERY schedule (would-blocks, partial accepts, failures, exhaustion) and
   any disciplined mixture of buffered sends, direct sends and flush_async:
   completes => wire ++ queue is exactly the data sent so far, in order;
   raises    => only a real socket error present in the schedule, never a would-block;
   suspended => only because the schedule is exhausted. *)
Theorem buffered_flush_order :
  forall ops y bsk wire (s : list sev),
  no_sync_flush ops = true ->
  disciplined ops (bw bsk) (q_empty bsk) = true ->
  let r := bs_run ops y bsk wire s in
  (o_of r = Done tt ->
     w_of r ++ concat (queue (b_of r)) = wire ++ concat (queue bsk) ++ sent_data ops) /\
  (forall e, o_of r = Raised e -> real_error e) /\
  (o_of r = Pending -> s_of r = []).
Proof. exact bs_run_order_full. Qed.

(* the pattern tlslite's generators use for a flight, over EVERY schedule: a prefix of the
   flight is on the wire in order; all of it, queue empty and buffering off, when it completes *)
Theorem buffered_flight_order :
  forall msgs wire (s : list sev),
  let r := bs_run (flight_a msgs) 0 bs_init wire s in
  exists sent rest, concat msgs = sent ++ rest /\ w_of r = wire ++ sent /\
    (o_of r = Done tt -> rest = [] /\ b_of r = bs_init) /\
    (forall e, o_of r = Raised e -> real_error e) /\
    (o_of r = Pending -> s_of r = []).
Proof. exact flight_a_order. Qed.

(* buffering is transparent: a non-empty buffered flight IS one _sockSendAll of the concatenated
   messages -- same yields, outcome, wire and remaining schedule, for every schedule *)
Theorem buffered_flight_is_direct_send :
  forall msgs wire (s : list sev), zlen (concat msgs) <> 0 ->
  let '(y, o, w, s') := send_all (concat msgs) 0 wire s in
  bs_run (flight_a msgs) 0 bs_init wire s =
  (y, o, match o with Done _ => bs_init | _ => {| bw := true; queue := [] |} end, w, s').
Proof. exact flight_a_is_send_all. Qed.

(* and it completes on every schedule without hard failures that keeps accepting *)
Theorem buffered_flight_completes_on_live_schedules :
  forall msgs wire (s : list sev),
  forallb pos_accept_or_wb s = true -> Z.max 1 (zlen (concat msgs)) <= n_accepts s ->
  o_of (bs_run (flight_a msgs) 0 bs_init wire s) = Done tt /\
  w_of (bs_run (flight_a msgs) 0 bs_init wire s) = wire ++ concat msgs.
Proof. exact flight_a_completes. Qed.

Example buffered_flight_example :
  bs_run (flight_a [[1; 2; 3]]) 0 bs_init [] [Accept 1; SBlock; Accept 5] = (2, Done tt, bs_init, [1; 2; 3], []).
Proof. exact flight_a_on_witness. Qed.

(* BufferedSocket.flush() (socket.sendall) remains in the class as a blocking-socket API; it is
   called only by BufferedSocket.close()/shutdown(), never by a generator with a non-empty queue
   (checked on every live run: sendall is never reached).  On accept-only schedules -- what a
   blocking socket presents -- it keeps order ... *)
Theorem sync_flush_order_on_blocking_sockets :
  forall ops y bsk wire (s : list sev),
  forallb sev_accept_only s = true ->
  disciplined ops (bw bsk) (q_empty bsk) = true ->
  let r := bs_run ops y bsk wire s in
  (forall e, o_of r <> Raised e) /\
  (o_of r = Done tt ->
     w_of r ++ concat (queue (b_of r)) = wire ++ concat (queue bsk) ++ sent_data ops).
Proof. exact bs_run_order. Qed.

(* ... and it must not be used on a non-blocking socket: a would-block inside sendall is an
   exception after the queue was cleared (this was finding C14-1 while the generators used it) *)
Theorem sync_flush_is_blocking_socket_api_only :
  exists msgs (s : list sev),
  forallb sev_ok s = true /\
  snd (fst (fst (send_all (concat msgs) 0 [] s))) = Done tt /\
  o_of (bs_run (flight_a msgs) 0 bs_init [] s) = Done tt /\
  o_of (bs_run (flight msgs) 0 bs_init [] s) = Raised (SockError EWOULDBLOCK) /\
  w_of (bs_run (flight msgs) 0 bs_init [] s) <> concat msgs /\
  queue (b_of (bs_run (flight msgs) 0 bs_init [] s)) = [].
Proof. exact sync_flush_wouldblock_witness. Qed.

(* ---- Defragmenter ------------------------------------------------------------------------------ *)

(* For ANY defragmenter (any set of static/dynamic types, in any priority order, bytes
   non-negative) and ANY sequence of records of defined types fed through the drain/add loop of
   _getNextRecord: per content type the messages extracted, in order, are exactly the complete
   messages of that type's concatenated byte stream, and what stays buffered is the unparsed
   rest -- no message is lost, duplicated or cut differently, however the stream was split
   into or packed across records. *)
Theorem defrag_extracts_stream_messages :
  forall records d, dinv d -> records_ok d records ->
  exists ms d', feed records d = Ok (ms, d') /\ dinv d' /\ get_message d' = None /\
  forall t dec, decoder_of t d = Some dec ->
    msgs_of t ms = fst (parse_stream dec (buffer_of t d ++ stream_for t records)) /\
    buffer_of t d' = snd (parse_stream dec (buffer_of t d ++ stream_for t records)).
Proof. exact feed_spec. Qed.

(* hence: two fragmentations/coalescings of the same per-type streams give the same messages *)
Theorem defrag_refragment_invariant :
  forall d records1 records2,
  dinv d -> records_ok d records1 -> records_ok d records2 ->
  (forall t, stream_for t records1 = stream_for t records2) ->
  exists ms1 d1 ms2 d2,
    feed records1 d = Ok (ms1, d1) /\ feed records2 d = Ok (ms2, d2) /\
    forall t, defined t d = true -> msgs_of t ms1 = msgs_of t ms2 /\ buffer_of t d1 = buffer_of t d2.
Proof. exact refragment_invariant. Qed.

(* get_message serves types in priority order *)
Theorem defrag_priority :
  forall d t m d', get_message d = Some ((t, m), d') ->
  exists pre e post, d = pre ++ e :: post /\ e_type e = t /\
    (forall e', In e' pre -> msg_size (e_dec e') (e_buf e') = None) /\
    exists n, msg_size (e_dec e) (e_buf e) = Some n /\ m = firstn (Z.to_nat n) (e_buf e) /\
      d' = pre ++ (e_type e, e_dec e, skipn (Z.to_nat n) (e_buf e)) :: post.
Proof. exact get_message_priority. Qed.

Theorem defrag_is_empty_spec :
  forall d, (is_empty d = true <-> forall e, In e d -> e_buf e = []) /\ is_empty (clear_buffers d) = true.
Proof. exact (fun d => conj (is_empty_spec d) (clear_buffers_empty d)). Qed.

(* the hypotheses are met by the defragmenter TLSRecordLayer builds, and a concrete run *)
Example tls_defrag_meets_hypotheses : dinv tls_defrag.
Proof. exact tls_defrag_inv. Qed.

Example defrag_example :
  feed [(22, [1; 0]); (21, [2]); (22, [0; 1; 9; 2]); (21, [40]); (22, [0; 0; 0])] tls_defrag
  = Ok ([(22, [1; 0; 0; 1; 9]); (21, [2; 40]); (22, [2; 0; 0; 0])],
        [(20, Static 1, []); (21, Static 2, []); (22, Dynamic 1 3, [])]).
Proof. vm_compute. reflexivity. Qed.

(* ---- AsyncStateMachine ------------------------------------------------------------------------- *)
From TV Require Import Model.C14_AsyncSM Proofs.C14_AsyncSM.

(* driving an operation through AsyncStateMachine = running the generator to completion: for ANY
   operation that suspends any number of times on 0 (wants read) or 1 (wants write) and ANY
   sequence of read/write events of that length, next() is called once per event, no exception
   arises, completion is reported exactly once and the machine is idle again.  Stated for a
   handshake operation AND for a READ operation -- in particular a read that has to write
   (answering KeyUpdate / close_notify / heartbeat / post-handshake auth under would-block yields
   1): write events resume the reader and the data is delivered exactly once. *)
Theorem asm_runs_generator_to_completion :
  forall ys evs, all01 ys = true -> length evs = length ys -> forallb is_io evs = true ->
  (snd (asm_trace (SetHandshake (yields01 ys) :: evs) asm_idle) = asm_idle /\
   no_exn (fst (asm_trace (SetHandshake (yields01 ys) :: evs) asm_idle)) /\
   events (fst (asm_trace (SetHandshake (yields01 ys) :: evs) asm_idle)) = [EConnect]) /\
  (forall v, is01 v = false ->
   snd (asm_trace (InRead (yields01 ys ++ [GY v]) :: evs) asm_idle) = asm_idle /\
   no_exn (fst (asm_trace (InRead (yields01 ys ++ [GY v]) :: evs) asm_idle)) /\
   events (fst (asm_trace (InRead (yields01 ys ++ [GY v]) :: evs) asm_idle)) = [ERead v]).
Proof. exact (fun ys evs H1 H2 H3 =>
  conj (asm_handshake_completes ys evs H1 H2 H3) (fun v Hv => asm_read_completes ys evs v H1 Hv H2 H3)). Qed.

(* while a reader is suspended on a write the machine asks for a write event, and that event
   (like a read event) resumes the reader *)
Theorem asm_reader_waiting_to_write :
  forall g c, is_io c = true ->
  wants_write (running_rd 1 g) = Some true /\ wants_read (running_rd 1 g) = Some false /\
  asm_call c (running_rd 1 g) = do_read g (running_rd 1 g).
Proof. exact (fun g c Hc => conj (proj1 (reader_wants_write g)) (conj (proj2 (reader_wants_write g))
                (io_call_running_rd 1 g c eq_refl Hc))). Qed.

Example asm_read_that_writes_example :
  fst (asm_trace [InRead [GY 0; GY 1; GY 1; GY 77]; InRead []; InWrite; InWrite] asm_idle)
  = [([], None, Some true, Some false); ([], None, Some false, Some true);
     ([], None, Some false, Some true); ([ERead 77], None, None, None)].
Proof. vm_compute. reflexivity. Qed.

(* single active operation: starting another one while one is active is refused *)
Theorem asm_single_active :
  forall m g, 0 < active_ops m ->
  asm_call (SetHandshake g) m = fail XAssert /\
  asm_call (SetClose g) m = fail XAssert /\
  asm_call (SetWrite g) m = fail XAssert.
Proof. exact single_active. Qed.

Example asm_example :
  fst (asm_trace [SetHandshake (yields01 [0; 1]); InRead []; InWrite; InRead [GY 0; GY 77]; InWrite] asm_idle)
  = [([], None, Some true, Some false); ([], None, Some false, Some true);
     ([EConnect], None, None, None); ([], None, Some true, Some false); ([ERead 77], None, None, None)].
Proof. vm_compute. reflexivity. Qed.

(* ---- blocking wrappers ------------------------------------------------------------------------- *)
From TV Require Import Gen.C14_Wrappers Proofs.C14_Wrappers.

(* every blocking entry point (handshakeClient*, handshakeServer, read, write, close,
   send_heartbeat_request, MessageSocket.*Blocking) only drains the generator of its asynchronous
   counterpart and hands it EVERY one of its parameters, each to the parameter of the same name
   (table extracted from the ast of /repo on every run) *)
Theorem blocking_wrappers_forward_every_parameter : forallb wrapper_ok wrappers = true.
Proof. exact wrappers_forward. Qed.

(* ---- one read()/poll call ------------------------------------------------------------------------ *)
From TV Require Import Model.C14_ReadLoop Proofs.C14_ReadLoop.

(* what a call returns plus what stays buffered is what was buffered plus the data of the messages
   it consumed (nothing lost, duplicated or reordered), tickets are counted once, a suspended
   call has consumed everything that was sent *)
Theorem read_call_conserves :
  forall mx mn ms t st,
  let '(r, st', ms') := read_loop mx mn t st ms in
  exists consumed, ms = consumed ++ ms' /\
    delivered r ++ r_buf st' = r_buf st ++ data_of consumed /\
    r_tickets st' = r_tickets st + n_tickets consumed /\
    (r = RPending -> ms' = []).
Proof. exact read_loop_conserves. Qed.

(* a poll (min <= 0, empty buffer) handles exactly ONE message -- whatever else has already
   arrived -- unless that message is a KeyUpdate, which is transparent to the call *)
Theorem poll_handles_exactly_one_message :
  forall mx mn m ms st,
  mn <= 0 -> r_buf st = [] -> r_closed st = false -> m <> MKeyUpdate ->
  read_call mx mn st (m :: ms) =
  (fst (finish mx (fst (handle m st))), snd (finish mx (fst (handle m st))), ms).
Proof. exact poll_one_message. Qed.

Theorem keyupdate_is_transparent_to_a_call :
  forall mx mn ms st, loop_cond mn true st = true ->
  read_call mx mn st (MKeyUpdate :: ms) = read_call mx mn st ms.
Proof. exact keyupdate_transparent. Qed.

Example poll_example :
  read_stages [([MTicket; MTicket; MData [1; 2; 3]], [(None, 0); (None, 0); (None, 0); (None, 0)])] r_init []
  = [(RBytes [], 1, false); (RBytes [], 2, false); (RBytes [1; 2; 3], 2, false); (RPending, 2, false)].
Proof. vm_compute. reflexivity. Qed.

(* ---- the sender's own fragmentation ----------------------------------------------------------- *)
From TV Require Import Model.C14_Fragment Proofs.C14_Fragment.

(* _sendMsg for EVERY record size k >= 1 and every message: the record payloads concatenate to the
   message, each carries between 1 and k bytes; only an empty message gives a single empty record
   (so no zero-length handshake/heartbeat record is ever produced, whatever divides what) *)
Theorem sender_fragmentation_exact :
  forall k buf, 1 <= k ->
  concat (fragment k buf) = buf /\
  Forall (fun r => zlen r <= k) (fragment k buf) /\
  (buf <> [] -> Forall (fun r => 1 <= zlen r) (fragment k buf)) /\
  (buf = [] -> fragment k buf = [[]]).
Proof. exact fragment_spec. Qed.

Example fragment_example : fragment 4 [1; 2; 3; 4; 5; 6; 7; 8] = [[1; 2; 3; 4]; [5; 6; 7; 8]].
Proof. vm_compute. reflexivity. Qed.
