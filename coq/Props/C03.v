(* Property C03 -- statements only; proofs live in Proofs/C03_Negotiate.v and C03_Witness.v.
   `negotiate c s` is the untampered run of a client configuration against a server
   configuration in Model/C03_Negotiate.v (tables regenerated from /repo on every run). *)
From Coq Require Import ZArith List Bool.
From TV Require Import Base.Prelude Gen.C03Tables Model.C03_Negotiate Model.C03_Resume Gen.C03Defaults
                       Proofs.C03_Negotiate Proofs.C03_Resume Proofs.C03_Witness.
Import ListNotations.
Open Scope Z_scope.

(* ---- both ends hold the same values ----------------------------------------------------------
   FULL STATEMENT (property text): if negotiate c s = Ok o then client view = server view field by
   field: version, suite, EtM, EMS, ALPN, NPN, SNI, record limits (send paired with the peer's
   recv), the inputs of the master / traffic / exporter secrets, and both certificate chains.
   Proved for every field except the two chains; for the chains the full statement is false of
   the faithful model (refuted below, witnesses replayed on the implementation by the harness)
   and the proved part carries the side condition under which it holds. *)
Theorem views_agree_partial : forall c s o, negotiate c s = Ok o ->
  let cv := oc_client o in let sv := oc_server o in
  vw_version cv = vw_version sv /\ vw_suite cv = vw_suite sv /\ vw_etm cv = vw_etm sv /\
  vw_ems cv = vw_ems sv /\ vw_alpn cv = vw_alpn sv /\ vw_npn cv = vw_npn sv /\ vw_sni cv = vw_sni sv /\
  vw_send_limit cv = vw_recv_limit sv /\ vw_recv_limit cv = vw_send_limit sv /\
  vw_secret cv = vw_secret sv.
Proof. exact views_agree_core_all. Qed.

Theorem server_chain_agrees_partial : forall c s o, negotiate c s = Ok o ->
  fl_psk (oc_flight o) = None -> memZ (vw_suite (oc_server o)) dheDsaSuites = false ->
  vw_server_chain (oc_client o) = vw_server_chain (oc_server o).
Proof. exact server_chain_agrees. Qed.

(* with /repo edfc2c2 (flag regenerated from the tree) the DHE_DSS exception is gone: the server chain agrees
   whenever a certificate was used at all (no PSK) *)
Theorem server_chain_agrees_if_repaired : forall c s o, negotiate c s = Ok o -> fix_dhe_dsa_chain = true ->
  fl_psk (oc_flight o) = None ->
  vw_server_chain (oc_client o) = vw_server_chain (oc_server o).
Proof. exact server_chain_agrees_repaired. Qed.

Theorem client_chain_agrees_partial : forall c s o, negotiate c s = Ok o ->
  (vw_version (oc_server o) <= 3 \/ fl_cert_req (oc_flight o) <> None \/ cl_cert c = None) ->
  vw_client_chain (oc_client o) = vw_client_chain (oc_server o).
Proof. exact client_chain_agrees. Qed.

Theorem views_agree_refuted_client_chain :
  exists c s o, negotiate c s = Ok o /\ vw_client_chain (oc_client o) <> vw_client_chain (oc_server o).
Proof. exact views_agree_refuted_client_chain_pf. Qed.

Theorem views_agree_refuted_server_chain : refuted_unless fix_dhe_dsa_chain
  (exists c s o, negotiate c s = Ok o /\ vw_server_chain (oc_client o) <> vw_server_chain (oc_server o)).
Proof. exact views_agree_refuted_server_chain_pf. Qed.

(* same view => same exporter output (or the same refusal), whatever the PRF/HKDF functions are *)
Theorem exporter_agrees : forall prf10 prf12 hkdf c s o label len, negotiate c s = Ok o ->
  exporter prf10 prf12 hkdf (oc_client o) label len = exporter prf10 prf12 hkdf (oc_server o) label len.
Proof. exact exporter_agrees_pf. Qed.

(* ---- every negotiated parameter lies inside both policies -------------------------------------
   FULL STATEMENT: negotiate c s = Ok o implies version, suite (cipher, MAC, key exchange), group /
   DH size, signature scheme and peer key size are allowed by the client's AND the server's
   settings and the suite is defined for the version.  Proved below except for three points where
   it is false of the faithful model (each refuted with a witness):
     (a) the server's version is only inside its `versions` list, not inside [minVersion,maxVersion];
     (b) the client does not compare a DH group size with minKeySize/maxKeySize;
     (c) a TLS 1.3 server does not compare a client key with minKeySize/maxKeySize. *)
Theorem selected_within_both_partial : forall c s o, negotiate c s = Ok o ->
  let v := vw_version (oc_server o) in let suite := vw_suite (oc_server o) in
  (* version *)
  (st_minV (cl_set c) <= v /\ (v <= st_maxV (cl_set c) \/ In v (st_versions (cl_set c)))) /\
  (versions_clipped (sv_set s) -> st_minV (sv_set s) <= v <= st_maxV (sv_set s)) /\
  (* suite: MAC class, cipher and key exchange each enabled by name on both sides; defined for v *)
  suite_within (cl_set c) (st_maxV (cl_set c)) suite /\ suite_within (sv_set s) v suite /\
  suite_in_version v v suite = true /\
  (* group (ECDHE curve, RFC 7919 group, TLS 1.3 key share group) *)
  (forall g, fl_group (oc_flight o) = Some g ->
     In g (server_groups_policy (sv_set s)) /\ In g (client_groups_policy (cl_set c))) /\
  (* signature scheme of ServerKeyExchange / CertificateVerify *)
  (forall sg, fl_sig (oc_flight o) = Some sg ->
     In sg (client_sigalgs (cl_set c)) /\
     In sg (sig_hashes_to_list (sv_set s) false (sv_cert s) (if v <=? 3 then 3 else v))) /\
  (* peer key sizes *)
  (forall sc, fl_cert (oc_flight o) = Some sc -> sized_key sc ->
     st_min_key (cl_set c) <= ct_bits sc <= st_max_key (cl_set c)) /\
  (forall id, v <= 3 -> vw_client_chain (oc_server o) = Some id ->
     exists mc, oc_client_cert o = Some mc /\ ct_id mc = id /\
                (sized_key mc -> st_min_key (sv_set s) <= ct_bits mc <= st_max_key (sv_set s))).
Proof. exact selected_within_both_partial_pf. Qed.

(* the model takes any Settings record; once validate() clips `versions` (flag probed on the tree) such a
   record can no longer reach a handshake and this refutation is vacuous *)
Theorem selected_within_both_refuted_server_version : refuted_unless fix_versions_clipped
  (exists c s o, negotiate c s = Ok o /\ st_maxV (sv_set s) < vw_version (oc_server o)).
Proof. exact selected_within_both_refuted_server_version_pf. Qed.

(* `refuted_unless flag P`: P holds of the model of the tree as generated, unless the tree already
   carries the proposed repair (flag regenerated from /repo in Gen/C03Tables.v), in which case the
   conditional positive theorem below applies instead. *)
Theorem selected_within_both_refuted_dh_size : refuted_unless fix_dh_size
  (exists c s o b, negotiate c s = Ok o /\ si_dh_bits (vw_secret (oc_client o)) = Some b /\
                   b < st_min_key (cl_set c)).
Proof. exact selected_within_both_refuted_dh_size_pf. Qed.

Theorem selected_within_both_refuted_client_key_tls13 : refuted_unless fix_tls13_client_key
  (exists c s o mc, negotiate c s = Ok o /\ vw_client_chain (oc_server o) = Some (ct_id mc) /\
                    oc_client_cert o = Some mc /\ ct_bits mc < st_min_key (sv_set s)).
Proof. exact selected_within_both_refuted_client_key_tls13_pf. Qed.

(* with the proposed repairs present the two holes (b) and (c) close *)
Theorem dh_size_within_client_if_repaired : forall c s o b, negotiate c s = Ok o -> fix_dh_size = true ->
  kex_of (fl_suite (oc_flight o)) = 1 -> fl_dh_bits (oc_flight o) = Some b ->
  st_min_key (cl_set c) <= b <= st_max_key (cl_set c).
Proof. exact dh_size_within_client_repaired. Qed.

Theorem client_key_size_within_server_if_repaired : forall c s o id, negotiate c s = Ok o ->
  fix_tls13_client_key = true -> vw_client_chain (oc_server o) = Some id ->
  exists mc, oc_client_cert o = Some mc /\ ct_id mc = id /\
             (sized_key mc -> st_min_key (sv_set s) <= ct_bits mc <= st_max_key (sv_set s)).
Proof. exact client_key_size_within_server_repaired. Qed.

(* the TLS <= 1.2 client also checks the scheme against the certificate it received *)
Theorem sig_scheme_checked_by_client : forall c s o sg sc, negotiate c s = Ok o ->
  vw_version (oc_server o) <= 3 -> fl_sig (oc_flight o) = Some sg -> fl_cert (oc_flight o) = Some sc ->
  In sg (sig_hashes_to_list (cl_set c) false (Some sc) 3).
Proof. exact sig_checked_by_client. Qed.

(* TLS 1.3 PSK key-exchange mode (0 = psk_dhe_ke, 1 = psk_ke; psk_ke iff no key share group) lies inside
   the psk_modes of both sides *)
Theorem psk_mode_within_both : forall c s o i, negotiate c s = Ok o -> fl_psk (oc_flight o) = Some i ->
  In (psk_mode_of (oc_flight o)) (st_psk_modes (cl_set c)) /\
  In (psk_mode_of (oc_flight o)) (st_psk_modes (sv_set s)).
Proof. exact psk_mode_within_both. Qed.

(* ---- resumed connections (abbreviated handshake of TLS <= 1.2; TLS 1.3 resumption is `negotiate` with the
   ticket as PSK 999 and is covered by the theorems above) -------------------------------------------------
   After negotiate c s = Ok o, a second connection between ANY configurations c2 s2 that offers the stored
   session (by ID or by ticket) and completes -- resumed, or fallen back to a full handshake -- leaves both
   ends with identical version, suite, EtM, EMS, ALPN, NPN, SNI, record limits and secret inputs.
   (Until /repo 7678352 the ALPN part was refuted: the client kept the stored session's protocol when the
   resumed ServerHello carried none -- former finding C03-15, theorem `resumed_views_agree_refuted_alpn`.) *)
Theorem resumed_views_agree : forall t c s o c2 s2 r, negotiate c s = Ok o ->
  resume_legacy t c2 s2 (oc_client o) (oc_server o) = Ok r ->
  let cv := rs_client r in let sv := rs_server r in
  vw_version cv = vw_version sv /\ vw_suite cv = vw_suite sv /\ vw_etm cv = vw_etm sv /\
  vw_ems cv = vw_ems sv /\ vw_alpn cv = vw_alpn sv /\ vw_npn cv = vw_npn sv /\ vw_sni cv = vw_sni sv /\
  vw_send_limit cv = vw_recv_limit sv /\ vw_recv_limit cv = vw_send_limit sv /\
  vw_secret cv = vw_secret sv.
Proof. exact resumed_after_negotiate. Qed.

(* ---- "otherwise the handshake fails with an alert": false of the faithful model -------------- *)
Theorem failure_is_alert_refuted : refuted_unless fix_sigalg_assert
  (exists c s, negotiate c s = Err (OtherExn 1900)).
Proof. exact failure_is_alert_refuted_pf. Qed.

(* ---- the hypotheses are satisfiable: concrete completed runs --------------------------------- *)
Example default_pair : exists o, negotiate (client_of D 0 None None) (server_of D (Some rsa2048) false false None) = Ok o
                                 /\ vw_version (oc_server o) = 4.
Proof. exact default_pair_pf. Qed.

Example default_settings_clipped : versions_clipped D.
Proof. exact default_settings_clipped_pf. Qed.
