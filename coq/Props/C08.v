(* Property C08 -- malformed peer input fails cleanly, promptly and within bounded memory.
   Statements only; proofs live in Proofs/ (hand models) and Gen/*Proof.v (generated proof
   scripts for the regenerated crash models).  Synced to /repo 7b4ef0e. *)
From Coq Require Import ZArith List Bool.
From TV Require Import Base.Prelude Base.C08_Lib Model.C08_Known Gen.HrrShChecks Proofs.C08_HelloHrrSh
                       Gen.HrrChChecks Proofs.C08_HelloHrr
                       Gen.ShChecks Proofs.C08_HelloSh
                       Gen.ChChecks Proofs.C08_Hello
                       Model.C08_Funnel Proofs.C08_Funnel Model.C08_Work Proofs.C08_Work.
Import ListNotations.
Open Scope Z_scope.

(* ---------------------------------------------------------------------------------------
   1. Crash analysis of the ClientHello well-formedness checks (_serverGetClientHello, from the
   first `ext = clientHello.getExtension(ExtensionType.supported_versions)` up to `high_ver =
   None`).  FULL statement: for EVERY abstract parsed ClientHello (every extension absent /
   present with any fields, every None-able attribute None or not, lists of any length), every
   settings value and every hostname-validity oracle, the translated checks end in OK, a fatal
   alert or TLSInternalError -- never in a Crash.
   History: before /repo commits b10bb95 and 5fb1773 this statement was FALSE of the faithful
   model; the check then carried hello_checks_crash_free_partial (crashes only at four listed
   sites), hello_checks_crash_free_refuted and hello_checks_known_sites_reachable, with witnesses
   replayed on the live server (AlertDescription.decoder_error x2; empty supported_versions x2).
   The later statements of the region rely on the fact established by its first check (an empty
   supported_versions extension is answered with decode_error): that fact (ch_pre) is PROVED at
   the first statement boundary and only then used -- see Gen/ChChecksProof.v. *)
Theorem hello_checks_crash_free :
  forall (ch : ChChecks.ClientHello_r) (st : ChChecks.Settings_r) (ivh : list Z -> bool),
    C08_Lib.ncrash (ChChecks.ChChecks ch st ivh).
Proof. exact ch_crash_free_l. Qed.

(* a well-formed hello passes; the four former refutation witnesses now end in decode_error *)
Example hello_checks_pass_example : ChChecks.ChChecks w_good st0 ivh0 = C08_Lib.OK tt.
Proof. exact ch_good_ok. Qed.
Example hello_checks_former_witnesses :
  ChChecks.ChChecks w_empty_identity st0 ivh0 = C08_Lib.Alert 50 /\
  ChChecks.ChChecks w_empty_binder st0 ivh0 = C08_Lib.Alert 50 /\
  ChChecks.ChChecks w_empty_versions_12 st0 ivh0 = C08_Lib.Alert 50 /\
  ChChecks.ChChecks w_empty_versions_10 st0 ivh0 = C08_Lib.Alert 50.
Proof. exact (conj ch_former_witness_1 (conj ch_former_witness_2 (conj ch_former_witness_3 ch_former_witness_4))). Qed.

(* 1b. Crash analysis of the client's ServerHello checks (_clientGetServerHello after the
   HelloRetryRequest handling): FULL crash-freedom, for every abstract ServerHello (peer input),
   every own ClientHello, settings, optional earlier HelloRetryRequest, every value of the endpoint's
   own `self._defragmenter.is_empty()` and every result of the external CipherSuite.filterForVersion. *)
Theorem server_hello_checks_crash_free :
  forall (sh : ShChecks.ServerHello_r) (ch : ShChecks.ClientHello_r) (st : ShChecks.Settings_r)
         (hrr : option ShChecks.ServerHello_r) (defrag_is_empty : bool)
         (filterForVersion : list Z -> C08_Lib.ver -> C08_Lib.ver -> list Z),
    C08_Lib.ncrash (ShChecks.ShChecks sh ch st hrr defrag_is_empty filterForVersion).
Proof. exact sh_crash_free_l. Qed.

Example server_hello_checks_examples :
  ShChecks.ShChecks (sh_mk None) sh_ch0 sh_st0 None true keep = C08_Lib.OK tt /\
  ShChecks.ShChecks (sh_mk (Some [ShChecks.X_RecordSizeLimitExtension
                                    {| ShChecks.RecordSizeLimitExtension_record_size_limit := None |}]))
                    sh_ch0 sh_st0 None true keep = C08_Lib.Alert 50.
Proof. exact (conj sh_example_ok sh_example_alert). Qed.

(* 1c. Crash analysis of the server's validation of the SECOND ClientHello after a
   HelloRetryRequest (nested region of _serverGetClientHello: the key_share checks; the second
   hello does not pass through the checks of part 1 again).  FULL: for every abstract second
   ClientHello (key_share absent / empty body / EMPTY VECTOR / any shares) and every selected group
   the region ends in OK, a fatal alert or TLSInternalError -- never in a Crash; in particular
   `ext.client_shares[0]` is never evaluated on an empty list.
   History: before /repo 79180d8 (= proposed fix C08-17) the statement was false at the site
   len:ext.client_shares#1 (`if not ext:` tested presence only; an empty-body key_share has
   client_shares = None) and the check carried the _partial/_refuted/_known_sites_reachable forms;
   the former witness is kept as an Example and replayed (two-step exchange) on every run. *)
Theorem hrr_second_hello_checks_crash_free :
  forall (ch : HrrChChecks.ClientHello_r) (selected_group : Z),
    C08_Lib.ncrash (HrrChChecks.HrrChChecks ch selected_group).
Proof. exact hrr_crash_free_l. Qed.

Example hrr_second_hello_former_witness : HrrChChecks.HrrChChecks hrr_w_empty_body 23 = C08_Lib.Alert 50.
Proof. exact hrr_former_witness. Qed.

Example hrr_second_hello_examples :
  HrrChChecks.HrrChChecks (hrr_mk []) 23 = C08_Lib.Alert 109 /\
  HrrChChecks.HrrChChecks (hrr_mk [hrr_ks (Some [])]) 23 = C08_Lib.Alert 47 /\
  HrrChChecks.HrrChChecks (hrr_mk [hrr_ks (Some [hrr_share 23; hrr_share 29])]) 23 = C08_Lib.Alert 47 /\
  HrrChChecks.HrrChChecks (hrr_mk [hrr_ks (Some [hrr_share 29])]) 23 = C08_Lib.Alert 47 /\
  HrrChChecks.HrrChChecks (hrr_mk [hrr_ks (Some [hrr_share 23])]) 23 = C08_Lib.OK tt.
Proof. exact hrr_examples. Qed.

(* 1d. Crash analysis of the client's handling of a HelloRetryRequest (nested region of
   _clientGetServerHello: unexpected-extension test, cookie, selected group against the own
   supported_groups / key shares, "HRR changes nothing", session_id echo).  For EVERY abstract
   HelloRetryRequest (every extension absent / present / with any fields) and every result of the
   own key-share generator: no Crash -- under the HYPOTHESIS hrr_own_ok about the client's OWN
   ClientHello (it carries supported_groups and key_share, each with a list: invariant of hellos
   built for TLS 1.3 since /repo 40ad8d2, checked by the tie on every own hello observed) and the
   enclosing test (the HRR has an extension list: its supported_versions was just found).  The
   second ServerHello that follows is covered by server_hello_checks_crash_free (hrr := Some _). *)
Theorem hrr_handling_crash_free :
  forall (ch : HrrShChecks.ClientHello_r) (hrr : HrrShChecks.ServerHello_r)
         (gen_key_share : Z -> C08_Lib.ver -> HrrShChecks.KeyShareEntry_r),
    HrrShChecks.hrr_own_ok ch hrr ->
    C08_Lib.ncrash (HrrShChecks.HrrShChecks ch hrr gen_key_share).
Proof. exact hrr_sh_crash_free_l. Qed.

Example hrr_handling_hypothesis_satisfiable : HrrShChecks.hrr_own_ok hs_ch (hs_hrr [7] [hs_sv; hs_sel 23]).
Proof. exact hrr_own_ok_example. Qed.

Example hrr_handling_examples :
  HrrShChecks.HrrShChecks hs_ch (hs_hrr [7] [hs_sv; hs_sel 23]) hs_gen = C08_Lib.OK tt /\
  HrrShChecks.HrrShChecks hs_ch (hs_hrr [7] [hs_sv; hs_sel 24]) hs_gen = C08_Lib.Alert 47 /\
  HrrShChecks.HrrShChecks hs_ch (hs_hrr [7] [hs_sv]) hs_gen = C08_Lib.Alert 47.
Proof. destruct hrr_sh_examples as (A & B & _ & _ & C & _). exact (conj A (conj B C)). Qed.

(* ---------------------------------------------------------------------------------------
   2. The error funnel (hand model of _getMsg / _getNextRecordFromSocket / _sendError /
   _shutdown / readAsync / writeAsync / closeAsync / _handshakeWrapperAsync at /repo 7b4ef0e,
   i.e. with the wrapper clause of 6da5459 / 0bc7834 that turns TLSIllegalParameterException /
   TLSDecodeError / TLSDecryptionFailed into alerts and closes even when the alert cannot be
   sent).  The state distinguishes alerts handed to the real socket (`wire`) from alerts sitting
   in BufferedSocket's write queue (`queued`, flag `buffering` = sock.buffer_writes). *)
(* C08 funnel: every handshake/read/write/close call that ends by raising leaves the
   connection closed, the socket closed (if closeSocket) and the session not resumable.
   wf_event excludes exactly the holes proved as hole_* below. *)
Theorem funnel_postcondition :
  forall ly dp a sf st r st',
    wf_event ly dp a = true ->
    funnel ly dp a sf st = (Raised r, st') ->
    closed st' = true
    /\ (close_socket st = true -> sock_closed st' = true)
    /\ (has_session st = true -> keeps_resumable ly a st = false -> resumable st' = false)
    /\ has_session st' = has_session st.
Proof. exact funnel_postcondition_all. Qed.

(* a class that _getMsg / _getNextRecordFromSocket map to an alert: the fatal alert is on the
   wire before the first _shutdown, and TLSLocalAlert(d) is what the caller gets *)
Theorem funnel_alert_then_close :
  forall ly dp e d0 st o st' d,
    mapped_alert dp e = Some d ->
    layer_eqb ly LClose && closed st = false ->
    queued st = [] ->
    funnel ly dp (ARaise e d0) false st = (o, st') ->
    wire st' = wire st ++ alert_pre ly
                       ++ WAlert level_fatal d :: WShutdown false :: alert_tail ly st
    /\ queued st' = [] /\ buffering st' = false
    /\ (fault st = None -> o = Raised (mkr E_TLSLocalAlert (Some d))).
Proof. exact funnel_alert_before_close. Qed.

Theorem funnel_alert_unsendable :
  forall ly dp e d0 st o st' d,
    mapped_alert dp e = Some d ->
    layer_eqb ly LClose = false ->
    queued st = [] ->
    funnel ly dp (ARaise e d0) true st = (o, st') ->
    o = Raised (mkr E_SockError None)
    /\ (exists tail, wire st' = wire st ++ tail /\ forallb is_shutdown_ev tail = true)
    /\ queued st' = []
    /\ closed st' = true.
Proof. exact funnel_alert_send_failure. Qed.

(* since 6da5459: the three protocol-error classes reaching the handshake wrapper unconverted
   (raised directly in the handshake body, in the Checker, in the record read of
   _sendMsgThroughSocket, or TLSDecodeError / TLSDecryptionFailed in a parser) end in a fatal
   alert on the wire before closure and TLSLocalAlert (documented) for the caller *)
Theorem handshake_direct_protocol_error_alerts :
  forall dp e d0 st o st' d,
    is_pretry dp = false -> mapped_alert dp e = None -> wrapper_alert e = Some d ->
    funnel LHandshake dp (ARaise e d0) false st = (o, st') ->
    o = Raised (mkr E_TLSLocalAlert (Some d))
    /\ st' = shutdown false (send_alert_now d st)
    /\ wire st' = wire st ++ queued st ++ [WAlert level_fatal d; WShutdown false]
    /\ queued st' = [] /\ buffering st' = false
    /\ closed st' = true
    /\ (close_socket st = true -> sock_closed st' = true)
    /\ (has_session st = true -> resumable st' = false)
    /\ documented E_TLSLocalAlert = true.
Proof. exact Proofs.C08_Funnel.handshake_direct_protocol_error_alerts. Qed.

(* since 0bc7834: when that alert cannot be sent the caller gets socket.error and the
   connection is closed all the same (only the shutdown on the wire) *)
Theorem wrapper_alert_unsendable_closes :
  forall dp e d0 st o st' d,
    is_pretry dp = false -> mapped_alert dp e = None -> wrapper_alert e = Some d ->
    funnel LHandshake dp (ARaise e d0) true st = (o, st') ->
    o = Raised (mkr E_SockError None)
    /\ st' = shutdown false st
    /\ (queued st = [] -> wire st' = wire st ++ [WShutdown false])
    /\ closed st' = true
    /\ (close_socket st = true -> sock_closed st' = true)
    /\ (has_session st = true -> resumable st' = false)
    /\ documented E_SockError = true.
Proof. exact Proofs.C08_Funnel.wrapper_alert_unsendable_closes. Qed.

(* ... and these are exactly three classes (none of them has a subclass) *)
Theorem wrapper_converts_exactly :
  forall e, wrapper_alert e = match e with
                              | E_TLSIllegalParameterException => Some illegal_parameter
                              | E_TLSDecodeError => Some decode_error
                              | E_TLSDecryptionFailed => Some decrypt_error
                              | _ => None
                              end.
Proof. exact wrapper_alert_exact. Qed.

Theorem direct_illegal_parameter_alert :
  forall st,
    funnel LHandshake DDirect (ARaise E_TLSIllegalParameterException None) false st
      = (Raised (mkr E_TLSLocalAlert (Some illegal_parameter)),
         shutdown false (send_alert_now illegal_parameter st))
    /\ protocol_violation E_TLSIllegalParameterException = true
    /\ documented E_TLSIllegalParameterException = false
    /\ documented E_TLSLocalAlert = true.
Proof. exact direct_illegal_parameter_now_alert. Qed.

(* ---- _sendError writes its alert whatever the write-buffering mode (TLS <= 1.2 client between
   ServerHello and its own Finished has sock.buffer_writes set): flush, buffering off, send *)
Theorem send_error_alert_is_written_not_queued :
  forall d st,
    sendError d false st
    = (Raised (mkr E_TLSLocalAlert (Some d)), shutdown false (send_alert_now d st))
    /\ wire (send_alert_now d st) = wire st ++ queued st ++ [WAlert level_fatal d]
    /\ queued (send_alert_now d st) = []
    /\ buffering (send_alert_now d st) = false
    /\ wire (shutdown false (send_alert_now d st))
       = wire st ++ queued st ++ [WAlert level_fatal d; WShutdown false]
    /\ queued (shutdown false (send_alert_now d st)) = []
    /\ buffering (shutdown false (send_alert_now d st)) = false.
Proof. exact Proofs.C08_Funnel.send_error_alert_is_written_not_queued. Qed.

Theorem funnel_send_error_alert_written :
  forall ly dp d st o st',
    is_pretry dp = false ->
    layer_eqb ly LClose && closed st = false ->
    queued st = [] ->
    funnel ly dp (ASendError d) false st = (o, st') ->
    wire st' = wire st ++ alert_pre ly
                       ++ WAlert level_fatal d :: WShutdown false :: alert_tail ly st
    /\ queued st' = [] /\ buffering st' = false
    /\ (fault st = None -> o = Raised (mkr E_TLSLocalAlert (Some d))).
Proof. exact Proofs.C08_Funnel.funnel_send_error_alert_written. Qed.

(* ---- alerts received from the peer, for EVERY value of the level byte: what is not a warning
   and not close_notify is treated as fatal (levels 2, 0, 3, 255, ...) *)
Theorem received_non_warning_alert_closes :
  forall ly dp level descr sf st o st',
    level <> level_warning -> descr <> close_notify ->
    layer_eqb ly LClose = false -> fault st = None ->
    funnel ly dp (APeerAlert level descr) sf st = (o, st') ->
    o = Raised (mkr E_TLSRemoteAlert (Some descr))
    /\ closed st' = true
    /\ (close_socket st = true -> sock_closed st' = true)
    /\ (has_session st = true -> resumable st' = false)
    /\ (queued st = [] ->
        queued st' = []
        /\ exists tail, wire st' = wire st ++ WShutdown false :: tail
                        /\ forallb is_shutdown_ev tail = true).
Proof. exact Proofs.C08_Funnel.received_non_warning_alert_closes. Qed.

Theorem received_warning_alert_closes :
  forall ly dp descr sf st o st',
    descr <> close_notify ->
    layer_eqb ly LClose = false -> fault st = None ->
    funnel ly dp (APeerAlert level_warning descr) sf st = (o, st') ->
    o = Raised (mkr E_TLSRemoteAlert (Some descr))
    /\ closed st' = true
    /\ (close_socket st = true -> sock_closed st' = true)
    /\ (has_session st = true -> resumable st' = false).
Proof. exact Proofs.C08_Funnel.received_warning_alert_closes. Qed.

Theorem received_warning_reply_written :
  forall ly dp descr st o st',
    descr <> close_notify ->
    layer_eqb ly LClose = false -> queued st = [] ->
    buffering st = false \/ close_socket st = true ->
    funnel ly dp (APeerAlert level_warning descr) false st = (o, st') ->
    queued st' = []
    /\ exists tail, wire st' = wire st ++ WAlert level_warning close_notify :: WShutdown false :: tail
                    /\ forallb is_shutdown_ev tail = true.
Proof. exact Proofs.C08_Funnel.received_warning_reply_written. Qed.

(* hole of the code: write-buffering mode without closeSocket: the close_notify reply is only
   queued, nothing ever flushes it *)
Theorem hole_warning_reply_stays_queued :
  forall dp descr st o st',
    descr <> close_notify -> fault st = None ->
    buffering st = true -> close_socket st = false ->
    funnel LHandshake dp (APeerAlert level_warning descr) false st = (o, st') ->
    queued st' = queued st ++ [WAlert level_warning close_notify]
    /\ exists tail, wire st' = wire st ++ tail /\ forallb is_shutdown_ev tail = true.
Proof. exact received_warning_reply_stays_queued. Qed.

Theorem received_close_notify_in_read :
  forall dp level sf st,
    is_pretry dp = false ->
    exists st', funnel LRead dp (APeerAlert level close_notify) sf st = (Done, st')
                /\ closed st' = true /\ resumable st' = resumable st
                /\ (close_socket st = true -> sock_closed st' = true).
Proof. exact Proofs.C08_Funnel.received_close_notify_in_read. Qed.

Theorem received_alert_in_close :
  forall dp level descr sf st o st',
    is_pretry dp = false ->
    closed st = false ->
    funnel LClose dp (APeerAlert level descr) sf st = (o, st') ->
    closed st' = true
    /\ (close_socket st = true -> sock_closed st' = true)
    /\ (if descr =? close_notify
        then o = Done /\ resumable st' = resumable st
        else o = Raised (mkr E_TLSRemoteAlert (Some descr))
             /\ (has_session st = true -> resumable st' = false)).
Proof. exact Proofs.C08_Funnel.received_alert_in_close. Qed.

Example ex_funnel_received_level_255 :
  funnel LHandshake DParser (APeerAlert 255 40) false (init_state LHandshake)
  = (Raised (mkr E_TLSRemoteAlert (Some 40)),
     mkcst true true false false [WShutdown false] true false None false [])
  /\ funnel LRead DParser (APeerAlert 0 80) false (init_state LRead)
     = (Raised (mkr E_TLSRemoteAlert (Some 80)),
        mkcst true true true false [WShutdown false; WShutdown false] true false None false []).
Proof. exact ex_received_level_255. Qed.

Example ex_funnel_buffering_decode_error_written :
  funnel LHandshake DParser (ARaise E_DecodeError None) false
         (mkcst true false false false [] false false None true [])
  = (Raised (mkr E_TLSLocalAlert (Some 50)),
     mkcst true false false false [WAlert 2 50; WShutdown false] false false None false []).
Proof. exact ex_buffering_decode_error_written. Qed.

Theorem documented_exceptions_only :
  forall ly dp e d0 sf st r st',
    specified_ly ly dp e = true -> fault st = None ->
    funnel ly dp (ARaise e d0) sf st = (Raised r, st') ->
    documented (rclass r) = true.
Proof. exact documented_exceptions_only_all. Qed.

Theorem funnel_does_not_launder_crashes :
  forall ly dp e sf st,
    is_crash e = true ->
    layer_eqb ly LClose && closed st = false ->
    documented e = false
    /\ funnel ly dp (ARaise e None) sf st =
       (Raised (mkr e None),
        let st1 := layer_prefix ly dp (ARaise e None) st in
        if is_pretry dp then st1
        else shutdown (layer_eqb ly LWrite && ignore_abrupt st) st1).
Proof. exact funnel_passes_undocumented. Qed.

(* the residue after 6da5459: any other non-TLSAlert class raised directly in a handshake
   body still reaches the caller unchanged, socket closed, NO alert *)
Theorem direct_raise_still_without_alert :
  forall e d sf st,
    subclass e E_TLSAlert = false ->
    subclass e E_GeneratorExit = false ->
    subclass e E_StopIteration = false ->
    wrapper_alert e = None ->
    funnel LHandshake DDirect (ARaise e d) sf st = (Raised (mkr e d), shutdown false st).
Proof. exact Proofs.C08_Funnel.direct_raise_still_without_alert. Qed.

(* in the TLSProtocolException family the residue is exactly: TLSProtocolException itself,
   TLSUnexpectedMessage, TLSRecordOverflow, TLSBadRecordMAC, TLSInsufficientSecurity,
   TLSUnknownPSKIdentity, TLSHandshakeFailure -- all undocumented *)
Theorem residue_protocol_classes_exact :
  forall e, subclass e E_TLSProtocolException = true ->
    existsb (exc_eqb e) residue_protocol_classes
    = match wrapper_alert e with None => true | Some _ => false end.
Proof. exact residue_protocol_exceptions. Qed.

Theorem residue_protocol_classes_no_alert :
  forall e d sf st,
    existsb (exc_eqb e) residue_protocol_classes = true ->
    funnel LHandshake DDirect (ARaise e d) sf st = (Raised (mkr e d), shutdown false st)
    /\ subclass e E_TLSProtocolException = true
    /\ documented e = false.
Proof. exact residue_direct_no_alert. Qed.

(* readAsync / writeAsync / closeAsync have no such conversion *)
Theorem other_layers_direct_protocol_error_no_alert :
  forall ly e d0 sf st d,
    layer_eqb ly LHandshake = false ->
    layer_eqb ly LClose && closed st = false ->
    wrapper_alert e = Some d ->
    funnel ly DDirect (ARaise e d0) sf st
    = (Raised (mkr e d0), shutdown (layer_eqb ly LWrite && ignore_abrupt st) st)
    /\ documented e = false.
Proof. exact Proofs.C08_Funnel.other_layers_direct_protocol_error_no_alert. Qed.

Theorem tls_protocol_exceptions_are_undocumented :
  forall e, subclass e E_TLSProtocolException = true -> documented e = false.
Proof. exact protocol_exceptions_undocumented. Qed.

Theorem hole_generator_exit :
  forall ly dp sf st,
    layer_eqb ly LClose && closed st = false ->
    funnel ly dp (ARaise E_GeneratorExit None) sf st
    = (Raised (mkr E_GeneratorExit None), layer_prefix ly dp (ARaise E_GeneratorExit None) st).
Proof. exact generator_exit_leaves_open. Qed.

Theorem hole_wrapper_reraises_alert_without_shutdown :
  forall dp d sf st,
    fault st = None ->
    funnel LHandshake dp (ARaise E_TLSRemoteAlert d) sf st = (Raised (mkr E_TLSRemoteAlert d), st).
Proof. exact wrapper_reraises_alert_without_shutdown. Qed.

Theorem hole_checker_alert_leaves_connection_open :
  exists st st',
    funnel LHandshake DChecker (ARaise E_TLSLocalAlert (Some 80)) false st
      = (Raised (mkr E_TLSLocalAlert (Some 80)), st')
    /\ closed st' = false /\ sock_closed st' = false /\ resumable st' = true.
Proof. exact checker_alert_leaves_connection_open. Qed.

Theorem hole_write_ignore_abrupt :
  forall e d sf st r st',
    ignore_abrupt st = true ->
    funnel LWrite DDirect (ARaise e d) sf st = (Raised r, st') ->
    resumable st' = resumable st.
Proof. exact write_ignore_abrupt_keeps_resumable. Qed.

(* readAsync before its try; since 8b57b65 also writeAsync's "closed" test (by design: a
   write on a closed connection no longer touches the session) *)
Theorem hole_read_pretry :
  forall e d sf st,
    subclass e E_StopIteration = false ->
    funnel LRead DPreTry (ARaise e d) sf st = (Raised (mkr e d), st).
Proof. exact read_pretry_no_shutdown. Qed.

Theorem write_on_closed_leaves_session_alone :
  forall sf st,
    funnel LWrite DPreTry (ARaise E_TLSClosedConnectionError None) sf st
    = (Raised (mkr E_TLSClosedConnectionError None), st)
    /\ documented E_TLSClosedConnectionError = true.
Proof. exact write_closed_pretry. Qed.

Theorem hole_close_notify_keeps_resumable :
  forall l sf st,
    fault st = None ->
    exists st', funnel LHandshake DParser (APeerAlert l close_notify) sf st
                = (Raised (mkr E_TLSRemoteAlert (Some close_notify)), st')
                /\ closed st' = true /\ resumable st' = resumable st.
Proof. exact close_notify_keeps_resumable. Qed.

(* since 0ab9df1: a handshake record cannot be sent and the pending record is not an alert:
   _shutdown(False), then the socket error (no longer swallowed) *)
Theorem failed_handshake_send_reports_socket_error :
  forall sf st,
    funnel LHandshake DRecOnly AShutRaiseSock sf st
    = (Raised (mkr E_SockError None), shutdown false (shutdown false st)).
Proof. exact failed_handshake_send_no_alert_pending. Qed.

Example ex_funnel_read_bad_mac :
  wf_event LRead DRecord (ARaise E_TLSBadRecordMAC None) = true
  /\ mapped_alert DRecord E_TLSBadRecordMAC = Some bad_record_mac
  /\ funnel LRead DRecord (ARaise E_TLSBadRecordMAC None) false (init_state LRead)
     = (Raised (mkr E_TLSLocalAlert (Some 20)),
        mkcst true true true false [WAlert 2 20; WShutdown false; WShutdown false]
              true false None false []).
Proof. exact ex_read_bad_mac. Qed.

Example ex_funnel_handshake_decode_error :
  specified DParser E_DecodeError = true
  /\ funnel LHandshake DParser (ARaise E_DecodeError None) false (init_state LHandshake)
     = (Raised (mkr E_TLSLocalAlert (Some 50)),
        mkcst true true false false [WAlert 2 50; WShutdown false] true false None false []).
Proof. exact ex_handshake_decode_error. Qed.

Example ex_funnel_handshake_direct_decryption_failed :
  specified_ly LHandshake DDirect E_TLSDecryptionFailed = true
  /\ is_pretry DDirect = false /\ mapped_alert DDirect E_TLSDecryptionFailed = None
  /\ wrapper_alert E_TLSDecryptionFailed = Some decrypt_error
  /\ funnel LHandshake DDirect (ARaise E_TLSDecryptionFailed None) false (init_state LHandshake)
     = (Raised (mkr E_TLSLocalAlert (Some 51)),
        mkcst true true false false [WAlert 2 51; WShutdown false] true false None false []).
Proof. exact ex_handshake_direct_decryption_failed. Qed.

Example ex_funnel_crash_attribute_error :
  is_crash E_AttributeError = true
  /\ funnel LHandshake DParser (ARaise E_AttributeError None) false (init_state LHandshake)
     = (Raised (mkr E_AttributeError None),
        mkcst true true false false [WShutdown false] true false None false []).
Proof. exact ex_crash_attribute_error. Qed.


(* ---------------------------------------------------------------------------------------
   3. Bounded work and memory of the parsers (hand model Model/C08_Work.v: cost-instrumented
   Parser primitives and every list-parsing loop built on them, explicit fuel = |input|+1;
   the decompressor is an oracle with the ASSUMED contract "output never exceeds the limit";
   synced to /repo 0a4bdcb: ClientHello.parse rejects duplicate extension types after the loop
   (6da5459), the zlib path calls decompressobj(15).decompress(data, expected_length+1) and rejects
   any leftover (e070e0f) -- the real zlib call now satisfies the contract;
   synced to /repo 79180d8: EncryptedExtensions.parse and CertificateRequest._parse_tls13 reject
   duplicate extension types too (7769c7a) = parse_ext_list_nodup; the loops left WITHOUT a
   duplicate test are NewSessionTicket.parse (= parse_ext_list) and the per-entry extension list of
   CertificateEntry.parse (inside parse_cert_list)). *)
(* Every parsing loop, run on ANY byte string bs with fuel |bs|+1, never returns Err OutOfFuel
   (each iteration strictly consumes input) and takes <= c*|bs|+c0 model steps.
   linear_work f c c0 := forall bs, bytes_ok bs ->
                           m_out (f bs) <> Err OutOfFuel /\ 0 <= m_steps (f bs) <= c * zlen bs + c0 *)
Theorem parser_work_linear :
  linear_work parse_ext_list 1 4 /\
  linear_work parse_ext_list_nodup 2 4 /\
  linear_work parse_client_hello_exts 8 13 /\
  linear_work parse_sni 2 5 /\
  linear_work parse_alpn 3 4 /\
  linear_work parse_npn 3 3 /\
  linear_work parse_key_shares 1 5 /\
  linear_work parse_psk 3 9 /\
  linear_work parse_status_request 2 7 /\
  (forall len ll, 1 <= len -> 0 <= ll -> linear_work (parse_var_list len ll) 2 4) /\
  (forall el en ll, 1 <= el -> 1 <= en -> 0 <= ll -> linear_work (parse_var_tuple_list el en ll) 5 4) /\
  (forall len cnt, 1 <= len -> linear_work (p_fix_list len cnt) 2 3) /\
  (forall chk, (forall c, chk c <> Some OutOfFuel) ->
     linear_work (parse_cert_list chk) 3 13 /\ linear_work (parse_cert_list12 chk) 1 5) /\
  linear_work parse_ca_list 2 4 /\
  (forall tls12, linear_work (parse_cert_request12 tls12) 5 13) /\
  (forall B (h : Z -> list Z -> M B) ch kh cah kah Cs Ca,
     0 <= ch -> 0 <= kh -> 0 <= cah -> 0 <= kah -> (forall t, top ch kh cah kah (h t)) ->
     ch <= Cs -> cah + 1 <= Ca -> ch * 4 + (kh + 3) + 1 <= Cs * 4 -> (cah + 1) * 4 + kah + 1 <= Ca * 4 ->
     linear_work (parse_ext_list_with h) Cs (kh + 4)).
Proof. exact parser_work_linear_all. Qed.

(* the per-iteration fact behind it: whenever a loop body parses an element -- zero-length
   elements included -- strictly fewer bytes remain *)
Theorem loop_bodies_strictly_consume :
  strictly_consumes sni_elem /\ strictly_consumes alpn_elem /\ strictly_consumes (p_var 1) /\
  strictly_consumes (p_var 2) /\ strictly_consumes key_share_elem /\
  strictly_consumes psk_identity_elem /\
  (forall B (h : Z -> list Z -> M B), (forall t, top 0 0 0 0 (h t)) -> strictly_consumes (ext_elem h)) /\
  strictly_consumes (ext_elem h_client_hello) /\
  (forall chk, (forall c, chk c <> Some OutOfFuel) ->
     strictly_consumes (cert_entry chk) /\ strictly_consumes (cert12_elem chk)) /\
  (forall len, 1 <= len -> strictly_consumes (p_get len)) /\
  (forall el en, 1 <= el -> 0 < en -> strictly_consumes (run_loop Count (p_get el) en)).
Proof. exact loop_bodies_strictly_consume_all. Qed.

(* allocation (bytes + list cells) <= c*|bs|+c0, on the failing paths too;
   CompressedCertificate: UNDER THE ASSUMED CONTRACT of the decompressor (first premise); the
   decompressor is called with limit expected_length+1 and returns (output, stopped cleanly) *)
Theorem alloc_bounded :
  linear_alloc parse_ext_list 2 1 /\
  linear_alloc parse_ext_list_nodup 3 1 /\
  linear_alloc parse_client_hello_exts 5 3 /\
  linear_alloc parse_sni 2 1 /\
  linear_alloc parse_alpn 2 1 /\
  linear_alloc parse_npn 2 1 /\
  linear_alloc parse_key_shares 2 1 /\
  linear_alloc parse_psk 2 2 /\
  linear_alloc parse_status_request 2 1 /\
  (forall len ll, 1 <= len -> 0 <= ll -> linear_alloc (parse_var_list len ll) 2 (256 ^ ll)) /\
  (forall el en ll, 1 <= el -> 1 <= en -> 0 <= ll -> linear_alloc (parse_var_tuple_list el en ll) 4 2) /\
  (forall len cnt, 1 <= len -> linear_alloc (p_fix_list len cnt) 2 (Z.max 0 cnt + 1)) /\
  (forall chk, (forall c, chk c <> Some OutOfFuel) ->
     linear_alloc (parse_cert_list chk) 4 2 /\ linear_alloc (parse_cert_list12 chk) 2 1) /\
  linear_alloc parse_ca_list 2 1 /\
  (forall tls12, linear_alloc (parse_cert_request12 tls12) 4 259) /\
  (forall (dec : list Z -> Z -> res (list Z * bool)) (algo_ok : Z -> bool),
     (forall d lim out clean, 0 <= lim -> dec d lim = Ok (out, clean) -> zlen out <= lim) ->
     (forall data expected, 0 <= expected ->
        0 <= m_alloc (decompress_cert dec data expected) <= expected + 1 /\
        match m_out (decompress_cert dec data expected) with
        | Ok out => zlen out = expected
        | Err e => e = BadCertificateErr
        end) /\
     (forall bs, bytes_ok bs ->
        m_out (parse_compressed_cert dec algo_ok bs) <> Err OutOfFuel /\
        0 <= m_steps (parse_compressed_cert dec algo_ok bs) <= 6 /\
        0 <= m_alloc (parse_compressed_cert dec algo_ok bs) <= zlen bs + 16777216 /\
        (forall algo expected out,
           m_out (parse_compressed_cert dec algo_ok bs) = Ok (algo, expected, out) ->
           zlen out = expected /\ 0 <= expected <= 16777215))).
Proof. exact alloc_bounded_all. Qed.

(* Defragmenter: draining a buffer of n bytes of handshake data returns the messages in order,
   in <= n/4+1 get_message calls, allocating <= n bytes; what stays buffered is an incomplete
   message (<= 2^24+2 bytes: the ONLY cap); bytes moved by "del buf[:length]" are bounded
   QUADRATICALLY (8*moved <= n^2) -- and that bound is attained (defrag_moves_quadratic) *)
Theorem defrag_bound :
  (forall buf, bytes_ok buf ->
     exists ms r it al mv,
       defrag_get_messages buf = Ok (ms, r, it, al, mv) /\
       concat ms ++ r = buf /\ hs_size r = None /\ zlen r <= 16777218 /\
       1 <= it /\ 4 * (it - 1) <= zlen buf /\
       0 <= al <= zlen buf /\
       0 <= mv /\ 8 * mv <= zlen buf * zlen buf) /\
  (forall size buf, 1 <= size -> bytes_ok buf ->
     exists ms r it al mv,
       defrag_get_static size buf = Ok (ms, r, it, al, mv) /\
       concat ms ++ r = buf /\ zlen r < size /\
       1 <= it /\ size * (it - 1) <= zlen buf /\
       0 <= al <= zlen buf /\
       0 <= mv /\ 2 * size * mv <= zlen buf * zlen buf).
Proof. exact defrag_bound_stmt. Qed.

(* ASN1Parser: "for i in range(getChildCount()): getChild(i)" is QUADRATIC in the value length
   (ocsp.py only; not reached from the TLS state machine); never out of fuel *)
Theorem asn1_children_quadratic : forall value, bytes_ok value ->
  m_out (asn1_all_children value) <> Err OutOfFuel /\
  0 <= 2 * m_steps (asn1_all_children value) <= 3 * zlen value * zlen value + 12 * zlen value + 10 /\
  0 <= 2 * m_alloc (asn1_all_children value) <= 3 * zlen value * zlen value + 5 * zlen value + 2.
Proof. exact asn1_all_children_quadratic. Qed.

(* hypotheses are satisfiable, statements are not vacuous, the contract is load-bearing *)
Example decompressor_contract_satisfiable :
  forall d lim out clean, 0 <= lim -> rle_dec_limited d lim = Ok (out, clean) -> zlen out <= lim.
Proof. exact rle_dec_limited_bounded. Qed.
Example decompressor_contract_needed :
  m_out (decompress_cert rle_dec_unlimited [200; 0] 10) = Err BadCertificateErr /\
  m_alloc (decompress_cert rle_dec_unlimited [200; 0] 10) = 200 /\
  ~ (forall d lim out clean, 0 <= lim -> rle_dec_unlimited d lim = Ok (out, clean) -> zlen out <= lim).
Proof. exact unlimited_decompressor_breaks_bound. Qed.
Example decompressor_limited_example :
  decompress_cert rle_dec_limited [200; 0] 10 = (Err BadCertificateErr, 1, 11) /\
  decompress_cert rle_dec_limited [3; 7; 2; 9] 5 = (Ok [7; 7; 7; 9; 9], 1, 5).
Proof. exact limited_decompressor_example. Qed.
Example cert_oracle_hyp_satisfiable : forall c : list Z, (fun _ : list Z => @None exn) c <> Some OutOfFuel.
Proof. exact cert_oracle_example. Qed.
Example ext_handler_hyp_satisfiable : forall t, top 3 9 2 2 (h_client_hello t).
Proof. exact h_client_hello_top. Qed.
Example work_bytes_example : bytes_ok [0;0;0;5;0;3;0;0;0; 0;16;0;5;0;3;2;104;50; 171;171;0;2;7;7].
Proof. exact bytes_ok_example. Qed.
Example work_client_hello_exts_example :
  parse_client_hello_exts [0;0;0;5;0;3;0;0;0; 0;16;0;5;0;3;2;104;50; 171;171;0;2;7;7]
  = (Ok [(0, [(0, [])]); (16, [(0, [104; 50])]); (43947, [(-3, [7; 7])])], 27, 42).
Proof. exact client_hello_exts_example. Qed.
Example work_ext_list_nodup_example :
  parse_ext_list_nodup [171;171;0;1;7; 171;172;0;0] = (Ok [(43947, [7]); (43948, [])], 11, 13) /\
  parse_ext_list_nodup [171;171;0;1;7; 171;171;0;0] = (Err DecodeError, 11, 13) /\
  parse_ext_list [171;171;0;1;7; 171;171;0;0] = (Ok [(43947, [7]); (43947, [])], 9, 11).
Proof. exact ext_list_nodup_example. Qed.
Example work_client_hello_duplicate_example :
  parse_client_hello_exts [0;0;0;0; 171;171;0;0; 0;0;0;0] = (Err DecodeError, 16, 18).
Proof. exact client_hello_duplicate_example. Qed.
Example work_sni_zero_length_example :
  parse_sni [0;6;0;0;0;0;0;0] = (Ok (Some [(0, []); (0, [])]), 10, 10) /\
  parse_sni [0;6;0;0;0;0;0] = (Err DecodeError, 8, 8).
Proof. exact sni_zero_length_example. Qed.
Example defrag_moves_quadratic :
  (match defrag_get_messages (empty_msgs 100) with Ok (_, _, it, al, mv) => (it, al, mv) | Err _ => (0, 0, 0) end)
    = (101, 400, 19800) /\
  (match defrag_get_messages (empty_msgs 200) with Ok (_, _, it, al, mv) => (it, al, mv) | Err _ => (0, 0, 0) end)
    = (201, 800, 79600).
Proof. exact defrag_quadratic_witness. Qed.
