(* Property C15 -- statements only; proofs live in Proofs/C15_*.v.
   fmt / encode / decode: Model/C15_Fmt.v;  format terms: Model/C15_Messages.v;
   Writer / Parser primitives: Model/C15_Codec.v. *)
From Coq Require Import ZArith List Bool.
From TV Require Import Base.Prelude Model.C15_Codec Model.C15_Fmt Model.C15_Messages
  Proofs.C15_Codec Proofs.C15_Top.
Import ListNotations.
Open Scope Z_scope.

(* Whatever the encoder produces parses back to the same value with nothing left over
   (for EVERY value: an encoding that lost or wrapped a field could not satisfy this). *)
Theorem decode_encode : forall f v bs,
  wf_fmt f -> encode f v = Ok bs -> decode f bs = Ok (v, []).
Proof. exact decode_encode_top. Qed.

(* hence distinct values never share an encoding: an absent list (None), an empty list and a
   one-element list, or an absent and an empty string, stay distinct on the wire *)
Theorem encode_injective : forall f v1 v2 bs,
  wf_fmt f -> encode f v1 = Ok bs -> encode f v2 = Ok bs -> v1 = v2.
Proof. exact encode_injective_top. Qed.

(* ... and, for self-delimiting formats, whatever follows the encoding is left untouched *)
Theorem decode_encode_delim : forall f v bs r,
  wf_fmt f -> delim f -> encode f v = Ok bs -> decode f (bs ++ r) = Ok (v, r).
Proof. exact decode_encode_delim_top. Qed.

(* parse-then-write is byte-identical: what the decoder accepted is exactly the encoding
   of the value it returned, followed by the unconsumed rest (every byte string) *)
Theorem encode_decode : forall f bs v r,
  wf_fmt f -> all_bytes bs = true -> decode f bs = Ok (v, r) ->
  exists pre, bs = pre ++ r /\ encode f v = Ok pre.
Proof. exact encode_decode_top. Qed.

(* the encoder succeeds exactly on the values whose every field fits (wf_val is written
   directly from the field widths); any other value is an error, never a shorter or
   wrapped encoding; a successful encoding has exactly the specified size *)
Theorem encode_never_truncates : forall f v,
  ((exists bs, encode f v = Ok bs) <-> wf_val f v) /\
  (~ wf_val f v -> is_ok (encode f v) = false) /\
  (forall bs, encode f v = Ok bs -> zlen bs = vsize f v).
Proof. exact encode_never_truncates_top. Qed.

(* Writer.add / add_var_bytes: in range => the exact big-endian bytes; out of range => ValueError *)
Theorem writer_never_wraps : forall w x n,
  (forall w', w_add w x n = Ok w' <-> (0 <= n /\ 0 <= x < 256 ^ n) /\ w' = w ++ be_bytes (Z.to_nat n) x) /\
  (~ (0 <= n /\ 0 <= x < 256 ^ n) -> w_add w x n = Err ValueError) /\
  (forall d, 256 ^ n <= zlen d -> w_add_var_bytes w d n = Err ValueError).
Proof. exact writer_never_wraps_top. Qed.

(* strictness of the decoder, every well-formed format, every input *)
Theorem decode_strict : forall f,
  wf_fmt f ->
  (forall bs e, decode f bs = Err e -> e = DecodeError) /\
  (forall bs v r, decode f bs = Ok (v, r) -> exists pre, bs = pre ++ r) /\
  (delim f -> forall pre r v, decode f (pre ++ r) = Ok (v, r) ->
     (forall r', decode f (pre ++ r') = Ok (v, r')) /\
     (forall k, (k < length pre)%nat -> decode f (firstn k pre) = Err DecodeError)).
Proof. exact decode_strict_top. Qed.

(* length-delimited structures: never read past the declared length, reject trailing bytes
   inside the structure, reject inner/outer length disagreement in both directions *)
Theorem bounded_strict : forall ll f,
  wf_fmt f -> 0 < ll ->
  (forall bs v r, decode (FBounded ll f) bs = Ok (v, r) ->
     exists lb body, bs = lb ++ body ++ r /\ zlen lb = ll /\ zlen body = be_val lb /\
                     decode f body = Ok (v, [])) /\
  (delim f -> forall enc v, decode f enc = Ok (v, []) ->
     forall n rest, 0 <= n < 256 ^ ll -> n <> zlen enc ->
     decode (FBounded ll f) (be_bytes (Z.to_nat ll) n ++ enc ++ rest) = Err DecodeError).
Proof. exact bounded_strict_top. Qed.

(* every format term that describes a tlslite class is well-formed, so all of the above
   applies to it *)
Theorem messages_wf :
  wf_fmt fmt_RecordHeader3 /\ wf_fmt fmt_Alert /\ wf_fmt fmt_ChangeCipherSpec /\ wf_fmt fmt_Heartbeat /\
  wf_fmt fmt_KeyUpdate /\ wf_fmt fmt_HelloRequest /\ wf_fmt fmt_ServerHelloDone /\
  wf_fmt fmt_ClientHello /\ wf_fmt fmt_ServerHello /\ wf_fmt fmt_EncryptedExtensions /\
  wf_fmt fmt_Certificate12 /\ wf_fmt fmt_Certificate13 /\
  (forall b, wf_fmt (fmt_CertificateRequest b)) /\ wf_fmt fmt_CertificateRequest13 /\
  (forall b, wf_fmt (fmt_CertificateVerify b)) /\ wf_fmt fmt_CertificateStatus /\
  (forall k s, wf_fmt (fmt_ServerKeyExchange k s)) /\ (forall k b, wf_fmt (fmt_ClientKeyExchange k b)) /\
  (forall n, 0 <= n -> wf_fmt (fmt_Finished n)) /\ wf_fmt fmt_NextProtocol /\
  wf_fmt fmt_NewSessionTicket13 /\ wf_fmt fmt_NewSessionTicket10 /\ wf_fmt fmt_SessionTicketPayload /\
  wf_fmt fmt_CompressedCertificate /\ wf_fmt fmt_RecordHeader2 /\ wf_fmt fmt_ClientHelloSSL2 /\
  (forall c, wf_fmt (fmt_Ext c) /\ delim (fmt_Ext c)).
Proof. exact messages_wf_top. Qed.

(* RecordHeader2 through the API view create(length, padding, securityEscape): what fits round-trips
   and is reported back with the same fields; the encoder refuses exactly a length that needs more
   bits than the header FORM has (2-byte form 15 bits, 3-byte form 14 bits) or a non-byte padding *)
Theorem rh2_roundtrip : forall len pad esc,
  (forall v, rh2_val len pad esc = Some v ->
     (exists bs, encode fmt_RecordHeader2 v = Ok bs /\ decode fmt_RecordHeader2 bs = Ok (v, [])) /\
     rh2_fields v = Some (len, pad, esc)) /\
  (rh2_val len pad esc = None <->
     ~ (0 <= len /\ if rh2_short pad esc then len < 32768 else len < 16384 /\ 0 <= pad < 256)).
Proof. exact rh2_roundtrip_top. Qed.

(* ---- primitives ---------------------------------------------------------------- *)
Theorem get_add : forall a x n w c,
  w_add a x n = Ok w ->
  exists p', p_get (mkParser (w ++ c) (zlen a) 0 0) n = Ok (x, p') /\ pindex p' = zlen w /\ pbytes p' = w ++ c.
Proof. exact get_add_top. Qed.

Theorem getVarBytes_addVarBytes : forall a d ll w c,
  w_add_var_bytes a d ll = Ok w ->
  exists p', p_getVarBytes (mkParser (w ++ c) (zlen a) 0 0) ll = Ok (d, p')
             /\ pindex p' = zlen w /\ pbytes p' = w ++ c.
Proof. exact Proofs.C15_Codec.getVarBytes_addVarBytes. Qed.

Theorem length_check_sound : forall p ll p1 p2,
  p_startLengthCheck p ll = Ok p1 ->
  pindexCheck p2 = pindexCheck p1 -> plengthCheck p2 = plengthCheck p1 ->
  (p_stopLengthCheck p2 = Ok tt <-> pindex p2 = pindex p1 + plengthCheck p1) /\
  (exists q, p_get p ll = Ok (plengthCheck p1, q) /\ pindex p1 = pindex q /\ pindexCheck p1 = pindex q).
Proof. exact Proofs.C15_Codec.length_check_sound. Qed.

(* the decoder's integer / fixed-bytes clauses are Parser.get / getFixBytes on the
   input that remains at the parser's index *)
Theorem decode_is_parser : forall a r ic lc n,
  0 <= n ->
  (p_get (at_pos a r ic lc) n =
     match decode (FU n) r with
     | Ok (VInt x, r') => Ok (x, mkParser (a ++ r) (zlen a + n) ic lc)
     | Ok _ => Err TypeError
     | Err e => Err e end) /\
  (p_getFixBytes (at_pos a r ic lc) n =
     match decode (FFix n) r with
     | Ok (VBytes x, r') => Ok (x, mkParser (a ++ r) (zlen a + n) ic lc)
     | Ok _ => Err TypeError
     | Err e => Err e end).
Proof. exact decode_is_parser_top. Qed.

(* ---- the hypotheses are satisfiable: non-trivial well-formed values ---------------- *)
(* Model/C15_Messages.v ex_client_hello: a ClientHello with session id, two suites, SNI +
   supported_groups + an unknown extension *)
Example ex_client_hello_encodes :
  exists bs, encode fmt_ClientHello ex_client_hello = Ok bs /\ zlen bs = 83 /\
             decode fmt_ClientHello bs = Ok (ex_client_hello, []).
Proof. eexists. split; [vm_compute; reflexivity|]. split; vm_compute; reflexivity. Qed.

(* a value that does not fit: 256-byte session id in a 1-byte length field *)
Example ex_overflow :
  encode (FVar 1) (VBytes (repeat 0 256)) = Err ValueError /\
  encode (FU 2) (VInt 65536) = Err ValueError /\ encode (FU 2) (VInt (-1)) = Err ValueError.
Proof. repeat split; vm_compute; reflexivity. Qed.

(* trailing byte inside an extension, inner/outer disagreement, truncation *)
Example ex_strict :
  decode (Ext CtxUniversal) [0;12;0;3;1;65;0] = Err DecodeError /\        (* srp: 1-byte identity + junk *)
  decode (Ext CtxUniversal) [0;10;0;4;0;4;0;29] = Err DecodeError /\      (* groups: inner 4 > outer *)
  decode (Ext CtxUniversal) [0;10;0;4;0;2;0] = Err DecodeError /\         (* truncated *)
  decode (Ext CtxUniversal) [0;10;0;4;0;2;0;29;9] = Ok (VTag 10 (VSome (vlist [VInt 29])), [9]).
Proof. repeat split; vm_compute; reflexivity. Qed.

(* key_share in ClientHello: absent list, empty list (asks for a HelloRetryRequest) and one share
   are three different encodings, each decoding to itself *)
Example ex_key_share_none_vs_empty :
  encode (Ext CtxUniversal) (VTag 51 VNone) = Ok [0;51;0;0] /\
  encode (Ext CtxUniversal) (VTag 51 (VSome VNil)) = Ok [0;51;0;2;0;0] /\
  decode (Ext CtxUniversal) [0;51;0;2;0;0] = Ok (VTag 51 (VSome VNil), []) /\
  decode (Ext CtxUniversal) [0;51;0;0] = Ok (VTag 51 VNone, []).
Proof. repeat split; vm_compute; reflexivity. Qed.

(* SSLv2 CLIENT-HELLO: a CIPHER-SPECS-LENGTH that is not a multiple of 3 is rejected even when every
   announced byte is present; lengths exceeding the input and a missing byte are rejected *)
Example ex_ssl2_hello_strict :
  decode fmt_ClientHelloSSL2 ([1;3;1; 0;3; 0;0; 0;2] ++ [0;0;47] ++ [7;7]) =
    Ok (VPair (VInt 1) (VPair (VInt 3) (VPair (VInt 1)
        (VTag 3 (VTag 0 (VTag 2 (VPair (VBytes [0;0;47]) (VPair (VBytes []) (VBytes [7;7])))))))), []) /\
  decode fmt_ClientHelloSSL2 ([1;3;1; 0;4; 0;0; 0;2] ++ [0;0;47;255] ++ [7;7]) = Err DecodeError /\
  decode fmt_ClientHelloSSL2 ([1;3;1; 0;3; 0;0; 0;3] ++ [0;0;47] ++ [7;7]) = Err DecodeError /\
  decode fmt_ClientHelloSSL2 ([1;3;1; 0;6; 0;0; 0;2] ++ [0;0;47] ++ [7;7]) = Err DecodeError.
Proof. repeat split; vm_compute; reflexivity. Qed.

(* a repeated extension type is outside the domain of the hello / EncryptedExtensions /
   CertificateRequest extension blocks: refused by the decoder and by the encoder alike *)
Example ex_duplicate_extension :
  decode fmt_EncryptedExtensions [8;0;0;12; 0;10; 0;21;0;1;7; 0;21;0;1;9] = Err DecodeError /\
  encode fmt_EncryptedExtensions
    (VPair (VInt 8) (vlist [VTag 21 (VBytes [7]); VTag 21 (VBytes [9])])) = Err ValueError /\
  decode fmt_EncryptedExtensions [8;0;0;12; 0;10; 0;21;0;1;7; 0;22;0;1;9]
    = Ok (VPair (VInt 8) (vlist [VTag 21 (VBytes [7]); VTag 22 (VBytes [9])]), []).
Proof. repeat split; vm_compute; reflexivity. Qed.

(* a security-escape record without padding uses the 3-byte header: length 0x4123 does not fit *)
Example ex_rh2_escape_length :
  rh2_val 16675 0 true = None /\ rh2_val 16383 0 true = Some (VTag 127 (VPair (VInt 255) (VInt 0))) /\
  rh2_val 16675 0 false = Some (VTag 193 (VInt 35)) /\ rh2_val 32768 0 false = None.
Proof. repeat split; vm_compute; reflexivity. Qed.
