(* Property C04 -- tampering with the handshake in flight cannot yield two endpoints that
   disagree.  Statements only; proofs live in Proofs/C04_*.v.

   The attacker is an ARBITRARY function on every flight (a1 .. a5 : list msg -> list msg), in
   both directions; the honest endpoints' message contents are arbitrary oracles.  The only
   idealisation is on the primitives (H_ideal_hash, H_ideal_prf, and `unforgeable`: a Finished
   value under an honest key that the attacker delivers was computed by an honest endpoint);
   theorems that use it carry the suffix _ideal. *)
From Coq Require Import ZArith List Bool String.
From TV Require Import Base.Prelude Model.C04_Tamper Model.C04_Toy Model.C04_SitesExpected Gen.C04_Sites
                       Proofs.C04_Tamper Proofs.C04_Hrr Proofs.C04_Toy Proofs.C04_Examples Proofs.C04_Sites.
Import ListNotations.
Open Scope Z_scope.

Section C04.
  (* idealised primitives *)
  Variable hash : Z -> transcript -> list Z.
  Variable fin : Z -> Z -> list Z -> list Z.
  Variable prf_of : Z -> Z -> Z.
  Variable suite_ok : Z -> Z -> bool.
  (* configuration: client and server version ranges *)
  Variables cmin cmax smin smax : Z.
  (* arbitrary content of the honest endpoints *)
  Variable c_hello : chello.
  Variable s_ch_ok : chello -> bool.
  Variable s_reply12 : Z -> chello -> option (shello * list msg).
  Variable c_extra_ok : chello -> shello -> bool.
  Variable c_flight12 : transcript -> list msg.
  Variable s_flight_ok : transcript -> list msg -> bool.
  Variable c_flight_ok : transcript -> list msg -> bool.
  Variable s_nst : transcript -> list msg.
  Variable c_key s_key : transcript -> Z.
  Variable s_resume : Z -> chello -> option (shello * Z).
  Variable c_sess_key : Z.
  Variable s_hrr : chello -> option (shello * option (list Z) * Z).
  Variable c_hello2 : chello -> shello -> option chello.
  Variable s_reply13 : transcript -> chello -> option (shello * list msg * option (nat * Z)).
  Variable c_psk_keys : list Z.
  Variable c_flight13 : transcript -> list msg.
  Variable psk_alg : Z -> Z.

  Hypothesis H_ideal_hash : forall a t a' t', hash a t = hash a' t' -> a = a' /\ t = t'.
  Hypothesis H_ideal_prf : forall k l d k' l' d', fin k l d = fin k' l' d' -> k = k' /\ l = l' /\ d = d'.

  Notation R12 := (run12 hash fin prf_of suite_ok cmin cmax smin smax c_hello s_ch_ok s_reply12 c_extra_ok
                         c_flight12 s_flight_ok c_flight_ok s_nst c_key s_key).
  Notation R12r := (run12r hash fin prf_of suite_ok cmin cmax smin smax c_hello s_ch_ok c_extra_ok
                           s_resume c_sess_key).
  Notation R13 := (run13 hash fin prf_of suite_ok cmin cmax smin smax c_hello s_ch_ok c_extra_ok
                         s_flight_ok c_flight_ok c_key s_key s_hrr c_hello2 s_reply13 c_psk_keys c_flight13 psk_alg).
  Notation CH1 := (set_binders c_hello (binders_for hash fin c_psk_keys psk_alg [] c_hello)).

  (* ---- both complete  ==>  identical transcripts, keys and hellos --------------------- *)
  (* TLS <= 1.2 full handshake, for all attacker functions a1..a4 *)
  Theorem both_complete_transcripts_equal_tls12_full_ideal : forall a1 a2 a3 a4 c s,
    o_c (R12 a1 a2 a3 a4) = Some c -> o_s (R12 a1 a2 a3 a4) = Some s ->
    unforgeable fin (R12 a1 a2 a3 a4) -> c = s.
  Proof. exact (run12_agree hash fin prf_of suite_ok cmin cmax smin smax c_hello s_ch_ok s_reply12 c_extra_ok
                            c_flight12 s_flight_ok c_flight_ok s_nst c_key s_key H_ideal_hash H_ideal_prf). Qed.

  (* TLS <= 1.2 abbreviated handshake (session id / ticket resumption) *)
  Theorem both_complete_transcripts_equal_tls12_resumption_ideal : forall a1 a2 a3 c s,
    o_c (R12r a1 a2 a3) = Some c -> o_s (R12r a1 a2 a3) = Some s ->
    unforgeable fin (R12r a1 a2 a3) -> c = s.
  Proof. exact (run12r_agree hash fin prf_of suite_ok cmin cmax smin smax c_hello s_ch_ok c_extra_ok
                             s_resume c_sess_key H_ideal_hash H_ideal_prf). Qed.

  (* TLS 1.3: full, HelloRetryRequest (synthetic message_hash transcript on both sides) and PSK
     (binders over the truncated hello) are the branches of run13 *)
  Theorem both_complete_transcripts_equal_tls13_full_hrr_psk_ideal : forall a1 a2 a3 a4 a5 c s,
    o_c (R13 a1 a2 a3 a4 a5) = Some c -> o_s (R13 a1 a2 a3 a4 a5) = Some s ->
    unforgeable fin (R13 a1 a2 a3 a4 a5) -> c = s.
  Proof. exact (run13_agree hash fin prf_of suite_ok cmin cmax smin smax c_hello s_ch_ok c_extra_ok
                            s_flight_ok c_flight_ok c_key s_key s_hrr c_hello2 s_reply13 c_psk_keys c_flight13 psk_alg
                            H_ideal_hash H_ideal_prf). Qed.

  (* the negotiated view (version, suite, key, EMS, EtM, ALPN, SNI, record limits, randoms, session id)
     is a function of what the endpoint holds, hence equal *)
  Theorem both_complete_views_equal_ideal :
    (forall a1 a2 a3 a4 c s, o_c (R12 a1 a2 a3 a4) = Some c -> o_s (R12 a1 a2 a3 a4) = Some s ->
       unforgeable fin (R12 a1 a2 a3 a4) -> view_of c = view_of s /\ e_tr c = e_tr s) /\
    (forall a1 a2 a3 c s, o_c (R12r a1 a2 a3) = Some c -> o_s (R12r a1 a2 a3) = Some s ->
       unforgeable fin (R12r a1 a2 a3) -> view_of c = view_of s /\ e_tr c = e_tr s) /\
    (forall a1 a2 a3 a4 a5 c s, o_c (R13 a1 a2 a3 a4 a5) = Some c -> o_s (R13 a1 a2 a3 a4 a5) = Some s ->
       unforgeable fin (R13 a1 a2 a3 a4 a5) -> view_of c = view_of s /\ e_tr c = e_tr s).
  Proof. exact (views_equal_all hash fin prf_of suite_ok cmin cmax smin smax c_hello s_ch_ok s_reply12 c_extra_ok
                                c_flight12 s_flight_ok c_flight_ok s_nst c_key s_key s_resume c_sess_key
                                s_hrr c_hello2 s_reply13 c_psk_keys c_flight13 psk_alg H_ideal_hash H_ideal_prf). Qed.

  (* ---- no downgrade: what both hold is the server's answer to the HONEST hello --------- *)
  Theorem no_downgrade_tls12_ideal : forall a1 a2 a3 a4 c s,
    o_c (R12 a1 a2 a3 a4) = Some c -> o_s (R12 a1 a2 a3 a4) = Some s -> unforgeable fin (R12 a1 a2 a3 a4) ->
    exists v sh0 rest, sel_version smin smax c_hello = SelOk v /\ scsv_hit smax v c_hello = false /\
      s_reply12 v c_hello = Some (sh0, rest) /\
      e_sh c = set_tail sh0 (sentinel_for smax v (sh_tail sh0)) /\ e_sh s = e_sh c /\ e_ch s = c_hello.
  Proof. exact (run12_no_downgrade hash fin prf_of suite_ok cmin cmax smin smax c_hello s_ch_ok s_reply12 c_extra_ok
                                   c_flight12 s_flight_ok c_flight_ok s_nst c_key s_key H_ideal_hash H_ideal_prf). Qed.

  Theorem no_downgrade_tls12_resumption_ideal : forall a1 a2 a3 c s,
    o_c (R12r a1 a2 a3) = Some c -> o_s (R12r a1 a2 a3) = Some s -> unforgeable fin (R12r a1 a2 a3) ->
    exists v sh0 k, sel_version smin smax c_hello = SelOk v /\ scsv_hit smax v c_hello = false /\
      s_resume v c_hello = Some (sh0, k) /\
      e_sh c = set_tail sh0 (sentinel_for smax v (sh_tail sh0)) /\ e_sh s = e_sh c /\ e_ch s = c_hello.
  Proof. exact (run12r_no_downgrade hash fin prf_of suite_ok cmin cmax smin smax c_hello s_ch_ok c_extra_ok
                                    s_resume c_sess_key H_ideal_hash H_ideal_prf). Qed.

  Theorem no_downgrade_tls13_ideal : forall a1 a2 a3 a4 a5 c s,
    o_c (R13 a1 a2 a3 a4 a5) = Some c -> o_s (R13 a1 a2 a3 a4 a5) = Some s -> unforgeable fin (R13 a1 a2 a3 a4 a5) ->
    sel_version smin smax CH1 = SelOk TLS13 /\ scsv_hit smax TLS13 CH1 = false /\
    get_ch (a1 [MCH CH1]) = Some CH1 /\ e_sh s = e_sh c /\ e_ch s = e_ch c.
  Proof. exact (run13_no_downgrade hash fin prf_of suite_ok cmin cmax smin smax c_hello s_ch_ok c_extra_ok
                                   s_flight_ok c_flight_ok c_key s_key s_hrr c_hello2 s_reply13 c_psk_keys c_flight13 psk_alg
                                   H_ideal_hash H_ideal_prf). Qed.

  (* ---- downgrade sentinel: NO idealisation, NO hypothesis on the attacker -------------- *)
  (* full AND abbreviated handshake: a server that completes selected v and wrote the RFC 8446 4.1.3
     value into its ServerHello.  (Before /repo commit 9a5e0f9 the resumed ServerHello was built with
     getRandomBytes(32) only; this statement was then refuted for run12r by
     sentinel_written_resumption_refuted -- witness: TLS-1.3-capable server resuming at TLS 1.2 -- and the
     live scenario srv13-resume12 showed it on the code.) *)
  Theorem sentinel_written :
    (forall a1 a2 a3 a4 s, o_s (R12 a1 a2 a3 a4) = Some s ->
       exists v, sel_version smin smax (e_ch s) = SelOk v /\
         (v < TLS12 -> smax >= TLS12 -> sh_tail (e_sh s) = 1) /\
         (v = TLS12 -> smax > TLS12 -> sh_tail (e_sh s) = 2)) /\
    (forall a1 a2 a3 s, o_s (R12r a1 a2 a3) = Some s ->
       exists v, sel_version smin smax (e_ch s) = SelOk v /\
         (v < TLS12 -> smax >= TLS12 -> sh_tail (e_sh s) = 1) /\
         (v = TLS12 -> smax > TLS12 -> sh_tail (e_sh s) = 2)).
  Proof. exact (sentinel_written_all hash fin prf_of suite_ok cmin cmax smin smax c_hello s_ch_ok s_reply12 c_extra_ok
                                     c_flight12 s_flight_ok c_flight_ok s_nst c_key s_key s_resume c_sess_key). Qed.

  (* a client that completes -- in any flow, whatever the attacker and the primitives do -- holds
     a ServerHello on which the sentinel test is negative *)
  Theorem sentinel_checked :
    (forall a1 a2 a3 a4 c, o_c (R12 a1 a2 a3 a4) = Some c ->
       sentinel_hit cmax (sh_version (e_sh c)) (sh_tail (e_sh c)) = false) /\
    (forall a1 a2 a3 c, o_c (R12r a1 a2 a3) = Some c ->
       sentinel_hit cmax (sh_version (e_sh c)) (sh_tail (e_sh c)) = false) /\
    (forall a1 a2 a3 a4 a5 c, o_c (R13 a1 a2 a3 a4 a5) = Some c ->
       sentinel_hit cmax (sh_version (e_sh c)) (sh_tail (e_sh c)) = false).
  Proof. exact (sentinel_checked_all hash fin prf_of suite_ok cmin cmax smin smax c_hello s_ch_ok s_reply12 c_extra_ok
                                     c_flight12 s_flight_ok c_flight_ok s_nst c_key s_key s_resume c_sess_key
                                     s_hrr c_hello2 s_reply13 c_psk_keys c_flight13 psk_alg). Qed.

  (* ... and it is enforced AT the ServerHello, in the full and in the abbreviated handshake alike: whatever
     follows the ServerHello (key exchange, Finished -- the functions a3, a4 and the primitives), the run ends with
     the client refusing it.  No hypothesis: holds even if the older version's Finished cannot be trusted. *)
  Theorem sentinel_stops_at_server_hello :
    (forall a1 a2 sh', client_sees12 smin smax c_hello s_ch_ok s_reply12 a1 a2 = Some sh' ->
       sentinel_hit cmax (sh_version sh') (sh_tail sh') = true ->
       forall a3 a4, exists a, R12 a1 a2 a3 a4 = stop 1 a) /\
    (forall a1 a2 sh', client_sees12r hash fin prf_of smin smax c_hello s_ch_ok s_resume a1 a2 = Some sh' ->
       sentinel_hit cmax (sh_version sh') (sh_tail sh') = true ->
       forall a3, exists a, R12r a1 a2 a3 = stop 1 a).
  Proof. exact (conj (run12_stops_at_server_hello hash fin prf_of suite_ok cmin cmax smin smax c_hello s_ch_ok s_reply12
                                                  c_extra_ok c_flight12 s_flight_ok c_flight_ok s_nst c_key s_key)
                     (run12r_stops_at_server_hello hash fin prf_of suite_ok cmin cmax smin smax c_hello s_ch_ok c_extra_ok
                                                   s_resume c_sess_key)). Qed.

  (* ---- TLS_FALLBACK_SCSV: a server that completes did not see the SCSV below its maximum -- *)
  Theorem scsv_enforced :
    (forall a1 a2 a3 a4 s, o_s (R12 a1 a2 a3 a4) = Some s ->
       exists v, sel_version smin smax (e_ch s) = SelOk v /\ scsv_hit smax v (e_ch s) = false) /\
    (forall a1 a2 a3 s, o_s (R12r a1 a2 a3) = Some s ->
       exists v, sel_version smin smax (e_ch s) = SelOk v /\ scsv_hit smax v (e_ch s) = false) /\
    (forall a1 a2 a3 a4 a5 s, o_s (R13 a1 a2 a3 a4 a5) = Some s ->
       scsv_hit smax TLS13 (e_ch s) = false).
  Proof. exact (scsv_enforced_all hash fin prf_of suite_ok cmin cmax smin smax c_hello s_ch_ok s_reply12 c_extra_ok
                                  c_flight12 s_flight_ok c_flight_ok s_nst c_key s_key s_resume c_sess_key
                                  s_hrr c_hello2 s_reply13 c_psk_keys c_flight13 psk_alg). Qed.
  (* ---- fallback retry (RFC 7507), end to end ------------------------------------------------ *)
  (* the client side is scsv_sent_when_requested below; composed with scsv_enforced: a hello built by
     client_first_hello with sendFallbackSCSV, WITH OR WITHOUT an offered session, for which the server
     would select a version below its maximum, never makes the server complete -- full or abbreviated
     handshake -- when it arrives as sent (no hypothesis at all) ... *)
  Theorem fallback_retry_refused : forall ver rand fsid real session exts v,
    c_hello = client_first_hello ver rand fsid real true session exts ->
    sel_version smin smax c_hello = SelOk v -> v < smax ->
    (forall a1 a2 a3 a4, get_ch (a1 [MCH c_hello]) = Some c_hello -> o_s (R12 a1 a2 a3 a4) = None) /\
    (forall a1 a2 a3, get_ch (a1 [MCH c_hello]) = Some c_hello -> o_s (R12r a1 a2 a3) = None).
  Proof. exact (fallback_refused hash fin prf_of suite_ok cmin cmax smin smax c_hello s_ch_ok s_reply12 c_extra_ok
                                 c_flight12 s_flight_ok c_flight_ok s_nst c_key s_key s_resume c_sess_key). Qed.

  (* ... and whatever the attacker does to it, the two endpoints never both complete *)
  Theorem fallback_retry_refused_ideal : forall ver rand fsid real session exts v,
    c_hello = client_first_hello ver rand fsid real true session exts ->
    sel_version smin smax c_hello = SelOk v -> v < smax ->
    (forall a1 a2 a3 a4 c s, o_c (R12 a1 a2 a3 a4) = Some c -> o_s (R12 a1 a2 a3 a4) = Some s ->
       unforgeable fin (R12 a1 a2 a3 a4) -> False) /\
    (forall a1 a2 a3 c s, o_c (R12r a1 a2 a3) = Some c -> o_s (R12r a1 a2 a3) = Some s ->
       unforgeable fin (R12r a1 a2 a3) -> False).
  Proof. exact (fallback_refused_ideal hash fin prf_of suite_ok cmin cmax smin smax c_hello s_ch_ok s_reply12 c_extra_ok
                                       c_flight12 s_flight_ok c_flight_ok s_nst c_key s_key s_resume c_sess_key
                                       H_ideal_hash H_ideal_prf). Qed.
End C04.

(* ---- the client sends TLS_FALLBACK_SCSV whenever settings.sendFallbackSCSV, for every configuration,
   with or without an offered session (both ClientHello constructions pass wireCipherSuites) ---------- *)
Theorem scsv_sent_when_requested : forall ver rand fsid real session exts,
  memZ FALLBACK_SCSV (ch_suites (client_first_hello ver rand fsid real true session exts)) = true.
Proof. exact scsv_sent. Qed.

Theorem scsv_absent_when_not_requested : forall ver rand fsid real session exts,
  memZ FALLBACK_SCSV real = false ->
  memZ FALLBACK_SCSV (ch_suites (client_first_hello ver rand fsid real false session exts)) = false.
Proof. exact scsv_not_sent_unrequested. Qed.

(* ---- second ClientHello after HelloRetryRequest -------------------------------------------- *)
(* the server goes on only if the second hello equals the first in everything outside the
   permitted differences (key_share, cookie, padding, pre_shared_key, early_data), and carries
   exactly one share, of the requested group.  psk_is_last c1 is the ClientHello sanity check
   "PSK extension not last in client hello" (3618-3622), which the first hello has passed. *)
Theorem hrr_second_hello_bound : forall cookie group c1 c2,
  psk_is_last c1 = true ->
  hrr_second_ok cookie group c1 c2 = true ->
  ch_fixed_part c1 = ch_fixed_part c2 /\
  exists share, find_ext X_KEYSHARE (ch_exts c2) = Some [group; share].
Proof. exact hrr_second_ok_fixed. Qed.

(* ---- tie: the code's transcript / sentinel / SCSV (server check AND client emission) / comparison sites
   are the modelled ones; every check's reaction is a DRIVEN alert (`for x in self._sendError(..): yield x`) or a
   raise, and no generator method of these files is merely called as an expression statement ---- *)
Theorem transcript_sites_as_modelled :
  hash_sites = expected_hash_sites /\ guard_sites = expected_guard_sites /\
  server_hello_sites = expected_server_hello_sites /\ guard_positions = expected_guard_positions /\
  client_hello_sites = expected_client_hello_sites /\ client_suite_sites = expected_client_suite_sites /\
  undriven_generator_calls = nil.
Proof. exact sites_as_expected. Qed.

(* what the sentinel code DECIDES (extracted by executing it over its whole finite domain, so any equivalent
   rewrite gives the same table): the client's check between _clientGetServerHello and the first branch into
   TLS 1.3 / resumption / key exchange is sentinel_hit with illegal_parameter; the random of every TLS <= 1.2
   ServerHello construction (full and resumed) is sentinel_for *)
Theorem sentinel_sites_decide_as_modelled :
  forallb check_row_ok sentinel_check_table = true /\ List.length sentinel_check_table = 75%nat /\
  forallb write_row_ok sentinel_write_table = true /\ List.length sentinel_write_table = 28%nat /\
  sentinel_write_functions = expected_sentinel_write_functions.
Proof. exact sentinel_tables_ok. Qed.

(* ---- the hypotheses are satisfiable, and every flow has a completing run -------------------- *)
Example ideal_primitives_exist :
  (forall a t a' t', toy_hash a t = toy_hash a' t' -> a = a' /\ t = t') /\
  (forall k l d k' l' d', toy_fin k l d = toy_fin k' l' d' -> k = k' /\ l = l' /\ d = d').
Proof. exact (conj toy_hash_ideal toy_fin_ideal). Qed.

Example tls12_full_completes_with_sentinel :
  both_complete (ex_run12 idf idf idf idf) /\ unforgeable toy_fin (ex_run12 idf idf idf idf) /\
  option_map (fun e => sh_tail (e_sh e)) (o_s (ex_run12 idf idf idf idf)) = Some 2.
Proof. exact ex12_ok. Qed.

Example tls12_resumption_completes_with_sentinel :
  both_complete (ex_run12r idf idf idf) /\ unforgeable toy_fin (ex_run12r idf idf idf) /\
  option_map (fun e => sh_tail (e_sh e)) (o_s (ex_run12r idf idf idf)) = Some 2.
Proof. exact ex12r_ok. Qed.

Example tls13_psk_with_and_without_hrr_completes : forall hrr,
  both_complete (ex_run13 hrr idf idf idf idf idf) /\ unforgeable toy_fin (ex_run13 hrr idf idf idf idf idf).
Proof. exact ex13_ok. Qed.

Example stripping_tls13_from_the_hello_is_stopped_by_the_sentinel :
  o_stage (ex_run12_dg strip13 idf idf idf) = (1, ALERT_ILLEGAL_PARAMETER).
Proof. exact ex_downgrade_stopped. Qed.

Example fallback_hello_with_cached_session_carries_scsv :
  ch_suites (client_first_hello 771 1 2 [49199; 156] true (Some 300) []) = [255; 49199; 156; 22016] /\
  ch_sid (client_first_hello 771 1 2 [49199; 156] true (Some 300) []) = 300 /\
  sel_version 769 772 (client_first_hello 771 1 2 [49199; 156] true (Some 300) []) = SelOk 771.
Proof. exact ex_fallback_hello. Qed.
