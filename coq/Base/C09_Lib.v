(* C09 support library: Python list/bytearray/struct operations used by the code
   regenerated into Gen/C09_*.v (translator/pylite_c09.py), with their basic lemmas. *)
From Coq Require Import ZArith List Bool Lia.
From TV Require Import Base.Prelude.
Import ListNotations.
Open Scope Z_scope.

(* exception classes beyond Prelude.exn, as OtherExn codes *)
Definition StructError : exn := OtherExn 1.
Definition OverflowError : exn := OtherExn 2.
Definition NotImplementedError : exn := OtherExn 3.

(* ---- range(a, b, s), s <> 0 ------------------------------------------------- *)
Definition py_range (a b s : Z) : list Z :=
  if 0 <? s
  then map (fun k => a + s * Z.of_nat k) (seq 0 (Z.to_nat ((b - a + s - 1) / s)))
  else map (fun k => a + s * Z.of_nat k) (seq 0 (Z.to_nat ((a - b + (- s) - 1) / (- s)))).

(* ---- x[i] = v --------------------------------------------------------------- *)
Fixpoint set_nth {A} (l : list A) (n : nat) (v : A) : list A :=
  match l, n with
  | [], _ => []
  | _ :: xs, O => v :: xs
  | x :: xs, S k => x :: set_nth xs k v
  end.

Definition py_store {A} (l : list A) (i : Z) (v : A) : res (list A) :=
  let n := zlen l in
  let j := if i <? 0 then i + n else i in
  if (0 <=? j) && (j <? n) then Ok (set_nth l (Z.to_nat j) v) else Err IndexError.

(* bytearray element store: the value must be a byte *)
Definition py_store_b (l : list Z) (i : Z) (v : Z) : res (list Z) :=
  if is_byte v then py_store l i v else Err ValueError.

(* x[lo:hi] = v  (step 1; may change the length, like Python) *)
Definition py_slice_assign {A} (l : list A) (lo hi : option Z) (v : list A) : list A :=
  let n := zlen l in
  let a := match lo with None => 0 | Some x => clamp_bound n x end in
  let b := match hi with None => n | Some x => clamp_bound n x end in
  let b := if b <? a then a else b in
  firstn (Z.to_nat a) l ++ v ++ skipn (Z.to_nat b) l.

(* bytearray(iterable of ints) *)
Definition mk_bytes (l : list Z) : res (list Z) :=
  if all_bytes l then Ok l else Err ValueError.

(* bytearray(n) *)
Definition py_zeros (n : Z) : res (list Z) :=
  if n <? 0 then Err ValueError else Ok (repeat 0 (Z.to_nat n)).

(* l * n *)
Definition py_repeat {A} (l : list A) (n : Z) : list A := List.concat (repeat l (Z.to_nat n)).

Definition py_enumerate {A} (l : list A) : list (Z * A) := combine (zrange 0 (zlen l)) l.

Fixpoint mapM {A B} (f : A -> res B) (l : list A) : res (list B) :=
  match l with
  | [] => Ok []
  | x :: xs => y <- f x ;; ys <- mapM f xs ;; Ok (y :: ys)
  end.

Definition py_divmod (a b : Z) : res (Z * Z) :=
  if b =? 0 then Err ZeroDivisionError else Ok (a / b, a mod b).

(* ---- while loops: explicit fuel, OutOfFuel when exhausted ------------------- *)
Fixpoint while_fuel {S} (fuel : nat) (cond : S -> bool) (body : S -> res S) (s : S) : res S :=
  match fuel with
  | O => Err OutOfFuel
  | Datatypes.S f => if cond s then s' <- body s ;; while_fuel f cond body s' else Ok s
  end.

(* ---- little/big endian numbers ---------------------------------------------- *)
Fixpoint le_num (l : list Z) : Z :=
  match l with [] => 0 | x :: xs => x + 256 * le_num xs end.

Fixpoint le_bytes (n : nat) (v : Z) : list Z :=
  match n with O => [] | S k => (v mod 256) :: le_bytes k (v / 256) end.

Definition be_num (l : list Z) : Z := le_num (rev l).
Definition be_bytes (n : nat) (v : Z) : list Z := rev (le_bytes n v).

(* struct.pack('<L'*n, *ws): struct.error unless exactly n words, all in 0..2^32-1 *)
Definition is_u32 (x : Z) : bool := (0 <=? x) && (x <? 4294967296).
Definition pack_le32s (n : Z) (ws : list Z) : res (list Z) :=
  if (zlen ws =? n) && forallb is_u32 ws then Ok (flat_map (le_bytes 4) ws) else Err StructError.
(* struct.unpack('<L', b)[0] *)
Definition unpack_le32 (b : list Z) : res Z :=
  if zlen b =? 4 then Ok (le_num b) else Err StructError.
(* struct.pack('<Q', n) *)
Definition pack_le64 (n : Z) : res (list Z) :=
  if (0 <=? n) && (n <? 18446744073709551616) then Ok (le_bytes 8 n) else Err StructError.

(* cryptomath.bytesToNumber(b) (big endian) and numberToByteArray(n, k) for n >= 0:
   the k low-order bytes of n, big endian (int.to_bytes after the explicit truncation) *)
Definition bytesToNumber (b : list Z) : Z := be_num b.
Definition numberToByteArray (n k : Z) : list Z := be_bytes (Z.to_nat k) n.

(* truthiness *)
Definition z_true (x : Z) : bool := negb (x =? 0).
Definition l_true {A} (l : list A) : bool := match l with [] => false | _ => true end.

Definition opt_list_eqb (a b : option (list Z)) : bool :=
  match a, b with
  | Some x, Some y => list_eqb x y
  | None, None => true
  | _, _ => false
  end.

(* ---- lemmas ----------------------------------------------------------------- *)
Lemma zlen_app {A} (a b : list A) : zlen (a ++ b) = zlen a + zlen b.
Proof. unfold zlen. rewrite app_length. lia. Qed.

Lemma zlen_nonneg {A} (l : list A) : 0 <= zlen l.
Proof. unfold zlen. lia. Qed.

Lemma zlen_nil {A} : zlen (@nil A) = 0.
Proof. reflexivity. Qed.

Lemma zlen_cons {A} (x : A) l : zlen (x :: l) = 1 + zlen l.
Proof. unfold zlen. cbn [length]. lia. Qed.

Lemma py_range_up a b : py_range a b 1 = zrange a b.
Proof.
  unfold py_range, zrange. cbn [Z.ltb Z.compare].
  replace ((b - a + 1 - 1) / 1) with (b - a) by (rewrite Z.div_1_r; lia).
  apply map_ext. intros k. lia.
Qed.

Lemma map_seq_rev (f : nat -> Z) n :
  map f (rev (seq 0 n)) = map (fun k => f (n - 1 - k)%nat) (seq 0 n).
Proof.
  induction n as [|n IH].
  - reflexivity.
  - rewrite seq_snoc at 1. rewrite rev_app_distr. cbn [rev app map plus seq].
    rewrite IH. rewrite <- seq_shift, map_map.
    replace (S n - 1 - 0)%nat with n by lia. f_equal.
    apply map_ext_in. intros k Hk. apply in_seq in Hk. f_equal. lia.
Qed.

(* range(n-1, -1, -1) is the reversed range(0, n) *)
Lemma py_range_down n : 0 <= n -> py_range (n - 1) (-1) (-1) = rev (zrange 0 n).
Proof.
  intros Hn. unfold py_range, zrange. cbn [Z.ltb Z.compare Z.opp].
  replace ((n - 1 - -1 + 1 - 1) / 1) with n by (rewrite Z.div_1_r; lia).
  rewrite Z.sub_0_r. rewrite <- map_rev, map_seq_rev.
  apply map_ext_in. intros k Hk. apply in_seq in Hk. lia.
Qed.

Lemma skipn_zlen {A} (l : list A) k : 0 <= k <= zlen l -> zlen (skipn (Z.to_nat k) l) = zlen l - k.
Proof. unfold zlen. intros H. rewrite skipn_length. lia. Qed.

Lemma firstn_zlen {A} (l : list A) k : 0 <= k <= zlen l -> zlen (firstn (Z.to_nat k) l) = k.
Proof. unfold zlen. intros H. rewrite firstn_length. lia. Qed.

Lemma mapM_ok_ext {A B} (f : A -> res B) (g : A -> B) l :
  (forall x, In x l -> f x = Ok (g x)) -> mapM f l = Ok (map g l).
Proof.
  induction l as [|x xs IH]; intros H; cbn [mapM map]; [reflexivity|].
  rewrite (H x (or_introl eq_refl)). cbn [bind].
  rewrite IH by (intros y Hy; apply H; right; exact Hy). reflexivity.
Qed.

Lemma clamp_bound_nonneg n b : 0 <= n -> 0 <= b -> clamp_bound n b = Z.min n b.
Proof.
  intros Hn Hb. unfold clamp_bound.
  destruct (b <? 0) eqn:E1; [lia|]. rewrite E1.
  destruct (n <? b) eqn:E2; lia.
Qed.

(* x[a:b] for 0 <= a <= b: Python's clamping agrees with firstn/skipn *)
Lemma py_slice_nonneg {A} (l : list A) a b : 0 <= a <= b ->
  py_slice l (Some a) (Some b) = firstn (Z.to_nat (b - a)) (skipn (Z.to_nat a) l).
Proof.
  intros H. unfold py_slice. pose proof (zlen_nonneg l) as Hl.
  rewrite !clamp_bound_nonneg by lia.
  destruct (Z.min (zlen l) b <=? Z.min (zlen l) a) eqn:E.
  - destruct (Z_le_gt_dec (zlen l) a) as [G|G].
    + rewrite skipn_all2 by (unfold zlen in *; lia). rewrite firstn_nil. reflexivity.
    + assert (b = a) as -> by lia. rewrite Z.sub_diag. reflexivity.
  - assert (a < zlen l) by lia. replace (Z.min (zlen l) a) with a by lia.
    destruct (Z_le_gt_dec (zlen l) b) as [G|G].
    + replace (Z.min (zlen l) b) with (zlen l) by lia.
      rewrite !firstn_all2; try reflexivity; rewrite skipn_length; unfold zlen in *; lia.
    + replace (Z.min (zlen l) b) with b by lia. reflexivity.
Qed.

Lemma py_slice_to {A} (l : list A) b : 0 <= b -> py_slice l None (Some b) = firstn (Z.to_nat b) l.
Proof.
  intros H. unfold py_slice. pose proof (zlen_nonneg l) as Hl.
  rewrite clamp_bound_nonneg by lia.
  destruct (Z.min (zlen l) b <=? 0) eqn:E.
  - destruct l; [rewrite firstn_nil; reflexivity|].
    apply Z.leb_le in E. assert (b = 0) as -> by (unfold zlen in *; cbn [length] in *; lia). reflexivity.
  - cbn [Z.to_nat skipn]. rewrite Z.sub_0_r.
    destruct (Z_le_gt_dec (zlen l) b) as [G|G].
    + replace (Z.min (zlen l) b) with (zlen l) by lia.
      rewrite !firstn_all2; try reflexivity; unfold zlen in *; lia.
    + replace (Z.min (zlen l) b) with b by lia. reflexivity.
Qed.

Lemma py_slice_from {A} (l : list A) a : 0 <= a -> py_slice l (Some a) None = skipn (Z.to_nat a) l.
Proof.
  intros H. unfold py_slice. pose proof (zlen_nonneg l) as Hl.
  rewrite clamp_bound_nonneg by lia.
  destruct (zlen l <=? Z.min (zlen l) a) eqn:E.
  - rewrite skipn_all2 by (unfold zlen in *; lia). reflexivity.
  - replace (Z.min (zlen l) a) with a by lia.
    apply firstn_all2. rewrite skipn_length. unfold zlen in *. lia.
Qed.

Lemma skipn_add {A} a b (l : list A) : skipn a (skipn b l) = skipn (b + a) l.
Proof.
  revert l. induction b as [|b IH]; intros l; [reflexivity|].
  destruct l as [|x l]; [rewrite !skipn_nil; reflexivity|]. cbn [plus skipn]. apply IH.
Qed.

Lemma fold_left_map {A B C} (f : A -> B -> A) (g : C -> B) l a :
  fold_left f (map g l) a = fold_left (fun a x => f a (g x)) l a.
Proof. revert a. induction l as [|x l IH]; intros a; cbn [map fold_left]; [reflexivity|]. apply IH. Qed.
