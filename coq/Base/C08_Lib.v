(* C08 library: the four-way outcome of a translated decision region, with every
   partial Python operation as an explicit [Crash], Python truthiness/sequence
   helpers used by translator/crashlite.py, and the generic proof rules used by
   the symbolic-execution tactic.  (Base library: proofs allowed here.) *)
From Coq Require Import ZArith List Bool Lia String.
From TV Require Import Base.Prelude.
Import ListNotations.
Open Scope Z_scope.

(* OK v        : the region ran to its end / the expression evaluated
   Alert d     : the idiom  for result in self._sendError(d, ..): yield result
                 (sends fatal alert d, shuts down, raises TLSLocalAlert)
   Raised c    : a documented library exception raised directly (no alert)
   Crash k s   : an undocumented Python exception of kind k at program point s *)
Inductive outcome (A : Type) :=
| OK (a : A)
| Alert (d : Z)
| Raised (cls : string)
| Crash (kind : string) (site : string).
Arguments OK {A} a.
Arguments Alert {A} d.
Arguments Raised {A} cls.
Arguments Crash {A} kind site.

Definition bindo {A B} (m : outcome A) (f : A -> outcome B) : outcome B :=
  match m with
  | OK a => f a
  | Alert d => Alert d
  | Raised c => Raised c
  | Crash k s => Crash k s
  end.
Notation "x <~ m ;; k" := (bindo m (fun x => k))
  (at level 61, m at next level, right associativity).
Notation "' p <~ m ;; k" := (bindo m (fun p => k))
  (at level 61, p pattern, m at next level, right associativity).

Fixpoint foldMo {A B} (f : A -> B -> outcome A) (l : list B) (a : A) : outcome A :=
  match l with
  | [] => OK a
  | x :: xs => bindo (f a x) (foldMo f xs)
  end.

Definition is_crash {A} (o : outcome A) : bool :=
  match o with Crash _ _ => true | _ => false end.

Definition ncrash {A} (o : outcome A) : Prop :=
  match o with Crash _ _ => False | _ => True end.

(* crashes, if any, only at the listed program points *)
Definition crash_in {A} (sites : list string) (o : outcome A) : Prop :=
  match o with Crash _ s => In s sites | _ => True end.

Definition crash_site {A} (o : outcome A) : option (string * string) :=
  match o with Crash k s => Some (k, s) | _ => None end.

(* integer code of an outcome, for the comparison with the running implementation:
   0 = OK, 1000 + d = Alert d, 2000 = Raised, 3000 = Crash *)
Definition outcome_code {A} (o : outcome A) : Z :=
  match o with OK _ => 0 | Alert d => 1000 + d | Raised _ => 2000 | Crash _ _ => 3000 end.

Definition outcome_text {A} (o : outcome A) : string :=
  match o with
  | OK _ => "ok" | Alert _ => "alert" | Raised c => c
  | Crash k s => k ++ "@" ++ s
  end%string.

(* ---- Python helpers ------------------------------------------------------ *)
Definition nonempty {A} (l : list A) : bool := match l with [] => false | _ => true end.
Definition is_some {A} (o : option A) : bool := match o with Some _ => true | None => false end.
Definition is_none {A} (o : option A) : bool := match o with Some _ => false | None => true end.
Definition truthy_opt {A} (t : A -> bool) (o : option A) : bool :=
  match o with None => false | Some a => t a end.
Definition always_true {A} (_ : A) : bool := true.

Definition ver := (Z * Z)%type.
Definition ver_eqb (a b : ver) : bool := (fst a =? fst b) && (snd a =? snd b).
Definition ver_ltb (a b : ver) : bool :=
  (fst a <? fst b) || ((fst a =? fst b) && (snd a <? snd b)).
Definition ver_leb (a b : ver) : bool := ver_ltb a b || ver_eqb a b.

Definition opt_eqb {A} (e : A -> A -> bool) (a b : option A) : bool :=
  match a, b with
  | None, None => true
  | Some x, Some y => e x y
  | _, _ => false
  end.

Fixpoint lst_eqb {A} (e : A -> A -> bool) (a b : list A) : bool :=
  match a, b with
  | [], [] => true
  | x :: xs, y :: ys => e x y && lst_eqb e xs ys
  | _, _ => false
  end.

Definition mem {A} (e : A -> A -> bool) (x : A) (l : list A) : bool := existsb (e x) l.

Fixpoint has_dups {A} (e : A -> A -> bool) (l : list A) : bool :=
  match l with
  | [] => false
  | x :: xs => mem e x xs || has_dups e xs
  end.

(* len(set(l)) *)
Fixpoint dedup {A} (e : A -> A -> bool) (l : list A) : list A :=
  match l with
  | [] => []
  | x :: xs => if mem e x xs then dedup e xs else x :: dedup e xs
  end.

Definition is_ascii (b : list Z) : bool := forallb (fun x => (0 <=? x) && (x <? 128)) b.

(* x[i] on a Python sequence, negative indices wrap; IndexError explicit *)
Definition seq_index {A} (site : string) (l : list A) (i : Z) : outcome A :=
  match py_index l i with
  | Ok x => OK x
  | Err _ => Crash "IndexError" site
  end.

(* first element matching, as next((i for i in l if p i), None) *)
Definition find_first {A} (p : A -> bool) (l : list A) : option A := find p l.

(* comprehension forms whose condition/element can fail (evaluated element by element,
   left to right, exactly as the Python generator does) *)
Fixpoint find_firstM {A} (p : A -> outcome bool) (l : list A) : outcome (option A) :=
  match l with
  | [] => OK None
  | x :: xs => bindo (p x) (fun b => if b then OK (Some x) else find_firstM p xs)
  end.
Fixpoint existsbM {A} (p : A -> outcome bool) (l : list A) : outcome bool :=
  match l with
  | [] => OK false
  | x :: xs => bindo (p x) (fun b => if b then OK true else existsbM p xs)
  end.
Fixpoint filterM {A} (p : A -> outcome bool) (l : list A) : outcome (list A) :=
  match l with
  | [] => OK []
  | x :: xs => bindo (p x) (fun b => bindo (filterM p xs) (fun r => OK (if b then x :: r else r)))
  end.
Fixpoint mapM {A B} (f : A -> outcome B) (l : list A) : outcome (list B) :=
  match l with
  | [] => OK []
  | x :: xs => bindo (f x) (fun y => bindo (mapM f xs) (fun r => OK (y :: r)))
  end.

(* ---- proof rules --------------------------------------------------------- *)
Lemma crash_in_bindo {A B} sites (m : outcome A) (f : A -> outcome B) :
  crash_in sites m -> (forall a, m = OK a -> crash_in sites (f a)) -> crash_in sites (bindo m f).
Proof.
  destruct m; cbn [bindo crash_in]; intros H1 H2; auto.
Qed.

Lemma crash_in_foldMo {A B} sites (f : A -> B -> outcome A) l :
  (forall a x, In x l -> crash_in sites (f a x)) -> forall a, crash_in sites (foldMo f l a).
Proof.
  induction l as [|x xs IH]; intros H a; cbn [foldMo crash_in]; [exact I|].
  apply crash_in_bindo.
  - apply H. left. reflexivity.
  - intros a' _. apply IH. intros a0 y Hy. apply H. right. exact Hy.
Qed.

Lemma crash_in_bind_foldMo {A B C} sites (f : A -> B -> outcome A) l a (k : A -> outcome C) :
  (forall a x, crash_in sites (f a x)) -> (forall a', crash_in sites (k a')) ->
  crash_in sites (bindo (foldMo f l a) k).
Proof.
  intros H1 H2. apply crash_in_bindo.
  - apply crash_in_foldMo. intros; apply H1.
  - intros a' _. apply H2.
Qed.

Lemma crash_in_nil_ncrash {A} (o : outcome A) : crash_in [] o <-> ncrash o.
Proof. destruct o; cbn; tauto. Qed.

Lemma crash_in_mono {A} s1 s2 (o : outcome A) : incl s1 s2 -> crash_in s1 o -> crash_in s2 o.
Proof. destruct o; cbn; auto. Qed.

Lemma crash_in_find_firstM {A} sites (p : A -> outcome bool) l :
  (forall x, crash_in sites (p x)) -> crash_in sites (find_firstM p l).
Proof.
  intros H. induction l as [|x xs IH]; cbn [find_firstM crash_in]; [exact I|].
  apply crash_in_bindo; [apply H|]. intros [|] _; [exact I|exact IH].
Qed.
Lemma crash_in_existsbM {A} sites (p : A -> outcome bool) l :
  (forall x, crash_in sites (p x)) -> crash_in sites (existsbM p l).
Proof.
  intros H. induction l as [|x xs IH]; cbn [existsbM crash_in]; [exact I|].
  apply crash_in_bindo; [apply H|]. intros [|] _; [exact I|exact IH].
Qed.
Lemma crash_in_filterM {A} sites (p : A -> outcome bool) l :
  (forall x, crash_in sites (p x)) -> crash_in sites (filterM p l).
Proof.
  intros H. induction l as [|x xs IH]; cbn [filterM crash_in]; [exact I|].
  apply crash_in_bindo; [apply H|]. intros b _.
  apply crash_in_bindo; [exact IH|]. intros r _. exact I.
Qed.
Lemma crash_in_mapM {A B} sites (f : A -> outcome B) l :
  (forall x, crash_in sites (f x)) -> crash_in sites (mapM f l).
Proof.
  intros H. induction l as [|x xs IH]; cbn [mapM crash_in]; [exact I|].
  apply crash_in_bindo; [apply H|]. intros b _.
  apply crash_in_bindo; [exact IH|]. intros r _. exact I.
Qed.
