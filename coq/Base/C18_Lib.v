(* C18 shared library: Python dict as an association list, list item assignment,
   operation / outcome vocabulary shared by the SessionCache model and its
   abstract specification, and small arithmetic facts about index wrap-around. *)
From Coq Require Import ZArith List Bool Lia.
From TV Require Import Base.Prelude.
Import ListNotations.
Open Scope Z_scope.

(* ---- dict : keys and values are Z (session id -> session handle) ---------- *)
Definition dict := list (Z * Z).

Fixpoint dict_get (k : Z) (d : dict) : option Z :=
  match d with
  | [] => None
  | (k', v) :: d' => if k =? k' then Some v else dict_get k d'
  end.

Definition dict_mem (k : Z) (d : dict) : bool :=
  match dict_get k d with Some _ => true | None => false end.

Definition dict_remove (k : Z) (d : dict) : dict :=
  filter (fun p => negb (fst p =? k)) d.

(* d[k] = v *)
Definition dict_set (k v : Z) (d : dict) : dict := (k, v) :: dict_remove k d.

(* del d[k] : None = KeyError *)
Definition dict_del (k : Z) (d : dict) : option dict :=
  if dict_mem k d then Some (dict_remove k d) else None.

Definition dict_keys (d : dict) : list Z := map fst d.

(* order-insensitive comparison used by the correspondence check (keys unique on both sides) *)
Definition dict_same (a b : dict) : bool :=
  (Nat.eqb (length a) (length b)) &&
  forallb (fun p => match dict_get (fst p) a with Some v => v =? snd p | None => false end) b.

Lemma dict_get_remove k k' d :
  dict_get k (dict_remove k' d) = if k =? k' then None else dict_get k d.
Proof.
  induction d as [|[a v] d IH]; cbn [dict_remove filter dict_get fst].
  - destruct (k =? k'); reflexivity.
  - fold (dict_remove k' d).
    destruct (a =? k') eqn:E1; cbn [negb].
    + rewrite IH. apply Z.eqb_eq in E1. subst a.
      destruct (k =? k') eqn:E2; reflexivity.
    + cbn [dict_get]. rewrite IH.
      destruct (k =? a) eqn:E2; [|reflexivity].
      apply Z.eqb_eq in E2. subst a. rewrite E1. reflexivity.
Qed.

Lemma dict_get_set k k' v d :
  dict_get k (dict_set k' v d) = if k =? k' then Some v else dict_get k d.
Proof.
  unfold dict_set. cbn [dict_get]. rewrite dict_get_remove.
  destruct (k =? k'); reflexivity.
Qed.

Lemma dict_get_in k d v : dict_get k d = Some v -> In k (dict_keys d).
Proof.
  induction d as [|[a w] d IH]; cbn [dict_get dict_keys map fst]; [discriminate|].
  destruct (k =? a) eqn:E; intros H.
  - left. apply Z.eqb_eq in E. congruence.
  - right. apply IH. exact H.
Qed.

Lemma dict_in_get k d : In k (dict_keys d) -> exists v, dict_get k d = Some v.
Proof.
  induction d as [|[a w] d IH]; cbn [dict_get dict_keys map fst]; [intros []|].
  intros [H|H].
  - subst a. rewrite Z.eqb_refl. eauto.
  - destruct (k =? a); eauto.
Qed.

Lemma dict_keys_remove_in k k' d : In k (dict_keys (dict_remove k' d)) -> In k (dict_keys d) /\ k <> k'.
Proof.
  intros H. apply dict_in_get in H. destruct H as [v H]. rewrite dict_get_remove in H.
  destruct (k =? k') eqn:E; [discriminate|]. apply Z.eqb_neq in E.
  split; [eapply dict_get_in; eauto|exact E].
Qed.

Lemma dict_keys_remove_nodup k d : NoDup (dict_keys d) -> NoDup (dict_keys (dict_remove k d)).
Proof.
  unfold dict_keys, dict_remove. induction d as [|[a v] d IH]; cbn [filter map fst]; intros H.
  - constructor.
  - inversion H as [|x l Hn Hd]; subst.
    destruct (negb (a =? k)); cbn [map fst]; [|apply IH; exact Hd].
    constructor; [|apply IH; exact Hd].
    intros Hin. apply Hn. apply in_map_iff in Hin. destruct Hin as [[b w] [E Hin]].
    cbn [fst] in E. subst b. apply filter_In in Hin. destruct Hin as [Hin _].
    apply in_map_iff. exists (a, w). split; [reflexivity|exact Hin].
Qed.

Lemma dict_keys_set_nodup k v d : NoDup (dict_keys d) -> NoDup (dict_keys (dict_set k v d)).
Proof.
  intros H. unfold dict_set. cbn [dict_keys map fst]. constructor.
  - intros Hin. apply dict_keys_remove_in in Hin. destruct Hin as [_ Hne]. congruence.
  - apply dict_keys_remove_nodup. exact H.
Qed.

(* ---- l[i] = v  (Python list item assignment) ------------------------------ *)
Fixpoint upd_nth {A} (k : nat) (l : list A) (v : A) : list A :=
  match l, k with
  | [], _ => []
  | _ :: xs, O => v :: xs
  | x :: xs, S k' => x :: upd_nth k' xs v
  end.

Definition py_setitem {A} (l : list A) (i : Z) (v : A) : res (list A) :=
  let n := zlen l in
  let j := if i <? 0 then i + n else i in
  if (0 <=? j) && (j <? n) then Ok (upd_nth (Z.to_nat j) l v) else Err IndexError.

Lemma upd_nth_length {A} k (l : list A) v : length (upd_nth k l v) = length l.
Proof. revert k. induction l as [|x xs IH]; intros [|k]; cbn [upd_nth length]; auto. Qed.

Lemma upd_nth_same {A} k (l : list A) v : (k < length l)%nat -> nth_error (upd_nth k l v) k = Some v.
Proof.
  revert k. induction l as [|x xs IH]; intros [|k]; cbn [upd_nth length nth_error]; intros H; try lia; auto.
  apply IH. lia.
Qed.

Lemma upd_nth_other {A} k j (l : list A) v : j <> k -> nth_error (upd_nth k l v) j = nth_error l j.
Proof.
  revert k j. induction l as [|x xs IH]; intros [|k] [|j]; cbn [upd_nth nth_error]; intros H; auto; try lia.
Qed.

(* ---- wrap-around index arithmetic ----------------------------------------- *)
Lemma mod_wrap x n : 0 <= x < 2 * n -> x mod n = if x <? n then x else x - n.
Proof.
  intros H. destruct (x <? n) eqn:E.
  - apply Z.mod_small. lia.
  - replace x with ((x - n) + 1 * n) at 1 by lia. rewrite Z.mod_add by lia. apply Z.mod_small. lia.
Qed.

(* ---- vocabulary ----------------------------------------------------------- *)
(* result of one cache call: a returned value (None for __setitem__/_purge) or an exception *)
Inductive outcome :=
| ORet (v : option Z)
| OExc (e : exn).

Definition outcome_eqb (a b : outcome) : bool :=
  match a, b with
  | ORet None, ORet None => true
  | ORet (Some x), ORet (Some y) => x =? y
  | OExc e1, OExc e2 => exn_code e1 =? exn_code e2
  | _, _ => false
  end.

(* one call made by the application; every call is stamped with the clock value it observes *)
Inductive op :=
| Get (id : Z)                 (* cache[id] *)
| Put (id s : Z)               (* cache[id] = session s *)
| Purge                        (* cache._purge() *)
| SetValid (s : Z) (b : bool). (* the owner of session s changes what s.valid() returns *)

Definition valid_in (invalid : list Z) (s : Z) : bool := negb (existsb (Z.eqb s) invalid).

Definition set_valid (invalid : list Z) (s : Z) (b : bool) : list Z :=
  if b then filter (fun x => negb (x =? s)) invalid else s :: invalid.

Definition history := list (Z * op).      (* (clock value, call) in program order *)

Fixpoint monotone_from (t : Z) (h : history) : Prop :=
  match h with
  | [] => True
  | (t', _) :: h' => t <= t' /\ monotone_from t' h'
  end.
Definition monotone (h : history) : Prop :=
  match h with [] => True | (t, _) :: h' => monotone_from t h' end.

Fixpoint monotone_fromb (t : Z) (h : history) : bool :=
  match h with
  | [] => true
  | (t', _) :: h' => (t <=? t') && monotone_fromb t' h'
  end.
Definition monotoneb (h : history) : bool :=
  match h with [] => true | (t, _) :: h' => monotone_fromb t h' end.

Fixpoint put_ids (h : history) : list Z :=
  match h with
  | [] => []
  | (_, Put id _) :: h' => id :: put_ids h'
  | _ :: h' => put_ids h'
  end.
Definition distinct_puts (h : history) : Prop := NoDup (put_ids h).
