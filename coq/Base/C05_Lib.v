(* C05 support library: option-valued Python names (None-able strings / scheme pairs)
   used by the text generated from KeyExchange.calcVerifyBytes. *)
From Coq Require Import ZArith List Bool String.
From TV Require Import Base.Prelude.
Import ListNotations.
Open Scope Z_scope.

Definition scheme := (Z * Z)%type.

Definition osch_eqb (a b : option scheme) : bool :=
  match a, b with
  | Some x, Some y => pairZ_eqb x y
  | None, None => true
  | _, _ => false
  end.

Definition ostr_eqb (a b : option string) : bool :=
  match a, b with
  | Some x, Some y => String.eqb x y
  | None, None => true
  | _, _ => false
  end.

Definition is_none {A} (a : option A) : bool := match a with None => true | Some _ => false end.

(* Python truthiness of a None-able str *)
Definition ostr_truthy (a : option string) : bool :=
  match a with None => false | Some s => negb (String.eqb s EmptyString) end.

(* signatureAlg[i] : TypeError on None (as CPython raises for None[i]) *)
Definition osch_index (s : option scheme) (i : Z) : res Z :=
  match s with
  | None => Err TypeError
  | Some (a, b) => if i =? 0 then Ok a else if i =? 1 then Ok b else Err IndexError
  end.

Fixpoint assoc_sch (k : scheme) (t : list (scheme * string)) : option string :=
  match t with
  | [] => None
  | (k', v) :: t' => if pairZ_eqb k k' then Some v else assoc_sch k t'
  end.

Fixpoint assoc_z (k : Z) (t : list (Z * string)) : option string :=
  match t with
  | [] => None
  | (k', v) :: t' => if k =? k' then Some v else assoc_z k t'
  end.

Fixpoint assoc_str {A} (k : string) (t : list (string * A)) : option A :=
  match t with
  | [] => None
  | (k', v) :: t' => if String.eqb k k' then Some v else assoc_str k t'
  end.

(* SignatureScheme.getHash / getPadding : TypeError for None (getattr(cls, None)),
   ValueError for an unknown name, AssertionError where the function's own assert fails *)
Definition scheme_attr (t : list (string * option string)) (s : option string) : res (option string) :=
  match s with
  | None => Err TypeError
  | Some n => match assoc_str n t with
              | None => Err ValueError
              | Some None => Err AssertionError
              | Some (Some v) => Ok (Some v)
              end
  end.

Definition sch_in (s : scheme) (l : list scheme) : bool := existsb (pairZ_eqb s) l.

Lemma sch_in_In s l : sch_in s l = true <-> In s l.
Proof.
  unfold sch_in. rewrite existsb_exists. split.
  - intros [x [Hin Heq]]. apply pairZ_eqb_spec in Heq. subst. exact Hin.
  - intros H. exists s. split; [exact H|]. apply pairZ_eqb_spec. reflexivity.
Qed.
