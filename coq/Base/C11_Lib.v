(* C11 support library (definitions only): hand models of the small external helpers
   that the translated RSA code calls (tlslite.utils.cryptomath / compat), and the
   Gallina meaning of the extra PyLite constructs accepted by translator/pylite_c11.py.
   Every definition here is validated against the Python original on every run
   (harness/props/C11.py, stream "lib-helpers-model-vs-impl"). *)
From Coq Require Import ZArith List Bool String.
From TV Require Import Base.Prelude.
Import ListNotations.
Open Scope Z_scope.

(* exception classes outside Prelude.exn *)
Definition StopIteration : exn := OtherExn 1.
Definition OverflowError : exn := OtherExn 2.

(* int.bit_length (of |n|) and compat.byte_length *)
Definition numBits (n : Z) : Z :=
  let a := Z.abs n in if a =? 0 then 0 else Z.log2 a + 1.
Definition numBytes (n : Z) : Z := (numBits n + 7) / 8.

(* big-endian, exactly k bytes, of n mod 256^k (n >> 8 and n & 255: cheap under vm_compute) *)
Fixpoint be_bytes (k : nat) (n : Z) : list Z :=
  match k with
  | O => []
  | S k' => be_bytes k' (Z.shiftr n 8) ++ [Z.land n 255]
  end.

(* cryptomath.numberToByteArray(n, howManyBytes): int.to_bytes raises OverflowError for a
   negative n; a too-large n is truncated to its low howManyBytes bytes (by the function's
   own slice), otherwise zero-padded on the left. *)
Definition numberToByteArray (n k : Z) : res (list Z) :=
  if n <? 0 then Err OverflowError
  else if k <? 0 then Err ValueError
  else Ok (be_bytes (Z.to_nat k) n).

(* cryptomath.bytesToNumber (big endian) *)
Definition bytesToNumber (b : list Z) : Z := fold_left (fun a x => a * 256 + x) b 0.

(* ---- iterators ------------------------------------------------------------ *)
(* it = iter(x); for a, b in zip(it, it): consecutive pairs, a trailing odd element is
   consumed and dropped (zip stops when the second next() fails). *)
Fixpoint pairs_of {A} (l : list A) : list (A * A) :=
  match l with
  | a :: b :: t => (a, b) :: pairs_of t
  | _ => []
  end.

(* enumerate(x) *)
Fixpoint enumerate_from {A} (i : Z) (l : list A) : list (Z * A) :=
  match l with
  | [] => []
  | x :: t => (i, x) :: enumerate_from (i + 1) t
  end.

(* next(it) *)
Definition py_next {A} (it : list A) : res (A * list A) :=
  match it with
  | [] => Err StopIteration
  | x :: t => Ok (x, t)
  end.

(* bytearray(iterable of ints): ValueError outside 0..255 *)
Definition mk_bytes (l : list Z) : res (list Z) :=
  if all_bytes l then Ok l else Err ValueError.

(* while loop with explicit fuel: running out of fuel is an explicit outcome that the
   theorems exclude (it can never agree with the implementation in the correspondence) *)
Fixpoint while_fuel {S} (fuel : nat) (cond : S -> res bool) (body : S -> res S) (s : S) : res S :=
  match fuel with
  | O => Err OutOfFuel
  | Datatypes.S f =>
      c <- cond s ;;
      if c then (s' <- body s ;; while_fuel f cond body s') else Ok s
  end.

(* ---- None-able byte strings ------------------------------------------------ *)
(* "not x" for x : bytearray or None *)
Definition opt_falsy (x : option (list Z)) : bool :=
  match x with None => true | Some [] => true | Some _ => false end.
(* using a None-able value as a sequence: TypeError on None *)
Definition opt_get (x : option (list Z)) : res (list Z) :=
  match x with None => Err TypeError | Some l => Ok l end.

Definition opt_list_eqb (a b : option (list Z)) : bool :=
  match a, b with
  | None, None => true
  | Some x, Some y => list_eqb x y
  | _, _ => false
  end.

(* Python's lexicographic order on pairs of ints *)
Definition pairZ_ltb (a b : Z * Z) : bool := (fst a <? fst b) || ((fst a =? fst b) && (snd a <? snd b)).
Definition pairZ_leb (a b : Z * Z) : bool := (fst a <? fst b) || ((fst a =? fst b) && (snd a <=? snd b)).
