(* Shared library: Python-like result monad, ranges, indexing and slicing with
   Python's semantics, and the helper used by the correspondence evaluation. *)
From Coq Require Import ZArith List Bool Lia.
Import ListNotations.
Open Scope Z_scope.

(* ---- outcome of a Python computation -------------------------------------- *)
Inductive exn :=
| IndexError | ValueError | AssertionError | AttributeError | TypeError
| KeyError | OutOfFuel | DecodeError | ZeroDivisionError | OtherExn (code : Z).

Inductive res (A : Type) :=
| Ok (a : A)
| Err (e : exn).
Arguments Ok {A} a.
Arguments Err {A} e.

Definition bind {A B} (m : res A) (f : A -> res B) : res B :=
  match m with Ok a => f a | Err e => Err e end.
Notation "x <- m ;; k" := (bind m (fun x => k))
  (at level 61, m at next level, right associativity).
Notation "' p <- m ;; k" := (bind m (fun p => k))
  (at level 61, p pattern, m at next level, right associativity).

Definition is_ok {A} (m : res A) : bool := match m with Ok _ => true | Err _ => false end.

Fixpoint foldM {A B} (f : A -> B -> res A) (l : list B) (a : A) : res A :=
  match l with
  | [] => Ok a
  | x :: xs => a' <- f a x ;; foldM f xs a'
  end.

Lemma foldM_ok_ext {A B} (f : A -> B -> res A) (g : A -> B -> A) l :
  (forall a x, In x l -> f a x = Ok (g a x)) ->
  forall a, foldM f l a = Ok (fold_left g l a).
Proof.
  induction l as [|x xs IH]; intros H a; cbn [foldM fold_left]; [reflexivity|].
  rewrite (H a x (or_introl eq_refl)). cbn [bind].
  apply IH. intros a' y Hy. apply H. right. exact Hy.
Qed.

(* ---- lists as Python sequences -------------------------------------------- *)
Definition zlen {A} (l : list A) : Z := Z.of_nat (length l).

Definition zrange (a b : Z) : list Z :=
  map (fun k => a + Z.of_nat k) (seq 0 (Z.to_nat (b - a))).

Lemma in_zrange a b x : In x (zrange a b) <-> a <= x < b.
Proof.
  unfold zrange. rewrite in_map_iff. split.
  - intros [k [Hk Hin]]. apply in_seq in Hin. lia.
  - intros H. exists (Z.to_nat (x - a)). split; [lia|]. apply in_seq. lia.
Qed.

Lemma zrange_length a b : length (zrange a b) = Z.to_nat (b - a).
Proof. unfold zrange. rewrite map_length, seq_length. reflexivity. Qed.

Lemma zrange_empty a b : b <= a -> zrange a b = [].
Proof. intros H. unfold zrange. replace (Z.to_nat (b - a)) with 0%nat by lia. reflexivity. Qed.

Lemma seq_snoc s n : seq s (S n) = seq s n ++ [(s + n)%nat].
Proof. replace (S n) with (n + 1)%nat by lia. rewrite seq_app. reflexivity. Qed.

Lemma zrange_snoc a b : a <= b -> zrange a (b + 1) = zrange a b ++ [b].
Proof.
  intros H. unfold zrange.
  replace (Z.to_nat (b + 1 - a)) with (S (Z.to_nat (b - a))) by lia.
  rewrite seq_snoc, map_app. cbn [map]. f_equal. f_equal. lia.
Qed.

Lemma zrange_cons a b : a < b -> zrange a b = a :: zrange (a + 1) b.
Proof.
  intros H. unfold zrange.
  replace (Z.to_nat (b - a)) with (S (Z.to_nat (b - (a + 1)))) by lia.
  cbn [seq map]. f_equal; [lia|].
  rewrite <- seq_shift, map_map. apply map_ext. intros k. lia.
Qed.

Lemma zrange_split a m b : a <= m <= b -> zrange a b = zrange a m ++ zrange m b.
Proof.
  intros [H1 H2].
  replace b with (m + Z.of_nat (Z.to_nat (b - m))) by lia.
  generalize (Z.to_nat (b - m)) as k. intros k.
  induction k as [|k IH].
  - replace (m + Z.of_nat 0) with m by lia.
    rewrite (zrange_empty m m) by lia. rewrite app_nil_r. reflexivity.
  - replace (m + Z.of_nat (S k)) with (m + Z.of_nat k + 1) by lia.
    rewrite (zrange_snoc a) by lia. rewrite (zrange_snoc m) by lia.
    rewrite IH, app_assoc. reflexivity.
Qed.

(* x[i] with Python's negative-index rule *)
Definition py_index {A} (l : list A) (i : Z) : res A :=
  let n := zlen l in
  let j := if i <? 0 then i + n else i in
  if (0 <=? j) && (j <? n)
  then match nth_error l (Z.to_nat j) with Some x => Ok x | None => Err IndexError end
  else Err IndexError.

Definition nthZ (l : list Z) (i : Z) : Z := nth (Z.to_nat i) l 0.

Lemma py_index_ok (l : list Z) i : 0 <= i < zlen l -> py_index l i = Ok (nthZ l i).
Proof.
  unfold py_index, zlen, nthZ. intros H.
  destruct (i <? 0) eqn:E1; [lia|].
  destruct ((0 <=? i) && (i <? Z.of_nat (length l))) eqn:E2; [|lia].
  destruct (nth_error l (Z.to_nat i)) eqn:E3.
  - f_equal. symmetry. apply nth_error_nth. exact E3.
  - apply nth_error_None in E3. lia.
Qed.

(* Python's clamping slice x[lo:hi] (step 1); None = omitted bound *)
Definition clamp_bound (n : Z) (b : Z) : Z :=
  let b' := if b <? 0 then b + n else b in
  if b' <? 0 then 0 else if n <? b' then n else b'.

Definition py_slice {A} (l : list A) (lo hi : option Z) : list A :=
  let n := zlen l in
  let a := match lo with None => 0 | Some v => clamp_bound n v end in
  let b := match hi with None => n | Some v => clamp_bound n v end in
  if b <=? a then [] else firstn (Z.to_nat (b - a)) (skipn (Z.to_nat a) l).

Definition is_byte (x : Z) : bool := (0 <=? x) && (x <? 256).
Definition all_bytes (l : list Z) : bool := forallb is_byte l.

(* bytearray([x]) : ValueError outside 0..255 *)
Definition mk_byte (x : Z) : res (list Z) :=
  if is_byte x then Ok [x] else Err ValueError.

Definition list_eqb (a b : list Z) : bool :=
  (Nat.eqb (length a) (length b)) && forallb (fun p => Z.eqb (fst p) (snd p)) (combine a b).

Lemma list_eqb_spec a b : list_eqb a b = true <-> a = b.
Proof.
  unfold list_eqb. revert b. induction a as [|x xs IH]; intros [|y ys]; cbn [length combine forallb fst snd Nat.eqb andb].
  - split; reflexivity.
  - split; congruence.
  - split; congruence.
  - specialize (IH ys). split.
    + intros H. apply andb_true_iff in H. destruct H as [H1 H2].
      apply andb_true_iff in H2. destruct H2 as [H2 H3]. apply Z.eqb_eq in H2.
      f_equal; [exact H2|]. apply IH. apply andb_true_iff. split; assumption.
    + intros H. injection H as Hx Hxs. apply (proj2 IH) in Hxs.
      apply andb_true_iff in Hxs. destruct Hxs as [A B].
      apply andb_true_iff. split; [exact A|]. apply andb_true_iff. split; [apply Z.eqb_eq; exact Hx|exact B].
Qed.

Definition py_div (a b : Z) : res Z := if b =? 0 then Err ZeroDivisionError else Ok (a / b).
Definition py_mod (a b : Z) : res Z := if b =? 0 then Err ZeroDivisionError else Ok (a mod b).
Definition pairZ_eqb (a b : Z * Z) : bool := (fst a =? fst b) && (snd a =? snd b).

Lemma pairZ_eqb_spec a b : pairZ_eqb a b = true <-> a = b.
Proof.
  destruct a as [a1 a2], b as [b1 b2]. unfold pairZ_eqb. cbn [fst snd].
  rewrite andb_true_iff, !Z.eqb_eq. split; [intros [-> ->]; reflexivity|intros H; injection H; auto].
Qed.

(* An hmac/hashlib object: public sizes, the keyed function as an oracle, and the
   bytes fed so far.  copy() is the identity on values, update appends, digest
   applies the oracle to everything fed (hashlib's documented contract). *)
Record HMac := { mac_ds : Z; mac_bs : Z; mac_fn : list Z -> list Z; mac_acc : list Z }.
Definition mac_update (m : HMac) (d : list Z) : HMac :=
  {| mac_ds := mac_ds m; mac_bs := mac_bs m; mac_fn := mac_fn m; mac_acc := mac_acc m ++ d |}.
Definition mac_digest (m : HMac) : list Z := mac_fn m (mac_acc m).

(* finite oracle table; a query outside the table yields [-1] so that a model
   that needs an unrecorded value can never agree with the implementation *)
Fixpoint table_lookup (t : list (list Z * list Z)) (q : list Z) : list Z :=
  match t with
  | [] => [-1]
  | (k, v) :: t' => if list_eqb k q then v else table_lookup t' q
  end.

(* ---- correspondence helper: indices of cases on which a check is false ----- *)
Fixpoint bad_idx_from {A} (f : A -> bool) (l : list A) (n : nat) : list nat :=
  match l with
  | [] => []
  | x :: xs => if f x then bad_idx_from f xs (S n) else n :: bad_idx_from f xs (S n)
  end.
Definition bad_idx {A} (f : A -> bool) (l : list A) : list nat := bad_idx_from f l 0.

Definition res_eqb {A} (eqb : A -> A -> bool) (a b : res A) : bool :=
  match a, b with
  | Ok x, Ok y => eqb x y
  | Err _, Err _ => true     (* error classes are compared separately where needed *)
  | _, _ => false
  end.

Definition exn_code (e : exn) : Z :=
  match e with
  | IndexError => 1 | ValueError => 2 | AssertionError => 3 | AttributeError => 4
  | TypeError => 5 | KeyError => 6 | OutOfFuel => 7 | DecodeError => 8
  | ZeroDivisionError => 9
  | OtherExn c => 100 + c
  end.

(* compare a model outcome with the implementation's: Some value / None + error code *)
Definition res_matches {A} (eqb : A -> A -> bool) (m : res A) (impl : option A) (code : Z) : bool :=
  match m, impl with
  | Ok x, Some y => eqb x y
  | Err e, None => Z.eqb (exn_code e) code
  | _, _ => false
  end.
