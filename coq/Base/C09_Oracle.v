(* C09: hash / HMAC oracles used by the regenerated KDF code. *)
From Coq Require Import ZArith List Bool String.
From TV Require Import Base.Prelude.
Import ListNotations.
Open Scope Z_scope.
Open Scope string_scope.

(* ---- hash / HMAC oracles ------------------------------------------------------- *)
(* hashlib and hmac are not modelled: o_hash alg data and o_hmac alg key data stand for
   hashlib.new(alg, data).digest() and hmac.new(key, data, alg).digest() *)
Record Oracles := mkOracles {
  o_hash : string -> list Z -> list Z;
  o_hmac : string -> list Z -> list Z -> list Z }.

Definition digest_size (alg : string) : option Z :=
  if String.eqb alg "md5" then Some 16 else if String.eqb alg "sha1" then Some 20
  else if String.eqb alg "sha224" then Some 28 else if String.eqb alg "sha256" then Some 32
  else if String.eqb alg "sha384" then Some 48 else if String.eqb alg "sha512" then Some 64 else None.
Definition hash_block_size (alg : string) : Z :=
  if String.eqb alg "sha384" then 128 else if String.eqb alg "sha512" then 128 else 64.

(* getattr(hashlib, alg)().digest_size *)
Definition py_digest_size (alg : string) : res Z :=
  match digest_size alg with Some n => Ok n | None => Err AttributeError end.

(* hmac.HMAC(key, digestmod=alg): ValueError for an unknown digest name *)
Definition mk_hmac (O : Oracles) (alg : string) (key : list Z) : res HMac :=
  match digest_size alg with
  | Some n => Ok {| mac_ds := n; mac_bs := hash_block_size alg; mac_fn := o_hmac O alg key; mac_acc := [] |}
  | None => Err ValueError
  end.


(* ---- block cipher oracles ------------------------------------------------------------ *)
(* bo_enc key block / bo_dec key block stand for Rijndael(key, 16).encrypt(block) / .decrypt(block) *)
Record BlockOracle := mkBlockOracle {
  bo_enc : list Z -> list Z -> list Z;
  bo_dec : list Z -> list Z -> list Z }.

(* Rijndael(key, block_size): the key schedule is part of the oracle; the constructor only checks sizes *)
Definition mk_rijndael (key : list Z) (block_size : Z) : res (list Z) :=
  if negb (Z.eqb block_size 16 || Z.eqb block_size 24 || Z.eqb block_size 32) then Err ValueError
  else if negb (Z.eqb (zlen key) 16 || Z.eqb (zlen key) 24 || Z.eqb (zlen key) 32) then Err ValueError
  else Ok key.
