(* A toy keyed MAC defined identically in harness/toys.py; used so that model and
   implementation can be compared byte for byte on long inputs without recording
   an oracle table.  It has no cryptographic meaning. *)
From Coq Require Import ZArith List Bool Lia.
From TV Require Import Base.Prelude.
Import ListNotations.
Open Scope Z_scope.

Definition toy_absorb (h : Z) (b : Z) : Z :=
  Z.land (Z.lxor (Z.lxor (Z.shiftl h 5) (Z.shiftr h 2)) (b + 1)) 1048575.

Definition toy_state (key msg : list Z) : Z :=
  fold_left toy_absorb msg (fold_left toy_absorb key 1).

Definition toy_out (h : Z) (ds : Z) : list Z :=
  map (fun k => Z.land (Z.shiftr h (Z.land k 7) + 31 * k + h) 255) (zrange 0 ds).

Definition toy_mac (key : list Z) (ds : Z) (msg : list Z) : list Z :=
  toy_out (toy_state key msg) ds.

Definition toy_hmac (key : list Z) (ds bs : Z) : HMac :=
  {| mac_ds := ds; mac_bs := bs; mac_fn := toy_mac key ds; mac_acc := [] |}.

Lemma toy_mac_length key ds msg : 0 <= ds -> zlen (toy_mac key ds msg) = ds.
Proof.
  intros H. unfold toy_mac, toy_out, zlen. rewrite map_length, zrange_length.
  rewrite Z2Nat.id; [ring_simplify; reflexivity|]. rewrite Z.sub_0_r. exact H.
Qed.

Lemma toy_mac_bytes key ds msg : all_bytes (toy_mac key ds msg) = true.
Proof.
  unfold all_bytes, toy_mac, toy_out. apply forallb_forall. intros x Hx.
  apply in_map_iff in Hx. destruct Hx as [k [<- _]].
  unfold is_byte. change 255 with (Z.ones 8). rewrite Z.land_ones by lia.
  match goal with |- context [?a mod 2 ^ 8] => pose proof (Z.mod_pos_bound a (2 ^ 8) eq_refl) as B end.
  change (2 ^ 8) with 256 in *.
  apply andb_true_iff. split; [apply Z.leb_le|apply Z.ltb_lt]; apply B.
Qed.
