(* Toy hash/HMAC oracles (no cryptographic meaning), mirrored in harness/c09_toys.py: used to
   evaluate the KDF models on long outputs without recording tables, and as the instance that
   shows the oracle hypotheses are satisfiable. *)
From Coq Require Import ZArith List Bool String.
From TV Require Import Base.Prelude Base.C09_Lib Base.C09_Oracle Toy.ToyMac.
Import ListNotations.
Open Scope list_scope.
Open Scope Z_scope.

Definition alg_code (alg : string) : Z :=
  match digest_size alg with Some n => n | None => 0 end.

Definition toy_ds (alg : string) : Z := match digest_size alg with Some n => n | None => 16 end.

Definition toy_oracles : Oracles :=
  {| o_hash := fun alg data => toy_mac [alg_code alg; 1] (toy_ds alg) data;
     o_hmac := fun alg key data => toy_mac (alg_code alg :: 2 :: key) (toy_ds alg) data |}.

(* oracles backed by a finite recorded table (harness: real hashlib/hmac calls of one case);
   a query that was not recorded yields [-1], so the model cannot agree by accident *)
Definition table_oracles (tbl : list (list Z * list Z)) : Oracles :=
  {| o_hash := fun alg data => table_lookup tbl (1 :: alg_code alg :: data);
     o_hmac := fun alg key data =>
       table_lookup tbl (2 :: alg_code alg :: zlen key / 256 :: zlen key mod 256 :: key ++ data) |}.

(* block-cipher oracle backed by a recorded table: query = direction :: key length :: key ++ block *)
Definition table_block_oracle (tbl : list (list Z * list Z)) : BlockOracle :=
  {| bo_enc := fun key blk => table_lookup tbl (1 :: zlen key :: key ++ blk);
     bo_dec := fun key blk => table_lookup tbl (2 :: zlen key :: key ++ blk) |}.

(* a toy invertible "block cipher": add the key bytes (cyclically) and rotate the block by one position *)
Definition toy_blk_enc (key blk : list Z) : list Z :=
  let k := fun i => nthZ key (i mod (Z.max 1 (zlen key))) in
  let x := map (fun p => (snd p + k (fst p)) mod 256) (combine (zrange 0 (zlen blk)) blk) in
  skipn 1 x ++ firstn 1 x.
Definition toy_blk_dec (key blk : list Z) : list Z :=
  let k := fun i => nthZ key (i mod (Z.max 1 (zlen key))) in
  let n := List.length blk in
  let x := skipn (n - 1) blk ++ firstn (n - 1) blk in
  map (fun p => (snd p - k (fst p)) mod 256) (combine (zrange 0 (zlen x)) x).
Definition toy_block_oracle : BlockOracle := {| bo_enc := toy_blk_enc; bo_dec := toy_blk_dec |}.
