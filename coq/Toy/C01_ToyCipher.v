(* Toy bulk ciphers and a toy AEAD, defined identically in harness/c01_toys.py, so that
   the model's protect/unprotect and the real RecordLayer (with the toy objects injected
   as encContext/macContext) can be compared byte for byte.  No cryptographic meaning.
   Definitions only; the cipher state is a list Z for every toy. *)
From Coq Require Import ZArith List Bool.
From TV Require Import Base.Prelude Toy.ToyMac Model.C01_RecordPipe.
Import ListNotations.
Open Scope Z_scope.

Definition xor_lists (a b : list Z) : list Z := map (fun p => Z.lxor (fst p) (snd p)) (combine a b).

(* ---- a toy MAC whose 32-bit state is updated by a bijection per input byte (xorshift32), so two
   inputs that differ in one byte never collide (toys.ToyMac's 20-bit shift register forgets early
   bytes, which the C02 direct oracle would report as forgeries).  Only cheap bit operations: a
   16 kB input costs vm_compute about 0.3 s. ------------------------------------------------------- *)
Definition M32 : Z := 4294967295.
Definition tm_mix (h : Z) : Z :=
  let h := Z.lxor h (Z.land (Z.shiftl h 13) M32) in
  let h := Z.lxor h (Z.shiftr h 17) in
  Z.lxor h (Z.land (Z.shiftl h 5) M32).
Definition tm_absorb (h b : Z) : Z := tm_mix (Z.lxor h (b + 1)).
Definition tm_init (key : list Z) : Z := fold_left tm_absorb key 2463534242.
Fixpoint tm_out (fuel : nat) (h : Z) (n : Z) : list Z :=
  match fuel with
  | O => []
  | S f => if n <=? 0 then [] else
           map (fun j => Z.land (Z.shiftr h (8 * j)) 255) (firstn (Z.to_nat (Z.min n 4)) [0; 1; 2; 3])
           ++ tm_out f (tm_mix (Z.lxor h 1540483477)) (n - 4)
  end.
Definition toy2_mac (key : list Z) (ds : Z) (msg : list Z) : list Z :=
  tm_out (S (Z.to_nat ds)) (tm_mix (Z.lxor (fold_left tm_absorb msg (tm_init key)) 2654435769)) ds.
Definition toy2_hmac (key : list Z) (ds bs : Z) : HMac :=
  {| mac_ds := ds; mac_bs := bs; mac_fn := toy2_mac key ds; mac_acc := [] |}.

(* ---- stream cipher: state [h]; one keystream byte per input byte ------------------ *)
Definition ts_step (h : Z) : Z := (h * 75 + 74) mod 65537.
Fixpoint ts_run (h : Z) (x : list Z) : Z * list Z :=
  match x with
  | [] => (h, [])
  | b :: t => let r := ts_run (ts_step h) t in (fst r, Z.lxor b (Z.land h 255) :: snd r)
  end.
Definition ts_crypt (st : list Z) (x : list Z) : list Z * list Z :=
  let r := ts_run (nthZ st 0) x in ([fst r], snd r).
Definition ts_init (key : list Z) : list Z := [fold_left (fun h b => ts_step (h + b)) key 1].

(* ---- CBC over a toy block permutation: state = chaining block ------------------------ *)
Definition tb_enc (key blk : list Z) : list Z := rev (xor_lists blk key).
Definition tb_dec (key blk : list Z) : list Z := xor_lists (rev blk) key.

Fixpoint cbc_enc_fuel (fuel : nat) (bs : nat) (key iv x : list Z) : list Z * list Z :=
  match fuel with
  | O => (iv, [])
  | S f =>
      match x with
      | [] => (iv, [])
      | _ => let c := tb_enc key (xor_lists (firstn bs x) iv) in
             let r := cbc_enc_fuel f bs key c (skipn bs x) in
             (fst r, c ++ snd r)
      end
  end.
Fixpoint cbc_dec_fuel (fuel : nat) (bs : nat) (key iv x : list Z) : list Z * list Z :=
  match fuel with
  | O => (iv, [])
  | S f =>
      match x with
      | [] => (iv, [])
      | _ => let c := firstn bs x in
             let p := xor_lists (tb_dec key c) iv in
             let r := cbc_dec_fuel f bs key c (skipn bs x) in
             (fst r, p ++ snd r)
      end
  end.
Definition cbc_enc (bs : Z) (key : list Z) (iv x : list Z) := cbc_enc_fuel (length x) (Z.to_nat bs) key iv x.
Definition cbc_dec (bs : Z) (key : list Z) (iv x : list Z) := cbc_dec_fuel (length x) (Z.to_nat bs) key iv x.

(* ---- AEAD: ct = pt xor keystream(key, nonce); tag = toy_mac over nonce, aad, ct ------------ *)
Definition ta_tag (key : list Z) (tl : Z) (nonce aad ct : list Z) : list Z :=
  toy2_mac key tl (nonce ++ [zlen aad mod 256] ++ aad ++ ct).
Definition ta_ks0 (key nonce : list Z) : Z := fold_left (fun h b => ts_step (h + b)) (key ++ nonce) 7.
Definition ta_seal (key : list Z) (tl : Z) (nonce pt aad : list Z) : list Z :=
  let ct := snd (ts_run (ta_ks0 key nonce) pt) in ct ++ ta_tag key tl nonce aad ct.
Definition ta_open (key : list Z) (tl : Z) (nonce buf aad : list Z) : option (list Z) :=
  let n := zlen buf - tl in
  if n <? 0 then None else
  let ct := ztake n buf in
  if list_eqb (ta_tag key tl nonce aad ct) (zdrop n buf)
  then Some (snd (ts_run (ta_ks0 key nonce) ct)) else None.

(* ---- Prim records ------------------------------------------------------------------------- *)
Definition no_seal (n p a : list Z) : list Z := [].
Definition no_open (n c a : list Z) : option (list Z) := None.

Definition toy_prim_stream (mackey : list Z) (mds mbs : Z) : Prim (list Z) :=
  {| pr_enc := ts_crypt; pr_dec := ts_crypt; pr_mac := toy2_hmac mackey mds mbs;
     pr_seal := no_seal; pr_open := no_open |}.
Definition toy_prim_cbc (bs : Z) (key mackey : list Z) (mds mbs : Z) : Prim (list Z) :=
  {| pr_enc := cbc_enc bs key; pr_dec := cbc_dec bs key; pr_mac := toy2_hmac mackey mds mbs;
     pr_seal := no_seal; pr_open := no_open |}.
Definition toy_prim_aead (key : list Z) (tl : Z) : Prim (list Z) :=
  {| pr_enc := fun s x => (s, x); pr_dec := fun s x => (s, x); pr_mac := toy2_hmac [] 0 64;
     pr_seal := ta_seal key tl; pr_open := ta_open key tl |}.
