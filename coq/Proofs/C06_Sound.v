(* C06: soundness of the product-automaton inclusion check, and the enumeration lemmas.
   Nothing here is computed on the concrete gate table; see Proofs/C06_Incl.v for that. *)
From Coq Require Import ZArith List Bool.
From TV Require Import Model.C06_GateTypes Model.C06_HsOrder Spec.C06_HsGrammar Model.C06_Check.
Import ListNotations.

(* ------------------------------------------------------------------ boolean equalities *)
Lemma epoch_eqb_eq a b : epoch_eqb a b = true -> a = b.
Proof. destruct a, b; simpl; congruence. Qed.
Lemma hst_eqb_eq a b : hst_eqb a b = true -> a = b.
Proof. destruct a, b; simpl; congruence. Qed.
Lemma amode_eqb_eq a b : amode_eqb a b = true -> a = b.
Proof. destruct a, b; simpl; congruence. Qed.
Lemma reason_eqb_eq a b : reason_eqb a b = true -> a = b.
Proof. destruct a, b; simpl; congruence. Qed.
Lemma bufk_eqb_eq a b : bufk_eqb a b = true -> a = b.
Proof. destruct a, b; simpl; congruence. Qed.
Lemma bool_eqb_eq a b : Bool.eqb a b = true -> a = b.
Proof. destruct a, b; simpl; congruence. Qed.

Lemma atom_eqb_eq a b : atom_eqb a b = true -> a = b.
Proof.
  destruct a, b; simpl; try discriminate; intros H;
    repeat (apply andb_true_iff in H; destruct H as [H ?]);
    repeat match goal with
           | X : epoch_eqb _ _ = true |- _ => apply epoch_eqb_eq in X
           | X : hst_eqb _ _ = true |- _ => apply hst_eqb_eq in X
           | X : amode_eqb _ _ = true |- _ => apply amode_eqb_eq in X
           end; subst; reflexivity.
Qed.

Lemma re_eqb_eq a : forall b, re_eqb a b = true -> a = b.
Proof.
  induction a; destruct b; simpl; try discriminate; intros H.
  - reflexivity.
  - reflexivity.
  - apply atom_eqb_eq in H. subst. reflexivity.
  - apply andb_true_iff in H. destruct H as [H1 H2].
    rewrite (IHa1 _ H1), (IHa2 _ H2). reflexivity.
  - apply andb_true_iff in H. destruct H as [H1 H2].
    rewrite (IHa1 _ H1), (IHa2 _ H2). reflexivity.
  - rewrite (IHa _ H). reflexivity.
Qed.

Lemma pos_eqb_eq a b : pos_eqb a b = true -> a = b.
Proof.
  destruct a, b; simpl; try discriminate; try reflexivity.
  intros H. apply reason_eqb_eq in H. subst. reflexivity.
Qed.

Lemma st_eqb_eq a b : st_eqb a b = true -> a = b.
Proof.
  unfold st_eqb. intros H.
  destruct (andb_prop _ _ H) as [H1234 H5]. destruct (andb_prop _ _ H1234) as [H123 H4].
  destruct (andb_prop _ _ H123) as [H12 H3].
  destruct (andb_prop _ _ H12) as [H1 H2]. clear H H1234 H123 H12.
  apply pos_eqb_eq in H1. apply bufk_eqb_eq in H2. apply bool_eqb_eq in H3.
  apply epoch_eqb_eq in H4. apply bool_eqb_eq in H5.
  destruct a as [p1 b1 g1 e1 d1], b as [p2 b2 g2 e2 d2]. cbn [pc buf gotc bep ed] in *. subst. reflexivity.
Qed.

Lemma pair_eqb_eq a b : pair_eqb a b = true -> a = b.
Proof.
  unfold pair_eqb. intros H. destruct (andb_prop _ _ H) as [H1 H2]. clear H.
  apply st_eqb_eq in H1. apply re_eqb_eq in H2.
  destruct a as [q1 r1], b as [q2 r2]. cbn [fst snd] in *. subst. reflexivity.
Qed.

Lemma mem_In p l : mem p l = true -> In p l.
Proof.
  unfold mem. intros H. apply existsb_exists in H. destruct H as [x [Hin Heq]].
  apply pair_eqb_eq in Heq. subst. exact Hin.
Qed.

(* ------------------------------------------------------------------ soundness of check *)
Lemma dead_not_done q : dead q = true -> is_done q = false.
Proof. unfold dead, is_done. destruct (pc q); simpl; congruence. Qed.

Section Sound.
  Variable stp : st -> sym -> st.
  Hypothesis dead_closed : forall q a, dead q = true -> dead (stp q a) = true.

  Definition runs (q : st) (w : list sym) : st := fold_left stp w q.

  Lemma dead_runs w : forall q, dead q = true -> is_done (runs q w) = false.
  Proof.
    induction w as [|a w IH]; intros q H; simpl.
    - apply dead_not_done. exact H.
    - apply IH. apply dead_closed. exact H.
  Qed.

  Lemma check_sound q0 r0 A R :
    check stp q0 r0 A R = true ->
    forall w, Forall (fun a => In a A) w ->
    forall q r, In (q, r) R ->
    is_done (runs q w) = true -> nullable (derivs r w) = true.
  Proof.
    intros Hc. unfold check in Hc. apply andb_true_iff in Hc. destruct Hc as [_ Hall].
    rewrite forallb_forall in Hall.
    induction w as [|a w IH]; intros Hw q r Hin Hd.
    - simpl in *. specialize (Hall _ Hin). simpl in Hall.
      apply andb_true_iff in Hall. destruct Hall as [H1 _].
      rewrite Hd in H1. simpl in H1. exact H1.
    - simpl in *. inversion Hw as [|a' w' Ha Hw']; subst.
      specialize (Hall _ Hin) as Hq. simpl in Hq.
      apply andb_true_iff in Hq. destruct Hq as [_ H2].
      rewrite forallb_forall in H2. specialize (H2 _ Ha). unfold ok_succ in H2.
      apply orb_true_iff in H2. destruct H2 as [Hdead | Hmem].
      + rewrite (dead_runs w _ Hdead) in Hd. discriminate.
      + apply mem_In in Hmem. exact (IH Hw' _ _ Hmem Hd).
  Qed.

  Lemma included_by_sound q0 r0 A :
    included_by stp q0 r0 A = true ->
    forall w, Forall (fun a => In a A) w ->
    is_done (runs q0 w) = true -> matches r0 w = true.
  Proof.
    unfold included_by. generalize (reach big_fuel stp A [(q0, r0)] []). intros R Hc w Hw Hd.
    unfold matches.
    assert (Hin : In (q0, r0) R).
    { pose proof Hc as Hc'. unfold check in Hc'. apply andb_prop in Hc'. destruct Hc' as [Hm _].
      apply mem_In. exact Hm. }
    exact (check_sound q0 r0 A R Hc w Hw q0 r0 Hin Hd).
  Qed.
End Sound.

(* ------------------------------------------------------------------ enumerations are complete *)
Ltac in_list := simpl; repeat (first [left; reflexivity | right]).

Lemma all_epoch_complete e : In e all_epoch.
Proof. destruct e; in_list. Qed.

Lemma all_payload_complete p : In p all_payload.
Proof.
  destruct p as [t a|t a| | |ok|k|e|]; try destruct t; try destruct a; try destruct ok;
    try destruct k; try destruct e; unfold all_payload; in_list.
Qed.

Lemma Sigma_complete a : In a Sigma.
Proof.
  destruct a as [e p]. unfold Sigma. apply in_flat_map. exists e. split.
  - apply all_epoch_complete.
  - apply in_map. apply all_payload_complete.
Qed.

Lemma Sigma_Forall w : Forall (fun a => In a Sigma) w.
Proof. induction w; constructor; auto using Sigma_complete. Qed.

Lemma all_pos_complete p : In p all_pos.
Proof. destruct p as [| | | | | | | | | | | | | | | | | | | | | | | | | |r]; try destruct r; unfold all_pos; in_list. Qed.

Lemma all_st_complete s : In s all_st.
Proof.
  destruct s as [p b g e d]. unfold all_st.
  apply in_flat_map. exists p. split; [apply all_pos_complete|].
  apply in_flat_map. exists e. split; [apply all_epoch_complete|].
  apply in_flat_map. exists b. split; [destruct b; in_list|].
  destruct g, d; in_list.
Qed.

(* ------------------------------------------------------------------ dead states stay dead *)
Lemma step_dead t c s e : dead s = true -> dead (fst (step_t t c s e)) = true.
Proof.
  destruct s as [p b g be d0]. unfold dead. simpl.
  destruct p; try discriminate; intros _.
  - unfold step_t. simpl pc.
    destruct (negb (wf_event _ e)); [reflexivity|].
    destruct (getmsg _ _ _ _ e) as [w| |rs|d]; try reflexivity.
    destruct d as [t0|ok|k|]; try destruct t0; reflexivity.
  - reflexivity.
Qed.

Lemma stp_of_dead G c q a : dead q = true -> dead (stp_of G c q a) = true.
Proof. unfold stp_of. apply step_dead. Qed.

(* the run of the model is the iteration of stp_of *)
Lemma run_is_runs G c s w : run_from (gate_tab G c) c s w = runs (stp_of G c) s w.
Proof. reflexivity. Qed.
