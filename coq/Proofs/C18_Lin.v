(* From step-level serializability to object-level serializability: if every method call
   is a step program that respects the lock discipline, has one critical section and,
   executed alone, does what the sequential model says, then any number of concurrent calls
   under any schedule produce results and a final object state that the sequential model
   produces for some order of the calls. *)
From Coq Require Import ZArith Bool Lia String List.
From TV Require Import Base.Prelude Base.C18_Lib Model.C18_Cache Model.C18_Conc Model.C18_LockSteps
     Proofs.C18_Conc Proofs.C18_Locks Gen.Locks.
Import ListNotations.

Lemma nth_error_ext {A} : forall (l1 l2 : list A), (forall i, nth_error l1 i = nth_error l2 i) -> l1 = l2.
Proof.
  induction l1 as [|x l1 IH]; intros [|y l2] H.
  - reflexivity.
  - specialize (H O). discriminate.
  - specialize (H O). discriminate.
  - pose proof (H O) as H0. cbn in H0. inversion H0; subst. f_equal. apply IH. intros i. exact (H (S i)).
Qed.

Section Lin.
  Variables Lo V W Call R : Type.
  Variable mstep : W -> Call -> W * R.          (* the sequential model of one call *)
  Variable sem : Call -> list (step Lo V).      (* a small-step reading of the method bodies *)
  Variable absS : store V -> W.                 (* what the shared store represents *)
  Variable res : Lo -> option R.                (* the result a finished call left in its locals *)
  Variable lo0 : Lo.
  Variable calls : list Call.                   (* one call per thread *)

  Hypothesis sem_wl : forall call, In call calls -> well_locked (sem call) = true.
  Hypothesis sem_one : forall call, In call calls -> (count_acq (sem call) <= 1)%nat.
  Hypothesis sem_nonempty : forall call, In call calls -> sem call <> [].
  Hypothesis sem_effect : forall call st, In call calls ->
    absS (fst (run_all st lo0 (sem call))) = fst (mstep (absS st) call) /\
    res (snd (run_all st lo0 (sem call))) = Some (snd (mstep (absS st) call)).

  Definition mconf := (W * list (option R))%type.

  (* the model executes call i unless it already has a result *)
  Definition mrun_op (m : mconf) (i : nat) : mconf :=
    match nth_error calls i, nth_error (snd m) i with
    | Some call, Some None => (fst (mstep (fst m) call), upd_nth i (snd m) (Some (snd (mstep (fst m) call))))
    | _, _ => m
    end.
  Definition mserial (order : list nat) (m : mconf) : mconf := fold_left mrun_op order m.

  Definition call_thread (call : Call) : thread Lo V := {| t_lo := lo0; t_prog := sem call |}.

  Definition state3 (call : Call) (t : thread Lo V) (r : option R) : Prop :=
    (t = call_thread call /\ r = None) \/ (t_prog t = [] /\ r <> None /\ res (t_lo t) = r).

  Definition lin_inv (sc : sconf Lo V) (m : mconf) : Prop :=
    absS (fst sc) = fst m /\
    length (snd sc) = length calls /\ length (snd m) = length calls /\
    forall i call t r, nth_error calls i = Some call -> nth_error (snd sc) i = Some t ->
                       nth_error (snd m) i = Some r -> state3 call t r.

  Lemma run_chunk_whole call st : In call calls ->
    run_chunk false st lo0 (sem call) = (fst (run_all st lo0 (sem call)), snd (run_all st lo0 (sem call)), []).
  Proof.
    intros Hin. apply (run_chunk_single Lo V (sem call) false false).
    - exact (sem_wl call Hin).
    - pose proof (sem_one call Hin). destruct (count_acq (sem call)) as [|[|k]] eqn:E; [left; reflexivity|right; auto|lia].
  Qed.

  Lemma lin_step sc m i : lin_inv sc m -> lin_inv (run_op sc i) (mrun_op m i).
  Proof.
    intros [Ha [Hl1 [Hl2 Hp]]]. destruct sc as [st ths]. destruct m as [w rs]. cbn [fst snd] in *.
    unfold run_op, mrun_op. cbn [fst snd].
    destruct (nth_error ths i) as [t|] eqn:Ht.
    2:{ assert (nth_error calls i = None) as Hc.
        { apply nth_error_None. apply nth_error_None in Ht. lia. }
        rewrite Hc. repeat split; assumption. }
    assert (i < length calls)%nat as Hi by (rewrite <- Hl1; apply nth_error_Some; congruence).
    destruct (nth_error calls i) as [call|] eqn:Hc; [|apply nth_error_None in Hc; lia].
    destruct (nth_error rs i) as [r|] eqn:Hr; [|apply nth_error_None in Hr; lia].
    pose proof (nth_error_In _ _ Hc) as Hin.
    destruct (Hp i call t r Hc Ht Hr) as [[-> ->]|[Hnil [Hnn Hres]]].
    - (* the call runs now, as a whole *)
      cbn [call_thread t_lo t_prog]. rewrite (run_chunk_whole call st Hin).
      destruct (sem_effect call st Hin) as [E1 E2]. rewrite Ha in E1, E2.
      split; [exact E1|]. cbn [fst snd]. unfold set_thread. rewrite !upd_nth_length.
      split; [exact Hl1|]. split; [exact Hl2|].
      intros j call' t' r' Hc' Ht' Hr'. destruct (Nat.eq_dec j i) as [->|Hne].
      + rewrite upd_nth_same in Ht' by lia. rewrite upd_nth_same in Hr' by lia.
        inversion Ht'; inversion Hr'; subst. right. cbn [t_prog t_lo].
        split; [reflexivity|]. split; [discriminate|exact E2].
      + rewrite upd_nth_other in Ht' by exact Hne. rewrite upd_nth_other in Hr' by exact Hne.
        eapply Hp; eassumption.
    - (* already finished: nothing happens on either side *)
      destruct r as [r|]; [|congruence]. rewrite Hnil. cbn [run_chunk].
      split; [exact Ha|]. cbn [fst snd]. unfold set_thread. rewrite upd_nth_length.
      split; [exact Hl1|]. split; [exact Hl2|].
      intros j call' t' r' Hc' Ht' Hr'. destruct (Nat.eq_dec j i) as [->|Hne].
      + rewrite upd_nth_same in Ht' by lia. inversion Ht'; subst t'.
        rewrite Hr in Hr'. inversion Hr'; subst r'. rewrite Hc in Hc'. inversion Hc'; subst call'.
        right. cbn [t_prog t_lo]. split; [reflexivity|]. split; [discriminate|exact Hres].
      + rewrite upd_nth_other in Ht' by exact Hne. eapply Hp; eassumption.
  Qed.

  Lemma lin_serial order : forall sc m, lin_inv sc m -> lin_inv (serial order sc) (mserial order m).
  Proof.
    induction order as [|i order IH]; intros sc m H; [exact H|].
    unfold serial, mserial. cbn [fold_left]. apply IH. apply lin_step. exact H.
  Qed.

  Definition lin_config (st0 : store V) : config Lo V :=
    {| g_store := st0; g_lock := None; g_threads := map call_thread calls |}.

  Lemma object_serializable_all : forall st0 sched cf,
    run_sched (lin_config st0) sched = Some cf -> terminal cf ->
    exists order,
      absS (g_store cf) = fst (mserial order (absS st0, map (fun _ => None) calls)) /\
      map (fun t => res (t_lo t)) (g_threads cf) = snd (mserial order (absS st0, map (fun _ => None) calls)) /\
      Forall (fun r => r <> None) (snd (mserial order (absS st0, map (fun _ => None) calls))).
  Proof.
    intros st0 sched cf Hrun Hterm.
    destruct (serializable_all Lo V (lin_config st0) cf sched) as [order Hser]; [reflexivity| |exact Hrun|exact Hterm|].
    { intros t Ht. cbn [lin_config g_threads] in Ht. apply in_map_iff in Ht. destruct Ht as [call [<- Hin]].
      exact (sem_wl call Hin). }
    exists order.
    assert (lin_inv (g_store (lin_config st0), g_threads (lin_config st0)) (absS st0, map (fun _ => None) calls)) as Hi.
    { cbn [lin_config g_store g_threads]. split; [reflexivity|]. cbn [fst snd]. rewrite !map_length.
      split; [reflexivity|]. split; [reflexivity|].
      intros i call t r Hc Ht Hr. left.
      rewrite nth_error_map, Hc in Ht. rewrite nth_error_map, Hc in Hr. cbn in Ht, Hr.
      inversion Ht; inversion Hr; auto. }
    pose proof (lin_serial order _ _ Hi) as [Ha [Hl1 [Hl2 Hp]]]. rewrite Hser in Ha, Hl1, Hp. cbn [fst snd] in *.
    set (m := mserial order (absS st0, map (fun _ => None) calls)) in *.
    assert (forall i call t r, nth_error calls i = Some call -> nth_error (g_threads cf) i = Some t ->
                               nth_error (snd m) i = Some r -> r <> None /\ res (t_lo t) = r) as Hfin.
    { intros i call t r Hc Ht Hr. destruct (Hp i call t r Hc Ht Hr) as [[-> _]|[_ [H1 H2]]]; [|auto].
      exfalso. apply (sem_nonempty call (nth_error_In _ _ Hc)).
      specialize (Hterm _ (nth_error_In _ _ Ht)). exact Hterm. }
    split; [exact Ha|]. split.
    - apply nth_error_ext. intros i. rewrite nth_error_map.
      destruct (nth_error (g_threads cf) i) as [t|] eqn:Ht.
      + assert (i < length calls)%nat as Hil by (rewrite <- Hl1; apply nth_error_Some; congruence).
        destruct (nth_error calls i) as [call|] eqn:Hc; [|apply nth_error_None in Hc; lia].
        destruct (nth_error (snd m) i) as [r|] eqn:Hr; [|apply nth_error_None in Hr; lia].
        cbn. f_equal. exact (proj2 (Hfin i call t r Hc Ht Hr)).
      + cbn. symmetry. apply nth_error_None. apply nth_error_None in Ht. lia.
    - apply Forall_forall. intros r Hin. apply In_nth_error in Hin. destruct Hin as [i Hr].
      assert (i < length calls)%nat as Hil by (rewrite <- Hl2; apply nth_error_Some; congruence).
      destruct (nth_error calls i) as [call|] eqn:Hc; [|apply nth_error_None in Hc; lia].
      destruct (nth_error (g_threads cf) i) as [t|] eqn:Ht; [|apply nth_error_None in Ht; lia].
      exact (proj1 (Hfin i call t r Hc Ht Hr)).
  Qed.
End Lin.

(* ---- SessionCache: calls are __getitem__ / __setitem__, the clock is part of the object ---- *)
Open Scope Z_scope.

Definition ccall := (op * Z)%type.           (* the call and how far the clock has moved on since the previous read *)

Definition cache_mstep (wc : world * Z) (call : ccall) : (world * Z) * outcome :=
  let now := snd wc + snd call in
  let '(w', r) := apply (fst wc) now (fst call) in ((w', now), r).

Definition cache_method (o : op) : option (list shape) :=
  match o with
  | Get _ => Some (shapes all_methods ("SessionCache", "__getitem__", SessionCache_getitem)%string)
  | Put _ _ => Some (shapes all_methods ("SessionCache", "__setitem__", SessionCache_setitem)%string)
  | _ => None
  end.

Lemma cache_shapes_ok : forall o sh, cache_method o = Some sh ->
  well_locked_shape sh = true /\ (count_acq_shape sh <= 1)%nat /\ sh <> [].
Proof.
  intros o sh H. destruct o; cbn [cache_method] in H; inversion H; subst sh; clear H;
    (split; [vm_compute; reflexivity|split; [vm_compute; lia|vm_compute; discriminate]]).
Qed.

Lemma cache_linearizable_all : forall (Lo V : Type) (sem : ccall -> list (step Lo V))
    (absS : store V -> world * Z) (res : Lo -> option outcome) (lo0 : Lo) (calls : list ccall),
  (forall call, In call calls -> cache_method (fst call) = Some (map (@shape_of Lo V) (sem call))) ->
  (forall call st, In call calls ->
     absS (fst (run_all st lo0 (sem call))) = fst (cache_mstep (absS st) call) /\
     res (snd (run_all st lo0 (sem call))) = Some (snd (cache_mstep (absS st) call))) ->
  forall st0 sched cf,
  run_sched (lin_config Lo V ccall sem lo0 calls st0) sched = Some cf -> terminal cf ->
  exists order,
    let m := mserial (world * Z) ccall outcome cache_mstep calls order (absS st0, map (fun _ => None) calls) in
    absS (g_store cf) = fst m /\
    map (fun t => res (t_lo t)) (g_threads cf) = snd m /\
    Forall (fun r => r <> None) (snd m).
Proof.
  intros Lo V sem absS res lo0 calls Hshape Heff st0 sched cf Hrun Hterm.
  assert (forall call, In call calls -> well_locked (sem call) = true) as H1.
  { intros call Hin. destruct (cache_shapes_ok _ _ (Hshape call Hin)) as [H _].
    unfold well_locked. rewrite wl_of_shape. exact H. }
  assert (forall call, In call calls -> (count_acq (sem call) <= 1)%nat) as H2.
  { intros call Hin. destruct (cache_shapes_ok _ _ (Hshape call Hin)) as [_ [H _]].
    rewrite count_acq_of_shape. exact H. }
  assert (forall call, In call calls -> sem call <> []) as H3.
  { intros call Hin E. destruct (cache_shapes_ok _ _ (Hshape call Hin)) as [_ [_ H]].
    apply H. rewrite E. reflexivity. }
  exact (object_serializable_all Lo V (world * Z) ccall outcome cache_mstep sem absS res lo0 calls
           H1 H2 H3 Heff st0 sched cf Hrun Hterm).
Qed.
