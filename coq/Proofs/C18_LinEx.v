(* The hypotheses of cache_linearizable are satisfiable: a step program with exactly the
   extracted access pattern whose sequential effect is the model.  (The first shared read
   computes the call's result from the object state, the last shared write installs the new
   state, every other step is a no-op: enough to show the hypotheses are consistent.) *)
From Coq Require Import ZArith Bool Lia String List.
From TV Require Import Base.Prelude Base.C18_Lib Model.C18_Cache Model.C18_Conc Model.C18_LockSteps
     Proofs.C18_Lin Gen.Locks.
Import ListNotations.
Open Scope Z_scope.

Definition exLo := option outcome.
Definition exV := (world * Z)%type.

Definition is_wr (s : shape) : bool := match s with SWr => true | _ => false end.

Fixpoint realize (call : ccall) (sh : list shape) : list (step exLo exV) :=
  match sh with
  | [] => []
  | SAcq :: r => Acq :: realize call r
  | SRel :: r => Rel :: realize call r
  | SLoc :: r => Loc (fun lo => lo) :: realize call r
  | SRd :: r => Rd 0 (fun lo v => match lo with None => Some (snd (cache_mstep v call)) | _ => lo end) :: realize call r
  | SWr :: r => Wr 0 (fun _ v => if existsb is_wr r then v else fst (cache_mstep v call)) :: realize call r
  end.

Definition ex_sem (call : ccall) : list (step exLo exV) :=
  match cache_method (fst call) with Some sh => realize call sh | None => [] end.

Lemma realize_shape call sh : map (@shape_of exLo exV) (realize call sh) = sh.
Proof. induction sh as [|s sh IH]; [reflexivity|]. destruct s; cbn [realize map shape_of]; rewrite IH; reflexivity. Qed.

Lemma ex_sem_shape call : (exists sh, cache_method (fst call) = Some sh) ->
  cache_method (fst call) = Some (map (@shape_of exLo exV) (ex_sem call)).
Proof. intros [sh H]. unfold ex_sem. rewrite H, realize_shape. reflexivity. Qed.

Definition sh_get := shapes all_methods ("SessionCache", "__getitem__", SessionCache_getitem)%string.
Definition sh_put := shapes all_methods ("SessionCache", "__setitem__", SessionCache_setitem)%string.

Lemma upd_same (st : store exV) v : upd st 0 v 0 = v.
Proof. reflexivity. Qed.

Lemma ex_effect_get id d (st : store exV) :
  fst (run_all st None (ex_sem (Get id, d))) 0 = fst (cache_mstep (st 0) (Get id, d)) /\
  snd (run_all st None (ex_sem (Get id, d))) = Some (snd (cache_mstep (st 0) (Get id, d))).
Proof.
  unfold ex_sem. cbn [cache_method fst].
  assert (shapes all_methods ("SessionCache", "__getitem__", SessionCache_getitem)%string = sh_get) as -> by reflexivity.
  assert (sh_get = ltac:(let v := eval vm_compute in sh_get in exact v)) as -> by (vm_compute; reflexivity).
  cbn [realize existsb is_wr orb run_all]. cbv [upd]. cbn [fst snd Z.eqb]. split; reflexivity.
Qed.

Lemma ex_effect_put id s d (st : store exV) :
  fst (run_all st None (ex_sem (Put id s, d))) 0 = fst (cache_mstep (st 0) (Put id s, d)) /\
  snd (run_all st None (ex_sem (Put id s, d))) = Some (snd (cache_mstep (st 0) (Put id s, d))).
Proof.
  unfold ex_sem. cbn [cache_method fst].
  assert (shapes all_methods ("SessionCache", "__setitem__", SessionCache_setitem)%string = sh_put) as -> by reflexivity.
  assert (sh_put = ltac:(let v := eval vm_compute in sh_put in exact v)) as -> by (vm_compute; reflexivity).
  cbn [realize existsb is_wr orb run_all]. cbv [upd]. cbn [fst snd Z.eqb]. split; reflexivity.
Qed.

Definition ex_abs (st : store exV) : world * Z := st 0.

(* the two hypotheses of cache_linearizable, for every list of get/put calls *)
Lemma cache_linearizable_hypotheses_hold : forall calls : list ccall,
  Forall (fun c => match fst c with Get _ | Put _ _ => True | _ => False end) calls ->
  (forall call, In call calls -> cache_method (fst call) = Some (map (@shape_of exLo exV) (ex_sem call))) /\
  (forall call st, In call calls ->
     ex_abs (fst (run_all st None (ex_sem call))) = fst (cache_mstep (ex_abs st) call) /\
     (fun lo : exLo => lo) (snd (run_all st None (ex_sem call))) = Some (snd (cache_mstep (ex_abs st) call))).
Proof.
  intros calls Hall. rewrite Forall_forall in Hall. split.
  - intros call Hin. apply ex_sem_shape. specialize (Hall call Hin).
    destruct call as [[id|id s| |s b] d]; cbn [fst] in *; try contradiction; cbn [cache_method]; eauto.
  - intros call st Hin. specialize (Hall call Hin). unfold ex_abs.
    destruct call as [[id|id s| |s b] d]; cbn [fst] in Hall; try contradiction.
    + apply ex_effect_get.
    + apply ex_effect_put.
Qed.
