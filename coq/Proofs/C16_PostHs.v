From Coq Require Import ZArith List Bool Lia.
From TV Require Import Base.Prelude Model.C16_PostHs Spec.C16_Spec.
Import ListNotations.
Open Scope Z_scope.

Lemma in_step_trans : forall ch g w l w',
  in_step g ch w -> in_step w l w' -> in_step g (ch ++ l) w'.
Proof.
  induction ch as [|r ch IH]; intros g w l w' H1 H2; cbn [app in_step] in *.
  - subst. exact H2.
  - destruct H1 as [Ht H1]. split; [exact Ht|]. eapply IH; eassumption.
Qed.

Lemma in_step_nk : forall l w, (forall r, In r l -> tag r = w /\ valid_ku (body r) = false) -> in_step w l w.
Proof.
  induction l as [|r l IH]; intros w H; cbn [in_step]; [reflexivity|].
  destruct (H r (or_introl eq_refl)) as [Ht Hk]. split; [exact Ht|]. rewrite Hk.
  apply IH. intros r' Hr'. apply H. right. exact Hr'.
Qed.

Lemma chdata_app a b : chdata (a ++ b) = chdata a ++ chdata b.
Proof. unfold chdata. apply flat_map_app. Qed.

Lemma noku_app a b : noku a -> noku b -> noku (a ++ b).
Proof. intros Ha Hb r Hr. apply in_app_or in Hr. destruct Hr; auto. Qed.

Lemma noku_cons_inv r l : noku (r :: l) -> valid_ku (body r) = false /\ noku l.
Proof. intros H. split; [apply H; left; reflexivity|]. intros x Hx. apply H. right. exact Hx. Qed.

Lemma noku_nil : noku [].
Proof. intros r []. Qed.

Lemma noku_nk l : (forall r, In r l -> valid_ku (body r) = false) -> noku l.
Proof. intros H. exact H. Qed.

(* fragments *)
Lemma chunks_concat : forall fuel n d, concat (chunks fuel n d) = d.
Proof.
  induction fuel as [|f IH]; intros n d; cbn [chunks].
  - cbn. apply app_nil_r.
  - destruct (Nat.leb (length d) n); cbn [concat].
    + apply app_nil_r.
    + rewrite IH. apply firstn_skipn.
Qed.

Lemma chdata_map_data w l : chdata (map (fun f => mkrec w (MData f)) l) = concat l.
Proof.
  unfold chdata. induction l as [|x l IH]; cbn [map flat_map concat]; [reflexivity|].
  cbn [body mdata]. rewrite IH. reflexivity.
Qed.

Lemma chdata_nodata l : (forall r, In r l -> mdata (body r) = []) -> chdata l = [].
Proof.
  unfold chdata. induction l as [|x l IH]; intros H; cbn [flat_map]; [reflexivity|].
  rewrite (H x (or_introl eq_refl)). cbn [app]. apply IH. intros r Hr. apply H. right. exact Hr.
Qed.

(* ---- post-handshake-auth bookkeeping ------------------------------------------------ *)
Lemma NoDup_snoc {A} (l : list A) x : NoDup l -> ~ In x l -> NoDup (l ++ [x]).
Proof.
  induction l as [|y l IH]; intros Hd Hn; cbn [app].
  - constructor; [intros []|constructor].
  - inversion Hd as [|? ? Hy Hd']; subst. constructor.
    + intros Hin. apply in_app_or in Hin. destruct Hin as [Hin|[Hin|[]]]; [tauto|].
      subst. apply Hn. left. reflexivity.
    + apply IH; [exact Hd'|]. intros Hin. apply Hn. right. exact Hin.
Qed.

Lemma ctx_mem_in c l : ctx_mem c l = true <-> In c (map fst l).
Proof.
  unfold ctx_mem. rewrite existsb_exists. split.
  - intros [p [Hp He]]. apply Z.eqb_eq in He. subst. apply in_map. exact Hp.
  - intros H. apply in_map_iff in H. destruct H as [p [He Hp]]. exists p. split; [exact Hp|]. apply Z.eqb_eq. exact He.
Qed.

Lemma in_ctx_del x c l : In x (map fst (ctx_del c l)) <-> In x (map fst l) /\ x <> c.
Proof.
  unfold ctx_del. induction l as [|p l IH]; cbn [filter map In].
  - tauto.
  - destruct (fst p =? c) eqn:E; cbn [negb map In].
    + apply Z.eqb_eq in E. rewrite IH. split; [tauto|]. intros [[H|H] Hn]; [congruence|tauto].
    + apply Z.eqb_neq in E. rewrite IH. split; [intros [H|H]; [subst; tauto|tauto]|tauto].
Qed.

Lemma nodup_ctx_del c l : NoDup (map fst l) -> NoDup (map fst (ctx_del c l)).
Proof.
  unfold ctx_del. induction l as [|p l IH]; cbn [filter map]; intros H; [constructor|].
  inversion H as [|? ? Hn Hd]; subst.
  destruct (fst p =? c); cbn [negb map]; [apply IH; exact Hd|].
  constructor; [|apply IH; exact Hd].
  intros Hin. apply Hn. apply (proj1 (in_ctx_del _ c l)) in Hin. tauto.
Qed.

Lemma au_ok_pop me c : au_ok me -> au_ok (pop_ctx me c).
Proof.
  unfold au_ok, ctxs, pop_ctx. cbn. intros (H1 & H2 & H3 & H4 & H5).
  split; [apply nodup_ctx_del; exact H1|].
  split; [intros x Hx; apply in_ctx_del in Hx; apply H2; tauto|].
  split; [exact H3|].
  split; [|exact H5].
  intros x Hx. split; [apply H4; exact Hx|].
  intros Hin. apply in_ctx_del in Hin. apply (H4 x Hx). tauto.
Qed.

Lemma au_ok_record me c ch : au_ok me -> In c (ctxs me) ->
  au_ok (record_chain (pop_ctx me c) c ch).
Proof.
  intros Hm Hin. pose proof (au_ok_pop me c Hm) as Hp.
  destruct Hm as (H1 & H2 & H3 & H4 & H5).
  unfold au_ok, ctxs, record_chain, pop_ctx in *. cbn in *.
  destruct Hp as (P1 & P2 & P3 & P4 & P5).
  split; [exact P1|]. split; [exact P2|].
  split; [apply NoDup_snoc; [exact H3|]; intros Ha; apply (H4 c Ha); exact Hin|].
  split; [|exact H5].
  intros x Hx. apply in_app_or in Hx. destruct Hx as [Hx|[Hx|[]]].
  - apply P4. exact Hx.
  - subst x. split; [apply H2; exact Hin|]. intros Hd. apply in_ctx_del in Hd. tauto.
Qed.

Lemma au_ok_request me wf : au_ok me ->
  au_ok (set_au me (mkau (pending (au me) ++ [(next_ctx (au me), wf)]) (next_ctx (au me) + 1)
                         (chain (au me)) (accepted (au me)) (first_ctx (au me)))).
Proof.
  unfold au_ok, ctxs. cbn. intros (H1 & H2 & H3 & H4 & H5).
  rewrite map_app. cbn [map fst].
  split; [apply NoDup_snoc; [exact H1|]; intros Hin; apply H2 in Hin; lia|].
  split; [intros x Hx; apply in_app_or in Hx; destruct Hx as [Hx|[Hx|[]]]; [apply H2 in Hx; lia|lia]|].
  split; [exact H3|]. split; [|lia].
  intros x Hx. destruct (H4 x Hx) as [Ha Hb]. split; [lia|].
  intros Hin. apply in_app_or in Hin. destruct Hin as [Hin|[Hin|[]]]; [tauto|lia].
Qed.

(* ---- the read loop ---------------------------------------------------------------------- *)
Definition pre (v13 : bool) (me : ep) (inc : list rec) (wp : Z) : Prop :=
  in_step (rgen (ks me)) inc wp /\ (v13 = false -> noku inc) /\ rbuf (io me) = [] /\ cnt_ok me /\ au_ok me.

Definition post (v13 : bool) (me : ep) (inc : list rec) (wp : Z) (R : resT) : Prop :=
  let '(me', inc', em, c) := R in
  in_step (rgen (ks me')) inc' wp /\
  in_step (wgen (ks me)) em (wgen (ks me')) /\
  chdata em = [] /\
  (v13 = false -> noku em /\ noku inc') /\
  delivered (io me') ++ rbuf (io me') ++ chdata inc' = delivered (io me) ++ chdata inc /\
  sent (io me') = sent (io me) /\
  cnt_ok me' /\ au_ok me' /\ cf me' = cf me.

(* an endpoint that differs from [me] only in PHA bookkeeping / tickets / heartbeat log *)
Definition same_core (me me1 : ep) : Prop := ks me1 = ks me /\ io me1 = io me /\ cf me1 = cf me.

Lemma same_core_refl me : same_core me me.
Proof. repeat split. Qed.

Lemma pre_skip v13 me r inc' wp :
  pre v13 me (r :: inc') wp -> valid_ku (body r) = false -> pre v13 me inc' wp.
Proof.
  intros (Hs & Hn & Hb & Hc & Ha) Hk. cbn [in_step] in Hs. rewrite Hk in Hs.
  split; [tauto|]. split; [intros Hv; apply (noku_cons_inv r); auto|]. auto.
Qed.

Lemma post_skip v13 me r inc' wp R :
  mdata (body r) = [] -> post v13 me inc' wp R -> post v13 me (r :: inc') wp R.
Proof.
  destruct R as [[[m' i'] e'] c']. unfold post. unfold chdata. cbn [flat_map]. intros ->. cbn [app]. auto.
Qed.

Lemma pre_core v13 me me1 inc wp : pre v13 me inc wp -> same_core me me1 -> au_ok me1 -> pre v13 me1 inc wp.
Proof.
  intros (Hs & Hn & Hb & Hc & Ha) (E1 & E2 & E3) Ha1. unfold pre, cnt_ok in *. rewrite E1, E2. auto.
Qed.

Lemma post_core v13 me me1 inc wp R : same_core me me1 -> post v13 me1 inc wp R -> post v13 me inc wp R.
Proof.
  intros (E1 & E2 & E3). destruct R as [[[m' i'] e'] c']. unfold post. rewrite E1, E2, E3. auto.
Qed.

Lemma die_post0 v13 me inc wp d : pre v13 me inc wp -> post v13 me inc wp (die me inc d).
Proof.
  intros (Hs & Hn & Hb & Hc & Ha).
  unfold post, die, fatal, emit, cnt_ok in *. cbn.
  split; [exact Hs|]. split; [split; reflexivity|]. split; [reflexivity|].
  split. { intros Hv. split; [|auto]. intros x [Hx|[]]. subst x. reflexivity. }
  split. { rewrite Hb. reflexivity. }
  split; [reflexivity|]. split; [exact Hc|]. split; [exact Ha|reflexivity].
Qed.

Lemma die_post v13 me me1 r inc' wp d :
  pre v13 me (r :: inc') wp -> valid_ku (body r) = false -> mdata (body r) = [] ->
  same_core me me1 -> au_ok me1 ->
  post v13 me (r :: inc') wp (die me1 inc' d).
Proof.
  intros Hp Hk Hd Hc Ha. apply post_skip; [exact Hd|]. apply (post_core _ _ me1); [exact Hc|].
  apply die_post0. eapply pre_core; [|exact Hc|exact Ha]. eapply pre_skip; eassumption.
Qed.

Lemma on_heartbeat_spec me b me1 out :
  on_heartbeat me b = Some (me1, out) ->
  same_core me me1 /\ au me1 = au me /\
  (forall r, In r out -> tag r = wgen (ks me) /\ exists f, body r = MHB f).
Proof.
  assert (Hnil : same_core me me /\ au me = au me /\
                 (forall r, In r (@nil rec) -> tag r = wgen (ks me) /\ exists f, body r = MHB f)).
  { split; [apply same_core_refl|]. split; [reflexivity|]. intros r []. }
  unfold on_heartbeat. destruct (hb_sup (cf me)); cbn [negb]; [|discriminate].
  destruct b as [|b0 b']; [discriminate|].
  destruct (hb_parse (b0 :: b')) as [[[ty payload] pad]|].
  2:{ intros H. inversion H; subst. exact Hnil. }
  destruct (ty =? 1).
  - destruct (hb_recv (cf me)); cbn [negb]; [|discriminate].
    destruct (zlen pad <? 16); [intros H; inversion H; subst; exact Hnil|].
    destruct (recsize (cf me) <? zlen (hb_write 2 payload (padding 16))); intros H; inversion H; subst; [exact Hnil|].
    split; [apply same_core_refl|]. split; [reflexivity|].
    intros r [Hr|[]]. subst r. split; [reflexivity|]. eexists. reflexivity.
  - destruct ((ty =? 2) && hb_cb (cf me)); intros H; inversion H; subst; [|exact Hnil].
    split; [repeat split|]. split; [reflexivity|]. intros r [].
Qed.

Lemma block_post v13 me inc wp : pre v13 me inc wp -> post v13 me inc wp (me, inc, [], 1).
Proof.
  intros (Hs & Hn & Hrb & Hc & Ha). unfold post.
  split; [exact Hs|]. split; [reflexivity|]. split; [reflexivity|].
  split; [intros Hv; split; [apply noku_nil|auto]|]. rewrite Hrb.
  split; [reflexivity|]. split; [reflexivity|]. split; [exact Hc|]. split; [exact Ha|reflexivity].
Qed.

(* the Finished step of _handle_srv_pha *)
Lemma pha_fin_post v13 me mp l wp ctx ch R0 :
  pre v13 me l wp -> same_core me mp -> au_ok mp -> au_ok (record_chain mp ctx ch) ->
  post v13 me l wp R0 ->
  post v13 me l wp
    (match l with
     | [] => R0
     | f :: tl =>
         if negb (tag f =? rgen (ks mp)) then (mark_badmac (fatal mp 20), tl, [emit mp (MAlert true 20)], 120) else
         match body f with
         | MFin ok => if ok then (record_chain mp ctx ch, tl, [], 0) else die mp tl 51
         | _ => die mp l 10
         end
     end).
Proof.
  intros Hpre Hsc Hap Har HR0. destruct l as [|f tl]; [exact HR0|].
  pose proof Hsc as (E1 & E2 & E3). rewrite E1.
  pose proof Hpre as (Hs & Hn & Hrb & Hc & Ha). cbn [in_step] in Hs. destruct Hs as [Htf Hs].
  destruct (tag f =? rgen (ks me)) eqn:Etf; cbn [negb]; [|apply Z.eqb_neq in Etf; congruence].
  assert (Hd10 : post v13 me (f :: tl) wp (die mp (f :: tl) 10)).
  { apply (post_core _ _ mp); [exact Hsc|]. apply die_post0. eapply pre_core; eassumption. }
  destruct (body f) eqn:Ebf; try exact Hd10.
  destruct ok; [|apply die_post; auto; rewrite Ebf; reflexivity].
  unfold post, cnt_ok in *. cbn. rewrite E1, E2, E3. cbn [valid_ku] in Hs.
  split; [exact Hs|]. split; [reflexivity|]. split; [reflexivity|].
  split. { intros Hv. split; [apply noku_nil|]. apply (noku_cons_inv f). auto. }
  split. { unfold chdata. cbn [flat_map]. rewrite Ebf. cbn. rewrite Hrb. reflexivity. }
  split; [reflexivity|]. split; [exact Hc|]. split; [exact Har|reflexivity].
Qed.

Lemma srv_pha_post v13 me r inc' wp ctx ch :
  pre v13 me (r :: inc') wp -> tag r = rgen (ks me) -> body r = MCert ctx ch ->
  In ctx (ctxs me) ->
  post v13 me (r :: inc') wp (srv_pha me (pop_ctx me ctx) (r :: inc') inc' ctx ch).
Proof.
  intros Hpre Ht Hb Hin.
  assert (Hk : valid_ku (body r) = false) by (rewrite Hb; reflexivity).
  assert (Hd : mdata (body r) = []) by (rewrite Hb; reflexivity).
  assert (Hsc : same_core me (pop_ctx me ctx)) by (repeat split).
  pose proof Hpre as (Hs & Hn & Hrb & Hc & Ha).
  pose proof (au_ok_pop me ctx Ha) as Hap.
  pose proof (au_ok_record me ctx ch Ha Hin) as Har.
  pose proof (block_post _ _ _ _ Hpre) as Hblock.
  pose proof (pre_skip _ _ _ _ _ Hpre Hk) as Hpre1.
  unfold srv_pha. cbv zeta beta.
  destruct (ch =? 0).
  - destruct (cert_required (cf (pop_ctx me ctx))).
    + apply die_post; auto.
    + destruct inc' as [|f tl]; [exact Hblock|].
      apply post_skip; [exact Hd|].
      apply (pha_fin_post v13 me (pop_ctx me ctx) (f :: tl) wp ctx ch (me, f :: tl, [], 1)); auto.
      apply block_post. exact Hpre1.
  - destruct inc' as [|c0 [|f tl]]; [exact Hblock|exact Hblock|].
    change (rgen (ks (pop_ctx me ctx))) with (rgen (ks me)).
    pose proof Hpre1 as (Hs1 & _). cbn [in_step] in Hs1. destruct Hs1 as [Htc Hs1].
    destruct (tag c0 =? rgen (ks me)) eqn:Etc; cbn [negb]; [|apply Z.eqb_neq in Etc; congruence].
    apply post_skip; [exact Hd|].
    assert (Hd10 : post v13 me (c0 :: f :: tl) wp (die (pop_ctx me ctx) (c0 :: f :: tl) 10)).
    { apply (post_core _ _ (pop_ctx me ctx)); [exact Hsc|]. apply die_post0. eapply pre_core; eassumption. }
    destruct (body c0) eqn:Ebc; try exact Hd10.
    destruct ok; [|apply die_post; auto; rewrite Ebc; reflexivity].
    apply post_skip; [rewrite Ebc; reflexivity|].
    assert (Hpre2 : pre v13 me (f :: tl) wp) by (eapply pre_skip; [exact Hpre1|rewrite Ebc; reflexivity]).
    apply (pha_fin_post v13 me (pop_ctx me ctx) (f :: tl) wp ctx ch (me, f :: tl, [], 1)); auto.
    apply block_post. exact Hpre2.
Qed.

Lemma cnt_bump_r me : cnt_ok me -> cnt_ok (bump_r me false).
Proof. unfold cnt_ok, bump_r. cbn. intros (A & B & C & D). repeat split; auto; lia. Qed.

Lemma cnt_bump_rw me : cnt_ok me -> cnt_ok (bump_w (bump_r me true) true).
Proof. unfold cnt_ok, bump_r, bump_w. cbn. intros (A & B & C & D). repeat split; auto; lia. Qed.

Lemma post_trans v13 me me1 r inc' wp k R :
  (* one record consumed (possibly a valid KeyUpdate), records [k] emitted, then the loop continues from me1 *)
  mdata (body r) = [] ->
  sent (io me1) = sent (io me) -> delivered (io me1) = delivered (io me) -> cf me1 = cf me ->
  in_step (wgen (ks me)) k (wgen (ks me1)) -> chdata k = [] -> (v13 = false -> noku k) ->
  post v13 me1 inc' wp R ->
  post v13 me (r :: inc') wp (let '(me2, inc2, em, c) := R in (me2, inc2, k ++ em, c)).
Proof.
  destruct R as [[[me2 inc2] em] c]. unfold post. intros Hd Es Ed Ec Hk Hkd Hkn (A & B & C & D & E & F & G & H & I).
  split; [exact A|]. split; [eapply in_step_trans; eassumption|].
  split; [rewrite chdata_app, Hkd, C; reflexivity|].
  split; [intros Hv; destruct (D Hv); split; [apply noku_app; auto|assumption]|].
  split. { rewrite E, Ed. unfold chdata. cbn [flat_map]. rewrite Hd. reflexivity. }
  split; [congruence|]. split; [exact G|]. split; [exact H|congruence].
Qed.

Lemma rloop_post v13 : forall inc me wp, pre v13 me inc wp -> post v13 me inc wp (rloop v13 me inc).
Proof.
  induction inc as [|r inc' IH]; intros me wp Hpre.
  - cbn [rloop]. apply block_post. exact Hpre.
  - pose proof Hpre as (Hs & Hn & Hrb & Hc & Ha).
    cbn [in_step] in Hs. destruct Hs as [Ht Hs].
    cbn [rloop]. destruct (tag r =? rgen (ks me)) eqn:Et; cbn [negb]; [|apply Z.eqb_neq in Et; congruence].
    destruct (body r) eqn:Eb.
    + (* MData *)
      cbn [valid_ku] in Hs.
      assert (Hp1 : pre v13 me inc' wp) by (eapply pre_skip; [exact Hpre|rewrite Eb; reflexivity]).
      destruct d as [|d0 d'].
      * apply post_skip; [rewrite Eb; reflexivity|]. apply IH. exact Hp1.
      * unfold post, set_rbuf, cnt_ok in *. cbn.
        split; [exact Hs|]. split; [reflexivity|]. split; [reflexivity|].
        split; [intros Hv; split; [apply noku_nil|apply (noku_cons_inv r); auto]|].
        split; [unfold chdata; cbn [flat_map]; rewrite Eb; reflexivity|].
        split; [reflexivity|]. split; [exact Hc|]. split; [exact Ha|reflexivity].
    + (* MKU *)
      destruct v13 eqn:Ev; cbn [negb].
      2:{ apply die_post; [exact Hpre| |rewrite Eb; reflexivity|apply same_core_refl|exact Ha].
          destruct (noku_cons_inv r inc' (Hn eq_refl)) as [Hx _]. exact Hx. }
      destruct (v <? 0) eqn:E0.
      { apply die_post; [exact Hpre| |rewrite Eb; reflexivity|apply same_core_refl|exact Ha].
        rewrite Eb; cbn [valid_ku]. destruct (0 <=? v) eqn:E1; [lia|reflexivity]. }
      destruct (2 <=? v) eqn:E2.
      { apply die_post; [exact Hpre| |rewrite Eb; reflexivity|apply same_core_refl|exact Ha].
        rewrite Eb; cbn [valid_ku]. destruct (v <=? 1) eqn:E1; [lia|]. apply andb_false_r. }
      assert (Hvk : valid_ku (MKU v) = true).
      { cbn [valid_ku]. apply andb_true_iff. split; [apply Z.leb_le; lia|apply Z.leb_le; lia]. }
      rewrite Hvk in Hs.
      destruct (v =? 1) eqn:E1.
      * assert (Hp2 : pre true (bump_w (bump_r me true) true) inc' wp).
        { split; [exact Hs|]. split; [discriminate|]. split; [exact Hrb|]. split; [apply cnt_bump_rw; exact Hc|exact Ha]. }
        specialize (IH _ _ Hp2).
        apply (post_trans true me (bump_w (bump_r me true) true) r inc' wp [emit (bump_r me true) (MKU 0)]) in IH;
          try reflexivity.
        -- destruct (rloop true (bump_w (bump_r me true) true) inc') as [[[me2 inc2] em] c]. exact IH.
        -- rewrite Eb. reflexivity.
        -- cbn. split; [reflexivity|reflexivity].
        -- discriminate.
      * assert (Hp1 : pre true (bump_r me false) inc' wp).
        { split; [exact Hs|]. split; [discriminate|]. split; [exact Hrb|]. split; [apply cnt_bump_r; exact Hc|exact Ha]. }
        specialize (IH _ _ Hp1).
        apply (post_trans true me (bump_r me false) r inc' wp []) in IH; try reflexivity.
        -- destruct (rloop true (bump_r me false) inc') as [[[me2 inc2] em] c]. exact IH.
        -- rewrite Eb. reflexivity.
        -- intros _. apply noku_nil.
    + (* MHB *)
      destruct (on_heartbeat me b) as [[me1 out]|] eqn:Eh.
      2:{ apply die_post; [exact Hpre|rewrite Eb; reflexivity|rewrite Eb; reflexivity|apply same_core_refl|exact Ha]. }
      apply on_heartbeat_spec in Eh. destruct Eh as (Hsc & Hau & Hout).
      pose proof Hsc as (E1 & E2 & E3).
      assert (Hp1 : pre v13 me1 inc' wp).
      { eapply pre_core; [|exact Hsc|]. - eapply pre_skip; [exact Hpre|rewrite Eb; reflexivity].
        - unfold au_ok, ctxs in *. rewrite Hau. exact Ha. }
      specialize (IH _ _ Hp1).
      apply (post_trans v13 me me1 r inc' wp out) in IH.
      * destruct (rloop v13 me1 inc') as [[[me2 inc2] em] c]. exact IH.
      * rewrite Eb. reflexivity.
      * rewrite E2. reflexivity.
      * rewrite E2. reflexivity.
      * exact E3.
      * rewrite E1. apply in_step_nk. intros x Hx. destruct (Hout x Hx) as [Hxt [f Hf]]. split; [exact Hxt|rewrite Hf; reflexivity].
      * apply chdata_nodata. intros x Hx. destruct (Hout x Hx) as [_ [f Hf]]. rewrite Hf. reflexivity.
      * intros _ x Hx. destruct (Hout x Hx) as [_ [f Hf]]. rewrite Hf. reflexivity.
    + (* MNST *)
      destruct (v13 && is_cl (cf me)); [|apply die_post; [exact Hpre|rewrite Eb; reflexivity|rewrite Eb; reflexivity|apply same_core_refl|exact Ha]].
      apply post_skip; [rewrite Eb; reflexivity|].
      assert (Hp1 : pre v13 me inc' wp) by (eapply pre_skip; [exact Hpre|rewrite Eb; reflexivity]).
      apply (post_core _ _ (add_ticket me)); [repeat split|].
      apply block_post in Hp1. unfold post in *. cbn in *. tauto.
    + (* MCertReq *)
      destruct (v13 && is_cl (cf me) && pha_key (cf me)); [|apply die_post; [exact Hpre|rewrite Eb; reflexivity|rewrite Eb; reflexivity|apply same_core_refl|exact Ha]].
      destruct wf; cbn [negb]; [|apply die_post; [exact Hpre|rewrite Eb; reflexivity|rewrite Eb; reflexivity|apply same_core_refl|exact Ha]].
      apply post_skip; [rewrite Eb; reflexivity|].
      assert (Hp1 : pre v13 me inc' wp) by (eapply pre_skip; [exact Hpre|rewrite Eb; reflexivity]).
      destruct Hp1 as (A & B & C & D & E).
      unfold post, note_ctx, cnt_ok in *. cbn.
      split; [exact A|].
      assert (Hrep : forall x, In x (map (emit (note_ctx me ctx)) (pha_reply (note_ctx me ctx) ctx)) ->
                     tag x = wgen (ks me) /\ valid_ku (body x) = false /\ mdata (body x) = []).
      { intros x Hx. apply in_map_iff in Hx. destruct Hx as [m [Hm Hin]]. subst x.
        split; [reflexivity|]. unfold pha_reply in Hin.
        destruct (dev (cf (note_ctx me ctx)) =? 6); [|destruct (dev (cf (note_ctx me ctx)) =? 7)]; cbn [In] in Hin;
          repeat (destruct Hin as [Hin|Hin]; [subst m; split; reflexivity|]); destruct Hin. }
      split; [apply in_step_nk; intros x Hx; destruct (Hrep x Hx); tauto|].
      split; [apply chdata_nodata; intros x Hx; destruct (Hrep x Hx); tauto|].
      split; [intros Hv; split; [intros x Hx; destruct (Hrep x Hx); tauto|auto]|].
      split; [rewrite C; reflexivity|]. split; [reflexivity|]. split; [exact D|].
      split; [|reflexivity]. unfold au_ok, ctxs in *. cbn. exact E.
    + (* MCert *)
      destruct (v13 && negb (is_cl (cf me)) && negb (match pending (au me) with [] => true | _ :: _ => false end));
        [|apply die_post; [exact Hpre|rewrite Eb; reflexivity|rewrite Eb; reflexivity|apply same_core_refl|exact Ha]].
      destruct (ctx =? 0); [apply die_post; [exact Hpre|rewrite Eb; reflexivity|rewrite Eb; reflexivity|apply same_core_refl|exact Ha]|].
      destruct (ctx_mem ctx (pending (au me))) eqn:Em; cbn [negb];
        [|apply die_post; [exact Hpre|rewrite Eb; reflexivity|rewrite Eb; reflexivity|apply same_core_refl|exact Ha]].
      apply srv_pha_post; auto. apply ctx_mem_in. exact Em.
    + apply die_post; [exact Hpre|rewrite Eb; reflexivity|rewrite Eb; reflexivity|apply same_core_refl|exact Ha].
    + apply die_post; [exact Hpre|rewrite Eb; reflexivity|rewrite Eb; reflexivity|apply same_core_refl|exact Ha].
    + apply die_post; [exact Hpre|rewrite Eb; reflexivity|rewrite Eb; reflexivity|apply same_core_refl|exact Ha].
    + (* MAlert *)
      assert (Hp1 : pre v13 me inc' wp) by (eapply pre_skip; [exact Hpre|rewrite Eb; reflexivity]).
      apply post_skip; [rewrite Eb; reflexivity|].
      destruct Hp1 as (A & B & C & D & E).
      destruct fatal; [|destruct (desc =? 0)]; unfold post, set_closed, emit, cnt_ok in *; cbn;
        (split; [exact A|]); (split; [try reflexivity; split; reflexivity|]); (split; [reflexivity|]);
        (split; [intros Hv; split; [try apply noku_nil; intros x [Hx|[]]; subst x; reflexivity|auto]|]);
        (split; [rewrite C; reflexivity|]); (split; [reflexivity|]); (split; [exact D|]); (split; [exact E|reflexivity]).
    + apply die_post; [exact Hpre|rewrite Eb; reflexivity|rewrite Eb; reflexivity|apply same_core_refl|exact Ha].
    + apply die_post; [exact Hpre|rewrite Eb; reflexivity|rewrite Eb; reflexivity|apply same_core_refl|exact Ha].
Qed.

(* ---- one operation preserves the invariant ------------------------------------------------- *)
Lemma upd_inv s me' em inc' :
  Inv s ->
  in_step (rgen (ks me')) inc' (wgen (ks (eb s))) ->
  (g13 s = false -> noku inc') ->
  delivered (io me') ++ rbuf (io me') ++ chdata inc' = delivered (io (ea s)) ++ rbuf (io (ea s)) ++ chdata (ba s) ->
  in_step (wgen (ks (ea s))) em (wgen (ks me')) ->
  sent (io me') = sent (io (ea s)) ++ chdata em ->
  (g13 s = false -> noku em) ->
  cnt_ok me' -> au_ok me' ->
  Inv (mkst me' (eb s) (ab s ++ em) inc' (g13 s)).
Proof.
  intros ((A1 & A2 & A3) & (B1 & B2 & B3) & C1 & C2 & D1 & D2) H1 H2 H3 H4 H5 H6 H7 H8.
  unfold Inv, half. cbn.
  split. { split; [eapply in_step_trans; eassumption|]. split; [|intros Hv; apply noku_app; auto].
           rewrite H5, A2, chdata_app, !app_assoc. reflexivity. }
  split. { split; [exact H1|]. split; [|exact H2]. rewrite B2. symmetry. exact H3. }
  auto.
Qed.

Lemma same_inv s : Inv s -> Inv (mkst (ea s) (eb s) (ab s ++ []) (ba s) (g13 s)).
Proof.
  intros H. pose proof H as ((A1 & A2 & A3) & (B1 & B2 & B3) & C1 & C2 & D1 & D2).
  apply upd_inv; auto; try reflexivity.
  - cbn. rewrite app_nil_r. reflexivity.
  - intros _. apply noku_nil.
Qed.

Lemma st_eta s : mkst (ea s) (eb s) (ab s) (ba s) (g13 s) = s.
Proof. destruct s; reflexivity. Qed.

Lemma deliver_inv s mx me' d : Inv s -> deliver (ea s) mx = (me', d) ->
  Inv (mkst me' (eb s) (ab s) (ba s) (g13 s)).
Proof.
  intros H E. unfold deliver in E. inversion E; subst; clear E.
  pose proof H as ((A1 & A2 & A3) & (B1 & B2 & B3) & C1 & C2 & D1 & D2).
  rewrite <- (app_nil_r (ab s)). apply upd_inv; auto; try reflexivity.
  - cbn. rewrite <- !app_assoc. f_equal. rewrite app_assoc. f_equal. apply firstn_skipn.
  - cbn. rewrite app_nil_r. reflexivity.
  - intros _. apply noku_nil.
Qed.

Lemma in_step_map_nk w (f : list Z -> msg) l :
  (forall x, valid_ku (f x) = false) -> in_step w (map (fun x => mkrec w (f x)) l) w.
Proof.
  intros H. apply in_step_nk. intros r Hr. apply in_map_iff in Hr. destruct Hr as [x [Hx _]]. subst r.
  split; [reflexivity|apply H].
Qed.

Lemma noku_map w (f : list Z -> msg) l :
  (forall x, valid_ku (f x) = false) -> noku (map (fun x => mkrec w (f x)) l).
Proof. intros H r Hr. apply in_map_iff in Hr. destruct Hr as [x [Hx _]]. subst r. apply H. Qed.

Lemma chdata_map_nodata w (f : list Z -> msg) l :
  (forall x, mdata (f x) = []) -> chdata (map (fun x => mkrec w (f x)) l) = [].
Proof. intros H. apply chdata_nodata. intros r Hr. apply in_map_iff in Hr. destruct Hr as [x [Hx _]]. subst r. apply H. Qed.

Lemma act_inv s o : Inv s -> Inv (fst (act s o)).
Proof.
  intros H. pose proof H as ((A1 & A2 & A3) & (B1 & B2 & B3) & C1 & C2 & D1 & D2).
  assert (Hsame : Inv s) by exact H.
  unfold act. destruct o.
  - (* OWrite *)
    destruct (closed (io (ea s))); cbn [fst]; [exact H|].
    apply upd_inv; auto.
    + unfold emit. apply in_step_map_nk. reflexivity.
    + cbn. unfold emit, fragments. rewrite chdata_map_data, chunks_concat. reflexivity.
    + intros _. unfold emit. apply noku_map. reflexivity.
  - (* ORead *)
    destruct (closed (io (ea s))).
    { destruct (deliver (ea s) mx) as [me' d] eqn:E. cbn [fst]. eapply deliver_inv; eassumption. }
    destruct (g13 s && negb (is_cl (cf (ea s))) && negb (first_wf (pending (au (ea s))))).
    { cbn [fst]. apply upd_inv; auto.
      - cbn. split; reflexivity.
      - cbn. rewrite app_nil_r. reflexivity.
      - intros _ x [Hx|[]]. subst x. reflexivity. }
    destruct (rbuf (io (ea s))) as [|b0 bs] eqn:Erb.
    2:{ destruct (deliver (ea s) mx) as [me' d] eqn:E. cbn [fst]. eapply deliver_inv; eassumption. }
    assert (Hpre : pre (g13 s) (ea s) (ba s) (wgen (ks (eb s)))).
    { split; [exact B1|]. split; [exact B3|]. split; [exact Erb|]. split; assumption. }
    apply rloop_post in Hpre.
    destruct (rloop (g13 s) (ea s) (ba s)) as [[[me1 inc1] em] c].
    destruct Hpre as (P1 & P2 & P3 & P4 & P5 & P6 & P7 & P8 & P9).
    assert (Hi : Inv (mkst me1 (eb s) (ab s ++ em) inc1 (g13 s))).
    { apply upd_inv; auto.
      - intros Hv. apply P4. exact Hv.
      - rewrite P5, Erb. reflexivity.
      - rewrite P6, P3, app_nil_r. reflexivity.
      - intros Hv. apply P4. exact Hv. }
    destruct (c =? 0); [|exact Hi].
    destruct (deliver me1 mx) as [me2 d] eqn:E. cbn [fst].
    apply (deliver_inv _ mx me2 d) in Hi; [exact Hi|exact E].
  - (* OKeyUpdate *)
    destruct (closed (io (ea s))); cbn [fst]; [exact H|].
    destruct (negb (g13 s)) eqn:Ev; cbn [fst]; [exact H|]. apply negb_false_iff in Ev.
    apply upd_inv; auto.
    + cbn. split; [reflexivity|]. destruct req; reflexivity.
    + cbn. rewrite app_nil_r. reflexivity.
    + rewrite Ev. discriminate.
    + unfold cnt_ok, bump_w in *. cbn. repeat split; try tauto; lia.
  - (* ORequestAuth *)
    destruct (closed (io (ea s)) || negb (g13 s) || is_cl (cf (ea s)) || negb (pha_sup (cf (ea s)))); cbn [fst]; [exact H|].
    apply upd_inv; auto.
    + cbn. split; reflexivity.
    + cbn. rewrite app_nil_r. reflexivity.
    + intros _ x [Hx|[]]. subst x. reflexivity.
    + apply au_ok_request. exact D1.
  - (* OHeartbeat *)
    destruct (closed (io (ea s))); cbn [fst]; [exact H|].
    destruct (negb (hb_sup (cf (ea s))) || negb (hb_send (cf (ea s)))); cbn [fst]; [exact H|].
    destruct (recsize (cf (ea s)) <? zlen (hb_write 1 payload (padding padlen))); cbn [fst]; [exact H|].
    apply upd_inv; auto.
    + cbn. split; reflexivity.
    + cbn. rewrite app_nil_r. reflexivity.
    + intros _ x [Hx|[]]. subst x. reflexivity.
  - (* OTickets *)
    destruct (closed (io (ea s)) || negb (g13 s) || is_cl (cf (ea s))); cbn [fst]; [exact H|].
    assert (Hr : forall x, In x (repeat (emit (ea s) MNST) (Z.to_nat k)) -> x = emit (ea s) MNST)
      by (intros x Hx; apply repeat_spec in Hx; exact Hx).
    apply upd_inv; auto.
    + apply in_step_nk. intros x Hx. rewrite (Hr x Hx). split; reflexivity.
    + rewrite chdata_nodata; [rewrite app_nil_r; reflexivity|]. intros x Hx. rewrite (Hr x Hx). reflexivity.
    + intros _ x Hx. rewrite (Hr x Hx). reflexivity.
  - (* OClose *)
    destruct (closed (io (ea s))); cbn [fst]; [exact H|].
    apply upd_inv; auto.
    + cbn. split; reflexivity.
    + cbn. rewrite app_nil_r. reflexivity.
    + intros _ x [Hx|[]]. subst x. reflexivity.
  - (* OSetRecSize *)
    destruct (n <? 1); cbn [fst]; [exact H|].
    rewrite <- (app_nil_r (ab s)). apply upd_inv; auto; try reflexivity.
    + cbn. rewrite app_nil_r. reflexivity.
    + intros _. apply noku_nil.
  - (* OSetDev *)
    cbn [fst]. rewrite <- (app_nil_r (ab s)). apply upd_inv; auto; try reflexivity.
    + cbn. rewrite app_nil_r. reflexivity.
    + intros _. apply noku_nil.
  - (* OInject *)
    destruct (closed (io (ea s))); cbn [orb fst]; [exact H|].
    destruct (injectable m) eqn:Ei; cbn [negb fst]; [|exact H].
    assert (Hk : valid_ku m = false).
    { destruct m; try reflexivity; cbn [injectable] in Ei; try discriminate.
      destruct (valid_ku (MKU v)); [discriminate|reflexivity]. }
    assert (Hd : mdata m = []) by (destruct m; try reflexivity; discriminate).
    apply upd_inv; auto.
    + cbn. rewrite Hk. split; reflexivity.
    + unfold chdata. cbn. rewrite Hd, app_nil_r. reflexivity.
    + intros _ x [Hx|[]]. subst x. exact Hk.
  - (* OReplayPha *)
    destruct (closed (io (ea s))); cbn [orb fst]; [exact H|].
    destruct (first_ctx (au (ea s)) =? 0); cbn [fst]; [exact H|].
    apply upd_inv; auto.
    + cbn. repeat split; reflexivity.
    + cbn. rewrite app_nil_r. reflexivity.
    + intros _ x Hx. cbn [map In] in Hx. destruct Hx as [Hx|[Hx|[Hx|[]]]]; subst x; reflexivity.
Qed.

Lemma swap_inv s : Inv s -> Inv (swap s).
Proof. unfold Inv, swap. cbn. tauto. Qed.

Lemma step_inv s a o : Inv s -> Inv (fst (step s a o)).
Proof.
  intros H. unfold step. destruct a; [apply act_inv; exact H|].
  pose proof (act_inv (swap s) o (swap_inv s H)) as H1.
  destruct (act (swap s) o) as [s' r]. cbn [fst] in *. apply swap_inv. exact H1.
Qed.

Lemma exec_inv : forall ops s, Inv s -> Inv (exec s ops).
Proof.
  unfold exec. induction ops as [|[a o] tl IH]; intros s H; cbn [run fst]; [exact H|].
  pose proof (step_inv s a o H) as H1. destruct (step s a o) as [s1 r]. cbn [fst] in H1.
  specialize (IH s1 H1). destruct (run s1 tl) as [s2 rs]. exact IH.
Qed.

Lemma init_inv v13 cc sc nst : Inv (init v13 cc sc nst).
Proof.
  unfold init, Inv, half, cnt_ok, au_ok, ctxs. cbn.
  assert (Hr : forall x, In x (repeat (mkrec 0 MNST) (Z.to_nat nst)) -> x = mkrec 0 MNST)
    by (intros x Hx; apply repeat_spec in Hx; exact Hx).
  split; [split; [reflexivity|split; [reflexivity|intros _; apply noku_nil]]|].
  split. { split; [apply in_step_nk; intros x Hx; rewrite (Hr x Hx); split; reflexivity|].
           split; [symmetry; apply chdata_nodata; intros x Hx; rewrite (Hr x Hx); reflexivity|].
           intros _ x Hx. rewrite (Hr x Hx). reflexivity. }
  repeat split; try constructor; try lia; intros c [].
Qed.

(* ---- heartbeat ------------------------------------------------------------------------------ *)
Lemma hb_echo me b me1 out :
  on_heartbeat me b = Some (me1, out) -> out <> [] ->
  exists payload pad, hb_parse b = Some (1, payload, pad) /\ 16 <= zlen pad /\
    hb_recv (cf me) = true /\ hb_sup (cf me) = true /\
    out = [emit me (MHB (hb_write 2 payload (padding 16)))] /\
    zlen (hb_write 2 payload (padding 16)) <= recsize (cf me).
Proof.
  unfold on_heartbeat. destruct (hb_sup (cf me)); cbn [negb]; [|discriminate].
  destruct b as [|b0 b']; [discriminate|].
  destruct (hb_parse (b0 :: b')) as [[[ty payload] pad]|].
  2:{ intros H. inversion H; subst. congruence. }
  destruct (ty =? 1) eqn:Ety.
  - destruct (hb_recv (cf me)); cbn [negb]; [|discriminate].
    destruct (zlen pad <? 16) eqn:Ep; [intros H; inversion H; subst; congruence|].
    destruct (recsize (cf me) <? zlen (hb_write 2 payload (padding 16))) eqn:Er;
      intros H; inversion H; subst; [congruence|].
    intros _. apply Z.eqb_eq in Ety. subst ty. exists payload, pad.
    split; [reflexivity|]. split; [lia|]. split; [reflexivity|]. split; [reflexivity|].
    split; [reflexivity|lia].
  - destruct ((ty =? 2) && hb_cb (cf me)); intros H; inversion H; subst; congruence.
Qed.

Lemma zlen_app {A} (a b : list A) : zlen (a ++ b) = zlen a + zlen b.
Proof. unfold zlen. rewrite app_length. lia. Qed.

Lemma hb_roundtrip ty p pad : zlen p < 65536 -> hb_parse (hb_write ty p pad) = Some (ty, p, pad).
Proof.
  intros _. unfold hb_write, hb_parse. cbn [app].
  assert (E : zlen p / 256 * 256 + zlen p mod 256 = zlen p).
  { pose proof (Z.div_mod (zlen p) 256 ltac:(lia)). lia. }
  rewrite E. rewrite zlen_app.
  assert (Hn : 0 <= zlen pad) by (unfold zlen; lia).
  destruct (zlen p <=? zlen p + zlen pad) eqn:El; [|lia].
  unfold zlen. rewrite Nat2Z.id.
  rewrite firstn_app, Nat.sub_diag, firstn_all. cbn [firstn]. rewrite app_nil_r.
  rewrite skipn_app, Nat.sub_diag, skipn_all. reflexivity.
Qed.

(* a request whose answer fits into one record of the responder is answered by exactly one
   record that parses to the same payload; otherwise it is discarded without any record *)
Lemma hb_request_answered me p padlen :
  hb_sup (cf me) = true -> hb_recv (cf me) = true -> zlen p < 65536 -> 16 <= padlen ->
  on_heartbeat me (hb_write 1 p (padding padlen)) =
    Some (me, if recsize (cf me) <? 3 + zlen p + 16 then [] else [emit me (MHB (hb_write 2 p (padding 16)))]) /\
  hb_parse (hb_write 2 p (padding 16)) = Some (2, p, padding 16).
Proof.
  intros Hs Hr Hp Hpad.
  split; [|apply hb_roundtrip; exact Hp].
  unfold on_heartbeat. rewrite Hs. cbn [negb].
  change (hb_write 1 p (padding padlen)) with (1 :: zlen p / 256 :: zlen p mod 256 :: p ++ padding padlen) at 1.
  change (1 :: zlen p / 256 :: zlen p mod 256 :: p ++ padding padlen) with (hb_write 1 p (padding padlen)).
  rewrite hb_roundtrip by exact Hp. cbn [Z.eqb Pos.eqb]. rewrite Hr. cbn [negb].
  assert (Hl : forall n, 0 <= n -> zlen (padding n) = n).
  { intros n Hn. unfold padding, zlen. rewrite repeat_length. lia. }
  rewrite Hl by lia. destruct (padlen <? 16) eqn:E; [lia|].
  assert (Hw : zlen (hb_write 2 p (padding 16)) = 3 + zlen p + 16).
  { unfold hb_write. change ([2; zlen p / 256; zlen p mod 256] ++ p ++ padding 16)
      with (2 :: zlen p / 256 :: zlen p mod 256 :: p ++ padding 16).
    unfold zlen at 1. cbn [length]. rewrite app_length. fold (zlen (padding 16)).
    pose proof (Hl 16 ltac:(lia)) as H16. unfold zlen in *. lia. }
  rewrite Hw. destruct (recsize (cf me) <? 3 + zlen p + 16); reflexivity.
Qed.

(* ---- post-handshake authentication ------------------------------------------------------------ *)
Lemma srv_pha_accept me0 me whole rest ctx ch me' rest' em c :
  srv_pha me0 me whole rest ctx ch = (me', rest', em, c) ->
  accepted (au me0) = accepted (au me) -> chain (au me0) = chain (au me) ->
  accepted (au me') <> accepted (au me) \/ chain (au me') <> chain (au me) ->
  c = 0 /\ chain (au me') = ch /\ accepted (au me') = accepted (au me) ++ [ctx] /\
  ((ch <> 0 /\ exists t1 t2, rest = mkrec t1 (MCV true) :: mkrec t2 (MFin true) :: rest') \/
   (ch = 0 /\ cert_required (cf me) = false /\ exists t, rest = mkrec t (MFin true) :: rest')).
Proof.
  unfold srv_pha. cbv zeta beta. intros H E0 E1 Hch.
  assert (Hno : forall x tl d cc, (me', rest', em, c) = (x, tl, [emit me (MAlert true d)], cc) ->
                (x = fatal me d \/ x = mark_badmac (fatal me d)) -> False).
  { intros x tl d cc Hx Hy. inversion Hx; subst. destruct Hy; subst; cbn in Hch; tauto. }
  destruct (ch =? 0) eqn:Ech.
  - apply Z.eqb_eq in Ech. subst ch.
    destruct (cert_required (cf me)) eqn:Ecr; [exfalso; eapply Hno; [symmetry; exact H|left; reflexivity]|].
    destruct rest as [|f tl]; [inversion H; subst; exfalso; destruct Hch; congruence|].
    destruct (negb (tag f =? rgen (ks me))); [exfalso; eapply Hno; [symmetry; exact H|right; reflexivity]|].
    destruct f as [tf bf]. cbn [body] in H.
    destruct bf; try (exfalso; eapply Hno; [symmetry; exact H|left; reflexivity]).
    destruct ok; [|exfalso; eapply Hno; [symmetry; exact H|left; reflexivity]].
    inversion H; subst. cbn. repeat split; auto. right. repeat split; auto. exists tf. reflexivity.
  - apply Z.eqb_neq in Ech.
    destruct rest as [|c0 [|f tl]]; try (inversion H; subst; exfalso; destruct Hch; congruence).
    destruct (negb (tag c0 =? rgen (ks me))); [exfalso; eapply Hno; [symmetry; exact H|right; reflexivity]|].
    destruct c0 as [tc bc]. cbn [body] in H.
    destruct bc; try (exfalso; eapply Hno; [symmetry; exact H|left; reflexivity]).
    destruct ok; [|exfalso; eapply Hno; [symmetry; exact H|left; reflexivity]].
    destruct (negb (tag f =? rgen (ks me))); [exfalso; eapply Hno; [symmetry; exact H|right; reflexivity]|].
    destruct f as [tf bf]. cbn [body] in H.
    destruct bf; try (exfalso; eapply Hno; [symmetry; exact H|left; reflexivity]).
    destruct ok; [|exfalso; eapply Hno; [symmetry; exact H|left; reflexivity]].
    inversion H; subst. cbn. repeat split; auto. left. split; [exact Ech|]. exists tc, tf. reflexivity.
Qed.

(* ---- malformed / unsolicited / not permitted control records ------------------------------------ *)
Lemma bad_control_fatal v13 me m inc' d :
  bad_control v13 me m = Some d ->
  rloop v13 me (mkrec (rgen (ks me)) m :: inc') = die me inc' d.
Proof.
  intros H. cbn [rloop tag body]. rewrite Z.eqb_refl. cbn [negb].
  destruct m; cbn [bad_control] in H; try discriminate; try (inversion H; subst; reflexivity).
  - (* MKU *)
    destruct (negb v13); [inversion H; reflexivity|].
    destruct (v <? 0); [inversion H; reflexivity|].
    destruct (2 <=? v); [inversion H; reflexivity|discriminate].
  - (* MHB *)
    unfold on_heartbeat.
    destruct (negb (hb_sup (cf me))); [inversion H; reflexivity|].
    destruct b as [|b0 b']; [inversion H; reflexivity|].
    destruct (hb_parse (b0 :: b')) as [[[ty payload] pad]|]; [|discriminate].
    destruct (ty =? 1); cbn [andb] in H; [|discriminate].
    destruct (negb (hb_recv (cf me))); [inversion H; reflexivity|discriminate].
  - (* MNST *)
    destruct (v13 && is_cl (cf me)); [discriminate|inversion H; reflexivity].
  - (* MCertReq *)
    destruct (v13 && is_cl (cf me) && pha_key (cf me)); [|inversion H; reflexivity].
    destruct wf; [discriminate|inversion H; reflexivity].
  - (* MCert *)
    destruct (v13 && negb (is_cl (cf me)) && negb (match pending (au me) with [] => true | _ :: _ => false end));
      [|inversion H; reflexivity].
    destruct (ctx =? 0); [inversion H; reflexivity|].
    destruct (ctx_mem ctx (pending (au me))); [discriminate|inversion H; reflexivity].
Qed.

Lemma die_facts me rest d :
  let '(me', rest', em, c) := die me rest d in
  closed (io me') = true /\ em = [emit me (MAlert true d)] /\ c = 100 + d /\
  delivered (io me') = delivered (io me) /\ rbuf (io me') = rbuf (io me) /\ alerts (io me') = alerts (io me) ++ [d].
Proof. unfold die, fatal. cbn. repeat split. Qed.

(* a closed endpoint neither consumes nor emits records, and returns only what it had buffered *)
Lemma closed_inert s o : closed (io (ea s)) = true ->
  let s' := fst (act s o) in
  ab s' = ab s /\ ba s' = ba s /\ eb s' = eb s /\
  delivered (io (ea s')) ++ rbuf (io (ea s')) = delivered (io (ea s)) ++ rbuf (io (ea s)) /\
  closed (io (ea s')) = true.
Proof.
  intros Hc. unfold act. rewrite Hc.
  destruct o; cbn [orb fst ab ba eb ea]; try (repeat split; auto; fail).
  - unfold deliver. cbn. repeat split; auto. rewrite <- app_assoc. f_equal. apply firstn_skipn.
  - destruct (n <? 1); cbn; repeat split; auto.
Qed.

(* ---- statements over all histories ------------------------------------------------------------- *)
Lemma reach_inv v13 cc sc nst ops : Inv (exec (init v13 cc sc nst) ops).
Proof. apply exec_inv. apply init_inv. Qed.

Lemma keys_in_step_all : forall v13 cc sc nst ops,
  let s := exec (init v13 cc sc nst) ops in
  in_step (rgen (ks (eb s))) (ab s) (wgen (ks (ea s))) /\
  in_step (rgen (ks (ea s))) (ba s) (wgen (ks (eb s))) /\
  badmac (io (ea s)) = false /\ badmac (io (eb s)) = false.
Proof.
  intros. destruct (reach_inv v13 cc sc nst ops) as ((A1 & A2 & A3) & (B1 & B2 & B3) & C1 & C2 & D1 & D2).
  unfold cnt_ok in *. subst s. tauto.
Qed.

Lemma data_fifo_all : forall v13 cc sc nst ops,
  let s := exec (init v13 cc sc nst) ops in
  sent (io (ea s)) = delivered (io (eb s)) ++ rbuf (io (eb s)) ++ chdata (ab s) /\
  sent (io (eb s)) = delivered (io (ea s)) ++ rbuf (io (ea s)) ++ chdata (ba s).
Proof.
  intros. destruct (reach_inv v13 cc sc nst ops) as ((A1 & A2 & A3) & (B1 & B2 & B3) & _). subst s. tauto.
Qed.

Lemma delivered_prefix_all : forall v13 cc sc nst ops,
  let s := exec (init v13 cc sc nst) ops in
  is_prefix (delivered (io (eb s))) (sent (io (ea s))) /\ is_prefix (delivered (io (ea s))) (sent (io (eb s))).
Proof.
  intros. destruct (data_fifo_all v13 cc sc nst ops) as [A B]. fold s in A, B. unfold is_prefix.
  split; eexists; eassumption.
Qed.

Lemma ku_once_all : forall v13 cc sc nst ops,
  let s := exec (init v13 cc sc nst) ops in
  forall e, e = ea s \/ e = eb s ->
  n_ku_resp (ks e) = n_ku_req (ks e) /\ wgen (ks e) = n_ku_sent (ks e) /\ rgen (ks e) = n_ku_rcvd (ks e).
Proof.
  intros. destruct (reach_inv v13 cc sc nst ops) as (_ & _ & C1 & C2 & _). fold s in C1, C2.
  unfold cnt_ok in *. destruct H; subst e; tauto.
Qed.

Lemma pha_single_use_all : forall v13 cc sc nst ops,
  let s := exec (init v13 cc sc nst) ops in
  forall e, e = ea s \/ e = eb s ->
  NoDup (accepted (au e)) /\ NoDup (ctxs e) /\
  (forall c, In c (accepted (au e)) -> ~ In c (ctxs e) /\ 0 < c < next_ctx (au e)).
Proof.
  intros. destruct (reach_inv v13 cc sc nst ops) as (_ & _ & _ & _ & D1 & D2). fold s in D1, D2.
  assert (Hx : au_ok e) by (destruct H; subst e; assumption).
  destruct Hx as (H1 & H2 & H3 & H4 & H5). split; [exact H3|]. split; [exact H1|].
  intros c Hc. destruct (H4 c Hc). tauto.
Qed.
