(* C19 -- concrete objects used as witnesses and as `Example`s: the tables of the pinned tree, an
   installation without M2Crypto/pycrypto (the usual one), and HandshakeSettings() as it comes out of
   __init__ (every list attribute in its own cell). *)
From Coq Require Import ZArith List Bool String.
From TV Require Import Base.Prelude Model.C19_Settings Spec.C19_Domain.
Import ListNotations.
Open Scope Z_scope.
Open Scope string_scope.

Definition std_tables : tables := {|
  t_all_cipher := ["chacha20-poly1305"; "aes256gcm"; "aes128gcm"; "aes256ccm"; "aes128ccm"; "aes256"; "aes128"; "3des";
                   "chacha20-poly1305_draft00"; "aes128ccm_8"; "aes256ccm_8"; "rc4"; "null"];
  t_all_mac := ["sha"; "sha256"; "sha384"; "aead"; "md5"];
  t_kex := ["ecdhe_ecdsa"; "rsa"; "dhe_rsa"; "ecdhe_rsa"; "srp_sha"; "srp_sha_rsa"; "ecdh_anon"; "dh_anon"; "dhe_dsa"];
  t_impl := ["openssl"; "pycrypto"; "python"];
  t_certtypes := ["x509"];
  t_all_rsa_hashes := ["sha512"; "sha384"; "sha256"; "sha224"; "sha1"; "md5"];
  t_dsa_hashes := ["sha512"; "sha384"; "sha256"; "sha224"; "sha1"];
  t_ecdsa_hashes := ["sha512"; "sha384"; "sha256"; "sha224"; "sha1"];
  t_sig_schemes := ["Ed25519"; "Ed448"];
  t_rsa_schemes := ["pss"; "pkcs1"];
  t_all_curves := ["x25519"; "x448"; "secp384r1"; "secp256r1"; "secp521r1"; "secp256k1"];
  t_all_dh := ["ffdhe2048"; "ffdhe3072"; "ffdhe4096"; "ffdhe6144"; "ffdhe8192"];
  t_tls13_groups := ["secp256r1"; "secp384r1"; "secp521r1"; "x25519"; "x448"; "ffdhe2048"; "ffdhe3072"; "ffdhe4096";
                     "ffdhe6144"; "ffdhe8192"];
  t_known_versions := [(3, 0); (3, 1); (3, 2); (3, 3); (3, 4)];
  t_ticket_ciphers := ["chacha20-poly1305"; "aes256gcm"; "aes128gcm"; "aes128ccm"; "aes128ccm_8"; "aes256ccm"; "aes256ccm_8"];
  t_psk_modes := ["psk_dhe_ke"; "psk_ke"];
  t_ecpf := [1; 0];
  t_ecpf_uncompressed := 0;
  t_comp_send := ["zlib"];
  t_comp_recv := ["zlib"; "brotli"];
  t_dc_forbidden := [(8, 4); (8, 5); (8, 6)];
  t_dc_valid_time := 604800
|}.

Definition no_backends : install := {| i_m2crypto := false; i_pycrypto := false; i_tdes := true |}.
Definition all_backends : install := {| i_m2crypto := true; i_pycrypto := true; i_tdes := true |}.

Definition S (l : list string) : list val := map VStr l.

Definition ex_scalars : scalars := {|
  minVersion := (3, 1); maxVersion := (3, 4);
  useExtendedMasterSecret := VBool true; requireExtendedMasterSecret := VBool false;
  useExperimentalTackExtension := VBool false; sendFallbackSCSV := VBool false;
  useEncryptThenMAC := VBool true; usePaddingExtension := VBool true; padding_cb := false;
  ticketCipher := VStr "aes256gcm"; ticketLifetime := 86400; max_early_data := 16400; ticket_count := 2;
  record_size_limit := Some 16385; dc_valid_time := 604800; minKeySize := 1023; maxKeySize := 8193;
  dhParams := None; defaultCurve := VStr "secp256r1"; use_heartbeat_extension := VBool true;
  heartbeat_response_callback := false |}.

Definition ex_heap : heap := [
  S ["chacha20-poly1305"; "aes256gcm"; "aes128gcm"; "aes256ccm"; "aes128ccm"; "aes256"; "aes128"; "3des"];
  S ["sha"; "sha256"; "sha384"; "aead"];
  S ["ecdhe_ecdsa"; "rsa"; "dhe_rsa"; "ecdhe_rsa"; "srp_sha"; "srp_sha_rsa"; "ecdh_anon"; "dh_anon"; "dhe_dsa"];
  S ["openssl"; "pycrypto"; "python"];
  [VPair 3 4; VPair 3 3; VPair 3 2; VPair 3 1];
  [VInt 1; VInt 0];
  [];
  S ["zlib"];
  S ["zlib"; "brotli"];
  [];
  S ["x509"];
  S ["sha512"; "sha384"; "sha256"; "sha224"; "sha1"];
  S ["pss"; "pkcs1"];
  S ["sha512"; "sha384"; "sha256"; "sha224"; "sha1"];
  S ["sha512"; "sha384"; "sha256"; "sha224"; "sha1"];
  S ["Ed25519"; "Ed448"];
  [];
  S ["x25519"; "x448"; "secp384r1"; "secp256r1"; "secp521r1"];
  S ["ffdhe2048"; "ffdhe3072"; "ffdhe4096"; "ffdhe6144"; "ffdhe8192"];
  S ["secp256r1"; "x25519"];
  [];
  S ["psk_dhe_ke"; "psk_ke"]].

Definition ex_settings : settings := {| locs := seq 0 22; sc := ex_scalars |}.

(* variants *)
Definition with_cell (h : heap) (f : nat) (v : list val) : heap := lupd h f v.
Definition with_scalars (s : settings) (c : scalars) : settings := {| locs := locs s; sc := c |}.

(* TLS <= 1.1 only: exercises the two re-binding branches (versions, macNames) *)
Definition ex_scalars_tls11 : scalars := {|
  minVersion := (3, 1); maxVersion := (3, 2);
  useExtendedMasterSecret := VBool true; requireExtendedMasterSecret := VBool false;
  useExperimentalTackExtension := VBool false; sendFallbackSCSV := VBool false;
  useEncryptThenMAC := VBool true; usePaddingExtension := VBool true; padding_cb := false;
  ticketCipher := VStr "aes256gcm"; ticketLifetime := 86400; max_early_data := 16400; ticket_count := 2;
  record_size_limit := Some 16385; dc_valid_time := 604800; minKeySize := 1023; maxKeySize := 8193;
  dhParams := None; defaultCurve := VStr "secp256r1"; use_heartbeat_extension := VBool true;
  heartbeat_response_callback := false |}.

(* a ticket key of 16 bytes with a cipher that needs 32 *)
Definition ex_scalars_chacha_ticket : scalars := {|
  minVersion := (3, 1); maxVersion := (3, 4);
  useExtendedMasterSecret := VBool true; requireExtendedMasterSecret := VBool false;
  useExperimentalTackExtension := VBool false; sendFallbackSCSV := VBool false;
  useEncryptThenMAC := VBool true; usePaddingExtension := VBool true; padding_cb := false;
  ticketCipher := VStr "chacha20-poly1305"; ticketLifetime := 86400; max_early_data := 16400; ticket_count := 2;
  record_size_limit := Some 16385; dc_valid_time := 604800; minKeySize := 1023; maxKeySize := 8193;
  dhParams := None; defaultCurve := VStr "secp256r1"; use_heartbeat_extension := VBool true;
  heartbeat_response_callback := false |}.

(* TLS 1.3 only: minVersion = (3,4) and nothing else changed *)
Definition ex_scalars_tls13only : scalars := {|
  minVersion := (3, 4); maxVersion := (3, 4);
  useExtendedMasterSecret := VBool true; requireExtendedMasterSecret := VBool false;
  useExperimentalTackExtension := VBool false; sendFallbackSCSV := VBool false;
  useEncryptThenMAC := VBool true; usePaddingExtension := VBool true; padding_cb := false;
  ticketCipher := VStr "aes256gcm"; ticketLifetime := 86400; max_early_data := 16400; ticket_count := 2;
  record_size_limit := Some 16385; dc_valid_time := 604800; minKeySize := 1023; maxKeySize := 8193;
  dhParams := None; defaultCurve := VStr "secp256r1"; use_heartbeat_extension := VBool true;
  heartbeat_response_callback := false |}.
