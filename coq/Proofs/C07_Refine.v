(* C07 -- the C03 model of tlslite-ng only ever produces results the RFC spec permits:
   every chosen component lies in both abstract configurations. *)
From Coq Require Import ZArith List Bool Lia.
From TV Require Import Base.Prelude Gen.C03Tables Model.C03_Negotiate Proofs.C03_Negotiate
                       Spec.C07_NegotiateRFC.
Import ListNotations.
Open Scope Z_scope.

Definition all_versioned_suites : list Z := ssl3Suites ++ tls12Suites ++ tls13Suites.

Definition abs_client (c : Client) : Cfg :=
  {| cf_versions := filter (fun v => (st_minV (cl_set c) <=? v) &&
                                     ((v <=? st_maxV (cl_set c)) || memZ v (st_versions (cl_set c)))) [0; 1; 2; 3; 4];
     cf_suites := client_suites c;
     cf_groups := client_groups_policy (cl_set c);
     cf_sigs := client_sigalgs (cl_set c);
     cf_alpn := cl_alpn c |}.

(* the server's policy as seen at version v (suite and scheme admission depend on the version) *)
Definition abs_server (s : Server) (v : Z) : Cfg :=
  {| cf_versions := st_versions (sv_set s) ++ filter (fun w => (st_minV (sv_set s) <=? w) && (w <=? st_maxV (sv_set s))) [0; 1; 2; 3; 4];
     cf_suites := filter (suite_allowed (sv_set s) v) all_versioned_suites;
     cf_groups := server_groups_policy (sv_set s);
     cf_sigs := sig_hashes_to_list (sv_set s) false (sv_cert s) (if v <=? 3 then 3 else v);
     cf_alpn := sv_alpn s |}.

Lemma client_offer_alpn c ch a : client_offer c = Ok ch -> ch_alpn ch = Some a -> cl_alpn c = Some a.
Proof.
  unfold client_offer. intros H.
  destruct (if 3 <=? st_maxV (cl_set c) then Some (client_sigalgs (cl_set c)) else None) as [[|x l]|];
    try discriminate H; injection H as <-; cbn [ch_alpn];
    destruct (negb (st_maxV (cl_set c) =? 0)); intros E; try discriminate E; exact E.
Qed.

Lemma server_legacy_alpn s ch v suite fl sv p :
  server_legacy s ch v suite = Ok (fl, sv) -> fl_alpn fl = Some p ->
  exists a b, ch_alpn ch = Some a /\ sv_alpn s = Some b /\ In p a /\ In p b.
Proof.
  intros H. unfold server_legacy in H. inv_ok H. injection H as <- _. cbn [fl_alpn]. intros Hp. subst a0.
  destruct (ch_alpn ch) as [ca|]; [|discriminate E0]. destruct (sv_alpn s) as [sa|]; [|discriminate E0].
  destruct (first_matching ca sa) eqn:F; [|discriminate E0]. injection E0 as <-.
  apply first_matching_some in F. exists ca, sa. repeat split; [exact (proj1 F)|exact (proj2 F)].
Qed.

Lemma server_tls13_alpn_in s ch p : server_tls13_alpn s ch = Ok (Some p) ->
  exists a b, ch_alpn ch = Some a /\ sv_alpn s = Some b /\ In p a /\ In p b.
Proof.
  unfold server_tls13_alpn. destruct (ch_alpn ch) as [a|]; [|discriminate].
  destruct (sv_alpn s) as [b|]; [|discriminate]. intros H. injection H as F.
  apply first_matching_some in F. exists a, b. repeat split; [exact (proj1 F)|exact (proj2 F)].
Qed.

Lemma suite_in_version_listed v s : suite_in_version v v s = true -> In s all_versioned_suites.
Proof.
  unfold suite_in_version, all_versioned_suites. intros H.
  apply orb_true_iff in H. destruct H as [H|H]; [apply orb_true_iff in H; destruct H as [H|H]|];
    apply andb_true_iff in H; destruct H as [_ H]; apply memZ_In in H;
    apply in_or_app; [left; exact H|right; apply in_or_app; left; exact H|right; apply in_or_app; right; exact H].
Qed.

Theorem refines_spec_pf c s o : negotiate c s = Ok o ->
  let v := vw_version (oc_server o) in let suite := vw_suite (oc_server o) in
  (0 <= v <= 4 -> In v (cf_versions (abs_client c))) /\
  (0 <= v <= 4 -> st_minV (sv_set s) <= st_maxV (sv_set s) -> In v (cf_versions (abs_server s v))) /\
  In suite (cf_suites (abs_client c)) /\ In suite (cf_suites (abs_server s v)) /\
  (forall g, fl_group (oc_flight o) = Some g -> In g (cf_groups (abs_client c)) /\ In g (cf_groups (abs_server s v))) /\
  (forall sg, fl_sig (oc_flight o) = Some sg -> In sg (cf_sigs (abs_client c)) /\ In sg (cf_sigs (abs_server s v))) /\
  (forall p, vw_alpn (oc_server o) = Some p ->
     exists a b, cf_alpn (abs_client c) = Some a /\ cf_alpn (abs_server s v) = Some b /\ In p a /\ In p b).
Proof.
  intros H. cbn zeta.
  destruct (version_within_client c s o H) as [VC1 VC2].
  split.
  { intros R. unfold abs_client. cbn [cf_versions]. apply filter_In. split.
    - assert (X : vw_version (oc_server o) = 0 \/ vw_version (oc_server o) = 1 \/ vw_version (oc_server o) = 2 \/
                  vw_version (oc_server o) = 3 \/ vw_version (oc_server o) = 4) by lia.
      cbn [In]. destruct X as [X|[X|[X|[X|X]]]]; rewrite X; auto 6.
    - apply andb_true_iff. split; [apply Z.leb_le; exact VC1|].
      apply orb_true_iff. destruct VC2 as [A|A]; [left; apply Z.leb_le; exact A|right; apply memZ_In; exact A]. }
  split.
  { intros R W. unfold abs_server. cbn [cf_versions].
    destruct (run_picked _ _ _ H) as [ch [v [suite [sig [grp [H0 [H1 [V _]]]]]]]]. rewrite V in *.
    destruct (server_hello_stage_facts _ _ _ _ _ _ _ H1) as [PV [MV _]].
    unfold server_pick_version in PV. unfold server_min_version in MV.
    pose proof (client_offer_ver _ _ H0) as CV.
    destruct (ch_supver ch) as [vs|].
    - destruct (first_matching (st_versions (sv_set s)) vs) eqn:F; [|discriminate PV].
      injection PV as <-. apply first_matching_some in F. apply in_or_app. left. exact (proj1 F).
    - destruct (ch_ver ch <? st_minV (sv_set s)) eqn:L; [discriminate MV|]. apply Z.ltb_ge in L.
      apply in_or_app. right. apply filter_In.
      assert (B : st_minV (sv_set s) <= v <= st_maxV (sv_set s)).
      { destruct (st_maxV (sv_set s) <? ch_ver ch) eqn:L2; injection PV as <-;
          [apply Z.ltb_lt in L2|apply Z.ltb_ge in L2]; lia. }
      split.
      + assert (X : v = 0 \/ v = 1 \/ v = 2 \/ v = 3 \/ v = 4) by lia.
        cbn [In]. destruct X as [X|[X|[X|[X|X]]]]; rewrite X; auto 6.
      + apply andb_true_iff. split; apply Z.leb_le; lia. }
  destruct (run_picked _ _ _ H) as [ch [v [suite [sig [grp [H0 [H1 [V [S [_ [_ [IN SV]]]]]]]]]]]].
  rewrite V, S.
  split.
  { unfold abs_client. cbn [cf_suites]. rewrite (client_offer_suites _ _ H0) in IN. destruct IN as [E|IN].
    { rewrite <- E in SV. rewrite scsv_not_versioned in SV. discriminate SV. }
    apply in_app_or in IN. destruct IN as [IN|IN]; [exact IN|].
    destruct (cl_fallback c); [|destruct IN]. destruct IN as [E|[]]. rewrite <- E in SV.
    rewrite fallback_not_versioned in SV. discriminate SV. }
  split.
  { unfold abs_server. cbn [cf_suites]. apply filter_In. split; [exact (suite_in_version_listed _ _ SV)|].
    destruct (server_hello_stage_facts _ _ _ _ _ _ _ H1) as [_ [_ [SS _]]].
    exact (proj1 (in_server_suites _ _ _ _ SS)). }
  split.
  { intros g Hg. destruct (group_within_both c s o g H Hg) as [A B]. split; [exact B|exact A]. }
  split.
  { intros sg Hg. destruct (sig_within_both c s o sg H Hg) as [A B]. rewrite V in B. split; [exact A|exact B]. }
  intros p Hp. unfold abs_client, abs_server. cbn [cf_alpn].
  clear H0 H1 IN SV. apply negotiate_run in H. destruct H as
    [ch' v' suite' sig' grp' fl sv0 cv ccert cvalg npn sv H0 H1 Hv H2 H3 H4 H5 ->
    |ch' v' suite' sig' grp' fl0 sv00 alpn fl sv0 cv ccert cvalg sv H0 H1 Hv H2 H3 H4 H5 H6 H7 ->];
  cbn [oc_server] in Hp.
  - destruct (server_legacy_facts _ _ _ _ _ _ H2) as [_ [[_ [_ [_ [_ [SA _]]]]] _]].
    destruct (server_legacy_finish_facts _ _ _ _ _ _ _ H5) as [[_ [_ [_ [_ [TA _]]]]] _].
    rewrite TA, SA in Hp. destruct (server_legacy_alpn _ _ _ _ _ _ _ H2 Hp) as [a [b [A [B [C D]]]]].
    exists a, b. repeat split; try assumption. exact (client_offer_alpn _ _ _ H0 A).
  - destruct (server_tls13_facts _ _ _ _ _ _ _ _ _ H5) as [_ [[_ [_ [_ [_ [SA _]]]]] _]].
    destruct (server_tls13_finish_facts _ _ _ _ _ _ H7) as [[_ [_ [_ [_ [TA _]]]]] _].
    rewrite TA, SA in Hp. subst alpn. destruct (server_tls13_alpn_in _ _ _ H4) as [a [b [A [B [C D]]]]].
    exists a, b. repeat split; try assumption. exact (client_offer_alpn _ _ _ H0 A).
Qed.
