(* C02: what each receive path accepts is a protection, by a sender in step with the
   receiver (same key, cipher state and sequence number), of the record it yields. *)
From Coq Require Import ZArith List Bool Lia.
From TV Require Import Base.Prelude Spec.CbcCheck Model.C01_RecordPipe Spec.C01_Contracts
  Model.C02_RecordAccept Spec.C02_Ideal Proofs.C01_Lists Proofs.C01_Cbc Proofs.C01_RoundTrip Proofs.C01_Delivery Proofs.C02_Cbc.
Import ListNotations.
Open Scope Z_scope.

Lemma rbind_ok_inv {A B} (m : rres A) (f : A -> rres B) b :
  rbind m f = ROk b -> exists a, m = ROk a /\ f a = ROk b.
Proof. destruct m as [a|e]; cbn [rbind]; [eauto|discriminate]. Qed.

Section Acc.
Context {CS : Type}.
Variable P : Prim CS.
Variable R : CS -> CS -> Prop.
Variable c : Cfg.

Lemma next_seq_inv (s : St CS) b s1 : next_seq s = ROk (b, s1) ->
  0 <= st_seq s < 18446744073709551616 /\ b = be_bytes 8 (st_seq s) /\
  s1 = {| st_cs := st_cs s; st_seq := st_seq s + 1 |}.
Proof.
  unfold next_seq. destruct ((0 <=? st_seq s) && (st_seq s <? 18446744073709551616)) eqn:E; [|discriminate].
  intros H. injection H as <- <-. apply andb_true_iff in E. destruct E as [E1 E2].
  apply Z.leb_le in E1. apply Z.ltb_lt in E2. auto.
Qed.

Lemma calc_mac_inv m seqb ty data t : calc_mac c m seqb ty data = ROk t ->
  is_byte ty = true /\ ver_macable (c_ver c) = true /\ zlen data < 65536 /\
  t = mac_fn m (mac_acc m ++ mac_header seqb ty (c_ver c) (zlen data) ++ data).
Proof.
  unfold calc_mac. destruct (is_byte ty); [|discriminate]. destruct (ver_macable (c_ver c)); [|discriminate].
  cbn [negb]. destruct (65536 <=? zlen data) eqn:E; [discriminate|]. intros H. injection H as <-.
  repeat split; auto. lia.
Qed.

(* the tag the receiver compares against, for a record yielding (ty, data) *)
Definition rtag (r : St CS) (ty : Z) (data : list Z) : list Z :=
  mac_fn (pr_mac P) (mac_acc (pr_mac P) ++ mac_input c (st_seq r) ty data).

Lemma rtag_tagged (s r : St CS) ty data : st_seq s = st_seq r -> tagged P c s ty data = rtag r ty data.
Proof. intros H. unfold tagged, rtag, mac_input. rewrite H. reflexivity. Qed.

(* ---------------- stream / NULL ---------------------------------------------------------------- *)
Lemma stream_accept (s r r' : St CS) ty body data :
  mode_ok P R MStream c -> (c_has_enc c = true -> cipher_onto P R 1) -> sync R s r ->
  decrypt_stream_then_mac c P r ty body = ROk (r', data) ->
  exists s', mac_then_encrypt c P s ty data = ROk (s', body) /\ sync R s' r' /\
             st_seq r' = st_seq r + 1 /\ zlen body = zlen data + ds P.
Proof.
  intros [_ [[Hv [_ [_ [Hm [Hml Hds]]]]] [_ [Hblk _]]]] Honto [HR [Hseq H0]] Hacc.
  unfold decrypt_stream_then_mac in Hacc. rewrite Hm, Hv in Hacc. cbn [negb] in Hacc.
  unfold mac_then_encrypt. rewrite Hblk. cbn [andb].
  destruct (c_has_enc c) eqn:He.
  - specialize (Honto eq_refl (st_cs s) (st_cs r) body HR (Z.mod_1_r _)).
    destruct Honto as [Henc [Hlen HR']].
    cbn [rbind set_cs st_cs st_seq fst snd] in Hacc.
    set (d1 := snd (pr_dec P (st_cs r) body)) in *.
    destruct (ds P >? zlen d1) eqn:E; [discriminate|].
    apply rbind_ok_inv in Hacc. destruct Hacc as [[seqb s2] [Hns Hacc]].
    apply next_seq_inv in Hns. cbn [set_cs st_seq st_cs] in Hns. destruct Hns as [Hrange [-> ->]].
    apply rbind_ok_inv in Hacc. destruct Hacc as [t [Hcm Hacc]].
    apply calc_mac_inv in Hcm. destruct Hcm as [Hb [_ [Hl Ht]]].
    destruct (list_eqb t (zdrop (zlen d1 - ds P) d1)) eqn:Eq; [|discriminate].
    injection Hacc as <- <-. apply list_eqb_spec in Eq.
    assert (Hd1 : d1 = ztake (zlen d1 - ds P) d1 ++ t) by (rewrite Eq; symmetry; apply ztake_zdrop).
    set (data := ztake (zlen d1 - ds P) d1) in *.
    assert (Hdl : zlen data = zlen d1 - ds P) by (unfold data; apply zlen_ztake; lia).
    rewrite append_mac_ok by (try assumption; lia). cbn [rbind].
    assert (Htag : tagged P c s ty data = t).
    { unfold tagged. rewrite Hseq. symmetry. exact Ht. }
    rewrite Htag, <- Hd1. cbn [st_cs].
    eexists. split; [rewrite <- Henc; reflexivity|].
    split; [|split; [reflexivity|lia]].
    unfold sync. cbn [set_cs st_cs st_seq]. split; [exact HR'|]. split; lia.
  - cbn [rbind] in Hacc.
    destruct (ds P >? zlen body) eqn:E; [discriminate|].
    apply rbind_ok_inv in Hacc. destruct Hacc as [[seqb s2] [Hns Hacc]].
    apply next_seq_inv in Hns. destruct Hns as [Hrange [-> ->]].
    apply rbind_ok_inv in Hacc. destruct Hacc as [t [Hcm Hacc]].
    apply calc_mac_inv in Hcm. destruct Hcm as [Hb [_ [Hl Ht]]].
    destruct (list_eqb t (zdrop (zlen body - ds P) body)) eqn:Eq; [|discriminate].
    injection Hacc as <- <-. apply list_eqb_spec in Eq.
    assert (Hd1 : body = ztake (zlen body - ds P) body ++ t) by (rewrite Eq; symmetry; apply ztake_zdrop).
    set (data := ztake (zlen body - ds P) body) in *.
    assert (Hdl : zlen data = zlen body - ds P) by (unfold data; apply zlen_ztake; lia).
    rewrite append_mac_ok by (try assumption; lia). cbn [rbind].
    assert (Htag : tagged P c s ty data = t).
    { unfold tagged. rewrite Hseq. symmetry. exact Ht. }
    rewrite Htag, <- Hd1.
    eexists. split; [reflexivity|].
    split; [|split; [reflexivity|lia]].
    unfold sync. cbn [set_cs st_cs st_seq]. split; [exact HR|]. split; lia.
Qed.

(* ---------------- CBC, MAC-then-encrypt ----------------------------------------------------------- *)
(* decrypt() of a byte string is a byte string (bytearray); needed because the padding length
   is read from the decrypted text *)
Definition dec_bytes : Prop := forall cs y, bytes_list y -> bytes_list (snd (pr_dec P cs y)).

Lemma bytes_list_zdrop n l : bytes_list l -> bytes_list (zdrop n l).
Proof.
  intros H x Hx. apply H. rewrite <- (ztake_zdrop n l). apply in_or_app. right. exact Hx.
Qed.

Lemma cbc_accept (s r r' : St CS) ty body data :
  mode_ok P R MCbc c -> cipher_onto P R (c_bs c) -> dec_bytes -> bytes_list body -> zlen body < 65536 ->
  sync R s r ->
  decrypt_then_mac c P r ty body = ROk (r', data) ->
  exists ch s', pad_legal c ch /\ mte_body_with c P s ty data ch = ROk (s', body) /\ sync R s' r' /\
                st_seq r' = st_seq r + 1.
Proof.
  intros [_ [[Hv [_ [_ [Hm [Hml Hds]]]]] [_ [Henc [Hb1 [Hbs [_ Hiv]]]]]]] Honto Hdb Hbb Hb16 [HR [Hseq H0]] Hacc.
  unfold decrypt_then_mac in Hacc. rewrite Hv, Hb1, Hm in Hacc. cbn [negb andb] in Hacc.
  destruct (zlen body mod c_bs c =? 0) eqn:Emod; [|discriminate]. cbn [negb] in Hacc.
  apply Z.eqb_eq in Emod.
  destruct (Honto (st_cs s) (st_cs r) body HR Emod) as [Hencb [Hdl HR']].
  set (d := snd (pr_dec P (st_cs r) body)) in *.
  assert (Hdbytes : bytes_list d) by (apply Hdb; exact Hbb).
  set (d1 := if ver_le (3, 2) (c_ver c) then zdrop (c_bs c) d else d) in *.
  assert (Hd1bytes : bytes_list d1).
  { unfold d1. destruct (ver_le (3, 2) (c_ver c)); [apply bytes_list_zdrop|]; exact Hdbytes. }
  apply rbind_ok_inv in Hacc. destruct Hacc as [[seqb s2] [Hns Hacc]].
  apply next_seq_inv in Hns. cbn [set_cs st_seq st_cs] in Hns. destruct Hns as [Hrange [-> ->]].
  destruct (is_byte ty) eqn:Hb; [|discriminate]. cbn [negb] in Hacc.
  destruct (well_formed (c_ver c) (c_bs c) (pr_mac P) (be_bytes 8 (st_seq r)) ty d1) eqn:Hwf; [|discriminate].
  injection Hacc as <- <-.
  assert (Hds0 : 0 <= mac_ds (pr_mac P)) by (unfold ds in Hds; lia).
  destruct (well_formed_elim (c_ver c) (c_bs c) (pr_mac P) (be_bytes 8 (st_seq r)) ty d1 Hds0 Hd1bytes Hwf)
    as [dd [t [padb [p [Hdec [Htl [[Hpl Hpad] [Htag Hp]]]]]]]].
  assert (Hstrip : ztake (zlen d1 - (last_byte d1 + 1 + ds P)) d1 = dd).
  { rewrite Hdec. unfold ds. apply (strip_intro (pr_mac P)); assumption. }
  rewrite Hstrip.
  (* the explicit-IV block *)
  set (ivb := if ver_le (3, 2) (c_ver c) then ztake (c_bs c) d else []).
  assert (Hd : d = ivb ++ d1).
  { unfold ivb, d1. destruct (ver_le (3, 2) (c_ver c)); [symmetry; apply ztake_zdrop|reflexivity]. }
  assert (Hd1len : zlen d1 = zlen dd + ds P + p + 1).
  { rewrite Hdec. rewrite !zlen_app. change (zlen [p]) with 1. unfold ds. lia. }
  assert (Hivl : zlen ivb = (if ver_le (3, 2) (c_ver c) then c_bs c else 0)).
  { unfold ivb. destruct (ver_le (3, 2) (c_ver c)) eqn:Ev; [|reflexivity].
    apply zlen_ztake. split; [lia|].
    (* d is a non-empty multiple of the block size *)
    assert (Hdne : 0 < zlen d).
    { rewrite Hd, zlen_app. pose proof (zlen_nonneg ivb). pose proof (zlen_nonneg dd). lia. }
    rewrite Hdl in *. apply Z.mod_divide in Emod; [|lia]. destruct Emod as [k Hk]. rewrite Hk in *.
    assert (0 < k) by nia. nia. }
  exists {| ch_pad := padb; ch_ivb := ivb; ch_nonce := []; ch_zeros := 0 |}.
  unfold mte_body_with. rewrite append_mac_ok; try assumption; try lia.
  2:{ pose proof (zlen_nonneg dd).
      assert (zlen d1 <= zlen d) by (rewrite Hd, zlen_app; pose proof (zlen_nonneg ivb); lia).
      lia. }
  cbn [rbind]. rewrite Henc, Hb1. cbn [andb].
  assert (Hpadded : cbc_padded {| ch_pad := padb; ch_ivb := ivb; ch_nonce := []; ch_zeros := 0 |}
                               (dd ++ tagged P c s ty dd) = d).
  { unfold cbc_padded. cbn [ch_pad ch_ivb]. rewrite Hd, Hdec, Hpl.
    rewrite (rtag_tagged s r ty dd Hseq). unfold rtag, mac_input.
    rewrite Htag. unfold tag_of. rewrite <- !app_assoc. reflexivity. }
  rewrite Hpadded. rewrite Hdl, Emod. cbn [Z.eqb negb]. cbn [set_cs st_cs st_seq].
  eexists. split.
  { unfold pad_legal. cbn [ch_pad ch_ivb]. rewrite Hpl. split; [lia|]. split; [exact Hpad|exact Hivl]. }
  split; [rewrite <- Hencb; reflexivity|].
  split; [|reflexivity].
  unfold sync. cbn [set_cs st_cs st_seq]. split; [exact HR'|]. split; lia.
Qed.

(* ---------------- encrypt-then-MAC ------------------------------------------------------------------ *)
Definition pad_legal_etm (ch : Choice) : Prop :=
  zlen (ch_pad ch) <= 255 /\
  (is_ssl3 (c_ver c) = true \/ Forall (fun b => b = zlen (ch_pad ch)) (ch_pad ch)) /\
  zlen (ch_ivb ch) = (if ver_le (3, 2) (c_ver c) then c_bs c else 0).

Lemma forallb_Forall_eq (l : list Z) p : forallb (fun b => b =? p) l = true -> Forall (fun b => b = p) l.
Proof.
  intros H. rewrite forallb_forall in H. apply Forall_forall. intros x Hx. apply Z.eqb_eq. auto.
Qed.

Lemma etm_accept (s r r' : St CS) ty body data :
  mode_ok P R MEtm c -> (c_has_enc c = true -> cipher_onto P R (c_bs c)) -> dec_bytes -> bytes_list body ->
  zlen body < 65536 -> sync R s r ->
  mac_then_decrypt c P r ty body = ROk (r', data) ->
  exists ch s', (c_has_enc c = true -> pad_legal_etm ch) /\
                etm_body_with c P s ty data ch = ROk (s', body) /\ sync R s' r' /\
                st_seq r' = st_seq r + 1.
Proof.
  intros [_ [[Hv [_ [_ [Hm [Hml Hds]]]]] [_ Hblk0]]] Honto Hdb Hbb Hb16 [HR [Hseq H0]] Hacc.
  unfold mac_then_decrypt in Hacc. rewrite Hm in Hacc.
  destruct (zlen body <? ds P) eqn:E0; [discriminate|].
  apply rbind_ok_inv in Hacc. destruct Hacc as [[s1 ct] [Hmac Hacc]].
  apply rbind_ok_inv in Hmac. destruct Hmac as [[seqb s2] [Hns Hmac]].
  apply next_seq_inv in Hns. destruct Hns as [Hrange [-> ->]].
  apply rbind_ok_inv in Hmac. destruct Hmac as [t [Hcm Hmac]].
  apply calc_mac_inv in Hcm. destruct Hcm as [Hb [_ [Hl Ht]]].
  destruct (list_eqb t (zdrop (zlen body - ds P) body)) eqn:Eq; [|discriminate].
  injection Hmac as <- <-. apply list_eqb_spec in Eq.
  set (ct := ztake (zlen body - ds P) body) in *.
  assert (Hbody : body = ct ++ t) by (rewrite Eq; symmetry; apply ztake_zdrop).
  assert (Hctl : zlen ct = zlen body - ds P) by (unfold ct; apply zlen_ztake; lia).
  assert (Hctb : bytes_list ct).
  { intros x Hx. apply Hbb. rewrite Hbody. apply in_or_app. left. exact Hx. }
  unfold etm_body_with.
  destruct (c_has_enc c) eqn:Henc.
  - specialize (Hblk0 eq_refl). destruct Hblk0 as [Hb1 [Hbs [_ Hiv]]]. specialize (Honto eq_refl).
    cbn [st_cs] in Hacc.
    destruct (zlen ct mod c_bs c =? 0) eqn:Emod; [|discriminate]. cbn [negb] in Hacc. apply Z.eqb_eq in Emod.
    destruct (Honto (st_cs s) (st_cs r) ct HR Emod) as [Hencb [Hdl HR']].
    set (d := snd (pr_dec P (st_cs r) ct)) in *.
    assert (Hdbytes : bytes_list d) by (apply Hdb; exact Hctb).
    set (d2 := if ver_le (3, 2) (c_ver c) then zdrop (c_bs c) d else d) in *.
    assert (Hd2bytes : bytes_list d2).
    { unfold d2. destruct (ver_le (3, 2) (c_ver c)); [apply bytes_list_zdrop|]; exact Hdbytes. }
    destruct (zlen d2 =? 0) eqn:Ez; [discriminate|].
    destruct (etm_padding_ok c d2) eqn:Epad; [|discriminate].
    injection Hacc as <- <-.
    unfold etm_padding_ok in Epad. cbv zeta in Epad.
    set (p := last_byte d2) in *.
    apply andb_true_iff in Epad. destruct Epad as [Ep1 Ep2]. apply Z.leb_le in Ep1.
    assert (Hp : 0 <= p <= 255).
    { apply Hd2bytes. unfold p, last_byte. apply nthZ_in. pose proof (zlen_nonneg d2). lia. }
    set (dd := ztake (zlen d2 - (p + 1)) d2) in *.
    set (rest := zdrop (zlen d2 - (p + 1)) d2) in *.
    assert (Hd2 : d2 = dd ++ rest) by (symmetry; apply ztake_zdrop).
    assert (Hddl : zlen dd = zlen d2 - (p + 1)) by (unfold dd; apply zlen_ztake; lia).
    assert (Hrl : zlen rest = p + 1) by (unfold rest; rewrite zlen_zdrop; lia).
    set (padb := ztake p rest) in *. set (lst := zdrop p rest).
    assert (Hrest : rest = padb ++ lst) by (symmetry; apply ztake_zdrop).
    assert (Hpl : zlen padb = p) by (apply zlen_ztake; lia).
    assert (Hll : zlen lst = 1) by (unfold lst; rewrite zlen_zdrop; lia).
    destruct (list_len1 lst Hll) as [x Hx].
    assert (Hdecomp : d2 = dd ++ padb ++ [x]) by (rewrite Hd2 at 1; rewrite Hrest at 1; rewrite Hx; reflexivity).
    assert (Hxp : x = p).
    { unfold p. rewrite Hdecomp at 1. rewrite app_assoc, last_byte_snoc. reflexivity. }
    set (ivb := if ver_le (3, 2) (c_ver c) then ztake (c_bs c) d else []).
    assert (Hd : d = ivb ++ d2).
    { unfold ivb, d2. destruct (ver_le (3, 2) (c_ver c)); [symmetry; apply ztake_zdrop|reflexivity]. }
    assert (Hivl : zlen ivb = (if ver_le (3, 2) (c_ver c) then c_bs c else 0)).
    { unfold ivb. destruct (ver_le (3, 2) (c_ver c)) eqn:Ev; [|reflexivity].
      apply zlen_ztake. split; [lia|].
      assert (Hdne : 0 < zlen d).
      { rewrite Hd, zlen_app. pose proof (zlen_nonneg ivb). pose proof (zlen_nonneg d2). apply Z.eqb_neq in Ez. lia. }
      rewrite Hdl in *. apply Z.mod_divide in Emod; [|lia]. destruct Emod as [k Hk]. rewrite Hk in *.
      assert (0 < k) by nia. nia. }
    exists {| ch_pad := padb; ch_ivb := ivb; ch_nonce := []; ch_zeros := 0 |}.
    assert (Hpadded : cbc_padded {| ch_pad := padb; ch_ivb := ivb; ch_nonce := []; ch_zeros := 0 |} dd = d).
    { unfold cbc_padded. cbn [ch_pad ch_ivb]. rewrite Hd, Hdecomp, Hpl, Hxp. reflexivity. }
    rewrite Hpadded, Hdl, Emod. cbn [Z.eqb negb rbind].
    rewrite Hencb.
    rewrite append_mac_ok by (cbn [set_cs st_seq]; try assumption; lia).
    cbn [set_cs st_cs st_seq].
    eexists. split.
    { intros _. unfold pad_legal_etm. cbn [ch_pad ch_ivb]. rewrite Hpl. split; [lia|]. split; [|exact Hivl].
      apply orb_true_iff in Ep2. destruct Ep2 as [Es|Ef]; [left; exact Es|right].
      apply forallb_Forall_eq. exact Ef. }
    split.
    { f_equal. f_equal. rewrite Hbody. f_equal. unfold tagged. cbn [set_cs st_seq]. rewrite Hseq. symmetry. exact Ht. }
    split; [|reflexivity].
    unfold sync. cbn [set_cs st_cs st_seq]. split; [exact HR'|]. split; lia.
  - injection Hacc as <- <-. cbn [rbind].
    exists {| ch_pad := []; ch_ivb := []; ch_nonce := []; ch_zeros := 0 |}.
    rewrite append_mac_ok by (try assumption; lia).
    eexists. split; [discriminate|]. split.
    { f_equal. f_equal. rewrite Hbody. f_equal. unfold tagged. rewrite Hseq. symmetry. exact Ht. }
    split; [|reflexivity].
    unfold sync. cbn [set_cs st_cs st_seq]. split; [exact HR|]. split; lia.
Qed.

(* ---------------- AEAD, TLS 1.2 ---------------------------------------------------------------------- *)
Local Opaque be_bytes.
Lemma aead12_accept (s r r' : St CS) hty hver body data :
  mode_ok P R MAead12 c -> aead_tight P -> sync R s r ->
  decrypt_and_unseal c P r (hty, hver, body) = ROk (r', data) ->
  exists ch s', (explicit_nonce c = true -> zlen (ch_nonce ch) = 8) /\
                aead_body_with c P s hty data ch = ROk (s', body) /\ sync R s' r' /\
                st_seq r' = st_seq r + 1.
Proof.
  intros [_ [Hv [H13 [Henc [Haead [Hok [Htag [Hnl Hxe]]]]]]]] Htight [HR [Hseq H0]] Hacc.
  assert (Hn13 : is_tls13_plus c = false) by (unfold is_tls13_plus; rewrite Hv; reflexivity).
  unfold decrypt_and_unseal in Hacc.
  apply rbind_ok_inv in Hacc. destruct Hacc as [[seqb s2] [Hns Hacc]].
  apply next_seq_inv in Hns. destruct Hns as [Hrange [-> ->]].
  apply rbind_ok_inv in Hacc. destruct Hacc as [[nonce buf] [Hnb Hacc]].
  destruct (c_tag c >? zlen buf) eqn:Et; [discriminate|].
  rewrite Hn13 in Hacc.
  apply rbind_ok_inv in Hacc. destruct Hacc as [aad [Haad Hacc]].
  destruct (is_byte hty && is_byte ((zlen buf - c_tag c) / 256)) eqn:Eb; [|discriminate].
  cbn [negb] in Haad. injection Haad as <-.
  destruct (pr_open P nonce buf (aad12 c (be_bytes 8 (st_seq r)) hty (zlen buf - c_tag c))) as [p|] eqn:Eo; [|discriminate].
  injection Hacc as <- <-.
  pose proof (Htight _ _ _ _ Eo) as Hbuf.
  destruct (Hok nonce p (aad12 c (be_bytes 8 (st_seq r)) hty (zlen buf - c_tag c))) as [_ Hsl].
  rewrite <- Hbuf in Hsl.
  assert (Hpl : zlen buf - c_tag c = zlen p) by lia.
  unfold aead_body_with. rewrite next_seq_ok by lia. cbn [rbind]. rewrite Hn13, Hseq.
  rewrite <- Hpl, Eb. cbn [negb].
  destruct (explicit_nonce c) eqn:Ee.
  - destruct (8 >? zlen body) eqn:E8; [discriminate|]. injection Hnb as <- <-.
    exists {| ch_pad := []; ch_ivb := []; ch_nonce := ztake 8 body; ch_zeros := 0 |}. cbn [ch_nonce rbind].
    eexists. split; [intros _; apply zlen_ztake; lia|]. split.
    { rewrite <- Hbuf. rewrite ztake_zdrop. reflexivity. }
    split; [|reflexivity]. unfold sync. cbn [st_cs st_seq]. split; [exact HR|]. split; lia.
  - apply rbind_ok_inv in Hnb. destruct Hnb as [n0 [Hgn Hnb]]. injection Hnb as <- <-.
    exists {| ch_pad := []; ch_ivb := []; ch_nonce := []; ch_zeros := 0 |}. rewrite Hgn. cbn [rbind].
    eexists. split; [discriminate|]. split; [rewrite <- Hbuf; reflexivity|].
    split; [|reflexivity]. unfold sync. cbn [st_cs st_seq]. split; [exact HR|]. split; lia.
Qed.

(* ---------------- TLS 1.3 ------------------------------------------------------------------------------ *)
Lemma strip_zeros_spec l : exists k, l = repeat 0 k ++ strip_zeros l /\
  match strip_zeros l with [] => True | x :: _ => x <> 0 end.
Proof.
  induction l as [|x l IH]; [exists 0%nat; cbn; auto|].
  cbn [strip_zeros]. destruct (x =? 0) eqn:E.
  - apply Z.eqb_eq in E. subst x. destruct IH as [k [H1 H2]]. exists (S k). cbn [repeat app]. rewrite <- H1. auto.
  - exists 0%nat. cbn [repeat app]. split; [reflexivity|]. apply Z.eqb_neq. exact E.
Qed.

Lemma de_pad_inv d ty content : de_pad d = ROk (ty, content) ->
  ty <> 0 /\ exists k, 0 <= k /\ d = content ++ [ty] ++ zeros k.
Proof.
  unfold de_pad. destruct (strip_zeros_spec (rev d)) as [k [H1 H2]].
  destruct (strip_zeros (rev d)) as [|t rr]; [discriminate|]. intros H. injection H as <- <-.
  split; [exact H2|]. exists (Z.of_nat k). split; [lia|].
  apply (f_equal (@rev Z)) in H1. rewrite rev_involutive in H1. rewrite H1.
  rewrite rev_app_distr. cbn [rev]. rewrite rev_repeat. unfold zeros. rewrite Nat2Z.id.
  rewrite <- app_assoc. reflexivity.
Qed.

Lemma tls13_accept (s r r' : St CS) hver body ty data :
  mode_ok P R MTls13 c -> aead_tight P -> sync R s r ->
  unprotect c P r (23, hver, body) = ROk (r', (ty, data)) ->
  hver = (3, 3) /\ (ty <> 0 /\ ty <> 20) /\ zlen data <= c_recv_limit c /\
  exists k nonce, 0 <= k /\ zlen data + 1 + k <= c_recv_limit c + 1 /\
    get_nonce c (be_bytes 8 (st_seq r)) = ROk nonce /\
    body = pr_seal P nonce (data ++ [ty] ++ zeros k) (aad13 23 (3, 3) (zlen body)) /\
    sync R {| st_cs := st_cs s; st_seq := st_seq s + 1 |} r' /\ st_seq r' = st_seq r + 1.
Proof.
  intros [_ [Hv [H13 [Henc [Haead [Hok [Htag [Hnl [Hn8 _]]]]]]]]] Htight [HR [Hseq H0]] Hacc.
  assert (Ht13 : is_tls13_plus c = true) by (unfold is_tls13_plus; rewrite Hv, H13; reflexivity).
  assert (Hexp : explicit_nonce c = false) by (unfold explicit_nonce; rewrite Ht13; apply andb_false_r).
  unfold unprotect in Hacc.
  destruct (zlen body >? c_recv_limit c + 2048); [discriminate|].
  destruct (c_tls13 c && (zlen body >? c_recv_limit c + 256)); [discriminate|].
  rewrite Ht13, Henc, Haead in Hacc. change (23 =? 20) with false in Hacc. change (23 =? 21) with false in Hacc.
  change (23 =? 23) with true in Hacc. cbn [andb] in Hacc. rewrite ?andb_false_r in Hacc. cbn [andb] in Hacc.
  apply rbind_ok_inv in Hacc. destruct Hacc as [[s1 d1] [Hdu Hacc]].
  unfold decrypt_and_unseal in Hdu.
  apply rbind_ok_inv in Hdu. destruct Hdu as [[seqb s2] [Hns Hdu]].
  apply next_seq_inv in Hns. destruct Hns as [Hrange [-> ->]].
  rewrite Hexp in Hdu.
  apply rbind_ok_inv in Hdu. destruct Hdu as [[nonce buf] [Hnb Hdu]].
  apply rbind_ok_inv in Hnb. destruct Hnb as [n0 [Hgn Hnb]]. injection Hnb as <- <-.
  destruct (c_tag c >? zlen body); [discriminate|]. rewrite Ht13 in Hdu.
  change (23 =? 23) with true in Hdu. cbn [negb] in Hdu.
  destruct (pairZ_eqb hver (3, 3)) eqn:Ehv; [|discriminate]. cbn [negb rbind] in Hdu.
  apply pairZ_eqb_spec in Ehv. subst hver.
  destruct (pr_open P n0 body (aad13 23 (3, 3) (zlen body))) as [inner|] eqn:Eo; [|discriminate].
  injection Hdu as <- <-.
  apply rbind_ok_inv in Hacc. destruct Hacc as [[ty1 d2] [Hdp Hacc]].
  destruct (zlen inner >? c_recv_limit c + 1) eqn:El; [discriminate|].
  destruct (zlen d2 >? c_recv_limit c) eqn:El2; [discriminate|].
  injection Hacc as <- <- <-.
  apply rbind_ok_inv in Hdp. destruct Hdp as [[t0 d0] [Hdp Hccs]].
  destruct (t0 =? 20) eqn:E20; [discriminate|]. injection Hccs as -> ->. apply Z.eqb_neq in E20.
  apply de_pad_inv in Hdp. destruct Hdp as [Hty [k [Hk Hinner]]].
  split; [reflexivity|]. split; [split; [exact Hty|exact E20]|]. split; [lia|].
  exists k, n0. split; [exact Hk|]. split.
  { rewrite Hinner in El. rewrite !zlen_app, zlen_zeros in El by lia. change (zlen [ty1]) with 1 in El. lia. }
  split; [exact Hgn|]. split; [rewrite <- Hinner; apply Htight; exact Eo|].
  split; [|reflexivity]. unfold sync. cbn [st_cs st_seq]. split; [exact HR|]. split; lia.
Qed.
End Acc.
