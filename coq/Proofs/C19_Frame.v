(* C19 -- lemmas: heap algebra and the frame condition of validate() *)
From Coq Require Import ZArith List Bool String Lia.
From TV Require Import Base.Prelude Model.C19_Settings Spec.C19_Domain.
Import ListNotations.
Open Scope Z_scope.

(* ---- result monad ----------------------------------------------------------------------------- *)
Lemma bind_ok {A B} (m : res A) (f : A -> res B) y :
  bind m f = Ok y -> exists x, m = Ok x /\ f x = Ok y.
Proof. destruct m; cbn [bind]; intros H; [eauto|discriminate]. Qed.

Lemma guard_ok b : guard b = Ok tt <-> b = false.
Proof. unfold guard. destruct b; split; intros H; congruence. Qed.

Lemma guard_err b e : guard b = Err e -> e = ValueError /\ b = true.
Proof. unfold guard. destruct b; intros H; [injection H as <-; auto|discriminate]. Qed.

(* ---- list update -------------------------------------------------------------------------------- *)
Lemma lupd_length {A} (l : list A) k x : List.length (lupd l k x) = List.length l.
Proof. revert k. induction l as [|y t IH]; intros [|k]; cbn [lupd List.length]; auto. Qed.

Lemma nth_lupd_eq {A} (l : list A) k x d : (k < List.length l)%nat -> nth k (lupd l k x) d = x.
Proof.
  revert k. induction l as [|y t IH]; intros [|k] H; cbn [lupd nth List.length] in *; try lia; auto.
  apply IH. lia.
Qed.

Lemma nth_lupd_neq {A} (l : list A) k j x d : j <> k -> nth j (lupd l k x) d = nth j l d.
Proof.
  revert k j. induction l as [|y t IH]; intros [|k] [|j] H; cbn [lupd nth]; auto; try congruence.
Qed.

Lemma map_lupd {A B} (g : A -> B) (l : list A) k x : map g (lupd l k x) = lupd (map g l) k (g x).
Proof. revert k. induction l as [|y t IH]; intros [|k]; cbn [lupd map]; auto. f_equal. apply IH. Qed.

Lemma lupd_same {A} (l : list A) k d : lupd l k (nth k l d) = l.
Proof. revert k. induction l as [|y t IH]; intros [|k]; cbn [lupd nth]; auto. f_equal. apply IH. Qed.

(* ---- heap ------------------------------------------------------------------------------------- *)
Lemma hget_app_old (h x : heap) l : (l < List.length h)%nat -> hget (h ++ x) l = hget h l.
Proof. intros H. unfold hget. apply app_nth1. exact H. Qed.

Lemma hget_app_new (h : heap) v : hget (h ++ [v]) (List.length h) = v.
Proof. unfold hget. rewrite app_nth2 by lia. rewrite Nat.sub_diag. reflexivity. Qed.

Lemma hset_length h l v : List.length (hset h l v) = List.length h.
Proof. apply lupd_length. Qed.

Lemma hget_hset_eq h l v : (l < List.length h)%nat -> hget (hset h l v) l = v.
Proof. apply nth_lupd_eq. Qed.

Lemma hget_hset_neq h l l' v : l' <> l -> hget (hset h l v) l' = hget h l'.
Proof. intros H. apply nth_lupd_neq. exact H. Qed.

Lemma hget_out h l : (List.length h <= l)%nat -> hget h l = [].
Proof. intros H. unfold hget. apply nth_overflow. exact H. Qed.

(* ---- frames ---------------------------------------------------------------------------------- *)
(* old cells other than p keep their content; the heap only grows *)
Definition frame_except (p : loc) (h h' : heap) : Prop :=
  (List.length h <= List.length h')%nat /\
  forall l, (l < List.length h)%nat -> l <> p -> hget h' l = hget h l.
Definition frame_all (h h' : heap) : Prop :=
  (List.length h <= List.length h')%nat /\ forall l, (l < List.length h)%nat -> hget h' l = hget h l.

Lemma frame_all_refl h : frame_all h h.
Proof. split; auto. Qed.

Lemma frame_all_except p h h' : frame_all h h' -> frame_except p h h'.
Proof. intros [A B]. split; auto. Qed.

Lemma frame_except_trans p h1 h2 h3 : frame_except p h1 h2 -> frame_except p h2 h3 -> frame_except p h1 h3.
Proof.
  intros [A1 B1] [A2 B2]. split; [lia|]. intros l Hl Hp. rewrite B2 by (auto; lia). apply B1; auto.
Qed.

Lemma frame_all_trans h1 h2 h3 : frame_all h1 h2 -> frame_all h2 h3 -> frame_all h1 h3.
Proof.
  intros [A1 B1] [A2 B2]. split; [lia|]. intros l Hl. rewrite B2 by lia. apply B1; auto.
Qed.

Lemma frame_alloc h v : frame_all h (fst (halloc h v)).
Proof.
  unfold halloc. cbn [fst]. split; [rewrite app_length; lia|]. intros l Hl. apply hget_app_old. exact Hl.
Qed.

Lemma frame_remove p h needle : frame_except p h (remove_all_matches h p needle).
Proof.
  unfold remove_all_matches. split; [rewrite hset_length; lia|]. intros l Hl Hp. apply hget_hset_neq. exact Hp.
Qed.

(* ---- the steps of validate ------------------------------------------------------------------ *)
Lemma L_set_loc_neq o f f' p : f' <> f -> L (set_loc o f p) f' = L o f'.
Proof. intros H. unfold L, set_loc. cbn [locs]. apply nth_lupd_neq. exact H. Qed.

Lemma sc_set_loc o f p : sc (set_loc o f p) = sc o.
Proof. reflexivity. Qed.

Lemma step_versions_spec h o h1 o1 :
  step_versions h o = Ok (h1, o1) ->
  exists l, filter_range (clip_lo (minVersion (sc o))) (maxVersion (sc o)) (G h o F_versions) = Ok l /\
            h1 = (h ++ [l])%list /\ o1 = set_loc o F_versions (List.length h).
Proof.
  unfold step_versions.
  destruct (filter_range (clip_lo (minVersion (sc o))) (maxVersion (sc o)) (G h o F_versions)) as [l|e]; [|discriminate].
  unfold halloc. intros H. injection H as <- <-. exists l. auto.
Qed.

Lemma step_macnames_spec self h o :
  (step_macnames self h o = (h, o) /\ ver_lt (maxVersion (sc o)) (3, 3) = false) \/
  (step_macnames self h o = ((h ++ [filter keep_old_mac (G h self F_macNames)])%list,
                             set_loc o F_macNames (List.length h)) /\ ver_lt (maxVersion (sc o)) (3, 3) = true).
Proof.
  unfold step_macnames. destruct (ver_lt (maxVersion (sc o)) (3, 3)); [right|left]; auto.
Qed.

(* filter composition *)
Lemma filter_filter {A} (p q : A -> bool) l : filter q (filter p l) = filter (fun x => p x && q x) l.
Proof.
  induction l as [|x t IH]; cbn [filter]; auto.
  destruct (p x); cbn [andb filter]; [destruct (q x); rewrite IH; reflexivity|exact IH].
Qed.

Lemma filter_true {A} (l : list A) : filter (fun _ => true) l = l.
Proof. induction l as [|x t IH]; cbn [filter]; congruence. Qed.

Lemma forallb_filter_id {A} (p : A -> bool) l : forallb p l = true -> filter p l = l.
Proof.
  induction l as [|x t IH]; cbn [forallb filter]; auto. intros H. apply andb_true_iff in H.
  destruct H as [H1 H2]. rewrite H1. f_equal. apply IH. exact H2.
Qed.

(* allocate a copy of x and then overwrite the NEW cell any number of times: old cells untouched *)
Lemma frame_hset_new h h' y : frame_all h h' -> frame_all h (hset h' (List.length h) y).
Proof.
  intros [A B]. split; [rewrite hset_length; exact A|].
  intros l Hl. rewrite hget_hset_neq by lia. apply B. exact Hl.
Qed.

Lemma frame_remove_new h h' needle : frame_all h h' -> frame_all h (remove_all_matches h' (List.length h) needle).
Proof. intros F. unfold remove_all_matches. apply frame_hset_new. exact F. Qed.

(* what _sanity_check_implementations does to the heap: a new cell holding the filtered copy *)
Lemma step_impl_spec I h o :
  exists h4, step_impl I h o = (h4, set_loc o F_cipherImplementations (List.length h)) /\
             List.length h4 = Datatypes.S (List.length h) /\ frame_all h h4 /\
             hget h4 (List.length h) = filter (impl_available I) (G h o F_cipherImplementations).
Proof.
  unfold step_impl, halloc, impl_available. set (x := G h o F_cipherImplementations).
  assert (L0 : List.length (h ++ [x]) = Datatypes.S (List.length h)) by (rewrite app_length; cbn; lia).
  assert (F0 : frame_all h (h ++ [x])) by (apply (frame_alloc h x)).
  assert (P : (List.length h < List.length (h ++ [x]))%nat) by lia.
  destruct (i_m2crypto I); destruct (i_pycrypto I); cbn [negb]; eexists; (split; [reflexivity|]).
  - split; [exact L0|]. split; [exact F0|]. rewrite hget_app_new.
    symmetry. etransitivity; [|apply filter_true]. apply filter_ext. intros a. rewrite !andb_false_r. reflexivity.
  - unfold remove_all_matches. split; [rewrite hset_length; exact L0|]. split; [apply frame_hset_new; exact F0|].
    rewrite hget_hset_eq by exact P. rewrite hget_app_new. apply filter_ext. intros a.
    rewrite andb_false_r, !andb_true_r. reflexivity.
  - unfold remove_all_matches. split; [rewrite hset_length; exact L0|]. split; [apply frame_hset_new; exact F0|].
    rewrite hget_hset_eq by exact P. rewrite hget_app_new. apply filter_ext. intros a.
    rewrite andb_false_r, !andb_true_r. cbn [negb andb]. destruct (negb (py_eq a (VStr "openssl"))); reflexivity.
  - unfold remove_all_matches. split; [rewrite !hset_length; exact L0|].
    split; [apply frame_hset_new, frame_hset_new; exact F0|].
    rewrite hget_hset_eq by (rewrite hset_length; exact P). rewrite hget_hset_eq by exact P.
    rewrite hget_app_new, filter_filter. apply filter_ext. intros a. rewrite !andb_true_r. reflexivity.
Qed.

Definition not_3des_v (v : val) : bool := negb (py_eq v (VStr "3des")).

Lemma step_ciphers_spec I h o :
  (step_ciphers I h o = (h, o) /\ i_tdes I = true) \/
  (exists h5, step_ciphers I h o = (h5, set_loc o F_cipherNames (List.length h)) /\ i_tdes I = false /\
              List.length h5 = Datatypes.S (List.length h) /\ frame_all h h5 /\
              hget h5 (List.length h) = filter not_3des_v (G h o F_cipherNames)).
Proof.
  unfold step_ciphers. destruct (i_tdes I); cbn [negb]; [left; auto|right].
  unfold halloc, remove_all_matches. set (x := G h o F_cipherNames).
  assert (L0 : List.length (h ++ [x]) = Datatypes.S (List.length h)) by (rewrite app_length; cbn; lia).
  eexists. split; [reflexivity|]. split; [reflexivity|]. split; [rewrite hset_length; exact L0|].
  split; [apply frame_hset_new; apply (frame_alloc h x)|].
  rewrite hget_hset_eq by lia. rewrite hget_app_new. reflexivity.
Qed.

Lemma wf_L h s f : wf h s = true -> (f < NF)%nat -> (L s f < List.length h)%nat.
Proof.
  unfold wf. intros H Hf. apply andb_true_iff in H. destruct H as [H1 H2].
  apply Nat.eqb_eq in H1. rewrite forallb_forall in H2.
  assert (In (L s f) (locs s)) as HI by (unfold L; apply nth_In; lia).
  apply H2 in HI. apply Nat.ltb_lt in HI. exact HI.
Qed.

(* ---- frame condition (full): validate() only allocates; every cell that existed before the call keeps
   its content, whatever the outcome ------------------------------------------------------------- *)
Lemma validate_frame T I h s h' r : validate T I h s = (h', r) -> frame_all h h'.
Proof.
  intros H. unfold validate in H.
  destruct (checks_A T h s); [|injection H as <- _; apply frame_all_refl].
  destruct (step_versions h s) as [[h1 o1]|e] eqn:E1; [|injection H as <- _; apply frame_all_refl].
  assert (F1 : frame_all h h1).
  { apply step_versions_spec in E1. destruct E1 as [l [_ [-> _]]]. apply (frame_alloc h l). }
  destruct (sanityCheckExtensions T (lists h1 o1) (sc o1)); [|injection H as <- _; exact F1].
  destruct (step_macnames s h1 o1) as [h2 o2] eqn:E2.
  assert (F2 : frame_all h h2).
  { destruct (step_macnames_spec s h1 o1) as [[E _]|[E _]]; rewrite E in E2; injection E2 as <- _; [exact F1|].
    eapply frame_all_trans; [exact F1|apply (frame_alloc h1)]. }
  destruct (checks_C T h2 o2); [|injection H as <- _; exact F2].
  destruct (step_impl_spec I h2 o2) as [h4 [E4 [_ [F4 _]]]]. rewrite E4 in H.
  assert (F4' : frame_all h h4) by (eapply frame_all_trans; eassumption).
  destruct (isnil (G h4 (set_loc o2 F_cipherImplementations (List.length h2)) F_cipherImplementations));
    [injection H as <- _; exact F4'|].
  set (o4 := set_loc o2 F_cipherImplementations (List.length h2)) in *.
  assert (F5 : frame_all h (fst (step_ciphers I h4 o4))).
  { destruct (step_ciphers_spec I h4 o4) as [[E _]|[h5 [E [_ [_ [F _]]]]]]; rewrite E; cbn [fst]; [exact F4'|].
    eapply frame_all_trans; eassumption. }
  destruct (step_ciphers I h4 o4) as [h5 o5]. cbn [fst] in F5.
  destruct (isnil (G h5 o5 F_cipherNames)); injection H as <- _; exact F5.
Qed.
