(* C19 -- lemmas: heap algebra and the frame condition of validate() *)
From Coq Require Import ZArith List Bool String Lia.
From TV Require Import Base.Prelude Model.C19_Settings Spec.C19_Domain.
Import ListNotations.
Open Scope Z_scope.

(* ---- result monad ----------------------------------------------------------------------------- *)
Lemma bind_ok {A B} (m : res A) (f : A -> res B) y :
  bind m f = Ok y -> exists x, m = Ok x /\ f x = Ok y.
Proof. destruct m; cbn [bind]; intros H; [eauto|discriminate]. Qed.

Lemma guard_ok b : guard b = Ok tt <-> b = false.
Proof. unfold guard. destruct b; split; intros H; congruence. Qed.

Lemma guard_err b e : guard b = Err e -> e = ValueError /\ b = true.
Proof. unfold guard. destruct b; intros H; [injection H as <-; auto|discriminate]. Qed.

(* ---- list update -------------------------------------------------------------------------------- *)
Lemma lupd_length {A} (l : list A) k x : List.length (lupd l k x) = List.length l.
Proof. revert k. induction l as [|y t IH]; intros [|k]; cbn [lupd List.length]; auto. Qed.

Lemma nth_lupd_eq {A} (l : list A) k x d : (k < List.length l)%nat -> nth k (lupd l k x) d = x.
Proof.
  revert k. induction l as [|y t IH]; intros [|k] H; cbn [lupd nth List.length] in *; try lia; auto.
  apply IH. lia.
Qed.

Lemma nth_lupd_neq {A} (l : list A) k j x d : j <> k -> nth j (lupd l k x) d = nth j l d.
Proof.
  revert k j. induction l as [|y t IH]; intros [|k] [|j] H; cbn [lupd nth]; auto; try congruence.
Qed.

Lemma map_lupd {A B} (g : A -> B) (l : list A) k x : map g (lupd l k x) = lupd (map g l) k (g x).
Proof. revert k. induction l as [|y t IH]; intros [|k]; cbn [lupd map]; auto. f_equal. apply IH. Qed.

Lemma lupd_same {A} (l : list A) k d : lupd l k (nth k l d) = l.
Proof. revert k. induction l as [|y t IH]; intros [|k]; cbn [lupd nth]; auto. f_equal. apply IH. Qed.

(* ---- heap ------------------------------------------------------------------------------------- *)
Lemma hget_app_old (h x : heap) l : (l < List.length h)%nat -> hget (h ++ x) l = hget h l.
Proof. intros H. unfold hget. apply app_nth1. exact H. Qed.

Lemma hget_app_new (h : heap) v : hget (h ++ [v]) (List.length h) = v.
Proof. unfold hget. rewrite app_nth2 by lia. rewrite Nat.sub_diag. reflexivity. Qed.

Lemma hset_length h l v : List.length (hset h l v) = List.length h.
Proof. apply lupd_length. Qed.

Lemma hget_hset_eq h l v : (l < List.length h)%nat -> hget (hset h l v) l = v.
Proof. apply nth_lupd_eq. Qed.

Lemma hget_hset_neq h l l' v : l' <> l -> hget (hset h l v) l' = hget h l'.
Proof. intros H. apply nth_lupd_neq. exact H. Qed.

Lemma hget_out h l : (List.length h <= l)%nat -> hget h l = [].
Proof. intros H. unfold hget. apply nth_overflow. exact H. Qed.

(* ---- frames ---------------------------------------------------------------------------------- *)
(* old cells other than p keep their content; the heap only grows *)
Definition frame_except (p : loc) (h h' : heap) : Prop :=
  (List.length h <= List.length h')%nat /\
  forall l, (l < List.length h)%nat -> l <> p -> hget h' l = hget h l.
Definition frame_all (h h' : heap) : Prop :=
  (List.length h <= List.length h')%nat /\ forall l, (l < List.length h)%nat -> hget h' l = hget h l.

Lemma frame_all_refl h : frame_all h h.
Proof. split; auto. Qed.

Lemma frame_all_except p h h' : frame_all h h' -> frame_except p h h'.
Proof. intros [A B]. split; auto. Qed.

Lemma frame_except_trans p h1 h2 h3 : frame_except p h1 h2 -> frame_except p h2 h3 -> frame_except p h1 h3.
Proof.
  intros [A1 B1] [A2 B2]. split; [lia|]. intros l Hl Hp. rewrite B2 by (auto; lia). apply B1; auto.
Qed.

Lemma frame_all_trans h1 h2 h3 : frame_all h1 h2 -> frame_all h2 h3 -> frame_all h1 h3.
Proof.
  intros [A1 B1] [A2 B2]. split; [lia|]. intros l Hl. rewrite B2 by lia. apply B1; auto.
Qed.

Lemma frame_alloc h v : frame_all h (fst (halloc h v)).
Proof.
  unfold halloc. cbn [fst]. split; [rewrite app_length; lia|]. intros l Hl. apply hget_app_old. exact Hl.
Qed.

Lemma frame_remove p h needle : frame_except p h (remove_all_matches h p needle).
Proof.
  unfold remove_all_matches. split; [rewrite hset_length; lia|]. intros l Hl Hp. apply hget_hset_neq. exact Hp.
Qed.

(* ---- the steps of validate ------------------------------------------------------------------ *)
Lemma L_set_loc_neq o f f' p : f' <> f -> L (set_loc o f p) f' = L o f'.
Proof. intros H. unfold L, set_loc. cbn [locs]. apply nth_lupd_neq. exact H. Qed.

Lemma sc_set_loc o f p : sc (set_loc o f p) = sc o.
Proof. reflexivity. Qed.

Lemma step_versions_spec h o h1 o1 :
  step_versions h o = Ok (h1, o1) ->
  (h1 = h /\ o1 = o /\ ver_lt (maxVersion (sc o)) (3, 4) = false) \/
  (exists l, filter_lt34 (G h o F_versions) = Ok l /\ h1 = (h ++ [l])%list /\
             o1 = set_loc o F_versions (List.length h) /\ ver_lt (maxVersion (sc o)) (3, 4) = true).
Proof.
  unfold step_versions. destruct (ver_lt (maxVersion (sc o)) (3, 4)).
  - destruct (filter_lt34 (G h o F_versions)) as [l|e]; [|discriminate].
    unfold halloc. intros H. injection H as <- <-. right. exists l. auto.
  - intros H. injection H as <- <-. left. auto.
Qed.

Lemma step_macnames_spec self h o :
  (step_macnames self h o = (h, o) /\ ver_lt (maxVersion (sc o)) (3, 3) = false) \/
  (step_macnames self h o = ((h ++ [filter keep_old_mac (G h self F_macNames)])%list,
                             set_loc o F_macNames (List.length h)) /\ ver_lt (maxVersion (sc o)) (3, 3) = true).
Proof.
  unfold step_macnames. destruct (ver_lt (maxVersion (sc o)) (3, 3)); [right|left]; auto.
Qed.

Lemma step_ciphers_spec I h o :
  (step_ciphers I h o = (h, o) /\ i_tdes I = true) \/
  (step_ciphers I h o = (hset (h ++ [G h o F_cipherNames]) (List.length h)
                              (filter (fun v => negb (py_eq v (VStr "3des"))) (G h o F_cipherNames)),
                         set_loc o F_cipherNames (List.length h)) /\ i_tdes I = false).
Proof.
  unfold step_ciphers. destruct (i_tdes I); cbn [negb]; [left; auto|right]. split; [|reflexivity].
  unfold halloc, remove_all_matches. rewrite hget_app_new. reflexivity.
Qed.

Lemma frame_step_impl I h o : frame_except (L o F_cipherImplementations) h (step_impl I h o).
Proof.
  unfold step_impl.
  destruct (negb (i_m2crypto I)); destruct (negb (i_pycrypto I)).
  - eapply frame_except_trans; apply frame_remove.
  - apply frame_remove.
  - apply frame_remove.
  - apply frame_all_except, frame_all_refl.
Qed.

Lemma frame_step_ciphers I h o : frame_all h (fst (step_ciphers I h o)).
Proof.
  destruct (step_ciphers_spec I h o) as [[E _]|[E _]]; rewrite E; cbn [fst]; [apply frame_all_refl|].
  split.
  - rewrite hset_length, app_length. lia.
  - intros l Hl. rewrite hget_hset_neq by lia. apply hget_app_old. exact Hl.
Qed.

(* filter composition used for the in-place filtering *)
Lemma filter_filter {A} (p q : A -> bool) l : filter q (filter p l) = filter (fun x => p x && q x) l.
Proof.
  induction l as [|x t IH]; cbn [filter]; auto.
  destruct (p x); cbn [andb filter]; [destruct (q x); rewrite IH; reflexivity|exact IH].
Qed.

Lemma filter_true {A} (l : list A) : filter (fun _ => true) l = l.
Proof. induction l as [|x t IH]; cbn [filter]; congruence. Qed.

Lemma step_impl_cell I h o :
  (L o F_cipherImplementations < List.length h)%nat ->
  hget (step_impl I h o) (L o F_cipherImplementations)
  = filter (impl_available I) (hget h (L o F_cipherImplementations)).
Proof.
  intros Hl. unfold step_impl, remove_all_matches, impl_available.
  set (p := L o F_cipherImplementations) in *.
  destruct (i_m2crypto I); destruct (i_pycrypto I); cbn [negb].
  - symmetry. etransitivity; [|apply filter_true]. apply filter_ext. intros a.
    rewrite !andb_false_r. reflexivity.
  - rewrite hget_hset_eq by exact Hl. apply filter_ext. intros a. rewrite andb_false_r, !andb_true_r. reflexivity.
  - rewrite hget_hset_eq by exact Hl. apply filter_ext. intros a. rewrite andb_false_r, !andb_true_r.
    cbn [negb andb]. destruct (negb (py_eq a (VStr "openssl"))); reflexivity.
  - rewrite hget_hset_eq by (rewrite hset_length; exact Hl). rewrite hget_hset_eq by exact Hl.
    rewrite filter_filter. apply filter_ext. intros a. rewrite !andb_true_r. reflexivity.
Qed.

Lemma step_impl_length I h o : List.length (step_impl I h o) = List.length h.
Proof.
  unfold step_impl, remove_all_matches.
  destruct (negb (i_m2crypto I)); destruct (negb (i_pycrypto I)); rewrite ?hset_length; reflexivity.
Qed.

(* ---- frame condition ------------------------------------------------------------------------- *)
Lemma wf_L h s f : wf h s = true -> (f < NF)%nat -> (L s f < List.length h)%nat.
Proof.
  unfold wf. intros H Hf. apply andb_true_iff in H. destruct H as [H1 H2].
  apply Nat.eqb_eq in H1. rewrite forallb_forall in H2.
  assert (In (L s f) (locs s)) as HI by (unfold L; apply nth_In; lia).
  apply H2 in HI. apply Nat.ltb_lt in HI. exact HI.
Qed.

Lemma validate_frame T I h s h' r :
  wf h s = true -> validate T I h s = (h', r) ->
  frame_except (L s F_cipherImplementations) h h' /\
  (hget h' (L s F_cipherImplementations) = hget h (L s F_cipherImplementations) \/
   hget h' (L s F_cipherImplementations) = filter (impl_available I) (hget h (L s F_cipherImplementations))).
Proof.
  intros W H. unfold validate in H.
  assert (Hp : (L s F_cipherImplementations < List.length h)%nat) by (apply wf_L; [exact W|unfold NF, F_cipherImplementations; lia]).
  set (p := L s F_cipherImplementations) in *.
  destruct (checks_A T h s); [|injection H as <- _; split; [apply frame_all_except, frame_all_refl|left; reflexivity]].
  destruct (step_versions h s) as [[h1 o1]|e] eqn:E1;
    [|injection H as <- _; split; [apply frame_all_except, frame_all_refl|left; reflexivity]].
  assert (F1 : frame_all h h1 /\ L o1 F_cipherImplementations = p /\ L o1 F_cipherNames = L s F_cipherNames).
  { apply step_versions_spec in E1. destruct E1 as [[-> [-> _]]|[l [_ [-> [-> _]]]]].
    - split; [apply frame_all_refl|auto].
    - split; [apply (frame_alloc h l)|]. split; apply L_set_loc_neq; discriminate. }
  destruct F1 as [F1 [P1 C1]].
  destruct (sanityCheckExtensions T (lists h1 o1) (sc o1));
    [|injection H as <- _; split; [apply frame_all_except, F1|left; apply F1; exact Hp]].
  destruct (step_macnames s h1 o1) as [h2 o2] eqn:E2.
  assert (F2 : frame_all h h2 /\ L o2 F_cipherImplementations = p).
  { destruct (step_macnames_spec s h1 o1) as [[E _]|[E _]]; rewrite E in E2; injection E2 as <- <-.
    - split; [exact F1|exact P1].
    - split; [eapply frame_all_trans; [exact F1|apply (frame_alloc h1)]|].
      rewrite L_set_loc_neq by discriminate. exact P1. }
  destruct F2 as [F2 P2].
  destruct (checks_C T h2 o2);
    [|injection H as <- _; split; [apply frame_all_except, F2|left; apply F2; exact Hp]].
  assert (Hp2 : (p < List.length h2)%nat) by (destruct F2 as [A _]; lia).
  assert (F4 : frame_except p h (step_impl I h2 o2)).
  { eapply frame_except_trans; [apply frame_all_except, F2|]. rewrite <- P2. apply frame_step_impl. }
  assert (C4 : hget (step_impl I h2 o2) p = filter (impl_available I) (hget h p)).
  { rewrite <- P2. rewrite step_impl_cell by (rewrite P2; exact Hp2). rewrite P2.
    f_equal. apply F2. exact Hp. }
  destruct (isnil (G (step_impl I h2 o2) o2 F_cipherImplementations));
    [injection H as <- _; split; [exact F4|right; exact C4]|].
  destruct (step_ciphers I (step_impl I h2 o2) o2) as [h5 o5] eqn:E5.
  assert (F5 : frame_all (step_impl I h2 o2) h5).
  { pose proof (frame_step_ciphers I (step_impl I h2 o2) o2) as F. rewrite E5 in F. exact F. }
  assert (R : frame_except p h h5 /\ hget h5 p = filter (impl_available I) (hget h p)).
  { split; [eapply frame_except_trans; [exact F4|apply frame_all_except, F5]|].
    rewrite <- C4. apply F5. rewrite step_impl_length. exact Hp2. }
  destruct (isnil (G h5 o5 F_cipherNames)); injection H as <- _; (split; [apply R|right; apply R]).
Qed.

Lemma forallb_filter_id {A} (p : A -> bool) l : forallb p l = true -> filter p l = l.
Proof.
  induction l as [|x t IH]; cbn [forallb filter]; auto. intros H. apply andb_true_iff in H.
  destruct H as [H1 H2]. rewrite H1. f_equal. apply IH. exact H2.
Qed.

Lemma frame_when_available T I h s h' r :
  wf h s = true -> validate T I h s = (h', r) ->
  forallb (impl_available I) (hget h (L s F_cipherImplementations)) = true ->
  forall l, (l < List.length h)%nat -> hget h' l = hget h l.
Proof.
  intros W H A l Hl. destruct (validate_frame T I h s h' r W H) as [[_ F] C].
  destruct (Nat.eq_dec l (L s F_cipherImplementations)) as [->|N]; [|apply F; assumption].
  destruct C as [C|C]; [exact C|]. rewrite C. apply forallb_filter_id. exact A.
Qed.
