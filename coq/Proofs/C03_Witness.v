(* C03 -- concrete configurations: satisfiability examples and refutation witnesses, all by
   computation on the model with the regenerated tables and default settings. *)
From Coq Require Import ZArith List Bool Lia.
From TV Require Import Base.Prelude Gen.C03Tables Model.C03_Negotiate Gen.C03Defaults Proofs.C03_Negotiate.
Import ListNotations.
Open Scope Z_scope.

Definition D := default_settings.

(* A refutation that concerns a defect for which a repair is proposed: it is stated for the tree as
   generated -- if the repair flag regenerated from the tree is set the statement is vacuous (and the
   conditional positive lemmas `*_repaired` of Proofs/C03_Negotiate.v apply instead). *)
Definition refuted_unless (repaired : bool) (P : Prop) : Prop := if repaired then True else P.
Ltac by_flag f tac := unfold refuted_unless, f; cbv iota; first [exact I | tac].

(* copy of D with the version / MAC part replaced (what validate() returns for a lower maxVersion) *)
Definition with_versions (st : Settings) (lo hi : Z) (vs macs : list Z) : Settings :=
  {| st_minV := lo; st_maxV := hi; st_versions := vs; st_ciphers := st_ciphers st; st_macs := macs;
     st_kxs := st_kxs st; st_curves := st_curves st; st_dhgroups := st_dhgroups st; st_shares := st_shares st;
     st_default_curve := st_default_curve st; st_rsa_hashes := st_rsa_hashes st;
     st_rsa_schemes := st_rsa_schemes st; st_ecdsa_hashes := st_ecdsa_hashes st;
     st_dsa_hashes := st_dsa_hashes st; st_more_sigs := st_more_sigs st; st_min_key := st_min_key st;
     st_max_key := st_max_key st; st_etm := st_etm st; st_ems := st_ems st; st_req_ems := st_req_ems st;
     st_rsl := st_rsl st; st_psks := st_psks st; st_psk_modes := st_psk_modes st; st_dh_bits := st_dh_bits st |}.

Definition with_keys (st : Settings) (kxs dhg : list Z) (lo hi : Z) : Settings :=
  {| st_minV := st_minV st; st_maxV := st_maxV st; st_versions := st_versions st; st_ciphers := st_ciphers st;
     st_macs := st_macs st; st_kxs := kxs; st_curves := st_curves st; st_dhgroups := dhg; st_shares := st_shares st;
     st_default_curve := st_default_curve st; st_rsa_hashes := st_rsa_hashes st;
     st_rsa_schemes := st_rsa_schemes st; st_ecdsa_hashes := st_ecdsa_hashes st;
     st_dsa_hashes := st_dsa_hashes st; st_more_sigs := st_more_sigs st; st_min_key := lo;
     st_max_key := hi; st_etm := st_etm st; st_ems := st_ems st; st_req_ems := st_req_ems st;
     st_rsl := st_rsl st; st_psks := st_psks st; st_psk_modes := st_psk_modes st; st_dh_bits := st_dh_bits st |}.

Definition rsa2048 := {| ct_alg := 0; ct_bits := 2048; ct_curve := 0; ct_id := 0; ct_small_key := false |}.
Definition rsa1024 := {| ct_alg := 0; ct_bits := 1024; ct_curve := 0; ct_id := 8; ct_small_key := true |}.
Definition ecdsa256 := {| ct_alg := 2; ct_bits := 256; ct_curve := 23; ct_id := 2; ct_small_key := false |}.
Definition dsa2048 := {| ct_alg := 5; ct_bits := 2048; ct_curve := 0; ct_id := 7; ct_small_key := false |}.

Definition client_of (st : Settings) (flavour : Z) (cert : option Cert) (alpn : option (list Z)) : Client :=
  {| cl_set := st; cl_flavour := flavour; cl_cert := cert; cl_alpn := alpn; cl_npn := None; cl_sni := Some 1;
     cl_srp_user := 0; cl_fallback := false; cl_ticket := None; cl_hello2_len := 0 |}.
Definition server_of (st : Settings) (cert : option Cert) (anon req : bool) (alpn : option (list Z)) : Server :=
  {| sv_set := st; sv_cert := cert; sv_srp := None; sv_anon := anon; sv_req_cert := req; sv_alpn := alpn;
     sv_npn := None; sv_nst_len := 0; sv_ticket := None |}.


(* the default pair completes in TLS 1.3 with TLS_AES_256_GCM_SHA384 on secp256r1 *)
Example default_pair_negotiates :
  match negotiate (client_of D 0 None None) (server_of D (Some rsa2048) false false None) with
  | Ok o => vw_version (oc_server o) = 4 /\ vw_suite (oc_server o) = 4866 /\ fl_group (oc_flight o) = Some 23
  | Err _ => False end.
Proof. vm_compute. repeat split; reflexivity. Qed.

Example tls12_pair_negotiates :
  match negotiate (client_of (with_versions D 1 3 [3; 2; 1] (st_macs D)) 0 None (Some [1; 2]))
                  (server_of D (Some rsa2048) false false (Some [2; 1])) with
  | Ok o => vw_version (oc_server o) = 3 /\ vw_alpn (oc_server o) = Some 1 /\ vw_etm (oc_client o) = false
  | Err _ => False end.
Proof. vm_compute. repeat split; reflexivity. Qed.

Example disjoint_ciphers_fail :
  match negotiate (client_of (with_keys D [] (st_dhgroups D) 1023 8193) 2 None None)
                  (server_of D None true false None) with
  | Err (OtherExn k) => 2000 < k < 2900     (* the server refuses with an alert *)
  | _ => False end.
Proof. vm_compute. split; reflexivity. Qed.

(* 1. a server whose maxVersion is TLS 1.1 (its `versions` list is only stripped of TLS 1.3 by
      validate()) negotiates TLS 1.2 with a default client *)
Definition srv_max11 := server_of (with_versions D 1 2 [3; 2; 1] [0]) (Some rsa2048) false false None.
Lemma witness_server_version : refuted_unless fix_versions_clipped
  (exists o, negotiate (client_of D 0 None None) srv_max11 = Ok o /\
             st_maxV (sv_set srv_max11) < vw_version (oc_server o)).
Proof.
  by_flag fix_versions_clipped ltac:(eexists; split; [vm_compute; reflexivity|vm_compute; reflexivity]).
Qed.

(* 2. a client that demands 3072-bit keys completes an anonymous DH handshake over 2048 bits *)
Definition cl_dh3072 := client_of (with_keys (with_versions D 1 3 [3; 2; 1] (st_macs D)) [7] [] 3072 8193) 2 None None.
Definition srv_anon := server_of (with_keys D [7] (st_dhgroups D) 1023 8193) None true false None.
Lemma witness_dh_size : refuted_unless fix_dh_size
  (exists o b, negotiate cl_dh3072 srv_anon = Ok o /\ si_dh_bits (vw_secret (oc_client o)) = Some b /\
               b < st_min_key (cl_set cl_dh3072)).
Proof.
  by_flag fix_dh_size ltac:(eexists; eexists; split; [vm_compute; reflexivity|]; split; [vm_compute; reflexivity|vm_compute; reflexivity]).
Qed.

(* 3. a TLS 1.3 server that demands 4096-bit keys records a 1024-bit RSA client certificate *)
Definition srv_min4096 := server_of (with_keys D (st_kxs D) (st_dhgroups D) 4096 8193) (Some ecdsa256) false true None.
Definition cl_rsa1024 := client_of D 0 (Some rsa1024) None.
Lemma witness_client_key_tls13 : refuted_unless fix_tls13_client_key
  (exists o, negotiate cl_rsa1024 srv_min4096 = Ok o /\
             vw_client_chain (oc_server o) = Some (ct_id rsa1024) /\ oc_client_cert o = Some rsa1024 /\
             ct_bits rsa1024 < st_min_key (sv_set srv_min4096)).
Proof.
  by_flag fix_tls13_client_key ltac:(eexists; split; [vm_compute; reflexivity|]; repeat split; vm_compute; reflexivity).
Qed.

(* 4. TLS 1.3: the client stores its configured chain although the server never asked for it *)
Lemma witness_client_chain_view :
  exists o, negotiate cl_rsa1024 (server_of D (Some rsa2048) false false None) = Ok o /\
            vw_client_chain (oc_client o) <> vw_client_chain (oc_server o).
Proof. eexists. split; [vm_compute; reflexivity|vm_compute; discriminate]. Qed.

(* 5. DHE_DSS: the client stores the server's chain, the server's own session does not *)
Lemma witness_server_chain_view : refuted_unless fix_dhe_dsa_chain
  (exists o, negotiate (client_of (with_versions D 1 3 [3; 2; 1] (st_macs D)) 0 None None)
                       (server_of D (Some dsa2048) false false None) = Ok o /\
             vw_server_chain (oc_client o) <> vw_server_chain (oc_server o)).
Proof.
  by_flag fix_dhe_dsa_chain ltac:(eexists; split; [vm_compute; reflexivity|vm_compute; discriminate]).
Qed.

(* 6. a handshake that ends without any alert: settings that validate() accepts (DSA hashes only, TLS 1.3
      only) leave no signature algorithm to advertise and the client dies on `assert sig_list` *)
Definition with_sigs (st : Settings) (lo : Z) (vs rsa ecdsa more : list Z) : Settings :=
  {| st_minV := lo; st_maxV := st_maxV st; st_versions := vs; st_ciphers := st_ciphers st;
     st_macs := st_macs st; st_kxs := st_kxs st; st_curves := st_curves st; st_dhgroups := st_dhgroups st;
     st_shares := st_shares st; st_default_curve := st_default_curve st; st_rsa_hashes := rsa;
     st_rsa_schemes := st_rsa_schemes st; st_ecdsa_hashes := ecdsa;
     st_dsa_hashes := st_dsa_hashes st; st_more_sigs := more; st_min_key := st_min_key st;
     st_max_key := st_max_key st; st_etm := st_etm st; st_ems := st_ems st; st_req_ems := st_req_ems st;
     st_rsl := st_rsl st; st_psks := st_psks st; st_psk_modes := st_psk_modes st; st_dh_bits := st_dh_bits st |}.
Definition cl_dsa_only := client_of (with_sigs D 4 [4] [] [] []) 0 None None.
Lemma witness_no_alert : refuted_unless fix_sigalg_assert
  (negotiate cl_dsa_only (server_of D (Some rsa2048) false false None) = Err (OtherExn 1900)).
Proof. by_flag fix_sigalg_assert ltac:(vm_compute; reflexivity). Qed.

(* ALPN offered to a TLS 1.3 server that has none configured: ignored, the handshake completes *)
Example alpn_ignored_without_server_list :
  match negotiate (client_of D 0 None (Some [1])) (server_of D (Some rsa2048) false false None) with
  | Ok o => vw_alpn (oc_client o) = None /\ vw_alpn (oc_server o) = None
  | Err _ => False end.
Proof. vm_compute. split; reflexivity. Qed.

(* ---- statements of Props/C03.v that need more than one step ---------------------------- *)
Lemma views_agree_refuted_client_chain_pf :
  exists c s o, negotiate c s = Ok o /\ vw_client_chain (oc_client o) <> vw_client_chain (oc_server o).
Proof.
  exists cl_rsa1024, (server_of D (Some rsa2048) false false None). exact witness_client_chain_view.
Qed.

Lemma views_agree_refuted_server_chain_pf : refuted_unless fix_dhe_dsa_chain
  (exists c s o, negotiate c s = Ok o /\ vw_server_chain (oc_client o) <> vw_server_chain (oc_server o)).
Proof.
  pose proof witness_server_chain_view as W. unfold refuted_unless in *. destruct fix_dhe_dsa_chain; [exact I|].
  exists (client_of (with_versions D 1 3 [3; 2; 1] (st_macs D)) 0 None None), (server_of D (Some dsa2048) false false None).
  exact W.
Qed.

Lemma exporter_agrees_pf : forall prf10 prf12 hkdf c s o label len, negotiate c s = Ok o ->
  exporter prf10 prf12 hkdf (oc_client o) label len = exporter prf10 prf12 hkdf (oc_server o) label len.
Proof.
  intros prf10 prf12 hkdf c s o label len H. apply exporter_same. exact (views_agree_core_all c s o H).
Qed.

Lemma selected_within_both_partial_pf : forall c s o, negotiate c s = Ok o ->
  let v := vw_version (oc_server o) in let suite := vw_suite (oc_server o) in
  (* version *)
  (st_minV (cl_set c) <= v /\ (v <= st_maxV (cl_set c) \/ In v (st_versions (cl_set c)))) /\
  (versions_clipped (sv_set s) -> st_minV (sv_set s) <= v <= st_maxV (sv_set s)) /\
  (* suite: MAC class, cipher and key exchange each enabled by name on both sides; defined for v *)
  suite_within (cl_set c) (st_maxV (cl_set c)) suite /\ suite_within (sv_set s) v suite /\
  suite_in_version v v suite = true /\
  (* group (ECDHE curve, RFC 7919 group, TLS 1.3 key share group) *)
  (forall g, fl_group (oc_flight o) = Some g ->
     In g (server_groups_policy (sv_set s)) /\ In g (client_groups_policy (cl_set c))) /\
  (* signature scheme of ServerKeyExchange / CertificateVerify *)
  (forall sg, fl_sig (oc_flight o) = Some sg ->
     In sg (client_sigalgs (cl_set c)) /\
     In sg (sig_hashes_to_list (sv_set s) false (sv_cert s) (if v <=? 3 then 3 else v))) /\
  (* peer key sizes *)
  (forall sc, fl_cert (oc_flight o) = Some sc -> sized_key sc ->
     st_min_key (cl_set c) <= ct_bits sc <= st_max_key (cl_set c)) /\
  (forall id, v <= 3 -> vw_client_chain (oc_server o) = Some id ->
     exists mc, oc_client_cert o = Some mc /\ ct_id mc = id /\
                (sized_key mc -> st_min_key (sv_set s) <= ct_bits mc <= st_max_key (sv_set s))).
Proof.
  intros c s o H. cbn zeta.
  split; [exact (version_within_client c s o H)|].
  split; [exact (version_within_server c s o H)|].
  destruct (suite_within_both c s o H) as [A [B C]].
  split; [exact A|]. split; [exact B|]. split; [exact C|].
  split; [intros g; exact (group_within_both c s o g H)|].
  split; [intros sg; exact (sig_within_both c s o sg H)|].
  split; [intros sc; exact (server_key_size_within_client c s o sc H)|].
  intros id; exact (client_key_size_within_server c s o id H).
Qed.

Lemma selected_within_both_refuted_server_version_pf : refuted_unless fix_versions_clipped
  (exists c s o, negotiate c s = Ok o /\ st_maxV (sv_set s) < vw_version (oc_server o)).
Proof.
  pose proof witness_server_version as W. unfold refuted_unless in *. destruct fix_versions_clipped; [exact I|].
  exists (client_of D 0 None None), srv_max11. exact W.
Qed.

Lemma selected_within_both_refuted_dh_size_pf : refuted_unless fix_dh_size
  (exists c s o b, negotiate c s = Ok o /\ si_dh_bits (vw_secret (oc_client o)) = Some b /\
                   b < st_min_key (cl_set c)).
Proof.
  pose proof witness_dh_size as W. unfold refuted_unless in *. destruct fix_dh_size; [exact I|].
  exists cl_dh3072, srv_anon. exact W.
Qed.

Lemma selected_within_both_refuted_client_key_tls13_pf : refuted_unless fix_tls13_client_key
  (exists c s o mc, negotiate c s = Ok o /\ vw_client_chain (oc_server o) = Some (ct_id mc) /\
                    oc_client_cert o = Some mc /\ ct_bits mc < st_min_key (sv_set s)).
Proof.
  pose proof witness_client_key_tls13 as W. unfold refuted_unless in *. destruct fix_tls13_client_key; [exact I|].
  destruct W as [o H]. exists cl_rsa1024, srv_min4096, o, rsa1024. exact H.
Qed.

Lemma failure_is_alert_refuted_pf : refuted_unless fix_sigalg_assert
  (exists c s, negotiate c s = Err (OtherExn 1900)).
Proof.
  pose proof witness_no_alert as W. unfold refuted_unless in *. destruct fix_sigalg_assert; [exact I|].
  exists cl_dsa_only, (server_of D (Some rsa2048) false false None). exact W.
Qed.

Lemma default_pair_pf : exists o, negotiate (client_of D 0 None None) (server_of D (Some rsa2048) false false None) = Ok o
                                 /\ vw_version (oc_server o) = 4.
Proof.
  eexists. split; vm_compute; reflexivity.
Qed.

Lemma default_settings_clipped_pf : versions_clipped D.
Proof.
  split; [vm_compute; discriminate|].
  intros x Hx. vm_compute in Hx. repeat (destruct Hx as [<-|Hx]; [vm_compute; split; discriminate|]). destruct Hx.
Qed.

(* ---- resumed connections ---------------------------------------------------------------------- *)
From TV Require Import Model.C03_Resume Proofs.C03_Resume.
Definition D12 := with_versions D 1 3 [3; 2; 1] (st_macs D).
(* first connection negotiates ALPN protocol 1; the resumed one offers no ALPN: both ends report none
   (until /repo 7678352 the client kept reporting 1: former finding C03-15) *)
Example resumed_without_alpn :
  match negotiate (client_of D12 0 None (Some [1])) (server_of D (Some rsa2048) false false (Some [1])) with
  | Ok o => match resume_legacy false (client_of D12 0 None None) (server_of D (Some rsa2048) false false (Some [1]))
                                (oc_client o) (oc_server o) with
            | Ok r => rs_resumed r = true /\ vw_alpn (rs_client r) = None /\ vw_alpn (rs_server r) = None
            | Err _ => False end
  | Err _ => False end.
Proof. vm_compute. repeat split; reflexivity. Qed.

Example resumed_with_limits :
  match negotiate (client_of D12 0 None None) (server_of D (Some rsa2048) false false None) with
  | Ok o => match resume_legacy true (client_of D12 0 None None) (server_of D (Some rsa2048) false false None)
                                (oc_client o) (oc_server o) with
            | Ok r => rs_resumed r = true /\ vw_send_limit (rs_client r) = 16384
            | Err _ => False end
  | Err _ => False end.
Proof. vm_compute. split; reflexivity. Qed.
