(* protect/unprotect through the dispatchers of sendRecord/recvRecord; records in flight;
   the two-endpoint system under an arbitrary schedule; the readAsync buffer. *)
From Coq Require Import ZArith List Bool Lia.
From TV Require Import Base.Prelude Spec.CbcCheck Model.C01_RecordPipe Spec.C01_Contracts
  Proofs.C01_Lists Proofs.C01_Cbc Proofs.C01_Fragment Proofs.C01_RoundTrip.
Import ListNotations.
Open Scope Z_scope.

Definition SEQ_MAX : Z := 18446744073709551616.

Section Disp.
Context {CS : Type}.
Variable P : Prim CS.
Variable R : CS -> CS -> Prop.
Variable c : Cfg.

(* plaintext carried by a wire record of this configuration: body length minus the
   overhead added by the protection path (the harness reads it off real record headers) *)
Definition overhead_max (md : mode) : Z :=
  match md with
  | MStream => ds P
  | MCbc => ds P + 2 * c_bs c
  | MEtm => ds P + 2 * (if c_has_enc c then c_bs c else 0)
  | MAead12 => c_tag c + 8
  | MTls13 => c_tag c
  end.

Ltac legacy_send Hv H13 Ha :=
  unfold protect;
  assert (Hn13 : is_tls13_plus c = false) by (unfold is_tls13_plus; rewrite (ver_macable_not13 _ Hv); reflexivity);
  rewrite Hn13; cbn [andb rbind]; rewrite (ver_macable_not13 _ Hv), Ha; cbn [andb]; rewrite ?andb_false_r.

Lemma protect_unprotect_legacy md (s r : St CS) ty data :
  md = MStream \/ md = MCbc \/ md = MEtm ->
  mode_ok P R md c -> sync R s r -> rec_ok c ty data -> st_seq s < SEQ_MAX ->
  exists s' w r',
    protect c P s (ty, data) = ROk (s', w) /\
    unprotect c P r w = ROk (r', (ty, data)) /\
    sync R s' r' /\ st_seq s' = st_seq s + 1 /\
    fst (fst w) = ty /\ zlen data <= zlen (snd w) <= zlen data + overhead_max md.
Proof.
  intros Hmd Hmode Hsync [Hty Hlen] Hs.
  assert (Hb : is_byte ty = true) by (apply is_byte_range; lia).
  pose proof Hmode as [[Hl1 [Hl2 Hl3]] Hrest].
  assert (Hd16 : zlen data <= 16384) by lia.
  pose proof (zlen_nonneg data) as Hd0.
  destruct Hmd as [->|[->| ->]].
  - (* stream *)
    destruct (stream_rt P R c s r ty data Hmode Hsync Hb Hd16 Hs) as [s' [body [r' [Hsend [Hbl [Hrecv [Hsy Hsq]]]]]]].
    destruct Hrest as [[Hv [H13 [Ha [Hm [Hml Hds]]]]] [Hetm [Hblk _]]].
    legacy_send Hv H13 Ha. rewrite Hetm, Hsend. cbn [rbind]. rewrite Hb. cbn [negb orb].
    destruct (65536 <=? zlen body) eqn:E; [lia|].
    eexists _, _, _. split; [reflexivity|]. split.
    + unfold unprotect. destruct (zlen body >? c_recv_limit c + 2048) eqn:E1; [lia|].
      rewrite H13, Hn13, Ha, Hetm, Hblk. cbn [andb]. rewrite !andb_false_r. rewrite Hrecv. cbn [rbind].
      destruct (zlen data >? c_recv_limit c) eqn:E2; [lia|]. reflexivity.
    + split; [exact Hsy|]. split; [exact Hsq|]. cbn [fst snd]. split; [reflexivity|]. cbn [overhead_max]. lia.
  - (* cbc *)
    destruct (cbc_rt P R c s r ty data Hmode Hsync Hb Hd16 Hs) as [s' [body [r' [Hsend [Hbl [Hrecv [Hsy Hsq]]]]]]].
    destruct Hrest as [[Hv [H13 [Ha [Hm [Hml Hds]]]]] [Hetm [Henc [Hblk [Hbs _]]]]].
    legacy_send Hv H13 Ha. rewrite Hetm, Hsend. cbn [rbind]. rewrite Hb. cbn [negb orb].
    destruct (65536 <=? zlen body) eqn:E; [lia|].
    eexists _, _, _. split; [reflexivity|]. split.
    + unfold unprotect. destruct (zlen body >? c_recv_limit c + 2048) eqn:E1; [lia|].
      rewrite H13, Hn13, Ha, Hetm, Hblk, Henc. cbn [andb]. rewrite Hrecv. cbn [rbind].
      destruct (zlen data >? c_recv_limit c) eqn:E2; [lia|]. reflexivity.
    + split; [exact Hsy|]. split; [exact Hsq|]. cbn [fst snd]. split; [reflexivity|]. cbn [overhead_max]. lia.
  - (* encrypt-then-MAC *)
    destruct (etm_rt P R c s r ty data Hmode Hsync Hb Hd16 Hs) as [s' [body [r' [Hsend [Hbl [Hrecv [Hsy Hsq]]]]]]].
    destruct Hrest as [[Hv [H13 [Ha [Hm [Hml Hds]]]]] [Hetm Hblk]].
    assert (Hbs : (if c_has_enc c then c_bs c else 0) <= 256).
    { destruct (c_has_enc c); [|lia]. destruct (Hblk eq_refl) as [_ [Hbs _]]. lia. }
    legacy_send Hv H13 Ha. rewrite Hetm, Hsend. cbn [rbind]. rewrite Hb. cbn [negb orb].
    destruct (65536 <=? zlen body) eqn:E; [lia|].
    eexists _, _, _. split; [reflexivity|]. split.
    + unfold unprotect. destruct (zlen body >? c_recv_limit c + 2048) eqn:E1; [lia|].
      rewrite H13, Hn13, Ha, Hetm. cbn [andb]. rewrite !andb_false_r. rewrite Hrecv. cbn [rbind].
      destruct (zlen data >? c_recv_limit c) eqn:E2; [lia|]. reflexivity.
    + split; [exact Hsy|]. split; [exact Hsq|]. cbn [fst snd]. split; [reflexivity|]. cbn [overhead_max]. lia.
Qed.

Lemma protect_unprotect_aead12 (s r : St CS) ty data :
  mode_ok P R MAead12 c -> sync R s r -> rec_ok c ty data -> st_seq s < SEQ_MAX ->
  exists s' w r',
    protect c P s (ty, data) = ROk (s', w) /\
    unprotect c P r w = ROk (r', (ty, data)) /\
    sync R s' r' /\ st_seq s' = st_seq s + 1 /\
    fst (fst w) = ty /\ zlen data <= zlen (snd w) <= zlen data + overhead_max MAead12.
Proof.
  intros Hmode Hsync [Hty Hlen] Hs.
  assert (Hb : is_byte ty = true) by (apply is_byte_range; lia).
  pose proof Hmode as [[Hl1 [Hl2 Hl3]] [Hv [H13 [Henc [Haead [Hok [Htag _]]]]]]].
  assert (Hd16 : zlen data <= 16384) by lia.
  pose proof (zlen_nonneg data) as Hd0.
  destruct (aead12_rt P R c s r ty data Hmode Hsync Hb Hd16 Hs) as [s' [body [r' [Hsend [Hbl [Hrecv [Hsy Hsq]]]]]]].
  assert (Hn13 : is_tls13_plus c = false) by (unfold is_tls13_plus; rewrite Hv; reflexivity).
  unfold protect. rewrite Hn13. cbn [andb rbind]. rewrite Hv. change (ver_lt (3, 3) (3, 3)) with false.
  cbn [andb]. rewrite Henc, Haead. cbn [andb]. rewrite Hsend. cbn [rbind]. rewrite Hb. cbn [negb orb].
  destruct (65536 <=? zlen body) eqn:E; [lia|].
  eexists _, _, _. split; [reflexivity|]. split.
  - unfold unprotect. destruct (zlen body >? c_recv_limit c + 2048) eqn:E1; [lia|].
    rewrite H13, Hn13, Henc, Haead. cbn [andb]. rewrite <- Hv at 1. rewrite Hrecv. cbn [rbind].
    destruct (zlen data >? c_recv_limit c) eqn:E2; [lia|]. reflexivity.
  - split; [exact Hsy|]. split; [exact Hsq|]. cbn [fst snd]. split; [reflexivity|]. cbn [overhead_max]. lia.
Qed.

(* TLS 1.3: a ChangeCipherSpec record travels unprotected and consumes no sequence number *)
Lemma protect_unprotect_tls13_ccs (s r : St CS) data :
  mode_ok P R MTls13 c -> sync R s r -> zlen data <= c_send_limit c ->
  protect c P s (20, data) = ROk (s, (20, (3, 3), data)) /\
  unprotect c P r (20, (3, 3), data) = ROk (r, (20, data)).
Proof.
  intros [[Hl1 [Hl2 Hl3]] [Hv [H13 [Henc [Haead _]]]]] _ Hlen.
  assert (Ht13 : is_tls13_plus c = true) by (unfold is_tls13_plus; rewrite Hv, H13; reflexivity).
  pose proof (zlen_nonneg data) as Hd0.
  split.
  - unfold protect. rewrite Ht13, Henc. change (20 =? 20) with true. cbn [andb negb rbind].
    rewrite Hv. change (ver_lt (3, 3) (3, 4)) with true. change (20 =? 20) with true. cbn [andb rbind].
    change (is_byte 20) with true. cbn [negb orb].
    destruct (65536 <=? zlen data) eqn:E; [lia|]. reflexivity.
  - unfold unprotect. destruct (zlen data >? c_recv_limit c + 2048) eqn:E1; [lia|].
    rewrite H13. cbn [andb]. destruct (zlen data >? c_recv_limit c + 256) eqn:E2; [lia|].
    rewrite Ht13. change (20 =? 20) with true. cbn [andb rbind]. change (20 =? 23) with false.
    rewrite andb_false_r. cbn [rbind]. destruct (zlen data >? c_recv_limit c) eqn:E3; [lia|]. reflexivity.
Qed.

(* all modes: application data and every other hidden content type *)
Theorem protect_unprotect_all md (s r : St CS) ty data :
  mode_ok P R md c -> sync R s r -> rec_ok c ty data -> (md = MTls13 -> ty <> 20) ->
  st_seq s < SEQ_MAX ->
  exists s' w r',
    protect c P s (ty, data) = ROk (s', w) /\
    unprotect c P r w = ROk (r', (ty, data)) /\
    sync R s' r' /\ st_seq s' = st_seq s + 1.
Proof.
  intros Hmode Hsync Hrec H20 Hs. destruct md.
  - destruct (protect_unprotect_legacy MStream s r ty data (or_introl eq_refl) Hmode Hsync Hrec Hs)
      as [s' [w [r' [H1 [H2 [H3 [H4 _]]]]]]]. eauto 8.
  - destruct (protect_unprotect_legacy MCbc s r ty data (or_intror (or_introl eq_refl)) Hmode Hsync Hrec Hs)
      as [s' [w [r' [H1 [H2 [H3 [H4 _]]]]]]]. eauto 8.
  - destruct (protect_unprotect_legacy MEtm s r ty data (or_intror (or_intror eq_refl)) Hmode Hsync Hrec Hs)
      as [s' [w [r' [H1 [H2 [H3 [H4 _]]]]]]]. eauto 8.
  - destruct (protect_unprotect_aead12 s r ty data Hmode Hsync Hrec Hs)
      as [s' [w [r' [H1 [H2 [H3 [H4 _]]]]]]]. eauto 8.
  - destruct (tls13_rt P R c s r ty data Hmode Hsync Hrec (H20 eq_refl) Hs)
      as [s' [w [r' [H1 [H2 [H3 [H4 _]]]]]]]. eauto 8.
Qed.

(* no record on the wire carries more plaintext than the limit in force: the protected
   fragment is at most send_record_limit; in TLS 1.3 the inner plaintext (content, type byte
   and padding) is at most send_record_limit + 1, i.e. the peer's record_size_limit *)
Theorem wire_plaintext_bound md (s : St CS) r ty data s' w :
  mode_ok P R md c -> sync R s r -> rec_ok c ty data -> (md = MTls13 -> ty <> 20) ->
  st_seq s < SEQ_MAX ->
  protect c P s (ty, data) = ROk (s', w) ->
  match md with
  | MTls13 => exists k, 0 <= k /\ zlen (snd w) = zlen data + 1 + k + c_tag c /\
                        zlen data + 1 + k <= c_send_limit c + 1
  | _ => zlen data <= zlen (snd w) <= zlen data + overhead_max md /\ zlen data <= c_send_limit c
  end.
Proof.
  intros Hmode Hsync Hrec H20 Hs Hp. pose proof Hrec as [_ Hlen]. destruct md.
  - destruct (protect_unprotect_legacy MStream s r ty data (or_introl eq_refl) Hmode Hsync Hrec Hs)
      as [s2 [w2 [r' [H1 [_ [_ [_ [_ H5]]]]]]]]. rewrite Hp in H1. injection H1 as <- <-. auto.
  - destruct (protect_unprotect_legacy MCbc s r ty data (or_intror (or_introl eq_refl)) Hmode Hsync Hrec Hs)
      as [s2 [w2 [r' [H1 [_ [_ [_ [_ H5]]]]]]]]. rewrite Hp in H1. injection H1 as <- <-. auto.
  - destruct (protect_unprotect_legacy MEtm s r ty data (or_intror (or_intror eq_refl)) Hmode Hsync Hrec Hs)
      as [s2 [w2 [r' [H1 [_ [_ [_ [_ H5]]]]]]]]. rewrite Hp in H1. injection H1 as <- <-. auto.
  - destruct (protect_unprotect_aead12 s r ty data Hmode Hsync Hrec Hs)
      as [s2 [w2 [r' [H1 [_ [_ [_ [_ H5]]]]]]]]. rewrite Hp in H1. injection H1 as <- <-. auto.
  - destruct (tls13_rt P R c s r ty data Hmode Hsync Hrec (H20 eq_refl) Hs)
      as [s2 [w2 [r' [H1 [_ [_ [_ [k [Hk0 [Hk1 Hk2]]]]]]]]]]. rewrite Hp in H1. injection H1 as <- <-.
    exists k. auto.
Qed.
End Disp.

(* ---- records in flight --------------------------------------------------------------------- *)
Section Flight.
Context {CS : Type}.
Variable P : Prim CS.
Variable R : CS -> CS -> Prop.
Variable c : Cfg.
Variable md : mode.
Hypothesis Hmode : mode_ok P R md c.

(* the receiver in state r will accept the records ws in order, they carry the application
   bytes pl, and afterwards it is in step with the sender state s *)
Fixpoint flight_rel (r : St CS) (ws : list Wire) (pl : list Z) (s : St CS) : Prop :=
  match ws with
  | [] => sync R s r /\ pl = []
  | w :: ws' => exists r1 p pl', unprotect c P r w = ROk (r1, (23, p)) /\ pl = p ++ pl' /\
                                 flight_rel r1 ws' pl' s
  end.

Lemma protect_all_flight frags : forall (s r : St CS),
  sync R s r -> Forall (fun f => zlen f <= c_send_limit c) frags ->
  st_seq s + Z.of_nat (length frags) <= SEQ_MAX ->
  exists s' ws, protect_all c P s 23 frags = ROk (s', ws) /\
                flight_rel r ws (concat frags) s' /\
                st_seq s' = st_seq s + Z.of_nat (length frags) /\ length ws = length frags.
Proof.
  induction frags as [|f fs IH]; intros s r Hsync Hall Hseq.
  - exists s, []. cbn [protect_all flight_rel concat length]. split; [reflexivity|]. split; [split; [exact Hsync|reflexivity]|].
    split; [cbn; lia|reflexivity].
  - inversion Hall as [|? ? Hf Hfs]; subst.
    cbn [length] in Hseq. rewrite Nat2Z.inj_succ in Hseq.
    destruct (protect_unprotect_all P R c md s r 23 f Hmode Hsync) as [s1 [w [r1 [Hp [Hu [Hsy Hsq]]]]]].
    { split; [lia|exact Hf]. }
    { discriminate. }
    { unfold SEQ_MAX in *. lia. }
    destruct (IH s1 r1 Hsy Hfs ltac:(lia)) as [s2 [ws [Hpa [Hfl [Hsq2 Hlen]]]]].
    exists s2, (w :: ws). cbn [protect_all]. rewrite Hp. cbn [rbind]. rewrite Hpa. cbn [rbind].
    split; [reflexivity|]. split.
    + cbn [flight_rel concat]. exists r1, f, (concat fs). auto.
    + cbn [length]. rewrite Nat2Z.inj_succ. split; [lia|]. f_equal. exact Hlen.
Qed.

Lemma flight_rel_app r ws1 pl1 s1 : forall ws2 pl2 s2,
  flight_rel r ws1 pl1 s1 ->
  (forall r1, sync R s1 r1 -> flight_rel r1 ws2 pl2 s2) ->
  flight_rel r (ws1 ++ ws2) (pl1 ++ pl2) s2.
Proof.
  revert r pl1. induction ws1 as [|w ws IH]; intros r pl1 ws2 pl2 s2 H1 H2.
  - destruct H1 as [Hs ->]. cbn [app]. apply H2. exact Hs.
  - destruct H1 as [r1 [p [pl' [Hu [-> Hrest]]]]].
    cbn [app flight_rel]. exists r1, p, (pl' ++ pl2). split; [exact Hu|]. split; [apply app_assoc_reverse|].
    apply IH; assumption.
Qed.

Definition frag_count (user : Z) (data : list Z) : Z :=
  Z.of_nat (length (fragment (beast_split c 23) (record_size user (c_send_limit c)) data)).

Lemma send_app_flight user (s r : St CS) data : 1 <= user ->
  sync R s r -> st_seq s + frag_count user data <= SEQ_MAX ->
  exists s' ws, send_app c P user s data = ROk (s', ws) /\
                flight_rel r ws data s' /\ st_seq s' = st_seq s + frag_count user data.
Proof.
  intros Hu Hsync Hseq. unfold send_app.
  pose proof Hmode as [[Hl1 _] _].
  destruct (protect_all_flight (fragment (beast_split c 23) (record_size user (c_send_limit c)) data) s r Hsync)
    as [s' [ws [H1 [H2 [H3 _]]]]].
  - eapply Forall_impl; [|apply fragment_bound_l; unfold record_size; lia].
    cbv beta. intros f Hf. pose proof (record_size_le user (c_send_limit c)). lia.
  - exact Hseq.
  - exists s', ws. rewrite fragment_concat_l in H2. auto.
Qed.
End Flight.

(* ---- one direction under an arbitrary schedule ---------------------------------------------- *)
Section OneDirection.
Context {CS : Type}.
Variable R : CS -> CS -> Prop.
Variable md : mode.

Definition dir_run (d : @Dir CS) (es : list event) : Dir := fold_left dir_step es d.

(* records a schedule will put on the wire *)
Fixpoint records_of (d : @Dir CS) (es : list event) : Z :=
  match es with
  | [] => 0
  | EvWrite data :: es' => frag_count (d_cfg d) (d_user d) data + records_of d es'
  | _ :: es' => records_of d es'
  end.

Definition dir_static (d d' : @Dir CS) : Prop :=
  d_cfg d' = d_cfg d /\ d_prim d' = d_prim d /\ d_user d' = d_user d.

Definition dir_inv (d : @Dir CS) : Prop :=
  d_failed d = false /\
  exists pl, flight_rel (d_prim d) R (d_cfg d) (d_rcv d) (d_flight d) pl (d_snd d) /\
             d_written d = d_read d ++ d_rbuf d ++ pl.

Lemma frag_count_nonneg cfg u data : 0 <= frag_count cfg u data.
Proof. unfold frag_count. lia. Qed.

Lemma records_of_nonneg d es : 0 <= records_of d es.
Proof.
  induction es as [|e es IH]; cbn [records_of]; [lia|].
  destruct e; try exact IH. pose proof (frag_count_nonneg (d_cfg d) (d_user d) data). lia.
Qed.

Lemma dir_step_inv (d : @Dir CS) e :
  mode_ok (d_prim d) R md (d_cfg d) -> 1 <= d_user d ->
  dir_inv d ->
  (match e with EvWrite data => st_seq (d_snd d) + frag_count (d_cfg d) (d_user d) data <= SEQ_MAX | _ => True end) ->
  dir_inv (dir_step d e) /\ dir_static d (dir_step d e) /\
  st_seq (d_snd (dir_step d e)) =
    st_seq (d_snd d) + (match e with EvWrite data => frag_count (d_cfg d) (d_user d) data | _ => 0 end).
Proof.
  intros Hmode Hu [Hnf [pl [Hfl Hw]]] Hseq. destruct e as [data| |mx].
  - (* write *)
    cbn [dir_step].
    assert (Hex : exists r0, sync R (d_snd d) r0).
    { clear - Hfl. revert Hfl. generalize (d_rcv d) as r, pl as q. induction (d_flight d) as [|w ws IH]; intros r q H.
      - destruct H as [H _]. eauto.
      - destruct H as [r1 [p [pl' [_ [_ H]]]]]. eapply IH. exact H. }
    destruct Hex as [r0 Hs0].
    destruct (send_app_flight (d_prim d) R (d_cfg d) md Hmode (d_user d) (d_snd d) r0 data Hu Hs0 Hseq)
      as [s' [ws [Hsend [_ Hsq]]]].
    rewrite Hsend. split; [|split; [repeat split|exact Hsq]].
    split; [exact Hnf|]. cbn [d_cfg d_prim d_user d_snd d_rcv d_flight d_rbuf d_written d_read d_failed].
    exists (pl ++ data). split.
    + apply (flight_rel_app (d_prim d) R (d_cfg d) (d_rcv d) (d_flight d) pl (d_snd d) ws data s' Hfl).
      intros r1 Hs1.
      destruct (send_app_flight (d_prim d) R (d_cfg d) md Hmode (d_user d) (d_snd d) r1 data Hu Hs1 Hseq)
        as [s2 [ws2 [Hsend2 [Hfl2 _]]]].
      rewrite Hsend in Hsend2. injection Hsend2 as <- <-. exact Hfl2.
    + rewrite Hw. rewrite <- !app_assoc. reflexivity.
  - (* deliver *)
    cbn [dir_step]. destruct (d_flight d) as [|w rest] eqn:Ef.
    + split; [|split; [repeat split|cbn [d_snd]; lia]]. split; [exact Hnf|]. exists pl. rewrite Ef. auto.
    + destruct Hfl as [r1 [p [pl' [Hun [-> Hrest]]]]].
      unfold deliver. rewrite Hun. cbn [rbind fst snd]. change (23 =? 23) with true. cbn iota.
      split; [|split; [repeat split|cbn [d_snd]; lia]].
      split; [exact Hnf|]. cbn [d_cfg d_prim d_user d_snd d_rcv d_flight d_rbuf d_written d_read d_failed].
      exists pl'. split; [exact Hrest|]. rewrite Hw. rewrite <- !app_assoc. reflexivity.
  - (* application read *)
    cbn [dir_step]. split; [|split; [repeat split|cbn [d_snd]; lia]].
    split; [exact Hnf|]. cbn [d_cfg d_prim d_user d_snd d_rcv d_flight d_rbuf d_written d_read d_failed].
    exists pl. split; [exact Hfl|]. rewrite Hw.
    rewrite <- (ztake_zdrop mx (d_rbuf d)) at 1. rewrite <- !app_assoc. reflexivity.
Qed.

Theorem dir_run_inv es : forall (d : @Dir CS),
  mode_ok (d_prim d) R md (d_cfg d) -> 1 <= d_user d ->
  dir_inv d -> st_seq (d_snd d) + records_of d es <= SEQ_MAX ->
  dir_inv (dir_run d es).
Proof.
  induction es as [|e es IH]; intros d Hmode Hu Hinv Hseq; [exact Hinv|].
  cbn [dir_run fold_left]. 
  assert (Hguard : match e with EvWrite data => st_seq (d_snd d) + frag_count (d_cfg d) (d_user d) data <= SEQ_MAX | _ => True end).
  { destruct e; [|exact I|exact I]. cbn [records_of] in Hseq. pose proof (records_of_nonneg d es). lia. }
  destruct (dir_step_inv d e Hmode Hu Hinv Hguard) as [Hinv' [[Hc [Hp Hus]] Hsq]].
  apply IH.
  - rewrite Hc, Hp. exact Hmode.
  - rewrite Hus. exact Hu.
  - exact Hinv'.
  - assert (Hrec : records_of (dir_step d e) es = records_of d es).
    { clear - Hc Hus. induction es as [|e' es IH]; cbn [records_of]; [reflexivity|].
      destruct e'; rewrite ?IH, ?Hc, ?Hus; reflexivity. }
    rewrite Hrec, Hsq. destruct e; cbn [records_of] in Hseq; lia.
Qed.
End OneDirection.

(* ---- both directions: an event on one direction never touches the other ----------------------- *)
Section TwoDirections.
Context {CS : Type}.

Definition events_of (x : side) (es : list (side * event)) : list event :=
  map snd (filter (fun e => match fst e, x with A, A => true | B, B => true | _, _ => false end) es).

Lemma sys_run_split es : forall (s : @Sys CS),
  sys_run s es = (dir_run (fst s) (events_of A es), dir_run (snd s) (events_of B es)).
Proof.
  induction es as [|[x e] es IH]; intros [da db]; [reflexivity|].
  cbn [sys_run fold_left]. fold (sys_run (sys_step (da, db) (x, e)) es). rewrite IH.
  destruct x; reflexivity.
Qed.
End TwoDirections.

(* ---- the readAsync buffer ---------------------------------------------------------------------- *)
Lemma fill_buffer_spec fuel : forall mn t buf arr b1 rest,
  fill_buffer fuel mn t buf arr = (b1, rest) ->
  exists used, arr = used ++ rest /\ b1 = buf ++ concat used.
Proof.
  induction fuel as [|f IH]; intros mn t buf arr b1 rest H; cbn [fill_buffer] in H.
  - injection H as <- <-. exists []. cbn [concat app]. rewrite ?app_nil_r. auto.
  - destruct ((zlen buf <? mn) || ((zlen buf =? 0) && t)).
    + destruct arr as [|a arr'].
      * injection H as <- <-. exists []. cbn [concat app]. rewrite ?app_nil_r. auto.
      * apply IH in H. destruct H as [used [-> ->]]. exists (a :: used). cbn [concat app].
        rewrite <- app_assoc. auto.
    + injection H as <- <-. exists []. cbn [concat app]. rewrite ?app_nil_r. auto.
Qed.

(* when the loop stops with arrivals left, the buffer holds at least min bytes *)
Lemma fill_buffer_min fuel : forall mn t buf arr b1 rest,
  (length arr < fuel)%nat ->
  fill_buffer fuel mn t buf arr = (b1, rest) -> rest <> [] -> mn <= zlen b1.
Proof.
  induction fuel as [|f IH]; intros mn t buf arr b1 rest Hf H Hne; [lia|].
  cbn [fill_buffer] in H.
  destruct ((zlen buf <? mn) || ((zlen buf =? 0) && t)) eqn:E.
  - destruct arr as [|a arr'].
    + injection H as <- <-. congruence.
    + eapply IH; [|exact H|exact Hne]. cbn [length] in Hf. lia.
  - injection H as <- <-. apply orb_false_iff in E. destruct E as [E _]. lia.
Qed.

Lemma read_call_spec mx mn buf arr out b' rest :
  read_call mx mn buf arr = (out, b', rest) ->
  exists used, arr = used ++ rest /\ out ++ b' = buf ++ concat used /\
               (match mx with Some m => 0 <= m -> zlen out <= m | None => b' = [] end) /\
               (rest <> [] -> match mx with Some m => Z.min mn m <= zlen out | None => mn <= zlen out end).
Proof.
  unfold read_call. destruct (fill_buffer (S (length arr)) mn true buf arr) as [b1 rest1] eqn:E.
  intros H. injection H as <- <- <-.
  destruct (fill_buffer_spec _ _ _ _ _ _ _ E) as [used [Ha Hb]].
  exists used. split; [exact Ha|]. split; [rewrite ztake_zdrop; exact Hb|]. split.
  - destruct mx as [m|].
    + intros Hm. pose proof (zlen_ztake_le m b1). destruct (Z_le_gt_dec m (zlen b1)).
      * rewrite zlen_ztake; lia.
      * rewrite ztake_all by lia. lia.
    + apply zdrop_all. lia.
  - intros Hne. pose proof (fill_buffer_min _ _ _ _ _ _ _ (Nat.lt_succ_diag_r _) E Hne) as Hmin.
    destruct mx as [m|].
    + destruct (Z_le_gt_dec m (zlen b1)).
      * destruct (Z_le_gt_dec 0 m); [rewrite zlen_ztake; lia|].
        pose proof (zlen_nonneg (ztake m b1)). lia.
      * rewrite ztake_all by lia. lia.
    + rewrite ztake_all by lia. exact Hmin.
Qed.

Lemma read_calls_spec calls : forall buf arr outs b' rest,
  read_calls calls buf arr = (outs, b', rest) ->
  exists used, arr = used ++ rest /\ concat outs ++ b' = buf ++ concat used.
Proof.
  induction calls as [|[mx mn] cs IH]; intros buf arr outs b' rest H; cbn [read_calls] in H.
  - injection H as <- <- <-. exists []. cbn [concat app]. rewrite ?app_nil_r. auto.
  - destruct (read_call mx mn buf arr) as [[out b1] rest1] eqn:E1.
    destruct (read_calls cs b1 rest1) as [[outs2 b2] rest2] eqn:E2.
    injection H as <- <- <-.
    destruct (read_call_spec _ _ _ _ _ _ _ E1) as [u1 [Ha1 [Hb1 _]]].
    destruct (IH _ _ _ _ _ E2) as [u2 [Ha2 Hb2]].
    exists (u1 ++ u2). split; [rewrite Ha1, Ha2, app_assoc; reflexivity|].
    cbn [concat]. rewrite <- app_assoc, Hb2, app_assoc, Hb1, concat_app, <- app_assoc. reflexivity.
Qed.

(* ---- record_size_limit negotiation --------------------------------------------------------------- *)
Lemma limit_in_force_l tls13 client ext :
  ext_acceptable tls13 client ext = true ->
  let sl := send_limit_after tls13 client ext in
  1 <= sl <= 16384 /\ (if tls13 then sl + 1 <= ext else sl <= ext) /\
  (* the receiver that advertised `ext` (at most the protocol maximum) accepts what the sender emits *)
  (ext <= (if tls13 then 16385 else 16384) -> sl <= recv_limit_after tls13 ext).
Proof.
  unfold ext_acceptable, send_limit_after, recv_limit_after.
  destruct tls13, client; cbv zeta; intros H;
    try (apply andb_true_iff in H; destruct H as [H1 H2]; apply Z.leb_le in H1; apply Z.leb_le in H2);
    try (apply Z.leb_le in H); lia.
Qed.

Lemma dir_inv_fresh {CS} (R : CS -> CS -> Prop) (d : @Dir CS) :
  sync R (d_snd d) (d_rcv d) -> d_flight d = [] -> d_rbuf d = [] -> d_written d = [] -> d_read d = [] ->
  d_failed d = false -> dir_inv R d.
Proof.
  intros Hs Hf Hb Hw Hr Hnf. split; [exact Hnf|]. exists []. rewrite Hf, Hb, Hw, Hr. cbn. auto.
Qed.
