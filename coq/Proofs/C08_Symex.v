(* Symbolic execution tactic for crashlite-generated regions: lazy case analysis on the
   scrutinee at the head of the current statement, loop rules for foldMo / find_firstM /
   existsbM / filterM / mapM, continuations unfolded on demand. *)
From Coq Require Import ZArith List Bool Lia String.
From TV Require Import Base.Prelude Base.C08_Lib.
Import ListNotations.
Open Scope Z_scope.

Lemma seq_index_cons0 {A} s (x : A) xs : seq_index s (x :: xs) 0 = OK x.
Proof.
  unfold seq_index, py_index, zlen. cbn [List.length].
  replace (0 <? 0) with false by reflexivity.
  destruct ((0 <=? 0) && (0 <? Z.of_nat (S (List.length xs)))) eqn:E; [reflexivity|].
  apply andb_false_iff in E. destruct E as [E|E]; [discriminate|].
  apply Z.ltb_ge in E. lia.
Qed.

Lemma seq_index_last {A} s (x : A) xs : exists y, seq_index s (x :: xs) (-1) = OK y.
Proof.
  unfold seq_index, py_index, zlen.
  replace (-1 <? 0) with true by reflexivity.
  set (n := Z.of_nat (List.length (x :: xs))).
  assert (Hn : 1 <= n) by (unfold n; cbn [List.length]; lia).
  destruct ((0 <=? -1 + n) && (-1 + n <? n)) eqn:E.
  - destruct (nth_error (x :: xs) (Z.to_nat (-1 + n))) eqn:E2; [eexists; reflexivity|].
    apply nth_error_None in E2. unfold n in *. lia.
  - apply andb_false_iff in E. destruct E as [E|E]; [apply Z.leb_gt in E|apply Z.ltb_ge in E]; lia.
Qed.

Lemma crash_in_seq_index_last {A B} sites s (x : A) xs (k : A -> outcome B) :
  (forall y, crash_in sites (k y)) -> crash_in sites (bindo (seq_index s (x :: xs) (-1)) k).
Proof.
  intros H. destruct (seq_index_last s x xs) as [y Hy]. rewrite Hy. cbn [bindo]. apply H.
Qed.

Create HintDb c08gen.

Ltac c08_in_sites :=
  cbn [crash_in In]; repeat (first [left; reflexivity | right]); fail.

Ltac c08_head t := lazymatch t with ?f _ => c08_head f | _ => t end.

Ltac c08_simpl :=
  cbn beta iota zeta delta [bindo crash_in foldMo find_firstM existsbM filterM mapM
     truthy_opt is_some is_none always_true nonempty negb andb orb fst snd
     find_first opt_eqb] in *.

(* unfold the generated continuation at the head (after the lib reductions are stuck) *)
Ltac c08_unfold_head :=
  match goal with
  | |- crash_in _ ?t =>
    let h := c08_head t in
    lazymatch h with
    | @bindo => fail
    | @OK => fail
    | @Alert => fail
    | @Raised => fail
    | @Crash => fail
    | _ => progress (unfold h)
    end
  end.

Ltac c08_rewrite_facts :=
  repeat match goal with
         | H : ?x = _ |- context [?x] => lazymatch x with
                                          | context [_ = _] => fail
                                          | _ => rewrite H
                                          end
         end.

Ltac c08_leaf :=
  match goal with
  | |- crash_in _ _ => solve [auto 2 with c08gen nocore]
  | |- crash_in _ (OK _) => exact I
  | |- crash_in _ (Alert _) => exact I
  | |- crash_in _ (Raised _) => exact I
  | |- crash_in _ (Crash _ _) => c08_in_sites
  | |- In _ _ => c08_in_sites
  | |- True => exact I
  end.

Ltac c08_loop_rule :=
  match goal with
  | |- crash_in _ (bindo (foldMo _ _ _) _) => apply crash_in_bind_foldMo; [intros ? ?|intros ?]
  | |- crash_in _ (bindo (find_firstM _ _) _) =>
    apply crash_in_bindo; [apply crash_in_find_firstM; intros ?|intros ? _]
  | |- crash_in _ (bindo (existsbM _ _) _) =>
    apply crash_in_bindo; [apply crash_in_existsbM; intros ?|intros ? _]
  | |- crash_in _ (bindo (filterM _ _) _) =>
    apply crash_in_bindo; [apply crash_in_filterM; intros ?|intros ? _]
  | |- crash_in _ (bindo (mapM _ _) _) =>
    apply crash_in_bindo; [apply crash_in_mapM; intros ?|intros ? _]
  | |- context [seq_index ?s ?l 0] =>
    (* x[0] on a list variable: the empty case must be excluded by an earlier test (e.g. len(x) != 1) *)
    is_var l; destruct l;
    [ try solve [exfalso; match goal with H : _ = _ |- _ => cbv in H; discriminate H end] | ]
  | |- context [seq_index ?s (?x :: ?xs) 0] => rewrite (seq_index_cons0 s x xs)
  | |- context [seq_index ?s (?x :: ?xs) (-1)] =>
    let y := fresh "y" in let Hy := fresh "Hy" in
    destruct (seq_index_last s x xs) as [y Hy]; rewrite Hy; clear Hy
  end.

(* hook for region-specific facts (redefined in the region's proof file) *)
Ltac c08_domain := fail.

(* the scrutinee that blocks the evaluation of the current statement *)
Ltac c08_scrut t :=
  lazymatch t with
  | bindo ?m _ => c08_scrut m
  | match ?x with _ => _ end => c08_scrut x
  | negb ?b => c08_scrut b
  | andb ?a _ => c08_scrut a
  | orb ?a _ => c08_scrut a
  | truthy_opt _ ?o => c08_scrut o
  | is_some ?o => c08_scrut o
  | is_none ?o => c08_scrut o
  | nonempty ?l => c08_scrut l
  | _ => t
  end.

Ltac c08_case :=
  match goal with
  | |- crash_in _ ?t =>
    let x := c08_scrut t in
    tryif constr_eq x t then fail else
    first [ is_var x; destruct x | destruct x eqn:? ]
  end.

Ltac c08_step :=
  first [ c08_leaf
        | progress c08_simpl
        | c08_loop_rule
        | c08_domain
        | c08_unfold_head; c08_rewrite_facts
        | c08_case ].

Ltac c08_symex := repeat c08_step.
