(* C19 -- witnesses (by vm_compute) for the statements that are false of the faithful model *)
From Coq Require Import ZArith List Bool String.
From TV Require Import Base.Prelude Model.C19_Settings Spec.C19_Domain Proofs.C19_Examples.
Import ListNotations.
Open Scope Z_scope.

(* HandshakeSettings().validate() on an installation without M2Crypto/pycrypto: cell 3 (the receiver's
   cipherImplementations) goes from [openssl; pycrypto; python] to [python] *)
Lemma frame_witness :
  wf ex_heap ex_settings = true /\
  is_ok (snd (validate std_tables no_backends ex_heap ex_settings)) = true /\
  hget ex_heap 3%nat = S ["openssl"; "pycrypto"; "python"]%string /\
  hget (fst (validate std_tables no_backends ex_heap ex_settings)) 3%nat = S ["python"]%string.
Proof. vm_compute. repeat split. Qed.

Lemma frame_refuted :
  ~ (forall T I h s h' r, wf h s = true -> validate T I h s = (h', r) ->
       forall l, (l < List.length h)%nat -> hget h' l = hget h l).
Proof.
  intros H.
  specialize (H std_tables no_backends ex_heap ex_settings
                (fst (validate std_tables no_backends ex_heap ex_settings))
                (snd (validate std_tables no_backends ex_heap ex_settings))
                (proj1 frame_witness) (surjective_pairing _) 3%nat).
  assert (L3 : (3 < List.length ex_heap)%nat) by (vm_compute; repeat constructor).
  specialize (H L3). destruct frame_witness as [_ [_ [A B]]]. rewrite A, B in H. discriminate H.
Qed.
