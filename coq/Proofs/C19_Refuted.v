(* C19 -- witnesses (by vm_compute) for the statements that are false of the faithful model *)
From Coq Require Import ZArith List Bool String.
From TV Require Import Base.Prelude Model.C19_Settings Spec.C19_Domain Proofs.C19_Examples.
Import ListNotations.
Open Scope Z_scope.

(* HandshakeSettings().validate() on an installation without M2Crypto/pycrypto: cell 3 (the receiver's
   cipherImplementations) goes from [openssl; pycrypto; python] to [python] *)
Lemma frame_witness :
  wf ex_heap ex_settings = true /\
  is_ok (snd (validate std_tables no_backends ex_heap ex_settings)) = true /\
  hget ex_heap 3%nat = S ["openssl"; "pycrypto"; "python"]%string /\
  hget (fst (validate std_tables no_backends ex_heap ex_settings)) 3%nat = S ["python"]%string.
Proof. vm_compute. repeat split. Qed.

Lemma frame_refuted :
  ~ (forall T I h s h' r, wf h s = true -> validate T I h s = (h', r) ->
       forall l, (l < List.length h)%nat -> hget h' l = hget h l).
Proof.
  intros H.
  specialize (H std_tables no_backends ex_heap ex_settings
                (fst (validate std_tables no_backends ex_heap ex_settings))
                (snd (validate std_tables no_backends ex_heap ex_settings))
                (proj1 frame_witness) (surjective_pairing _) 3%nat).
  assert (L3 : (3 < List.length ex_heap)%nat) by (vm_compute; repeat constructor).
  specialize (H L3). destruct frame_witness as [_ [_ [A B]]]. rewrite A, B in H. discriminate H.
Qed.

(* ---- documented domains that validate() does not enforce ---------------------------------------- *)
(* dc_sig_algs = [rsa_pss_rsae_sha256]: outside the documented domain, accepted *)
Definition ex_heap_dc : heap := with_cell ex_heap F_dc_sig_algs [VPair 8 4].
Lemma dc_witness :
  wf ex_heap_dc ex_settings = true /\ typed (view ex_heap_dc ex_settings) = true /\
  dom std_tables D_dc_sig_algs (view ex_heap_dc ex_settings) = false /\
  is_ok (snd (validate std_tables all_backends ex_heap_dc ex_settings)) = true.
Proof. vm_compute. repeat split. Qed.

(* ticketCipher = chacha20-poly1305 with a 16-byte key: outside the documented domain, accepted *)
Definition ex_heap_tk : heap := with_cell ex_heap F_ticketKeys [VBytes [0;0;0;0;0;0;0;0;0;0;0;0;0;0;0;0]].
Definition ex_settings_tk : settings := with_scalars ex_settings ex_scalars_chacha_ticket.
Lemma ticket_witness :
  wf ex_heap_tk ex_settings_tk = true /\ typed (view ex_heap_tk ex_settings_tk) = true /\
  dom std_tables D_ticketKeys (view ex_heap_tk ex_settings_tk) = false /\
  is_ok (snd (validate std_tables all_backends ex_heap_tk ex_settings_tk)) = true.
Proof. vm_compute. repeat split. Qed.

Lemma rejects_refuted :
  ~ (forall T I h s d, wf h s = true -> typed (view h s) = true -> dom T d (view h s) = false ->
       snd (validate T I h s) = Err ValueError).
Proof.
  intros H. destruct dc_witness as [A [B [C D]]].
  rewrite (H std_tables all_backends ex_heap_dc ex_settings D_dc_sig_algs A B C) in D. discriminate D.
Qed.

(* a value of the wrong kind (an int where a PSK tuple is expected) makes validate() raise TypeError *)
Definition ex_heap_badpsk : heap := with_cell ex_heap F_pskConfigs [VInt 5].
Lemma wrong_kind_witness :
  wf ex_heap_badpsk ex_settings = true /\ typed (view ex_heap_badpsk ex_settings) = false /\
  snd (validate std_tables all_backends ex_heap_badpsk ex_settings) = Err TypeError.
Proof. vm_compute. repeat split. Qed.

(* non-vacuity of the domain theorems: the default object is typed, inside every domain and supported;
   a 511-bit minimum key size is typed and outside D_keySizes *)
Lemma default_in_domain :
  wf ex_heap ex_settings = true /\ typed (view ex_heap ex_settings) = true /\
  in_domain std_tables (view ex_heap ex_settings) = true /\
  something_supported no_backends (view ex_heap ex_settings) = true.
Proof. vm_compute. repeat split. Qed.
