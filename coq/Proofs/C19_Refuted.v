(* C19 -- witnesses (by vm_compute) for the statements that are false of the faithful model *)
From Coq Require Import ZArith List Bool String.
From TV Require Import Base.Prelude Model.C19_Settings Spec.C19_Domain Proofs.C19_Examples Proofs.C19_Frame Proofs.C19_Pure Proofs.C19_Idem.
Import ListNotations.
Open Scope Z_scope.

(* ---- history ------------------------------------------------------------------------------------
   Before /repo 851aa29, 8cc633e, c50a338 three statements were FALSE of the faithful model and this file
   held their counterexamples (found by the correspondence run, registered as findings, since repaired):
     * frame condition: HandshakeSettings().validate() without M2Crypto/pycrypto changed cell 3 (the
       receiver's cipherImplementations) from [openssl; pycrypto; python] to [python];
     * rejects_outside_domain at D_dc_sig_algs: dc_sig_algs = [(8,4)] was accepted;
     * rejects_outside_domain at D_ticketKeys: ticketCipher = chacha20-poly1305 with a 16-byte key was accepted.
   The same objects are kept below as regression witnesses of the repaired behaviour. *)

Lemma frame_regression :
  wf ex_heap ex_settings = true /\
  is_ok (snd (validate std_tables no_backends ex_heap ex_settings)) = true /\
  hget (fst (validate std_tables no_backends ex_heap ex_settings)) 3%nat = S ["openssl"; "pycrypto"; "python"]%string /\
  (* the result's own list is the filtered copy *)
  match snd (validate std_tables no_backends ex_heap ex_settings) with
  | Ok s' => G (fst (validate std_tables no_backends ex_heap ex_settings)) s' F_cipherImplementations = S ["python"]%string
  | Err _ => False
  end.
Proof. vm_compute. repeat split. Qed.

Definition ex_heap_dc : heap := with_cell ex_heap F_dc_sig_algs [VPair 8 4].
Lemma dc_regression :
  wf ex_heap_dc ex_settings = true /\ typed (view ex_heap_dc ex_settings) = true /\
  dom std_tables D_dc_sig_algs (view ex_heap_dc ex_settings) = false /\
  snd (validate std_tables all_backends ex_heap_dc ex_settings) = Err ValueError.
Proof. vm_compute. repeat split. Qed.

Definition ex_heap_tk : heap := with_cell ex_heap F_ticketKeys [VBytes [0;0;0;0;0;0;0;0;0;0;0;0;0;0;0;0]].
Definition ex_settings_tk : settings := with_scalars ex_settings ex_scalars_chacha_ticket.
Lemma ticket_regression :
  wf ex_heap_tk ex_settings_tk = true /\ typed (view ex_heap_tk ex_settings_tk) = true /\
  dom std_tables D_ticketKeys (view ex_heap_tk ex_settings_tk) = false /\
  snd (validate std_tables all_backends ex_heap_tk ex_settings_tk) = Err ValueError.
Proof. vm_compute. repeat split. Qed.

(* another attribute bound to the very list object of cipherImplementations (dc_sig_algs := the same
   location): the object that used to fall outside the aliasing hypothesis *)
Definition ex_settings_alias : settings :=
  {| locs := lupd (locs ex_settings) F_dc_sig_algs 3%nat; sc := sc ex_settings |}.
Lemma alias_regression :
  wf ex_heap ex_settings_alias = true /\
  L ex_settings_alias F_dc_sig_algs = L ex_settings_alias F_cipherImplementations /\
  is_ok (snd (validate std_tables no_backends ex_heap ex_settings_alias)) = true /\
  hget (fst (validate std_tables no_backends ex_heap ex_settings_alias)) 3%nat = S ["openssl"; "pycrypto"; "python"]%string.
Proof. vm_compute. repeat split. Qed.

(* a value of the wrong kind (an int where a PSK tuple is expected) makes validate() raise TypeError *)
Definition ex_heap_badpsk : heap := with_cell ex_heap F_pskConfigs [VInt 5].
Lemma wrong_kind_witness :
  wf ex_heap_badpsk ex_settings = true /\ typed (view ex_heap_badpsk ex_settings) = false /\
  snd (validate std_tables all_backends ex_heap_badpsk ex_settings) = Err TypeError.
Proof. vm_compute. repeat split. Qed.

(* non-vacuity of the domain theorems: the default object is typed, inside every domain and supported *)
Lemma default_in_domain :
  wf ex_heap ex_settings = true /\ typed (view ex_heap ex_settings) = true /\
  in_domain std_tables (view ex_heap ex_settings) = true /\
  something_supported no_backends (view ex_heap ex_settings) = true.
Proof. vm_compute. repeat split. Qed.

Lemma tls11_validates :
  wf ex_heap (with_scalars ex_settings ex_scalars_tls11) = true /\
  is_ok (snd (validate std_tables no_backends ex_heap (with_scalars ex_settings ex_scalars_tls11))) = true.
Proof. vm_compute. repeat split. Qed.

(* ---- the f81c02a interlude -----------------------------------------------------------------------
   Between /repo f81c02a and 0b9340a validate() clipped `versions` at minVersion itself, AFTER
   _sanityCheckECDHSettings had looked at the unclipped list.  With minVersion = (3,4) the result had
   versions = [(3,4)] and still every curve of the receiver; validating the result applied the TLS 1.3-only
   group rule and raised ValueError (idempotence was refuted by the object below, and the same settings
   could not connect to a default server).  0b9340a clips at min(minVersion, (3,3)).
   Regression witness: the default object with minVersion = (3,4) and one curve that is not an RFC 8446
   group (the real defaults contain brainpoolP256r1/384r1/512r1). *)
Definition ex_heap_k1 : heap :=
  with_cell ex_heap F_eccCurves (S ["x25519"; "secp256r1"; "secp256k1"]%string).
Definition ex_settings_13 : settings := with_scalars ex_settings ex_scalars_tls13only.

Lemma idem_regression :
  wf ex_heap_k1 ex_settings_13 = true /\
  match validate std_tables no_backends ex_heap_k1 ex_settings_13 with
  | (h1, Ok s1) => G h1 s1 F_versions = [VPair 3 4; VPair 3 3] /\
                   is_ok (snd (validate std_tables no_backends h1 s1)) = true
  | _ => False
  end.
Proof. vm_compute. repeat split. Qed.
