(* General list / monad lemmas used by the C09 proofs. *)
From Coq Require Import ZArith List Bool Lia.
From TV Require Import Base.Prelude Base.C09_Lib Spec.C09_Poly1305.
Import ListNotations.
Open Scope Z_scope.

Ltac zl := unfold zlen in *; rewrite ?app_length in *; cbn [length] in *; lia.

Lemma set_nth_length {A} (l : list A) n v : length (set_nth l n v) = length l.
Proof.
  revert n. induction l as [|x l IH]; intros n; cbn [set_nth length]; [reflexivity|].
  destruct n; cbn [length]; [reflexivity|]. rewrite IH. reflexivity.
Qed.

Lemma py_store_ok {A} (l : list A) i v : 0 <= i < zlen l ->
  py_store l i v = Ok (set_nth l (Z.to_nat i) v).
Proof.
  intros H. unfold py_store. destruct (i <? 0) eqn:E; [lia|].
  destruct ((0 <=? i) && (i <? zlen l)) eqn:E2; [reflexivity|lia].
Qed.

Lemma set_nth_Forall {A} (P : A -> Prop) l n v : Forall P l -> P v -> Forall P (set_nth l n v).
Proof.
  intros Hl Hv. revert n. induction Hl as [|x l Hx Hl IH]; intros n; cbn [set_nth]; [constructor|].
  destruct n; constructor; auto.
Qed.

Lemma Forall_nth_Z (P : Z -> Prop) l i : Forall P l -> P 0 -> P (nthZ l i).
Proof.
  intros Hl H0. unfold nthZ. destruct (nth_in_or_default (Z.to_nat i) l 0) as [Hin|E]; [|rewrite E; exact H0].
  rewrite Forall_forall in Hl. apply Hl. exact Hin.
Qed.

(* a loop whose every step succeeds and keeps an invariant *)
Lemma foldM_inv {A B} (P : A -> Prop) (f : A -> B -> res A) (g : A -> B -> A) l :
  (forall a x, In x l -> P a -> f a x = Ok (g a x) /\ P (g a x)) ->
  forall a, P a -> foldM f l a = Ok (fold_left g l a) /\ P (fold_left g l a).
Proof.
  induction l as [|x xs IH]; intros H a Ha; cbn [foldM fold_left]; [split; [reflexivity|exact Ha]|].
  destruct (H a x (or_introl eq_refl) Ha) as [E Pg]. rewrite E. cbn [bind].
  apply IH; [|exact Pg]. intros a' y Hy. apply H. right. exact Hy.
Qed.

Lemma iter_shift {A} (f : A -> A) n a : Nat.iter n f (f a) = f (Nat.iter n f a).
Proof. induction n as [|n IH]; simpl; [reflexivity|]. rewrite IH. reflexivity. Qed.

Lemma fold_left_const_iter {A B} (f : A -> A) (l : list B) a :
  fold_left (fun s _ => f s) l a = Nat.iter (length l) f a.
Proof.
  revert a. induction l as [|x l IH]; intros a; simpl; [reflexivity|].
  rewrite IH. apply iter_shift.
Qed.

Lemma fold_left_app_concat {A B} (h : B -> list A) l a :
  fold_left (fun acc x => acc ++ h x) l a = a ++ concat (map h l).
Proof.
  revert a. induction l as [|x l IH]; intros a; cbn [fold_left map concat]; [rewrite app_nil_r; reflexivity|].
  rewrite IH, app_assoc. reflexivity.
Qed.

Lemma fold_left_snoc_map {A B} (h : B -> A) l a :
  fold_left (fun acc x => acc ++ [h x]) l a = a ++ map h l.
Proof.
  revert a. induction l as [|x l IH]; intros a; cbn [fold_left map]; [rewrite app_nil_r; reflexivity|].
  rewrite IH, <- app_assoc. reflexivity.
Qed.

(* ---- chunks ------------------------------------------------------------------- *)
Lemma chunks_fuel_index (n : nat) : (0 < n)%nat -> forall fuel (l : list Z) q, (length l <= fuel)%nat ->
  q = (zlen l + Z.of_nat n - 1) / Z.of_nat n ->
  map (fun i => firstn n (skipn (Z.to_nat (i * Z.of_nat n)) l)) (zrange 0 q) = chunks_fuel fuel n l.
Proof.
  intros Hn. induction fuel as [|fuel IH]; intros l q Hf Hq.
  - destruct l; [|cbn [length] in Hf; lia]. subst q. change (zlen (@nil Z)) with 0.
    rewrite Z.div_small by lia. reflexivity.
  - destruct l as [|x l'].
    + subst q. change (zlen (@nil Z)) with 0. rewrite Z.div_small by lia. reflexivity.
    + cbn [chunks_fuel]. remember (x :: l') as l eqn:El.
      assert (Hlen : 1 <= zlen l) by (subst l; zl).
      assert (Hq1 : 1 <= q).
      { subst q. apply Z.div_le_lower_bound; lia. }
      rewrite zrange_cons by lia. cbn [map]. f_equal.
      rewrite <- (IH (skipn n l) (q - 1)).
      * replace (zrange (0 + 1) q) with (map (fun k => k + 1) (zrange 0 (q - 1))).
        2:{ unfold zrange. rewrite map_map. replace (Z.to_nat (q - (0 + 1))) with (Z.to_nat (q - 1 - 0)) by lia.
            apply map_ext. intros k. lia. }
        rewrite map_map. apply map_ext_in. intros k Hk. apply in_zrange in Hk.
        rewrite skipn_add. do 2 f_equal. lia.
      * rewrite skipn_length. subst l. cbn [length] in *. lia.
      * subst q. destruct (Z_lt_le_dec (zlen l) (Z.of_nat n)) as [Hs|Hs].
        -- rewrite skipn_all2 by (unfold zlen in *; lia). change (zlen (@nil Z)) with 0.
           rewrite (Z.div_small (0 + Z.of_nat n - 1)) by lia.
           replace ((zlen l + Z.of_nat n - 1) / Z.of_nat n) with 1; [reflexivity|].
           apply Z.div_unique with (r := zlen l - 1); lia.
        -- assert (zlen (skipn n l) = zlen l - Z.of_nat n) as -> by (unfold zlen in *; rewrite skipn_length; lia).
           replace (zlen l + Z.of_nat n - 1) with ((zlen l - Z.of_nat n + Z.of_nat n - 1) + 1 * Z.of_nat n) by lia.
           rewrite Z.div_add by lia. lia.
Qed.

Lemma chunks_index (n : nat) (l : list Z) : (0 < n)%nat ->
  map (fun i => firstn n (skipn (Z.to_nat (i * Z.of_nat n)) l))
      (zrange 0 ((zlen l + Z.of_nat n - 1) / Z.of_nat n)) = chunks n l.
Proof. intros Hn. unfold chunks. apply chunks_fuel_index; [exact Hn|lia|reflexivity]. Qed.

Lemma chunks_length (n : nat) (l : list Z) : (0 < n)%nat ->
  zlen (chunks n l) = (zlen l + Z.of_nat n - 1) / Z.of_nat n.
Proof.
  intros Hn. rewrite <- (chunks_index n l Hn). unfold zlen at 1. rewrite map_length, zrange_length.
  assert (0 <= (zlen l + Z.of_nat n - 1) / Z.of_nat n); [|lia].
  apply Z.div_pos; pose proof (zlen_nonneg l); lia.
Qed.

Lemma in_chunks (n : nat) (l c : list Z) : (0 < n)%nat -> In c (chunks n l) ->
  exists i, 0 <= i /\ c = firstn n (skipn (Z.to_nat (i * Z.of_nat n)) l).
Proof.
  intros Hn Hc. rewrite <- (chunks_index n l Hn) in Hc. apply in_map_iff in Hc.
  destruct Hc as [i [E Hi]]. apply in_zrange in Hi. exists i. split; [lia|auto].
Qed.

Lemma all_bytes_firstn l n : all_bytes l = true -> all_bytes (firstn n l) = true.
Proof.
  unfold all_bytes. rewrite !forallb_forall. intros H x Hx. apply H.
  rewrite <- (firstn_skipn n l). apply in_or_app. left. exact Hx.
Qed.

Lemma all_bytes_skipn l n : all_bytes l = true -> all_bytes (skipn n l) = true.
Proof.
  unfold all_bytes. rewrite !forallb_forall. intros H x Hx. apply H.
  rewrite <- (firstn_skipn n l). apply in_or_app. right. exact Hx.
Qed.

Lemma all_bytes_app a b : all_bytes (a ++ b) = all_bytes a && all_bytes b.
Proof. unfold all_bytes. apply forallb_app. Qed.

Lemma combine_app {A B} (a1 a2 : list A) (b1 b2 : list B) : length a1 = length b1 ->
  combine (a1 ++ a2) (b1 ++ b2) = combine a1 b1 ++ combine a2 b2.
Proof.
  revert b1. induction a1 as [|x a1 IH]; intros [|y b1] H; try discriminate; cbn [app combine]; [reflexivity|].
  rewrite IH by (cbn [length] in H; lia). reflexivity.
Qed.

Lemma py_range_step_up a b s : 0 < s -> a <= b ->
  py_range a b s = map (fun k => a + s * k) (zrange 0 ((b - a + s - 1) / s)).
Proof.
  intros Hs Hab. unfold py_range. destruct (0 <? s) eqn:E; [|lia].
  unfold zrange. rewrite map_map. rewrite Z.sub_0_r. apply map_ext. intros k. lia.
Qed.

Lemma bind_ok {A B} (a : A) (f : A -> res B) : bind (Ok a) f = f a.
Proof. reflexivity. Qed.

Lemma bind_err {A B} e (f : A -> res B) : bind (Err e) f = Err e.
Proof. reflexivity. Qed.

(* x[-k:] and x[:-k] for 0 < k <= len x *)
Lemma py_slice_last {A} (l : list A) k : 0 < k <= zlen l ->
  py_slice l (Some (- k)) None = skipn (length l - Z.to_nat k) l.
Proof.
  intros H. unfold py_slice, clamp_bound.
  destruct (- k <? 0) eqn:E1; [|lia].
  destruct (- k + zlen l <? 0) eqn:E2; [lia|].
  destruct (zlen l <? - k + zlen l) eqn:E3; [lia|].
  destruct (zlen l <=? - k + zlen l) eqn:E4; [lia|].
  replace (Z.to_nat (- k + zlen l)) with (length l - Z.to_nat k)%nat by (unfold zlen in *; lia).
  apply firstn_all2. rewrite skipn_length. unfold zlen in *. lia.
Qed.

Lemma py_slice_butlast {A} (l : list A) k : 0 < k <= zlen l ->
  py_slice l None (Some (- k)) = firstn (length l - Z.to_nat k) l.
Proof.
  intros H. unfold py_slice, clamp_bound.
  destruct (- k <? 0) eqn:E1; [|lia].
  destruct (- k + zlen l <? 0) eqn:E2; [lia|].
  destruct (zlen l <? - k + zlen l) eqn:E3; [lia|].
  destruct (- k + zlen l <=? 0) eqn:E4.
  - replace (length l - Z.to_nat k)%nat with 0%nat by (unfold zlen in *; lia). reflexivity.
  - cbn [Z.to_nat skipn]. f_equal. unfold zlen in *. lia.
Qed.

Lemma foldM_app {A B} (f : A -> B -> res A) l1 l2 a :
  foldM f (l1 ++ l2) a = (a' <- foldM f l1 a ;; foldM f l2 a').
Proof.
  revert a. induction l1 as [|x l1 IH]; intros a; cbn [app foldM]; [reflexivity|].
  destruct (f a x) as [a'|e]; cbn [bind]; [apply IH|reflexivity].
Qed.

Lemma divceil_pos_val n d : 0 <= n -> 0 < d ->
  n / d + Z.b2z (z_true (n mod d)) = (n + d - 1) / d.
Proof.
  intros Hn Hd.
  pose proof (Z.div_mod n d ltac:(lia)) as E. pose proof (Z.mod_pos_bound n d Hd) as B.
  unfold z_true. destruct (n mod d =? 0) eqn:E0; cbn [negb Z.b2z].
  - apply Z.eqb_eq in E0. apply Z.div_unique with (r := d - 1); lia.
  - apply Z.eqb_neq in E0. apply Z.div_unique with (r := n mod d - 1); lia.
Qed.

Lemma firstn_add {A} a b (x : list A) : firstn (a + b) x = firstn a x ++ firstn b (skipn a x).
Proof.
  rewrite <- (firstn_skipn a x) at 1. rewrite firstn_app.
  destruct (le_lt_dec a (length x)) as [L|L].
  - rewrite firstn_length. replace (Nat.min a (length x)) with a by lia.
    rewrite (firstn_all2 (n := (a + b)%nat) (firstn a x)) by (rewrite firstn_length; lia).
    f_equal. f_equal. lia.
  - rewrite (skipn_all2 x) by lia. rewrite !firstn_nil, !app_nil_r.
    apply firstn_all2. rewrite firstn_length. lia.
Qed.
