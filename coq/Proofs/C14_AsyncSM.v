(* C14 lemmas: AsyncStateMachine drives one generator to completion, one next() per event,
   reports completion exactly once, and refuses a second operation while one is active. *)
From Coq Require Import ZArith List Bool Lia.
From TV Require Import Base.Prelude Model.C14_AsyncSM.
Import ListNotations.
Open Scope Z_scope.

Definition is_io (c : acall) : bool := match c with InRead _ | InWrite => true | _ => false end.
Definition running (y : Z) (g : gen) : asm :=
  {| a_hs := Some g; a_cl := None; a_rd := None; a_wr := None; a_result := Some y |}.

Definition exns (os : list obs) : list (option aexn) := map (fun o => snd (fst (fst o))) os.
Definition events (os : list obs) : list aevent := concat (map (fun o => fst (fst (fst o))) os).
Definition no_exn (os : list obs) : Prop := Forall (fun x => x = None) (exns os).

Lemma io_call_running y g c : is01 y = true -> is_io c = true ->
  asm_call c (running y g) = do_finishing g set_hs [EConnect] (running y g).
Proof.
  intros Hy Hc. destruct c as [g0|g0|g0|f|]; try discriminate; cbn [asm_call].
  - unfold check_assert, running, active_ops. cbn [a_result a_hs a_cl a_rd a_wr is_some]. rewrite Hy. cbn. reflexivity.
  - unfold check_assert, running, active_ops. cbn [a_result a_hs a_cl a_rd a_wr is_some]. rewrite Hy. cbn. reflexivity.
Qed.

Lemma run_to_completion : forall ys evs y,
  is01 y = true -> all01 ys = true -> length evs = S (length ys) -> forallb is_io evs = true ->
  snd (asm_trace evs (running y (yields01 ys))) = asm_idle /\
  no_exn (fst (asm_trace evs (running y (yields01 ys)))) /\
  events (fst (asm_trace evs (running y (yields01 ys)))) = [EConnect].
Proof.
  induction ys as [|y1 ys IH]; intros evs y Hy Hall Hlen Hio.
  - destruct evs as [|c [|c2 evs]]; cbn [length] in Hlen; try lia.
    cbn [forallb] in Hio. apply andb_true_iff in Hio. destruct Hio as [Hc _].
    cbn [asm_trace]. rewrite (io_call_running y _ c Hy Hc). cbn. repeat split. repeat constructor.
  - destruct evs as [|c evs]; cbn [length] in Hlen; [lia|].
    cbn [forallb] in Hio. apply andb_true_iff in Hio. destruct Hio as [Hc Hio].
    cbn [all01 forallb] in Hall. apply andb_true_iff in Hall. destruct Hall as [Hy1 Hall].
    cbn [asm_trace]. rewrite (io_call_running y _ c Hy Hc).
    cbn [yields01 map do_finishing].
    change (set_result (Some y1) (set_hs (Some (map GY ys)) (running y (GY y1 :: map GY ys))))
      with (running y1 (yields01 ys)).
    specialize (IH evs y1 Hy1 Hall ltac:(lia) Hio).
    destruct (asm_trace evs (running y1 (yields01 ys))) as [os m]. cbn [fst snd] in *.
    destruct IH as [I1 [I2 I3]]. split; [exact I1|]. split.
    + unfold no_exn, exns in *. cbn [map fst snd]. constructor; [reflexivity|exact I2].
    + unfold events in *. cbn [map concat fst snd app]. exact I3.
Qed.

Lemma asm_handshake_completes ys evs :
  all01 ys = true -> length evs = length ys -> forallb is_io evs = true ->
  snd (asm_trace (SetHandshake (yields01 ys) :: evs) asm_idle) = asm_idle /\
  no_exn (fst (asm_trace (SetHandshake (yields01 ys) :: evs) asm_idle)) /\
  events (fst (asm_trace (SetHandshake (yields01 ys) :: evs) asm_idle)) = [EConnect].
Proof.
  intros Hall Hlen Hio. destruct ys as [|y ys].
  - destruct evs; [|cbn in Hlen; lia]. cbn. repeat split. repeat constructor.
  - cbn [all01 forallb] in Hall. apply andb_true_iff in Hall. destruct Hall as [Hy Hall].
    cbn [asm_trace asm_call]. change (check_assert 0 asm_idle) with true. cbn iota.
    cbn [yields01 map do_finishing].
    change (set_result (Some y) (set_hs (Some (map GY ys)) (set_hs (Some (GY y :: map GY ys)) asm_idle)))
      with (running y (yields01 ys)).
    pose proof (run_to_completion ys evs y Hy Hall ltac:(cbn [length] in Hlen; lia) Hio) as H.
    destruct (asm_trace evs (running y (yields01 ys))) as [os m]. cbn [fst snd] in *.
    destruct H as [I1 [I2 I3]]. split; [exact I1|]. split.
    + unfold no_exn, exns in *. cbn [map fst snd]. constructor; [reflexivity|exact I2].
    + unfold events in *. cbn [map concat fst snd app]. exact I3.
Qed.

Lemma active_ops_nonneg m : 0 <= active_ops m.
Proof. unfold active_ops. destruct (a_hs m), (a_cl m), (a_rd m), (a_wr m); cbn; lia. Qed.

Lemma busy_refuses m : 0 < active_ops m -> check_assert 0 m = false.
Proof.
  intros H. unfold check_assert.
  destruct (active_ops m <=? 0) eqn:E; [lia|]. apply andb_false_r.
Qed.

Lemma single_active m g : 0 < active_ops m ->
  asm_call (SetHandshake g) m = fail XAssert /\
  asm_call (SetClose g) m = fail XAssert /\
  asm_call (SetWrite g) m = fail XAssert.
Proof. intros H. cbn [asm_call]. rewrite (busy_refuses m H). repeat split. Qed.

(* ---- a READ operation, including one that has to write (yields 1) -------------------------- *)
Definition running_rd (y : Z) (g : gen) : asm :=
  {| a_hs := None; a_cl := None; a_rd := Some g; a_wr := None; a_result := Some y |}.

(* read AND write events both resume the active reader *)
Lemma io_call_running_rd y g c : is01 y = true -> is_io c = true ->
  asm_call c (running_rd y g) = do_read g (running_rd y g).
Proof.
  intros Hy Hc. destruct c as [g0|g0|g0|f|]; try discriminate; cbn [asm_call].
  - unfold check_assert, running_rd, active_ops. cbn [a_result a_hs a_cl a_rd a_wr is_some]. rewrite Hy. cbn. reflexivity.
  - unfold check_assert, running_rd, active_ops. cbn [a_result a_hs a_cl a_rd a_wr is_some]. rewrite Hy. cbn. reflexivity.
Qed.

(* while the reader is suspended on a write, the machine asks for a write event *)
Lemma reader_wants_write g : wants_write (running_rd 1 g) = Some true /\ wants_read (running_rd 1 g) = Some false.
Proof. split; reflexivity. Qed.

Lemma read_to_completion v (Hv : is01 v = false) : forall ys evs y,
  is01 y = true -> all01 ys = true -> length evs = S (length ys) -> forallb is_io evs = true ->
  snd (asm_trace evs (running_rd y (yields01 ys ++ [GY v]))) = asm_idle /\
  no_exn (fst (asm_trace evs (running_rd y (yields01 ys ++ [GY v])))) /\
  events (fst (asm_trace evs (running_rd y (yields01 ys ++ [GY v])))) = [ERead v].
Proof.
  induction ys as [|y1 ys IH]; intros evs y Hy Hall Hlen Hio.
  - destruct evs as [|c [|c2 evs]]; cbn [length] in Hlen; try lia.
    cbn [forallb] in Hio. apply andb_true_iff in Hio. destruct Hio as [Hc _].
    cbn [asm_trace yields01 map app]. rewrite (io_call_running_rd y _ c Hy Hc).
    cbn [do_read]. rewrite Hv. cbn. repeat split. repeat constructor.
  - destruct evs as [|c evs]; cbn [length] in Hlen; [lia|].
    cbn [forallb] in Hio. apply andb_true_iff in Hio. destruct Hio as [Hc Hio].
    cbn [all01 forallb] in Hall. apply andb_true_iff in Hall. destruct Hall as [Hy1 Hall].
    cbn [asm_trace]. rewrite (io_call_running_rd y _ c Hy Hc).
    cbn [yields01 map app do_read]. rewrite Hy1.
    change (set_result (Some y1) (set_rd (Some (map GY ys ++ [GY v])) (running_rd y (GY y1 :: map GY ys ++ [GY v]))))
      with (running_rd y1 (yields01 ys ++ [GY v])).
    specialize (IH evs y1 Hy1 Hall ltac:(lia) Hio).
    destruct (asm_trace evs (running_rd y1 (yields01 ys ++ [GY v]))) as [os m]. cbn [fst snd] in *.
    destruct IH as [I1 [I2 I3]]. split; [exact I1|]. split.
    + unfold no_exn, exns in *. cbn [map fst snd]. constructor; [reflexivity|exact I2].
    + unfold events in *. cbn [map concat fst snd app]. exact I3.
Qed.

Lemma asm_read_completes ys evs v :
  all01 ys = true -> is01 v = false -> length evs = length ys -> forallb is_io evs = true ->
  snd (asm_trace (InRead (yields01 ys ++ [GY v]) :: evs) asm_idle) = asm_idle /\
  no_exn (fst (asm_trace (InRead (yields01 ys ++ [GY v]) :: evs) asm_idle)) /\
  events (fst (asm_trace (InRead (yields01 ys ++ [GY v]) :: evs) asm_idle)) = [ERead v].
Proof.
  intros Hall Hv Hlen Hio. destruct ys as [|y ys].
  - destruct evs; [|cbn in Hlen; lia]. cbn [asm_trace asm_call yields01 map app].
    change (check_assert 1 asm_idle) with true. cbn iota. cbn [dispatch asm_idle a_hs a_cl a_rd a_wr do_read].
    rewrite Hv. cbn. repeat split. repeat constructor.
  - cbn [all01 forallb] in Hall. apply andb_true_iff in Hall. destruct Hall as [Hy Hall].
    cbn [asm_trace asm_call]. change (check_assert 1 asm_idle) with true. cbn iota.
    cbn [dispatch asm_idle a_hs a_cl a_rd a_wr yields01 map app do_read]. rewrite Hy.
    change (set_result (Some y) (set_rd (Some (map GY ys ++ [GY v]))
              (set_rd (Some (GY y :: map GY ys ++ [GY v])) asm_idle)))
      with (running_rd y (yields01 ys ++ [GY v])).
    pose proof (read_to_completion v Hv ys evs y Hy Hall ltac:(cbn [length] in Hlen; lia) Hio) as H.
    destruct (asm_trace evs (running_rd y (yields01 ys ++ [GY v]))) as [os m]. cbn [fst snd] in *.
    destruct H as [I1 [I2 I3]]. split; [exact I1|]. split.
    + unfold no_exn, exns in *. cbn [map fst snd]. constructor; [reflexivity|exact I2].
    + unfold events in *. cbn [map concat fst snd app]. exact I3.
Qed.
