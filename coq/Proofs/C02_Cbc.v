(* Every body accepted by the CBC MAC-and-padding specification decomposes as
   data ++ tag ++ padding ++ [padding length] (bodies are byte strings). *)
From Coq Require Import ZArith List Bool Lia.
From TV Require Import Base.Prelude Spec.CbcCheck Model.C01_RecordPipe Proofs.C01_Lists Proofs.C01_Cbc.
Import ListNotations.
Open Scope Z_scope.

Definition bytes_list (l : list Z) : Prop := forall x, In x l -> 0 <= x <= 255.

Lemma all_bytes_bytes_list l : all_bytes l = true -> bytes_list l.
Proof.
  intros H x Hx. unfold all_bytes in H. rewrite forallb_forall in H. specialize (H x Hx).
  unfold is_byte in H. apply andb_true_iff in H. destruct H as [H1 H2].
  apply Z.leb_le in H1. apply Z.ltb_lt in H2. lia.
Qed.

Lemma nthZ_in (l : list Z) i : 0 <= i < zlen l -> In (nthZ l i) l.
Proof. intros H. unfold nthZ. apply nth_In. unfold zlen in H. lia. Qed.

Lemma Forall_nthZ (l : list Z) (Q : Z -> Prop) : (forall j, 0 <= j < zlen l -> Q (nthZ l j)) -> Forall Q l.
Proof.
  induction l as [|x l IH]; intros H; [constructor|]. constructor.
  - apply (H 0). rewrite zlen_cons. pose proof (zlen_nonneg l). lia.
  - apply IH. intros j Hj. specialize (H (j + 1)). rewrite zlen_cons in H.
    replace (nthZ (x :: l) (j + 1)) with (nthZ l j) in H.
    + apply H. lia.
    + unfold nthZ. replace (Z.to_nat (j + 1)) with (S (Z.to_nat j)) by lia. reflexivity.
Qed.

Lemma list_len1 {A} (l : list A) : zlen l = 1 -> exists x, l = [x].
Proof.
  destruct l as [|x [|y l]]; intros H.
  - discriminate.
  - eauto.
  - rewrite !zlen_cons in H. pose proof (zlen_nonneg l). lia.
Qed.

Section Elim.
Variables (ver : Z * Z) (bs : Z) (mac : HMac) (seqb : list Z) (ty : Z).

Lemma well_formed_elim body : 0 <= mac_ds mac -> bytes_list body ->
  well_formed ver bs mac seqb ty body = true ->
  exists d t padb p, body = d ++ t ++ padb ++ [p] /\ zlen t = mac_ds mac /\
                     pad_ok ver bs padb p /\ t = tag_of ver mac seqb ty d /\ 0 <= p <= 255.
Proof.
  intros Hds Hbytes H. unfold well_formed in H. cbv zeta in H.
  set (n := zlen body) in *. set (p := nthZ body (n - 1)) in *.
  destruct (n <? mac_ds mac + 1) eqn:E1; [discriminate|].
  destruct (n <? p + 1 + mac_ds mac) eqn:E2; [discriminate|].
  apply andb_true_iff in H. destruct H as [Hpad Hmac]. apply list_eqb_spec in Hmac.
  assert (Hp : 0 <= p <= 255) by (apply Hbytes; apply nthZ_in; fold n; lia).
  set (m := n - p - 1 - mac_ds mac) in *.
  fold (zdrop m body) in Hmac. fold (ztake (mac_ds mac) (zdrop m body)) in Hmac. fold (ztake m body) in Hmac.
  set (d := ztake m body) in *. set (rest := zdrop m body) in *.
  assert (Hbody : body = d ++ rest) by (symmetry; apply ztake_zdrop).
  assert (Hdl : zlen d = m) by (apply zlen_ztake; fold n; lia).
  assert (Hrl : zlen rest = p + 1 + mac_ds mac) by (unfold rest; rewrite zlen_zdrop; fold n; lia).
  set (t := ztake (mac_ds mac) rest) in *. set (rest2 := zdrop (mac_ds mac) rest).
  assert (Hrest : rest = t ++ rest2) by (symmetry; apply ztake_zdrop).
  assert (Htl : zlen t = mac_ds mac) by (apply zlen_ztake; lia).
  assert (Hr2l : zlen rest2 = p + 1) by (unfold rest2; rewrite zlen_zdrop; lia).
  set (padb := ztake p rest2). set (lst := zdrop p rest2).
  assert (Hrest2 : rest2 = padb ++ lst) by (symmetry; apply ztake_zdrop).
  assert (Hpl : zlen padb = p) by (apply zlen_ztake; lia).
  assert (Hll : zlen lst = 1) by (unfold lst; rewrite zlen_zdrop; lia).
  destruct (list_len1 lst Hll) as [x Hx].
  assert (Hdecomp : body = d ++ t ++ padb ++ [x]).
  { rewrite Hbody at 1. rewrite Hrest at 1. rewrite Hrest2 at 1. rewrite Hx. reflexivity. }
  assert (Hxp : x = p).
  { unfold p. rewrite Hdecomp at 1.
    replace (n - 1) with (zlen (d ++ t ++ padb ++ [x]) - 1) by (rewrite <- Hdecomp; reflexivity).
    replace (d ++ t ++ padb ++ [x]) with ((d ++ t ++ padb) ++ [x]) by (rewrite <- !app_assoc; reflexivity).
    symmetry. apply nthZ_app_last. }
  exists d, t, padb, p. rewrite <- Hxp at 1. split; [exact Hdecomp|]. split; [exact Htl|].
  split; [|split; [|exact Hp]].
  - split; [exact Hpl|]. revert Hpad. destruct (is_ssl3 ver); intros Hpad; [apply Z.leb_le; exact Hpad|].
    rewrite forallb_forall in Hpad. apply Forall_nthZ. intros j Hj.
    specialize (Hpad (n - 1 - p + j)). rewrite in_zrange in Hpad. specialize (Hpad ltac:(lia)).
    apply Z.eqb_eq in Hpad. rewrite <- Hpad. rewrite Hdecomp.
    rewrite nthZ_app_r by lia. rewrite nthZ_app_r by lia. rewrite nthZ_app_l by lia.
    f_equal. unfold m in Hdl. lia.
  - unfold tag_of. rewrite Hdl. exact Hmac.
Qed.
End Elim.
