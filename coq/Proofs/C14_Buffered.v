(* C14 lemmas: BufferedSocket write side.  Whatever mixture of buffered and direct
   sends and flushes the layer above performs, over any partial-accept schedule the
   bytes reach the wire in the order they were sent; and the witness that a
   would-block during flush() breaks this. *)
From Coq Require Import ZArith List Bool Lia.
From TV Require Import Base.Prelude Model.C14_Transport Model.C14_Buffered Proofs.C14_Transport.
Import ListNotations.
Open Scope Z_scope.

Lemma send_all_accept_only : forall s data y wire,
  forallb sev_accept_only s = true ->
  (forall e, snd (fst (fst (send_all data y wire s))) <> Raised e) /\
  forallb sev_accept_only (snd (send_all data y wire s)) = true.
Proof.
  induction s as [|ev s IH]; intros data y wire Hall.
  - cbn. split; [intros; discriminate|reflexivity].
  - cbn [forallb] in Hall. apply andb_true_iff in Hall. destruct Hall as [Hev Hall].
    destruct ev as [k|e0]; [|cbn in Hev; discriminate].
    cbn [send_all]. destruct (accepted k data =? zlen data).
    + cbn [fst snd]. split; [intros; discriminate|exact Hall].
    + apply IH. exact Hall.
Qed.

Lemma sock_sendall_rest_accept_only : forall s data wire,
  forallb sev_accept_only s = true ->
  forallb sev_accept_only (snd (sock_sendall data wire s)) = true.
Proof.
  induction s as [|ev s IH]; intros data wire Hall.
  - reflexivity.
  - cbn [forallb] in Hall. apply andb_true_iff in Hall. destruct Hall as [Hev Hall].
    destruct ev as [k|e0]; [|cbn in Hev; discriminate].
    cbn [sock_sendall]. destruct (accepted k data =? zlen data).
    + cbn [snd]. exact Hall.
    + apply IH. exact Hall.
Qed.

Definition o_of (r : Z * outcome unit * bsock * list Z * list sev) := snd (fst (fst (fst r))).
Definition b_of (r : Z * outcome unit * bsock * list Z * list sev) := snd (fst (fst r)).
Definition w_of (r : Z * outcome unit * bsock * list Z * list sev) := snd (fst r).

Lemma sent_data_cons o ops :
  sent_data (o :: ops) = (match o with WSend d => d | _ => [] end) ++ sent_data ops.
Proof. reflexivity. Qed.

Lemma concat_snoc {A} (q : list (list A)) d : concat (q ++ [d]) = concat q ++ d.
Proof. rewrite concat_app. cbn. rewrite app_nil_r. reflexivity. Qed.

(* the loop of flush_async is the loop of _sockSendAll *)
Lemma flush_loop_is_send_all : forall s buf y wire, flush_loop buf y wire s = send_all buf y wire s.
Proof.
  induction s as [|ev s IH]; intros buf y wire; [reflexivity|].
  destruct ev as [k|e]; cbn [flush_loop send_all].
  - pose proof (accepted_range k buf) as Hr.
    rewrite zlen_skipn by lia.
    destruct (accepted k buf =? zlen buf) eqn:E.
    + apply Z.eqb_eq in E. rewrite E. replace (zlen buf - zlen buf =? 0) with true by (symmetry; apply Z.eqb_eq; lia).
      unfold zlen. rewrite Nat2Z.id. rewrite firstn_all. reflexivity.
    + destruct (zlen buf - accepted k buf =? 0) eqn:E2; [lia|]. apply IH.
  - destruct (is_wb e); [apply IH|reflexivity].
Qed.

(* tlslite's discipline: buffer_writes is only switched off (and a direct send only made)
   when the queue has been flushed.  [bwf] = buffering on, [qe] = queue known empty. *)
Fixpoint disciplined (ops : list wop) (bwf qe : bool) : bool :=
  match ops with
  | [] => true
  | WSend _ :: r => if bwf then disciplined r true false else qe && disciplined r false qe
  | WFlush :: r => disciplined r bwf true
  | WFlushA :: r => disciplined r bwf true
  | WBuffer v :: r => (v || qe) && disciplined r v qe
  end.

Definition q_empty (bsk : bsock) : bool := zlen (concat (queue bsk)) =? 0.

Lemma disciplined_weaken ops : forall bwf, disciplined ops bwf false = true -> disciplined ops bwf true = true.
Proof.
  induction ops as [|op ops IH]; intros bwf H; [reflexivity|].
  destruct op as [d| | |v]; cbn [disciplined] in *.
  - destruct bwf; [exact H|]. cbn in H. discriminate.
  - exact H.
  - exact H.
  - apply andb_true_iff in H. destruct H as [H1 H2]. apply andb_true_iff.
    split; [destruct v; [reflexivity|cbn in H1; discriminate]|]. apply IH. exact H2.
Qed.

(* the order invariant: wire followed by what is still queued is always the data sent so far *)
Lemma bs_run_order : forall ops y bsk wire s,
  forallb sev_accept_only s = true ->
  disciplined ops (bw bsk) (q_empty bsk) = true ->
  let r := bs_run ops y bsk wire s in
  (forall e, o_of r <> Raised e) /\
  (o_of r = Done tt ->
     w_of r ++ concat (queue (b_of r)) = wire ++ concat (queue bsk) ++ sent_data ops).
Proof.
  induction ops as [|op ops IH]; intros y bsk wire s Hs Hd; cbn zeta.
  - cbn. split; [intros; discriminate|]. intros _. rewrite app_nil_r. reflexivity.
  - destruct op as [d| | |v]; cbn [bs_run]; rewrite sent_data_cons; cbn [disciplined] in Hd.
    + (* WSend *)
      unfold bs_send_all. destruct (bw bsk) eqn:Eb.
      * assert (Hd' : disciplined ops true (q_empty {| bw := true; queue := queue bsk ++ [d] |}) = true).
        { destruct (q_empty {| bw := true; queue := queue bsk ++ [d] |}); [apply disciplined_weaken|]; exact Hd. }
        specialize (IH (y + 0) {| bw := true; queue := queue bsk ++ [d] |} wire s Hs Hd').
        cbn zeta in IH. destruct IH as [IH1 IH2]. split; [exact IH1|].
        intros Hdone. rewrite (IH2 Hdone). cbn [queue]. rewrite concat_snoc, <- !app_assoc. reflexivity.
      * apply andb_true_iff in Hd. destruct Hd as [Hq Hd].
        assert (Hq' : concat (queue bsk) = []).
        { rewrite Hq in *. unfold q_empty in Hq. apply Z.eqb_eq in Hq. apply zlen_nil. exact Hq. }
        pose proof (send_all_accept_only s d 0 wire Hs) as [Hn Hr].
        pose proof (send_all_exact_l s d 0 wire) as Hex. cbn zeta in Hex.
        destruct (send_all d 0 wire s) as [[[y1 o1] w1] s1].
        cbn [fst snd] in *. destruct Hex as [sent [rest [H1 [H2 [H3 _]]]]].
        destruct o1 as [[]|e|].
        -- assert (Hd2 : disciplined ops (bw bsk) (q_empty bsk) = true) by (rewrite Eb; exact Hd).
           specialize (IH (y + y1) bsk w1 s1 Hr Hd2). cbn zeta in IH. destruct IH as [IH1 IH2].
           split; [exact IH1|]. intros Hdone. rewrite (IH2 Hdone).
           rewrite (H3 eq_refl) in H1. rewrite app_nil_r in H1. subst sent w1.
           rewrite Hq'. cbn [app]. rewrite <- app_assoc. reflexivity.
        -- exfalso. exact (Hn e eq_refl).
        -- unfold o_of. cbn [fst snd]. split; intros; discriminate.
    + (* WFlush *)
      unfold bs_flush.
      destruct (zlen (concat (queue bsk)) =? 0) eqn:Ez.
      * assert (Hd' : disciplined ops (bw {| bw := bw bsk; queue := [] |}) (q_empty {| bw := bw bsk; queue := [] |}) = true)
          by exact Hd.
        specialize (IH y {| bw := bw bsk; queue := [] |} wire s Hs Hd'). cbn zeta in IH.
        destruct IH as [IH1 IH2]. split; [exact IH1|].
        intros Hdone. rewrite (IH2 Hdone). cbn [queue concat app].
        apply Z.eqb_eq in Ez. apply zlen_nil in Ez. rewrite Ez. reflexivity.
      * pose proof (sock_sendall_accept_only s (concat (queue bsk)) wire Hs) as Hn.
        pose proof (sock_sendall_rest_accept_only s (concat (queue bsk)) wire Hs) as Hr.
        pose proof (sock_sendall_exact_l s (concat (queue bsk)) wire) as Hex. cbn zeta in Hex.
        destruct (sock_sendall (concat (queue bsk)) wire s) as [[o1 w1] s1].
        cbn [fst snd] in *. destruct Hex as [sent [rest [H1 [H2 H3]]]].
        destruct o1 as [[]|e|].
        -- assert (Hd' : disciplined ops (bw {| bw := bw bsk; queue := [] |}) (q_empty {| bw := bw bsk; queue := [] |}) = true)
             by exact Hd.
           specialize (IH y {| bw := bw bsk; queue := [] |} w1 s1 Hr Hd'). cbn zeta in IH.
           destruct IH as [IH1 IH2]. split; [exact IH1|].
           intros Hdone. rewrite (IH2 Hdone). cbn [queue concat app].
           rewrite (H3 eq_refl) in H1. rewrite app_nil_r in H1. subst w1. rewrite H1.
           rewrite <- app_assoc. reflexivity.
        -- exfalso. exact (Hn e eq_refl).
        -- unfold o_of. cbn [fst snd]. split; intros; discriminate.
    + (* WFlushA *)
      unfold bs_flush_async.
      destruct (zlen (concat (queue bsk)) =? 0) eqn:Ez.
      * assert (Hd' : disciplined ops (bw {| bw := bw bsk; queue := [] |}) (q_empty {| bw := bw bsk; queue := [] |}) = true)
          by exact Hd.
        specialize (IH (y + 0) {| bw := bw bsk; queue := [] |} wire s Hs Hd'). cbn zeta in IH.
        destruct IH as [IH1 IH2]. split; [exact IH1|].
        intros Hdone. rewrite (IH2 Hdone). cbn [queue concat app].
        apply Z.eqb_eq in Ez. apply zlen_nil in Ez. rewrite Ez. reflexivity.
      * rewrite flush_loop_is_send_all.
        pose proof (send_all_accept_only s (concat (queue bsk)) 0 wire Hs) as [Hn Hr].
        pose proof (send_all_exact_l s (concat (queue bsk)) 0 wire) as Hex. cbn zeta in Hex.
        destruct (send_all (concat (queue bsk)) 0 wire s) as [[[y1 o1] w1] s1].
        cbn [fst snd] in *. destruct Hex as [sent [rest [H1 [H2 [H3 _]]]]].
        destruct o1 as [[]|e|].
        -- assert (Hd' : disciplined ops (bw {| bw := bw bsk; queue := [] |}) (q_empty {| bw := bw bsk; queue := [] |}) = true)
             by exact Hd.
           specialize (IH (y + y1) {| bw := bw bsk; queue := [] |} w1 s1 Hr Hd'). cbn zeta in IH.
           destruct IH as [IH1 IH2]. split; [exact IH1|].
           intros Hdone. rewrite (IH2 Hdone). cbn [queue concat app].
           rewrite (H3 eq_refl) in H1. rewrite app_nil_r in H1. subst w1. rewrite H1.
           rewrite <- app_assoc. reflexivity.
        -- exfalso. exact (Hn e eq_refl).
        -- unfold o_of. cbn [fst snd]. split; intros; discriminate.
    + (* WBuffer *)
      apply andb_true_iff in Hd. destruct Hd as [_ Hd].
      apply (IH y (bs_set_buffering v bsk) wire s Hs). exact Hd.
Qed.

Lemma disciplined_flight_tail msgs : forall qe,
  disciplined (map WSend msgs ++ [WFlush; WBuffer false]) true qe = true.
Proof.
  induction msgs as [|m ms IH]; intros qe; cbn [map app disciplined].
  - reflexivity.
  - apply IH.
Qed.

Lemma sent_data_flight msgs : sent_data (flight msgs) = concat msgs.
Proof.
  unfold flight. rewrite sent_data_cons. cbn [app].
  induction msgs as [|m ms IH]; cbn [map app]; [reflexivity|].
  rewrite sent_data_cons. cbn [concat]. f_equal. exact IH.
Qed.

Lemma run_done_queue_empty_after_flush : forall msgs y bsk wire s,
  o_of (bs_run (map WSend msgs ++ [WFlush; WBuffer false]) y bsk wire s) = Done tt ->
  bw bsk = true ->
  b_of (bs_run (map WSend msgs ++ [WFlush; WBuffer false]) y bsk wire s) = {| bw := false; queue := [] |}.
Proof.
  induction msgs as [|m ms IH]; intros y bsk wire s Hdone Hb; cbn [map app] in *.
  - cbn [bs_run] in *. unfold bs_flush in *.
    destruct (zlen (concat (queue bsk)) =? 0).
    + cbn. reflexivity.
    + destruct (sock_sendall (concat (queue bsk)) wire s) as [[o1 w1] s1].
      destruct o1 as [[]|e|]; [reflexivity| |]; unfold o_of in Hdone; cbn in Hdone; discriminate.
  - cbn [bs_run] in *. unfold bs_send_all in *. rewrite Hb in *. apply IH; [exact Hdone|reflexivity].
Qed.

(* the flight pattern used by tlslite, over every accept-only schedule *)
Lemma flight_order msgs wire s :
  forallb sev_accept_only s = true ->
  let r := bs_run (flight msgs) 0 bs_init wire s in
  (forall e, o_of r <> Raised e) /\
  (o_of r = Done tt -> w_of r = wire ++ concat msgs /\ b_of r = bs_init).
Proof.
  intros Hs. cbn zeta.
  pose proof (bs_run_order (flight msgs) 0 bs_init wire s Hs) as H.
  assert (Hd : disciplined (flight msgs) (bw bs_init) (q_empty bs_init) = true).
  { unfold flight. cbn [disciplined bs_init bw orb andb]. apply disciplined_flight_tail. }
  specialize (H Hd). cbn zeta in H. destruct H as [H1 H2].
  split; [exact H1|]. intros Hdone. specialize (H2 Hdone).
  assert (Hb : b_of (bs_run (flight msgs) 0 bs_init wire s) = bs_init).
  { unfold flight in *. cbn [bs_run] in *. apply run_done_queue_empty_after_flush; [exact Hdone|reflexivity]. }
  split; [|exact Hb].
  rewrite Hb in H2. cbn [bs_init queue concat] in H2. rewrite app_nil_r in H2.
  rewrite H2, sent_data_flight. reflexivity.
Qed.

(* ---- the full statement is false: would-block during flush() ---------------------------- *)
Definition wb_witness_msgs : list (list Z) := [[1; 2; 3]].
Definition wb_witness_script : list sev := [Accept 1; SBlock; Accept 5].

Lemma flush_would_block_loses_data :
  forallb sev_ok wb_witness_script = true /\
  (* the unbuffered generator path delivers everything over this schedule ... *)
  send_all (concat wb_witness_msgs) 0 [] wb_witness_script = (2, Done tt, [1; 2; 3], []) /\
  (* ... the buffered flight raises EWOULDBLOCK, one byte on the wire, the rest gone *)
  bs_run (flight wb_witness_msgs) 0 bs_init [] wb_witness_script
    = (0, Raised (SockError EWOULDBLOCK), {| bw := true; queue := [] |}, [1], [Accept 5]).
Proof. vm_compute. repeat split. Qed.

Lemma flush_would_block_refutes :
  exists msgs (s : list sev),
  forallb sev_ok s = true /\
  snd (fst (fst (send_all (concat msgs) 0 [] s))) = Done tt /\
  o_of (bs_run (flight msgs) 0 bs_init [] s) = Raised (SockError EWOULDBLOCK) /\
  w_of (bs_run (flight msgs) 0 bs_init [] s) <> concat msgs /\
  queue (b_of (bs_run (flight msgs) 0 bs_init [] s)) = [].
Proof.
  exists wb_witness_msgs, wb_witness_script.
  vm_compute. repeat split; try reflexivity. intros H; discriminate.
Qed.

(* ==== the generator path (flush_async) over EVERY schedule ================================== *)
Definition s_of (r : Z * outcome unit * bsock * list Z * list sev) := snd r.
Definition real_error (e : exc) : Prop := exists n, e = SockError n /\ is_wb n = false.

Lemma no_sync_cons op ops : no_sync_flush (op :: ops) = true ->
  op <> WFlush /\ no_sync_flush ops = true.
Proof.
  unfold no_sync_flush. cbn [forallb]. intros H. apply andb_true_iff in H. destruct H as [H1 H2].
  split; [intros ->; discriminate|exact H2].
Qed.

(* any disciplined mixture of buffered sends, direct sends and flush_async over ANY schedule
   (would-blocks, partial accepts, failures, exhaustion):
   - completes  => wire ++ queue is exactly the data sent so far, in order;
   - raises     => only a real socket error of the schedule, never a would-block;
   - suspended  => only because the schedule is exhausted. *)
Lemma bs_run_order_full : forall ops y bsk wire s,
  no_sync_flush ops = true ->
  disciplined ops (bw bsk) (q_empty bsk) = true ->
  let r := bs_run ops y bsk wire s in
  (o_of r = Done tt ->
     w_of r ++ concat (queue (b_of r)) = wire ++ concat (queue bsk) ++ sent_data ops) /\
  (forall e, o_of r = Raised e -> real_error e) /\
  (o_of r = Pending -> s_of r = []).
Proof.
  induction ops as [|op ops IH]; intros y bsk wire s Hns Hd; cbn zeta.
  - cbn. split; [intros _; rewrite app_nil_r; reflexivity|]. split; intros; discriminate.
  - destruct (no_sync_cons op ops Hns) as [Hop Hns'].
    destruct op as [d| | |v]; [| congruence | |]; cbn [bs_run]; rewrite sent_data_cons; cbn [disciplined] in Hd.
    + (* WSend *)
      unfold bs_send_all. destruct (bw bsk) eqn:Eb.
      * assert (Hd' : disciplined ops true (q_empty {| bw := true; queue := queue bsk ++ [d] |}) = true).
        { destruct (q_empty {| bw := true; queue := queue bsk ++ [d] |}); [apply disciplined_weaken|]; exact Hd. }
        specialize (IH (y + 0) {| bw := true; queue := queue bsk ++ [d] |} wire s Hns' Hd').
        cbn zeta in IH. destruct IH as [IH1 IH2]. split; [|exact IH2].
        intros Hdone. rewrite (IH1 Hdone). cbn [queue]. rewrite concat_snoc, <- !app_assoc. reflexivity.
      * apply andb_true_iff in Hd. destruct Hd as [Hq Hd].
        assert (Hq' : concat (queue bsk) = []).
        { unfold q_empty in Hq. apply Z.eqb_eq in Hq. apply zlen_nil. exact Hq. }
        pose proof (send_all_exact_l s d 0 wire) as Hex. cbn zeta in Hex.
        destruct (send_all d 0 wire s) as [[[y1 o1] w1] s1].
        cbn [fst snd] in *. destruct Hex as [sent [rest [H1 [H2 [H3 [H4 H5]]]]]].
        destruct o1 as [[]|e|].
        -- assert (Hd2 : disciplined ops (bw bsk) (q_empty bsk) = true) by (rewrite Eb; exact Hd).
           specialize (IH (y + y1) bsk w1 s1 Hns' Hd2). cbn zeta in IH. destruct IH as [IH1 IH2].
           split; [|exact IH2]. intros Hdone. rewrite (IH1 Hdone).
           rewrite (H3 eq_refl) in H1. rewrite app_nil_r in H1. subst sent w1.
           rewrite Hq'. cbn [app]. rewrite <- app_assoc. reflexivity.
        -- unfold o_of, s_of. cbn [fst snd]. split; [intros; discriminate|].
           split; [intros e0 He; injection He as <-; apply H4; reflexivity|intros; discriminate].
        -- unfold o_of, s_of. cbn [fst snd]. split; [intros; discriminate|].
           split; [intros; discriminate|intros _; apply H5; reflexivity].
    + (* WFlushA *)
      unfold bs_flush_async.
      destruct (zlen (concat (queue bsk)) =? 0) eqn:Ez.
      * assert (Hd' : disciplined ops (bw {| bw := bw bsk; queue := [] |}) (q_empty {| bw := bw bsk; queue := [] |}) = true)
          by exact Hd.
        specialize (IH (y + 0) {| bw := bw bsk; queue := [] |} wire s Hns' Hd'). cbn zeta in IH.
        destruct IH as [IH1 IH2]. split; [|exact IH2].
        intros Hdone. rewrite (IH1 Hdone). cbn [queue concat app].
        apply Z.eqb_eq in Ez. apply zlen_nil in Ez. rewrite Ez. reflexivity.
      * rewrite flush_loop_is_send_all.
        pose proof (send_all_exact_l s (concat (queue bsk)) 0 wire) as Hex. cbn zeta in Hex.
        destruct (send_all (concat (queue bsk)) 0 wire s) as [[[y1 o1] w1] s1].
        cbn [fst snd] in *. destruct Hex as [sent [rest [H1 [H2 [H3 [H4 H5]]]]]].
        destruct o1 as [[]|e|].
        -- assert (Hd' : disciplined ops (bw {| bw := bw bsk; queue := [] |}) (q_empty {| bw := bw bsk; queue := [] |}) = true)
             by exact Hd.
           specialize (IH (y + y1) {| bw := bw bsk; queue := [] |} w1 s1 Hns' Hd'). cbn zeta in IH.
           destruct IH as [IH1 IH2]. split; [|exact IH2].
           intros Hdone. rewrite (IH1 Hdone). cbn [queue concat app].
           rewrite (H3 eq_refl) in H1. rewrite app_nil_r in H1. subst w1. rewrite H1.
           rewrite <- app_assoc. reflexivity.
        -- unfold o_of, s_of. cbn [fst snd]. split; [intros; discriminate|].
           split; [intros e0 He; injection He as <-; apply H4; reflexivity|intros; discriminate].
        -- unfold o_of, s_of. cbn [fst snd]. split; [intros; discriminate|].
           split; [intros; discriminate|intros _; apply H5; reflexivity].
    + (* WBuffer *)
      apply andb_true_iff in Hd. destruct Hd as [_ Hd].
      apply (IH y (bs_set_buffering v bsk) wire s Hns'). exact Hd.
Qed.

(* a buffered flight IS one _sockSendAll of the concatenated messages: same yields, outcome,
   wire and remaining schedule, for every schedule *)
Lemma run_buffered_sends : forall msgs y bsk wire s tail,
  bw bsk = true ->
  bs_run (map WSend msgs ++ tail) y bsk wire s =
  bs_run tail y {| bw := true; queue := queue bsk ++ msgs |} wire s.
Proof.
  induction msgs as [|m ms IH]; intros y bsk wire s tail Hb; cbn [map app].
  - rewrite app_nil_r. destruct bsk as [b q]. cbn in Hb. subst b. reflexivity.
  - cbn [bs_run]. unfold bs_send_all. rewrite Hb.
    rewrite IH by reflexivity. cbn [queue]. rewrite <- app_assoc. cbn [app].
    replace (y + 0) with y by lia. reflexivity.
Qed.

Lemma flight_a_is_send_all msgs wire s :
  zlen (concat msgs) <> 0 ->
  let '(y, o, w, s') := send_all (concat msgs) 0 wire s in
  bs_run (flight_a msgs) 0 bs_init wire s =
  (y, o, match o with Done _ => bs_init | _ => {| bw := true; queue := [] |} end, w, s').
Proof.
  intros Hne. unfold flight_a. cbn [bs_run].
  rewrite run_buffered_sends by reflexivity. cbn [bs_init bs_set_buffering queue app bs_run].
  unfold bs_flush_async. cbn [queue bw].
  destruct (zlen (concat msgs) =? 0) eqn:E; [apply Z.eqb_eq in E; contradiction|].
  rewrite flush_loop_is_send_all.
  destruct (send_all (concat msgs) 0 wire s) as [[[y o] w] s'].
  destruct o as [[]|e|]; reflexivity.
Qed.

Lemma flight_a_empty msgs wire s :
  zlen (concat msgs) = 0 ->
  bs_run (flight_a msgs) 0 bs_init wire s = (0, Done tt, bs_init, wire, s).
Proof.
  intros He. unfold flight_a. cbn [bs_run].
  rewrite run_buffered_sends by reflexivity. cbn [bs_init bs_set_buffering queue app bs_run].
  unfold bs_flush_async. cbn [queue bw]. rewrite He. cbn. reflexivity.
Qed.

(* the flight pattern over every schedule: exact, ordered, complete when it completes *)
Lemma flight_a_order msgs wire s :
  let r := bs_run (flight_a msgs) 0 bs_init wire s in
  exists sent rest, concat msgs = sent ++ rest /\ w_of r = wire ++ sent /\
    (o_of r = Done tt -> rest = [] /\ b_of r = bs_init) /\
    (forall e, o_of r = Raised e -> real_error e) /\
    (o_of r = Pending -> s_of r = []).
Proof.
  cbn zeta. destruct (zlen (concat msgs) =? 0) eqn:E.
  - apply Z.eqb_eq in E. rewrite (flight_a_empty msgs wire s E).
    apply zlen_nil in E. exists [], []. rewrite E, !app_nil_r.
    unfold o_of, w_of, b_of, s_of. cbn [fst snd].
    split; [reflexivity|]. split; [reflexivity|]. split; [intros _; split; reflexivity|].
    split; intros; discriminate.
  - apply Z.eqb_neq in E. pose proof (flight_a_is_send_all msgs wire s E) as H.
    pose proof (send_all_exact_l s (concat msgs) 0 wire) as Hex. cbn zeta in Hex.
    destruct (send_all (concat msgs) 0 wire s) as [[[y o] w] s'].
    rewrite H. cbn [fst snd] in Hex. destruct Hex as [sent [rest [H1 [H2 [H3 [H4 H5]]]]]].
    exists sent, rest. unfold o_of, w_of, b_of, s_of. cbn [fst snd].
    split; [exact H1|]. split; [exact H2|].
    split; [intros Hd; split; [apply H3; exact Hd|rewrite Hd; reflexivity]|].
    split; [exact H4|exact H5].
Qed.

(* and it completes on every schedule without hard failures that keeps accepting *)
Lemma flight_a_completes msgs wire s :
  forallb pos_accept_or_wb s = true -> Z.max 1 (zlen (concat msgs)) <= n_accepts s ->
  o_of (bs_run (flight_a msgs) 0 bs_init wire s) = Done tt /\
  w_of (bs_run (flight_a msgs) 0 bs_init wire s) = wire ++ concat msgs.
Proof.
  intros Hs Hn. destruct (zlen (concat msgs) =? 0) eqn:E.
  - apply Z.eqb_eq in E. rewrite (flight_a_empty msgs wire s E).
    apply zlen_nil in E. rewrite E, app_nil_r. split; reflexivity.
  - apply Z.eqb_neq in E. pose proof (flight_a_is_send_all msgs wire s E) as H.
    pose proof (send_all_completes s (concat msgs) 0 wire Hs Hn) as Hc.
    pose proof (send_all_exact_l s (concat msgs) 0 wire) as Hex. cbn zeta in Hex.
    destruct (send_all (concat msgs) 0 wire s) as [[[y o] w] s'].
    rewrite H. cbn [fst snd] in *. subst o. unfold o_of, w_of. cbn [fst snd].
    destruct Hex as [sent [rest [H1 [H2 [H3 _]]]]]. rewrite (H3 eq_refl), app_nil_r in H1.
    subst sent. split; [reflexivity|exact H2].
Qed.

(* on the very schedule that breaks the blocking-socket flush(), the generator flight delivers *)
Lemma flight_a_on_witness :
  bs_run (flight_a wb_witness_msgs) 0 bs_init [] wb_witness_script = (2, Done tt, bs_init, [1; 2; 3], []).
Proof. vm_compute. reflexivity. Qed.

Lemma sync_flush_wouldblock_witness :
  exists msgs (s : list sev),
  forallb sev_ok s = true /\
  snd (fst (fst (send_all (concat msgs) 0 [] s))) = Done tt /\
  o_of (bs_run (flight_a msgs) 0 bs_init [] s) = Done tt /\
  o_of (bs_run (flight msgs) 0 bs_init [] s) = Raised (SockError EWOULDBLOCK) /\
  w_of (bs_run (flight msgs) 0 bs_init [] s) <> concat msgs /\
  queue (b_of (bs_run (flight msgs) 0 bs_init [] s)) = [].
Proof.
  exists wb_witness_msgs, wb_witness_script.
  vm_compute. repeat split; try reflexivity. intros H; discriminate.
Qed.
