(* C15 -- generic round-trip and strictness lemmas for the format language
   (Model/C15_Fmt.v), by induction over the format term. *)
From Coq Require Import ZArith List Bool Lia.
From TV Require Import Base.Prelude Model.C15_Codec Model.C15_Fmt Proofs.C15_Codec.
Import ListNotations.
Open Scope Z_scope.

(* ---- take --------------------------------------------------------------------- *)
Lemma take_ok n bs a r : take n bs = Ok (a, r) -> bs = a ++ r /\ zlen a = n /\ 0 <= n.
Proof.
  unfold take. destruct ((0 <=? n) && (n <=? zlen bs)) eqn:E; [|discriminate].
  intros H. injection H as <- <-. apply andb_true_iff in E. destruct E as [E1 E2].
  split; [symmetry; apply firstn_skipn|]. split; [|lia].
  unfold zlen in *. rewrite firstn_length. lia.
Qed.

Lemma take_app a r : take (zlen a) (a ++ r) = Ok (a, r).
Proof.
  unfold take. rewrite zlen_app. pose proof (zlen_nonneg a). pose proof (zlen_nonneg r).
  destruct ((0 <=? zlen a) && (zlen a <=? zlen a + zlen r)) eqn:E; [|lia].
  unfold zlen. rewrite Nat2Z.id. destruct (firstn_skipn_app a r) as [-> ->]. reflexivity.
Qed.

Lemma take_err n bs e : take n bs = Err e -> e = DecodeError.
Proof.
  unfold take. destruct ((0 <=? n) && (n <=? zlen bs)); [discriminate|]. congruence.
Qed.

Lemma take_short n bs : zlen bs < n -> take n bs = Err DecodeError.
Proof.
  intros H. unfold take. destruct ((0 <=? n) && (n <=? zlen bs)) eqn:E; [lia|reflexivity].
Qed.

Lemma zlen_be_bytes n x : 0 <= n -> zlen (be_bytes (Z.to_nat n) x) = n.
Proof. intros H. unfold zlen. rewrite be_bytes_length. lia. Qed.

Lemma length_zlen {A} (a b : list A) : (length a < length b)%nat <-> zlen a < zlen b.
Proof. unfold zlen. lia. Qed.

Lemma zlen_nil_iff {A} (a : list A) : zlen a = 0 <-> a = [].
Proof. unfold zlen. destruct a; cbn; split; try reflexivity; try discriminate; lia. Qed.

Lemma is_nil_true {A} (l : list A) : is_nil l = true <-> l = [].
Proof. destruct l; cbn; split; congruence. Qed.

(* unfolding of the nested fixpoints *)
Lemma encode_rep_cons f h t :
  encode (FRep f) (VCons h t) = (x <- encode f h ;; y <- encode (FRep f) t ;; Ok (x ++ y)).
Proof. reflexivity. Qed.
Lemma encode_rep_nil f : encode (FRep f) VNil = Ok [].
Proof. reflexivity. Qed.
Lemma wf_val_rep_cons f h t : wf_val (FRep f) (VCons h t) = (wf_val f h /\ wf_val (FRep f) t).
Proof. reflexivity. Qed.
Lemma vsize_rep_cons f h t : vsize (FRep f) (VCons h t) = vsize f h + vsize (FRep f) t.
Proof. reflexivity. Qed.

Tactic Notation "bind_in" hyp(H) "as" ident(a) ident(r) ident(E) :=
  match type of H with
  | bind ?m _ = _ => destruct m as [[a r]|?] eqn:E; cbn [bind] in H; [|try discriminate]
  end.
Tactic Notation "bind1_in" hyp(H) "as" ident(a) ident(E) :=
  match type of H with
  | bind ?m _ = _ => destruct m as [a|?] eqn:E; cbn [bind] in H; [|try discriminate]
  end.

(* ---- rep_dec -------------------------------------------------------------------- *)
Lemma rep_dec_rest dec fuel bs v r : rep_dec dec fuel bs = Ok (v, r) -> r = [].
Proof.
  revert bs v r. induction fuel as [|k IH]; intros bs v r H; destruct bs as [|b bs].
  - cbn in H. congruence.
  - cbn in H. discriminate.
  - cbn in H. congruence.
  - cbn [rep_dec] in H. bind_in H as a1 r1 E.
    destruct (length r1 <? length (b :: bs))%nat; [|discriminate].
    bind_in H as a2 r2 E0. injection H as _ <-. eapply IH. exact E0.
Qed.

(* ---- 1. what decode consumes is a prefix, and (self-delimiting formats) depends on
        nothing but that prefix ---------------------------------------------------- *)
Lemma decode_prefix_det f :
  wf_fmt f -> forall bs v r, decode f bs = Ok (v, r) ->
  exists pre, bs = pre ++ r /\ (delim f -> forall r', decode f (pre ++ r') = Ok (v, r')).
Proof.
  induction f as [n|n c|n|lo hi|f1 IH1 f2 IH2|ll f1 IH1|f1 IH1|f1 IH1|n sel IH|p f1 IH1];
    intros W bs v r H; cbn [decode] in H.
  - bind_in H as a1 r1 E. injection H as <- <-. apply take_ok in E. destruct E as [-> [L _]].
    exists a1. split; [reflexivity|]. intros _ r'. cbn [decode]. rewrite <- L, take_app. reflexivity.
  - bind_in H as a1 r1 E. destruct (be_val a1 =? c) eqn:Ec; [|discriminate].
    injection H as <- <-. apply take_ok in E. destruct E as [-> [L _]].
    exists a1. split; [reflexivity|]. intros _ r'. cbn [decode]. rewrite <- L, take_app. cbn [bind].
    rewrite Ec. reflexivity.
  - bind_in H as a1 r1 E. injection H as <- <-. apply take_ok in E. destruct E as [-> [L _]].
    exists a1. split; [reflexivity|]. intros _ r'. cbn [decode]. rewrite <- L, take_app. reflexivity.
  - destruct (in_range lo hi (zlen bs)); [|discriminate]. injection H as <- <-.
    exists bs. split; [symmetry; apply app_nil_r|]. intros [].
  - cbn [wf_fmt] in W. destruct W as [D1 [W1 W2]].
    bind_in H as a1 r1 E. bind_in H as a2 r2 E0. injection H as <- <-.
    destruct (IH1 W1 _ _ _ E) as [p1 [-> K1]].
    destruct (IH2 W2 _ _ _ E0) as [p2 [-> K2]].
    exists (p1 ++ p2). split; [apply app_assoc|].
    intros [_ D2] r'. cbn [decode]. rewrite <- app_assoc, (K1 D1). cbn [bind].
    rewrite (K2 D2). reflexivity.
  - bind_in H as a1 r1 E. bind_in H as a2 r2 E0. bind_in H as a3 r3 E1.
    destruct (is_nil r3) eqn:N; [|discriminate]. injection H as <- <-.
    apply is_nil_true in N. subst r3.
    apply take_ok in E. destruct E as [-> [L _]].
    apply take_ok in E0. destruct E0 as [-> [L0 _]].
    exists (a1 ++ a2). split; [apply app_assoc|].
    intros _ r'. cbn [decode]. rewrite <- app_assoc, <- L, take_app. cbn [bind].
    rewrite <- L0, take_app. cbn [bind]. rewrite E1. reflexivity.
  - pose proof (rep_dec_rest _ _ _ _ _ H) as ->.
    exists bs. split; [symmetry; apply app_nil_r|]. intros [].
  - destruct bs as [|b bs].
    + injection H as <- <-. exists []. split; [reflexivity|]. intros [].
    + bind_in H as a1 r1 E. injection H as <- <-. cbn [wf_fmt] in W.
      destruct (IH1 (proj2 W) _ _ _ E) as [p [-> _]].
      exists p. split; [reflexivity|]. intros [].
  - cbn [wf_fmt] in W. destruct W as [Wn W].
    bind_in H as a1 r1 E. bind_in H as a2 r2 E0. injection H as <- <-.
    apply take_ok in E. destruct E as [-> [L _]].
    destruct (IH _ (W _) _ _ _ E0) as [p [-> K]].
    exists (a1 ++ p). split; [apply app_assoc|].
    intros D r'. cbn [decode]. rewrite <- app_assoc, <- L, take_app. cbn [bind].
    rewrite (K (D _)). reflexivity.
  - cbn [wf_fmt] in W. bind_in H as a1 r1 E. destruct (p a1) eqn:Ep; [|discriminate]. injection H as <- <-.
    destruct (IH1 W _ _ _ E) as [pre [-> K]]. exists pre. split; [reflexivity|].
    intros D r'. cbn [decode]. cbn [delim] in D. rewrite (K D). cbn [bind]. rewrite Ep. reflexivity.
Qed.

Lemma decode_prefix f : wf_fmt f -> forall bs v r, decode f bs = Ok (v, r) -> exists pre, bs = pre ++ r.
Proof.
  intros W bs v r H. destruct (decode_prefix_det f W _ _ _ H) as [p [-> _]]. exists p. reflexivity.
Qed.

Lemma decode_rest_le f : wf_fmt f -> forall bs v r, decode f bs = Ok (v, r) -> zlen r <= zlen bs.
Proof.
  intros W bs v r H. destruct (decode_prefix f W _ _ _ H) as [p ->]. rewrite zlen_app.
  pose proof (zlen_nonneg p). lia.
Qed.

(* ---- progress: a nonempty format consumes at least one byte ------------------- *)
Lemma decode_progress f :
  wf_fmt f -> nonempty f = true -> forall bs v r, decode f bs = Ok (v, r) -> zlen r < zlen bs.
Proof.
  induction f as [n|n c|n|lo hi|f1 IH1 f2 IH2|ll f1 IH1|f1 IH1|f1 IH1|n sel IH|p f1 IH1];
    intros W N bs v r H; cbn [decode] in H; cbn [nonempty] in N.
  - bind_in H as a1 r1 E. injection H as <- <-. apply take_ok in E. destruct E as [-> [L _]].
    rewrite zlen_app. lia.
  - bind_in H as a1 r1 E. destruct (be_val a1 =? c); [|discriminate]. injection H as <- <-.
    apply take_ok in E. destruct E as [-> [L _]]. rewrite zlen_app. lia.
  - bind_in H as a1 r1 E. injection H as <- <-. apply take_ok in E. destruct E as [-> [L _]].
    rewrite zlen_app. lia.
  - destruct (in_range lo hi (zlen bs)) eqn:R; [|discriminate]. injection H as <- <-.
    unfold in_range in R. apply andb_true_iff in R. cbn. lia.
  - cbn [wf_fmt] in W. destruct W as [D1 [W1 W2]].
    bind_in H as a1 r1 E. bind_in H as a2 r2 E0. injection H as <- <-.
    pose proof (decode_rest_le _ W1 _ _ _ E). pose proof (decode_rest_le _ W2 _ _ _ E0).
    apply orb_true_iff in N. destruct N as [N|N].
    + pose proof (IH1 W1 N _ _ _ E). lia.
    + pose proof (IH2 W2 N _ _ _ E0). lia.
  - bind_in H as a1 r1 E. bind_in H as a2 r2 E0. bind_in H as a3 r3 E1. destruct (is_nil r3); [|discriminate]. injection H as <- <-.
    apply take_ok in E. destruct E as [-> [L _]].
    apply take_ok in E0. destruct E0 as [-> [L0 _]].
    rewrite !zlen_app. pose proof (zlen_nonneg a2). lia.
  - discriminate.
  - discriminate.
  - cbn [wf_fmt] in W. destruct W as [Wn W].
    bind_in H as a1 r1 E. bind_in H as a2 r2 E0. injection H as <- <-.
    apply take_ok in E. destruct E as [-> [L _]].
    pose proof (decode_rest_le _ (W _) _ _ _ E0). rewrite zlen_app. lia.
  - cbn [wf_fmt] in W. bind_in H as a1 r1 E. destruct (p a1); [|discriminate]. injection H as <- <-.
    apply (IH1 W N _ _ _ E).
Qed.

(* ---- encode never yields [] for a nonempty format ------------------------------ *)
Lemma encode_nonempty f : nonempty f = true -> forall v bs, encode f v = Ok bs -> 0 < zlen bs.
Proof.
  induction f as [n|n c|n|lo hi|f1 IH1 f2 IH2|ll f1 IH1|f1 IH1|f1 IH1|n sel IH|p f1 IH1];
    intros N v bs H; cbn [encode] in H; cbn [nonempty] in N.
  - destruct v; try discriminate. apply w_add_ok in H. destruct H as [[Hn Hx] ->].
    cbn [app]. rewrite zlen_be_bytes; lia.
  - destruct v; try discriminate. destruct (x =? c); [|discriminate].
    apply w_add_ok in H. destruct H as [[Hn Hx] ->]. cbn [app]. rewrite zlen_be_bytes; lia.
  - destruct v; try discriminate.
    destruct ((zlen b =? n) && all_bytes b) eqn:E; [|discriminate]. injection H as <-.
    apply andb_true_iff in E. lia.
  - destruct v; try discriminate.
    destruct (in_range lo hi (zlen b) && all_bytes b) eqn:E; [|discriminate]. injection H as <-.
    apply andb_true_iff in E. destruct E as [E _]. unfold in_range in E. apply andb_true_iff in E. lia.
  - destruct v; try discriminate. bind1_in H as x1 E. bind1_in H as x2 E0. injection H as <-.
    rewrite zlen_app. pose proof (zlen_nonneg x1). pose proof (zlen_nonneg x2).
    apply orb_true_iff in N. destruct N as [N|N].
    + pose proof (IH1 N _ _ E). lia.
    + pose proof (IH2 N _ _ E0). lia.
  - bind1_in H as x1 E. apply w_add_var_bytes_ok in H. destruct H as [[Hl _] ->]. cbn [app].
    rewrite zlen_app, zlen_be_bytes by lia. pose proof (zlen_nonneg x1). lia.
  - discriminate.
  - discriminate.
  - destruct v; try discriminate. bind1_in H as x1 E. bind1_in H as x2 E0. injection H as <-.
    apply w_add_ok in E. destruct E as [[Hn _] ->]. cbn [app].
    rewrite zlen_app, zlen_be_bytes by lia. pose proof (zlen_nonneg x2). lia.
  - destruct (p v); [|discriminate]. apply (IH1 N _ _ H).
Qed.

(* ---- 2. decode (encode v) = v ------------------------------------------------------ *)
Lemma rep_dec_encode f1 :
  wf_fmt f1 -> nonempty f1 = true ->
  (forall v bs, encode f1 v = Ok bs -> forall r, decode f1 (bs ++ r) = Ok (v, r)) ->
  forall v bs, encode (FRep f1) v = Ok bs ->
  forall fuel, (length bs <= fuel)%nat -> rep_dec (decode f1) fuel bs = Ok (v, []).
Proof.
  intros W N IH v. induction v as [| | | |h _ t IHt| | |]; intros bs H fuel F;
    try (cbn in H; discriminate).
  - rewrite encode_rep_nil in H. injection H as <-. destruct fuel; reflexivity.
  - rewrite encode_rep_cons in H. bind1_in H as x1 E. bind1_in H as x2 E0. injection H as <-.
    pose proof (encode_nonempty _ N _ _ E) as Lx.
    destruct (x1 ++ x2) as [|b bs'] eqn:EQ.
    + apply (f_equal (@zlen Z)) in EQ. rewrite zlen_app in EQ. cbn in EQ.
      pose proof (zlen_nonneg x2). lia.
    + destruct fuel as [|k]; [cbn in F; lia|].
      cbn [rep_dec]. rewrite <- EQ. rewrite (IH _ _ E). cbn [bind].
      assert (length x2 < length (x1 ++ x2))%nat as Lt
        by (apply length_zlen; rewrite zlen_app; lia).
      apply Nat.ltb_lt in Lt. rewrite Lt.
      rewrite (IHt _ eq_refl k).
      * reflexivity.
      * rewrite EQ in Lt. apply Nat.ltb_lt in Lt. cbn [length] in *. lia.
Qed.

Lemma decode_encode_gen f :
  wf_fmt f -> forall v bs, encode f v = Ok bs ->
  decode f bs = Ok (v, []) /\ (delim f -> forall r, decode f (bs ++ r) = Ok (v, r)).
Proof.
  induction f as [n|n c|n|lo hi|f1 IH1 f2 IH2|ll f1 IH1|f1 IH1|f1 IH1|n sel IH|p f1 IH1];
    intros W v bs H; cbn [encode] in H.
  - destruct v; try discriminate. apply w_add_ok in H. destruct H as [[Hn Hx] ->]. cbn [app].
    assert (forall r, decode (FU n) (be_bytes (Z.to_nat n) x ++ r) = Ok (VInt x, r)) as K.
    { intros r. cbn [decode]. rewrite <- (zlen_be_bytes n x) at 1 by lia. rewrite take_app. cbn [bind].
      rewrite be_val_be_bytes by (rewrite Z2Nat.id; lia). reflexivity. }
    split; [rewrite <- (app_nil_r (be_bytes _ _)); apply K|intros _; exact K].
  - destruct v; try discriminate. destruct (x =? c) eqn:Ec; [|discriminate].
    apply Z.eqb_eq in Ec. subst x.
    apply w_add_ok in H. destruct H as [[Hn Hx] ->]. cbn [app].
    assert (forall r, decode (FConst n c) (be_bytes (Z.to_nat n) c ++ r) = Ok (VInt c, r)) as K.
    { intros r. cbn [decode]. rewrite <- (zlen_be_bytes n c) at 1 by lia. rewrite take_app. cbn [bind].
      rewrite be_val_be_bytes by (rewrite Z2Nat.id; lia). rewrite Z.eqb_refl. reflexivity. }
    split; [rewrite <- (app_nil_r (be_bytes _ _)); apply K|intros _; exact K].
  - destruct v; try discriminate.
    destruct ((zlen b =? n) && all_bytes b) eqn:E; [|discriminate]. injection H as <-.
    apply andb_true_iff in E. destruct E as [E _]. apply Z.eqb_eq in E.
    assert (forall r, decode (FFix n) (b ++ r) = Ok (VBytes b, r)) as K.
    { intros r. cbn [decode]. rewrite <- E, take_app. reflexivity. }
    split; [rewrite <- (app_nil_r b) at 1; apply K|intros _; exact K].
  - destruct v; try discriminate.
    destruct (in_range lo hi (zlen b) && all_bytes b) eqn:E; [|discriminate]. injection H as <-.
    apply andb_true_iff in E. destruct E as [E _].
    split; [cbn [decode]; rewrite E; reflexivity|intros []].
  - cbn [wf_fmt] in W. destruct W as [D1 [W1 W2]].
    destruct v; try discriminate. bind1_in H as x1 E. bind1_in H as x2 E0. injection H as <-.
    destruct (IH1 W1 _ _ E) as [_ K1]. destruct (IH2 W2 _ _ E0) as [K2 K2'].
    split.
    + cbn [decode]. rewrite (K1 D1). cbn [bind]. rewrite K2. reflexivity.
    + intros [_ D2] r. cbn [decode]. rewrite <- app_assoc, (K1 D1). cbn [bind].
      rewrite (K2' D2). reflexivity.
  - cbn [wf_fmt] in W. destruct W as [Wl W1].
    bind1_in H as x1 E. apply w_add_var_bytes_ok in H. destruct H as [[Hl Hs] ->]. cbn [app].
    destruct (IH1 W1 _ _ E) as [K1 _].
    assert (forall r, decode (FBounded ll f1) ((be_bytes (Z.to_nat ll) (zlen x1) ++ x1) ++ r) = Ok (v, r)) as K.
    { intros r. cbn [decode]. rewrite <- app_assoc.
      rewrite <- (zlen_be_bytes ll (zlen x1)) at 1 by lia. rewrite take_app. cbn [bind].
      rewrite be_val_be_bytes by (rewrite Z2Nat.id by lia; pose proof (zlen_nonneg x1); lia).
      rewrite take_app. cbn [bind]. rewrite K1. reflexivity. }
    split; [rewrite <- (app_nil_r (_ ++ x1)); apply K|intros _; exact K].
  - cbn [wf_fmt] in W. destruct W as [D1 [N1 W1]].
    split; [|intros []]. cbn [decode].
    apply (rep_dec_encode f1 W1 N1); [|exact H|lia].
    intros v0 bs0 H0 r. destruct (IH1 W1 _ _ H0) as [_ K]. apply K. exact D1.
  - cbn [wf_fmt] in W. destruct W as [N1 W1].
    split; [|intros []]. destruct v; try discriminate.
    + injection H as <-. reflexivity.
    + pose proof (encode_nonempty _ N1 _ _ H) as L. destruct (IH1 W1 _ _ H) as [K _].
      cbn [decode]. destruct bs as [|b bs]; [cbn in L; lia|]. rewrite K. reflexivity.
  - cbn [wf_fmt] in W. destruct W as [Wn W].
    destruct v; try discriminate. bind1_in H as x1 E. bind1_in H as x2 E0. injection H as <-.
    apply w_add_ok in E. destruct E as [[Hn Ht] ->]. cbn [app].
    destruct (IH _ (W _) _ _ E0) as [K K'].
    assert (forall r, decode (sel t) (x2 ++ r) = Ok (v, r) ->
                      decode (FTag n sel) ((be_bytes (Z.to_nat n) t ++ x2) ++ r) = Ok (VTag t v, r)) as G.
    { intros r Hr. cbn [decode]. rewrite <- app_assoc.
      rewrite <- (zlen_be_bytes n t) at 1 by lia. rewrite take_app. cbn [bind].
      rewrite be_val_be_bytes by (rewrite Z2Nat.id; lia). rewrite Hr. reflexivity. }
    split.
    + rewrite <- (app_nil_r (_ ++ x2)). apply G. rewrite app_nil_r. exact K.
    + intros D r. apply G. apply K'. apply D.
  - cbn [wf_fmt] in W. destruct (p v) eqn:Ep; [|discriminate]. destruct (IH1 W _ _ H) as [K K'].
    split.
    + cbn [decode]. rewrite K. cbn [bind]. rewrite Ep. reflexivity.
    + intros D r. cbn [decode]. cbn [delim] in D. rewrite (K' D). cbn [bind]. rewrite Ep. reflexivity.
Qed.

(* ---- 3. encode (decode bs) = bs ---------------------------------------------------- *)
Lemma rep_dec_decode f1 :
  (forall bs v r, bytes bs -> decode f1 bs = Ok (v, r) -> exists pre, bs = pre ++ r /\ encode f1 v = Ok pre) ->
  forall fuel bs v r, bytes bs -> rep_dec (decode f1) fuel bs = Ok (v, r) ->
  r = [] /\ encode (FRep f1) v = Ok bs.
Proof.
  intros IH fuel. induction fuel as [|k IHk]; intros bs v r B H; destruct bs as [|b bs].
  - cbn in H. injection H as <- <-. split; reflexivity.
  - cbn in H. discriminate.
  - cbn in H. injection H as <- <-. split; reflexivity.
  - cbn [rep_dec] in H. bind_in H as a1 r1 E.
    destruct (length r1 <? length (b :: bs))%nat; [|discriminate].
    bind_in H as a2 r2 E0. injection H as <- <-.
    destruct (IH _ _ _ B E) as [pre [EQ Hpre]].
    assert (bytes r1) as Bl by (rewrite EQ in B; apply bytes_app in B; tauto).
    destruct (IHk _ _ _ Bl E0) as [-> Henc].
    split; [reflexivity|]. rewrite encode_rep_cons, Hpre. cbn [bind]. rewrite Henc. cbn [bind].
    rewrite EQ. reflexivity.
Qed.

Lemma encode_decode_gen f :
  wf_fmt f -> forall bs v r, bytes bs -> decode f bs = Ok (v, r) ->
  exists pre, bs = pre ++ r /\ encode f v = Ok pre.
Proof.
  induction f as [n|n c|n|lo hi|f1 IH1 f2 IH2|ll f1 IH1|f1 IH1|f1 IH1|n sel IH|p f1 IH1];
    intros W bs v r B H; cbn [decode] in H.
  - bind_in H as a1 r1 E. injection H as <- <-. apply take_ok in E. destruct E as [-> [L Hn]].
    apply bytes_app in B. destruct B as [Bl _].
    exists a1. split; [reflexivity|]. cbn [encode]. apply w_add_ok.
    pose proof (be_val_bound a1 Bl) as Bd. unfold zlen in L.
    replace (Z.of_nat (length a1)) with n in Bd by lia.
    split; [lia|]. cbn [app]. replace (Z.to_nat n) with (length a1) by lia.
    symmetry. apply be_bytes_be_val. exact Bl.
  - bind_in H as a1 r1 E. destruct (be_val a1 =? c) eqn:Ec; [|discriminate]. injection H as <- <-.
    apply Z.eqb_eq in Ec. apply take_ok in E. destruct E as [-> [L Hn]].
    apply bytes_app in B. destruct B as [Bl _].
    exists a1. split; [reflexivity|]. cbn [encode]. rewrite Z.eqb_refl. apply w_add_ok.
    pose proof (be_val_bound a1 Bl) as Bd. unfold zlen in L.
    replace (Z.of_nat (length a1)) with n in Bd by lia.
    split; [lia|]. cbn [app]. replace (Z.to_nat n) with (length a1) by lia.
    rewrite <- Ec. symmetry. apply be_bytes_be_val. exact Bl.
  - bind_in H as a1 r1 E. injection H as <- <-. apply take_ok in E. destruct E as [-> [L Hn]].
    apply bytes_app in B. destruct B as [Bl _].
    exists a1. split; [reflexivity|]. cbn [encode]. rewrite L, Z.eqb_refl.
    apply all_bytes_iff in Bl. rewrite Bl. reflexivity.
  - destruct (in_range lo hi (zlen bs)) eqn:R; [|discriminate]. injection H as <- <-.
    exists bs. split; [symmetry; apply app_nil_r|]. cbn [encode]. rewrite R.
    apply all_bytes_iff in B. rewrite B. reflexivity.
  - cbn [wf_fmt] in W. destruct W as [D1 [W1 W2]].
    bind_in H as a1 r1 E. bind_in H as a2 r2 E0. injection H as <- <-.
    destruct (IH1 W1 _ _ _ B E) as [p1 [-> K1]].
    apply bytes_app in B. destruct B as [_ B2].
    destruct (IH2 W2 _ _ _ B2 E0) as [p2 [-> K2]].
    exists (p1 ++ p2). split; [apply app_assoc|]. cbn [encode]. rewrite K1. cbn [bind]. rewrite K2. reflexivity.
  - cbn [wf_fmt] in W. destruct W as [Wl W1].
    bind_in H as a1 r1 E. bind_in H as a2 r2 E0. bind_in H as a3 r3 E1.
    destruct (is_nil r3) eqn:N; [|discriminate]. injection H as <- <-.
    apply is_nil_true in N. subst r3.
    apply take_ok in E. destruct E as [-> [L _]].
    apply take_ok in E0. destruct E0 as [-> [L0 _]].
    apply bytes_app in B. destruct B as [Bl B]. apply bytes_app in B. destruct B as [Bb _].
    destruct (IH1 W1 _ _ _ Bb E1) as [p [EQ K]]. rewrite app_nil_r in EQ. subst p.
    exists (a1 ++ a2). split; [apply app_assoc|]. cbn [encode]. rewrite K. cbn [bind].
    apply w_add_var_bytes_ok.
    pose proof (be_val_bound a1 Bl) as Bd. unfold zlen in L.
    replace (Z.of_nat (length a1)) with ll in Bd by lia.
    split; [lia|]. cbn [app]. f_equal. rewrite L0.
    replace (Z.to_nat ll) with (length a1) by lia.
    symmetry. apply be_bytes_be_val. exact Bl.
  - cbn [wf_fmt] in W. destruct W as [D1 [N1 W1]].
    destruct (rep_dec_decode f1 (fun bs v r => IH1 W1 bs v r) _ _ _ _ B H) as [-> K].
    exists bs. split; [symmetry; apply app_nil_r|exact K].
  - cbn [wf_fmt] in W. destruct W as [N1 W1]. destruct bs as [|b bs].
    + injection H as <- <-. exists []. split; reflexivity.
    + bind_in H as a1 r1 E. injection H as <- <-.
      destruct (IH1 W1 _ _ _ B E) as [p [EQ K]]. exists p. split; [exact EQ|exact K].
  - cbn [wf_fmt] in W. destruct W as [Wn W].
    bind_in H as a1 r1 E. bind_in H as a2 r2 E0. injection H as <- <-.
    apply take_ok in E. destruct E as [-> [L _]].
    apply bytes_app in B. destruct B as [Bl B2].
    destruct (IH _ (W _) _ _ _ B2 E0) as [p [-> K]].
    exists (a1 ++ p). split; [apply app_assoc|]. cbn [encode].
    pose proof (be_val_bound a1 Bl) as Bd. unfold zlen in L.
    replace (Z.of_nat (length a1)) with n in Bd by lia.
    assert (w_add [] (be_val a1) n = Ok a1) as Wa.
    { apply w_add_ok. split; [lia|]. cbn [app]. replace (Z.to_nat n) with (length a1) by lia.
      symmetry. apply be_bytes_be_val. exact Bl. }
    rewrite Wa. cbn [bind]. rewrite K. reflexivity.
  - cbn [wf_fmt] in W. bind_in H as a1 r1 E. destruct (p a1) eqn:Ep; [|discriminate]. injection H as <- <-.
    destruct (IH1 W _ _ _ B E) as [pre [EQ K]]. exists pre. split; [exact EQ|]. cbn [encode]. rewrite Ep. exact K.
Qed.

(* ---- 4. the only failure of decode is DecodeError ----------------------------------- *)
Lemma rep_dec_err f1 :
  wf_fmt f1 -> nonempty f1 = true ->
  (forall bs e, decode f1 bs = Err e -> e = DecodeError) ->
  forall fuel bs e, (length bs <= fuel)%nat -> rep_dec (decode f1) fuel bs = Err e -> e = DecodeError.
Proof.
  intros W N IH fuel. induction fuel as [|k IHk]; intros bs e F H; destruct bs as [|b bs].
  - cbn in H. discriminate.
  - cbn in F. lia.
  - cbn in H. discriminate.
  - cbn [rep_dec] in H.
    destruct (decode f1 (b :: bs)) as [[v r]|e0] eqn:E; cbn [bind] in H.
    + pose proof (decode_progress _ W N _ _ _ E) as P. apply length_zlen in P.
      pose proof P as P'. apply Nat.ltb_lt in P'. rewrite P' in H.
      destruct (rep_dec (decode f1) k r) as [[vs r2]|e1] eqn:E1; cbn [bind] in H; [discriminate|].
      injection H as <-. apply (IHk r); [cbn [length] in *; lia|exact E1].
    + injection H as <-. eapply IH. exact E.
Qed.

Lemma decode_err f : wf_fmt f -> forall bs e, decode f bs = Err e -> e = DecodeError.
Proof.
  induction f as [n|n c|n|lo hi|f1 IH1 f2 IH2|ll f1 IH1|f1 IH1|f1 IH1|n sel IH|p f1 IH1];
    intros W bs e H; cbn [decode] in H.
  - destruct (take n bs) as [[a r]|e0] eqn:E; cbn [bind] in H; [discriminate|].
    injection H as <-. eapply take_err; eauto.
  - destruct (take n bs) as [[a r]|e0] eqn:E; cbn [bind] in H.
    + destruct (be_val a =? c); [discriminate|]. congruence.
    + injection H as <-. eapply take_err; eauto.
  - destruct (take n bs) as [[a r]|e0] eqn:E; cbn [bind] in H; [discriminate|].
    injection H as <-. eapply take_err; eauto.
  - destruct (in_range lo hi (zlen bs)); [discriminate|]. congruence.
  - cbn [wf_fmt] in W. destruct W as [D1 [W1 W2]].
    destruct (decode f1 bs) as [[a r]|e0] eqn:E; cbn [bind] in H.
    + destruct (decode f2 r) as [[b r2]|e1] eqn:E0; cbn [bind] in H; [discriminate|].
      injection H as <-. eapply IH2; eauto.
    + injection H as <-. eapply IH1; eauto.
  - cbn [wf_fmt] in W. destruct W as [Wl W1].
    destruct (take ll bs) as [[lb r]|e0] eqn:E; cbn [bind] in H.
    + destruct (take (be_val lb) r) as [[body r2]|e1] eqn:E0; cbn [bind] in H.
      * destruct (decode f1 body) as [[v r3]|e2] eqn:E1; cbn [bind] in H.
        -- destruct (is_nil r3); [discriminate|]. congruence.
        -- injection H as <-. eapply IH1; eauto.
      * injection H as <-. eapply take_err; eauto.
    + injection H as <-. eapply take_err; eauto.
  - cbn [wf_fmt] in W. destruct W as [D1 [N1 W1]].
    eapply (rep_dec_err f1 W1 N1 (IH1 W1)); [|exact H]. lia.
  - cbn [wf_fmt] in W. destruct W as [N1 W1]. destruct bs as [|b bs]; [discriminate|].
    destruct (decode f1 (b :: bs)) as [[v r]|e0] eqn:E; cbn [bind] in H; [discriminate|].
    injection H as <-. eapply IH1; eauto.
  - cbn [wf_fmt] in W. destruct W as [Wn W].
    destruct (take n bs) as [[a r]|e0] eqn:E; cbn [bind] in H.
    + destruct (decode (sel (be_val a)) r) as [[v r2]|e1] eqn:E0; cbn [bind] in H; [discriminate|].
      injection H as <-. eapply IH; eauto.
    + injection H as <-. eapply take_err; eauto.
  - cbn [wf_fmt] in W. destruct (decode f1 bs) as [[v r]|e0] eqn:E; cbn [bind] in H.
    + destruct (p v); [discriminate|]. congruence.
    + injection H as <-. eapply IH1; eauto.
Qed.

(* ---- 5. strictness ------------------------------------------------------------------- *)
(* no strict prefix of what a self-delimiting format consumed is accepted *)
Lemma decode_truncated f :
  wf_fmt f -> delim f -> forall pre r v, decode f (pre ++ r) = Ok (v, r) ->
  forall k, (k < length pre)%nat -> decode f (firstn k pre) = Err DecodeError.
Proof.
  intros W D pre r v H k Hk.
  destruct (decode_prefix_det f W _ _ _ H) as [p0 [EQ K0]].
  apply app_inv_tail in EQ. subst p0.
  pose proof (K0 D []) as Hfull. rewrite app_nil_r in Hfull.
  destruct (decode f (firstn k pre)) as [[v' r']|e] eqn:E.
  - exfalso. destruct (decode_prefix_det f W _ _ _ E) as [p' [EQ' K']].
    pose proof (K' D (r' ++ skipn k pre)) as H2.
    rewrite app_assoc, <- EQ', firstn_skipn in H2.
    rewrite Hfull in H2. injection H2 as _ H2.
    symmetry in H2. apply app_eq_nil in H2. destruct H2 as [_ H2].
    apply (f_equal (@length Z)) in H2. rewrite skipn_length in H2. cbn in H2. lia.
  - f_equal. eapply decode_err; eauto.
Qed.

(* a length field that disagrees with what the body needs is rejected, in both directions *)
Lemma bounded_length_mismatch ll f :
  wf_fmt f -> delim f -> 0 < ll ->
  forall enc v, decode f enc = Ok (v, []) ->
  forall n rest, 0 <= n < 256 ^ ll -> n <> zlen enc ->
  decode (FBounded ll f) (be_bytes (Z.to_nat ll) n ++ enc ++ rest) = Err DecodeError.
Proof.
  intros W D Hl enc v H n rest Hn Hne. cbn [decode].
  rewrite <- (zlen_be_bytes ll n) at 1 by lia. rewrite take_app. cbn [bind].
  rewrite be_val_be_bytes by (rewrite Z2Nat.id; lia).
  destruct (take n (enc ++ rest)) as [[body r2]|e] eqn:E; cbn [bind].
  2:{ f_equal. eapply take_err; eauto. }
  apply take_ok in E. destruct E as [EQ [L _]].
  assert (decode f body = Err DecodeError \/ exists j, j <> [] /\ decode f body = Ok (v, j)) as C.
  { destruct (app_eq_app _ _ _ _ EQ) as [m [[E1 E2]|[E1 E2]]].
    - (* body is a strict prefix of enc *)
      left. subst enc. rewrite zlen_app in Hne.
      assert (m <> []) as Hm by (intros ->; cbn in Hne; lia).
      assert (body = firstn (length body) (body ++ m)) as ->
        by (destruct (firstn_skipn_app body m) as [-> _]; reflexivity).
      apply (decode_truncated f W D (body ++ m) [] v); [rewrite app_nil_r; exact H|].
      rewrite app_length. destruct m; [congruence|cbn [length]; lia].
    - (* body is enc followed by junk *)
      right. exists m. subst body. split.
      + intros ->. rewrite app_nil_r in L. lia.
      + destruct (decode_prefix_det f W _ _ _ H) as [p0 [EQ0 K0]]. rewrite app_nil_r in EQ0. subst p0.
        apply K0. exact D. }
  destruct C as [C|[j [Hj C]]]; rewrite C; cbn [bind]; [reflexivity|].
  destruct j; [congruence|reflexivity].
Qed.

(* decode never consumes beyond the declared length: what FBounded accepts is its
   length field, exactly that many bytes, wholly consumed by the body format *)
Lemma bounded_inv ll f bs v r :
  decode (FBounded ll f) bs = Ok (v, r) ->
  exists lb body, bs = lb ++ body ++ r /\ zlen lb = ll /\ zlen body = be_val lb /\
                  decode f body = Ok (v, []).
Proof.
  intros H. cbn [decode] in H. bind_in H as a1 r1 E. bind_in H as a2 r2 E0. bind_in H as a3 r3 E1.
  destruct (is_nil r3) eqn:N; [|discriminate]. injection H as <- <-.
  apply is_nil_true in N. subst r3.
  apply take_ok in E. destruct E as [-> [L _]].
  apply take_ok in E0. destruct E0 as [-> [L0 _]].
  exists a1, a2. auto.
Qed.

(* ---- 6. "fits" ---------------------------------------------------------------------- *)
Lemma encode_size f : forall v bs, encode f v = Ok bs -> zlen bs = vsize f v.
Proof.
  induction f as [n|n c|n|lo hi|f1 IH1 f2 IH2|ll f1 IH1|f1 IH1|f1 IH1|n sel IH|p f1 IH1];
    intros v bs H; cbn [encode] in H.
  - destruct v; try discriminate. apply w_add_ok in H. destruct H as [[Hn Hx] ->].
    cbn [app vsize]. apply zlen_be_bytes. lia.
  - destruct v; try discriminate. destruct (x =? c); [|discriminate].
    apply w_add_ok in H. destruct H as [[Hn Hx] ->]. cbn [app vsize]. apply zlen_be_bytes. lia.
  - destruct v; try discriminate. destruct ((zlen b =? n) && all_bytes b); [|discriminate].
    injection H as <-. reflexivity.
  - destruct v; try discriminate. destruct (in_range lo hi (zlen b) && all_bytes b); [|discriminate].
    injection H as <-. reflexivity.
  - destruct v; try discriminate. bind1_in H as x1 E. bind1_in H as x2 E0. injection H as <-.
    rewrite zlen_app. cbn [vsize]. rewrite (IH1 _ _ E), (IH2 _ _ E0). reflexivity.
  - bind1_in H as x1 E. apply w_add_var_bytes_ok in H. destruct H as [[Hl Hs] ->]. cbn [app vsize].
    rewrite zlen_app, zlen_be_bytes by lia. rewrite (IH1 _ _ E). reflexivity.
  - change (encode (FRep f1) v = Ok bs) in H. revert bs H. induction v as [| | | |h _ t IHt| | |]; intros bs H; try (cbn in H; discriminate).
    + rewrite encode_rep_nil in H. injection H as <-. reflexivity.
    + rewrite encode_rep_cons in H. bind1_in H as x1 E. bind1_in H as x2 E0. injection H as <-.
      rewrite zlen_app, vsize_rep_cons, (IH1 _ _ E), (IHt _ eq_refl). reflexivity.
  - destruct v; try discriminate.
    + injection H as <-. reflexivity.
    + cbn [vsize]. apply IH1. exact H.
  - destruct v; try discriminate. bind1_in H as x1 E. bind1_in H as x2 E0. injection H as <-.
    apply w_add_ok in E. destruct E as [[Hn _] ->]. cbn [app vsize].
    rewrite zlen_app, zlen_be_bytes by lia. rewrite (IH _ _ _ E0). reflexivity.
  - destruct (p v); [|discriminate]. cbn [vsize]. apply IH1. exact H.
Qed.

(* encode succeeds exactly on the values whose every field fits *)
Lemma encode_ok_iff_wf_val f : forall v, (exists bs, encode f v = Ok bs) <-> wf_val f v.
Proof.
  induction f as [n|n c|n|lo hi|f1 IH1 f2 IH2|ll f1 IH1|f1 IH1|f1 IH1|n sel IH|p f1 IH1]; intros v.
  - cbn [encode wf_val]. destruct v; try (split; [intros [bs H]; discriminate|intros []]).
    split.
    + intros [bs H]. apply w_add_ok in H. tauto.
    + intros H. eexists. apply w_add_ok. split; [exact H|reflexivity].
  - cbn [encode wf_val]. destruct v; try (split; [intros [bs H]; discriminate|intros []]).
    destruct (x =? c) eqn:Ec.
    + apply Z.eqb_eq in Ec. split.
      * intros [bs H]. apply w_add_ok in H. tauto.
      * intros [_ H]. eexists. apply w_add_ok. split; [exact H|reflexivity].
    + apply Z.eqb_neq in Ec. split; [intros [bs H]; discriminate|intros [H _]; contradiction].
  - cbn [encode wf_val]. destruct v; try (split; [intros [bs H]; discriminate|intros []]).
    destruct ((zlen b =? n) && all_bytes b) eqn:E.
    + apply andb_true_iff in E. destruct E as [E1 E2]. apply Z.eqb_eq in E1.
      split; [tauto|intros _; eexists; reflexivity].
    + split; [intros [bs H]; discriminate|].
      intros [H1 H2]. rewrite H1, Z.eqb_refl, H2 in E. discriminate.
  - cbn [encode wf_val]. destruct v; try (split; [intros [bs H]; discriminate|intros []]).
    destruct (in_range lo hi (zlen b) && all_bytes b) eqn:E.
    + apply andb_true_iff in E. split; [tauto|intros _; eexists; reflexivity].
    + split; [intros [bs H]; discriminate|]. intros [H1 H2]. rewrite H1, H2 in E. discriminate.
  - cbn [encode wf_val]. destruct v; try (split; [intros [bs H]; discriminate|intros []]).
    split.
    + intros [bs H]. bind1_in H as x1 E. bind1_in H as x2 E0. split; [apply IH1|apply IH2]; eexists; eauto.
    + intros [H1 H2]. apply IH1 in H1. apply IH2 in H2. destruct H1 as [x ->], H2 as [y ->].
      eexists. reflexivity.
  - cbn [encode wf_val]. split.
    + intros [bs H]. bind1_in H as x1 E. apply w_add_var_bytes_ok in H. destruct H as [[Hl Hs] _].
      rewrite (encode_size _ _ _ E) in Hs. split; [apply IH1; eexists; eauto|lia].
    + intros [H1 [Hl Hs]]. apply IH1 in H1. destruct H1 as [x Hx]. rewrite Hx. cbn [bind].
      eexists. apply w_add_var_bytes_ok. rewrite (encode_size _ _ _ Hx). split; [lia|reflexivity].
  - induction v as [| | | |h _ t IHt| | |];
      try (split; [intros [bs H]; cbn in H; discriminate|intros H; cbn in H; contradiction]).
    + split; [intros _; exact I|intros _; exists []; reflexivity].
    + rewrite wf_val_rep_cons. split.
      * intros [bs H]. rewrite encode_rep_cons in H. bind1_in H as x1 E. bind1_in H as x2 E0.
        split; [apply IH1|apply IHt]; eexists; eauto.
      * intros [H1 H2]. apply IH1 in H1. apply IHt in H2. destruct H1 as [x Hx], H2 as [y Hy].
        rewrite encode_rep_cons, Hx. cbn [bind]. rewrite Hy. cbn [bind]. eexists. reflexivity.
  - cbn [encode wf_val]. destruct v; try (split; [intros [bs H]; discriminate|intros []]).
    + split; [intros _; exact I|intros _; eexists; reflexivity].
    + apply IH1.
  - cbn [encode wf_val]. destruct v; try (split; [intros [bs H]; discriminate|intros []]).
    split.
    + intros [bs H]. bind1_in H as x1 E. bind1_in H as x2 E0. apply w_add_ok in E. destruct E as [E _].
      split; [exact E|]. apply IH. eexists; eauto.
    + intros [Ht H2]. apply IH in H2. destruct H2 as [y Hy].
      assert (w_add [] t n = Ok ([] ++ be_bytes (Z.to_nat n) t)) as Wa by (apply w_add_ok; split; [exact Ht|reflexivity]).
      rewrite Wa. cbn [bind]. rewrite Hy. cbn [bind]. eexists. reflexivity.
  - cbn [encode wf_val]. destruct (p v) eqn:Ep.
    + rewrite (IH1 v). split; [intros H; split; [reflexivity|exact H]|intros [_ H]; exact H].
    + split; [intros [bs H]; discriminate|intros [H _]; discriminate].
Qed.

(* the failure on a value that does not fit is ValueError/TypeError, never a shortened encoding *)
Lemma encode_not_fitting f v : ~ wf_val f v -> is_ok (encode f v) = false.
Proof.
  intros H. destruct (encode f v) as [bs|e] eqn:E; [|reflexivity].
  exfalso. apply H. apply encode_ok_iff_wf_val. eexists; eauto.
Qed.
