(* The sequential SessionCache model (repaired code: entriesSlot/_drop) refines the abstract
   log specification for EVERY history with a monotone clock, repeated IDs included.
   Part 1: circular list + dict + slot map represent a window (queue) of slots; the dict holds,
           for every ID in the window, the session of its NEWEST slot; older slots of the same
           ID are stale and are skipped when recycled.
   Part 2: the window is the newest part of the specification's log.
   Part 3: induction over histories.
   (Before the fix "SessionCache must not drop a live entry when a session ID is stored twice"
   this was provable only for pairwise distinct stored IDs; see Proofs/C18_CacheWit.v.) *)
From Coq Require Import ZArith List Bool Lia.
From TV Require Import Base.Prelude Base.C18_Lib Model.C18_Cache Spec.C18_CacheSpec.
Import ListNotations.
Open Scope Z_scope.

Definition went := (Z * Z * Z)%type.          (* (id, session, time stored) *)
Definition wid (e : went) : Z := fst (fst e).
Definition wsess (e : went) : Z := snd (fst e).
Definition wts (e : went) : Z := snd e.

(* session / position of the LAST (newest) slot of id in the window *)
Fixpoint wlast (id : Z) (w : list went) : option Z :=
  match w with
  | [] => None
  | e :: w' => match wlast id w' with
               | Some s => Some s
               | None => if id =? wid e then Some (wsess e) else None
               end
  end.

Fixpoint wlast_pos (id : Z) (w : list went) : option nat :=
  match w with
  | [] => None
  | e :: w' => match wlast_pos id w' with
               | Some j => Some (S j)
               | None => if id =? wid e then Some O else None
               end
  end.

Lemma wlast_app id w e : wlast id (w ++ [e]) = if id =? wid e then Some (wsess e) else wlast id w.
Proof.
  induction w as [|x w IH]; cbn [app wlast].
  - destruct (id =? wid e); reflexivity.
  - rewrite IH. destruct (id =? wid e); reflexivity.
Qed.

Lemma wlast_pos_app id w e :
  wlast_pos id (w ++ [e]) = if id =? wid e then Some (length w) else wlast_pos id w.
Proof.
  induction w as [|x w IH]; cbn [app wlast_pos length].
  - destruct (id =? wid e); reflexivity.
  - rewrite IH. destruct (id =? wid e); reflexivity.
Qed.

Lemma wlast_pos_lt id w j : wlast_pos id w = Some j -> (j < length w)%nat.
Proof.
  revert j. induction w as [|x w IH]; cbn [wlast_pos length]; intros j; [discriminate|].
  destruct (wlast_pos id w) as [k|].
  - intros H. inversion H; subst. specialize (IH k eq_refl). lia.
  - destruct (id =? wid x); intros H; inversion H; subst. lia.
Qed.

Lemma wlast_pos_some id w : (exists j, wlast_pos id w = Some j) <-> (exists s, wlast id w = Some s).
Proof.
  induction w as [|x w IH]; cbn [wlast wlast_pos].
  - split; intros [? H]; discriminate.
  - destruct (wlast_pos id w) as [k|]; destruct (wlast id w) as [s|].
    + split; eauto.
    + exfalso. destruct (proj1 IH (ex_intro _ k eq_refl)) as [? H]. discriminate.
    + exfalso. destruct (proj2 IH (ex_intro _ s eq_refl)) as [? H]. discriminate.
    + destruct (id =? wid x); split; intros [? H]; try discriminate; eauto.
Qed.

Lemma wlast_in id w s : wlast id w = Some s -> In id (map wid w).
Proof.
  revert s. induction w as [|x w IH]; intros s; cbn [wlast map In]; [discriminate|].
  destruct (wlast id w) as [s'|].
  - intros _. right. apply (IH s'). reflexivity.
  - destruct (id =? wid x) eqn:E; [|discriminate]. apply Z.eqb_eq in E. intros _. left. congruence.
Qed.

Lemma NoDup_app_l {A} (a b : list A) : NoDup (a ++ b) -> NoDup a.
Proof.
  induction a as [|x a IH]; cbn [app]; intros H; [constructor|].
  inversion H as [|y l Hy Hn]; subst. constructor; [|apply IH; exact Hn].
  intro Hin. apply Hy. apply in_or_app. left. exact Hin.
Qed.

(* ---- arithmetic of the circular index --------------------------------------- *)
Lemma slot_distinct n f j k : 1 <= n -> 0 <= f < n -> 0 <= j < n -> 0 <= k < n -> j <> k ->
  (f + j) mod n <> (f + k) mod n.
Proof.
  intros Hn Hf Hj Hk Hne. rewrite (mod_wrap (f + j) n) by lia. rewrite (mod_wrap (f + k) n) by lia.
  destruct (f + j <? n) eqn:E1; destruct (f + k <? n) eqn:E2; lia.
Qed.

Lemma slot_range n x : 1 <= n -> 0 <= x mod n < n.
Proof. intros. apply Z.mod_pos_bound. lia. Qed.

Lemma slot_succ n f j : 1 <= n -> ((f + 1) mod n + j) mod n = (f + (j + 1)) mod n.
Proof. intros. rewrite Zplus_mod_idemp_l. f_equal. lia. Qed.

Lemma py_index_nth {A} (l : list A) i x : 0 <= i < zlen l -> nth_error l (Z.to_nat i) = Some x -> py_index l i = Ok x.
Proof.
  intros Hi Hx. unfold py_index. destruct (i <? 0) eqn:E; [lia|].
  destruct ((0 <=? i) && (i <? zlen l)) eqn:E2; [|lia]. rewrite Hx. reflexivity.
Qed.

Lemma py_setitem_ok {A} (l : list A) i v : 0 <= i < zlen l -> py_setitem l i v = Ok (upd_nth (Z.to_nat i) l v).
Proof.
  intros Hi. unfold py_setitem. destruct (i <? 0) eqn:E; [lia|].
  destruct ((0 <=? i) && (i <? zlen l)) eqn:E2; [reflexivity|lia].
Qed.

Lemma py_mod_ok a n : 1 <= n -> py_mod a n = Ok (a mod n).
Proof. intros. unfold py_mod. destruct (n =? 0) eqn:E; [lia|reflexivity]. Qed.

Lemma zlen_upd {A} k (l : list A) v : zlen (upd_nth k l v) = zlen l.
Proof. unfold zlen. rewrite upd_nth_length. reflexivity. Qed.

Lemma zlen_app {A} (a b : list A) : zlen (a ++ b) = zlen a + zlen b.
Proof. unfold zlen. rewrite app_length. lia. Qed.

Lemma zlen_cons {A} (x : A) l : zlen (x :: l) = 1 + zlen l.
Proof. unfold zlen. cbn [length]. lia. Qed.

Lemma zlen_nonneg {A} (l : list A) : 0 <= zlen l.
Proof. unfold zlen. lia. Qed.

(* ---- the window represented by list + dict + slot map ---------------------------- *)
(* l: entriesList, i: index of the oldest live slot, w: slots oldest first,
   d: entriesDict, sl: entriesSlot *)
Record WinS (l : list (option (Z * Z))) (i : Z) (w : list went) (d sl : dict) : Prop := {
  ws_slots : forall j e, nth_error w j = Some e ->
             nth_error l (Z.to_nat ((i + Z.of_nat j) mod zlen l)) = Some (Some (wid e, wts e));
  ws_keys : NoDup (dict_keys d);
  ws_dict : forall id, dict_get id d = wlast id w;
  ws_slot : forall id, dict_get id sl =
                       option_map (fun j => (i + Z.of_nat j) mod zlen l) (wlast_pos id w) }.

Lemma win_head_slot l i e w d sl : 1 <= zlen l -> 0 <= i < zlen l ->
  WinS l i (e :: w) d sl -> py_index l i = Ok (Some (wid e, wts e)).
Proof.
  intros Hn Hi [Hs _ _ _]. apply py_index_nth; [exact Hi|].
  specialize (Hs O e eq_refl). cbn [Z.of_nat] in Hs. rewrite Z.add_0_r, Z.mod_small in Hs by lia. exact Hs.
Qed.

(* _drop on the oldest slot: removes the entry iff this slot is the newest one of its ID *)
Lemma win_drop_head l i e w d sl : 1 <= zlen l -> 0 <= i < zlen l -> zlen (e :: w) <= zlen l ->
  WinS l i (e :: w) d sl ->
  exists d' sl', drop l d sl i = (d', sl', None) /\ WinS l ((i + 1) mod zlen l) w d' sl'.
Proof.
  intros Hn Hi Hlen Hw. pose proof (win_head_slot l i e w d sl Hn Hi Hw) as Hidx.
  destruct Hw as [Hs Hk Hd Hsl]. rewrite zlen_cons in Hlen. pose proof (zlen_nonneg w) as Hw0.
  unfold drop. rewrite Hidx.
  assert (forall j e', nth_error w j = Some e' ->
            nth_error l (Z.to_nat (((i + 1) mod zlen l + Z.of_nat j) mod zlen l)) = Some (Some (wid e', wts e'))) as Hs'.
  { intros j e' Hj. rewrite slot_succ by exact Hn.
    specialize (Hs (S j) e' Hj). rewrite Nat2Z.inj_succ in Hs. unfold Z.succ in Hs. exact Hs. }
  rewrite (Hsl (wid e)). cbn [wlast_pos]. rewrite Z.eqb_refl.
  destruct (wlast_pos (wid e) w) as [j|] eqn:Hp; cbn [option_map].
  - (* stale: a newer slot of the same ID exists *)
    pose proof (wlast_pos_lt _ _ _ Hp) as Hj. unfold zlen in Hlen, Hw0.
    assert ((i + Z.of_nat (S j)) mod zlen l <> i) as Hne.
    { rewrite <- (Z.mod_small i (zlen l)) at 2 by lia. replace i with (i + 0) at 2 by lia.
      apply slot_distinct; unfold zlen in *; lia. }
    apply Z.eqb_neq in Hne. rewrite Hne.
    exists d, sl. split; [reflexivity|]. constructor; try assumption.
    + intros id. rewrite Hd. cbn [wlast].
      destruct (wlast id w) as [s|] eqn:E; [reflexivity|].
      destruct (id =? wid e) eqn:E2; [|reflexivity]. apply Z.eqb_eq in E2. subst id.
      destruct (proj1 (wlast_pos_some (wid e) w) (ex_intro _ j Hp)) as [s Hs2]. congruence.
    + intros id. rewrite Hsl. cbn [wlast_pos].
      destruct (wlast_pos id w) as [k|] eqn:E; cbn [option_map].
      * f_equal. rewrite slot_succ by exact Hn. f_equal. lia.
      * destruct (id =? wid e) eqn:E2; [|reflexivity]. apply Z.eqb_eq in E2. subst id. congruence.
  - (* newest slot of its ID: the entry goes *)
    cbn [Z.of_nat]. rewrite Z.add_0_r, Z.mod_small by lia. rewrite Z.eqb_refl.
    assert (wlast (wid e) w = None) as Hnone.
    { destruct (wlast (wid e) w) as [s|] eqn:E; [|reflexivity].
      destruct (proj2 (wlast_pos_some (wid e) w) (ex_intro _ s E)) as [j Hj]. congruence. }
    assert (dict_mem (wid e) d = true) as Hm1.
    { unfold dict_mem. rewrite Hd. cbn [wlast]. rewrite Hnone, Z.eqb_refl. reflexivity. }
    assert (dict_mem (wid e) sl = true) as Hm2.
    { unfold dict_mem. rewrite Hsl. cbn [wlast_pos]. rewrite Hp, Z.eqb_refl. reflexivity. }
    unfold dict_del. rewrite Hm1, Hm2.
    eexists. eexists. split; [reflexivity|]. constructor.
    + exact Hs'.
    + apply dict_keys_remove_nodup. exact Hk.
    + intros id. rewrite dict_get_remove, Hd. cbn [wlast].
      destruct (id =? wid e) eqn:E.
      * apply Z.eqb_eq in E. subst id. symmetry. exact Hnone.
      * destruct (wlast id w); reflexivity.
    + intros id. rewrite dict_get_remove, Hsl. cbn [wlast_pos].
      destruct (id =? wid e) eqn:E.
      * apply Z.eqb_eq in E. subst id. rewrite Hp. reflexivity.
      * destruct (wlast_pos id w) as [k|]; cbn [option_map]; [|reflexivity].
        f_equal. rewrite slot_succ by exact Hn. f_equal. lia.
Qed.

(* storing a new entry in the free slot behind the window (no freshness condition any more) *)
Lemma win_push l i w d sl id s now : 1 <= zlen l -> 0 <= i < zlen l -> zlen w <= zlen l - 1 ->
  WinS l i w d sl ->
  WinS (upd_nth (Z.to_nat ((i + zlen w) mod zlen l)) l (Some (id, now))) i (w ++ [(id, s, now)])
       (dict_set id s d) (dict_set id ((i + zlen w) mod zlen l) sl).
Proof.
  intros Hn Hi Hlen [Hs Hk Hd Hsl]. pose proof (zlen_nonneg w) as Hw0.
  constructor.
  - intros j e Hj. rewrite zlen_upd.
    assert (j < length (w ++ [(id, s, now)]))%nat as Hjl by (apply nth_error_Some; congruence).
    rewrite app_length in Hjl. cbn [length] in Hjl.
    destruct (Nat.eq_dec j (length w)) as [->|Hne].
    + rewrite nth_error_app2 in Hj by lia. rewrite Nat.sub_diag in Hj. cbn [nth_error] in Hj.
      inversion Hj; subst e. cbn [wid wts fst snd]. fold (zlen w).
      apply upd_nth_same. pose proof (slot_range (zlen l) (i + zlen w) Hn). unfold zlen in *. lia.
    + rewrite nth_error_app1 in Hj by lia.
      rewrite upd_nth_other; [apply Hs; exact Hj|].
      intros Heq. apply Z2Nat.inj in Heq; try (apply slot_range; exact Hn).
      revert Heq. apply slot_distinct; unfold zlen in *; lia.
  - apply dict_keys_set_nodup. exact Hk.
  - intros x. rewrite dict_get_set, wlast_app, Hd. cbn [wid wsess fst snd]. reflexivity.
  - intros x. rewrite zlen_upd. rewrite dict_get_set, wlast_pos_app, Hsl. cbn [wid fst].
    destruct (x =? id); [|reflexivity]. cbn [option_map]. reflexivity.
Qed.

(* ---- expiry --------------------------------------------------------------------- *)
Definition expired (maxAge now : Z) (e : went) : bool := now - wts e >? maxAge.

Fixpoint drop_expired (maxAge now : Z) (w : list went) : list went :=
  match w with
  | [] => []
  | e :: w' => if expired maxAge now e then drop_expired maxAge now w' else w
  end.

Fixpoint take_expired (maxAge now : Z) (w : list went) : list went :=
  match w with
  | [] => []
  | e :: w' => if expired maxAge now e then e :: take_expired maxAge now w' else []
  end.

Lemma take_drop maxAge now w : take_expired maxAge now w ++ drop_expired maxAge now w = w.
Proof.
  induction w as [|e w IH]; cbn [take_expired drop_expired]; [reflexivity|].
  destruct (expired maxAge now e); cbn [app]; [f_equal; exact IH|reflexivity].
Qed.

Lemma take_all_expired maxAge now w e : In e (take_expired maxAge now w) -> expired maxAge now e = true.
Proof.
  induction w as [|x w IH]; cbn [take_expired]; [intros []|].
  destruct (expired maxAge now x) eqn:E; [|intros []]. intros [<-|H]; [exact E|apply IH; exact H].
Qed.

Lemma zlen_drop_le maxAge now w : zlen (drop_expired maxAge now w) <= zlen w.
Proof.
  rewrite <- (take_drop maxAge now w) at 2. rewrite zlen_app. pose proof (zlen_nonneg (take_expired maxAge now w)). lia.
Qed.

(* ---- representation invariant of the whole cache --------------------------------- *)
Record Rep (c : cache) (w : list went) : Prop := {
  rep_n : 1 <= zlen (c_list c);
  rep_first : 0 <= c_first c < zlen (c_list c);
  rep_len : zlen w <= zlen (c_list c) - 1;
  rep_last : c_last c = (c_first c + zlen w) mod zlen (c_list c);
  rep_win : WinS (c_list c) (c_first c) w (c_dict c) (c_slot c) }.

Lemma purge_loop_ok l last maxAge now : 1 <= zlen l ->
  forall w fuel d sl i, (length w < fuel)%nat -> 0 <= i < zlen l -> zlen w <= zlen l - 1 ->
  last = (i + zlen w) mod zlen l -> WinS l i w d sl ->
  exists d' sl' i', purge_loop fuel l last maxAge now d sl i = (d', sl', Ok i') /\
    0 <= i' < zlen l /\ last = (i' + zlen (drop_expired maxAge now w)) mod zlen l /\
    WinS l i' (drop_expired maxAge now w) d' sl'.
Proof.
  intros Hn. induction w as [|e w IH]; intros fuel d sl i Hf Hi Hlen Hlast Hw;
    (destruct fuel as [|fuel]; [cbn [length] in Hf; lia|]); cbn [purge_loop].
  - change (zlen (@nil went)) with 0 in Hlast. rewrite Z.add_0_r, Z.mod_small in Hlast by lia.
    subst last. rewrite Z.eqb_refl. exists d, sl, i. cbn [drop_expired].
    change (zlen (@nil went)) with 0. rewrite Z.add_0_r, Z.mod_small by lia. auto.
  - pose proof Hlen as Hlen2. rewrite zlen_cons in Hlast, Hlen. pose proof (zlen_nonneg w) as Hw0.
    assert (i <> last) as Hne.
    { subst last. rewrite <- (Z.mod_small i (zlen l)) at 1 by lia.
      replace i with (i + 0) at 1 by lia. apply slot_distinct; lia. }
    apply Z.eqb_neq in Hne. rewrite Hne.
    rewrite (win_head_slot l i e w d sl Hn Hi Hw).
    fold (expired maxAge now e). cbn [drop_expired].
    destruct (expired maxAge now e) eqn:Ex.
    + destruct (win_drop_head l i e w d sl Hn Hi ltac:(lia) Hw) as [d1 [sl1 [Ed Hw1]]].
      rewrite Ed. rewrite py_mod_ok by exact Hn.
      cbn [length] in Hf.
      destruct (IH fuel d1 sl1 ((i + 1) mod zlen l)) as [d' [sl' [i' [E [Hi' [Hl' Hw']]]]]].
      * lia.
      * apply slot_range. exact Hn.
      * lia.
      * rewrite slot_succ by exact Hn. subst last. f_equal. lia.
      * exact Hw1.
      * exists d', sl', i'. auto.
    + exists d, sl, i. rewrite zlen_cons. auto.
Qed.

Lemma purge_ok c w now : Rep c w ->
  exists c', purge c now = (c', ORet None) /\ Rep c' (drop_expired (c_maxAge c) now w) /\
             c_list c' = c_list c /\ c_maxAge c' = c_maxAge c.
Proof.
  intros [Hn Hf Hlen Hlast Hw]. unfold purge.
  destruct (purge_loop_ok (c_list c) (c_last c) (c_maxAge c) now Hn w (S (length (c_list c)))
              (c_dict c) (c_slot c) (c_first c))
    as [d' [sl' [i' [E [Hi' [Hl' Hw']]]]]]; try assumption.
  { unfold zlen in Hlen. lia. }
  rewrite E. eexists. split; [reflexivity|]. split; [|split; reflexivity].
  constructor; cbn [c_list c_first c_last c_dict c_slot with_first with_dicts]; try assumption.
  pose proof (zlen_drop_le (c_maxAge c) now w). lia.
Qed.

Lemma getitem_ok c w valid id now : Rep c w ->
  exists c', getitem c valid id now =
             (c', match wlast id (drop_expired (c_maxAge c) now w) with
                  | None => OExc KeyError
                  | Some s => if valid s then ORet (Some s) else OExc KeyError
                  end) /\
             Rep c' (drop_expired (c_maxAge c) now w) /\ c_list c' = c_list c /\ c_maxAge c' = c_maxAge c.
Proof.
  intros Hr. destruct (purge_ok c w now Hr) as [c' [E [Hr' [Hl Hm]]]].
  unfold getitem. rewrite E. exists c'. split; [|auto].
  rewrite (ws_dict _ _ _ _ _ (rep_win _ _ Hr')).
  destruct (wlast id (drop_expired (c_maxAge c) now w)) as [s|]; [|reflexivity].
  destruct (valid s); reflexivity.
Qed.

Definition push_evict (n : Z) (w : list went) (e : went) : list went :=
  if zlen w + 1 <? n then w ++ [e] else tl (w ++ [e]).

Lemma setitem_ok c w id s now : Rep c w ->
  exists c', setitem c id s now = (c', ORet None) /\
             Rep c' (push_evict (zlen (c_list c)) w (id, s, now)) /\
             zlen (c_list c') = zlen (c_list c) /\ c_maxAge c' = c_maxAge c.
Proof.
  intros [Hn Hf Hlen Hlast Hw]. pose proof (zlen_nonneg w) as Hw0.
  set (n := zlen (c_list c)) in *.
  assert (0 <= c_last c < n) as Hl by (rewrite Hlast; apply slot_range; exact Hn).
  pose proof (win_push (c_list c) (c_first c) w (c_dict c) (c_slot c) id s now Hn Hf Hlen Hw) as P.
  fold n in P. rewrite <- Hlast in P.
  unfold setitem. rewrite py_setitem_ok by exact Hl.
  cbn [c_list c_first c_last c_dict c_slot c_maxAge with_first with_dicts with_list with_last].
  rewrite zlen_upd. fold n. rewrite py_mod_ok by exact Hn.
  assert ((c_last c + 1) mod n = (c_first c + (zlen w + 1)) mod n) as Hl1.
  { rewrite Hlast. rewrite Zplus_mod_idemp_l. f_equal. lia. }
  unfold push_evict. fold n.
  destruct (zlen w + 1 <? n) eqn:Efull.
  - (* room left *)
    assert ((c_last c + 1) mod n <> c_first c) as Hne.
    { rewrite Hl1. rewrite mod_wrap by lia. destruct (c_first c + (zlen w + 1) <? n) eqn:E; lia. }
    apply Z.eqb_neq in Hne. rewrite Hne.
    eexists. split; [reflexivity|]. split; [|split; [cbn [c_list]; apply zlen_upd|reflexivity]].
    constructor; cbn [c_list c_first c_last c_dict c_slot with_first with_dicts with_list with_last];
      rewrite ?zlen_upd; fold n; try assumption.
    + rewrite zlen_app. change (zlen [(id, s, now)]) with 1. lia.
    + rewrite zlen_app. change (zlen [(id, s, now)]) with 1. exact Hl1.
  - (* full: the oldest slot is recycled *)
    assert (zlen w + 1 = n) as Hk by lia.
    assert ((c_last c + 1) mod n = c_first c) as Heq.
    { rewrite Hl1, Hk. rewrite mod_wrap by lia. destruct (c_first c + n <? n) eqn:E; lia. }
    rewrite Heq, Z.eqb_refl.
    destruct (w ++ [(id, s, now)]) as [|e0 w0] eqn:Ew.
    { destruct w; discriminate. }
    assert (zlen (e0 :: w0) = n) as Hlen0.
    { rewrite <- Ew, zlen_app. change (zlen [(id, s, now)]) with 1. exact Hk. }
    set (l2 := upd_nth (Z.to_nat (c_last c)) (c_list c) (Some (id, now))) in *.
    assert (zlen l2 = n) as Hn2 by (unfold l2; apply zlen_upd).
    destruct (win_drop_head l2 (c_first c) e0 w0 _ _ ltac:(lia) ltac:(lia) ltac:(lia) P) as [d4 [sl4 [Ed Hw4]]].
    rewrite Ed. rewrite ?Hn2. rewrite py_mod_ok by exact Hn.
    eexists. split; [reflexivity|]. split; [|split; [cbn [c_list]; exact Hn2|reflexivity]].
    match goal with |- context [tl ?x] => assert (x = e0 :: w0) as Ew' by exact Ew; rewrite Ew' end. cbn [tl].
    rewrite zlen_cons in Hlen0.
    constructor; cbn [c_list c_first c_last c_dict c_slot with_first with_dicts with_list with_last];
      rewrite ?Hn2; try assumption.
    + apply slot_range. exact Hn.
    + lia.
    + rewrite slot_succ by exact Hn. replace (zlen w0 + 1) with n by lia.
      rewrite mod_wrap by lia. destruct (c_first c + n <? n) eqn:E; lia.
    + rewrite <- Hn2. exact Hw4.
Qed.

Lemma init_rep n maxAge : 1 <= n -> Rep (init n maxAge) [] /\ zlen (c_list (init n maxAge)) = n.
Proof.
  intros Hn. assert (zlen (c_list (init n maxAge)) = n) as Hl.
  { cbn [init c_list]. unfold zlen. rewrite repeat_length. lia. }
  split; [|exact Hl].
  constructor; rewrite ?Hl; cbn [init c_first c_last c_dict c_slot]; change (zlen (@nil went)) with 0; try lia.
  - rewrite Z.add_0_r. rewrite Z.mod_small by lia. reflexivity.
  - constructor.
    + intros j e Hj. destruct j; discriminate.
    + constructor.
    + intros id. reflexivity.
    + intros id. reflexivity.
Qed.

(* ======== Part 2: the window is the newest part of the specification's log ========== *)
Fixpoint asc (w : list went) : Prop :=
  match w with
  | [] => True
  | e :: r => (forall e', In e' r -> wts e <= wts e') /\ asc r
  end.

Lemma expired_true maxAge now e : expired maxAge now e = true <-> now - wts e > maxAge.
Proof. unfold expired. rewrite Z.gtb_ltb, Z.ltb_lt. lia. Qed.

Lemma expired_false maxAge now e : expired maxAge now e = false <-> now - wts e <= maxAge.
Proof. unfold expired. rewrite Z.gtb_ltb, Z.ltb_ge. lia. Qed.

Lemma asc_drop maxAge now w : asc w -> asc (drop_expired maxAge now w).
Proof.
  induction w as [|e w IH]; cbn [drop_expired asc]; [auto|].
  intros [H1 H2]. destruct (expired maxAge now e); [apply IH; exact H2|split; assumption].
Qed.

Lemma drop_not_expired maxAge now w : asc w ->
  forall e, In e (drop_expired maxAge now w) -> expired maxAge now e = false.
Proof.
  induction w as [|x w IH]; cbn [drop_expired asc]; [intros _ e []|].
  intros [H1 H2] e. destruct (expired maxAge now x) eqn:Ex; [apply IH; exact H2|].
  intros [<-|Hin]; [exact Ex|].
  apply expired_false. apply expired_false in Ex. specialize (H1 e Hin). lia.
Qed.

Lemma asc_app_one w e : asc w -> (forall x, In x w -> wts x <= wts e) -> asc (w ++ [e]).
Proof.
  induction w as [|x w IH]; cbn [app asc]; intros Ha Hle.
  - split; [intros e' []|exact I].
  - destruct Ha as [H1 H2]. split.
    + intros e' Hin. apply in_app_or in Hin. destruct Hin as [Hin|[<-|[]]]; [apply H1; exact Hin|apply Hle; left; reflexivity].
    + apply IH; [exact H2|]. intros y Hy. apply Hle. right. exact Hy.
Qed.

Record Rel (n maxAge : Z) (w old : list went) (t : Z) : Prop := {
  rel_asc : asc w;
  rel_le : forall e, In e w -> wts e <= t;
  rel_old : forall k e, nth_error old k = Some e -> zlen w + Z.of_nat k < n - 1 -> t - wts e > maxAge }.

Lemma log_split maxAge now w old :
  rev (drop_expired maxAge now w) ++ (rev (take_expired maxAge now w) ++ old) = rev w ++ old.
Proof. rewrite app_assoc, <- rev_app_distr, take_drop. reflexivity. Qed.

Lemma rel_purge n maxAge w old t now : Rel n maxAge w old t -> t <= now ->
  Rel n maxAge (drop_expired maxAge now w) (rev (take_expired maxAge now w) ++ old) now.
Proof.
  intros [Ha Hle Hold] Ht. constructor.
  - apply asc_drop. exact Ha.
  - intros e Hin. assert (In e w) as Hw by (rewrite <- (take_drop maxAge now w); apply in_or_app; right; exact Hin).
    specialize (Hle e Hw). lia.
  - intros k e Hk Hcap.
    destruct (Nat.ltb k (length (rev (take_expired maxAge now w)))) eqn:E.
    + apply Nat.ltb_lt in E. rewrite nth_error_app1 in Hk by exact E.
      apply nth_error_In, in_rev in Hk. apply expired_true. eapply take_all_expired. exact Hk.
    + apply Nat.ltb_ge in E. rewrite nth_error_app2 in Hk by exact E.
      assert (t - wts e > maxAge); [|lia]. eapply Hold; [exact Hk|].
      rewrite rev_length in *. rewrite <- (take_drop maxAge now w) at 1. rewrite zlen_app.
      unfold zlen in *. lia.
Qed.

Lemma rel_put n maxAge w old t now id s : Rel n maxAge w old t -> t <= now -> zlen w <= n - 1 ->
  exists old', Rel n maxAge (push_evict n w (id, s, now)) old' now /\
               rev (push_evict n w (id, s, now)) ++ old' = (id, s, now) :: (rev w ++ old).
Proof.
  intros [Ha Hle Hold] Ht Hlen.
  assert (asc (w ++ [(id, s, now)])) as Ha'.
  { apply asc_app_one; [exact Ha|]. intros x Hx. cbn [wts snd]. specialize (Hle x Hx). lia. }
  unfold push_evict. destruct (zlen w + 1 <? n) eqn:E.
  - exists old. split; [|rewrite rev_app_distr; reflexivity]. constructor.
    + exact Ha'.
    + intros e Hin. apply in_app_or in Hin. destruct Hin as [Hin|[<-|[]]]; [specialize (Hle e Hin); lia|cbn [wts snd]; lia].
    + intros k e Hk Hcap. rewrite zlen_app in Hcap. change (zlen [(id, s, now)]) with 1 in Hcap.
      assert (t - wts e > maxAge); [|lia]. eapply Hold; [exact Hk|lia].
  - destruct (w ++ [(id, s, now)]) as [|e0 w0] eqn:Ew; [destruct w; discriminate|].
    assert (rev w0 ++ e0 :: old = (id, s, now) :: rev w ++ old) as Hlog.
    { change (e0 :: old) with ([e0] ++ old). rewrite app_assoc.
      change (rev w0 ++ [e0]) with (rev (e0 :: w0)). rewrite <- Ew, rev_app_distr. reflexivity. }
    match goal with |- context [tl ?x] => assert (x = e0 :: w0) as Ew' by exact Ew; rewrite Ew' end.
    exists (e0 :: old). cbn [tl]. split; [|exact Hlog]. constructor.
    + destruct Ha' as [_ H2]. exact H2.
    + intros e Hin. assert (In e (w ++ [(id, s, now)])) as Hin' by (rewrite Ew; right; exact Hin).
      apply in_app_or in Hin'. destruct Hin' as [Hin'|[<-|[]]]; [specialize (Hle e Hin'); lia|cbn [wts snd]; lia].
    + intros k e Hk Hcap. exfalso.
      assert (zlen (e0 :: w0) = zlen w + 1) as Hz by (rewrite <- Ew, zlen_app; reflexivity).
      rewrite zlen_cons in Hz. lia.
Qed.

(* ---- find_newest ------------------------------------------------------------------ *)
Lemma find_newest_some id log k0 k s ts : find_newest id log k0 = Some (k, s, ts) ->
  exists j, k = k0 + Z.of_nat j /\ nth_error log j = Some (id, s, ts).
Proof.
  revert k0. induction log as [|[[a b] c] log IH]; intros k0; cbn [find_newest]; [discriminate|].
  destruct (id =? a) eqn:E.
  - apply Z.eqb_eq in E. intros H. inversion H; subst. exists O. split; [cbn; lia|reflexivity].
  - intros H. destruct (IH _ H) as [j [Hk Hj]]. exists (S j). split; [lia|exact Hj].
Qed.

Lemma find_newest_app id a b k0 :
  find_newest id (a ++ b) k0 =
  match find_newest id a k0 with Some r => Some r | None => find_newest id b (k0 + zlen a) end.
Proof.
  revert k0. induction a as [|[[x y] z] a IH]; intros k0; cbn [app find_newest].
  - change (zlen (@nil (Z * Z * Z))) with 0. rewrite Z.add_0_r. reflexivity.
  - destruct (id =? x); [reflexivity|]. rewrite IH. rewrite zlen_cons.
    destruct (find_newest id a (k0 + 1)); [reflexivity|]. f_equal. lia.
Qed.

(* the newest store of id inside the window is the window's last slot of id *)
Lemma find_newest_rev id (w : list went) : forall k0,
  match find_newest id (rev w) k0 with
  | Some (k, s, ts) => wlast id w = Some s /\ In (id, s, ts) w /\ k0 <= k < k0 + zlen w
  | None => wlast id w = None
  end.
Proof.
  induction w as [|e w IH]; intros k0; [reflexivity|].
  cbn [rev wlast]. rewrite find_newest_app. specialize (IH k0).
  destruct (find_newest id (rev w) k0) as [[[k s] ts]|].
  - destruct IH as [H1 [H2 H3]]. rewrite H1. rewrite zlen_cons. split; [reflexivity|]. split; [right; exact H2|lia].
  - rewrite IH. destruct e as [[a b] c]. cbn [find_newest wid wsess fst snd].
    destruct (id =? a) eqn:E; [|reflexivity].
    apply Z.eqb_eq in E. subst a. split; [reflexivity|]. split; [left; reflexivity|].
    unfold zlen. rewrite rev_length. cbn [length]. lia.
Qed.

(* the lookup answers exactly as the specification *)
Lemma spec_get_agrees n maxAge w old now inv id :
  Rel n maxAge w old now -> zlen w <= n - 1 ->
  (forall e, In e w -> expired maxAge now e = false) ->
  spec_get n maxAge (rev w ++ old) inv id now =
  match wlast id w with
  | None => OExc KeyError
  | Some s => if valid_in inv s then ORet (Some s) else OExc KeyError
  end.
Proof.
  intros [Ha Hle Hold] Hlen Hfresh. unfold spec_get, capacity.
  rewrite find_newest_app. pose proof (find_newest_rev id w 0) as Hr.
  destruct (find_newest id (rev w) 0) as [[[k s] ts]|].
  - destruct Hr as [H1 [H2 H3]]. rewrite H1.
    pose proof (Hfresh _ H2) as Hx. apply expired_false in Hx. cbn [wts snd] in Hx.
    destruct (now - ts <=? maxAge) eqn:E1; [|lia].
    destruct (k <? n - 1) eqn:E2; [|lia]. cbn [andb].
    destruct (valid_in inv s); reflexivity.
  - rewrite Hr. unfold zlen at 1. rewrite rev_length. fold (zlen w).
    destruct (find_newest id old (0 + zlen w)) as [[[k s] ts]|] eqn:Hf; [|reflexivity].
    destruct (find_newest_some _ _ _ _ _ _ Hf) as [j [Hk Hj]].
    destruct (k <? n - 1) eqn:E2.
    + assert (now - wts (id, s, ts) > maxAge) as Hx by (eapply Hold; [exact Hj|lia]).
      cbn [wts snd] in Hx. destruct (now - ts <=? maxAge) eqn:E1; [lia|]. reflexivity.
    + rewrite andb_false_r. reflexivity.
Qed.

(* ======== Part 3: histories ============================================================ *)
Lemma rep_size c w : Rep c w -> zlen (c_dict c) <= zlen w.
Proof.
  intros [_ _ _ _ [_ Hk Hd _]]. unfold zlen.
  assert (length (dict_keys (c_dict c)) <= length (map wid w))%nat as H.
  { apply NoDup_incl_length; [exact Hk|]. intros k Hin.
    destruct (dict_in_get _ _ Hin) as [v Hv]. rewrite Hd in Hv. eapply wlast_in. exact Hv. }
  unfold dict_keys in H. rewrite !map_length in H. lia.
Qed.

Lemma rel_mono n maxAge w old t now : Rel n maxAge w old t -> t <= now -> Rel n maxAge w old now.
Proof.
  intros [Ha Hle Hold] Ht. constructor; try assumption.
  - intros e Hin. specialize (Hle e Hin). lia.
  - intros k e Hk Hc. specialize (Hold k e Hk Hc). lia.
Qed.

Lemma exec_cons w now o h :
  exec w ((now, o) :: h) =
  (fst (exec (fst (apply w now o)) h), snd (apply w now o) :: snd (exec (fst (apply w now o)) h)).
Proof.
  cbn [exec]. destruct (apply w now o) as [w1 r]. cbn [fst snd].
  destruct (exec w1 h) as [w2 rs]. reflexivity.
Qed.

Lemma spec_exec_cons n maxAge st now o h :
  spec_exec n maxAge st ((now, o) :: h) =
  snd (spec_apply n maxAge st now o) :: spec_exec n maxAge (fst (spec_apply n maxAge st now o)) h.
Proof. cbn [spec_exec]. destruct (spec_apply n maxAge st now o) as [st1 r]. reflexivity. Qed.

Section Histories.
  Variables n maxAge : Z.

  Lemma exec_refines : forall h c w old t inv,
    Rep c w -> zlen (c_list c) = n -> c_maxAge c = maxAge -> Rel n maxAge w old t ->
    monotone_from t h ->
    snd (exec {| w_cache := c; w_invalid := inv |} h) =
      spec_exec n maxAge {| s_log := rev w ++ old; s_invalid := inv |} h /\
    zlen (c_dict (w_cache (fst (exec {| w_cache := c; w_invalid := inv |} h)))) <= n - 1 /\
    exists w', Rep (w_cache (fst (exec {| w_cache := c; w_invalid := inv |} h))) w' /\ asc w'.
  Proof.
    induction h as [|[now o] h IH]; intros c w old t inv Hrep Hlen Hage Hrel Hmono.
    - cbn [exec spec_exec fst snd w_cache]. split; [reflexivity|]. split.
      + pose proof (rep_size c w Hrep). pose proof (rep_len c w Hrep). lia.
      + exists w. split; [exact Hrep|exact (rel_asc _ _ _ _ _ Hrel)].
    - destruct Hmono as [Ht Hmono]. rewrite exec_cons, spec_exec_cons. cbn [fst snd].
      destruct o as [id|id s| |s b]; cbn [apply spec_apply fst snd w_cache w_invalid s_log s_invalid] in *.
      + (* Get *)
        destruct (getitem_ok c w (valid_in inv) id now Hrep) as [c' [E [Hrep' [Hl' Hm']]]].
        rewrite E. cbn [fst snd]. rewrite Hage in *.
        pose proof (rel_purge n maxAge w old t now Hrel Ht) as Hrel'.
        assert (zlen (c_list c') = n) as Hlen' by (rewrite Hl'; exact Hlen).
        rewrite <- (log_split maxAge now w old).
        rewrite (spec_get_agrees n maxAge _ _ now inv id Hrel').
        * destruct (IH c' _ _ now inv Hrep' Hlen' Hm' Hrel' Hmono) as [IH1 IH2].
          rewrite IH1. split; [reflexivity|exact IH2].
        * pose proof (rep_len _ _ Hrep'). lia.
        * apply drop_not_expired. exact (rel_asc _ _ _ _ _ Hrel).
      + (* Put *)
        destruct (setitem_ok c w id s now Hrep) as [c' [E [Hrep' [Hl' Hm']]]].
        rewrite E. cbn [fst snd]. rewrite Hlen in Hrep'.
        destruct (rel_put n maxAge w old t now id s Hrel Ht) as [old' [Hrel' Hlog]].
        { pose proof (rep_len _ _ Hrep). lia. }
        rewrite <- Hlog.
        destruct (IH c' _ old' now inv Hrep' (eq_trans Hl' Hlen) (eq_trans Hm' Hage) Hrel' Hmono) as [IH1 IH2].
        rewrite IH1. split; [reflexivity|exact IH2].
      + (* Purge *)
        destruct (purge_ok c w now Hrep) as [c' [E [Hrep' [Hl' Hm']]]].
        rewrite E. cbn [fst snd]. rewrite Hage in *.
        pose proof (rel_purge n maxAge w old t now Hrel Ht) as Hrel'.
        assert (zlen (c_list c') = n) as Hlen' by (rewrite Hl'; exact Hlen).
        rewrite <- (log_split maxAge now w old).
        destruct (IH c' _ _ now inv Hrep' Hlen' Hm' Hrel' Hmono) as [IH1 IH2].
        rewrite IH1. split; [reflexivity|exact IH2].
      + (* SetValid *)
        destruct (IH c w old now (set_valid inv s b) Hrep Hlen Hage (rel_mono _ _ _ _ _ _ Hrel Ht) Hmono)
          as [IH1 IH2].
        rewrite IH1. split; [reflexivity|exact IH2].
  Qed.
End Histories.

Lemma monotone_start h : monotone h -> exists t, monotone_from t h.
Proof.
  destruct h as [|[t o] h]; cbn [monotone monotone_from]; intros H.
  - exists 0. exact I.
  - exists t. split; [lia|exact H].
Qed.

Lemma init_rel n maxAge t : Rel n maxAge [] [] t.
Proof.
  constructor; cbn [rev app map]; try constructor.
  - intros e [].
  - intros k e Hk. destruct k; discriminate.
Qed.

Lemma exec_init n maxAge h : 1 <= n -> monotone h ->
  outcomes n maxAge h = spec_outcomes n maxAge h /\ zlen (c_dict (final_cache n maxAge h)) <= n - 1 /\
  exists w, Rep (final_cache n maxAge h) w /\ asc w.
Proof.
  intros Hn Hm. destruct (monotone_start h Hm) as [t Ht].
  destruct (init_rep n maxAge Hn) as [Hrep Hlen].
  unfold outcomes, spec_outcomes, final_cache, init_world.
  exact (exec_refines n maxAge h (init n maxAge) [] [] t [] Hrep Hlen eq_refl (init_rel n maxAge t) Ht).
Qed.

Lemma cache_refines_spec_all : forall n maxAge h,
  1 <= n -> monotone h -> outcomes n maxAge h = spec_outcomes n maxAge h.
Proof. intros n maxAge h Hn Hm. exact (proj1 (exec_init n maxAge h Hn Hm)). Qed.

Lemma cache_size_bound_all : forall n maxAge h,
  1 <= n -> monotone h -> zlen (c_dict (final_cache n maxAge h)) <= n - 1.
Proof. intros n maxAge h Hn Hm. exact (proj1 (proj2 (exec_init n maxAge h Hn Hm))). Qed.

(* specification outcomes are always documented ones *)
Lemma spec_documented n maxAge : forall h st, all_documented h (spec_exec n maxAge st h) = true.
Proof.
  induction h as [|[now o] h IH]; intros st; [reflexivity|].
  rewrite spec_exec_cons. cbn [all_documented]. rewrite IH, andb_true_r.
  destruct o as [id|id s| |s b]; cbn [spec_apply snd documented]; try reflexivity.
  unfold spec_get. destruct (find_newest id (s_log st) 0) as [[[k s] ts]|]; [|reflexivity].
  destruct ((now - ts <=? maxAge) && (k <? capacity n) && valid_in (s_invalid st) s); reflexivity.
Qed.

Lemma cache_no_internal_error_all : forall n maxAge h,
  1 <= n -> monotone h -> all_documented h (outcomes n maxAge h) = true.
Proof.
  intros n maxAge h Hn Hm. rewrite (cache_refines_spec_all n maxAge h Hn Hm).
  apply spec_documented.
Qed.

(* The invariant the age test of _purge relies on ("elements in list are ordered in time, we can
   break once we reach the first non-expired element"): after every history with a monotone clock the
   live slots of the circular list, read from firstIndex to lastIndex, carry non-decreasing
   timestamps.  It holds because every store stamps its slot with the clock value of its own position
   in the history, i.e. because the clock is read at the linearization point. *)
Definition live_slots_sorted (c : cache) : Prop :=
  exists w : list went,
    zlen w <= zlen (c_list c) - 1 /\
    c_last c = (c_first c + zlen w) mod zlen (c_list c) /\
    (forall j e, nth_error w j = Some e ->
       nth_error (c_list c) (Z.to_nat ((c_first c + Z.of_nat j) mod zlen (c_list c))) = Some (Some (wid e, wts e))) /\
    asc w.

Lemma cache_timestamps_sorted_all : forall n maxAge h,
  1 <= n -> monotone h -> live_slots_sorted (final_cache n maxAge h).
Proof.
  intros n maxAge h Hn Hm. destruct (proj2 (proj2 (exec_init n maxAge h Hn Hm))) as [w [Hrep Ha]].
  exists w. split; [exact (rep_len _ _ Hrep)|]. split; [exact (rep_last _ _ Hrep)|].
  split; [exact (ws_slots _ _ _ _ _ (rep_win _ _ Hrep))|exact Ha].
Qed.
