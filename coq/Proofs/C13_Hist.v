(* C13 -- invariants of the world of Model/C13_Resume.v under every event, by induction over histories *)
From Coq Require Import ZArith List Bool Lia.
From TV Require Import Base.Prelude Model.C13_Resume Proofs.C13_Decide.
Import ListNotations.
Open Scope Z_scope.

Ltac break_match :=
  match goal with
  | |- context [match ?x with _ => _ end] => destruct x eqn:?
  end.

(* innermost scrutinee first *)
Ltac break_inner :=
  match goal with
  | |- context [match ?x with _ => _ end] =>
      lazymatch x with
      | context [match _ with _ => _ end] => fail
      | _ => destruct x eqn:?
      end
  end.

(* ---- lists with Z indices ---------------------------------------------------------- *)
Lemma zget_in {A} (l : list A) i x : zget l i = Some x -> In x l.
Proof. unfold zget. destruct (i <? 0); [discriminate|]. apply nth_error_In. Qed.

Lemma in_set_nth {A} (l : list A) n x y : In y (set_nth l n x) -> y = x \/ In y l.
Proof.
  revert n. induction l as [|a l IH]; intros n; cbn [set_nth]; [intros []|].
  destruct n as [|n]; cbn [In].
  - intros [H|H]; [left; symmetry; exact H|right; right; exact H].
  - intros [H|H]; [right; left; exact H|]. destruct (IH n H) as [E|E]; [left; exact E|right; right; exact E].
Qed.

Lemma in_zset {A} (l : list A) i x y : In y (zset l i x) -> y = x \/ In y l.
Proof. unfold zset. destruct (i <? 0); [intros H; right; exact H|apply in_set_nth]. Qed.

Lemma nth_error_set_nth {A} (l : list A) n m x y :
  nth_error (set_nth l n x) m = Some y -> (m = n /\ y = x) \/ nth_error l m = Some y.
Proof.
  revert n m. induction l as [|a l IH]; intros n m; cbn [set_nth].
  - destruct m; cbn; discriminate.
  - destruct n as [|n]; destruct m as [|m]; cbn [nth_error].
    + intros H. injection H as <-. left. split; reflexivity.
    + intros H. right. exact H.
    + intros H. right. exact H.
    + intros H. destruct (IH n m H) as [[-> ->]|E]; [left; split; reflexivity|right; exact E].
Qed.

Lemma zget_zset {A} (l : list A) i j x y :
  zget (zset l i x) j = Some y -> (j = i /\ y = x) \/ zget l j = Some y.
Proof.
  unfold zget, zset. destruct (j <? 0) eqn:J; [discriminate|].
  destruct (i <? 0) eqn:I; [intros H; right; exact H|].
  intros H. apply nth_error_set_nth in H. destruct H as [[E ->]|H]; [left|right; exact H].
  split; [|reflexivity]. apply Z.ltb_ge in J, I. lia.
Qed.

Lemma nth_error_set_nth_eq {A} (l : list A) n x y0 :
  nth_error l n = Some y0 -> nth_error (set_nth l n x) n = Some x.
Proof.
  revert n. induction l as [|a l IH]; intros n; destruct n; cbn [nth_error set_nth]; try discriminate.
  - reflexivity.
  - apply IH.
Qed.

Lemma nth_error_set_nth_neq {A} (l : list A) n m x :
  m <> n -> nth_error (set_nth l n x) m = nth_error l m.
Proof.
  revert n m. induction l as [|a l IH]; intros n m Hne; cbn [set_nth]; [reflexivity|].
  destruct n, m; cbn [nth_error]; try reflexivity; [contradiction|]. apply IH. congruence.
Qed.

Lemma zget_zset_eq {A} (l : list A) i x y0 : zget l i = Some y0 -> zget (zset l i x) i = Some x.
Proof.
  unfold zget, zset. destruct (i <? 0); [discriminate|]. apply nth_error_set_nth_eq.
Qed.

Lemma zget_zset_neq {A} (l : list A) i j x : j <> i -> zget (zset l i x) j = zget l j.
Proof.
  unfold zget, zset. intros Hne. destruct (j <? 0) eqn:J; [reflexivity|].
  destruct (i <? 0) eqn:I; [reflexivity|]. apply nth_error_set_nth_neq.
  apply Z.ltb_ge in J, I. lia.
Qed.

Lemma in_tl {A} (l : list A) x : In x (tl l) -> In x l.
Proof. destruct l; cbn; [tauto|intros H; right; exact H]. Qed.

(* ---- SessionCache operations -------------------------------------------------------- *)
Lemma times_sorted_app st e :
  times_sorted st -> (forall e', In e' st -> ce_time e' <= ce_time e) -> times_sorted (st ++ [e]).
Proof.
  induction st as [|a r IH]; cbn [app times_sorted]; intros Hs Hle.
  - split; [intros e' []|exact I].
  - destruct Hs as [Ha Hr]. split.
    + intros e' Hin. apply in_app_or in Hin. destruct Hin as [Hin|[<-|[]]]; [apply Ha; exact Hin|].
      apply Hle. left. reflexivity.
    + apply IH; [exact Hr|]. intros e' Hin. apply Hle. right. exact Hin.
Qed.

Lemma times_sorted_tl st : times_sorted st -> times_sorted (tl st).
Proof. destruct st; cbn [tl times_sorted]; tauto. Qed.

Lemma cache_put_in cfg now s st e :
  In e (cache_put cfg now s st) -> In e st \/ e = {| ce_sess := s; ce_res := true; ce_time := now |}.
Proof.
  unfold cache_put. set (n := {| ce_sess := s; ce_res := true; ce_time := now |}).
  intros H. assert (In e (st ++ [n])) as H'.
  { destruct (sv_cap cfg <=? zlen (st ++ [n])); [apply in_tl; exact H|exact H]. }
  apply in_app_or in H'. destruct H' as [H'|[<-|[]]]; [left; exact H'|right; reflexivity].
Qed.

Lemma cache_put_sorted cfg now s st :
  times_sorted st -> (forall e, In e st -> ce_time e <= now) -> times_sorted (cache_put cfg now s st).
Proof.
  intros Hs Hle. unfold cache_put.
  assert (times_sorted (st ++ [{| ce_sess := s; ce_res := true; ce_time := now |}])) as H.
  { apply times_sorted_app; [exact Hs|]. intros e' Hin. cbn [ce_time]. apply Hle. exact Hin. }
  destruct (sv_cap cfg <=? _); [apply times_sorted_tl; exact H|exact H].
Qed.

Lemma in_cache_invalidate sid st e' :
  In e' (cache_invalidate sid st) ->
  exists e, In e st /\ ce_sess e' = ce_sess e /\ ce_time e' = ce_time e /\
            (e' = e \/ (s_sid (ce_sess e) = sid /\ ce_res e' = false)).
Proof.
  induction st as [|a r IH]; cbn [cache_invalidate In]; [intros []|].
  intros [H|H].
  - exists a. split; [left; reflexivity|]. destruct (s_sid (ce_sess a) =? sid) eqn:E; subst e'; cbn.
    + apply Z.eqb_eq in E. repeat split; try reflexivity. right. split; [exact E|reflexivity].
    + repeat split; try reflexivity. left. reflexivity.
  - destruct (IH H) as [e [A B]]. exists e. split; [right; exact A|exact B].
Qed.

Lemma cache_invalidate_kills sid st e' :
  In e' (cache_invalidate sid st) -> s_sid (ce_sess e') = sid -> ce_res e' = false.
Proof.
  induction st as [|a r IH]; cbn [cache_invalidate In]; [intros []|].
  intros [H|H] Hs; [|apply IH; assumption].
  destruct (s_sid (ce_sess a) =? sid) eqn:E; subst e'; cbn in *; [reflexivity|].
  apply Z.eqb_neq in E. contradiction.
Qed.

Lemma cache_invalidate_sorted sid st : times_sorted st -> times_sorted (cache_invalidate sid st).
Proof.
  induction st as [|a r IH]; cbn [cache_invalidate times_sorted]; [tauto|].
  intros [Ha Hr]. split; [|apply IH; exact Hr].
  intros e' Hin. apply in_cache_invalidate in Hin. destruct Hin as [e [A [_ [T _]]]].
  rewrite T. destruct (s_sid (ce_sess a) =? sid); cbn [ce_time]; apply Ha; exact A.
Qed.

Section Hist.
Variable blob : Type.
Variable seal : Z -> Z -> payload -> blob.
Variable open : Z -> blob -> option payload.
Variable tamper : blob -> Z -> blob.
Variable junk : Z -> blob.

(* H-ideal-AEAD, symbolic reading *)
Hypothesis open_seal : forall k n p, open k (seal k n p) = Some p.
Hypothesis open_other_key : forall k k' n p, k <> k' -> open k' (seal k n p) = None.
Hypothesis open_tamper : forall k b i, open k (tamper b i) = None.
Hypothesis open_junk : forall k n, open k (junk n) = None.

Notation world' := (world blob).
Notation step' := (step blob seal open tamper junk).
Notation run' := (run blob seal open tamper junk).
Notation conn_step' := (conn_step blob seal open).
Notation conn_delta' := (conn_delta blob seal open).

Definition is_done (o : outcome) : Prop := exists a b, o = ODone a b.

(* the payload of a ticket repeats the security parameters of the connection that issued it *)
Definition pay_view (p : payload) (v : sess) : Prop :=
  p_ms p = s_ms v /\ p_ver p = s_ver v /\ p_suite p = s_suite v /\ p_hash p = s_hash v /\
  p_ccert p = s_ccert v /\ p_etm p = s_etm v /\ p_ems p = s_ems v /\ p_sni p = s_sni v /\
  p_origin p = s_origin v /\ p_srp p = s_srp v.

(* closed world of ticket bytes: issued by a server, altered, or made without a key *)
Definition blob_ok (issued : list (Z * Z * payload)) (b : blob) : Prop :=
  (exists srv k n p, b = seal k n p /\ In (srv, k, p) issued) \/
  (exists b' i, b = tamper b' i) \/ (exists n, b = junk n).

Lemma blob_ok_mono issued x b : blob_ok issued b -> blob_ok (issued ++ x) b.
Proof.
  intros [[srv [k [n [p [E I]]]]]|H]; [|right; exact H].
  left. exists srv, k, n, p. split; [exact E|apply in_or_app; left; exact I].
Qed.

Lemma blob_ok_open issued b k p :
  blob_ok issued b -> open k b = Some p -> exists srv, In (srv, k, p) issued.
Proof.
  intros [[srv [k0 [n [p0 [-> I]]]]]|[[b' [i ->]]|[n ->]]] O.
  - destruct (Z.eq_dec k0 k) as [->|Hne].
    + rewrite open_seal in O. injection O as <-. exists srv. exact I.
    + rewrite (open_other_key _ _ _ _ Hne) in O. discriminate.
  - rewrite open_tamper in O. discriminate.
  - rewrite open_junk in O. discriminate.
Qed.

Definition entries (w : world') (e : centry) : Prop :=
  exists sv, In sv (w_servers w) /\ In e (sv_store sv).

Record Inv (w : world') : Prop := {
  inv_pos : 0 < w_fresh w;
  inv_fresh_c : forall c, In c (w_clients w) -> s_sid (c_sess c) < w_fresh w;
  inv_fresh_s : forall e, entries w e -> s_sid (ce_sess e) < w_fresh w;
  inv_fresh_conn : forall cr sid, In cr (w_conns w) -> cr_sobj cr = Some sid -> sid < w_fresh w;
  inv_sorted : forall sv, In sv (w_servers w) ->
               times_sorted (sv_store sv) /\ forall e, In e (sv_store sv) -> ce_time e <= w_now w;
  inv_cache_origin : forall e, entries w e ->
               exists r, In r (w_log w) /\ r_out r = ODone false false /\ r_sview r = Some (ce_sess e);
  inv_issued : forall srv k p, In (srv, k, p) (w_issued w) ->
               exists r v, In r (w_log w) /\ is_done (r_out r) /\ r_sview r = Some v /\ pay_view p v;
  inv_blobs : forall c t, In c (w_clients w) -> In t (c_t10 c ++ c_t13 c) -> blob_ok (w_issued w) (tk_blob t);
  inv_ks : forall cr sid sv e, In cr (w_conns w) -> cr_ks cr = true -> cr_sobj cr = Some sid ->
               zget (w_servers w) (cr_srv cr) = Some sv -> In e (sv_store sv) ->
               s_sid (ce_sess e) = sid -> ce_res e = false
}.

(* ---- what client_offer does to the offered object ------------------------------------ *)
Definition pruned (c c0 : cobj blob) : Prop :=
  c_sess c = c_sess c0 /\ c_res c = c_res c0 /\ c_rms c = c_rms c0 /\
  incl (c_t10 c) (c_t10 c0) /\ incl (c_t13 c) (c_t13 c0).

Lemma pruned_refl c : pruned c c.
Proof. repeat split; try reflexivity; apply incl_refl. Qed.

Lemma incl_filter {A} f (l : list A) : incl (filter f l) l.
Proof. intros x H. apply filter_In in H. tauto. Qed.

Lemma client_offer_used cp c0 now fresh h used c :
  client_offer blob cp c0 now fresh = Offer blob h used -> used = Some c ->
  exists c00, c0 = Some c00 /\ pruned c c00 /\ c_valid blob c00 = true.
Proof.
  unfold client_offer. destruct c0 as [c00|]; [|intros H; injection H as _ <-; discriminate].
  destruct (c_valid blob c00) eqn:V; [|intros H; injection H as _ <-; discriminate].
  set (c2 := if nonempty (c_t10 c00) then set_t10 blob c00 (filter (tk10_valid blob now) (c_t10 c00)) else c00).
  assert (pruned c2 c00) as P2.
  { unfold c2. destruct (nonempty (c_t10 c00)); [|apply pruned_refl].
    repeat split; try reflexivity; [apply incl_filter|apply incl_refl]. }
  replace (if nonempty (c_t10 c00) then Some (set_t10 blob c00 (filter (tk10_valid blob now) (c_t10 c00))) else Some c00)
    with (Some c2) by (unfold c2; destruct (nonempty (c_t10 c00)); reflexivity).
  destruct (nz (s_sid (c_sess c2)) && negb (zmem (s_suite (c_sess c2)) (cp_suites cp))); [discriminate|].
  intros H. injection H as _ <-. intros H. injection H as <-.
  exists c00. split; [reflexivity|]. split; [|exact V].
  destruct (nonempty (c_t13 c2) && (4 <=? cp_maxv cp)); [|exact P2].
  destruct P2 as [A [B [C [D E]]]]. repeat split; try assumption.
  cbn [c_t13 set_t13]. intros x Hx. apply E. apply incl_filter in Hx. exact Hx.
Qed.

Lemma client_offer_err cp c0 now fresh c' c :
  client_offer blob cp c0 now fresh = OfferErr blob c' -> c' = Some c ->
  exists c00, c0 = Some c00 /\ pruned c c00.
Proof.
  unfold client_offer. destruct c0 as [c00|]; [|discriminate].
  destruct (c_valid blob c00) eqn:V; [|discriminate].
  set (c2 := if nonempty (c_t10 c00) then set_t10 blob c00 (filter (tk10_valid blob now) (c_t10 c00)) else c00).
  assert (pruned c2 c00) as P2.
  { unfold c2. destruct (nonempty (c_t10 c00)); [|apply pruned_refl].
    repeat split; try reflexivity; [apply incl_filter|apply incl_refl]. }
  replace (if nonempty (c_t10 c00) then Some (set_t10 blob c00 (filter (tk10_valid blob now) (c_t10 c00))) else Some c00)
    with (Some c2) by (unfold c2; destruct (nonempty (c_t10 c00)); reflexivity).
  destruct (nz (s_sid (c_sess c2)) && negb (zmem (s_suite (c_sess c2)) (cp_suites cp))); [|discriminate].
  intros H. injection H as <-. intros H. injection H as <-. exists c00. split; [reflexivity|exact P2].
Qed.

(* the ticket path never touches the cache; the cache path only purges *)
Lemma try_resume_store cfg st acc (h : hello blob) now :
  fst (server_try_resume blob open cfg st acc h now) = st \/
  fst (server_try_resume blob open cfg st acc h now) = purge (sv_maxage cfg) now st.
Proof.
  unfold server_try_resume, cache_get. repeat break_inner; cbn [fst]; auto.
Qed.

Lemma try_resume_store_in cfg st acc (h : hello blob) now e :
  In e (fst (server_try_resume blob open cfg st acc h now)) -> In e st.
Proof.
  destruct (try_resume_store cfg st acc h now) as [->| ->]; [tauto|apply purge_incl].
Qed.

Lemma try_resume_store_sorted cfg st acc (h : hello blob) now :
  times_sorted st -> times_sorted (fst (server_try_resume blob open cfg st acc h now)).
Proof.
  destruct (try_resume_store cfg st acc h now) as [->| ->]; [tauto|apply purge_sorted].
Qed.

(* ---- what one connection attempt changes (conn_delta), field by field ------------------ *)
Ltac delta_cases := unfold conn_delta; cbv zeta; repeat break_inner;
                    cbn [d_store d_used d_newc d_conn d_log d_issue d_bump].

Lemma delta_bump w cp sv : 2 <= d_bump blob (conn_delta' w cp sv).
Proof. delta_cases; lia. Qed.

Lemma delta_store w cp sv st e :
  d_store blob (conn_delta' w cp sv) = Some st -> In e st ->
  In e (sv_store sv) \/
  (exists v, e = {| ce_sess := v; ce_res := true; ce_time := w_now w |} /\
             r_sview (d_log blob (conn_delta' w cp sv)) = Some v /\
             r_out (d_log blob (conn_delta' w cp sv)) = ODone false false /\
             s_sid v = w_fresh w + 1).
Proof.
  delta_cases; intros H; try discriminate; injection H as <-; intros Hin;
    match goal with
    | H : server_try_resume _ _ _ _ _ _ _ = (?st1, _) |- _ =>
        assert (forall x, In x st1 -> In x (sv_store sv)) as Hst
          by (intros x Hx; eapply try_resume_store_in; rewrite H; exact Hx)
    end;
    try (left; apply Hst; exact Hin).
  all: apply cache_put_in in Hin; destruct Hin as [Hin| ->]; [left; apply Hst; exact Hin|];
    right; eexists; (split; [reflexivity|]); cbn; repeat split; reflexivity.
Qed.

Lemma delta_store_sorted w cp sv st :
  d_store blob (conn_delta' w cp sv) = Some st ->
  times_sorted (sv_store sv) -> (forall e, In e (sv_store sv) -> ce_time e <= w_now w) ->
  times_sorted st.
Proof.
  intros H Hs Hle. revert H.
  delta_cases; intros H; try discriminate; injection H as <-;
    match goal with
    | H : server_try_resume _ _ _ _ _ _ _ = (?st1, _) |- _ =>
        assert (times_sorted st1 /\ forall x, In x st1 -> ce_time x <= w_now w) as [Hs1 Hle1]
          by (split; [replace st1 with (fst (server_try_resume blob open (sv_cfg sv) (sv_store sv) (o_acc cp) h (w_now w)))
                        by (rewrite H; reflexivity); apply try_resume_store_sorted; exact Hs
                     |intros x Hx; apply Hle; eapply try_resume_store_in; rewrite H; exact Hx])
    end;
    try exact Hs1.
  all: apply cache_put_sorted; assumption.
Qed.

Lemma delta_used w cp sv c :
  d_used blob (conn_delta' w cp sv) = Some c ->
  exists i c0, cp_offer cp = Some i /\ zget (w_clients w) i = Some c0 /\ pruned c c0.
Proof.
  unfold conn_delta. cbv zeta.
  destruct (client_offer blob cp
              match cp_offer cp with Some i => zget (w_clients w) i | None => None end
              (w_now w) (w_fresh w)) as [c'|h used] eqn:CO.
  - cbn [d_used]. intros ->. destruct (client_offer_err _ _ _ _ _ _ CO eq_refl) as [c00 [E P]].
    destruct (cp_offer cp) as [i|]; [|discriminate]. exists i, c00. repeat split; try assumption; apply P.
  - assert (used = Some c -> exists i c0, cp_offer cp = Some i /\ zget (w_clients w) i = Some c0 /\ pruned c c0) as K.
    { intros ->. destruct (client_offer_used _ _ _ _ _ _ _ CO eq_refl) as [c00 [E [P _]]].
      destruct (cp_offer cp) as [i|]; [|discriminate]. exists i, c00. repeat split; try assumption; apply P. }
    repeat break_inner; cbn [d_used]; exact K.
Qed.

Lemma mk_tickets_in n key nonce p life now t :
  In t (mk_tickets blob seal n key nonce p life now) -> exists n', tk_blob t = seal key n' p.
Proof.
  revert nonce. induction n as [|n IH]; intros nonce; cbn [mk_tickets In]; [intros []|].
  intros [<-|H]; [exists nonce; reflexivity|apply (IH _ H)].
Qed.

Lemma delta_newc w cp sv c :
  d_newc blob (conn_delta' w cp sv) = Some c ->
  (s_sid (c_sess c) = 0 \/ s_sid (c_sess c) = w_fresh w + 1) /\
  forall t, In t (c_t10 c ++ c_t13 c) ->
            exists k n p, tk_blob t = seal k n p /\ d_issue blob (conn_delta' w cp sv) = Some (k, p).
Proof.
  delta_cases; intros H; try discriminate; injection H as <-; cbn [c_sess s_sid c_t10 c_t13 app];
    (split; [auto|]); intros t Hin; try rewrite app_nil_r in Hin; cbn [In app mk_tickets Z.to_nat Pos.to_nat Pos.iter_op Nat.add] in Hin;
    repeat match goal with H : _ \/ _ |- _ => destruct H end; try contradiction;
    try (subst t; cbn [tk_blob]; do 3 eexists; split; reflexivity);
    try (apply mk_tickets_in in Hin; destruct Hin as [n' E]; eexists; exists n'; eexists; split; [exact E|reflexivity]).
Qed.

Lemma delta_issue w cp sv k p :
  d_issue blob (conn_delta' w cp sv) = Some (k, p) ->
  is_done (r_out (d_log blob (conn_delta' w cp sv))) /\
  exists v, r_sview (d_log blob (conn_delta' w cp sv)) = Some v /\ pay_view p v.
Proof.
  delta_cases; intros H; try discriminate; injection H as <- <-; cbn [r_out r_sview];
    (split; [eexists; eexists; reflexivity|]); eexists; (split; [reflexivity|]);
    unfold pay_view; cbn; repeat split; reflexivity.
Qed.

Lemma delta_conn w cp sv :
  times_sorted (sv_store sv) ->
  cr_ks (d_conn blob (conn_delta' w cp sv)) = false /\
  cr_kc (d_conn blob (conn_delta' w cp sv)) = false /\
  forall sid, cr_sobj (d_conn blob (conn_delta' w cp sv)) = Some sid ->
              sid = w_fresh w + 1 \/ exists e, In e (sv_store sv) /\ s_sid (ce_sess e) = sid.
Proof.
  intros Hs.
  delta_cases; cbn [cr_ks cr_kc cr_sobj]; (split; [reflexivity|]); (split; [reflexivity|]);
    intros sid H; try discriminate; injection H as <-; auto.
  all: right;
    match goal with
    | H : server_try_resume _ _ _ _ _ _ _ = (_, SResume ?s ByCache) |- _ =>
        destruct (server_try_resume_sound _ _ _ _ _ _ _ _ _ _ Hs H) as [_ [_ [_ [_ [_ [_ [e [A [B _]]]]]]]]]
    | H : server_try_resume _ _ _ _ _ _ _ = (_, SResume ?s (ByBoth _)) |- _ =>
        destruct (server_try_resume_sound _ _ _ _ _ _ _ _ _ _ Hs H) as [_ [_ [_ [_ [_ [_ [e [A [B _]]]]]]]]]
    end;
    exists e; split; [exact A|rewrite B; reflexivity].
Qed.

(* ---- the invariant is preserved by every event ------------------------------------------ *)
Lemma in_put_client cls i u c : In c (put_client blob cls i u) -> In c cls \/ u = Some c.
Proof.
  unfold put_client. destruct i as [i|]; [|auto]. destruct u as [u|]; [|auto].
  intros H. apply in_zset in H. destruct H as [->|H]; auto.
Qed.

Lemma servers_apply w cp sv d sv' :
  zget (w_servers w) (cp_srv cp) = Some sv ->
  In sv' (w_servers (apply_delta blob w cp d)) ->
  In sv' (w_servers w) \/ exists st, d_store blob d = Some st /\ sv' = set_store sv st.
Proof.
  intros Z. unfold apply_delta. cbn [w_servers mk_world]. rewrite Z.
  destruct (d_store blob d) as [st|]; [|auto].
  intros H. apply in_zset in H. destruct H as [->|H]; [right; exists st; auto|auto].
Qed.

Lemma clients_apply w cp d c :
  In c (w_clients (apply_delta blob w cp d)) ->
  In c (w_clients w) \/ d_used blob d = Some c \/ d_newc blob d = Some c.
Proof.
  unfold apply_delta. cbn [w_clients mk_world].
  destruct (d_newc blob d) as [nc|].
  - intros H. apply in_app_or in H. destruct H as [H|[<-|[]]]; [|auto].
    apply in_put_client in H. tauto.
  - intros H. apply in_put_client in H. tauto.
Qed.

Lemma issued_apply w cp d x :
  In x (w_issued (apply_delta blob w cp d)) ->
  In x (w_issued w) \/ exists k p, d_issue blob d = Some (k, p) /\ x = (cp_srv cp, k, p).
Proof.
  unfold apply_delta. cbn [w_issued mk_world]. destruct (d_issue blob d) as [[k p]|]; [|auto].
  intros H. apply in_app_or in H. destruct H as [H|[<-|[]]]; [auto|]. right. exists k, p. auto.
Qed.

Lemma issued_apply_mono w cp d b :
  blob_ok (w_issued w) b -> blob_ok (w_issued (apply_delta blob w cp d)) b.
Proof.
  unfold apply_delta. cbn [w_issued mk_world]. destruct (d_issue blob d) as [[k p]|]; [|auto].
  apply blob_ok_mono.
Qed.

Lemma fresh_apply w cp d : w_fresh (apply_delta blob w cp d) = w_fresh w + d_bump blob d.
Proof. reflexivity. Qed.
Lemma now_apply w cp d : w_now (apply_delta blob w cp d) = w_now w.
Proof. reflexivity. Qed.
Lemma log_apply w cp d : w_log (apply_delta blob w cp d) = w_log w ++ [d_log blob d].
Proof. reflexivity. Qed.
Lemma conns_apply w cp d : w_conns (apply_delta blob w cp d) = w_conns w ++ [d_conn blob d].
Proof. reflexivity. Qed.

Lemma init_inv cfgs : Inv (init_world blob cfgs).
Proof.
  unfold init_world. constructor; cbn [w_fresh w_clients w_servers w_conns w_log w_issued w_now mk_world].
  - lia.
  - intros c [].
  - intros e [sv [Hin He]]. apply in_map_iff in Hin. destruct Hin as [c [<- _]]. destruct He.
  - intros cr sid [].
  - intros sv Hin. apply in_map_iff in Hin. destruct Hin as [c [<- _]]. cbn. split; [exact I|intros e []].
  - intros e [sv [Hin He]]. apply in_map_iff in Hin. destruct Hin as [c [<- _]]. destruct He.
  - intros srv k p [].
  - intros c t [].
  - intros cr sid sv e [].
Qed.

Lemma conn_step_inv w cp : Inv w -> Inv (conn_step' w cp).
Proof.
  intros HI. unfold conn_step. destruct (zget (w_servers w) (cp_srv cp)) as [sv|] eqn:Z; [|exact HI].
  set (d := conn_delta' w cp sv).
  pose proof (zget_in _ _ _ Z) as Hsv.
  destruct (inv_sorted w HI sv Hsv) as [Hsorted Htimes].
  pose proof (delta_bump w cp sv) as Hb. fold d in Hb.
  assert (forall e, entries (apply_delta blob w cp d) e ->
            entries w e \/ (exists v, e = {| ce_sess := v; ce_res := true; ce_time := w_now w |} /\
                                      r_sview (d_log blob d) = Some v /\ r_out (d_log blob d) = ODone false false /\
                                      s_sid v = w_fresh w + 1)) as Hent.
  { intros e [sv' [Hin He]]. destruct (servers_apply _ _ _ _ _ Z Hin) as [Hold|[st [Hst ->]]].
    - left. exists sv'. auto.
    - cbn [sv_store set_store] in He. destruct (delta_store _ _ _ _ _ Hst He) as [Ho|Hn]; [|right; exact Hn].
      left. exists sv. auto. }
  constructor.
  - rewrite fresh_apply. pose proof (inv_pos w HI). lia.
  - intros c Hc. rewrite fresh_apply.
    destruct (clients_apply _ _ _ _ Hc) as [H|[H|H]].
    + pose proof (inv_fresh_c w HI c H). lia.
    + destruct (delta_used _ _ _ _ H) as [i [c0 [_ [G [P _]]]]]. rewrite P.
      pose proof (inv_fresh_c w HI c0 (zget_in _ _ _ G)). lia.
    + destruct (delta_newc _ _ _ _ H) as [[E|E] _]; rewrite E; pose proof (inv_pos w HI); lia.
  - intros e He. rewrite fresh_apply.
    destruct (Hent e He) as [H|[v [-> [_ [_ E]]]]].
    + pose proof (inv_fresh_s w HI e H). lia.
    + cbn [ce_sess]. lia.
  - intros cr sid Hin Hs. rewrite fresh_apply. rewrite conns_apply in Hin.
    apply in_app_or in Hin. destruct Hin as [Hin|[<-|[]]].
    + pose proof (inv_fresh_conn w HI cr sid Hin Hs). lia.
    + destruct (delta_conn w cp sv Hsorted) as [_ [_ K]]. destruct (K sid Hs) as [->|[e [A B]]]; [lia|].
      assert (entries w e) as He by (exists sv; auto). pose proof (inv_fresh_s w HI e He). lia.
  - intros sv' Hin. rewrite now_apply.
    destruct (servers_apply _ _ _ _ _ Z Hin) as [Hold|[st [Hst ->]]]; [apply (inv_sorted w HI); exact Hold|].
    cbn [sv_store set_store]. split.
    + eapply delta_store_sorted; eassumption.
    + intros e He. destruct (delta_store _ _ _ _ _ Hst He) as [Ho|[v [-> _]]]; [apply Htimes; exact Ho|cbn; lia].
  - intros e He. rewrite log_apply.
    destruct (Hent e He) as [H|[v [-> [A [B _]]]]].
    + destruct (inv_cache_origin w HI e H) as [r [R1 R2]]. exists r. split; [apply in_or_app; left; exact R1|exact R2].
    + exists (d_log blob d). split; [apply in_or_app; right; left; reflexivity|]. split; [exact B|exact A].
  - intros srv k p Hin. rewrite log_apply.
    destruct (issued_apply _ _ _ _ Hin) as [H|[k' [p' [E X]]]].
    + destruct (inv_issued w HI srv k p H) as [r [v [R1 R2]]]. exists r, v. split; [apply in_or_app; left; exact R1|exact R2].
    + injection X as _ <- <-. destruct (delta_issue _ _ _ _ _ E) as [D [v [V P]]].
      exists (d_log blob d), v. split; [apply in_or_app; right; left; reflexivity|]. auto.
  - intros c t Hc Ht. destruct (clients_apply _ _ _ _ Hc) as [H|[H|H]].
    + apply issued_apply_mono. apply (inv_blobs w HI c t H Ht).
    + destruct (delta_used _ _ _ _ H) as [i [c0 [_ [G [_ [_ [_ [I10 I13]]]]]]]].
      apply issued_apply_mono. apply (inv_blobs w HI c0 t (zget_in _ _ _ G)).
      apply in_app_or in Ht. apply in_or_app. destruct Ht as [Ht|Ht]; [left; apply I10; exact Ht|right; apply I13; exact Ht].
    + destruct (delta_newc _ _ _ _ H) as [_ K]. destruct (K t Ht) as [k [n [p [E Is]]]].
      left. exists (cp_srv cp), k, n, p. split; [exact E|].
      unfold apply_delta. cbn [w_issued mk_world]. unfold d. rewrite Is. apply in_or_app. right. left. reflexivity.
  - intros cr sid sv' e Hin Hks Hs Zg He Hsid.
    rewrite conns_apply in Hin.
    apply in_app_or in Hin. destruct Hin as [Hin|[<-|[]]].
    2:{ destruct (delta_conn w cp sv Hsorted) as [K _]. fold d in K. rewrite K in Hks. discriminate. }
    unfold apply_delta in Zg. cbn [w_servers mk_world] in Zg. rewrite Z in Zg.
    destruct (d_store blob d) as [st|] eqn:Hst; [|apply (inv_ks w HI cr sid sv' e); assumption].
    apply zget_zset in Zg. destruct Zg as [[Es ->]|Zg]; [|apply (inv_ks w HI cr sid sv' e); assumption].
    cbn [sv_store set_store] in He. destruct (delta_store _ _ _ _ _ Hst He) as [Ho|[v [-> [_ [_ E]]]]].
    + apply (inv_ks w HI cr sid sv e); try assumption. rewrite Es. exact Z.
    + cbn [ce_sess] in Hsid. pose proof (inv_fresh_conn w HI cr sid Hin Hs). lia.
Qed.

Lemma entries_invalidate (svs : list server) i sv sid e' :
  zget svs i = Some sv ->
  (exists sv', In sv' (zset svs i (set_store sv (cache_invalidate sid (sv_store sv)))) /\ In e' (sv_store sv')) ->
  exists e, (exists sv0, In sv0 svs /\ In e (sv_store sv0)) /\ ce_sess e' = ce_sess e /\ ce_time e' = ce_time e.
Proof.
  intros Z [sv' [Hin He]]. apply in_zset in Hin. destruct Hin as [->|Hin].
  - cbn [sv_store set_store] in He. apply in_cache_invalidate in He. destruct He as [e [A [B [C _]]]].
    exists e. split; [exists sv; split; [eapply zget_in; exact Z|exact A]|auto].
  - exists e'. split; [exists sv'; auto|auto].
Qed.

Lemma close_step_inv w c kind : Inv w -> Inv (close_step blob w c kind).
Proof.
  intros HI. unfold close_step. destruct (zget (w_conns w) c) as [cr|] eqn:Zc; [|exact HI].
  destruct (negb (cr_open cr)); [exact HI|].
  pose proof (zget_in _ _ _ Zc) as Hcr.
  set (inval_s := (kind =? 1) || (kind =? 2)). set (inval_c := (kind =? 1) || (kind =? 3)).
  set (svs := match cr_sobj cr, zget (w_servers w) (cr_srv cr) with
              | Some sid, Some sv => if inval_s then zset (w_servers w) (cr_srv cr)
                                         (set_store sv (cache_invalidate sid (sv_store sv))) else w_servers w
              | _, _ => w_servers w end).
  set (cls := match cr_cobj cr, inval_c with
              | Some i, true => match zget (w_clients w) i with
                                | Some co => zset (w_clients w) i (set_res blob co false)
                                | None => w_clients w end
              | _, _ => w_clients w end).
  assert (forall e', (exists sv', In sv' svs /\ In e' (sv_store sv')) ->
            exists e, entries w e /\ ce_sess e' = ce_sess e /\ ce_time e' = ce_time e) as Hent.
  { unfold svs. intros e' H. destruct (cr_sobj cr) as [sid|]; [|exists e'; auto].
    destruct (zget (w_servers w) (cr_srv cr)) as [sv|] eqn:Zs; [|exists e'; auto].
    destruct inval_s; [|exists e'; auto]. eapply entries_invalidate; eassumption. }
  assert (forall c', In c' cls -> exists c0, In c0 (w_clients w) /\ c_sess c' = c_sess c0 /\
            c_t10 c' = c_t10 c0 /\ c_t13 c' = c_t13 c0) as Hcl.
  { unfold cls. intros c' H. destruct (cr_cobj cr) as [i|]; [|exists c'; auto].
    destruct inval_c; [|exists c'; auto]. destruct (zget (w_clients w) i) as [co|] eqn:Zi; [|exists c'; auto].
    apply in_zset in H. destruct H as [->|H]; [|exists c'; auto].
    exists co. split; [eapply zget_in; exact Zi|auto]. }
  constructor; cbn [w_fresh w_clients w_servers w_conns w_log w_issued w_now mk_world].
  - apply (inv_pos w HI).
  - intros c' H. destruct (Hcl c' H) as [c0 [A [B _]]]. rewrite B. apply (inv_fresh_c w HI c0 A).
  - intros e' H. destruct (Hent e' H) as [e [A [B _]]]. rewrite B. apply (inv_fresh_s w HI e A).
  - intros cr' sid H Hs. apply in_zset in H. destruct H as [->|H].
    + cbn [cr_sobj] in Hs. apply (inv_fresh_conn w HI cr sid Hcr Hs).
    + apply (inv_fresh_conn w HI cr' sid H Hs).
  - intros sv' H. unfold svs in H.
    destruct (cr_sobj cr) as [sid|]; [|apply (inv_sorted w HI sv' H)].
    destruct (zget (w_servers w) (cr_srv cr)) as [sv|] eqn:Zs; [|apply (inv_sorted w HI sv' H)].
    destruct inval_s; [|apply (inv_sorted w HI sv' H)].
    apply in_zset in H. destruct H as [->|H]; [|apply (inv_sorted w HI sv' H)].
    destruct (inv_sorted w HI sv (zget_in _ _ _ Zs)) as [S T]. cbn [sv_store set_store]. split.
    + apply cache_invalidate_sorted. exact S.
    + intros e' He. apply in_cache_invalidate in He. destruct He as [e [A [_ [Tm _]]]]. rewrite Tm. apply T. exact A.
  - intros e' H. destruct (Hent e' H) as [e [A [B _]]]. rewrite B. apply (inv_cache_origin w HI e A).
  - apply (inv_issued w HI).
  - intros c' t H Ht. destruct (Hcl c' H) as [c0 [A [_ [B C]]]]. rewrite B, C in Ht. apply (inv_blobs w HI c0 t A Ht).
  - intros cr' sid sv' e Hin Hks Hs Zg He Hsid.
    assert (cr_srv cr' = cr_srv cr /\ cr_sobj cr' = cr_sobj cr /\ (cr_ks cr' = inval_s) \/ In cr' (w_conns w)) as Hcases.
    { apply in_zset in Hin. destruct Hin as [->|Hin]; [left; cbn; auto|right; exact Hin]. }
    unfold svs in Zg.
    destruct (cr_sobj cr) as [sid0|] eqn:So.
    2:{ destruct Hcases as [[_ [E _]]|Hold]; [rewrite E in Hs; discriminate|apply (inv_ks w HI cr' sid sv' e); assumption]. }
    destruct (zget (w_servers w) (cr_srv cr)) as [sv|] eqn:Zs.
    2:{ destruct Hcases as [[E1 _]|Hold]; [rewrite E1, Zs in Zg; discriminate|apply (inv_ks w HI cr' sid sv' e); assumption]. }
    destruct inval_s eqn:IS.
    2:{ destruct Hcases as [[_ [_ E]]|Hold]; [rewrite E in Hks; discriminate|apply (inv_ks w HI cr' sid sv' e); assumption]. }
    destruct (Z.eq_dec (cr_srv cr') (cr_srv cr)) as [E|N].
    + rewrite E in Zg. rewrite (zget_zset_eq _ _ _ _ Zs) in Zg. injection Zg as <-.
      cbn [sv_store set_store] in He. destruct Hcases as [[_ [E2 _]]|Hold].
      * rewrite E2 in Hs. injection Hs as <-. eapply cache_invalidate_kills; eassumption.
      * apply in_cache_invalidate in He. destruct He as [e0 [A [B [_ [->|[_ K]]]]]]; [|exact K].
        apply (inv_ks w HI cr' sid sv e0); try assumption. rewrite E. exact Zs.
    + rewrite (zget_zset_neq _ _ _ _ N) in Zg.
      destruct Hcases as [[E1 _]|Hold]; [contradiction|apply (inv_ks w HI cr' sid sv' e); assumption].
Qed.

Lemma on_client_inv w ci f :
  (forall c, s_sid (c_sess (f c)) = s_sid (c_sess c)) ->
  (forall c t, In t (c_t10 (f c) ++ c_t13 (f c)) ->
     (exists t0, In t0 (c_t10 c ++ c_t13 c) /\ tk_blob t = tk_blob t0) \/
     (exists b i, tk_blob t = tamper b i) \/ (exists n, tk_blob t = junk n)) ->
  Inv w -> Inv (on_client blob w ci f).
Proof.
  intros Hsid Hblob HI. unfold on_client. destruct (zget (w_clients w) ci) as [c0|] eqn:Z; [|exact HI].
  pose proof (zget_in _ _ _ Z) as Hc0.
  constructor; cbn [with_clients w_fresh w_clients w_servers w_conns w_log w_issued w_now mk_world];
    try apply HI.
  - intros c H. apply in_zset in H. destruct H as [->|H]; [rewrite Hsid|]; apply (inv_fresh_c w HI); assumption.
  - intros c t H Ht. apply in_zset in H. destruct H as [->|H]; [|apply (inv_blobs w HI c t H Ht)].
    destruct (Hblob c0 t Ht) as [[t0 [A B]]|[K|K]].
    + rewrite B. apply (inv_blobs w HI c0 t0 Hc0 A).
    + right. left. exact K.
    + right. right. exact K.
Qed.

Lemma in_map_first {A} (f : A -> A) l x : In x (map_first f l) -> (exists x0, In x0 l /\ x = f x0) \/ In x l.
Proof.
  destruct l as [|a r]; cbn [map_first In]; [tauto|].
  intros [<-|H]; [left; exists a; auto|right; right; exact H].
Qed.

Lemma step_inv w e : Inv w -> Inv (step' w e).
Proof.
  intros HI. destruct e as [cp|c k|dt|i cfg|ci which bit|ci which n|ci|ci|ci x|ci]; cbn [step].
  - apply conn_step_inv. exact HI.
  - apply close_step_inv. exact HI.
  - constructor; cbn [w_fresh w_clients w_servers w_conns w_log w_issued w_now mk_world]; try apply HI.
    intros sv H. destruct (inv_sorted w HI sv H) as [S T]. split; [exact S|].
    intros e He. specialize (T e He). lia.
  - destruct (zget (w_servers w) i) as [sv|] eqn:Z; [|exact HI].
    assert (forall sv', In sv' (zset (w_servers w) i {| sv_cfg := cfg; sv_store := sv_store sv |}) ->
              exists sv0, In sv0 (w_servers w) /\ sv_store sv' = sv_store sv0) as Hs.
    { intros sv' H. apply in_zset in H. destruct H as [->|H]; [exists sv; split; [eapply zget_in; exact Z|reflexivity]|exists sv'; auto]. }
    assert (forall e, (exists sv', In sv' (zset (w_servers w) i {| sv_cfg := cfg; sv_store := sv_store sv |}) /\ In e (sv_store sv')) -> entries w e) as He.
    { intros e [sv' [A B]]. destruct (Hs sv' A) as [sv0 [C D]]. exists sv0. rewrite <- D. auto. }
    constructor; cbn [w_fresh w_clients w_servers w_conns w_log w_issued w_now mk_world]; try apply HI.
    + intros e H. apply (inv_fresh_s w HI e (He e H)).
    + intros sv' H. destruct (Hs sv' H) as [sv0 [C D]]. rewrite D. apply (inv_sorted w HI sv0 C).
    + intros e H. apply (inv_cache_origin w HI e (He e H)).
    + intros cr sid sv' e Hin Hks Hso Zg Hin2 Hsid.
      destruct (Z.eq_dec (cr_srv cr) i) as [E|N].
      * rewrite E in Zg. rewrite (zget_zset_eq _ _ _ _ Z) in Zg. injection Zg as <-. cbn [sv_store] in Hin2.
        apply (inv_ks w HI cr sid sv e); try assumption. rewrite E. exact Z.
      * rewrite (zget_zset_neq _ _ _ _ N) in Zg. apply (inv_ks w HI cr sid sv' e); assumption.
  - apply on_client_inv; [| |exact HI].
    + intros c. destruct (which =? 0); reflexivity.
    + intros c t Ht.
      assert (forall l, In t (map_first (tk_map blob (fun b => tamper b bit)) l) ->
                (exists b i, tk_blob t = tamper b i) \/ In t l) as K.
      { intros l H. apply in_map_first in H. destruct H as [[t0 [A ->]]|H]; [left|right; exact H].
        cbn [tk_blob tk_map]. eexists. eexists. reflexivity. }
      destruct (which =? 0); cbn [c_t10 c_t13 set_t10 set_t13] in Ht;
        apply in_app_or in Ht; destruct Ht as [Ht|Ht]; try apply K in Ht;
        try (destruct Ht as [Ht|Ht]; [right; left; exact Ht|]);
        left; exists t; (split; [apply in_or_app; auto|reflexivity]).
  - apply on_client_inv; [| |exact HI].
    + intros c. destruct (which =? 0); reflexivity.
    + intros c t Ht.
      assert (forall l, In t (map_first (tk_map blob (fun _ => junk n)) l) ->
                (exists m, tk_blob t = junk m) \/ In t l) as K.
      { intros l H. apply in_map_first in H. destruct H as [[t0 [A ->]]|H]; [left|right; exact H].
        cbn [tk_blob tk_map]. eexists. reflexivity. }
      destruct (which =? 0); cbn [c_t10 c_t13 set_t10 set_t13] in Ht;
        apply in_app_or in Ht; destruct Ht as [Ht|Ht]; try apply K in Ht;
        try (destruct Ht as [Ht|Ht]; [right; right; exact Ht|]);
        left; exists t; (split; [apply in_or_app; auto|reflexivity]).
  - apply on_client_inv; [| |exact HI].
    + intros c. reflexivity.
    + intros c t Ht. cbn [c_t10 c_t13 set_t10 set_t13] in Ht. left.
      apply in_app_or in Ht. destruct Ht as [Ht|Ht]; apply in_map_iff in Ht; destruct Ht as [t0 [<- A]];
        exists t0; (split; [apply in_or_app; auto|reflexivity]).
  - apply on_client_inv; [| |exact HI].
    + intros c. reflexivity.
    + intros c t Ht. left. exists t. split; [exact Ht|reflexivity].
  - apply on_client_inv; [| |exact HI].
    + intros c. reflexivity.
    + intros c t Ht. left. exists t. split; [exact Ht|reflexivity].
  - apply on_client_inv; [| |exact HI].
    + intros c. reflexivity.
    + intros c t Ht. left. exists t. split; [exact Ht|reflexivity].
Qed.

Lemma run_inv h w : Inv w -> Inv (run' h w).
Proof.
  revert w. induction h as [|e h IH]; intros w HI; cbn [run fold_left]; [exact HI|].
  apply IH. apply step_inv. exact HI.
Qed.

(* every world reachable from an initial one by any history *)
Definition reachable (w : world') : Prop :=
  exists cfgs h, w = run' h (init_world blob cfgs).

Lemma reachable_inv w : reachable w -> Inv w.
Proof. intros [cfgs [h ->]]. apply run_inv. apply init_inv. Qed.

End Hist.
