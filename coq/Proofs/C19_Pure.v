(* C19 -- validate() seen on contents only (no heap), and the refinement lemma: the by-reference
   model computes it on every well-formed object (since /repo 851aa29 validate() writes only to cells it
   allocated itself; before, the lemma needed "no other attribute shares the cipherImplementations list"). *)
From Coq Require Import ZArith List Bool String Lia.
From TV Require Import Base.Prelude Model.C19_Settings Spec.C19_Domain Proofs.C19_Frame.
Import ListNotations.
Open Scope Z_scope.

Definition not_3des (v : val) : bool := negb (py_eq v (VStr "3des")).

Definition cchecks_A (T : tables) (v : list (list val)) (c : scalars) : res unit :=
  _ <- guard (isnil (nth F_certificateTypes v [])) ;;
  _ <- sanityCheckKeySizes v c ;;
  _ <- sanityCheckPrimitivesNames T v c ;;
  sanityCheckProtocolVersions_raises T c.

Definition cstep_versions (v : list (list val)) (c : scalars) : res (list (list val)) :=
  match filter_range (clip_lo (minVersion c)) (maxVersion c) (nth F_versions v []) with
  | Ok l => Ok (lupd v F_versions l)
  | Err e => Err e
  end.

Definition cstep_mac (v0 v1 : list (list val)) (c : scalars) : list (list val) :=
  if ver_lt (maxVersion c) (3, 3) then lupd v1 F_macNames (filter keep_old_mac (nth F_macNames v0 [])) else v1.

Definition cstep_impl (I : install) (v : list (list val)) : list (list val) :=
  lupd v F_cipherImplementations (filter (impl_available I) (nth F_cipherImplementations v [])).

Definition cstep_ciphers (I : install) (v : list (list val)) : list (list val) :=
  if negb (i_tdes I) then lupd v F_cipherNames (filter not_3des (nth F_cipherNames v [])) else v.

Definition cchecks_C (T : tables) (v : list (list val)) (c : scalars) : res unit :=
  _ <- sanityCheckPsks T v ;; sanityCheckTicketSettings T v c.

Definition cvalidate (T : tables) (I : install) (v : list (list val)) (c : scalars) : res (list (list val)) :=
  match cchecks_A T v c with Err e => Err e | Ok _ =>
  match cstep_versions v c with Err e => Err e | Ok v1 =>
  match sanityCheckExtensions T v1 c with Err e => Err e | Ok _ =>
  let v2 := cstep_mac v v1 c in
  match cchecks_C T v2 c with Err e => Err e | Ok _ =>
  let v4 := cstep_impl I v2 in
  if isnil (nth F_cipherImplementations v4 []) then Err ValueError else
  let v5 := cstep_ciphers I v4 in
  if isnil (nth F_cipherNames v5 []) then Err ValueError else Ok v5
  end end end end.

(* ---- lists / G versus heap operations -------------------------------------------------------- *)
Lemma wf_length h o : wf h o = true -> List.length (locs o) = NF.
Proof. unfold wf. intros H. apply andb_true_iff in H. destruct H as [H _]. apply Nat.eqb_eq in H. exact H. Qed.

Lemma G_lists h o f : (f < List.length (locs o))%nat -> G h o f = nth f (lists h o) [].
Proof.
  intros H. unfold G, L, lists.
  rewrite (nth_indep (map (hget h) (locs o)) [] (hget h O)) by (rewrite map_length; exact H).
  rewrite map_nth. reflexivity.
Qed.

Lemma lists_length h o : List.length (lists h o) = List.length (locs o).
Proof. unfold lists. apply map_length. Qed.

Lemma forallb_lupd {A} (P : A -> bool) l k x : forallb P l = true -> P x = true -> forallb P (lupd l k x) = true.
Proof.
  revert k. induction l as [|y t IH]; intros [|k] H Hx; cbn [lupd forallb] in *; auto;
    apply andb_true_iff in H; destruct H as [H1 H2]; apply andb_true_iff; split; auto.
Qed.

Lemma lupd_lupd {A} (l : list A) k x y : lupd (lupd l k x) k y = lupd l k y.
Proof. revert k. induction l as [|a t IH]; intros [|k]; cbn [lupd]; auto. f_equal. apply IH. Qed.

Lemma map_hget_hset h q x (l : list loc) k :
  nth k l O = q -> (k < List.length l)%nat -> (q < List.length h)%nat ->
  (forall j, (j < List.length l)%nat -> j <> k -> nth j l O <> q) ->
  map (hget (hset h q x)) l = lupd (map (hget h) l) k x.
Proof.
  revert k. induction l as [|a t IH]; intros [|k] Hk Hlen Hq U; cbn [List.length nth map lupd] in *; try lia.
  - subst a. rewrite hget_hset_eq by exact Hq. f_equal.
    apply map_ext_in. intros b Hb. apply hget_hset_neq.
    destruct (In_nth t b O Hb) as [j [Hj Ej]]. specialize (U (Datatypes.S j) ltac:(lia) ltac:(lia)). cbn in U. congruence.
  - rewrite hget_hset_neq.
    + f_equal. apply IH; auto; [lia|]. intros j Hj Hjk. apply (U (Datatypes.S j)); lia.
    + specialize (U O ltac:(lia) ltac:(lia)). cbn in U. exact U.
Qed.

(* The pattern of every write in validate(): rebind attribute f to a NEW cell (location = old heap size)
   whose final content is y; all other cells of the new heap h' are those of h. *)
Lemma rebind_lists h h' o f y :
  wf h o = true -> (f < NF)%nat ->
  List.length h' = Datatypes.S (List.length h) -> frame_all h h' -> hget h' (List.length h) = y ->
  wf h' (set_loc o f (List.length h)) = true /\
  lists h' (set_loc o f (List.length h)) = lupd (lists h o) f y.
Proof.
  intros W Hf Len [_ Fr] Hy. pose proof (wf_length h o W) as LenO.
  pose proof W as W0. unfold wf in W. apply andb_true_iff in W. destruct W as [W1 W2].
  split.
  - unfold wf, set_loc. cbn [locs]. rewrite lupd_length. apply andb_true_iff. split; [exact W1|].
    apply forallb_lupd; [|apply Nat.ltb_lt; lia].
    rewrite forallb_forall in *. intros l Hl. apply W2 in Hl. apply Nat.ltb_lt in Hl. apply Nat.ltb_lt. lia.
  - unfold lists, set_loc. cbn [locs]. rewrite map_lupd, Hy. f_equal.
    apply map_ext_in. intros l Hl. apply Fr. rewrite forallb_forall in W2. apply W2 in Hl. apply Nat.ltb_lt in Hl. exact Hl.
Qed.

Lemma L_rebind_other o f p g : g <> f -> L (set_loc o f p) g = L o g.
Proof. apply L_set_loc_neq. Qed.

(* ---- refinement --------------------------------------------------------------------------------- *)
Lemma checks_A_pure T h o : wf h o = true -> checks_A T h o = cchecks_A T (lists h o) (sc o).
Proof.
  intros W. unfold checks_A, cchecks_A. rewrite G_lists; [reflexivity|].
  rewrite (wf_length h o W). unfold NF, F_certificateTypes. lia.
Qed.

Lemma nth_in_range {A} (l : list A) f d : True -> nth f l d = nth f l d.
Proof. reflexivity. Qed.

Lemma validate_refines T I h s :
  wf h s = true ->
  match validate T I h s with
  | (h', Ok s') => cvalidate T I (lists h s) (sc s) = Ok (lists h' s') /\ sc s' = sc s /\ wf h' s' = true
  | (h', Err e) => cvalidate T I (lists h s) (sc s) = Err e
  end.
Proof.
  intros W. pose proof (wf_length h s W) as Len.
  unfold validate, cvalidate. rewrite checks_A_pure by exact W.
  destruct (cchecks_A T (lists h s) (sc s)); [|reflexivity].
  (* versions *)
  assert (S1 : (exists h1 o1 v1, step_versions h s = Ok (h1, o1) /\ cstep_versions (lists h s) (sc s) = Ok v1 /\
                  lists h1 o1 = v1 /\ sc o1 = sc s /\ wf h1 o1 = true /\ frame_all h h1)
               \/ exists e, step_versions h s = Err e /\ cstep_versions (lists h s) (sc s) = Err e).
  { unfold step_versions, cstep_versions.
    rewrite G_lists by (rewrite Len; unfold NF, F_versions; lia).
    destruct (filter_range (clip_lo (minVersion (sc s))) (maxVersion (sc s)) (nth F_versions (lists h s) [])) as [l|e];
      [|right; exists e; auto].
    left. unfold halloc.
    destruct (rebind_lists h (h ++ [l]) s F_versions l W ltac:(unfold NF, F_versions; lia)
                ltac:(rewrite app_length; cbn; lia) (frame_alloc h l) (hget_app_new h l)) as [A B].
    exists (h ++ [l])%list, (set_loc s F_versions (List.length h)), (lupd (lists h s) F_versions l).
    repeat split; auto; apply (frame_alloc h l). }
  destruct S1 as [[h1 [o1 [v1 [E1 [E1' [V1 [C1 [W1 F1]]]]]]]]|[e [E1 E1']]]; rewrite E1, E1'; [|reflexivity].
  rewrite V1, C1.
  destruct (sanityCheckExtensions T v1 (sc s)); [|reflexivity].
  (* macNames: self.macNames is read in h1, which extends h *)
  assert (M : G h1 s F_macNames = nth F_macNames (lists h s) []).
  { rewrite <- G_lists by (rewrite Len; unfold NF, F_macNames; lia).
    unfold G. apply F1. apply wf_L; [exact W|unfold NF, F_macNames; lia]. }
  assert (S2 : exists h2 o2, step_macnames s h1 o1 = (h2, o2) /\ lists h2 o2 = cstep_mac (lists h s) v1 (sc s) /\
                             sc o2 = sc s /\ wf h2 o2 = true).
  { unfold step_macnames, cstep_mac. rewrite C1, M.
    destruct (ver_lt (maxVersion (sc s)) (3, 3)).
    - unfold halloc. set (x := filter keep_old_mac (nth F_macNames (lists h s) [])).
      destruct (rebind_lists h1 (h1 ++ [x]) o1 F_macNames x W1 ltac:(unfold NF, F_macNames; lia)
                  ltac:(rewrite app_length; cbn; lia) (frame_alloc h1 x) (hget_app_new h1 x)) as [A B].
      eexists _, _. split; [reflexivity|]. rewrite B, V1. auto.
    - exists h1, o1. auto. }
  destruct S2 as [h2 [o2 [E2 [V2 [C2 W2]]]]]. rewrite E2.
  unfold checks_C, cchecks_C. rewrite V2, C2.
  set (v2 := cstep_mac (lists h s) v1 (sc s)) in *.
  destruct (_ <- sanityCheckPsks T v2;; sanityCheckTicketSettings T v2 (sc s)); [|reflexivity].
  (* implementations: a filtered copy in a new cell *)
  pose proof (wf_length h2 o2 W2) as Len2.
  destruct (step_impl_spec I h2 o2) as [h4 [E4 [L4 [F4 Y4]]]]. rewrite E4.
  rewrite G_lists in Y4 by (rewrite Len2; unfold NF, F_cipherImplementations; lia). rewrite V2 in Y4.
  destruct (rebind_lists h2 h4 o2 F_cipherImplementations _ W2 ltac:(unfold NF, F_cipherImplementations; lia) L4 F4 Y4)
    as [W4 V4].
  set (o4 := set_loc o2 F_cipherImplementations (List.length h2)) in *.
  rewrite V2 in V4. fold (cstep_impl I v2) in V4.
  pose proof (wf_length h4 o4 W4) as Len4.
  rewrite G_lists by (rewrite Len4; unfold NF, F_cipherImplementations; lia). rewrite V4.
  destruct (isnil (nth F_cipherImplementations (cstep_impl I v2) [])); [reflexivity|].
  (* ciphers *)
  destruct (step_ciphers_spec I h4 o4) as [[E5 Td]|[h5 [E5 [Td [L5 [F5 Y5]]]]]]; rewrite E5;
    unfold cstep_ciphers; rewrite Td; cbn [negb].
  - rewrite G_lists by (rewrite Len4; unfold NF, F_cipherNames; lia). rewrite V4.
    destruct (isnil (nth F_cipherNames (cstep_impl I v2) [])); [reflexivity|].
    rewrite V4. auto.
  - rewrite G_lists in Y5 by (rewrite Len4; unfold NF, F_cipherNames; lia). rewrite V4 in Y5.
    destruct (rebind_lists h4 h5 o4 F_cipherNames _ W4 ltac:(unfold NF, F_cipherNames; lia) L5 F5 Y5) as [W5 V5].
    rewrite V4 in V5.
    rewrite G_lists by (rewrite (wf_length _ _ W5); unfold NF, F_cipherNames; lia). rewrite V5.
    change not_3des_v with not_3des.
    destruct (isnil (nth F_cipherNames (lupd (cstep_impl I v2) F_cipherNames (filter not_3des (nth F_cipherNames (cstep_impl I v2) []))) []));
      [reflexivity|].
    rewrite V5. split; [reflexivity|]. split; [exact C2|exact W5].
Qed.

(* the receiver, observed after the call, is what it was before *)
Lemma validate_view_unchanged T I h s h' r :
  wf h s = true -> validate T I h s = (h', r) -> view h' s = view h s.
Proof.
  intros W H. destruct (validate_frame T I h s h' r H) as [_ Fr].
  unfold view, lists. f_equal. apply map_ext_in. intros l Hl. apply Fr.
  unfold wf in W. apply andb_true_iff in W. destruct W as [_ W2]. rewrite forallb_forall in W2.
  apply W2 in Hl. apply Nat.ltb_lt in Hl. exact Hl.
Qed.
