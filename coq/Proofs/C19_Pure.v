(* C19 -- validate() seen on contents only (no heap), and the refinement lemma connecting the
   by-reference model with it when no other attribute shares the cipherImplementations list. *)
From Coq Require Import ZArith List Bool String Lia.
From TV Require Import Base.Prelude Model.C19_Settings Spec.C19_Domain Proofs.C19_Frame.
Import ListNotations.
Open Scope Z_scope.

Definition not_3des (v : val) : bool := negb (py_eq v (VStr "3des")).

Definition cchecks_A (T : tables) (v : list (list val)) (c : scalars) : res unit :=
  _ <- guard (isnil (nth F_certificateTypes v [])) ;;
  _ <- sanityCheckKeySizes v c ;;
  _ <- sanityCheckPrimitivesNames T v c ;;
  sanityCheckProtocolVersions_raises T c.

Definition cstep_versions (v : list (list val)) (c : scalars) : res (list (list val)) :=
  if ver_lt (maxVersion c) (3, 4)
  then match filter_lt34 (nth F_versions v []) with Ok l => Ok (lupd v F_versions l) | Err e => Err e end
  else Ok v.

Definition cstep_mac (v0 v1 : list (list val)) (c : scalars) : list (list val) :=
  if ver_lt (maxVersion c) (3, 3) then lupd v1 F_macNames (filter keep_old_mac (nth F_macNames v0 [])) else v1.

Definition cstep_impl (I : install) (v : list (list val)) : list (list val) :=
  lupd v F_cipherImplementations (filter (impl_available I) (nth F_cipherImplementations v [])).

Definition cstep_ciphers (I : install) (v : list (list val)) : list (list val) :=
  if negb (i_tdes I) then lupd v F_cipherNames (filter not_3des (nth F_cipherNames v [])) else v.

Definition cchecks_C (T : tables) (v : list (list val)) (c : scalars) : res unit :=
  _ <- sanityCheckPsks T v ;; sanityCheckTicketSettings T v c.

Definition cvalidate (T : tables) (I : install) (v : list (list val)) (c : scalars) : res (list (list val)) :=
  match cchecks_A T v c with Err e => Err e | Ok _ =>
  match cstep_versions v c with Err e => Err e | Ok v1 =>
  match sanityCheckExtensions T v1 c with Err e => Err e | Ok _ =>
  let v2 := cstep_mac v v1 c in
  match cchecks_C T v2 c with Err e => Err e | Ok _ =>
  let v4 := cstep_impl I v2 in
  if isnil (nth F_cipherImplementations v4 []) then Err ValueError else
  let v5 := cstep_ciphers I v4 in
  if isnil (nth F_cipherNames v5 []) then Err ValueError else Ok v5
  end end end end.

(* ---- the aliasing hypothesis ------------------------------------------------------------------- *)
Definition impl_unaliased (s : settings) : Prop :=
  forall f, (f < NF)%nat -> f <> F_cipherImplementations -> L s f <> L s F_cipherImplementations.

Definition Inv (h : heap) (o : settings) : Prop := wf h o = true /\ impl_unaliased o.

(* ---- lists / G versus heap operations -------------------------------------------------------- *)
Lemma wf_length h o : wf h o = true -> List.length (locs o) = NF.
Proof. unfold wf. intros H. apply andb_true_iff in H. destruct H as [H _]. apply Nat.eqb_eq in H. exact H. Qed.

Lemma G_lists h o f : (f < List.length (locs o))%nat -> G h o f = nth f (lists h o) [].
Proof.
  intros H. unfold G, L, lists.
  rewrite (nth_indep (map (hget h) (locs o)) [] (hget h O)) by (rewrite map_length; exact H).
  rewrite map_nth. reflexivity.
Qed.

Lemma lists_length h o : List.length (lists h o) = List.length (locs o).
Proof. unfold lists. apply map_length. Qed.

Lemma lists_app h x o : wf h o = true -> lists (h ++ x) o = lists h o.
Proof.
  intros W. unfold lists. apply map_ext_in. intros l Hl. apply hget_app_old.
  unfold wf in W. apply andb_true_iff in W. destruct W as [_ W]. rewrite forallb_forall in W.
  apply W in Hl. apply Nat.ltb_lt in Hl. exact Hl.
Qed.

Lemma forallb_lupd {A} (P : A -> bool) l k x : forallb P l = true -> P x = true -> forallb P (lupd l k x) = true.
Proof.
  revert k. induction l as [|y t IH]; intros [|k] H Hx; cbn [lupd forallb] in *; auto;
    apply andb_true_iff in H; destruct H as [H1 H2]; apply andb_true_iff; split; auto.
Qed.

Lemma wf_mono h x o : wf h o = true -> wf (h ++ x) o = true.
Proof.
  unfold wf. intros W. apply andb_true_iff in W. destruct W as [W1 W2]. apply andb_true_iff. split; [exact W1|].
  rewrite forallb_forall in *. intros l Hl. apply W2 in Hl. apply Nat.ltb_lt in Hl. apply Nat.ltb_lt.
  rewrite app_length. lia.
Qed.

Lemma inv_alloc h o f x :
  Inv h o -> (f < NF)%nat -> f <> F_cipherImplementations ->
  Inv (h ++ [x]) (set_loc o f (List.length h)) /\
  lists (h ++ [x]) (set_loc o f (List.length h)) = lupd (lists h o) f x /\
  L (set_loc o f (List.length h)) F_cipherImplementations = L o F_cipherImplementations.
Proof.
  intros [W U] Hf Hn.
  assert (HL : L (set_loc o f (List.length h)) F_cipherImplementations = L o F_cipherImplementations)
    by (apply L_set_loc_neq; auto).
  split; [split|split; [|exact HL]].
  - unfold wf, set_loc. cbn [locs]. rewrite lupd_length.
    pose proof (wf_mono h [x] o W) as W'. unfold wf in W'. apply andb_true_iff in W'. destruct W' as [W1 W2].
    apply andb_true_iff. split; [exact W1|]. apply forallb_lupd; [exact W2|].
    apply Nat.ltb_lt. rewrite app_length. cbn. lia.
  - intros g Hg Hgn. rewrite HL.
    destruct (Nat.eq_dec g f) as [->|Ng].
    + unfold L at 1, set_loc. cbn [locs]. rewrite nth_lupd_eq by (rewrite (wf_length h o W); exact Hf).
      pose proof (wf_L h o F_cipherImplementations W ltac:(unfold NF, F_cipherImplementations; lia)). lia.
    + rewrite L_set_loc_neq by exact Ng. apply U; assumption.
  - unfold lists, set_loc. cbn [locs]. rewrite map_lupd. rewrite hget_app_new.
    f_equal. apply (lists_app h [x] o W).
Qed.

Lemma map_hget_hset h q x (l : list loc) k :
  nth k l O = q -> (k < List.length l)%nat -> (q < List.length h)%nat ->
  (forall j, (j < List.length l)%nat -> j <> k -> nth j l O <> q) ->
  map (hget (hset h q x)) l = lupd (map (hget h) l) k x.
Proof.
  revert k. induction l as [|a t IH]; intros [|k] Hk Hlen Hq U; cbn [List.length nth map lupd] in *; try lia.
  - subst a. rewrite hget_hset_eq by exact Hq. f_equal.
    apply map_ext_in. intros b Hb. apply hget_hset_neq.
    destruct (In_nth t b O Hb) as [j [Hj Ej]]. specialize (U (Datatypes.S j) ltac:(lia) ltac:(lia)). cbn in U. congruence.
  - rewrite hget_hset_neq.
    + f_equal. apply IH; auto; [lia|]. intros j Hj Hjk. apply (U (Datatypes.S j)); lia.
    + specialize (U O ltac:(lia) ltac:(lia)). cbn in U. exact U.
Qed.

Lemma remove_all_matches_lists h o needle :
  Inv h o ->
  lists (remove_all_matches h (L o F_cipherImplementations) needle) o
  = lupd (lists h o) F_cipherImplementations
         (filter (fun v => negb (py_eq v (VStr needle))) (nth F_cipherImplementations (lists h o) [])).
Proof.
  intros [W U]. unfold remove_all_matches, lists.
  pose proof (wf_length h o W) as Len.
  rewrite (map_hget_hset h _ _ (locs o) F_cipherImplementations); auto.
  - f_equal. f_equal. fold (lists h o). rewrite <- G_lists by (rewrite Len; unfold NF, F_cipherImplementations; lia).
    reflexivity.
  - rewrite Len. unfold NF, F_cipherImplementations; lia.
  - apply wf_L; [exact W|unfold NF, F_cipherImplementations; lia].
  - intros j Hj Hn. apply U; [rewrite <- Len; exact Hj|exact Hn].
Qed.

Lemma inv_remove h o needle : Inv h o -> Inv (remove_all_matches h (L o F_cipherImplementations) needle) o.
Proof.
  intros [W U]. split; [|exact U]. unfold wf, remove_all_matches in *. rewrite hset_length. exact W.
Qed.

Lemma lupd_lupd {A} (l : list A) k x y : lupd (lupd l k x) k y = lupd l k y.
Proof. revert k. induction l as [|a t IH]; intros [|k]; cbn [lupd]; auto. f_equal. apply IH. Qed.

Lemma step_impl_lists I h o :
  Inv h o -> lists (step_impl I h o) o = cstep_impl I (lists h o) /\ Inv (step_impl I h o) o.
Proof.
  intros HI. unfold step_impl, cstep_impl, impl_available.
  assert (Len : (F_cipherImplementations < List.length (lists h o))%nat)
    by (rewrite lists_length, (wf_length h o (proj1 HI)); unfold NF, F_cipherImplementations; lia).
  destruct (i_m2crypto I); destruct (i_pycrypto I); cbn [negb].
  - split; [|exact HI].
    assert (E : filter (fun x : val => negb (py_eq x (VStr "openssl") && false) && negb (py_eq x (VStr "pycrypto") && false))
                  (nth F_cipherImplementations (lists h o) []) = nth F_cipherImplementations (lists h o) []).
    { etransitivity; [|apply filter_true]. apply filter_ext. intros a. cbn [negb]. rewrite !andb_false_r. reflexivity. }
    rewrite E. symmetry. apply lupd_same.
  - split; [|apply inv_remove; exact HI]. rewrite remove_all_matches_lists by exact HI. f_equal.
    apply filter_ext. intros a. rewrite andb_false_r, !andb_true_r. reflexivity.
  - split; [|apply inv_remove; exact HI]. rewrite remove_all_matches_lists by exact HI. f_equal.
    apply filter_ext. intros a. rewrite andb_false_r, !andb_true_r. cbn [negb andb].
    destruct (negb (py_eq a (VStr "openssl"))); reflexivity.
  - split; [|apply inv_remove, inv_remove; exact HI].
    rewrite remove_all_matches_lists by (apply inv_remove; exact HI).
    rewrite remove_all_matches_lists by exact HI.
    rewrite lupd_lupd. f_equal. rewrite nth_lupd_eq by exact Len. rewrite filter_filter.
    apply filter_ext. intros a. rewrite !andb_true_r. reflexivity.
Qed.

(* ---- refinement --------------------------------------------------------------------------------- *)
Lemma checks_A_pure T h o : wf h o = true -> checks_A T h o = cchecks_A T (lists h o) (sc o).
Proof.
  intros W. unfold checks_A, cchecks_A. rewrite G_lists; [reflexivity|].
  rewrite (wf_length h o W). unfold NF, F_certificateTypes. lia.
Qed.

Lemma validate_refines T I h s :
  Inv h s ->
  match validate T I h s with
  | (h', Ok s') => cvalidate T I (lists h s) (sc s) = Ok (lists h' s') /\ sc s' = sc s /\ Inv h' s'
  | (h', Err e) => cvalidate T I (lists h s) (sc s) = Err e
  end.
Proof.
  intros HI. pose proof HI as [W U]. pose proof (wf_length h s W) as Len.
  unfold validate, cvalidate. rewrite checks_A_pure by exact W.
  destruct (cchecks_A T (lists h s) (sc s)); [|reflexivity].
  (* versions *)
  unfold step_versions, cstep_versions.
  rewrite G_lists by (rewrite Len; unfold NF, F_versions; lia).
  assert (S1 : exists h1 o1 v1,
             (if ver_lt (maxVersion (sc s)) (3, 4)
              then match filter_lt34 (nth F_versions (lists h s) []) with
                   | Ok l => let '(h', p) := halloc h l in Ok (h', set_loc s F_versions p)
                   | Err e => Err e end
              else Ok (h, s)) = Ok (h1, o1) /\
             (if ver_lt (maxVersion (sc s)) (3, 4)
              then match filter_lt34 (nth F_versions (lists h s) []) with
                   | Ok l => Ok (lupd (lists h s) F_versions l) | Err e => Err e end
              else Ok (lists h s)) = Ok v1 /\
             lists h1 o1 = v1 /\ sc o1 = sc s /\ Inv h1 o1 /\
             L o1 F_cipherImplementations = L s F_cipherImplementations
             \/ exists e, (if ver_lt (maxVersion (sc s)) (3, 4)
              then match filter_lt34 (nth F_versions (lists h s) []) with
                   | Ok l => let '(h', p) := halloc h l in Ok (h', set_loc s F_versions p)
                   | Err e => Err e end
              else Ok (h, s)) = Err e /\
             (if ver_lt (maxVersion (sc s)) (3, 4)
              then match filter_lt34 (nth F_versions (lists h s) []) with
                   | Ok l => Ok (lupd (lists h s) F_versions l) | Err e => Err e end
              else Ok (lists h s)) = Err e).
  { destruct (ver_lt (maxVersion (sc s)) (3, 4)).
    - destruct (filter_lt34 (nth F_versions (lists h s) [])) as [l|e].
      + unfold halloc.
        destruct (inv_alloc h s F_versions l HI ltac:(unfold NF, F_versions; lia) ltac:(discriminate)) as [A [B C]].
        exists (h ++ [l])%list, (set_loc s F_versions (List.length h)), (lupd (lists h s) F_versions l).
        left. repeat split; auto. apply A. apply A.
      + exists h, s, (lists h s). right. exists e. auto.
    - exists h, s, (lists h s). left. repeat split; auto. }
  destruct S1 as [h1 [o1 [v1 [[E1 [E1' [V1 [C1 [I1 P1]]]]]|[e [E1 E1']]]]]]; rewrite E1, E1'; [|reflexivity].
  rewrite V1, C1.
  destruct (sanityCheckExtensions T v1 (sc s)); [|reflexivity].
  (* macNames *)
  unfold step_macnames, cstep_mac. rewrite C1.
  rewrite (G_lists h1 s) by (rewrite Len; unfold NF, F_macNames; lia).
  assert (S2 : exists h2 o2,
             (if ver_lt (maxVersion (sc s)) (3, 3)
              then let '(h', p) := halloc h1 (filter keep_old_mac (nth F_macNames (lists h1 s) [])) in
                   (h', set_loc o1 F_macNames p)
              else (h1, o1)) = (h2, o2) /\
             lists h2 o2 = (if ver_lt (maxVersion (sc s)) (3, 3)
                            then lupd v1 F_macNames (filter keep_old_mac (nth F_macNames (lists h1 s) []))
                            else v1) /\
             sc o2 = sc s /\ Inv h2 o2).
  { destruct (ver_lt (maxVersion (sc s)) (3, 3)).
    - unfold halloc.
      destruct (inv_alloc h1 o1 F_macNames (filter keep_old_mac (nth F_macNames (lists h1 s) [])) I1
                          ltac:(unfold NF, F_macNames; lia) ltac:(discriminate)) as [A [B C]].
      eexists _, _. split; [reflexivity|]. rewrite B, V1. repeat split; auto. apply A. apply A.
    - exists h1, o1. repeat split; auto. apply I1. apply I1. }
  destruct S2 as [h2 [o2 [E2 [V2 [C2 I2]]]]]. rewrite E2.
  (* self.macNames read in h1 = read in h: h1 extends h *)
  assert (M : nth F_macNames (lists h1 s) [] = nth F_macNames (lists h s) []).
  { destruct (ver_lt (maxVersion (sc s)) (3, 4)).
    - destruct (filter_lt34 (nth F_versions (lists h s) [])) as [l|e']; [|discriminate E1].
      unfold halloc in E1. injection E1 as <- _. rewrite lists_app by exact W. reflexivity.
    - injection E1 as <- _. reflexivity. }
  rewrite M in V2. unfold checks_C, cchecks_C. rewrite V2, C2.
  set (v2 := if ver_lt (maxVersion (sc s)) (3, 3)
             then lupd v1 F_macNames (filter keep_old_mac (nth F_macNames (lists h s) [])) else v1) in *.
  destruct (_ <- sanityCheckPsks T v2;; sanityCheckTicketSettings T v2 (sc s)); [|reflexivity].
  (* implementations *)
  destruct (step_impl_lists I h2 o2 I2) as [V4 I4]. rewrite V2 in V4.
  pose proof (wf_length _ _ (proj1 I4)) as Len4.
  assert (G4 : G (step_impl I h2 o2) o2 F_cipherImplementations = nth F_cipherImplementations (cstep_impl I v2) []).
  { rewrite G_lists; [rewrite V4; reflexivity|rewrite Len4; unfold NF, F_cipherImplementations; lia]. }
  assert (G4c : G (step_impl I h2 o2) o2 F_cipherNames = nth F_cipherNames (cstep_impl I v2) []).
  { rewrite G_lists; [rewrite V4; reflexivity|rewrite Len4; unfold NF, F_cipherNames; lia]. }
  rewrite G4.
  destruct (isnil (nth F_cipherImplementations (cstep_impl I v2) [])); [reflexivity|].
  (* ciphers *)
  unfold step_ciphers, cstep_ciphers.
  destruct (negb (i_tdes I)).
  - unfold halloc. rewrite G4c.
    set (cn := nth F_cipherNames (cstep_impl I v2) []).
    destruct (inv_alloc (step_impl I h2 o2) o2 F_cipherNames cn I4 ltac:(unfold NF, F_cipherNames; lia) ltac:(discriminate))
      as [A [B C]].
    set (h5a := (step_impl I h2 o2 ++ [cn])%list) in *.
    set (o5 := set_loc o2 F_cipherNames (List.length (step_impl I h2 o2))) in *.
    assert (V5 : lists (remove_all_matches h5a (List.length (step_impl I h2 o2)) "3des") o5
                 = lupd (cstep_impl I v2) F_cipherNames (filter not_3des cn)).
    { unfold remove_all_matches, lists.
      assert (Len5 : List.length (locs o5) = NF) by (apply (wf_length h5a), A).
      rewrite (map_hget_hset h5a _ _ (locs o5) F_cipherNames).
      - fold (lists h5a o5). rewrite B, V4. rewrite lupd_lupd. f_equal.
        unfold h5a. rewrite hget_app_new. reflexivity.
      - unfold o5, set_loc. cbn [locs]. apply nth_lupd_eq. rewrite Len4. unfold NF, F_cipherNames. lia.
      - rewrite Len5. unfold NF, F_cipherNames. lia.
      - unfold h5a. rewrite app_length. cbn. lia.
      - intros j Hj Hn. unfold o5, set_loc. cbn [locs]. rewrite nth_lupd_neq by exact Hn.
        rewrite Len5 in Hj.
        pose proof (wf_L _ _ j (proj1 I4) Hj) as Q. unfold L in Q. lia. }
    rewrite G_lists.
    2:{ unfold remove_all_matches. rewrite (wf_length h5a o5 (proj1 A)). unfold NF, F_cipherNames. lia. }
    rewrite V5.
    destruct (isnil (nth F_cipherNames (lupd (cstep_impl I v2) F_cipherNames (filter not_3des cn)) [])); [reflexivity|].
    split; [rewrite V5; reflexivity|]. split; [exact C2|].
    destruct A as [WA UA]. split; [|exact UA].
    unfold wf, remove_all_matches in *. rewrite hset_length. exact WA.
  - rewrite G4c.
    destruct (isnil (nth F_cipherNames (cstep_impl I v2) [])); [reflexivity|].
    split; [rewrite V4; reflexivity|]. split; [exact C2|exact I4].
Qed.

(* decidable form of the aliasing hypothesis *)
Definition unaliased_b (s : settings) : bool :=
  forallb (fun f => Nat.eqb f F_cipherImplementations || negb (Nat.eqb (L s f) (L s F_cipherImplementations))) (seq 0 NF).

Lemma unaliased_b_sound s : unaliased_b s = true -> impl_unaliased s.
Proof.
  unfold unaliased_b, impl_unaliased. intros H f Hf Hn. rewrite forallb_forall in H.
  specialize (H f ltac:(apply in_seq; lia)). apply orb_true_iff in H. destruct H as [H|H].
  - apply Nat.eqb_eq in H. contradiction.
  - apply negb_true_iff in H. apply Nat.eqb_neq in H. exact H.
Qed.
