(* C02: key epochs of KeyUpdate are pairwise distinct (ideal HKDF); nothing received before a
   read-key change is part of a message yielded after it. *)
From Coq Require Import ZArith List Bool Lia.
From TV Require Import Base.Prelude Model.C01_RecordPipe Proofs.C01_Close.
Import ListNotations.

Lemma keyupdate_epochs_distinct_l {S K} (next : S -> S) (derive : S -> K) (s0 : S) :
  (forall a b, next a = next b -> a = b) ->
  (forall a b, derive a = derive b -> a = b) ->
  (forall n, (0 < n)%nat -> generation next s0 n <> s0) ->
  forall i j, i <> j -> derive (generation next s0 i) <> derive (generation next s0 j).
Proof.
  intros Hn Hd Ha i j Hij E. apply Hd in E. exact (generation_inj next s0 Hn Ha i j Hij E).
Qed.

Lemma no_plaintext_survives_l (steps : list dstep) ep waiting out :
  fold_left defrag_step steps (Some (O, [], [])) = Some (ep, waiting, out) ->
  Forall (fun b => snd b = ep) waiting /\
  Forall (fun m => Forall (fun b => snd b = fst m) (snd m)) out.
Proof.
  intros H. pose proof (defrag_run_ok steps (Some (O, [], [])) (conj (Forall_nil _) (Forall_nil _))) as Hok.
  rewrite H in Hok. exact Hok.
Qed.

(* a key change with bytes waiting is refused (fatal alert), never carried over *)
Lemma key_change_needs_empty_l ep x waiting out :
  defrag_step (Some (ep, x :: waiting, out)) DKeyChange = None.
Proof. reflexivity. Qed.
