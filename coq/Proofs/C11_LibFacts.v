(* C11 -- facts about Base/C11_Lib.v and bit-selection idioms of the constant-time code *)
From Coq Require Import ZArith List Bool Lia.
From TV Require Import Base.Prelude Base.C11_Lib Gen.ConstantTime Proofs.CtOps.
Import ListNotations.
Open Scope Z_scope.

(* ---- lists ------------------------------------------------------------------ *)
Lemma zlen_app {A} (a b : list A) : zlen (a ++ b) = zlen a + zlen b.
Proof. unfold zlen. rewrite app_length. lia. Qed.

Lemma zlen_nonneg {A} (a : list A) : 0 <= zlen a.
Proof. unfold zlen. lia. Qed.

Lemma zlen_cons {A} (x : A) l : zlen (x :: l) = zlen l + 1.
Proof. unfold zlen. cbn [length]. lia. Qed.

Lemma all_bytes_app a b : all_bytes (a ++ b) = all_bytes a && all_bytes b.
Proof. unfold all_bytes. apply forallb_app. Qed.

Lemma all_bytes_forall l : all_bytes l = true <-> Forall (fun x => 0 <= x < 256) l.
Proof.
  unfold all_bytes. rewrite forallb_forall, Forall_forall. unfold is_byte.
  split; intros H x Hx; specialize (H x Hx); lia.
Qed.

Lemma all_bytes_firstn n l : all_bytes l = true -> all_bytes (firstn n l) = true.
Proof.
  rewrite !all_bytes_forall, !Forall_forall. intros H x Hx. apply H.
  rewrite <- (firstn_skipn n l). apply in_or_app. left. exact Hx.
Qed.

Lemma all_bytes_skipn n l : all_bytes l = true -> all_bytes (skipn n l) = true.
Proof.
  rewrite !all_bytes_forall, !Forall_forall. intros H x Hx. apply H.
  rewrite <- (firstn_skipn n l). apply in_or_app. right. exact Hx.
Qed.

(* ---- be_bytes / numberToByteArray ------------------------------------------- *)
Lemma be_bytes_length k n : length (be_bytes k n) = k.
Proof.
  revert n. induction k as [|k IH]; intros n; cbn [be_bytes]; [reflexivity|].
  rewrite app_length, IH. cbn [length]. lia.
Qed.

Lemma be_bytes_zlen k n : zlen (be_bytes k n) = Z.of_nat k.
Proof. unfold zlen. rewrite be_bytes_length. reflexivity. Qed.

Lemma be_bytes_all_bytes k n : all_bytes (be_bytes k n) = true.
Proof.
  revert n. induction k as [|k IH]; intros n; cbn [be_bytes]; [reflexivity|].
  rewrite all_bytes_app, IH. unfold all_bytes, is_byte. cbn [forallb andb].
  change 255 with (Z.ones 8). rewrite Z.land_ones by lia. change (2 ^ 8) with 256.
  pose proof (Z.mod_pos_bound n 256 ltac:(lia)).
  destruct (0 <=? n mod 256) eqn:E1, (n mod 256 <? 256) eqn:E2; try reflexivity; lia.
Qed.

Lemma numberToByteArray_ok n k : 0 <= n -> 0 <= k ->
  numberToByteArray n k = Ok (be_bytes (Z.to_nat k) n).
Proof.
  intros Hn Hk. unfold numberToByteArray.
  destruct (n <? 0) eqn:E1; [lia|]. destruct (k <? 0) eqn:E2; [lia|]. reflexivity.
Qed.

(* ---- {0,1}-valued words as booleans ------------------------------------------ *)
Lemma lt_b2z a b : u32 a -> u32 b -> ct_lt_u32 a b = Z.b2z (a <? b).
Proof. intros. rewrite ct_lt_u32_spec by assumption. destruct (a <? b); reflexivity. Qed.

Lemma isnonzero_b2z a : u32 a -> ct_isnonzero_u32 a = Z.b2z (negb (a =? 0)).
Proof. intros. rewrite ct_isnonzero_u32_spec by assumption. destruct (a =? 0); reflexivity. Qed.

Lemma neq_b2z a b : u32 a -> u32 b -> ct_neq_u32 a b = Z.b2z (negb (a =? b)).
Proof. intros. rewrite ct_neq_u32_spec by assumption. destruct (a =? b); reflexivity. Qed.

Lemma b2z_lxor1 b : Z.lxor 1 (Z.b2z b) = Z.b2z (negb b).
Proof. destruct b; reflexivity. Qed.
Lemma b2z_land a b : Z.land (Z.b2z a) (Z.b2z b) = Z.b2z (a && b).
Proof. destruct a, b; reflexivity. Qed.
Lemma b2z_lor a b : Z.lor (Z.b2z a) (Z.b2z b) = Z.b2z (a || b).
Proof. destruct a, b; reflexivity. Qed.

Lemma land_65535 x : 0 <= x < 65536 -> Z.land x 65535 = x.
Proof.
  intros H. change 65535 with (Z.ones 16). rewrite Z.land_ones by lia.
  apply Z.mod_small. change (2 ^ 16) with 65536. lia.
Qed.

Lemma land_255 x : 0 <= x < 256 -> Z.land x 255 = x.
Proof.
  intros H. change 255 with (Z.ones 8). rewrite Z.land_ones by lia.
  apply Z.mod_small. change (2 ^ 8) with 256. lia.
Qed.

(* x & (0xffff ^ mask) | y & mask   with mask = ct_lsb_prop_u16(c), c in {0,1} *)
Lemma sel16 c a b : 0 <= a < 65536 -> 0 <= b < 65536 ->
  Z.lor (Z.land a (Z.lxor 65535 (ct_lsb_prop_u16 (Z.b2z c)))) (Z.land b (ct_lsb_prop_u16 (Z.b2z c)))
  = if c then b else a.
Proof.
  intros Ha Hb. destruct c; unfold Z.b2z.
  - rewrite ct_lsb_prop_u16_1. change (Z.lxor 65535 65535) with 0.
    rewrite Z.land_0_r, Z.lor_0_l. apply land_65535. exact Hb.
  - rewrite ct_lsb_prop_u16_0. change (Z.lxor 65535 0) with 65535.
    rewrite Z.land_0_r, Z.lor_0_r. apply land_65535. exact Ha.
Qed.

(* x & (0xff ^ mask) | y & mask   with mask = ct_lsb_prop_u8(c) *)
Lemma sel8 c a b : 0 <= a < 256 -> 0 <= b < 256 ->
  Z.lor (Z.land a (Z.lxor 255 (ct_lsb_prop_u8 (Z.b2z c)))) (Z.land b (ct_lsb_prop_u8 (Z.b2z c)))
  = if c then b else a.
Proof.
  intros Ha Hb. destruct c; unfold Z.b2z.
  - rewrite ct_lsb_prop_u8_1. change (Z.lxor 255 255) with 0.
    rewrite Z.land_0_r, Z.lor_0_l. apply land_255. exact Hb.
  - rewrite ct_lsb_prop_u8_0. change (Z.lxor 255 0) with 255.
    rewrite Z.land_0_r, Z.lor_0_r. apply land_255. exact Ha.
Qed.

(* ---- folds ------------------------------------------------------------------- *)
Lemma fold_left_rel {A A' B} (R : A -> A' -> Prop) (Q : B -> Prop)
      (f : A -> B -> A) (g : A' -> B -> A') l :
  (forall a a' x, R a a' -> Q x -> R (f a x) (g a' x)) ->
  Forall Q l -> forall a a', R a a' -> R (fold_left f l a) (fold_left g l a').
Proof.
  intros Hstep HQ. induction HQ as [|x l Hx Hl IH]; intros a a' HR; cbn [fold_left]; [exact HR|].
  apply IH. apply Hstep; assumption.
Qed.

Lemma pairs_of_forall (P : Z -> Prop) l :
  Forall P l -> Forall (fun hl => P (fst hl) /\ P (snd hl)) (pairs_of l).
Proof.
  revert l. fix IH 1. intros [|a [|b t]] H; cbn [pairs_of]; try constructor.
  - inversion H as [|? ? Ha H1]; subst. inversion H1 as [|? ? Hb H2]; subst. cbn [fst snd]. split; assumption.
  - apply IH. inversion H as [|? ? Ha H1]; subst. inversion H1 as [|? ? Hb H2]; subst. exact H2.
Qed.

Lemma enumerate_from_forall (i : Z) (l : list Z) (P : Z -> Prop) :
  Forall P l ->
  Forall (fun pv => i <= fst pv < i + zlen l /\ P (snd pv)) (enumerate_from i l).
Proof.
  revert i. induction l as [|x t IH]; intros i H; cbn [enumerate_from]; [constructor|].
  inversion H as [|? ? Hx Ht]; subst. constructor.
  - cbn [fst snd]. rewrite zlen_cons. pose proof (zlen_nonneg t). split; [lia|exact Hx].
  - specialize (IH (i + 1) Ht). eapply Forall_impl; [|exact IH].
    intros [p v]. cbn [fst snd]. rewrite zlen_cons. intros [A B]. split; [lia|exact B].
Qed.

(* ---- zip / map ---------------------------------------------------------------- *)
Lemma map_combine_sel (c : bool) (f : Z * Z -> Z) (a b : list Z) :
  length a = length b ->
  (forall x y, In x a -> In y b -> f (x, y) = if c then y else x) ->
  map f (combine a b) = if c then b else a.
Proof.
  revert b. induction a as [|x a IH]; intros [|y b] Hlen Hf; cbn [length] in Hlen; try discriminate.
  - destruct c; reflexivity.
  - cbn [combine map]. rewrite (Hf x y) by (left; reflexivity).
    rewrite (IH b) by (try lia; intros; apply Hf; right; assumption).
    destruct c; reflexivity.
Qed.

(* ---- slices -------------------------------------------------------------------- *)
Lemma clamp_bound_in n r : 0 <= r <= n -> clamp_bound n r = r.
Proof.
  intros H. unfold clamp_bound.
  destruct (r <? 0) eqn:E1; [lia|]. cbv zeta. rewrite E1.
  destruct (n <? r) eqn:E2; [lia|]. reflexivity.
Qed.

Lemma clamp_bound_above n r : 0 <= n <= r -> clamp_bound n r = n.
Proof.
  intros H. unfold clamp_bound.
  destruct (r <? 0) eqn:E1; [lia|]. cbv zeta. rewrite E1.
  destruct (n <? r) eqn:E2; [reflexivity|lia].
Qed.

Lemma py_slice_from {A} (l : list A) r : 0 <= r <= zlen l ->
  py_slice l (Some r) None = skipn (Z.to_nat r) l.
Proof.
  intros H. unfold py_slice. rewrite clamp_bound_in by exact H.
  destruct (zlen l <=? r) eqn:E3.
  - assert (r = zlen l) by lia. subst r. unfold zlen. rewrite Nat2Z.id.
    symmetry. apply skipn_all.
  - apply firstn_all2. rewrite skipn_length. unfold zlen in *. lia.
Qed.

Lemma py_slice_to {A} (l : list A) r : 0 <= r ->
  py_slice l None (Some r) = firstn (Z.to_nat r) l.
Proof.
  intros H. unfold py_slice. pose proof (zlen_nonneg l) as Hl.
  destruct (Z_le_gt_dec r (zlen l)) as [Hle|Hgt].
  - rewrite clamp_bound_in by lia.
    destruct (r <=? 0) eqn:E3.
    + assert (r = 0) by lia. subst r. reflexivity.
    + rewrite Z.sub_0_r. reflexivity.
  - rewrite clamp_bound_above by lia.
    destruct (zlen l <=? 0) eqn:E3.
    + assert (length l = 0%nat) by (unfold zlen in *; lia).
      destruct l; [|discriminate]. destruct (Z.to_nat r); reflexivity.
    + cbn [skipn Z.to_nat]. rewrite Z.sub_0_r. unfold zlen. rewrite Nat2Z.id.
      rewrite firstn_all. symmetry. apply firstn_all2. unfold zlen in *. lia.
Qed.

(* ---- while loops ---------------------------------------------------------------- *)
(* A loop whose guard is decided by a natural-number measure that strictly decreases *)
Lemma while_fuel_measure {S} (Inv : S -> Prop) (mu : S -> nat)
      (cond : S -> res bool) (body : S -> res S) :
  (forall s, Inv s -> exists c, cond s = Ok c /\
     (c = true -> exists s', body s = Ok s' /\ Inv s' /\ (mu s' < mu s)%nat)) ->
  forall fuel s, Inv s -> (mu s < fuel)%nat ->
  exists s', while_fuel fuel cond body s = Ok s' /\ Inv s' /\ cond s' = Ok false.
Proof.
  intros Hstep. induction fuel as [|f IH]; intros s HI Hmu; [lia|].
  cbn [while_fuel]. destruct (Hstep s HI) as [c [Hc Hb]]. rewrite Hc. cbn [bind].
  destruct c.
  - destruct (Hb eq_refl) as [s' [Hs' [HI' Hlt]]]. rewrite Hs'. cbn [bind].
    apply IH; [exact HI'|lia].
  - exists s. repeat split; assumption.
Qed.
