(* readAsync when the peer closes: nothing that was buffered is lost. *)
From Coq Require Import ZArith List Bool Lia.
From TV Require Import Base.Prelude Model.C01_RecordPipe Proofs.C01_Lists.
Import ListNotations.
Open Scope Z_scope.

Lemma data_of_app a b : data_of (a ++ b) = data_of a ++ data_of b.
Proof.
  induction a as [|[p|] a IH]; cbn [app data_of]; [reflexivity| |exact IH]. rewrite IH, app_assoc. reflexivity.
Qed.

Lemma fill_buffer_c_spec fuel : forall mn t buf cl arr b1 cl1 rest,
  fill_buffer_c fuel mn t buf cl arr = (b1, cl1, rest) ->
  exists used, arr = used ++ rest /\ b1 = buf ++ data_of used /\ (cl = true -> cl1 = true /\ used = []).
Proof.
  induction fuel as [|f IH]; intros mn t buf cl arr b1 cl1 rest H; cbn [fill_buffer_c] in H.
  - injection H as <- <- <-. exists []. cbn [data_of app]. rewrite app_nil_r. auto.
  - destruct (((zlen buf <? mn) || ((zlen buf =? 0) && t)) && negb cl) eqn:E.
    + apply andb_true_iff in E. destruct E as [_ Ecl]. apply negb_true_iff in Ecl. subst cl.
      destruct arr as [|[a|] arr'].
      * injection H as <- <- <-. exists []. cbn [data_of app]. rewrite app_nil_r. split; [auto|]. split; [auto|discriminate].
      * apply IH in H. destruct H as [used [-> [-> _]]]. exists (AData a :: used). cbn [data_of app].
        rewrite <- app_assoc. split; [auto|]. split; [auto|discriminate].
      * injection H as <- <- <-. exists [AClose]. cbn [data_of app]. rewrite app_nil_r. split; [auto|]. split; [auto|discriminate].
    + injection H as <- <- <-. exists []. cbn [data_of app]. rewrite app_nil_r. auto.
Qed.

Lemma read_call_c_spec mx mn buf cl arr out b' cl' rest :
  read_call_c mx mn buf cl arr = (out, b', cl', rest) ->
  exists used, arr = used ++ rest /\ out ++ b' = buf ++ data_of used /\
               (cl = true -> cl' = true /\ used = []) /\
               (match mx with Some m => 0 <= m -> zlen out <= m | None => b' = [] end).
Proof.
  unfold read_call_c. destruct (fill_buffer_c (S (length arr)) mn true buf cl arr) as [[b1 cl1] rest1] eqn:E.
  intros H. injection H as <- <- <- <-.
  destruct (fill_buffer_c_spec _ _ _ _ _ _ _ _ _ E) as [used [Ha [Hb Hc]]].
  exists used. split; [exact Ha|]. split; [rewrite ztake_zdrop; exact Hb|]. split; [exact Hc|].
  destruct mx as [m|].
  - intros Hm. pose proof (zlen_ztake_le m b1). destruct (Z_le_gt_dec m (zlen b1)).
    + rewrite zlen_ztake; lia.
    + rewrite ztake_all by lia. lia.
  - apply zdrop_all. lia.
Qed.

(* any sequence of read(max,min) calls, over any arrivals with the peer's close anywhere among them:
   what was returned ++ what is still buffered = what was buffered ++ the data of everything consumed *)
Lemma read_calls_c_spec calls : forall buf cl arr outs b' cl' rest,
  read_calls_c calls buf cl arr = (outs, b', cl', rest) ->
  exists used, arr = used ++ rest /\ concat outs ++ b' = buf ++ data_of used.
Proof.
  induction calls as [|[mx mn] cs IH]; intros buf cl arr outs b' cl' rest H; cbn [read_calls_c] in H.
  - injection H as <- <- <- <-. exists []. cbn [data_of app concat]. rewrite app_nil_r. auto.
  - destruct (read_call_c mx mn buf cl arr) as [[[out b1] cl1] rest1] eqn:E1.
    destruct (read_calls_c cs b1 cl1 rest1) as [[[outs2 b2] cl2] rest2] eqn:E2.
    injection H as <- <- <- <-.
    destruct (read_call_c_spec _ _ _ _ _ _ _ _ _ E1) as [u1 [Ha1 [Hb1 _]]].
    destruct (IH _ _ _ _ _ _ _ E2) as [u2 [Ha2 Hb2]].
    exists (u1 ++ u2). split; [rewrite Ha1, Ha2, app_assoc; reflexivity|].
    cbn [concat]. rewrite <- app_assoc, Hb2, app_assoc, Hb1, data_of_app, <- app_assoc. reflexivity.
Qed.

(* after the close every call just hands out the buffer, up to max *)
Lemma drain_after_close_l m mn buf arr :
  read_call_c (Some m) mn buf true arr = (ztake m buf, zdrop m buf, true, arr).
Proof.
  unfold read_call_c. cbn [fill_buffer_c negb]. rewrite andb_false_r. reflexivity.
Qed.

(* ---- key generations and the defragmenter across key changes ------------------------------------------- *)
Lemma generation_inj {S} (next : S -> S) s0 : (forall a b, next a = next b -> a = b) ->
  (forall n, (0 < n)%nat -> generation next s0 n <> s0) ->
  forall i j, i <> j -> generation next s0 i <> generation next s0 j.
Proof.
  intros Hinj Hacyc.
  assert (H : forall i d, (0 < d)%nat -> generation next s0 (i + d) <> generation next s0 i).
  { induction i as [|i IH]; intros d Hd; cbn [plus generation].
    - apply Hacyc. exact Hd.
    - intros E. apply Hinj in E. exact (IH d Hd E). }
  intros i j Hne E. destruct (Nat.lt_trichotomy i j) as [L|[L|L]]; [|contradiction|].
  - apply (H i (j - i)%nat ltac:(lia)). replace (i + (j - i))%nat with j by lia. symmetry. exact E.
  - apply (H j (i - j)%nat ltac:(lia)). replace (j + (i - j))%nat with i by lia. exact E.
Qed.

Definition defrag_ok (st : option dstate) : Prop :=
  match st with
  | None => True
  | Some (ep, waiting, out) =>
      Forall (fun b => snd b = ep) waiting /\
      Forall (fun m => Forall (fun b => snd b = fst m) (snd m)) out
  end.

Lemma defrag_step_ok st e : defrag_ok st -> defrag_ok (defrag_step st e).
Proof.
  destruct st as [[[ep waiting] out]|]; [|intros _; exact I].
  intros [Hw Ho]. destruct e as [bs|n|]; cbn [defrag_step].
  - split; [|exact Ho]. apply Forall_app. split; [exact Hw|]. apply Forall_forall. intros x Hx.
    apply in_map_iff in Hx. destruct Hx as [b [<- _]]. reflexivity.
  - destruct (n <=? length waiting)%nat; [|split; assumption]. split.
    + apply Forall_forall. intros x Hx. rewrite Forall_forall in Hw. apply Hw.
      rewrite <- (firstn_skipn n waiting). apply in_or_app. right. exact Hx.
    + apply Forall_app. split; [exact Ho|]. constructor; [|constructor]. cbn [fst snd].
      apply Forall_forall. intros x Hx. rewrite Forall_forall in Hw. apply Hw.
      rewrite <- (firstn_skipn n waiting). apply in_or_app. left. exact Hx.
  - destruct waiting; [|exact I]. split; [constructor|exact Ho].
Qed.

Lemma defrag_run_ok steps : forall st, defrag_ok st -> defrag_ok (fold_left defrag_step steps st).
Proof.
  induction steps as [|e es IH]; intros st H; [exact H|]. cbn [fold_left]. apply IH. apply defrag_step_ok. exact H.
Qed.

(* ---- TLS <= 1.2: at every position of the stream the sender's limit in force is the receiver's -------------- *)
(* `protected`: the record is after the sender's ChangeCipherSpec, i.e. the sender has switched its write
   state and the receiver, processing that ChangeCipherSpec first, its read state *)
Lemma limits_agree_at_every_position_l (protected negotiated sender_is_client : bool) (own : Z) :
  64 <= own <= 16385 ->
  send_limit_at protected negotiated sender_is_client (ext_sent sender_is_client own) =
  recv_limit_at protected negotiated own /\
  (protected = false -> send_limit_at protected negotiated sender_is_client (ext_sent sender_is_client own) = 16384).
Proof.
  intros H. unfold send_limit_at, recv_limit_at, send_limit_after, recv_limit_after, ext_sent.
  destruct protected, negotiated, sender_is_client; cbn [andb]; split; try reflexivity; try (intros; discriminate); lia.
Qed.
