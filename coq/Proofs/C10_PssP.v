(* C10: EMSA-PSS as implemented by rsakey.py. *)
From Coq Require Import ZArith List Bool Lia String.
From TV Require Import Base.Prelude Gen.C10_Tables Model.C10_RsaMath Model.C10_RsaSig
     Proofs.C10_BytesP Proofs.C10_MathP.
Import ListNotations.
Open Scope Z_scope.

Section Pss.
  Variable hash : list Z -> list Z.
  Variable hLen : Z.

  (* everything EMSA_PSS_verify checks, as one conjunction *)
  Definition pss_checks (mHash EM : list Z) (emBits sLen : Z) : Prop :=
    let emLen := divceil emBits 8 in
    let maskedDB := py_slice EM (Some 0) (Some (emLen - hLen - 1)) in
    let H := py_slice EM (Some (emLen - hLen - 1)) (Some (emLen - hLen - 1 + hLen)) in
    let topmask := Z.land (Z.lnot (Z.shiftl 1 (8 - (8 * emLen - emBits)) - 1)) 255 in
    let mask := Z.shiftl 1 (8 - (emLen * 8 - emBits)) - 1 in
    hLen + sLen + 2 <= emLen /\                                  (* room for hash, salt, 01, bc *)
    py_index EM (-1) = Ok 188 /\                                 (* trailer 0xbc *)
    exists m0 dbMask DB,
      py_index maskedDB 0 = Ok m0 /\ Z.land m0 topmask = 0 /\    (* top bits of EM are zero *)
      MGF1 hash hLen H (emLen - hLen - 1) = Ok dbMask /\
      and_first (xor_bytes maskedDB dbMask) mask = Ok DB /\
      (forall x, In x (py_slice DB (Some 0) (Some (emLen - hLen - sLen - 2))) -> x = 0) /\  (* PS = 00..00 *)
      py_index DB (emLen - hLen - sLen - 2) = Ok 1 /\            (* separator 0x01 *)
      H = hash (zeros 8 ++ mHash ++                              (* H = Hash(00^8 || mHash || salt) *)
                (if negb (sLen =? 0) then py_slice DB (Some (- sLen)) None else [])).

  Lemma existsb_nonzero_false l :
    existsb (fun x => negb (x =? 0)) l = false <-> (forall x, In x l -> x = 0).
  Proof.
    split.
    - intros H x Hx. destruct (x =? 0) eqn:E; [apply Z.eqb_eq; exact E|].
      exfalso. assert (existsb (fun x => negb (x =? 0)) l = true).
      { apply existsb_exists. exists x. split; [exact Hx|]. rewrite E. reflexivity. }
      congruence.
    - intros H. destruct (existsb (fun x => negb (x =? 0)) l) eqn:E; [|reflexivity].
      apply existsb_exists in E. destruct E as [x [Hx Hn]]. rewrite (H x Hx) in Hn. discriminate.
  Qed.

  Theorem pss_verify_iff mHash EM emBits sLen :
    EMSA_PSS_verify hash hLen mHash EM emBits sLen = Ok true <-> pss_checks mHash EM emBits sLen.
  Proof.
    unfold EMSA_PSS_verify, pss_checks.
    set (emLen := divceil emBits 8).
    set (maskedDB := py_slice EM (Some 0) (Some (emLen - hLen - 1))).
    set (H := py_slice EM (Some (emLen - hLen - 1)) (Some (emLen - hLen - 1 + hLen))).
    set (topmask := Z.land (Z.lnot (Z.shiftl 1 (8 - (8 * emLen - emBits)) - 1)) 255).
    set (mask := Z.shiftl 1 (8 - (emLen * 8 - emBits)) - 1).
    destruct (emLen <? hLen + sLen + 2) eqn:E0.
    { apply Z.ltb_lt in E0. split; [discriminate|]. intros [A _]. lia. }
    apply Z.ltb_ge in E0.
    destruct (py_index EM (-1)) as [last|x] eqn:E1; cbn [bind].
    2:{ split; [discriminate|]. intros [_ [A _]]. discriminate. }
    destruct (last =? 188) eqn:E2; cbn [negb].
    2:{ apply Z.eqb_neq in E2. split; [discriminate|]. intros [_ [A _]]. injection A as A. contradiction. }
    apply Z.eqb_eq in E2. subst last.
    destruct (py_index maskedDB 0) as [m0|x] eqn:E3; cbn [bind].
    2:{ split; [discriminate|]. intros [_ [_ [m0 [dbMask [DB [A _]]]]]]. discriminate. }
    destruct (Z.land m0 topmask =? 0) eqn:E4; cbn [negb].
    2:{ apply Z.eqb_neq in E4. split; [discriminate|]. intros [_ [_ [m0' [dbMask [DB [A [B _]]]]]]].
        injection A as <-. contradiction. }
    apply Z.eqb_eq in E4.
    destruct (MGF1 hash hLen H (emLen - hLen - 1)) as [dbMask|x] eqn:E5; cbn [bind].
    2:{ split; [discriminate|]. intros [_ [_ [m0' [dbMask [DB [_ [_ [A _]]]]]]]]. discriminate. }
    destruct (and_first (xor_bytes maskedDB dbMask) mask) as [DB|x] eqn:E6; cbn [bind].
    2:{ split; [discriminate|]. intros [_ [_ [m0' [dbMask' [DB [_ [_ [A [B _]]]]]]]]].
        injection A as <-. rewrite E6 in B. discriminate. }
    destruct (existsb (fun x => negb (x =? 0)) (py_slice DB (Some 0) (Some (emLen - hLen - sLen - 2)))) eqn:E7.
    { split; [discriminate|]. intros [_ [_ [m0' [dbMask' [DB' [_ [_ [A [B [C _]]]]]]]]]].
      injection A as <-. rewrite E6 in B. injection B as <-.
      apply (proj2 (existsb_nonzero_false _)) in C. congruence. }
    pose proof (proj1 (existsb_nonzero_false _) E7) as E7p.
    destruct (py_index DB (emLen - hLen - sLen - 2)) as [sep|x] eqn:E8; cbn [bind].
    2:{ split; [discriminate|]. intros [_ [_ [m0' [dbMask' [DB' [_ [_ [A [B [_ [C _]]]]]]]]]]].
        injection A as <-. rewrite E6 in B. injection B as <-. rewrite E8 in C. discriminate. }
    destruct (sep =? 1) eqn:E9; cbn [negb].
    2:{ apply Z.eqb_neq in E9. split; [discriminate|].
        intros [_ [_ [m0' [dbMask' [DB' [_ [_ [A [B [_ [C _]]]]]]]]]]].
        injection A as <-. rewrite E6 in B. injection B as <-. rewrite E8 in C. injection C as C. contradiction. }
    apply Z.eqb_eq in E9. subst sep.
    set (salt := if negb (sLen =? 0) then py_slice DB (Some (- sLen)) None else []).
    destruct (list_eqb H (hash (zeros 8 ++ mHash ++ salt))) eqn:E10.
    - apply list_eqb_spec in E10. split; [|reflexivity]. intros _.
      split; [lia|]. split; [reflexivity|]. exists m0, dbMask, DB. repeat split; auto; try lia.
    - split; [discriminate|].
      intros [_ [_ [m0' [dbMask' [DB' [_ [_ [A [B [_ [_ C]]]]]]]]]]].
      injection A as <-. rewrite E6 in B. injection B as <-. fold salt in C.
      rewrite C in E10. rewrite list_eqb_refl in E10. discriminate.
  Qed.

  (* verification never returns False by itself: it accepts or raises InvalidSignature/IndexError *)
  Lemma pss_verify_never_false mHash EM emBits sLen :
    EMSA_PSS_verify hash hLen mHash EM emBits sLen <> Ok false.
  Proof.
    unfold EMSA_PSS_verify.
    repeat match goal with
           | |- (if ?c then _ else _) <> _ => destruct c
           | |- bind ?m _ <> _ => destruct m; cbn [bind]
           end; discriminate.
  Qed.
End Pss.

(* ================================================================================ *)
(* signing then verifying succeeds, for every salt *)
From TV Require Import Proofs.C10_ListP.

Lemma divceil_bounds a b : 0 <= a -> 0 < b -> a <= divceil a b * b < a + b.
Proof.
  intros Ha Hb. unfold divceil.
  pose proof (Z.div_mod a b ltac:(lia)) as D. pose proof (Z.mod_pos_bound a b Hb) as M.
  destruct (a mod b =? 0) eqn:E.
  - apply Z.eqb_eq in E. nia.
  - apply Z.eqb_neq in E. nia.
Qed.

Lemma all_bytes_firstn n l : all_bytes l = true -> all_bytes (firstn n l) = true.
Proof.
  revert n. induction l as [|x l IH]; intros [|n] H; try reflexivity.
  cbn [firstn all_bytes forallb] in *. apply andb_true_iff in H. destruct H as [A B].
  rewrite A. apply IH. exact B.
Qed.

Section PssSound.
  Variable hash : list Z -> list Z.
  Variable hLen : Z.
  Hypothesis HhLen : 0 < hLen.
  Hypothesis Hlen : forall m, zlen (hash m) = hLen.
  Hypothesis Hbytes : forall m, all_bytes (hash m) = true.

  Lemma mgf_fold seed l : forall acc,
    zlen (fold_left (fun T x => T ++ hash (seed ++ numberToByteArray x 4)) l acc) = zlen acc + hLen * zlen l /\
    (all_bytes acc = true ->
     all_bytes (fold_left (fun T x => T ++ hash (seed ++ numberToByteArray x 4)) l acc) = true).
  Proof.
    induction l as [|x l IH]; intros acc; cbn [fold_left].
    - change (zlen (@nil Z)) with 0. split; [lia|auto].
    - destruct (IH (acc ++ hash (seed ++ numberToByteArray x 4))) as [A B]. split.
      + rewrite A, zlen_app, Hlen, zlen_cons. lia.
      + intros Hacc. apply B. rewrite all_bytes_app, Hacc, Hbytes. reflexivity.
  Qed.

  Lemma MGF1_ok seed maskLen : 0 <= maskLen <= 2 ^ 32 * hLen ->
    exists mask, MGF1 hash hLen seed maskLen = Ok mask /\ zlen mask = maskLen /\ all_bytes mask = true.
  Proof.
    intros H. unfold MGF1.
    destruct (maskLen >? 2 ^ 32 * hLen) eqn:E; [rewrite Z.gtb_ltb in E; apply Z.ltb_lt in E; lia|].
    eexists. split; [reflexivity|].
    set (T := fold_left _ _ _).
    destruct (mgf_fold seed (zrange 0 (divceil maskLen hLen)) []) as [A B]. fold T in A, B.
    pose proof (divceil_bounds maskLen hLen ltac:(lia) HhLen) as DB.
    assert (LT : maskLen <= zlen T).
    { rewrite A. unfold zlen at 1 2. cbn [Datatypes.length]. rewrite zrange_length.
      assert (0 <= divceil maskLen hLen) by nia. rewrite Z.sub_0_r, Z2Nat.id by lia. lia. }
    rewrite py_slice_prefix by lia. split.
    - unfold zlen. rewrite firstn_length_le; [lia|]. unfold zlen in LT. lia.
    - apply all_bytes_firstn. apply B. reflexivity.
  Qed.

  Lemma mask_facts emBits :
    0 < emBits ->
    let emLen := divceil emBits 8 in
    let mLen := emLen * 8 - emBits in
    let mask := Z.shiftl 1 (8 - mLen) - 1 in
    0 <= mLen <= 7 /\ mask = Z.ones (8 - mLen) /\ Z.land 0 mask = 0 /\ Z.land 1 mask = 1 /\ 1 <= emLen.
  Proof.
    intros H emLen mLen mask.
    pose proof (divceil_bounds emBits 8 ltac:(lia) ltac:(lia)) as B. fold emLen in B.
    assert (M : 0 <= mLen <= 7) by (unfold mLen; lia).
    assert (E : mask = Z.ones (8 - mLen)).
    { unfold mask. rewrite Z.ones_equiv, Z.shiftl_1_l. lia. }
    repeat split; try lia.
    - rewrite E, Z.land_ones by lia. apply Z.mod_1_l.
      replace (8 - mLen) with (1 + (7 - mLen)) by lia. rewrite Z.pow_add_r by lia.
      pose proof (Z.pow_pos_nonneg 2 (7 - mLen) ltac:(lia) ltac:(lia)). lia.
  Qed.

  Theorem pss_encode_then_verify mHash emBits salt EM :
    0 < emBits -> all_bytes salt = true -> divceil emBits 8 - hLen - 1 <= 2 ^ 32 * hLen ->
    EMSA_PSS_encode hash hLen mHash emBits salt = Ok EM ->
    zlen EM = divceil emBits 8 /\ all_bytes EM = true /\ bytesToNumber EM < 2 ^ emBits /\
    EMSA_PSS_verify hash hLen mHash EM emBits (zlen salt) = Ok true.
  Proof.
    intros Hbits Hsalt Hsmall. unfold EMSA_PSS_encode.
    set (sLen := zlen salt). set (emLen := divceil emBits 8).
    pose proof (zlen_nonneg salt) as HsL. fold sLen in HsL.
    destruct (emLen <? hLen + sLen + 2) eqn:E0; [discriminate|]. apply Z.ltb_ge in E0.
    set (H := hash (zeros 8 ++ mHash ++ salt)).
    set (psn := emLen - sLen - hLen - 2).
    assert (Hpsn : 0 <= psn) by (unfold psn; lia).
    destruct (MGF1_ok H (emLen - hLen - 1) ltac:(lia)) as [dbMask [EM1 [LM BM]]].
    rewrite EM1. cbn [bind].
    destruct (mask_facts emBits Hbits) as (HmLen & Hmask & Hl0 & Hl1 & HemLen).
    fold emLen in HmLen, Hmask, Hl0, Hl1, HemLen.
    set (mask := Z.shiftl 1 (8 - (emLen * 8 - emBits)) - 1) in *.
    set (DB := zeros psn ++ [1] ++ salt).
    assert (LDB : zlen DB = emLen - hLen - 1).
    { unfold DB. rewrite !zlen_app, zeros_zlen by lia. change (zlen [1]) with 1. fold sLen. unfold psn. lia. }
    assert (BDB : all_bytes DB = true).
    { unfold DB. rewrite !all_bytes_app, zeros_bytes, Hsalt. reflexivity. }
    assert (HD : exists d0 DBt, DB = d0 :: DBt /\ (d0 = 0 \/ d0 = 1)).
    { unfold DB, zeros. destruct (Z.to_nat psn); cbn [repeat app]; eauto. }
    destruct HD as [d0 [DBt [EDB Hd0]]].
    destruct dbMask as [|mk0 mkt]; [change (zlen (@nil Z)) with 0 in LM; lia|].
    assert (Ltl : Datatypes.length DBt = Datatypes.length mkt).
    { rewrite EDB in LDB. rewrite zlen_cons in LDB, LM. unfold zlen in LDB, LM. lia. }
    rewrite EDB, xor_bytes_cons. cbn [and_first bind].
    intros Hinj. injection Hinj as <-.
    set (m0 := Z.land (Z.lxor d0 mk0) mask).
    set (mdb := m0 :: xor_bytes DBt mkt).
    change (m0 :: xor_bytes DBt mkt ++ H ++ [188]) with (mdb ++ H ++ [188]).
    assert (Lmdb : zlen mdb = emLen - hLen - 1).
    { unfold mdb. rewrite zlen_cons. unfold zlen. rewrite xor_bytes_length by exact Ltl.
      rewrite <- LDB, EDB, zlen_cons. unfold zlen. lia. }
    assert (Bd0 : 0 <= d0 < 256) by (destruct Hd0; subst; lia).
    assert (BDBt : all_bytes DBt = true).
    { rewrite EDB in BDB. cbn [all_bytes forallb] in BDB. apply andb_true_iff in BDB. tauto. }
    assert (Bmk : 0 <= mk0 < 256 /\ all_bytes mkt = true).
    { cbn [all_bytes forallb] in BM. apply andb_true_iff in BM. destruct BM as [A B]. apply is_byte_iff in A. auto. }
    assert (Bm0 : 0 <= m0 < 2 ^ (8 - (emLen * 8 - emBits))).
    { unfold m0. rewrite Hmask, Z.land_ones by lia. apply Z.mod_pos_bound.
      apply Z.pow_pos_nonneg; lia. }
    assert (Bm0' : 0 <= m0 < 256).
    { split; [lia|]. eapply Z.lt_le_trans; [apply Bm0|]. change 256 with (2 ^ 8). apply Z.pow_le_mono_r; lia. }
    assert (Bmdb : all_bytes mdb = true).
    { unfold mdb. cbn [all_bytes forallb]. apply andb_true_iff. split; [apply is_byte_iff; exact Bm0'|].
      apply xor_bytes_bytes; tauto. }
    assert (LH : zlen H = hLen) by apply Hlen.
    split; [|split; [|split]].
    - rewrite !zlen_app, Lmdb, LH. change (zlen [188]) with 1. lia.
    - rewrite !all_bytes_app, Bmdb. unfold H. rewrite Hbytes. reflexivity.
    - (* value below 2^emBits *)
      unfold mdb. cbn [app]. rewrite b2n_cons.
      set (rest := xor_bytes DBt mkt ++ H ++ [188]).
      assert (Brest : all_bytes rest = true).
      { unfold rest. rewrite !all_bytes_app. unfold H at 1. rewrite Hbytes, xor_bytes_bytes by tauto. reflexivity. }
      assert (Lrest : zlen rest = emLen - 1).
      { unfold rest. rewrite !zlen_app, LH. change (zlen [188]) with 1.
        unfold mdb in Lmdb. rewrite zlen_cons in Lmdb. lia. }
      pose proof (b2n_range rest Brest) as R. rewrite Lrest in R.
      assert (P : 2 ^ emBits = 2 ^ (8 - (emLen * 8 - emBits)) * 256 ^ (emLen - 1)).
      { rewrite (pow256 (emLen - 1)) by lia. rewrite <- Z.pow_add_r by lia. f_equal. lia. }
      rewrite P, Lrest.
      set (W := 256 ^ (emLen - 1)) in *. set (V := 2 ^ (8 - (emLen * 8 - emBits))) in *.
      assert (m0 + 1 <= V) by lia. nia.
    - (* verification of the encoded message *)
      unfold EMSA_PSS_verify. fold emLen. fold sLen.
      destruct (emLen <? hLen + sLen + 2) eqn:E0'; [apply Z.ltb_lt in E0'; lia|].
      replace (mdb ++ H ++ [188]) with ((mdb ++ H) ++ [188]) at 1 by (rewrite app_assoc; reflexivity).
      rewrite py_index_last. cbn [bind]. rewrite Z.eqb_refl. cbn [negb].
      replace (emLen - hLen - 1) with (zlen mdb) by exact Lmdb.
      rewrite py_slice_app_first.
      replace (zlen mdb + hLen) with (zlen mdb + zlen H) by (rewrite LH; reflexivity).
      rewrite py_slice_app_mid.
      unfold mdb at 1. rewrite py_index_head. cbn [bind].
      replace (8 * emLen - emBits) with (emLen * 8 - emBits) by ring. fold mask.
      unfold m0 at 1. rewrite land_mask_topmask. rewrite Z.eqb_refl. cbn [negb].
      rewrite Lmdb, EM1. cbn [bind].
      unfold mdb. rewrite xor_bytes_cons, xor_bytes_involutive by exact Ltl. cbn [and_first bind].
      unfold m0. rewrite mask_xor_mask.
      assert (Ed0 : Z.land d0 mask = d0) by (destruct Hd0; subst; assumption).
      rewrite Ed0, <- EDB.
      replace (emLen - hLen - sLen - 2) with (zlen (zeros psn)) by (rewrite zeros_zlen by lia; unfold psn; lia).
      unfold DB at 1. rewrite py_slice_app_first.
      assert (Ez : existsb (fun x => negb (x =? 0)) (zeros psn) = false).
      { apply existsb_nonzero_false. intros x Hx. apply zeros_all_zero in Hx. exact Hx. }
      rewrite Ez.
      unfold DB at 1. cbn [app]. rewrite py_index_mid. cbn [bind]. rewrite Z.eqb_refl. cbn [negb].
      assert (Esalt : (if negb (sLen =? 0) then py_slice DB (Some (- sLen)) None else []) = salt).
      { destruct (sLen =? 0) eqn:Es; cbn [negb].
        - apply Z.eqb_eq in Es. unfold sLen in Es. destruct salt; [reflexivity|]. rewrite zlen_cons in Es.
          pose proof (zlen_nonneg salt). lia.
        - apply Z.eqb_neq in Es. unfold DB. rewrite app_assoc. unfold sLen. apply py_slice_suffix_neg. fold sLen. lia. }
      rewrite Esalt. fold H. rewrite list_eqb_refl. reflexivity.
  Qed.
End PssSound.

(* emLen = ceil((modBits-1)/8) equals the modulus length in bytes unless modBits = 1 mod 8 *)
Lemma emLen_vs_numBytes B : 1 <= B ->
  (B mod 8 <> 1 -> divceil (B - 1) 8 = (B + 7) / 8) /\
  (B mod 8 = 1 -> divceil (B - 1) 8 = (B + 7) / 8 - 1).
Proof.
  intros HB. unfold divceil.
  destruct ((B - 1) mod 8 =? 0) eqn:E; [apply Z.eqb_eq in E|apply Z.eqb_neq in E];
    split; intros H; Z.div_mod_to_equations; lia.
Qed.

Section PssRsa.
  Variable hash : list Z -> list Z.
  Variable hLen : Z.
  Hypothesis HhLen : 0 < hLen.
  Hypothesis Hlen : forall m, zlen (hash m) = hLen.
  Hypothesis Hbytes : forall m, all_bytes (hash m) = true.
  Variables n e : Z.
  Variable priv : Z -> Z.
  Hypothesis Hn : 1 < n.
  Hypothesis Hsz : numBytes n <= 2 ^ 32.
  Hypothesis Hpriv : forall x, 0 <= x < n -> 0 <= priv x < n /\ powmod (priv x) e n = x.

  (* facts shared by the theorems below: EM (emLen bytes) left-padded to the modulus length *)
  Lemma padded_em mHash salt EM :
    all_bytes salt = true ->
    EMSA_PSS_encode hash hLen mHash (numBits n - 1) salt = Ok EM ->
    let emLen := divceil (numBits n - 1) 8 in
    let pad := zeros (Z.max (numBytes n - zlen EM) 0) in
    0 <= numBytes n - emLen <= 1 /\ zlen pad = numBytes n - emLen /\ zlen (pad ++ EM) = numBytes n /\
    all_bytes (pad ++ EM) = true /\ 0 <= bytesToNumber (pad ++ EM) < n /\
    EMSA_PSS_verify hash hLen mHash EM (numBits n - 1) (zlen salt) = Ok true.
  Proof.
    intros Hsalt Eenc emLen pad.
    assert (Hn0 : 0 < n) by lia.
    pose proof (numBits_pos n Hn0) as HB. pose proof (numBits_spec n Hn0) as [Hlow Hup].
    assert (HB2 : 2 <= numBits n).
    { destruct (Z.eq_dec (numBits n) 1) as [E|E]; [rewrite E in Hup; change (2 ^ 1) with 2 in Hup; lia|lia]. }
    destruct (emLen_vs_numBytes (numBits n) HB) as [EL1 EL2]. fold (numBytes n) in EL1, EL2. fold emLen in EL1, EL2.
    assert (Hd : 0 <= numBytes n - emLen <= 1).
    { destruct (Z.eq_dec (numBits n mod 8) 1) as [E|E]; [rewrite (EL2 E)|rewrite (EL1 E)]; lia. }
    assert (Hsmall : divceil (numBits n - 1) 8 - hLen - 1 <= 2 ^ 32 * hLen) by (fold emLen; nia).
    destruct (pss_encode_then_verify hash hLen HhLen Hlen Hbytes mHash (numBits n - 1) salt EM ltac:(lia) Hsalt Hsmall Eenc)
      as (LEM & BEM & VEM & Hver). fold emLen in LEM.
    assert (Lpad : zlen pad = numBytes n - emLen).
    { unfold pad. rewrite LEM. rewrite zeros_zlen by lia. lia. }
    pose proof (b2n_range EM BEM) as [H0 _].
    repeat split; try lia.
    - rewrite zlen_app, Lpad, LEM. lia.
    - rewrite all_bytes_app. unfold pad. rewrite zeros_bytes, BEM. reflexivity.
    - unfold pad. rewrite b2n_zeros_app. exact H0.
    - unfold pad. rewrite b2n_zeros_app. lia.
    - exact Hver.
  Qed.

  (* holds for EVERY modulus size since /repo cc7bf57 (before: only when modBits <> 1 mod 8) *)
  Theorem pss_sign_then_verify mHash salt S :
    all_bytes salt = true ->
    RSASSA_PSS_sign hash hLen n priv mHash salt = Ok S ->
    RSASSA_PSS_verify hash hLen n e mHash S (zlen salt) = Ok true.
  Proof.
    intros Hsalt. unfold RSASSA_PSS_sign. assert (Hn0 : 0 < n) by lia.
    destruct (EMSA_PSS_encode hash hLen mHash (numBits n - 1) salt) as [EM|x] eqn:Eenc; cbn [bind]; [|discriminate].
    destruct (padded_em mHash salt EM Hsalt Eenc) as (Hd & Lpad & LEM' & BEM' & [V0 V1] & Hver).
    set (pad := zeros (Z.max (numBytes n - zlen EM) 0)) in *.
    unfold raw_private_key_op_bytes. rewrite LEM', Z.eqb_refl. cbn [negb].
    destruct (bytesToNumber (pad ++ EM) >=? n) eqn:E1; [rewrite Z.geb_leb in E1; apply Z.leb_le in E1; lia|].
    intros Hs. injection Hs as <-.
    destruct (Hpriv (bytesToNumber (pad ++ EM)) (conj V0 V1)) as [[P0 P1] P2].
    pose proof (numBytes_pos n Hn0) as Hk. pose proof (numBytes_upper n Hn0) as Hu.
    unfold RSASSA_PSS_verify, raw_public_key_op_bytes.
    rewrite n2b_zlen by lia. rewrite Z.eqb_refl. cbn [negb]. rewrite b2n_n2b by lia.
    destruct (priv (bytesToNumber (pad ++ EM)) >=? n) eqn:E2; [rewrite Z.geb_leb in E2; apply Z.leb_le in E2; lia|].
    unfold raw_public_op. rewrite P2. rewrite n2b_b2n by assumption.
    rewrite LEM'. rewrite <- Lpad.
    rewrite py_slice_app_head, py_slice_app_tail.
    assert (Ez : existsb (fun x => negb (x =? 0)) pad = false).
    { apply existsb_nonzero_false. intros x Hx. apply zeros_all_zero in Hx. exact Hx. }
    rewrite Ez. rewrite Hver. reflexivity.
  Qed.

  (* signing succeeds whenever hash and salt fit into emLen *)
  Theorem pss_sign_succeeds mHash salt :
    all_bytes salt = true -> hLen + zlen salt + 2 <= divceil (numBits n - 1) 8 ->
    exists S, RSASSA_PSS_sign hash hLen n priv mHash salt = Ok S.
  Proof.
    intros Hsalt Hfit. unfold RSASSA_PSS_sign. assert (Hn0 : 0 < n) by lia.
    destruct (EMSA_PSS_encode hash hLen mHash (numBits n - 1) salt) as [EM|x] eqn:Eenc; cbn [bind].
    - destruct (padded_em mHash salt EM Hsalt Eenc) as (Hd & Lpad & LEM' & BEM' & [V0 V1] & _).
      unfold raw_private_key_op_bytes. rewrite LEM', Z.eqb_refl. cbn [negb].
      destruct (bytesToNumber (_ ++ EM) >=? n) eqn:E1; [rewrite Z.geb_leb in E1; apply Z.leb_le in E1; lia|].
      eexists. reflexivity.
    - exfalso. unfold EMSA_PSS_encode in Eenc. set (emLen := divceil (numBits n - 1) 8) in *.
      destruct (emLen <? hLen + zlen salt + 2) eqn:E0; [apply Z.ltb_lt in E0; lia|].
      pose proof (zlen_nonneg salt).
      pose proof (numBits_pos n Hn0) as HB.
      destruct (emLen_vs_numBytes (numBits n) HB) as [EL1 EL2]. fold (numBytes n) in EL1, EL2. fold emLen in EL1, EL2.
      assert (Hle : emLen <= numBytes n).
      { destruct (Z.eq_dec (numBits n mod 8) 1) as [E|E]; [rewrite (EL2 E)|rewrite (EL1 E)]; lia. }
      destruct (MGF1_ok hash hLen HhLen Hlen Hbytes (hash (zeros 8 ++ mHash ++ salt)) (emLen - hLen - 1)) as [m [Em [Lm _]]];
        [nia|].
      rewrite Em in Eenc. cbn [bind] in Eenc.
      destruct m as [|m0 mt]; [change (zlen (@nil Z)) with 0 in Lm; lia|].
      set (DB := zeros (emLen - zlen salt - hLen - 2) ++ [1] ++ salt) in Eenc.
      destruct DB as [|d0 DBt] eqn:EDB.
      + unfold DB in EDB. destruct (zeros (emLen - zlen salt - hLen - 2)); discriminate.
      + rewrite xor_bytes_cons in Eenc. cbn [and_first bind] in Eenc. discriminate.
  Qed.
End PssRsa.
