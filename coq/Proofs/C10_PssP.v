(* C10: EMSA-PSS as implemented by rsakey.py. *)
From Coq Require Import ZArith List Bool Lia String.
From TV Require Import Base.Prelude Gen.C10_Tables Model.C10_RsaMath Model.C10_RsaSig
     Proofs.C10_BytesP Proofs.C10_MathP.
Import ListNotations.
Open Scope Z_scope.

Section Pss.
  Variable hash : list Z -> list Z.
  Variable hLen : Z.

  (* everything EMSA_PSS_verify checks, as one conjunction *)
  Definition pss_checks (mHash EM : list Z) (emBits sLen : Z) : Prop :=
    let emLen := divceil emBits 8 in
    let maskedDB := py_slice EM (Some 0) (Some (emLen - hLen - 1)) in
    let H := py_slice EM (Some (emLen - hLen - 1)) (Some (emLen - hLen - 1 + hLen)) in
    let topmask := Z.land (Z.lnot (Z.shiftl 1 (8 - (8 * emLen - emBits)) - 1)) 255 in
    let mask := Z.shiftl 1 (8 - (emLen * 8 - emBits)) - 1 in
    hLen + sLen + 2 <= emLen /\                                  (* room for hash, salt, 01, bc *)
    py_index EM (-1) = Ok 188 /\                                 (* trailer 0xbc *)
    exists m0 dbMask DB,
      py_index maskedDB 0 = Ok m0 /\ Z.land m0 topmask = 0 /\    (* top bits of EM are zero *)
      MGF1 hash hLen H (emLen - hLen - 1) = Ok dbMask /\
      and_first (xor_bytes maskedDB dbMask) mask = Ok DB /\
      (forall x, In x (py_slice DB (Some 0) (Some (emLen - hLen - sLen - 2))) -> x = 0) /\  (* PS = 00..00 *)
      py_index DB (emLen - hLen - sLen - 2) = Ok 1 /\            (* separator 0x01 *)
      H = hash (zeros 8 ++ mHash ++                              (* H = Hash(00^8 || mHash || salt) *)
                (if negb (sLen =? 0) then py_slice DB (Some (- sLen)) None else [])).

  Lemma existsb_nonzero_false l :
    existsb (fun x => negb (x =? 0)) l = false <-> (forall x, In x l -> x = 0).
  Proof.
    split.
    - intros H x Hx. destruct (x =? 0) eqn:E; [apply Z.eqb_eq; exact E|].
      exfalso. assert (existsb (fun x => negb (x =? 0)) l = true).
      { apply existsb_exists. exists x. split; [exact Hx|]. rewrite E. reflexivity. }
      congruence.
    - intros H. destruct (existsb (fun x => negb (x =? 0)) l) eqn:E; [|reflexivity].
      apply existsb_exists in E. destruct E as [x [Hx Hn]]. rewrite (H x Hx) in Hn. discriminate.
  Qed.

  Theorem pss_verify_iff mHash EM emBits sLen :
    EMSA_PSS_verify hash hLen mHash EM emBits sLen = Ok true <-> pss_checks mHash EM emBits sLen.
  Proof.
    unfold EMSA_PSS_verify, pss_checks.
    set (emLen := divceil emBits 8).
    set (maskedDB := py_slice EM (Some 0) (Some (emLen - hLen - 1))).
    set (H := py_slice EM (Some (emLen - hLen - 1)) (Some (emLen - hLen - 1 + hLen))).
    set (topmask := Z.land (Z.lnot (Z.shiftl 1 (8 - (8 * emLen - emBits)) - 1)) 255).
    set (mask := Z.shiftl 1 (8 - (emLen * 8 - emBits)) - 1).
    destruct (emLen <? hLen + sLen + 2) eqn:E0.
    { apply Z.ltb_lt in E0. split; [discriminate|]. intros [A _]. lia. }
    apply Z.ltb_ge in E0.
    destruct (py_index EM (-1)) as [last|x] eqn:E1; cbn [bind].
    2:{ split; [discriminate|]. intros [_ [A _]]. discriminate. }
    destruct (last =? 188) eqn:E2; cbn [negb].
    2:{ apply Z.eqb_neq in E2. split; [discriminate|]. intros [_ [A _]]. injection A as A. contradiction. }
    apply Z.eqb_eq in E2. subst last.
    destruct (py_index maskedDB 0) as [m0|x] eqn:E3; cbn [bind].
    2:{ split; [discriminate|]. intros [_ [_ [m0 [dbMask [DB [A _]]]]]]. discriminate. }
    destruct (Z.land m0 topmask =? 0) eqn:E4; cbn [negb].
    2:{ apply Z.eqb_neq in E4. split; [discriminate|]. intros [_ [_ [m0' [dbMask [DB [A [B _]]]]]]].
        injection A as <-. contradiction. }
    apply Z.eqb_eq in E4.
    destruct (MGF1 hash hLen H (emLen - hLen - 1)) as [dbMask|x] eqn:E5; cbn [bind].
    2:{ split; [discriminate|]. intros [_ [_ [m0' [dbMask [DB [_ [_ [A _]]]]]]]]. discriminate. }
    destruct (and_first (xor_bytes maskedDB dbMask) mask) as [DB|x] eqn:E6; cbn [bind].
    2:{ split; [discriminate|]. intros [_ [_ [m0' [dbMask' [DB [_ [_ [A [B _]]]]]]]]].
        injection A as <-. rewrite E6 in B. discriminate. }
    destruct (existsb (fun x => negb (x =? 0)) (py_slice DB (Some 0) (Some (emLen - hLen - sLen - 2)))) eqn:E7.
    { split; [discriminate|]. intros [_ [_ [m0' [dbMask' [DB' [_ [_ [A [B [C _]]]]]]]]]].
      injection A as <-. rewrite E6 in B. injection B as <-.
      apply (proj2 (existsb_nonzero_false _)) in C. congruence. }
    pose proof (proj1 (existsb_nonzero_false _) E7) as E7p.
    destruct (py_index DB (emLen - hLen - sLen - 2)) as [sep|x] eqn:E8; cbn [bind].
    2:{ split; [discriminate|]. intros [_ [_ [m0' [dbMask' [DB' [_ [_ [A [B [_ [C _]]]]]]]]]]].
        injection A as <-. rewrite E6 in B. injection B as <-. rewrite E8 in C. discriminate. }
    destruct (sep =? 1) eqn:E9; cbn [negb].
    2:{ apply Z.eqb_neq in E9. split; [discriminate|].
        intros [_ [_ [m0' [dbMask' [DB' [_ [_ [A [B [_ [C _]]]]]]]]]]].
        injection A as <-. rewrite E6 in B. injection B as <-. rewrite E8 in C. injection C as C. contradiction. }
    apply Z.eqb_eq in E9. subst sep.
    set (salt := if negb (sLen =? 0) then py_slice DB (Some (- sLen)) None else []).
    destruct (list_eqb H (hash (zeros 8 ++ mHash ++ salt))) eqn:E10.
    - apply list_eqb_spec in E10. split; [|reflexivity]. intros _.
      split; [lia|]. split; [reflexivity|]. exists m0, dbMask, DB. repeat split; auto; try lia.
    - split; [discriminate|].
      intros [_ [_ [m0' [dbMask' [DB' [_ [_ [A [B [_ [_ C]]]]]]]]]]].
      injection A as <-. rewrite E6 in B. injection B as <-. fold salt in C.
      rewrite C in E10. rewrite list_eqb_refl in E10. discriminate.
  Qed.

  (* verification never returns False by itself: it accepts or raises InvalidSignature/IndexError *)
  Lemma pss_verify_never_false mHash EM emBits sLen :
    EMSA_PSS_verify hash hLen mHash EM emBits sLen <> Ok false.
  Proof.
    unfold EMSA_PSS_verify.
    repeat match goal with
           | |- (if ?c then _ else _) <> _ => destruct c
           | |- bind ?m _ <> _ => destruct m; cbn [bind]
           end; discriminate.
  Qed.
End Pss.
