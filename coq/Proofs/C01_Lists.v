(* List/length helper lemmas shared by the C01/C02 proofs. *)
From Coq Require Import ZArith List Bool Lia.
From TV Require Import Base.Prelude Model.C01_RecordPipe.
Import ListNotations.
Open Scope Z_scope.

Lemma zlen_nonneg {A} (l : list A) : 0 <= zlen l.
Proof. unfold zlen. lia. Qed.

Lemma zlen_app {A} (a b : list A) : zlen (a ++ b) = zlen a + zlen b.
Proof. unfold zlen. rewrite app_length. lia. Qed.

Lemma zlen_nil {A} : zlen (@nil A) = 0.
Proof. reflexivity. Qed.

Lemma zlen_cons {A} (x : A) l : zlen (x :: l) = 1 + zlen l.
Proof. unfold zlen. cbn [length]. lia. Qed.

Lemma zlen_zero_nil {A} (l : list A) : zlen l = 0 -> l = [].
Proof. destruct l; [reflexivity|]. rewrite zlen_cons. pose proof (zlen_nonneg l). lia. Qed.

Lemma zlen_repeat {A} (x : A) n : zlen (repeat x n) = Z.of_nat n.
Proof. unfold zlen. rewrite repeat_length. reflexivity. Qed.

Lemma zlen_zeros n : 0 <= n -> zlen (zeros n) = n.
Proof. intros H. unfold zeros. rewrite zlen_repeat. lia. Qed.

Lemma zlen_rev {A} (l : list A) : zlen (rev l) = zlen l.
Proof. unfold zlen. rewrite rev_length. reflexivity. Qed.

Lemma ztake_zdrop {A} n (l : list A) : ztake n l ++ zdrop n l = l.
Proof. apply firstn_skipn. Qed.

Lemma ztake_app_exact {A} (a b : list A) : ztake (zlen a) (a ++ b) = a.
Proof.
  unfold ztake, zlen. rewrite Nat2Z.id.
  rewrite firstn_app, Nat.sub_diag, firstn_all. cbn [firstn]. apply app_nil_r.
Qed.

Lemma zdrop_app_exact {A} (a b : list A) : zdrop (zlen a) (a ++ b) = b.
Proof.
  unfold zdrop, zlen. rewrite Nat2Z.id.
  rewrite skipn_app, Nat.sub_diag, skipn_all. reflexivity.
Qed.

Lemma ztake_app_n {A} n (a b : list A) : n = zlen a -> ztake n (a ++ b) = a.
Proof. intros ->. apply ztake_app_exact. Qed.

Lemma zdrop_app_n {A} n (a b : list A) : n = zlen a -> zdrop n (a ++ b) = b.
Proof. intros ->. apply zdrop_app_exact. Qed.

Lemma zlen_ztake {A} n (l : list A) : 0 <= n <= zlen l -> zlen (ztake n l) = n.
Proof. intros H. unfold ztake, zlen in *. rewrite firstn_length. lia. Qed.

Lemma zlen_ztake_le {A} n (l : list A) : zlen (ztake n l) <= zlen l.
Proof. unfold ztake, zlen. rewrite firstn_length. lia. Qed.

Lemma zlen_zdrop {A} n (l : list A) : 0 <= n <= zlen l -> zlen (zdrop n l) = zlen l - n.
Proof. intros H. unfold zdrop, zlen in *. rewrite skipn_length. lia. Qed.

Lemma ztake_all {A} n (l : list A) : zlen l <= n -> ztake n l = l.
Proof. intros H. unfold ztake, zlen in *. apply firstn_all2. lia. Qed.

Lemma zdrop_all {A} n (l : list A) : zlen l <= n -> zdrop n l = [].
Proof. intros H. unfold zdrop, zlen in *. apply skipn_all2. lia. Qed.

Lemma ztake_0 {A} (l : list A) : ztake 0 l = [].
Proof. reflexivity. Qed.

Lemma zdrop_0 {A} (l : list A) : zdrop 0 l = l.
Proof. reflexivity. Qed.

Lemma list_eqb_refl l : list_eqb l l = true.
Proof. apply list_eqb_spec. reflexivity. Qed.

Lemma app_inv_len {A} (a b c d : list A) : length a = length c -> a ++ b = c ++ d -> a = c /\ b = d.
Proof.
  revert c. induction a as [|x a IH]; intros [|y c] Hl H; cbn in *; try discriminate.
  - auto.
  - injection H as -> H. apply IH in H; [|lia]. destruct H as [-> ->]. auto.
Qed.

Lemma app_inv_len_tail {A} (a b c d : list A) : length b = length d -> a ++ b = c ++ d -> a = c /\ b = d.
Proof.
  intros Hl H.
  assert (length a = length c).
  { apply (f_equal (@length A)) in H. rewrite !app_length in H. lia. }
  apply app_inv_len; assumption.
Qed.

Lemma nthZ_app_last (a : list Z) x : nthZ (a ++ [x]) (zlen (a ++ [x]) - 1) = x.
Proof.
  unfold nthZ. rewrite zlen_app. change (zlen [x]) with 1.
  replace (Z.to_nat (zlen a + 1 - 1)) with (length a) by (unfold zlen; lia).
  rewrite app_nth2 by lia. rewrite Nat.sub_diag. reflexivity.
Qed.

Lemma last_byte_snoc (a : list Z) x : last_byte (a ++ [x]) = x.
Proof. unfold last_byte. apply nthZ_app_last. Qed.

Lemma last_byte_app (a b : list Z) : b <> [] -> last_byte (a ++ b) = last_byte b.
Proof.
  intros Hb. destruct (exists_last Hb) as [b' [x ->]].
  rewrite app_assoc, !last_byte_snoc. reflexivity.
Qed.

Lemma be_bytes_length k n : length (be_bytes k n) = k.
Proof. revert n. induction k; intros n; cbn [be_bytes]; [reflexivity|]. rewrite app_length, IHk. cbn. lia. Qed.

Lemma be_bytes_inj k a b : 0 <= a < 256 ^ Z.of_nat k -> 0 <= b < 256 ^ Z.of_nat k ->
  be_bytes k a = be_bytes k b -> a = b.
Proof.
  revert a b. induction k as [|k IH]; intros a b Ha Hb H.
  - cbn in Ha, Hb. lia.
  - cbn [be_bytes] in H.
    apply app_inv_len_tail in H; [|reflexivity]. destruct H as [H1 H2].
    injection H2 as H2.
    rewrite Nat2Z.inj_succ, Z.pow_succ_r in Ha, Hb by lia.
    assert (a / 256 = b / 256).
    { apply IH; [| |exact H1].
      - split; [apply Z.div_pos; lia|apply Z.div_lt_upper_bound; lia].
      - split; [apply Z.div_pos; lia|apply Z.div_lt_upper_bound; lia]. }
    rewrite (Z.div_mod a 256), (Z.div_mod b 256) by lia. lia.
Qed.

Lemma be_bytes_bytes k n : all_bytes (be_bytes k n) = true.
Proof.
  revert n. induction k as [|k IH]; intros n; cbn [be_bytes]; [reflexivity|].
  unfold all_bytes. rewrite forallb_app. fold (all_bytes (be_bytes k (n / 256))). rewrite IH.
  cbn [forallb andb]. unfold is_byte.
  pose proof (Z.mod_pos_bound n 256 eq_refl).
  destruct (0 <=? n mod 256) eqn:E1; [|lia]. destruct (n mod 256 <? 256) eqn:E2; [reflexivity|lia].
Qed.
