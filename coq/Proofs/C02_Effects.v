(* C02: effects of a rejection / an acceptance on the endpoint, and instances showing the
   hypotheses of the C02 theorems are satisfiable. *)
From Coq Require Import ZArith List Bool Lia.
From TV Require Import Base.Prelude Spec.CbcCheck Toy.ToyMac Model.C01_RecordPipe Toy.C01_ToyCipher
  Spec.C01_Contracts Model.C02_RecordAccept Spec.C02_Ideal Proofs.C01_Lists Proofs.C01_ToyOk
  Proofs.C02_Cbc Proofs.C02_Accept.
Import ListNotations.
Open Scope Z_scope.

Section Effects.
Context {CS : Type}.
Variables (cr cw : Cfg) (Pr Pw : Prim CS).

Lemma reject_effects_l (e : Endpoint CS) (w : Wire) err d :
  unprotect cr Pr (e_rd e) w = RErr err -> alert_of err = Some d ->
  let e' := fst (recv_step cr cw Pr Pw e w) in
  snd (recv_step cr cw Pr Pw e w) = OLocalAlert d /\
  e_rbuf e' = e_rbuf e /\ e_closed e' = true /\ e_resumable e' = false /\
  (forall s1 wa, protect cw Pw (e_wr e) (21, [2; d]) = ROk (s1, wa) -> e_sent e' = e_sent e ++ [wa]).
Proof.
  intros Hu Ha. unfold recv_step. rewrite Hu, Ha. unfold send_error. cbn [fst snd e_rbuf e_closed e_resumable e_sent].
  repeat split. intros s1 wa Hp. rewrite Hp. reflexivity.
Qed.

(* every TLS-level rejection class is mapped to a fatal alert *)
Lemma alert_of_total err : err <> EValue -> err <> EAssert -> exists d, alert_of err = Some d.
Proof. destruct err; intros H1 H2; try congruence; cbn; eauto. Qed.

Lemma accept_effects_l (e : Endpoint CS) (w : Wire) r1 data :
  unprotect cr Pr (e_rd e) w = ROk (r1, (23, data)) ->
  let e' := fst (recv_step cr cw Pr Pw e w) in
  snd (recv_step cr cw Pr Pw e w) = ODelivered (zlen data) /\
  e_rbuf e' = e_rbuf e ++ data /\ e_closed e' = e_closed e /\ e_resumable e' = e_resumable e /\
  e_sent e' = e_sent e /\ e_rd e' = r1.
Proof.
  intros Hu. unfold recv_step. rewrite Hu. change (23 =? 23) with true. cbn [negb andb existsb orb].
  change (23 =? 20) with false. change (23 =? 21) with false. change (23 =? 22) with false.
  cbn [orb negb fst snd e_rbuf e_closed e_resumable e_sent e_rd]. repeat split.
Qed.
End Effects.

(* ---- satisfiability --------------------------------------------------------------------------------------- *)
(* the toy AEAD is tight: what opens is the sealing of what it opens to *)
Lemma toy_aead_tight key tl : 0 <= tl -> aead_tight (toy_prim_aead key tl).
Proof.
  intros Htl n buf a p. cbn [toy_prim_aead pr_seal pr_open]. unfold ta_open, ta_seal.
  destruct (zlen buf - tl <? 0) eqn:E; [discriminate|].
  destruct (list_eqb (ta_tag key tl n a (ztake (zlen buf - tl) buf)) (zdrop (zlen buf - tl) buf)) eqn:Eq; [|discriminate].
  intros H. injection H as <-. apply list_eqb_spec in Eq.
  destruct (ts_run_involutive (ztake (zlen buf - tl) buf) (ta_ks0 key n)) as [H1 _]. rewrite H1, Eq.
  symmetry. apply ztake_zdrop.
Qed.

Lemma id_aead_tight key tl mac : 0 <= tl -> aead_tight (id_prim mac (ta_seal key tl) (ta_open key tl)).
Proof. intros H. exact (toy_aead_tight key tl H). Qed.

Lemma toy_stream_cipher_onto mk mds mbs : cipher_onto (toy_prim_stream mk mds mbs) eq 1.
Proof.
  intros s r x <- _. cbn [toy_prim_stream pr_enc pr_dec]. unfold ts_crypt. cbn [fst snd].
  destruct (ts_run_involutive x (nthZ s 0)) as [H1 [H2 H3]].
  split; [exact H1|]. split; [unfold zlen; rewrite H3; reflexivity|]. rewrite H2. reflexivity.
Qed.

Lemma id_dec_bytes mac sl op : dec_bytes (id_prim mac sl op).
Proof. intros cs y H. exact H. Qed.

(* "transparent" primitives: the ideal hypotheses are satisfiable (only) by outputs that contain
   their input *)
Definition transparent_mac (tagbyte : Z) : HMac :=
  {| mac_ds := 0; mac_bs := 64; mac_fn := fun x => tagbyte :: x; mac_acc := [] |}.
Definition transparent_seal (k : Z) (n p a : list Z) : list Z :=
  [k; zlen n; zlen p] ++ n ++ p ++ a.
Definition transparent_prim (k : Z) : Prim unit :=
  {| pr_enc := fun s x => (s, x); pr_dec := fun s x => (s, x); pr_mac := transparent_mac k;
     pr_seal := transparent_seal k; pr_open := fun _ _ _ => None |}.

Lemma transparent_mac_injective k : mac_injective_ideal (transparent_prim k).
Proof. intros x y H. cbn in H. injection H as H. exact H. Qed.

Lemma transparent_mac_disjoint k1 k2 : k1 <> k2 -> mac_disjoint_ideal (transparent_prim k1) (transparent_prim k2).
Proof. intros Hk x y H. cbn in H. injection H as H _. contradiction. Qed.

Lemma transparent_seal_injective k : seal_injective_ideal (transparent_prim k).
Proof.
  intros n1 p1 a1 n2 p2 a2 H. cbn [transparent_prim pr_seal] in H. unfold transparent_seal in H.
  cbn [app] in H. injection H as Hn Hp H.
  apply app_inv_len in H; [|unfold zlen in Hn; lia]. destruct H as [-> H].
  apply app_inv_len in H; [|unfold zlen in Hp; lia]. destruct H as [-> ->]. auto.
Qed.

Lemma transparent_seal_disjoint k1 k2 : k1 <> k2 -> seal_disjoint_ideal (transparent_prim k1) (transparent_prim k2).
Proof. intros Hk n1 p1 a1 n2 p2 a2 H. cbn in H. injection H as H _. contradiction. Qed.
