(* The key-calculation glue (Model/C09_KeyCalc.v) against the RFC definitions (Spec/C09_KeyCalc.v). *)
From Coq Require Import ZArith List Bool Lia String.
From TV Require Import Base.Prelude Base.C09_Lib Base.C09_Oracle Gen.C09_KDF Model.C09_KeyCalc
  Spec.C09_KDF Spec.C09_KeyCalc Proofs.C09_Lists Proofs.C09_KDF.
Import ListNotations.
Open Scope list_scope.
Open Scope Z_scope.

Definition hash_ok (Orc : Oracles) : Prop :=
  forall alg ds data, digest_size alg = Some ds -> zlen (o_hash Orc alg data) = ds.

(* ---- HKDF-Expand-Label / Derive-Secret ------------------------------------------ *)
Lemma hkdf_label_eq label context length :
  0 <= length <= 65535 -> zlen label + 6 <= 255 -> zlen context <= 255 ->
  hkdf_label_bytes label context length = Ok (hkdf_label_rfc length label context).
Proof.
  intros H1 H2 H3. unfold hkdf_label_bytes, hkdf_label_rfc.
  change (bytes_of_string "tls13 ") with (ascii_bytes "tls13 ").
  assert (zlen (ascii_bytes "tls13 " ++ label) = zlen label + 6) as E
    by (rewrite zlen_app; change (zlen (ascii_bytes "tls13 ")) with 6; lia).
  rewrite E.
  destruct ((0 <=? length) && (length <=? 65535)) eqn:E1; [|lia].
  destruct (zlen label + 6 <=? 255) eqn:E2; [|lia].
  destruct (zlen context <=? 255) eqn:E3; [|lia]. reflexivity.
Qed.

Lemma hkdf_expand_label_full Orc alg secret label context length okm :
  hkdf_expand_label_rfc Orc alg secret label context length = Some okm ->
  HKDF_expand_label Orc secret label context length alg = Ok okm.
Proof.
  unfold hkdf_expand_label_rfc, HKDF_expand_label.
  destruct ((0 <=? length) && (length <=? 65535) && (zlen label + 6 <=? 255) && (zlen context <=? 255)) eqn:E; [|discriminate].
  intros H. rewrite hkdf_label_eq by lia. rewrite bind_ok.
  apply (hkdf_expand_full Orc alg secret _ length okm H).
Qed.

(* what the RFC does not define (length > 65535 or > 255*HashLen, label or context too long) is refused *)
Lemma hkdf_expand_label_refuses Orc alg hl secret label context length :
  digest_size alg = Some hl ->
  hkdf_expand_label_rfc Orc alg secret label context length = None ->
  exists e, HKDF_expand_label Orc secret label context length alg = Err e.
Proof.
  intros Hd. unfold hkdf_expand_label_rfc, HKDF_expand_label, hkdf_label_bytes.
  change (bytes_of_string "tls13 ") with (ascii_bytes "tls13 ").
  assert (zlen (ascii_bytes "tls13 " ++ label) = zlen label + 6) as E
    by (rewrite zlen_app; change (zlen (ascii_bytes "tls13 ")) with 6; lia).
  rewrite E.
  destruct ((0 <=? length) && (length <=? 65535)) eqn:E1; cbn [andb]; [|intros _; eexists; reflexivity].
  destruct (zlen label + 6 <=? 255) eqn:E2; cbn [andb]; [|intros _; eexists; reflexivity].
  destruct (zlen context <=? 255) eqn:E3; [|intros _; eexists; reflexivity].
  rewrite bind_ok. unfold hkdf_expand_rfc. rewrite Hd.
  destruct ((0 <=? length) && (length <=? 255 * hl)) eqn:E4; [discriminate|]. intros _.
  exists ValueError. apply (hkdf_expand_beyond Orc alg secret _ length hl Hd). lia.
Qed.

Lemma derive_secret_full Orc alg hl secret label messages okm :
  digest_size alg = Some hl ->
  derive_secret_rfc Orc alg secret label messages = Some okm ->
  derive_secret Orc secret label (Some messages) alg = Ok okm /\
  (messages = [] -> derive_secret Orc secret label None alg = Ok okm).
Proof.
  intros Hd. unfold derive_secret_rfc, derive_secret, py_digest_size. rewrite Hd. intros H.
  split.
  - rewrite bind_ok. apply hkdf_expand_label_full. exact H.
  - intros E. subst messages. rewrite bind_ok. apply hkdf_expand_label_full. exact H.
Qed.

(* ---- TLS 1.3 traffic keys ----------------------------------------------------------- *)
Lemma tls13_traffic_keys_ok Orc (sha384 : bool) secret keyLen k iv :
  traffic_keys_rfc Orc (if sha384 then "sha384" else "sha256")%string secret keyLen = Some (k, iv) ->
  tls13_traffic_keys Orc secret keyLen sha384 = Ok (k, iv).
Proof.
  unfold traffic_keys_rfc, tls13_traffic_keys.
  change (bytes_of_string "key") with (ascii_bytes "key"). change (bytes_of_string "iv") with (ascii_bytes "iv").
  set (alg := (if sha384 then "sha384" else "sha256")%string).
  destruct (hkdf_expand_label_rfc Orc alg secret (ascii_bytes "key") [] keyLen) as [k'|] eqn:E1; [|discriminate].
  destruct (hkdf_expand_label_rfc Orc alg secret (ascii_bytes "iv") [] 12) as [iv'|] eqn:E2; [|discriminate].
  intros H. injection H as -> ->.
  rewrite (hkdf_expand_label_full Orc alg secret _ _ keyLen k E1), bind_ok.
  rewrite (hkdf_expand_label_full Orc alg secret _ _ 12 iv E2), bind_ok. reflexivity.
Qed.

(* ---- SSLv3 key block ------------------------------------------------------------------ *)
Lemma PRF_SSL_ok Orc secret seed n : hash_ok Orc -> 0 <= n <= 416 ->
  PRF_SSL Orc secret seed n = Ok (prf_ssl_rfc Orc secret seed n).
Proof.
  intros HH Hn. unfold PRF_SSL, prf_ssl_rfc. destruct (n <? 0) eqn:E; [lia|].
  change (prf_ssl_round Orc secret seed) with (ssl3_round Orc secret seed).
  set (stream := flat_map (ssl3_round Orc secret seed) (zrange 0 26)).
  assert (L : List.length stream = 416%nat).
  { unfold stream.
    assert (G : forall l, List.length (flat_map (ssl3_round Orc secret seed) l) = (16 * List.length l)%nat).
    { induction l as [|i l IH]; [reflexivity|]. cbn [flat_map]. rewrite app_length, IH.
      pose proof (HH "md5"%string 16 (secret ++ o_hash Orc "sha1" (repeat (65 + i) (Z.to_nat (i + 1)) ++ secret ++ seed)) eq_refl) as M.
      unfold ssl3_round. unfold zlen in M. cbn [List.length]. lia. }
    rewrite G, zrange_length. reflexivity. }
  rewrite firstn_length, L. replace (Z.to_nat n - Nat.min (Z.to_nat n) 416)%nat with 0%nat by lia.
  cbn [repeat]. rewrite app_nil_r. reflexivity.
Qed.

(* ---- calc_key: the version x PRF hash x label table ------------------------------------- *)
Ltac lab := repeat match goal with
  |- context [list_eqb (purpose_label ?p) ?L] =>
     let b := eval vm_compute in (list_eqb (purpose_label p) L) in
     change (list_eqb (purpose_label p) L) with b end.

Lemma calc_key_dispatch_all Orc version sha384 p secret messages cr sr n :
  oracle_ok Orc -> hash_ok Orc ->
  In version [(3, 0); (3, 1); (3, 2); (3, 3)] -> 0 <= n ->
  (version = (3, 0) -> p <> ExtMasterSecret /\ n <= 416) ->
  calc_key Orc version secret sha384 (purpose_label p) (Some messages) (Some cr) (Some sr) (Some n)
  = Ok (calc_key_rfc Orc version sha384 p secret messages cr sr n).
Proof.
  intros HO HH Hv Hn H30. cbn [In] in Hv.
  destruct Hv as [<-|[<-|[<-|[<-|[]]]]]; unfold calc_key, calc_key_rfc;
    cbn [pairZ_eqb fst snd Z.eqb Pos.eqb andb orb];
    destruct p; lab; cbn [orb andb need bind]; cbv beta iota zeta;
    try (destruct (H30 eq_refl) as [Hp Hn2]);
    try (exfalso; apply Hp; reflexivity);
    try reflexivity;
    try (rewrite PRF_SSL_ok by (assumption || lia); reflexivity);
    try (rewrite PRF_ok by assumption; reflexivity);
    try (destruct sha384; cbv beta iota; [rewrite PRF_1_2_SHA384_ok by assumption|rewrite PRF_1_2_ok by assumption]; reflexivity).
Qed.

(* labels outside the table, versions outside SSLv3..TLS 1.2 and extended master secret in SSLv3 are refused *)
Lemma calc_key_rejects Orc version secret sha384 label hh cr sr n :
  (~ In version [(3, 0); (3, 1); (3, 2); (3, 3)] \/
   (forall p, label <> purpose_label p) \/
   (version = (3, 0) /\ label = purpose_label ExtMasterSecret)) ->
  calc_key Orc version secret sha384 label hh cr sr n = Err AssertionError.
Proof.
  intros H. unfold calc_key.
  assert (Hl : forall q L, L = purpose_label q -> label <> purpose_label q -> list_eqb label L = false).
  { intros q L -> Hne. destruct (list_eqb label (purpose_label q)) eqn:E; [|reflexivity].
    apply list_eqb_spec in E. contradiction. }
  destruct H as [Hv|[Hlbl|[-> ->]]].
  - destruct (pairZ_eqb version (3, 0)) eqn:E0; [apply pairZ_eqb_spec in E0; subst; exfalso; apply Hv; cbn; auto|].
    destruct (pairZ_eqb version (3, 1)) eqn:E1; [apply pairZ_eqb_spec in E1; subst; exfalso; apply Hv; cbn; auto|].
    destruct (pairZ_eqb version (3, 2)) eqn:E2; [apply pairZ_eqb_spec in E2; subst; exfalso; apply Hv; cbn; auto|].
    destruct (pairZ_eqb version (3, 3)) eqn:E3; [apply pairZ_eqb_spec in E3; subst; exfalso; apply Hv; cbn; auto 6|].
    reflexivity.
  - rewrite (Hl ClientFinished L_cf eq_refl (Hlbl _)), (Hl ServerFinished L_sf eq_refl (Hlbl _)),
            (Hl KeyExpansion L_ke eq_refl (Hlbl _)), (Hl MasterSecret L_ms eq_refl (Hlbl _)),
            (Hl ExtMasterSecret L_ems eq_refl (Hlbl _)).
    cbn [orb]. destruct (pairZ_eqb version (3, 0)); [reflexivity|].
    destruct (pairZ_eqb version (3, 1) || pairZ_eqb version (3, 2)); [reflexivity|].
    destruct (pairZ_eqb version (3, 3)); reflexivity.
  - reflexivity.
Qed.

(* ---- key block slicing (RFC 5246 6.3) ------------------------------------------------------ *)
Lemma take_ok n st : 0 <= n <= zlen st -> take n st = Ok (firstn (Z.to_nat n) st, skipn (Z.to_nat n) st).
Proof. intros H. unfold take. destruct ((n <? 0) || (zlen st <? n)) eqn:E; [lia|reflexivity]. Qed.

Lemma slice_key_block_ok kb m k i : 0 <= m -> 0 <= k -> 0 <= i -> 2 * m + 2 * k + 2 * i <= zlen kb ->
  exists s, slice_key_block kb m k i = Ok s /\
    [ks_client_mac s; ks_server_mac s; ks_client_key s; ks_server_key s; ks_client_iv s; ks_server_iv s]
      = key_block_partition kb (Z.to_nat m) (Z.to_nat k) (Z.to_nat i) /\
    ks_client_mac s ++ ks_server_mac s ++ ks_client_key s ++ ks_server_key s ++ ks_client_iv s ++ ks_server_iv s
      = firstn (Z.to_nat (2 * m + 2 * k + 2 * i)) kb /\
    zlen (ks_client_mac s) = m /\ zlen (ks_server_mac s) = m /\ zlen (ks_client_key s) = k /\
    zlen (ks_server_key s) = k /\ zlen (ks_client_iv s) = i /\ zlen (ks_server_iv s) = i.
Proof.
  intros Hm Hk Hi Hl. unfold slice_key_block.
  assert (SL : forall a (l : list Z), 0 <= a <= zlen l -> zlen (skipn (Z.to_nat a) l) = zlen l - a)
    by (intros; apply skipn_zlen; assumption).
  assert (FL : forall a (l : list Z), 0 <= a <= zlen l -> zlen (firstn (Z.to_nat a) l) = a)
    by (intros; apply firstn_zlen; assumption).
  rewrite take_ok by lia. rewrite bind_ok.
  assert (L1 : zlen (skipn (Z.to_nat m) kb) = zlen kb - m) by (apply SL; lia).
  rewrite take_ok by lia. rewrite bind_ok.
  assert (L2 : zlen (skipn (Z.to_nat m) (skipn (Z.to_nat m) kb)) = zlen kb - m - m) by (rewrite SL; lia).
  rewrite take_ok by lia. rewrite bind_ok.
  assert (L3 : zlen (skipn (Z.to_nat k) (skipn (Z.to_nat m) (skipn (Z.to_nat m) kb))) = zlen kb - m - m - k) by (rewrite SL; lia).
  rewrite take_ok by lia. rewrite bind_ok.
  assert (L4 : zlen (skipn (Z.to_nat k) (skipn (Z.to_nat k) (skipn (Z.to_nat m) (skipn (Z.to_nat m) kb)))) = zlen kb - m - m - k - k) by (rewrite SL; lia).
  rewrite take_ok by lia. rewrite bind_ok.
  assert (L5 : zlen (skipn (Z.to_nat i) (skipn (Z.to_nat k) (skipn (Z.to_nat k) (skipn (Z.to_nat m) (skipn (Z.to_nat m) kb))))) = zlen kb - m - m - k - k - i) by (rewrite SL; lia).
  rewrite take_ok by lia. rewrite bind_ok.
  assert (F1 := FL m kb ltac:(lia)). assert (F2 := FL m _ ltac:(rewrite L1; lia)).
  assert (F3 := FL k _ ltac:(rewrite L2; lia)). assert (F4 := FL k _ ltac:(rewrite L3; lia)).
  assert (F5 := FL i _ ltac:(rewrite L4; lia)). assert (F6 := FL i _ ltac:(rewrite L5; lia)).
  eexists. split; [reflexivity|]. cbn [ks_client_mac ks_server_mac ks_client_key ks_server_key ks_client_iv ks_server_iv].
  rewrite !skipn_add.
  split; [|split].
  - unfold key_block_partition. set (M := Z.to_nat m). set (K := Z.to_nat k). set (I := Z.to_nat i).
    replace (2 * M)%nat with (M + M)%nat by lia.
    replace (M + M + 2 * K)%nat with (M + M + K + K)%nat by lia.
    reflexivity.
  - set (M := Z.to_nat m). set (K := Z.to_nat k). set (I := Z.to_nat i).
    replace (Z.to_nat (2 * m + 2 * k + 2 * i)) with (M + (M + (K + (K + (I + I)))))%nat by lia.
    rewrite !firstn_add, !skipn_add. reflexivity.
  - rewrite <- !skipn_add. repeat split; assumption.
Qed.

(* the endpoint's write state is its own role's triple, the read state the peer's *)
Lemma pending_states_swap s :
  pending_states true s = ((ks_client_mac s, ks_client_key s, ks_client_iv s), (ks_server_mac s, ks_server_key s, ks_server_iv s)) /\
  pending_states false s = (snd (pending_states true s), fst (pending_states true s)).
Proof. split; reflexivity. Qed.

(* the oracle hypotheses are satisfiable: the toy oracles meet them *)
Lemma toy_oracles_ok : oracle_ok Toy.C09_ToyOracle.toy_oracles /\ hash_ok Toy.C09_ToyOracle.toy_oracles.
Proof.
  split.
  - intros alg ds key msg Hd. unfold Toy.C09_ToyOracle.toy_oracles. cbn [o_hmac].
    unfold Toy.C09_ToyOracle.toy_ds. rewrite Hd. split; [|apply Toy.ToyMac.toy_mac_bytes].
    apply Toy.ToyMac.toy_mac_length.
    unfold digest_size in Hd.
    repeat match type of Hd with (if ?c then _ else _) = _ => destruct c; [injection Hd as <-; lia|] end. discriminate.
  - intros alg ds data Hd. unfold Toy.C09_ToyOracle.toy_oracles. cbn [o_hash].
    unfold Toy.C09_ToyOracle.toy_ds. rewrite Hd. apply Toy.ToyMac.toy_mac_length.
    unfold digest_size in Hd.
    repeat match type of Hd with (if ?c then _ else _) = _ => destruct c; [injection Hd as <-; lia|] end. discriminate.
Qed.

