(* ChaCha20-Poly1305 AEAD: generated code (Gen/C09_ChaChaPoly.v) = RFC 8439 2.8, and
   open accepts exactly the outputs of seal. *)
From Coq Require Import ZArith List Bool Lia.
From TV Require Import Base.Prelude Base.C09_Lib Gen.C09_Poly1305 Gen.C09_ChaCha Gen.C09_ChaChaPoly
  Spec.C09_Poly1305 Spec.C09_ChaCha Spec.C09_ChaChaPoly
  Proofs.C09_Lists Proofs.C09_Bits32 Proofs.C09_Poly1305 Proofs.C09_ChaCha.
Import ListNotations.
Open Scope Z_scope.

Definition key_ok (key nonce : list Z) : Prop :=
  zlen key = 32 /\ all_bytes key = true /\ zlen nonce = 12 /\ all_bytes nonce = true.

(* message length within the 32-bit block counter (RFC 8439: at most 2^32-1 blocks after block 0) *)
Definition len_ok (pt : list Z) : Prop := 1 + (zlen pt + 63) / 64 <= 4294967296.

Lemma xor_zeros n l : xor_bytes (repeat 0 n) l = firstn n l.
Proof.
  unfold xor_bytes. revert l. induction n as [|n IH]; intros [|x l]; cbn [repeat combine map firstn fst snd]; try reflexivity.
  rewrite IH. reflexivity.
Qed.

Lemma all_bytes_repeat0 n : all_bytes (repeat 0 n) = true.
Proof. induction n as [|n IH]; [reflexivity|]. unfold all_bytes in *. cbn [repeat forallb]. rewrite IH. reflexivity. Qed.

Lemma cp_poly1305_key_gen_ok key nonce : key_ok key nonce ->
  cp_poly1305_key_gen key nonce = Ok (poly1305_key_gen key nonce).
Proof.
  intros (Hk & Bk & Hn & Bn). unfold cp_poly1305_key_gen.
  rewrite cha_init_ok by assumption. rewrite bind_ok.
  unfold py_zeros. change (32 <? 0) with false. cbv iota. rewrite bind_ok.
  change (Z.to_nat 32) with 32%nat.
  assert (Hz : zlen (repeat 0 32) = 32) by reflexivity.
  rewrite cha_encrypt_ok; try assumption; try lia.
  - rewrite bind_ok. unfold chacha20_encrypt. rewrite Hz. change ((32 + 63) / 64) with 1.
    unfold chacha20_keystream. change (zrange 0 1) with [0]. cbn [flat_map]. rewrite app_nil_r.
    rewrite xor_zeros. rewrite Z.add_0_r. unfold poly1305_key_gen. reflexivity.
  - rewrite Hz. change ((32 + 63) / 64) with 1. lia.
  - apply all_bytes_repeat0.
Qed.

Lemma cp_pad16_ok data : cp_pad16 data = Ok (pad16 data).
Proof.
  unfold cp_pad16, pad16. pose proof (Z.mod_pos_bound (zlen data) 16 eq_refl) as B.
  destruct (zlen data mod 16 =? 0) eqn:E.
  - apply Z.eqb_eq in E. rewrite E. reflexivity.
  - apply Z.eqb_neq in E. unfold py_zeros.
    destruct (16 - zlen data mod 16 <? 0) eqn:E2; [lia|]. rewrite bind_ok.
    rewrite (Z.mod_small (16 - zlen data mod 16)) by lia. reflexivity.
Qed.

Lemma pack_le64_ok n : 0 <= n < 18446744073709551616 -> pack_le64 n = Ok (le_bytes 8 n).
Proof.
  intros H. unfold pack_le64.
  destruct ((0 <=? n) && (n <? 18446744073709551616)) eqn:E; [reflexivity|lia].
Qed.

Lemma poly1305_key_gen_length key nonce : key_ok key nonce -> zlen (poly1305_key_gen key nonce) = 32.
Proof.
  intros (Hk & Bk & Hn & Bn). unfold poly1305_key_gen, zlen. rewrite firstn_length.
  rewrite chacha20_block_length by assumption. reflexivity.
Qed.

(* the tag computation shared by seal and open *)
Lemma cp_tag_ok {B} key nonce aad ct (K : list Z -> res B) :
  key_ok key nonce -> zlen aad < 18446744073709551616 -> zlen ct < 18446744073709551616 ->
  (t10_ <- poly_init (poly1305_key_gen key nonce) ;;
   t11_ <- poly_create_tag t10_ ((((aad ++ pad16 aad) ++ ct ++ pad16 ct) ++ le_bytes 8 (zlen aad)) ++ le_bytes 8 (zlen ct)) ;;
   K (snd t11_)) = K (aead_tag key nonce aad ct).
Proof.
  intros HK Ha Hc.
  destruct (poly_tag_ok (poly1305_key_gen key nonce) (aead_mac_data aad ct)
             (poly1305_key_gen_length key nonce HK)) as [st [E1 [st' E2]]].
  rewrite E1, bind_ok.
  replace ((((aad ++ pad16 aad) ++ ct ++ pad16 ct) ++ le_bytes 8 (zlen aad)) ++ le_bytes 8 (zlen ct))
    with (aead_mac_data aad ct) by (unfold aead_mac_data; rewrite <- !app_assoc; reflexivity).
  rewrite E2, bind_ok. reflexivity.
Qed.

Lemma cp_seal_ok key nonce pt aad :
  key_ok key nonce -> all_bytes pt = true -> len_ok pt -> zlen aad < 18446744073709551616 ->
  cp_seal (mkChaChaPoly key) nonce pt aad = Ok (aead_seal key nonce pt aad).
Proof.
  intros HK Bp Lp La. pose proof HK as (Hk & Bk & Hn & Bn). unfold len_ok in Lp.
  pose proof (zlen_nonneg pt) as Hp. pose proof (zlen_nonneg aad) as Ha.
  unfold cp_seal. cbn [cp_key]. rewrite Hn. change (negb (12 =? 12)) with false. cbv iota.
  rewrite cp_poly1305_key_gen_ok by exact HK. rewrite bind_ok.
  rewrite cha_init_ok by assumption. rewrite bind_ok.
  rewrite cha_encrypt_ok by (try assumption; lia). rewrite bind_ok.
  rewrite !cp_pad16_ok, !bind_ok.
  assert (Lc : zlen (chacha20_encrypt key 1 nonce pt) = zlen pt).
  { unfold zlen. rewrite chacha20_encrypt_length by assumption. reflexivity. }
  assert (Hlt : zlen pt < 18446744073709551616).
  { pose proof (Z.div_mod (zlen pt + 63) 64 ltac:(lia)). pose proof (Z.mod_pos_bound (zlen pt + 63) 64 ltac:(lia)). lia. }
  rewrite pack_le64_ok by lia. rewrite bind_ok.
  rewrite pack_le64_ok by lia. rewrite bind_ok.
  cbv zeta.
  rewrite (cp_tag_ok key nonce aad (chacha20_encrypt key 1 nonce pt)
             (fun tag => Ok (chacha20_encrypt key 1 nonce pt ++ tag))) by (assumption || lia).
  reflexivity.
Qed.

Lemma cha_decrypt_ok key nonce counter ct :
  zlen key = 32 -> all_bytes key = true -> zlen nonce = 12 -> all_bytes nonce = true ->
  0 <= counter -> counter + (zlen ct + 63) / 64 <= 4294967296 -> all_bytes ct = true ->
  cha_decrypt (mkChaCha (words_le key) (words_le nonce) counter 20) ct = Ok (chacha20_encrypt key counter nonce ct).
Proof.
  intros. unfold cha_decrypt. cbn [cha_key cha_nonce cha_counter cha_rounds].
  rewrite cha_encrypt_ok by assumption. reflexivity.
Qed.

Lemma cp_open_ok key nonce c aad :
  key_ok key nonce -> all_bytes c = true -> len_ok c -> zlen aad < 18446744073709551616 ->
  cp_open (mkChaChaPoly key) nonce c aad = Ok (aead_open key nonce c aad).
Proof.
  intros HK Bc Lc La. pose proof HK as (Hk & Bk & Hn & Bn). unfold len_ok in Lc.
  pose proof (zlen_nonneg c) as Hc. pose proof (zlen_nonneg aad) as Ha.
  unfold cp_open, aead_open. cbn [cp_key]. rewrite Hn. change (negb (12 =? 12)) with false. cbv iota.
  destruct (zlen c <? 16) eqn:E16; [reflexivity|].
  cbv zeta.
  pose proof (py_slice_last c 16 ltac:(lia)) as S1. pose proof (py_slice_butlast c 16 ltac:(lia)) as S2.
  cbn [Z.opp] in S1, S2. change (Z.to_nat 16) with 16%nat in S1, S2. rewrite S1, S2. clear S1 S2.
  set (ct := firstn (length c - 16) c). set (tg := skipn (length c - 16) c).
  assert (Lct : zlen ct = zlen c - 16) by (unfold ct, zlen in *; rewrite firstn_length; lia).
  assert (Bct : all_bytes ct = true) by (apply all_bytes_firstn; exact Bc).
  assert (Hdiv : (zlen ct + 63) / 64 <= (zlen c + 63) / 64) by (apply Z.div_le_mono; lia).
  assert (Hlt : zlen c < 18446744073709551616).
  { pose proof (Z.div_mod (zlen c + 63) 64 ltac:(lia)). pose proof (Z.mod_pos_bound (zlen c + 63) 64 ltac:(lia)). lia. }
  rewrite cp_poly1305_key_gen_ok by exact HK. rewrite bind_ok.
  rewrite !cp_pad16_ok, !bind_ok.
  rewrite pack_le64_ok by lia. rewrite bind_ok.
  rewrite pack_le64_ok by lia. rewrite bind_ok.
  rewrite (cp_tag_ok key nonce aad ct
             (fun tag => if negb (list_eqb tag tg) then Ok None else
                         t9_ <- cha_init key nonce 1 20 ;; t10_ <- cha_decrypt t9_ ct ;; Ok (Some t10_)))
    by (assumption || lia).
  destruct (list_eqb (aead_tag key nonce aad ct) tg); cbn [negb]; [|reflexivity].
  rewrite cha_init_ok by assumption. rewrite bind_ok.
  rewrite cha_decrypt_ok by (try assumption; lia). reflexivity.
Qed.

(* ---- open accepts exactly what seal produces (spec level) ---------------------- *)
Lemma aead_tag_length key nonce aad ct : length (aead_tag key nonce aad ct) = 16%nat.
Proof. unfold aead_tag, poly1305. apply le_bytes_length. Qed.

Lemma aead_open_iff_seal_spec key nonce c aad p :
  key_ok key nonce ->
  (aead_open key nonce c aad = Some p <-> c = aead_seal key nonce p aad).
Proof.
  intros (Hk & Bk & Hn & Bn). unfold aead_open, aead_seal. split.
  - destruct (zlen c <? 16) eqn:E; [discriminate|].
    set (ct := firstn (length c - 16) c). set (tg := skipn (length c - 16) c).
    destruct (list_eqb (aead_tag key nonce aad ct) tg) eqn:Et; [|discriminate].
    apply list_eqb_spec in Et. intros H. injection H as <-.
    rewrite chacha20_decrypt_encrypt by assumption.
    rewrite Et. unfold ct, tg. symmetry. apply firstn_skipn.
  - intros ->. set (ct := chacha20_encrypt key 1 nonce p).
    assert (Lc : length (ct ++ aead_tag key nonce aad ct) = (length ct + 16)%nat)
      by (rewrite app_length, aead_tag_length; reflexivity).
    destruct (zlen (ct ++ aead_tag key nonce aad ct) <? 16) eqn:E; [unfold zlen in E; lia|].
    rewrite Lc. replace (length ct + 16 - 16)%nat with (length ct) by lia.
    rewrite firstn_app, Nat.sub_diag, firstn_all, firstn_O, app_nil_r.
    rewrite skipn_app, Nat.sub_diag, skipn_all, skipn_O. cbn [app].
    replace (list_eqb (aead_tag key nonce aad ct) (aead_tag key nonce aad ct)) with true
      by (symmetry; apply list_eqb_spec; reflexivity).
    unfold ct. rewrite chacha20_decrypt_encrypt by assumption. reflexivity.
Qed.

Lemma aead_seal_length key nonce p aad : key_ok key nonce ->
  length (aead_seal key nonce p aad) = (length p + 16)%nat.
Proof.
  intros (Hk & Bk & Hn & Bn). unfold aead_seal. rewrite app_length, aead_tag_length.
  rewrite chacha20_encrypt_length by assumption. reflexivity.
Qed.

(* ---- the same statement about the generated code -------------------------------- *)
Lemma xor_bytes_all_bytes a b : all_bytes a = true -> all_bytes b = true -> all_bytes (xor_bytes a b) = true.
Proof. intros Ha Hb. rewrite <- xor_swap. apply xor_all_bytes; assumption. Qed.

Lemma keystream_bytes key counter nonce q : all_bytes (chacha20_keystream key counter nonce q) = true.
Proof.
  unfold chacha20_keystream. induction (zrange 0 q) as [|j l IH]; [reflexivity|].
  cbn [flat_map]. rewrite all_bytes_app, IH. unfold chacha20_block. rewrite flat_map_le4_bytes. reflexivity.
Qed.

Lemma aead_seal_bytes key nonce p aad : all_bytes p = true -> all_bytes (aead_seal key nonce p aad) = true.
Proof.
  intros Bp. unfold aead_seal. rewrite all_bytes_app. apply andb_true_iff. split.
  - unfold chacha20_encrypt. apply xor_bytes_all_bytes; [exact Bp|apply keystream_bytes].
  - unfold aead_tag, poly1305. apply le_bytes_all_bytes.
Qed.

Lemma len_ok_mono a b : zlen a <= zlen b -> len_ok b -> len_ok a.
Proof.
  unfold len_ok. intros H Hb. assert ((zlen a + 63) / 64 <= (zlen b + 63) / 64) by (apply Z.div_le_mono; lia). lia.
Qed.

Lemma cp_open_iff_seal key nonce c aad p :
  key_ok key nonce -> all_bytes c = true -> len_ok c -> all_bytes p = true -> len_ok p ->
  zlen aad < 18446744073709551616 ->
  (cp_open (mkChaChaPoly key) nonce c aad = Ok (Some p) <-> cp_seal (mkChaChaPoly key) nonce p aad = Ok c).
Proof.
  intros HK Bc Lc Bp Lp La.
  rewrite cp_open_ok by assumption. rewrite cp_seal_ok by assumption.
  split.
  - intros H. injection H as H. apply (aead_open_iff_seal_spec key nonce c aad p HK) in H.
    f_equal. symmetry. exact H.
  - intros H. injection H as <-.
    f_equal. apply (aead_open_iff_seal_spec key nonce _ aad p HK). reflexivity.
Qed.

Lemma hyps_example : key_ok (repeat 7 32) (repeat 9 12) /\ len_ok (repeat 1 100) /\ st_ok (repeat 5 16).
Proof.
  split; [|split].
  - unfold key_ok. split; [reflexivity|]. split; [reflexivity|]. split; reflexivity.
  - unfold len_ok. change (zlen (repeat 1 100)) with 100. change ((100 + 63) / 64) with 2. lia.
  - split; [reflexivity|]. apply Forall_forall. intros x Hx. apply repeat_spec in Hx. subst x. unfold u32. lia.
Qed.
