(* C12: every body of an honest MAC-then-encrypt sender is well formed; the caller's strip is the MAC'd fragment. *)
From Coq Require Import ZArith List Bool Lia.
From TV Require Import Base.Prelude Spec.CbcCheck Proofs.C12_Lemmas.
Import ListNotations.
Open Scope Z_scope.

Lemma zlen_app {A} (a b : list A) : zlen (a ++ b) = zlen a + zlen b.
Proof. unfold zlen. rewrite app_length. lia. Qed.

Lemma zlen_nonneg {A} (a : list A) : 0 <= zlen a.
Proof. unfold zlen. lia. Qed.

Lemma nthZ_app_l (a b : list Z) i : 0 <= i < zlen a -> nthZ (a ++ b) i = nthZ a i.
Proof. intros H. unfold nthZ, zlen in *. apply app_nth1. lia. Qed.

Lemma nthZ_app_r (a b : list Z) i : zlen a <= i -> nthZ (a ++ b) i = nthZ b (i - zlen a).
Proof.
  intros H. unfold nthZ, zlen in *. rewrite app_nth2 by lia. f_equal. lia.
Qed.

Lemma firstn_app_exact {A} (a b : list A) : firstn (length a) (a ++ b) = a.
Proof. rewrite firstn_app, Nat.sub_diag, firstn_all. cbn [firstn]. apply app_nil_r. Qed.

Lemma skipn_app_exact {A} (a b : list A) : skipn (length a) (a ++ b) = b.
Proof. rewrite skipn_app, Nat.sub_diag, skipn_all. reflexivity. Qed.

(* every body an honest MAC-then-encrypt sender can produce is well formed *)
Lemma sender_accepted_lem (ver : Z * Z) (bs : Z) (mac : HMac) (seq : list Z) (ty : Z)
      (payload padbytes : list Z) (p : Z) :
  let tag := mac_fn mac (mac_acc mac ++ mac_header seq ty ver (zlen payload) ++ payload) in
  zlen tag = mac_ds mac ->
  zlen padbytes = p ->
  (if is_ssl3 ver then p <=? bs = true else forallb (fun x => x =? p) padbytes = true) ->
  well_formed ver bs mac seq ty (payload ++ tag ++ padbytes ++ [p]) = true.
Proof.
  intros tag Htag Hpad Hcontent.
  pose proof (zlen_nonneg payload) as Hp0. pose proof (zlen_nonneg padbytes) as Hpb0.
  pose proof (zlen_nonneg tag) as Ht0.
  set (data := payload ++ tag ++ padbytes ++ [p]).
  assert (Hn : zlen data = zlen payload + mac_ds mac + p + 1).
  { unfold data. rewrite !zlen_app. unfold zlen at 4. cbn [length]. lia. }
  assert (Hlast : nthZ data (zlen data - 1) = p).
  { rewrite Hn. unfold data.
    replace (payload ++ tag ++ padbytes ++ [p]) with ((payload ++ tag ++ padbytes) ++ [p])
      by (rewrite <- !app_assoc; reflexivity).
    rewrite nthZ_app_r by (rewrite !zlen_app; lia).
    rewrite !zlen_app.
    replace (zlen payload + mac_ds mac + p + 1 - 1 - (zlen payload + (zlen tag + zlen padbytes))) with 0 by lia.
    reflexivity. }
  unfold well_formed. cbv zeta. fold data. rewrite Hlast.
  destruct (zlen data <? mac_ds mac + 1) eqn:E1; [apply Z.ltb_lt in E1; lia|].
  destruct (zlen data <? p + 1 + mac_ds mac) eqn:E2; [apply Z.ltb_lt in E2; lia|].
  replace (zlen data - p - 1 - mac_ds mac) with (zlen payload) by lia.
  apply andb_true_iff. split.
  - destruct (is_ssl3 ver); [exact Hcontent|].
    apply forallb_forall. intros i Hi. apply in_zrange in Hi.
    rewrite forallb_forall in Hcontent.
    unfold data. rewrite nthZ_app_r by lia. rewrite nthZ_app_r by lia.
    rewrite nthZ_app_l by lia.
    apply Hcontent. unfold nthZ. apply nth_In. unfold zlen in *. lia.
  - apply list_eqb_spec.
    unfold zlen at 1 3. rewrite !Nat2Z.id.
    unfold data. rewrite skipn_app_exact, firstn_app_exact.
    replace (Z.to_nat (mac_ds mac)) with (length tag) by (unfold zlen in Htag; lia).
    rewrite firstn_app_exact. reflexivity.
Qed.

(* after an accepted check the caller's data[:-(p+1+ds)] is exactly the MAC'd fragment *)
Lemma strip_correct_lem (ver : Z * Z) (bs : Z) (mac : HMac) (seq : list Z) (ty : Z) (data : list Z) :
  0 <= mac_ds mac ->
  all_bytes data = true ->
  well_formed ver bs mac seq ty data = true ->
  let p := nthZ data (zlen data - 1) in
  py_slice data None (Some (- (p + 1 + mac_ds mac))) =
    firstn (Z.to_nat (zlen data - p - 1 - mac_ds mac)) data.
Proof.
  intros Hds Hb Hw p. unfold well_formed in Hw. cbv zeta in Hw. fold p in Hw.
  destruct (zlen data <? mac_ds mac + 1) eqn:E1; [discriminate|].
  destruct (zlen data <? p + 1 + mac_ds mac) eqn:E2; [discriminate|].
  apply Z.ltb_ge in E1, E2.
  assert (Hp : byte p) by (apply all_bytes_nth; [exact Hb|lia]). unfold byte in Hp.
  unfold py_slice, clamp_bound.
  destruct (- (p + 1 + mac_ds mac) <? 0) eqn:E3; [|apply Z.ltb_ge in E3; lia].
  destruct (- (p + 1 + mac_ds mac) + zlen data <? 0) eqn:E4; [apply Z.ltb_lt in E4; lia|].
  destruct (zlen data <? - (p + 1 + mac_ds mac) + zlen data) eqn:E5; [apply Z.ltb_lt in E5; lia|].
  destruct (- (p + 1 + mac_ds mac) + zlen data <=? 0) eqn:E6.
  - apply Z.leb_le in E6. replace (zlen data - p - 1 - mac_ds mac) with 0 by lia. reflexivity.
  - cbn [Z.to_nat skipn]. f_equal. f_equal. lia.
Qed.
