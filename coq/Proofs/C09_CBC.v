(* AES-CBC: the generated Python_AES.encrypt/decrypt (Gen/C09_AesModes.v) equal SP 800-38A CBC (Spec/C09_Modes.v)
   for any block-cipher oracle returning 16-byte blocks; the chaining value left in the object is the last ciphertext block. *)
From Coq Require Import ZArith List Bool Lia String.
From TV Require Import Base.Prelude Base.C09_Lib Base.C09_Oracle Gen.C09_AesModes
  Spec.C09_Poly1305 Spec.C09_Modes Proofs.C09_Lists Proofs.C09_KDF Proofs.C09_Modes.
Import ListNotations.
Open Scope list_scope.
Open Scope Z_scope.

(* buf[x*16 + y] = enc[y] for y in 0..15 *)
Lemma store_loop : forall (e' m' e_done pre suf : list Z) (base : Z),
  List.length e' = List.length m' -> all_bytes e' = true -> base = zlen pre ->
  foldM (fun buf y => t8_ <- py_index (e_done ++ e') y ;; buf <- py_store_b buf (Z.add base y) t8_ ;; Ok buf)
        (zrange (zlen e_done) (zlen e_done + zlen e')) (pre ++ e_done ++ m' ++ suf)
  = Ok (pre ++ e_done ++ e' ++ suf).
Proof.
  induction e' as [|x e' IH]; intros m' e_done pre suf base Hl Hb Hbase.
  - destruct m'; [|discriminate]. change (zlen (@nil Z)) with 0. rewrite Z.add_0_r, zrange_empty by lia. reflexivity.
  - destruct m' as [|y m']; [discriminate|]. injection Hl as Hl.
    unfold all_bytes in Hb. cbn [forallb] in Hb. apply andb_true_iff in Hb. destruct Hb as [Bx Hb].
    rewrite zrange_cons by (rewrite zlen_cons; pose proof (zlen_nonneg e'); lia).
    cbn [foldM]. rewrite py_index_app, bind_ok.
    replace (pre ++ e_done ++ (y :: m') ++ suf) with ((pre ++ e_done) ++ y :: (m' ++ suf)) by (rewrite <- !app_assoc; reflexivity).
    replace (base + zlen e_done) with (zlen (pre ++ e_done)) by (subst base; rewrite zlen_app; reflexivity).
    rewrite py_store_b_app by exact Bx. rewrite !bind_ok.
    replace ((pre ++ e_done) ++ x :: m' ++ suf) with (pre ++ (e_done ++ [x]) ++ m' ++ suf) by (rewrite <- !app_assoc; reflexivity).
    replace (e_done ++ x :: e') with ((e_done ++ [x]) ++ e') by (rewrite <- app_assoc; reflexivity).
    replace (zlen e_done + 1) with (zlen (e_done ++ [x])) by zl.
    replace (zlen e_done + zlen (x :: e')) with (zlen (e_done ++ [x]) + zlen e') by zl.
    rewrite (IH m' (e_done ++ [x]) pre suf base Hl Hb Hbase). rewrite <- !app_assoc. reflexivity.
Qed.

Section CBCcode.
  Variable O : BlockOracle.
  Variable key : list Z.
  Let E := bo_enc O key.
  Hypothesis Elen : forall b, List.length b = 16%nat -> List.length (E b) = 16%nat /\ all_bytes (E b) = true.

  Definition blk_ok (b : list Z) : Prop := List.length b = 16%nat /\ all_bytes b = true.

  Let body := (fun '(plaintextBytes, chainBytes) x =>
    let blockBytes := (py_slice plaintextBytes (Some (Z.mul x 16)) (Some (Z.add (Z.mul x 16) 16))) in
    blockBytes <- foldM (fun blockBytes y =>
      t5_ <- py_index blockBytes y ;;
      t6_ <- py_index chainBytes y ;;
      blockBytes <- py_store_b blockBytes y (Z.lxor t5_ t6_) ;;
      Ok blockBytes) (zrange 0 16) blockBytes ;;
    let encryptedBytes := (bo_enc O key blockBytes) in
    plaintextBytes <- foldM (fun plaintextBytes y =>
      t8_ <- py_index encryptedBytes y ;;
      plaintextBytes <- py_store_b plaintextBytes (Z.add (Z.mul x 16) y) t8_ ;;
      Ok plaintextBytes) (zrange 0 16) plaintextBytes ;;
    let chainBytes := encryptedBytes in
    @Ok (list Z * list Z) (plaintextBytes, chainBytes)).

  Lemma xorb_len16 a b : List.length a = 16%nat -> List.length b = 16%nat -> List.length (xorb a b) = 16%nat.
  Proof. intros Ha Hb. unfold xorb. rewrite map_length, combine_length. lia. Qed.

  Lemma cbc_enc_step pre p rest chain k : zlen pre = 16 * k -> 0 <= k -> blk_ok p -> blk_ok chain ->
    body (pre ++ p ++ rest, chain) k = Ok (pre ++ E (xorb p chain) ++ rest, E (xorb p chain)).
  Proof.
    intros Hpre Hk [Lp Bp] [Lc Bc]. unfold body. cbv zeta.
    assert (Hs : py_slice (pre ++ p ++ rest) (Some (k * 16)) (Some (k * 16 + 16)) = p).
    { rewrite py_slice_nonneg by lia. replace (Z.to_nat (k * 16)) with (List.length pre) by (unfold zlen in Hpre; lia).
      rewrite skipn_app, Nat.sub_diag, skipn_all. cbn [app skipn].
      replace (Z.to_nat (k * 16 + 16 - k * 16)) with (List.length p) by lia.
      rewrite firstn_app, Nat.sub_diag, firstn_all, firstn_O, app_nil_r. reflexivity. }
    rewrite Hs.
    pose proof (xor_loop p chain [] [] ltac:(lia) eq_refl Bp Bc) as X.
    cbn [app] in X. change (zlen (@nil Z)) with 0 in X. rewrite Z.add_0_l in X.
    replace (zlen p) with 16 in X by (unfold zlen; lia).
    rewrite X, bind_ok. change (Spec.C09_KDF.xor_list p chain) with (xorb p chain).
    destruct (Elen (xorb p chain) (xorb_len16 p chain Lp Lc)) as [Le Be]. fold E.
    pose proof (store_loop (E (xorb p chain)) p [] pre rest (k * 16) ltac:(lia) Be ltac:(lia)) as SL.
    cbn [app] in SL. change (zlen (@nil Z)) with 0 in SL. rewrite Z.add_0_l in SL.
    replace (zlen (E (xorb p chain))) with 16 in SL by (unfold zlen; lia).
    rewrite SL, bind_ok. reflexivity.
  Qed.

  Lemma cbc_enc_loop : forall blocks pre chain k, Forall blk_ok blocks -> blk_ok chain -> zlen pre = 16 * k -> 0 <= k ->
    foldM body (zrange k (k + zlen blocks)) (pre ++ List.concat blocks, chain) =
    let '(iv', out) := cbc_enc_blocks E chain blocks in Ok (pre ++ out, iv').
  Proof.
    induction blocks as [|p blocks IH]; intros pre chain k Hb Hc Hpre Hk.
    - change (zlen (@nil (list Z))) with 0. rewrite Z.add_0_r, zrange_empty by lia. reflexivity.
    - inversion Hb as [|? ? Hp Hb']; subst.
      rewrite zrange_cons by (rewrite zlen_cons; pose proof (zlen_nonneg blocks); lia).
      cbn [foldM List.concat cbc_enc_blocks]. rewrite cbc_enc_step by assumption. rewrite bind_ok.
      destruct Hp as [Lp Bp]. destruct Hc as [Lc Bc].
      destruct (Elen (xorb p chain) (xorb_len16 p chain Lp Lc)) as [Le Be].
      replace (pre ++ E (xorb p chain) ++ List.concat blocks) with ((pre ++ E (xorb p chain)) ++ List.concat blocks)
        by (rewrite <- app_assoc; reflexivity).
      replace (k + zlen (p :: blocks)) with (k + 1 + zlen blocks) by (rewrite zlen_cons; lia).
      rewrite (IH (pre ++ E (xorb p chain)) (E (xorb p chain)) (k + 1) Hb' (conj Le Be)) by (try lia; rewrite zlen_app; unfold zlen in *; lia).
      destruct (cbc_enc_blocks E (E (xorb p chain)) blocks) as [iv' out]. rewrite <- app_assoc. reflexivity.
  Qed.
End CBCcode.

Lemma chunks_fuel_concat (n : nat) : (0 < n)%nat -> forall fuel (l : list Z), (List.length l <= fuel)%nat ->
  List.concat (chunks_fuel fuel n l) = l.
Proof.
  intros Hn. induction fuel as [|fuel IH]; intros l Hl.
  - destruct l; [reflexivity|cbn [List.length] in Hl; lia].
  - destruct l as [|x l']; [reflexivity|]. cbn [chunks_fuel List.concat].
    rewrite IH by (rewrite skipn_length; cbn [List.length] in *; lia). apply firstn_skipn.
Qed.

Lemma chunks_concat (n : nat) (l : list Z) : (0 < n)%nat -> List.concat (chunks n l) = l.
Proof. intros Hn. unfold chunks. apply chunks_fuel_concat; [exact Hn|lia]. Qed.

Lemma chunks_exact (l : list Z) q : zlen l = 16 * q -> all_bytes l = true ->
  zlen (chunks 16 l) = q /\ Forall blk_ok (chunks 16 l).
Proof.
  intros Hl Hb. pose proof (zlen_nonneg l) as Hz.
  assert (Hq : (zlen l + Z.of_nat 16 - 1) / Z.of_nat 16 = q).
  { change (Z.of_nat 16) with 16. symmetry. apply Z.div_unique with (r := 15); lia. }
  split.
  - rewrite chunks_length by lia. exact Hq.
  - rewrite <- (chunks_index 16 l) by lia. rewrite Hq. apply Forall_forall. intros c Hc.
    apply in_map_iff in Hc. destruct Hc as [i [<- Hi]]. apply in_zrange in Hi. change (Z.of_nat 16) with 16.
    split.
    + rewrite firstn_length, skipn_length. unfold zlen in *. lia.
    + apply all_bytes_firstn, all_bytes_skipn. exact Hb.
Qed.

Lemma cbc_encrypt_ok O key iv pt :
  (forall b, List.length b = 16%nat -> List.length (bo_enc O key b) = 16%nat /\ all_bytes (bo_enc O key b) = true) ->
  blk_ok iv -> all_bytes pt = true -> zlen pt mod 16 = 0 ->
  cbc_encrypt O (mkAESCBC key iv) pt =
  let '(iv', ct) := cbc_encrypt_spec (bo_enc O key) 16 iv pt in Ok (mkAESCBC key iv', ct).
Proof.
  intros HE Hiv Bp Hm. unfold cbc_encrypt, aes_base_encrypt. cbn [cbc_rijndael cbc_IV].
  rewrite Hm. cbn [Z.eqb]. rewrite bind_ok.
  pose proof (Z.div_mod (zlen pt) 16 ltac:(lia)) as Hd. rewrite Hm, Z.add_0_r in Hd.
  destruct (chunks_exact pt (zlen pt / 16) Hd Bp) as [Lq Fq].
  pose proof (cbc_enc_loop O key HE (chunks 16 pt) [] iv 0 Fq Hiv eq_refl ltac:(lia)) as L.
  cbn [app] in L. rewrite chunks_concat in L by lia. rewrite Lq, Z.add_0_l in L.
  unfold cbc_encrypt_spec.
  match goal with |- context [foldM ?f _ _] => match type of L with foldM ?g _ _ = _ => change f with g end end.
  rewrite L. destruct (cbc_enc_blocks (bo_enc O key) iv (chunks 16 pt)) as [iv' out]. reflexivity.
Qed.

(* decrypt: dec[y] ^= chain[y]; buf[base + y] = dec[y], interleaved *)
Lemma dec_loop : forall (d' c' m' ddone cdone pre bdone suf : list Z) (base : Z),
  List.length d' = List.length c' -> List.length d' = List.length m' ->
  List.length ddone = List.length cdone -> List.length ddone = List.length bdone ->
  all_bytes d' = true -> all_bytes c' = true -> base = zlen pre ->
  foldM (fun '(decryptedBytes, ciphertextBytes) y =>
      t5_ <- py_index decryptedBytes y ;;
      t6_ <- py_index (cdone ++ c') y ;;
      decryptedBytes <- py_store_b decryptedBytes y (Z.lxor t5_ t6_) ;;
      t7_ <- py_index decryptedBytes y ;;
      ciphertextBytes <- py_store_b ciphertextBytes (Z.add base y) t7_ ;;
      Ok (decryptedBytes, ciphertextBytes))
    (zrange (zlen ddone) (zlen ddone + zlen d')) (ddone ++ d', pre ++ bdone ++ m' ++ suf)
  = Ok (ddone ++ xorb d' c', pre ++ bdone ++ xorb d' c' ++ suf).
Proof.
  induction d' as [|x d' IH]; intros c' m' ddone cdone pre bdone suf base L1 L2 L3 L4 Bd Bc Hbase.
  - destruct c'; [|discriminate]. destruct m'; [|discriminate].
    change (zlen (@nil Z)) with 0. rewrite Z.add_0_r, zrange_empty by lia. reflexivity.
  - destruct c' as [|y c']; [discriminate|]. destruct m' as [|z m']; [discriminate|].
    injection L1 as L1. injection L2 as L2.
    unfold all_bytes in Bd, Bc. cbn [forallb] in Bd, Bc. apply andb_true_iff in Bd. apply andb_true_iff in Bc.
    destruct Bd as [Bx Bd], Bc as [By Bc].
    rewrite zrange_cons by (rewrite zlen_cons; pose proof (zlen_nonneg d'); lia).
    cbn [foldM]. rewrite py_index_app, bind_ok.
    replace (zlen ddone) with (zlen cdone) at 1 by (unfold zlen; lia). rewrite py_index_app, bind_ok.
    rewrite py_store_b_app by (apply lxor_is_byte; assumption). rewrite bind_ok.
    rewrite py_index_app, bind_ok.
    replace (pre ++ bdone ++ (z :: m') ++ suf) with ((pre ++ bdone) ++ z :: (m' ++ suf)) by (rewrite <- !app_assoc; reflexivity).
    replace (base + zlen ddone) with (zlen (pre ++ bdone)) by (subst base; rewrite zlen_app; unfold zlen; lia).
    rewrite py_store_b_app by (apply lxor_is_byte; assumption). rewrite !bind_ok.
    set (v := Z.lxor x y).
    replace (ddone ++ v :: d') with ((ddone ++ [v]) ++ d') by (rewrite <- app_assoc; reflexivity).
    replace ((pre ++ bdone) ++ v :: m' ++ suf) with (pre ++ (bdone ++ [v]) ++ m' ++ suf) by (rewrite <- !app_assoc; reflexivity).
    replace (cdone ++ y :: c') with ((cdone ++ [y]) ++ c') by (rewrite <- app_assoc; reflexivity).
    replace (zlen ddone + 1) with (zlen (ddone ++ [v])) by zl.
    replace (zlen ddone + zlen (x :: d')) with (zlen (ddone ++ [v]) + zlen d') by zl.
    rewrite (IH c' m' (ddone ++ [v]) (cdone ++ [y]) pre (bdone ++ [v]) suf base); try assumption;
      try (rewrite !app_length; cbn [List.length]; lia).
    unfold xorb. cbn [combine map fst snd]. fold v. rewrite <- !app_assoc. reflexivity.
Qed.

Section CBCdec.
  Variable O : BlockOracle.
  Variable key : list Z.
  Let D := bo_dec O key.
  Hypothesis Dlen : forall b, List.length b = 16%nat -> List.length (D b) = 16%nat /\ all_bytes (D b) = true.

  Let body := (fun '(ciphertextBytes, chainBytes) x =>
    let blockBytes := (py_slice ciphertextBytes (Some (Z.mul x 16)) (Some (Z.add (Z.mul x 16) 16))) in
    let decryptedBytes := (bo_dec O key blockBytes) in
    '(decryptedBytes, ciphertextBytes) <- foldM (fun '(decryptedBytes, ciphertextBytes) y =>
      t5_ <- py_index decryptedBytes y ;;
      t6_ <- py_index chainBytes y ;;
      decryptedBytes <- py_store_b decryptedBytes y (Z.lxor t5_ t6_) ;;
      t7_ <- py_index decryptedBytes y ;;
      ciphertextBytes <- py_store_b ciphertextBytes (Z.add (Z.mul x 16) y) t7_ ;;
      Ok (decryptedBytes, ciphertextBytes)) (zrange 0 16) (decryptedBytes, ciphertextBytes) ;;
    let chainBytes := blockBytes in
    @Ok (list Z * list Z) (ciphertextBytes, chainBytes)).

  Lemma cbc_dec_step pre c rest chain k : zlen pre = 16 * k -> 0 <= k -> blk_ok c -> blk_ok chain ->
    body (pre ++ c ++ rest, chain) k = Ok (pre ++ xorb (D c) chain ++ rest, c).
  Proof.
    intros Hpre Hk [Lc Bc] [Lch Bch]. unfold body. cbv zeta.
    assert (Hs : py_slice (pre ++ c ++ rest) (Some (k * 16)) (Some (k * 16 + 16)) = c).
    { rewrite py_slice_nonneg by lia. replace (Z.to_nat (k * 16)) with (List.length pre) by (unfold zlen in Hpre; lia).
      rewrite skipn_app, Nat.sub_diag, skipn_all. cbn [app skipn].
      replace (Z.to_nat (k * 16 + 16 - k * 16)) with (List.length c) by lia.
      rewrite firstn_app, Nat.sub_diag, firstn_all, firstn_O, app_nil_r. reflexivity. }
    rewrite Hs. fold D. destruct (Dlen c Lc) as [Ld Bd].
    pose proof (dec_loop (D c) chain c [] [] pre [] rest (k * 16) ltac:(lia) ltac:(lia) eq_refl eq_refl Bd Bch ltac:(lia)) as DL.
    cbn [app] in DL. change (zlen (@nil Z)) with 0 in DL. rewrite Z.add_0_l in DL.
    replace (zlen (D c)) with 16 in DL by (unfold zlen; lia).
    rewrite DL, bind_ok. reflexivity.
  Qed.

  Lemma cbc_dec_loop : forall blocks pre chain k, Forall blk_ok blocks -> blk_ok chain -> zlen pre = 16 * k -> 0 <= k ->
    foldM body (zrange k (k + zlen blocks)) (pre ++ List.concat blocks, chain) =
    let '(iv', out) := cbc_dec_blocks D chain blocks in Ok (pre ++ out, iv').
  Proof.
    induction blocks as [|c blocks IH]; intros pre chain k Hb Hc Hpre Hk.
    - change (zlen (@nil (list Z))) with 0. rewrite Z.add_0_r, zrange_empty by lia. reflexivity.
    - inversion Hb as [|? ? Hp Hb']; subst.
      rewrite zrange_cons by (rewrite zlen_cons; pose proof (zlen_nonneg blocks); lia).
      cbn [foldM List.concat cbc_dec_blocks]. rewrite cbc_dec_step by assumption. rewrite bind_ok.
      destruct Hp as [Lp Bp]. destruct Hc as [Lc Bc]. destruct (Dlen c Lp) as [Ld Bd].
      assert (Lx : List.length (xorb (D c) chain) = 16%nat) by (unfold xorb; rewrite map_length, combine_length; lia).
      replace (pre ++ xorb (D c) chain ++ List.concat blocks) with ((pre ++ xorb (D c) chain) ++ List.concat blocks)
        by (rewrite <- app_assoc; reflexivity).
      replace (k + zlen (c :: blocks)) with (k + 1 + zlen blocks) by (rewrite zlen_cons; lia).
      rewrite (IH (pre ++ xorb (D c) chain) c (k + 1) Hb' (conj Lp Bp)) by (try lia; rewrite zlen_app; unfold zlen in *; lia).
      destruct (cbc_dec_blocks D c blocks) as [iv' out]. rewrite <- app_assoc. reflexivity.
  Qed.
End CBCdec.

Lemma cbc_decrypt_ok O key iv ct :
  (forall b, List.length b = 16%nat -> List.length (bo_dec O key b) = 16%nat /\ all_bytes (bo_dec O key b) = true) ->
  blk_ok iv -> all_bytes ct = true -> zlen ct mod 16 = 0 ->
  cbc_decrypt O (mkAESCBC key iv) ct =
  let '(iv', pt) := cbc_decrypt_spec (bo_dec O key) 16 iv ct in Ok (mkAESCBC key iv', pt).
Proof.
  intros HD Hiv Bc Hm. unfold cbc_decrypt, aes_base_decrypt. cbn [cbc_rijndael cbc_IV].
  rewrite Hm. cbn [Z.eqb]. rewrite bind_ok.
  pose proof (Z.div_mod (zlen ct) 16 ltac:(lia)) as Hd. rewrite Hm, Z.add_0_r in Hd.
  destruct (chunks_exact ct (zlen ct / 16) Hd Bc) as [Lq Fq].
  pose proof (cbc_dec_loop O key HD (chunks 16 ct) [] iv 0 Fq Hiv eq_refl ltac:(lia)) as L.
  cbn [app] in L. rewrite chunks_concat in L by lia. rewrite Lq, Z.add_0_l in L.
  unfold cbc_decrypt_spec.
  match goal with |- context [foldM ?f _ _] => match type of L with foldM ?g _ _ = _ => change f with g end end.
  rewrite L. destruct (cbc_dec_blocks (bo_dec O key) iv (chunks 16 ct)) as [iv' out]. reflexivity.
Qed.

Lemma cbc_bad_length O st data : zlen data mod 16 <> 0 ->
  cbc_encrypt O st data = Err AssertionError /\ cbc_decrypt O st data = Err AssertionError.
Proof.
  intros H. unfold cbc_encrypt, cbc_decrypt, aes_base_encrypt, aes_base_decrypt.
  destruct (zlen data mod 16 =? 0) eqn:E; [apply Z.eqb_eq in E; contradiction|]. split; reflexivity.
Qed.

Lemma cbc_both_ok O key iv data :
  (forall b, List.length b = 16%nat -> List.length (bo_enc O key b) = 16%nat /\ all_bytes (bo_enc O key b) = true) ->
  (forall b, List.length b = 16%nat -> List.length (bo_dec O key b) = 16%nat /\ all_bytes (bo_dec O key b) = true) ->
  blk_ok iv -> all_bytes data = true -> zlen data mod 16 = 0 ->
  cbc_encrypt O (mkAESCBC key iv) data =
    (let '(iv', ct) := cbc_encrypt_spec (bo_enc O key) 16 iv data in Ok (mkAESCBC key iv', ct)) /\
  cbc_decrypt O (mkAESCBC key iv) data =
    (let '(iv', pt) := cbc_decrypt_spec (bo_dec O key) 16 iv data in Ok (mkAESCBC key iv', pt)).
Proof. intros HE HD Hiv Hb Hm. split; [apply cbc_encrypt_ok|apply cbc_decrypt_ok]; assumption. Qed.
