(* C19 -- what a successful validate() establishes (supported-only output) *)
From Coq Require Import ZArith List Bool String Lia.
From TV Require Import Base.Prelude Model.C19_Settings Spec.C19_Domain Proofs.C19_Frame Proofs.C19_Pure Proofs.C19_Idem.
Import ListNotations.
Open Scope Z_scope.

Definition pmac (c : scalars) : val -> bool := if ver_lt (maxVersion c) (3, 3) then keep_old_mac else (fun _ => true).
Definition pcipher (I : install) : val -> bool := if negb (i_tdes I) then not_3des else (fun _ => true).

Lemma forallb_filter_weak {A} (p q : A -> bool) l : forallb p l = true -> forallb p (filter q l) = true.
Proof.
  induction l as [|x xs IH]; cbn [forallb filter]; auto. intros H. apply andb_true_iff in H. destruct H as [H1 H2].
  destruct (q x); cbn [forallb]; [rewrite H1|]; auto.
Qed.

Lemma forallb_filter_both {A} (p q : A -> bool) l : forallb p l = true -> forallb (fun x => p x && q x) (filter q l) = true.
Proof.
  induction l as [|x xs IH]; cbn [forallb filter]; auto. intros H. apply andb_true_iff in H. destruct H as [H1 H2].
  destruct (q x) eqn:E; cbn [forallb]; [rewrite H1, E|]; auto.
Qed.

Lemma forallb_filter_self {A} (q : A -> bool) l : forallb q (filter q l) = true.
Proof. induction l as [|x xs IH]; cbn [filter forallb]; auto. destruct (q x) eqn:E; cbn [forallb]; [rewrite E|]; auto. Qed.

Lemma filter_range_all lo hi l r : filter_range lo hi l = Ok r ->
  forallb (fun x => match x with VPair a b => in_range lo hi a b | _ => false end) r = true.
Proof.
  revert r. induction l as [|x xs IH]; intros r H.
  - injection H as <-. reflexivity.
  - destruct x; try discriminate H. cbn [filter_range] in H.
    destruct (filter_range lo hi xs) as [r'|]; [|discriminate H]. cbn [bind] in H. injection H as <-.
    specialize (IH r' eq_refl). destruct (in_range lo hi a b) eqn:E; [|exact IH].
    cbn [forallb]. rewrite E, IH. reflexivity.
Qed.

Section Facts.
Variable T : tables.
Variable I : install.
Variable c : scalars.
Variables x2 x5 x6 x7 x8 x9 x10 x11 x12 x13 x14 x15 x16 x17 x18 x19 x20 x21 : list val.
Notation W := (V x2 x5 x6 x7 x8 x9 x10 x11 x12 x13 x14 x15 x16 x17 x18 x19 x20 x21).

Definition ctail (v v1 : list (list val)) : res (list (list val)) :=
  match sanityCheckExtensions T v1 c with Err e => Err e | Ok _ =>
  let v2 := cstep_mac v v1 c in
  match cchecks_C T v2 c with Err e => Err e | Ok _ =>
  let v4 := cstep_impl I v2 in
  if isnil (nth F_cipherImplementations v4 []) then Err ValueError else
  let v5 := cstep_ciphers I v4 in
  if isnil (nth F_cipherNames v5 []) then Err ValueError else Ok v5 end end.

Lemma cvalidate_unfold v :
  cvalidate T I v c = match cchecks_A T v c with Err e => Err e | Ok _ =>
                      match cstep_versions v c with Err e => Err e | Ok v1 => ctail v v1 end end.
Proof. reflexivity. Qed.

Lemma mac_W x0 x1 x3 x4 y4 : cstep_mac (W x0 x1 x3 x4) (W x0 x1 x3 y4) c = W x0 (filter (pmac c) x1) x3 y4.
Proof.
  unfold cstep_mac, pmac. change (nth F_macNames (W x0 x1 x3 x4) []) with x1.
  destruct (ver_lt (maxVersion c) (3, 3)); [reflexivity|]. rewrite filter_true. reflexivity.
Qed.

Lemma ciphers_W a0 a1 a3 a4 : cstep_ciphers I (W a0 a1 a3 a4) = W (filter (pcipher I) a0) a1 a3 a4.
Proof.
  unfold cstep_ciphers, pcipher. change (nth F_cipherNames (W a0 a1 a3 a4) []) with a0.
  destruct (negb (i_tdes I)); [reflexivity|]. rewrite filter_true. reflexivity.
Qed.

(* the tail as a decision: succeeds exactly when the two check blocks pass and something remains *)
Lemma ctail_spec x0 x1 x3 x4 y4 :
  ctail (W x0 x1 x3 x4) (W x0 x1 x3 y4) =
  match sanityCheckExtensions T (W x0 x1 x3 x4) c with Err e => Err e | Ok _ =>
  match cchecks_C T (W x0 x1 x3 x4) c with Err e => Err e | Ok _ =>
  if isnil (filter (impl_available I) x3) then Err ValueError else
  if isnil (filter (pcipher I) x0) then Err ValueError else
  Ok (W (filter (pcipher I) x0) (filter (pmac c) x1) (filter (impl_available I) x3) y4) end end.
Proof.
  unfold ctail. rewrite mac_W.
  rewrite (indep_ext T c x2 x5 x6 x7 x8 x9 x10 x11 x12 x13 x14 x15 x16 x17 x18 x19 x20 x21 _ _ _ _ x0 x1 x3 x4).
  destruct (sanityCheckExtensions T (W x0 x1 x3 x4) c); [|reflexivity].
  rewrite (indep_C T c x2 x5 x6 x7 x8 x9 x10 x11 x12 x13 x14 x15 x16 x17 x18 x19 x20 x21 _ _ _ _ x0 x1 x3 x4).
  destruct (cchecks_C T (W x0 x1 x3 x4) c); [|reflexivity].
  cbv zeta. rewrite (impl_V I), (nth_impl_V).
  destruct (isnil (filter (impl_available I) x3)); [reflexivity|].
  rewrite ciphers_W, nth_cn_V. reflexivity.
Qed.

Lemma versions_W x0 x1 x3 x4 :
  cstep_versions (W x0 x1 x3 x4) c =
  match filter_range (clip_lo (minVersion c)) (maxVersion c) x4 with Ok l => Ok (W x0 x1 x3 l) | Err e => Err e end.
Proof. reflexivity. Qed.

(* decomposition of a successful run *)
Lemma cvalidate_V_inv x0 x1 x3 x4 v' :
  cvalidate T I (W x0 x1 x3 x4) c = Ok v' ->
  exists y4,
    cchecks_A T (W x0 x1 x3 x4) c = Ok tt /\
    filter_range (clip_lo (minVersion c)) (maxVersion c) x4 = Ok y4 /\
    sanityCheckExtensions T (W x0 x1 x3 x4) c = Ok tt /\
    cchecks_C T (W x0 x1 x3 x4) c = Ok tt /\
    isnil (filter (impl_available I) x3) = false /\ isnil (filter (pcipher I) x0) = false /\
    v' = W (filter (pcipher I) x0) (filter (pmac c) x1) (filter (impl_available I) x3) y4.
Proof.
  rewrite cvalidate_unfold, versions_W. intros H.
  destruct (cchecks_A T (W x0 x1 x3 x4) c) as [[]|] eqn:EA; [|discriminate H].
  assert (K : forall y4, ctail (W x0 x1 x3 x4) (W x0 x1 x3 y4) = Ok v' ->
              sanityCheckExtensions T (W x0 x1 x3 x4) c = Ok tt /\
              cchecks_C T (W x0 x1 x3 x4) c = Ok tt /\
              isnil (filter (impl_available I) x3) = false /\ isnil (filter (pcipher I) x0) = false /\
              v' = W (filter (pcipher I) x0) (filter (pmac c) x1) (filter (impl_available I) x3) y4).
  { intros y4 Ht. rewrite ctail_spec in Ht.
    destruct (sanityCheckExtensions T (W x0 x1 x3 x4) c) as [[]|]; [|discriminate Ht].
    destruct (cchecks_C T (W x0 x1 x3 x4) c) as [[]|]; [|discriminate Ht].
    destruct (isnil (filter (impl_available I) x3)); [discriminate Ht|].
    destruct (isnil (filter (pcipher I) x0)); [discriminate Ht|]. injection Ht as <-. auto. }
  destruct (filter_range (clip_lo (minVersion c)) (maxVersion c) x4) as [l|e]; [|discriminate H].
  exists l. split; [reflexivity|]. split; [reflexivity|]. apply K. exact H.
Qed.
End Facts.
