(* C19 -- a successful validate() returns only supported names; and everything it accepts lies in
   the domains it enforces *)
From Coq Require Import ZArith List Bool String Lia.
From TV Require Import Base.Prelude Model.C19_Settings Spec.C19_Domain Proofs.C19_Frame Proofs.C19_Pure
                       Proofs.C19_Idem Proofs.C19_Facts.
Import ListNotations.
Open Scope Z_scope.

Lemma compression_sub l t : compression_check l t = Ok tt -> sub_tab l t = true.
Proof. unfold compression_check. destruct l; [reflexivity|]. apply all_known_sub. Qed.

Ltac split_all :=
  repeat match goal with
  | H : bind _ _ = Ok _ |- _ => let K := fresh "K" in apply bind_ok in H; destruct H as [[] [K H]]
  | H : guard _ = Ok tt |- _ => apply guard_ok in H
  | H : all_known _ _ = Ok tt |- _ => apply all_known_sub in H
  | H : true = false |- _ => discriminate H
  | H : compression_check _ _ = Ok tt |- _ => apply compression_sub in H
  end.


Lemma negb_isnil_filter_forallb {A} (p : A -> bool) l :
  negb (isnil (filter (fun x => negb (p x)) l)) = false -> forallb p l = true.
Proof.
  induction l as [|x xs IH]; cbn [filter forallb]; auto.
  destruct (p x); cbn [negb andb]; [exact IH|discriminate].
Qed.

Lemma forallb_ext {A} (p q : A -> bool) l : (forall x, p x = q x) -> forallb p l = forallb q l.
Proof. intros E. induction l as [|x xs IH]; cbn [forallb]; [reflexivity|]. rewrite E, IH. reflexivity. Qed.

Lemma keep_old_in_tab e : keep_old_mac e = true -> in_tab e ["sha"; "md5"]%string = true.
Proof.
  unfold keep_old_mac. destruct e; cbn [py_eq in_tab existsb]; try discriminate.
  intros H. rewrite orb_false_r. exact H.
Qed.

Lemma forallb_filter_imp {A} (p q : A -> bool) l : (forall x, q x = true -> p x = true) -> forallb p (filter q l) = true.
Proof.
  intros Hpq. induction l as [|x xs IH]; cbn [filter forallb]; auto.
  destruct (q x) eqn:E; cbn [forallb]; [rewrite (Hpq x E)|]; auto.
Qed.

Lemma keyshares_known (a b : val -> bool) l :
  negb (isnil (filter (fun x => negb (a x) && negb (b x)) l)) = false -> forallb (fun x => b x || a x) l = true.
Proof.
  induction l as [|x xs IH]; cbn [filter forallb]; auto.
  destruct (a x); destruct (b x); cbn [negb andb orb]; try exact IH; discriminate.
Qed.

Section Sup.
Variable T : tables.
Variable I : install.
Variable c : scalars.
Variables x2 x5 x6 x7 x8 x9 x10 x11 x12 x13 x14 x15 x16 x17 x18 x19 x20 x21 : list val.
Notation W := (V x2 x5 x6 x7 x8 x9 x10 x11 x12 x13 x14 x15 x16 x17 x18 x19 x20 x21).

Lemma supported_V x0 x1 x3 x4 v' :
  cvalidate T I (W x0 x1 x3 x4) c = Ok v' -> supported_only T I (v', c) = true.
Proof.
  intros H. destruct (cvalidate_V_inv T I c _ _ _ _ _ _ _ _ _ _ _ _ _ _ _ _ _ _ x0 x1 x3 x4 v' H)
    as [y4 [EA [Hy [EE [EC [NI [NC ->]]]]]]].
  unfold cchecks_A, sanityCheckKeySizes, sanityCheckPrimitivesNames, sanityCheckCipherSettings,
    sanityCheckDHSettings, sanityCheckECDHSettings, sanityCheckProtocolVersions_raises in EA.
  unfold sanityCheckExtensions, sanityCheckEMSExtension in EE.
  unfold cchecks_C, sanityCheckPsks, sanityCheckTicketSettings in EC.
  cbv zeta in EA, EE, EC.
  cbn [nth V F_cipherNames F_macNames F_keyExchangeNames F_cipherImplementations F_versions F_ec_point_formats
       F_ticketKeys F_certificate_compression_send F_certificate_compression_receive F_dc_sig_algs F_certificateTypes
       F_rsaSigHashes F_rsaSchemes F_dsaSigHashes F_ecdsaSigHashes F_more_sig_schemes F_virtual_hosts F_eccCurves
       F_dhGroups F_keyShares F_pskConfigs F_psk_modes] in EA, EE, EC.
  split_all.
  unfold supported_only, VG, VS.
  cbn [fst snd nth V F_cipherNames F_macNames F_keyExchangeNames F_cipherImplementations F_versions F_ec_point_formats
       F_ticketKeys F_certificate_compression_send F_certificate_compression_receive F_dc_sig_algs F_certificateTypes
       F_rsaSigHashes F_rsaSchemes F_dsaSigHashes F_ecdsaSigHashes F_more_sig_schemes F_virtual_hosts F_eccCurves
       F_dhGroups F_keyShares F_pskConfigs F_psk_modes].
  repeat (apply andb_true_iff; split); try assumption.
  all: try (apply forallb_filter_weak; assumption).
  - (* implementations *)
    match goal with H : sub_tab x3 _ = true |- _ => apply (forallb_filter_both _ (impl_available I)) in H; exact H end.
  - (* ciphers *)
    match goal with H : sub_tab x0 _ = true |- _ => unfold sub_tab in H end.
    unfold pcipher, cipher_available, not_3des. destruct (i_tdes I); cbn [negb].
    + rewrite filter_true.
      match goal with H : forallb _ x0 = true |- _ => etransitivity; [|exact H] end.
      apply forallb_ext. intros a. rewrite andb_false_r. cbn [negb]. rewrite andb_true_r. reflexivity.
    + match goal with H : forallb _ x0 = true |- _ =>
        apply (forallb_filter_both _ (fun v => negb (py_eq v (VStr "3des")))) in H; etransitivity; [|exact H] end.
      apply forallb_ext. intros a. rewrite andb_true_r. reflexivity.
  - (* macNames before TLS 1.2 *)
    unfold pmac. destruct (ver_lt (maxVersion c) (3, 3)); [|reflexivity].
    unfold sub_tab. apply forallb_filter_imp. exact keep_old_in_tab.
  - (* versions *)
    eapply filter_range_all. exact Hy.
  - (* keyShares *)
    match goal with H : negb (isnil (filter (fun x => negb (in_tab x (t_all_dh T)) && _) x19)) = false |- _ =>
      apply keyshares_known in H; exact H end.
  - match goal with H : negb (in_tab (ticketCipher c) _) = false |- _ => apply negb_false_iff in H; exact H end.
  - match goal with H : negb (in_tab (defaultCurve c) _) = false |- _ => apply negb_false_iff in H; exact H end.
  - match goal with H : negb (isnil (filter _ x5)) = false |- _ => apply negb_isnil_filter_forallb in H; exact H end.
Qed.
End Sup.

Lemma cvalidate_supported T I v c v' :
  List.length v = NF -> cvalidate T I v c = Ok v' -> supported_only T I (v', c) = true.
Proof.
  intros Len H.
  destruct v as [|x0 [|x1 [|x2 [|x3 [|x4 [|x5 [|x6 [|x7 [|x8 [|x9 [|x10 [|x11 [|x12 [|x13 [|x14 [|x15 [|x16
               [|x17 [|x18 [|x19 [|x20 [|x21 [|x22 r]]]]]]]]]]]]]]]]]]]]]]]; try discriminate Len.
  exact (supported_V T I c x2 x5 x6 x7 x8 x9 x10 x11 x12 x13 x14 x15 x16 x17 x18 x19 x20 x21 x0 x1 x3 x4 v' H).
Qed.

Lemma validate_supported_heap T I h s h' s' :
  wf h s = true -> validate T I h s = (h', Ok s') -> supported_only T I (view h' s') = true.
Proof.
  intros W H. pose proof (validate_refines T I h s W) as R. rewrite H in R. destruct R as [R1 [R2 _]].
  unfold view. rewrite R2. eapply cvalidate_supported; [|exact R1].
  rewrite lists_length. apply (wf_length h s W).
Qed.

Lemma validate_refines_contents_lemma :
  forall T I h s, wf h s = true ->
    match validate T I h s with
    | (h', Ok s') => cvalidate T I (lists h s) (sc s) = Ok (lists h' s') /\ sc s' = sc s
    | (h', Err e) => cvalidate T I (lists h s) (sc s) = Err e
    end.
Proof.
  intros T I h s W. pose proof (validate_refines T I h s W) as R.
  destruct (validate T I h s) as [h' [s'|e]]; [destruct R as [A [B _]]; auto|exact R].
Qed.
